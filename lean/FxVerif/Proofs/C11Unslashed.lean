import FxVerif.Proofs.C11Sanity
/-!
# C11 — a validator that was never slashed: every delegator can always withdraw and undelegate (core Lean only)

Without a slash the exchange rate of a validator stays exactly one share (10^18 raw) per token, every delegation is a
whole number of shares, and every starting info records exactly the delegator's shares as its stake — through
delegations, undelegations, redelegations, reward withdrawals and share transfers.  Then the SDK's stake sanity check
compares a number with itself and cannot fire.
-/
namespace FxVerif.Proofs.C11
open FxVerif.Model.C11 FxVerif.Gen.C11

theorem ONE_pos : 0 < ONE := by decide

/-- the invariant of a never-slashed validator; `NSx x` leaves the stake of delegator `x` open (it is being rewritten) -/
structure NSx (x : Option Nat) (v : VS) : Prop where
  rate : v.shares = v.tokens * ONE
  nosl : v.slashes = []
  int : ∀ d sh, v.del d = some sh → ∃ k, sh = k * ONE
  stake : ∀ d si sh, some d ≠ x → v.sinfo d = some si → v.del d = some sh → si.stake = sh

abbrev NS (v : VS) : Prop := NSx none v

theorem NSx.weaken {v : VS} {x : Option Nat} (h : NS v) : NSx x v :=
  ⟨h.rate, h.nosl, h.int, fun d si sh _ a b => h.stake d si sh (by simp) a b⟩

/-- the same staking / starting-info / slash records -/
theorem NSx.congr {v v' : VS} {x : Option Nat} (h1 : v'.shares = v.shares) (h2 : v'.tokens = v.tokens)
    (h3 : v'.slashes = v.slashes) (h4 : v'.del = v.del) (h5 : v'.sinfo = v.sinfo) (h : NSx x v) : NSx x v' :=
  ⟨by rw [h1, h2]; exact h.rate, by rw [h3]; exact h.nosl, by rw [h4]; exact h.int, by rw [h4, h5]; exact h.stake⟩

/-! ### arithmetic at exchange rate one -/

theorem chopRound_mul (k : Nat) : chopRound (k * ONE) = k := by
  unfold chopRound
  have h1 : k * ONE / ONE = k := Nat.mul_div_cancel k ONE_pos
  have h2 : k * ONE % ONE = 0 := Nat.mul_mod_left k ONE
  simp only [h1, h2, Nat.zero_mul]
  rw [if_pos ONE_pos]

theorem rate_quot {t sh : Nat} (ht : t ≠ 0) : sh * t * ONE * ONE / (t * ONE) = sh * ONE := by
  have e : sh * t * ONE * ONE = sh * ONE * (t * ONE) := by ac_rfl
  rw [e]
  exact Nat.mul_div_cancel _ (Nat.mul_pos (Nat.pos_of_ne_zero ht) ONE_pos)

theorem tfsTrunc_eq {v : VS} (hr : v.shares = v.tokens * ONE) {sh : Nat} (hle : sh ≤ v.shares) :
    v.tokensFromSharesTrunc sh = sh := by
  unfold VS.tokensFromSharesTrunc dQuoTrunc
  rw [hr]
  by_cases ht : v.tokens = 0
  · have : sh = 0 := by rw [hr, ht, Nat.zero_mul] at hle; omega
    subst this
    simp
  · rw [rate_quot ht]
    exact Nat.mul_div_cancel sh ONE_pos

theorem tfs_eq {v : VS} (hr : v.shares = v.tokens * ONE) {sh : Nat} (hle : sh ≤ v.shares) :
    v.tokensFromShares sh = sh := by
  unfold VS.tokensFromShares dQuo
  rw [hr]
  by_cases ht : v.tokens = 0
  · have : sh = 0 := by rw [hr, ht, Nat.zero_mul] at hle; omega
    subst this
    simp [chopRound]
  · rw [rate_quot ht]
    exact chopRound_mul sh

theorem sharesFromTokens_eq {v : VS} (hr : v.shares = v.tokens * ONE) (ht : v.tokens ≠ 0) (amt : Nat) :
    v.sharesFromTokens amt = amt * ONE := by
  unfold VS.sharesFromTokens
  rw [hr]
  have e : v.tokens * ONE * amt = v.tokens * (amt * ONE) := by ac_rfl
  rw [e]
  exact Nat.mul_div_cancel_left _ (Nat.pos_of_ne_zero ht)

theorem del_le {n : Nat} {v : VS} (hs : SumInv n v) {d sh : Nat} (h : v.del d = some sh) : sh ≤ v.shares := by
  have hd : d < n := by
    by_cases hlt : d < n
    · exact hlt
    · have := hs.2 d (by omega)
      rw [h] at this; cases this
  have a := delSum_ge v hd
  rw [h] at a
  simp only [Option.getD_some] at a
  rw [← hs.1]
  exact a

/-! ### the SDK calls -/

theorem incPeriod_same {v v' : VS} {t e : Nat} (h : v.incPeriod t = .ok (v', e)) :
    v'.shares = v.shares ∧ v'.tokens = v.tokens ∧ v'.slashes = v.slashes ∧ v'.del = v.del ∧ v'.sinfo = v.sinfo := by
  obtain ⟨_, _, rfl⟩ := incPeriod_ok h
  unfold prePeriod
  split <;> exact ⟨rfl, rfl, rfl, rfl, rfl⟩

theorem incPeriod_NS {v v' : VS} {t e : Nat} {x : Option Nat} (h : v.incPeriod t = .ok (v', e)) (hn : NSx x v) : NSx x v' := by
  obtain ⟨a, b, c, d, f⟩ := incPeriod_same h
  exact hn.congr a b c d f

theorem withdrawRewards_NS {v v' : VS} {h d c : Nat} {x : Option Nat} (hw : v.withdrawRewards h d = .ok (v', c))
    (hn : NSx x v) : NSx x v' := by
  obtain ⟨sh, si, v1, raw, v3, _, _, h1, _, h3, rfl, _⟩ := withdrawRewards_ok hw
  obtain ⟨a, b, c', e, f⟩ := incPeriod_same h1
  obtain ⟨_, rfl⟩ := decRef_ok h3
  refine ⟨?_, ?_, ?_, ?_⟩
  · show v1.shares = v1.tokens * ONE
    rw [a, b]; exact hn.rate
  · show v1.slashes = []
    rw [c']; exact hn.nosl
  · show ∀ d sh, v1.del d = some sh → _
    rw [e]; exact hn.int
  · intro d' si' sh' hx hs hd
    have hs' : setAt v1.sinfo d none d' = some si' := hs
    have hd' : v1.del d' = some sh' := hd
    by_cases hdd : d' = d
    · subst hdd; rw [setAt_same] at hs'; cases hs'
    · rw [setAt_ne _ _ hdd, f] at hs'
      rw [e] at hd'
      exact hn.stake d' si' sh' hx hs' hd'

/-- `initializeDelegation` writes exactly the delegator's shares as its stake -/
theorem initDelegation_NS {v v' : VS} {h d : Nat} (hi : v.initDelegation h d = .ok v') (hn : NSx (some d) v)
    (hle : ∀ sh, v.del d = some sh → sh ≤ v.shares) : NS v' := by
  obtain ⟨v1, sh, h1, hdel, rfl⟩ := initDelegation_ok hi
  obtain ⟨_, rfl⟩ := incRef_ok h1
  refine ⟨hn.rate, hn.nosl, hn.int, ?_⟩
  intro d' si' sh' _ hs hd
  have hs' : setAt v.sinfo d (some ⟨v.period - 1, v.tokensFromSharesTrunc sh, h⟩) d' = some si' := hs
  have hd' : v.del d' = some sh' := hd
  by_cases hdd : d' = d
  · subst hdd
    rw [setAt_same] at hs'
    cases hs'
    rw [hdel] at hd'
    cases hd'
    exact tfsTrunc_eq hn.rate (hle sh hdel)
  · rw [setAt_ne _ _ hdd] at hs'
    exact hn.stake d' si' sh' (by simp [hdd]) hs' hd'

theorem withdrawMsg_NS {n : Nat} {v v' : VS} {h d c : Nat} (hs : SumInv n v) (hw : v.withdrawMsg h d = .ok (v', c))
    (hn : NS v) : NS v' := by
  obtain ⟨v1, h1, h2⟩ := withdrawMsg_ok hw
  have n1 : NS v1 := withdrawRewards_NS h1 hn
  have sf := withdrawRewards_SF h1
  refine initDelegation_NS h2 (NSx.weaken n1) ?_
  intro sh hd
  rw [sf.1] at hd
  rw [sf.2.2]
  exact del_le hs hd

theorem issue_NS {v : VS} (d amt : Nat) (hn : NSx (some d) v) :
    NSx (some d) (v.issue d amt) ∧
    (v.issue d amt).del d = some ((v.del d).getD 0 + amt * ONE) ∧ (v.issue d amt).shares = v.shares + amt * ONE := by
  have hiss : (if v.shares = 0 then amt * ONE else v.sharesFromTokens amt) = amt * ONE := by
    by_cases hz : v.shares = 0
    · rw [if_pos hz]
    · rw [if_neg hz]
      have ht : v.tokens ≠ 0 := by
        intro ht
        apply hz
        rw [hn.rate, ht, Nat.zero_mul]
      exact sharesFromTokens_eq hn.rate ht amt
  unfold VS.issue
  dsimp only
  rw [hiss]
  refine ⟨⟨?_, hn.nosl, ?_, ?_⟩, by simp [setAt], rfl⟩
  · show v.shares + amt * ONE = (v.tokens + amt) * ONE
    rw [hn.rate, Nat.add_mul]
  · intro d' sh' hd
    have hd' : setAt v.del d (some ((v.del d).getD 0 + amt * ONE)) d' = some sh' := hd
    by_cases hdd : d' = d
    · subst hdd
      rw [setAt_same] at hd'
      cases hd'
      cases ho : v.del d' with
      | none => exact ⟨amt, by simp⟩
      | some old =>
        obtain ⟨k, hk⟩ := hn.int d' old ho
        exact ⟨k + amt, by simp [hk, Nat.add_mul]⟩
    · rw [setAt_ne _ _ hdd] at hd'
      exact hn.int d' sh' hd'
  · intro d' si' sh' hx hs hd
    have hd' : setAt v.del d (some ((v.del d).getD 0 + amt * ONE)) d' = some sh' := hd
    have hdd : d' ≠ d := by
      intro e; apply hx; rw [e]
    rw [setAt_ne _ _ hdd] at hd'
    exact hn.stake d' si' sh' hx hs hd'

theorem delegate_NS {n : Nat} {v v' : VS} {h d amt c : Nat} (hs : SumInv n v) (hx : v.delegate h d amt = .ok (v', c))
    (hn : NS v) : NS v' := by
  unfold VS.delegate at hx
  split at hx
  · cases hx
  · obtain ⟨r, h1, hx⟩ := bind_ok hx
    obtain ⟨v3, h3, hx⟩ := bind_ok hx
    cases hx
    obtain ⟨v1, c1⟩ := r
    have sf := delegatePre_SF h1
    have n1 : NS v1 := by
      unfold VS.delegatePre at h1
      split at h1
      · exact withdrawRewards_NS h1 hn
      · split at h1
        · cases h1
        · rename_i v2 e h2
          cases h1
          exact incPeriod_NS h2 hn
    obtain ⟨n2, hdel2, hsh2⟩ := issue_NS d amt (NSx.weaken n1)
    refine initDelegation_NS h3 n2 ?_
    intro sh hd
    rw [hdel2] at hd
    cases hd
    rw [hsh2]
    have : (v1.del d).getD 0 ≤ v1.shares := by
      cases ho : v1.del d with
      | none => exact Nat.zero_le _
      | some old =>
        rw [sf.1] at ho
        rw [sf.2.2]
        exact del_le hs ho
    omega

theorem setShares_NS {v : VS} (d rest : Nat) (hn : NSx (some d) v) (hk : ∃ k, rest = k * ONE) : NSx (some d) (v.setShares d rest) := by
  unfold VS.setShares
  refine ⟨hn.rate, hn.nosl, ?_, ?_⟩
  · intro d' sh' hd
    have hd' : setAt v.del d (if rest = 0 then none else some rest) d' = some sh' := hd
    by_cases hdd : d' = d
    · subst hdd
      rw [setAt_same] at hd'
      split at hd'
      · cases hd'
      · cases hd'; exact hk
    · rw [setAt_ne _ _ hdd] at hd'
      exact hn.int d' sh' hd'
  · intro d' si' sh' hx hs hd
    have hd' : setAt v.del d (if rest = 0 then none else some rest) d' = some sh' := hd
    have hdd : d' ≠ d := by
      intro e; apply hx; rw [e]
    rw [setAt_ne _ _ hdd] at hd'
    exact hn.stake d' si' sh' hx hs hd'

/-- `RemoveValidatorTokensAndShares` of a whole number of shares keeps the exchange rate at one -/
theorem removeTokens_NS {v v' : VS} {k ret : Nat} (hx : v.removeTokens (k * ONE) = .ok (v', ret)) (hn : NS v)
    (hle : k * ONE ≤ v.shares) : NS v' := by
  unfold VS.removeTokens at hx
  dsimp only at hx
  have hiss : (if v.shares - k * ONE = 0 then v.tokens else v.tokensFromShares (k * ONE) / ONE) = k := by
    have hkt : k ≤ v.tokens := by
      rw [hn.rate] at hle
      exact Nat.le_of_mul_le_mul_right hle ONE_pos
    split
    · rename_i hz
      have : v.tokens * ONE ≤ k * ONE := by rw [← hn.rate]; omega
      have := Nat.le_of_mul_le_mul_right this ONE_pos
      omega
    · rw [tfs_eq hn.rate hle]
      exact Nat.mul_div_cancel k ONE_pos
  rw [hiss] at hx
  split at hx
  · cases hx
  · cases hx
    refine ⟨?_, hn.nosl, hn.int, hn.stake⟩
    show v.shares - k * ONE = (v.tokens - k) * ONE
    rw [hn.rate, Nat.sub_mul]

theorem unbond_NS {n : Nat} {v v' : VS} {h d k ret c : Nat} (hs : SumInv n v) (hx : v.unbond h d (k * ONE) = .ok (v', ret, c))
    (hn : NS v) : NS v' := by
  unfold VS.unbond at hx
  split at hx
  · cases hx
  · rename_i sh hdel
    obtain ⟨r, h1, hx⟩ := bind_ok hx
    split at hx
    · cases hx
    · rename_i hlt
      obtain ⟨v2, h2, hx⟩ := bind_ok hx
      obtain ⟨q, h3, hx⟩ := bind_ok hx
      cases hx
      obtain ⟨v1, c1⟩ := r
      obtain ⟨v3, ret'⟩ := q
      have sf := withdrawRewards_SF h1
      have n1 : NS v1 := withdrawRewards_NS h1 hn
      have hsh : sh ≤ v.shares := del_le hs hdel
      obtain ⟨ks, hks⟩ := hn.int d sh hdel
      have hrest : ∃ j, sh - k * ONE = j * ONE := ⟨ks - k, by rw [hks, Nat.sub_mul]⟩
      have n2 : NS v2 := by
        unfold VS.unbondPost at h2
        split at h2
        · rename_i hz0
          cases h2
          have a := setShares_NS d (sh - k * ONE) (NSx.weaken n1) hrest
          -- the delegation is gone: nothing is left open
          refine ⟨a.rate, a.nosl, a.int, ?_⟩
          intro d' si' sh' _ hs' hd'
          by_cases hdd : d' = d
          · subst hdd
            have : (v1.setShares d' (sh - k * ONE)).del d' = none := by
              unfold VS.setShares
              show setAt v1.del d' (if sh - k * ONE = 0 then none else some (sh - k * ONE)) d' = none
              rw [setAt_same, if_pos hz0]
            rw [this] at hd'; cases hd'
          · exact a.stake d' si' sh' (by simp [hdd]) hs' hd'
        · refine initDelegation_NS h2 (setShares_NS d (sh - k * ONE) (NSx.weaken n1) hrest) ?_
          intro sh2 hd2
          have : (v1.setShares d (sh - k * ONE)).del d = (if sh - k * ONE = 0 then none else some (sh - k * ONE)) := by
            unfold VS.setShares
            show setAt v1.del d _ d = _
            rw [setAt_same]
          rw [this] at hd2
          split at hd2
          · cases hd2
          · cases hd2
            show sh - k * ONE ≤ v1.shares
            rw [sf.2.2]
            omega
      have hsh2 : v2.shares = v.shares := by
        unfold VS.unbondPost at h2
        split at h2
        · cases h2; exact sf.2.2
        · exact ((initDelegation_SF h2).2.2).trans sf.2.2
      refine removeTokens_NS h3 n2 ?_
      rw [hsh2]
      omega

/-! ### the share transfer -/

theorem xferLookup_NS {c : Cfg} {n : Nat} {v v1 v2 : VS} {h t rt : Nat} (hs1 : SumInv n v1)
    (hl : VS.xferLookup c v v1 h t = .ok (v2, rt)) (hn : NS v1) : NS v2 := by
  unfold VS.xferLookup at hl
  split at hl
  · split at hl
    · split at hl
      · cases hl
      · rename_i v2' e h1
        cases hl
        exact incPeriod_NS h1 hn
    · cases hl; exact hn
  · split at hl
    · exact withdrawMsg_NS hs1 hl hn
    · cases hl; exact hn

theorem xferFrom_NS {c : Cfg} (hg : good c = true) {v v2 v3 : VS} {f fsh x : Nat} (hr : v.shares = v.tokens * ONE)
    (hv2 : v2.tokens = v.tokens ∧ v2.shares = v.shares) (hfs : fsh ≤ v.shares) (hk : ∃ k, fsh = k * ONE)
    (hx : VS.xferFrom c v v2 f fsh (x * ONE) = .ok v3) (hn : NS v2) : NS v3 := by
  obtain ⟨-, -, -, -, -, -, -, g8, g9, -⟩ := good_fields hg
  unfold VS.xferFrom at hx
  simp only [g8, g9, if_true] at hx
  split at hx
  · cases hx
  · split at hx
    · split at hx
      · cases hx
      · rename_i b hb
        obtain ⟨_, rfl⟩ := decRef_ok hb
        cases hx
        refine ⟨hn.rate, hn.nosl, ?_, ?_⟩
        · intro d' sh' hd
          have hd' : setAt v2.del f none d' = some sh' := hd
          by_cases hdd : d' = f
          · subst hdd; rw [setAt_same] at hd'; cases hd'
          · rw [setAt_ne _ _ hdd] at hd'; exact hn.int d' sh' hd'
        · intro d' si' sh' hx' hs hd
          have hd' : setAt v2.del f none d' = some sh' := hd
          have hs' : setAt v2.sinfo f none d' = some si' := hs
          by_cases hdd : d' = f
          · subst hdd; rw [setAt_same] at hd'; cases hd'
          · rw [setAt_ne _ _ hdd] at hd' hs'; exact hn.stake d' si' sh' hx' hs' hd'
    · cases hx
      obtain ⟨k, hk⟩ := hk
      refine ⟨hn.rate, hn.nosl, ?_, ?_⟩
      · intro d' sh' hd
        have hd' : setAt v2.del f (some (fsh - x * ONE)) d' = some sh' := hd
        by_cases hdd : d' = f
        · subst hdd
          rw [setAt_same] at hd'
          cases hd'
          exact ⟨k - x, by rw [hk, Nat.sub_mul]⟩
        · rw [setAt_ne _ _ hdd] at hd'; exact hn.int d' sh' hd'
      · intro d' si' sh' hx' hs hd
        have hd' : setAt v2.del f (some (fsh - x * ONE)) d' = some sh' := hd
        have hs' : setAt v2.sinfo f (some { (v2.sinfo f).getD ⟨0, 0, 0⟩ with stake := v.tokensFromSharesTrunc (fsh - x * ONE) }) d' =
            some si' := hs
        by_cases hdd : d' = f
        · subst hdd
          rw [setAt_same] at hd' hs'
          cases hd'
          cases hs'
          exact tfsTrunc_eq hr (by omega)
        · rw [setAt_ne _ _ hdd] at hd' hs'; exact hn.stake d' si' sh' hx' hs' hd'

theorem xferTo_NS {c : Cfg} (hg : good c = true) {v v3 v4 : VS} {h t x : Nat} {o : Option Nat}
    (hr : v.shares = v.tokens * ONE) (hle : o.getD 0 + x * ONE ≤ v.shares) (hk : ∃ k, o.getD 0 = k * ONE)
    (hx : VS.xferTo c v v3 h t (x * ONE) o = .ok v4) (hn : NS v3) : NS v4 := by
  obtain ⟨-, -, -, -, g5, -, -, -, -, g10, g11, -⟩ := good_fields hg
  obtain ⟨k, hk⟩ := hk
  unfold VS.xferTo at hx
  simp only [g5, g10, g11, if_true] at hx
  split at hx
  · split at hx
    · cases hx
    · rename_i v5 h5
      obtain ⟨_, rfl⟩ := incRef_ok h5
      cases hx
      refine ⟨hn.rate, hn.nosl, ?_, ?_⟩
      · intro d' sh' hd
        have hd' : setAt v3.del t (some ((none : Option Nat).getD 0 + x * ONE)) d' = some sh' := hd
        by_cases hdd : d' = t
        · subst hdd
          rw [setAt_same] at hd'
          cases hd'
          exact ⟨x, by simp⟩
        · rw [setAt_ne _ _ hdd] at hd'; exact hn.int d' sh' hd'
      · intro d' si' sh' hx' hs hd
        have hd' : setAt v3.del t (some ((none : Option Nat).getD 0 + x * ONE)) d' = some sh' := hd
        by_cases hdd : d' = t
        · subst hdd
          rw [setAt_same] at hd'
          cases hd'
          have hs' : setAt v3.sinfo d' (some ⟨v3.period - 1, v.tokensFromSharesTrunc (x * ONE), h⟩) d' = some si' := hs
          rw [setAt_same] at hs'
          cases hs'
          show v.tokensFromSharesTrunc (x * ONE) = (none : Option Nat).getD 0 + x * ONE
          rw [tfsTrunc_eq hr (by simpa using hle)]
          simp
        · have hs' : setAt v3.sinfo t (some ⟨v3.period - 1, v.tokensFromSharesTrunc (x * ONE), h⟩) d' = some si' := hs
          rw [setAt_ne _ _ hdd] at hd' hs'
          exact hn.stake d' si' sh' hx' hs' hd'
  · rename_i old
    cases hx
    refine ⟨hn.rate, hn.nosl, ?_, ?_⟩
    · intro d' sh' hd
      have hd' : setAt v3.del t (some ((some old).getD 0 + x * ONE)) d' = some sh' := hd
      by_cases hdd : d' = t
      · subst hdd
        rw [setAt_same] at hd'
        cases hd'
        exact ⟨k + x, by rw [hk, Nat.add_mul]⟩
      · rw [setAt_ne _ _ hdd] at hd'; exact hn.int d' sh' hd'
    · intro d' si' sh' hx' hs hd
      have hd' : setAt v3.del t (some ((some old).getD 0 + x * ONE)) d' = some sh' := hd
      by_cases hdd : d' = t
      · subst hdd
        rw [setAt_same] at hd'
        cases hd'
        have hs' : setAt v3.sinfo d' (some { ((setAt v3.sinfo d' (v3.sinfo d') : Nat → Option SInfo) d').getD ⟨0, 0, 0⟩ with
            stake := v.tokensFromSharesTrunc ((some old).getD 0 + x * ONE) }) d' = some si' := by
          simpa [setAt] using hs
        rw [setAt_same] at hs'
        cases hs'
        exact tfsTrunc_eq hr hle
      · have hs' : setAt v3.sinfo t (some { (v3.sinfo t).getD ⟨0, 0, 0⟩ with
            stake := v.tokensFromSharesTrunc ((some old).getD 0 + x * ONE) }) d' = some si' := hs
        rw [setAt_ne _ _ hdd] at hd' hs'
        exact hn.stake d' si' sh' hx' hs' hd'

theorem transfer_NS {c : Cfg} (hg : good c = true) {n : Nat} {v v' : VS} {h f t x rf rt : Nat} {recv : Bool}
    (hs : SumInv n v) (hf : f < n) (htn : t < n) (ht : VS.transfer c v h f t (x * ONE) recv = .ok (v', rf, rt))
    (hn : NS v) : NS v' := by
  by_cases hne : f = t
  · subst hne
    rw [(transfer_self hg ht).1]; exact hn
  · obtain ⟨fsh, v1, v2, v3, hdf, _, hle, h1, h2, h3, h4⟩ := transfer_ok hg hne ht
    have sf1 := withdrawMsg_SF h1
    have sf2 := xferLookup_SF h2
    have hs1 : SumInv n v1 := SumInv_of_SF sf1 hs
    have n1 : NS v1 := withdrawMsg_NS hs h1 hn
    have n2 : NS v2 := xferLookup_NS hs1 h2 n1
    have hfs : fsh ≤ v.shares := del_le hs hdf
    have n3 : NS v3 := xferFrom_NS hg hn.rate ⟨sf2.2.1.trans sf1.2.1, sf2.2.2.trans sf1.2.2⟩ hfs (hn.int f fsh hdf) h3 n2
    -- the recipient's new shares are a delegation of the result, hence at most the (unchanged) total
    obtain ⟨_, _, _, _, _, hsh', hdel'⟩ := transfer_del hg hne ht
    have hs' : SumInv n v' := transfer_SumInv hg hf htn ht hs
    have htd : v'.del t = some ((v.del t).getD 0 + x * ONE) := by rw [hdel']; simp [setAt]
    have hle' : (v1.del t).getD 0 + x * ONE ≤ v.shares := by
      rw [sf1.1, ← hsh']
      exact del_le hs' htd
    have hk : ∃ k, (v1.del t).getD 0 = k * ONE := by
      rw [sf1.1]
      cases ho : v.del t with
      | none => exact ⟨0, by simp⟩
      | some old => exact hn.int t old ho
    exact xferTo_NS hg hn.rate hle' hk h4 n3

/-! ### the chain: a validator no operation slashes -/

theorem validateUnbond_int {v : VS} {d amt shares : Nat} (hn : NS v) (h : v.validateUnbond d amt = .ok shares) :
    ∃ k, shares = k * ONE := by
  unfold VS.validateUnbond at h
  split at h
  · cases h
  · rename_i sh hdel
    split at h
    · cases h
    · rename_i ht
      split at h
      · cases h
      · cases h
        rw [sharesFromTokens_eq hn.rate ht]
        obtain ⟨k, hk⟩ := hn.int d sh hdel
        by_cases hm : amt * ONE ≤ sh
        · exact ⟨amt, Nat.min_eq_left hm⟩
        · exact ⟨k, by rw [Nat.min_eq_right (by omega)]; exact hk⟩

theorem status_NS {v : VS} (b ub j : Bool) (u : Nat) (h : NS v) :
    NS { v with bonded := b, unbonded := ub, ubHeight := u, jailed := j } :=
  ⟨h.rate, h.nosl, h.int, h.stake⟩

theorem endBlock_NS {v : VS} (h : Nat) (hn : NS v) : NS (v.endBlock h) := by
  unfold VS.endBlock
  dsimp only
  split
  · exact status_NS false v.unbonded v.jailed h hn
  · split
    · exact status_NS true false v.jailed v.ubHeight hn
    · exact hn

theorem matureStep_NS {v : VS} (h H : Nat) (hn : NS v) :
    NS (if v.bonded then v.endBlock h else (v.endBlock h).matureValTo H) := by
  split
  · exact endBlock_NS h hn
  · unfold VS.matureValTo
    split
    · unfold VS.matureVal
      split
      · exact endBlock_NS h hn
      · exact status_NS _ true _ _ (endBlock_NS h hn)
    · exact endBlock_NS h hn

theorem alloc_NS {v : VS} (amt : Nat) (hn : NS v) : NS (v.alloc amt) := by
  obtain ⟨_, _, _, a4, a5, a6⟩ := alloc_fields v amt
  have sf := alloc_SF v amt
  exact hn.congr sf.2.2 sf.2.1 a5 a6 a4

theorem transferOp_NS {c : Cfg} (hg : good c = true) {s s' : State} {f t v x w : Nat} (hi : SInv s)
    (hn : NS (s.vs w)) (h : s.transferOp c f t v x = .ok s') : NS (s'.vs w) := by
  unfold State.transferOp at h
  split at h
  · cases h
  · rename_i hok
    have hok' : s.okAcc f = true ∧ s.okAcc t = true ∧ s.okVal v = true := by
      revert hok
      cases s.okAcc f <;> cases s.okAcc t <;> cases s.okVal v <;> decide
    split at h
    · cases h
    · split at h
      · cases h
      · rename_i v' rf rt ht
        cases h
        show NS (setAt s.vs v v' w)
        by_cases hwv : w = v
        · subst hwv
          rw [setAt_same]
          exact transfer_NS hg (hi w (lt_of_okVal hok'.2.2)).sum (lt_of_okAcc' hok'.1) (lt_of_okAcc' hok'.2.1) ht hn
        · rw [setAt_ne _ _ hwv]; exact hn

/-- every operation other than a slash of validator `w` keeps `w` at exchange rate one -/
theorem exec_NS {c : Cfg} (hg : good c = true) {s s' : State} {o : Op} {w : Nat} (hi : SInv s) (hn : NS (s.vs w))
    (hnot : ∀ p f, o ≠ .slash w p f) (h : s.exec c o = .ok s') : NS (s'.vs w) := by
  cases o with
  | delegate d v amt =>
    simp only [State.exec] at h
    split at h
    · cases h
    · rename_i hok
      have hv := lt_of_okVal (b2 hok).2
      split at h
      · cases h
      · rename_i v' r hx
        cases h
        show NS (setAt s.vs v v' w)
        by_cases hwv : w = v
        · subst hwv; rw [setAt_same]; exact delegate_NS (hi w hv).sum hx hn
        · rw [setAt_ne _ _ hwv]; exact hn
  | undelegate d v amt =>
    simp only [State.exec] at h
    split at h
    · cases h
    · rename_i hok
      have hv := lt_of_okVal (b2 hok).2
      split at h
      · cases h
      · rename_i shares hvu
        split at h
        · cases h
        · split at h
          · cases h
          · rename_i v' ret r hx
            cases h
            show NS (setAt s.vs v v' w)
            by_cases hwv : w = v
            · subst hwv
              rw [setAt_same]
              obtain ⟨k, rfl⟩ := validateUnbond_int hn hvu
              exact unbond_NS (hi w hv).sum hx hn
            · rw [setAt_ne _ _ hwv]; exact hn
  | redelegate d src dst amt =>
    simp only [State.exec] at h
    split at h
    · cases h
    · rename_i hok
      have hsrc := lt_of_okVal (b3 hok).2.1
      have hdst := lt_of_okVal (b3 hok).2.2
      split at h
      · cases h
      · rename_i shares hvu
        split at h
        · cases h
        · split at h
          · cases h
          · split at h
            · cases h
            · split at h
              · cases h
              · rename_i vsrc ret r1 hx
                split at h
                · cases h
                · split at h
                  · cases h
                  · rename_i vdst r2 hy
                    cases h
                    have hne : ¬ (src == dst) = true := by assumption
                    have hsd : dst ≠ src := by
                      intro e; apply hne; simp [e]
                    show NS (setAt (setAt s.vs src vsrc) dst vdst w)
                    by_cases hwd : w = dst
                    · subst hwd
                      rw [setAt_same]
                      exact delegate_NS (hi w hdst).sum hy hn
                    · rw [setAt_ne _ _ hwd]
                      by_cases hws : w = src
                      · subst hws
                        rw [setAt_same]
                        obtain ⟨k, rfl⟩ := validateUnbond_int hn hvu
                        exact unbond_NS (hi w hsrc).sum hx hn
                      · rw [setAt_ne _ _ hws]; exact hn
  | withdraw d v =>
    simp only [State.exec] at h
    split at h
    · cases h
    · rename_i hok
      have hok' : s.okAcc d = true ∧ s.okVal v = true := by
        revert hok
        cases s.okAcc d <;> cases s.okVal v <;> decide
      split at h
      · cases h
      · rename_i v' r hx
        cases h
        show NS (setAt s.vs v v' w)
        by_cases hwv : w = v
        · subst hwv; rw [setAt_same]; exact withdrawMsg_NS (hi w (lt_of_okVal hok'.2)).sum hx hn
        · rw [setAt_ne _ _ hwv]; exact hn
  | approve owner spender v shares =>
    simp only [State.exec] at h
    split at h
    · cases h
    · cases h; exact hn
  | transfer f t v x =>
    simp only [State.exec] at h
    rw [transferTx_eq hg] at h
    exact transferOp_NS hg hi hn h
  | transferFrom sp f t v x =>
    simp only [State.exec] at h
    rw [transferFromTx_eq hg] at h
    simp only [State.transferFromRef] at h
    split at h
    · cases h
    · split at h
      · cases h
      · split at h
        · cases h
        · split at h
          · cases h
          · refine transferOp_NS hg ?_ ?_ h
            · exact hi
            · exact hn
  | alloc v amt =>
    simp only [State.exec] at h
    split at h
    · cases h
    · cases h
      show NS (setAt s.vs v ((s.vs v).alloc amt) w)
      by_cases hwv : w = v
      · subst hwv; rw [setAt_same]; exact alloc_NS amt hn
      · rw [setAt_ne _ _ hwv]; exact hn
  | slash v p f =>
    simp only [State.exec] at h
    split at h
    · cases h
    · cases h
      show NS (setAt s.vs v ((s.vs v).slash s.height p f) w)
      by_cases hwv : w = v
      · subst hwv; exact absurd rfl (hnot p f)
      · rw [setAt_ne _ _ hwv]; exact hn
  | block =>
    simp only [State.exec] at h
    cases h
    exact endBlock_NS _ hn
  | mature H =>
    simp only [State.exec] at h
    cases h
    exact matureStep_NS _ H hn
  | jail v =>
    simp only [State.exec] at h
    split at h
    · cases h
    · cases h
      show NS (setAt s.vs v { s.vs v with jailed := true } w)
      by_cases hwv : w = v
      · subst hwv; rw [setAt_same]; exact status_NS _ _ _ _ hn
      · rw [setAt_ne _ _ hwv]; exact hn
  | unjail v =>
    simp only [State.exec] at h
    split at h
    · cases h
    · cases h
      show NS (setAt s.vs v { s.vs v with jailed := false } w)
      by_cases hwv : w = v
      · subst hwv; rw [setAt_same]; exact status_NS _ _ _ _ hn
      · rw [setAt_ne _ _ hwv]; exact hn

theorem run_NS {c : Cfg} (hg : good c = true) {w : Nat} : ∀ (ops : List Op) (s : State), SInv s → NS (s.vs w) →
    (∀ o, o ∈ ops → ∀ p f, o ≠ .slash w p f) → NS ((s.run c ops).vs w) := by
  intro ops
  induction ops with
  | nil => intro s _ hn _; exact hn
  | cons o os ih =>
    intro s hi hn hnot
    have hi' := (step_SInv hg o hi).1
    have hn' : NS ((s.step c o).vs w) := by
      unfold State.step
      cases h : s.exec c o with
      | error e => exact hn
      | ok s' => exact exec_NS hg hi hn (hnot o (List.mem_cons_self ..)) h
    exact ih (s.step c o) hi' hn' (fun o' ho' => hnot o' (List.mem_cons_of_mem _ ho'))

theorem genesis_NS (i t r : Nat) : NS (genesisVS i t r) := by
  unfold genesisVS
  refine ⟨rfl, rfl, ?_, ?_⟩
  · intro d sh hd
    have hd' : setAt (fun _ => (none : Option Nat)) i (some (t * ONE)) d = some sh := hd
    by_cases hdi : d = i
    · subst hdi; rw [setAt_same] at hd'; cases hd'; exact ⟨t, rfl⟩
    · rw [setAt_ne _ _ hdi] at hd'; cases hd'
  · intro d si sh _ hs hd
    have hd' : setAt (fun _ => (none : Option Nat)) i (some (t * ONE)) d = some sh := hd
    have hs' : setAt (fun _ => (none : Option SInfo)) i (some ⟨1, t * ONE, 0⟩) d = some si := hs
    by_cases hdi : d = i
    · subst hdi; rw [setAt_same] at hd' hs'; cases hd'; cases hs'; rfl
    · rw [setAt_ne _ _ hdi] at hd'; cases hd'

theorem init_NS (nAcc h0 : Nat) (vals : List (Nat × Nat)) (w : Nat) : NS ((init nAcc h0 vals).vs w) := by
  show NS (match vals[w]? with | some (t, r) => genesisVS w t r | none => {})
  cases vals[w]? with
  | none =>
    refine ⟨?_, rfl, ?_, ?_⟩
    · show 0 = 0 * ONE
      rw [Nat.zero_mul]
    · intro d sh hd
      have hd' : (none : Option Nat) = some sh := hd
      cases hd'
    · intro d si sh _ hs _
      have hs' : (none : Option SInfo) = some si := hs
      cases hs'
  | some p => exact genesis_NS w p.1 p.2

/-- for a validator at exchange rate one the stake sanity predicate is false -/
theorem NS_not_sanity {n : Nat} {v : VS} (hs : SumInv n v) (hn : NS v) (h d : Nat) : v.sanityFires h d = false := by
  unfold VS.sanityFires
  cases hsi : v.sinfo d with
  | none => rfl
  | some si =>
    cases hd : v.del d with
    | none => rfl
    | some sh =>
      dsimp only
      have hw : v.window si h = [] := by
        unfold VS.window
        rw [hn.nosl]
        split <;> rfl
      have hst := hn.stake d si sh (by simp) hsi hd
      rw [hw, tfs_eq hn.rate (del_le hs hd)]
      show (si.height != h && decide (sh + 3 < si.stake)) = false
      rw [hst]
      simp

end FxVerif.Proofs.C11
