import FxVerif.Model.C15
import FxVerif.Proofs.C15
/-!
# C15 — queue consistency of the gov proposal queues (core Lean only)

`InactiveProposalsQueue` holds exactly the `(deposit end, id)` of the stored proposals in their deposit period, and
`ActiveProposalsQueue` exactly the `(voting end, id)` of the stored proposals in their voting period; both are strictly
sorted by key (so every entry is there once).  This is an invariant of every operation of the model; with it the
end-blocker never meets a queue entry without a stored proposal.
-/
namespace FxVerif.Proofs.C15
open FxVerif.Gen.C15 FxVerif.Model.C15

abbrev Q := List (Nat × Nat)

/-- strict key order of the queues (`collections.Pair[time.Time, uint64]`) -/
def qlt (a b : Nat × Nat) : Prop := a.1 < b.1 ∨ (a.1 = b.1 ∧ a.2 < b.2)

theorem mem_removeQ {e x : Nat × Nat} {q : Q} : x ∈ removeQ e q ↔ x ∈ q ∧ x ≠ e := by
  simp [removeQ]

theorem mem_insertQ {e x : Nat × Nat} {q : Q} : x ∈ insertQ e q ↔ x = e ∨ x ∈ q := by
  induction q with
  | nil => simp [insertQ]
  | cons y r ih =>
    unfold insertQ
    split
    · split
      · rename_i _ hxy
        have : e = y := by simpa using hxy
        subst this
        simp only [List.mem_cons]
        constructor
        · intro h; exact Or.inr h
        · intro h; rcases h with h | h
          · exact Or.inl h
          · exact h
      · simp only [List.mem_cons]
    · simp only [List.mem_cons, ih]
      constructor
      · intro h; rcases h with h | h | h
        · exact Or.inr (Or.inl h)
        · exact Or.inl h
        · exact Or.inr (Or.inr h)
      · intro h; rcases h with h | h | h
        · exact Or.inr (Or.inl h)
        · exact Or.inl h
        · exact Or.inr (Or.inr h)

theorem sorted_removeQ {e : Nat × Nat} {q : Q} (h : q.Pairwise qlt) : (removeQ e q).Pairwise qlt :=
  List.Pairwise.filter _ h

theorem sorted_insertQ {e : Nat × Nat} {q : Q} (h : q.Pairwise qlt) : (insertQ e q).Pairwise qlt := by
  induction q with
  | nil => simp [insertQ]
  | cons y r ih =>
    have hy := List.pairwise_cons.mp h
    unfold insertQ
    split
    · rename_i hlt
      split
      · exact h
      · rename_i hne
        have hey : qlt e y := by
          simp only [Bool.or_eq_true, decide_eq_true_eq, Bool.and_eq_true, beq_iff_eq] at hlt
          rcases hlt with hlt | ⟨h1, h2⟩
          · exact Or.inl hlt
          · refine Or.inr ⟨h1, ?_⟩
            have : e.2 ≠ y.2 := by
              intro h3
              apply hne
              simp only [beq_iff_eq]
              exact Prod.ext h1 h3
            omega
        refine List.pairwise_cons.mpr ⟨?_, h⟩
        intro z hz
        rcases List.mem_cons.mp hz with hz | hz
        · rw [hz]; exact hey
        · have := hy.1 z hz
          unfold qlt at hey this ⊢
          omega
    · rename_i hlt
      have hye : qlt y e := by
        simp only [Bool.or_eq_true, decide_eq_true_eq, Bool.and_eq_true, beq_iff_eq, not_or, not_and] at hlt
        unfold qlt
        omega
      refine List.pairwise_cons.mpr ⟨?_, ih hy.2⟩
      intro z hz
      rcases mem_insertQ.mp hz with hz | hz
      · rw [hz]; exact hye
      · exact hy.1 z hz

theorem qlt_irrefl (a : Nat × Nat) : ¬ qlt a a := by unfold qlt; omega

theorem nodup_of_sorted {q : Q} (h : q.Pairwise qlt) : q.Nodup := by
  refine List.Pairwise.imp ?_ h
  intro a b hab he
  subst he
  exact qlt_irrefl a hab

/-! ### the invariant, on the four components it speaks about -/

structure QI (props : List Proposal) (nextId : Nat) (inactive active : Q) : Prop where
  ids : ∀ id p, findProp props id = some p → id < nextId
  inactSound : ∀ t id, (t, id) ∈ inactive → ∃ p, findProp props id = some p ∧ p.status = .deposit ∧ p.depositEnd = t
  inactComplete : ∀ id p, findProp props id = some p → p.status = .deposit → (p.depositEnd, id) ∈ inactive
  actSound : ∀ t id, (t, id) ∈ active → ∃ p, findProp props id = some p ∧ p.status = .voting ∧ p.votingEnd = t
  actComplete : ∀ id p, findProp props id = some p → p.status = .voting → (p.votingEnd, id) ∈ active
  inactSorted : inactive.Pairwise qlt
  actSorted : active.Pairwise qlt
  /-- every stored proposal passed `checkProposalMsgs` -/
  typed : ∀ id p, findProp props id = some p → checkMsgs p.msgs = true

def QInv (s : State) : Prop := QI s.props s.nextId s.inactive s.active

theorem init_qinv : QInv init := by
  refine ⟨?_, ?_, ?_, ?_, ?_, ?_, ?_, ?_⟩
  · intro id p h; simp [init, findProp] at h
  · intro t id h; simp [init] at h
  · intro id p h; simp [init, findProp] at h
  · intro t id h; simp [init] at h
  · intro id p h; simp [init, findProp] at h
  · simp [init]
  · simp [init]
  · intro id p h; simp [init, findProp] at h

/-- replacing a stored proposal by one with the same id, status and queue times -/
theorem qi_put_same {props : List Proposal} {n : Nat} {ia ac : Q} (h : QI props n ia ac) {p q : Proposal}
    (hp : findProp props q.id = some p) (hs : q.status = p.status) (hd : q.depositEnd = p.depositEnd)
    (hv : q.votingEnd = p.votingEnd) (hm : q.msgs = p.msgs) : QI (putProp props q) n ia ac := by
  have key : ∀ id r, findProp (putProp props q) id = some r →
      ∃ r0, findProp props id = some r0 ∧ r.status = r0.status ∧ r.depositEnd = r0.depositEnd ∧ r.votingEnd = r0.votingEnd ∧
        r.msgs = r0.msgs := by
    intro id r hr
    rw [findProp_putProp] at hr
    by_cases hid : id = q.id
    · subst hid
      simp only [if_true, hp, Option.map_some, Option.some.injEq] at hr
      subst hr
      exact ⟨p, hp, hs, hd, hv, hm⟩
    · simp only [hid, if_false] at hr
      exact ⟨r, hr, rfl, rfl, rfl, rfl⟩
  have key2 : ∀ id r0, findProp props id = some r0 →
      ∃ r, findProp (putProp props q) id = some r ∧ r.status = r0.status ∧ r.depositEnd = r0.depositEnd ∧ r.votingEnd = r0.votingEnd := by
    intro id r0 hr0
    rw [findProp_putProp]
    by_cases hid : id = q.id
    · subst hid
      rw [hp] at hr0
      cases hr0
      exact ⟨q, by simp [hp], hs, hd, hv⟩
    · exact ⟨r0, by simp [hid, hr0], rfl, rfl, rfl⟩
  refine ⟨?_, ?_, ?_, ?_, ?_, h.inactSorted, h.actSorted, ?_⟩
  rotate_left 5
  · intro id r hr
    obtain ⟨r0, h0, _, _, _, e4⟩ := key id r hr
    rw [e4]; exact h.typed id r0 h0
  · intro id r hr
    obtain ⟨r0, h0, _⟩ := key id r hr
    exact h.ids id r0 h0
  · intro t id hm
    obtain ⟨r0, h0, h1, h2⟩ := h.inactSound t id hm
    obtain ⟨r, hr, e1, e2, _⟩ := key2 id r0 h0
    exact ⟨r, hr, e1.trans h1, e2.trans h2⟩
  · intro id r hr hst
    obtain ⟨r0, h0, e1, e2, _, _⟩ := key id r hr
    rw [e2]; exact h.inactComplete id r0 h0 (e1 ▸ hst)
  · intro t id hm
    obtain ⟨r0, h0, h1, h2⟩ := h.actSound t id hm
    obtain ⟨r, hr, e1, _, e3⟩ := key2 id r0 h0
    exact ⟨r, hr, e1.trans h1, e3.trans h2⟩
  · intro id r hr hst
    obtain ⟨r0, h0, e1, _, e3, _⟩ := key id r hr
    rw [e3]; exact h.actComplete id r0 h0 (e1 ▸ hst)

/-- deleting a stored proposal together with its queue entries (`DeleteProposal`) -/
theorem qi_drop {props : List Proposal} {n : Nat} {ia ac : Q} (h : QI props n ia ac) {p : Proposal} {pid : Nat}
    (hp : findProp props pid = some p) :
    QI (dropProp props pid) n (removeQ (p.depositEnd, pid) ia) (removeQ (p.votingEnd, pid) ac) := by
  refine ⟨?_, ?_, ?_, ?_, ?_, sorted_removeQ h.inactSorted, sorted_removeQ h.actSorted, ?_⟩
  rotate_left 5
  · intro id r hr
    rw [findProp_dropProp] at hr
    by_cases hid : id = pid
    · simp [hid] at hr
    · simp only [hid, if_false] at hr; exact h.typed id r hr
  · intro id r hr
    rw [findProp_dropProp] at hr
    by_cases hid : id = pid
    · simp [hid] at hr
    · simp only [hid, if_false] at hr; exact h.ids id r hr
  · intro t id hm
    obtain ⟨hm1, hm2⟩ := mem_removeQ.mp hm
    obtain ⟨r, hr, h1, h2⟩ := h.inactSound t id hm1
    have hid : id ≠ pid := by
      intro he; subst he
      rw [hp] at hr; cases hr
      exact hm2 (by rw [h2])
    exact ⟨r, by rw [findProp_dropProp]; simp [hid, hr], h1, h2⟩
  · intro id r hr hst
    rw [findProp_dropProp] at hr
    by_cases hid : id = pid
    · simp [hid] at hr
    · simp only [hid, if_false] at hr
      refine mem_removeQ.mpr ⟨h.inactComplete id r hr hst, ?_⟩
      intro he; exact hid (Prod.mk.inj he).2
  · intro t id hm
    obtain ⟨hm1, hm2⟩ := mem_removeQ.mp hm
    obtain ⟨r, hr, h1, h2⟩ := h.actSound t id hm1
    have hid : id ≠ pid := by
      intro he; subst he
      rw [hp] at hr; cases hr
      exact hm2 (by rw [h2])
    exact ⟨r, by rw [findProp_dropProp]; simp [hid, hr], h1, h2⟩
  · intro id r hr hst
    rw [findProp_dropProp] at hr
    by_cases hid : id = pid
    · simp [hid] at hr
    · simp only [hid, if_false] at hr
      refine mem_removeQ.mpr ⟨h.actComplete id r hr hst, ?_⟩
      intro he; exact hid (Prod.mk.inj he).2

/-- a stored proposal in its voting period leaves the voting period (passed / rejected / failed): its entry is removed -/
theorem qi_end_voting {props : List Proposal} {n : Nat} {ia ac : Q} (h : QI props n ia ac) {p q : Proposal} {pid : Nat}
    (hp : findProp props pid = some p) (hst : p.status = .voting) (hid : q.id = pid)
    (hq1 : q.status ≠ .voting) (hq2 : q.status ≠ .deposit) (hm : q.msgs = p.msgs) :
    QI (putProp props q) n ia (removeQ (p.votingEnd, pid) ac) := by
  have hfind : ∀ id, findProp (putProp props q) id = if id = pid then some q else findProp props id := by
    intro id
    rw [findProp_putProp, hid]
    by_cases he : id = pid
    · subst he; simp [hp]
    · simp [he]
  refine ⟨?_, ?_, ?_, ?_, ?_, h.inactSorted, sorted_removeQ h.actSorted, ?_⟩
  rotate_left 5
  · intro id r hr
    rw [hfind] at hr
    by_cases he : id = pid
    · simp only [he, if_true, Option.some.injEq] at hr; subst hr; rw [hm]; exact h.typed pid p hp
    · simp only [he, if_false] at hr; exact h.typed id r hr
  · intro id r hr
    rw [hfind] at hr
    by_cases he : id = pid
    · subst he; exact h.ids id p hp
    · simp only [he, if_false] at hr; exact h.ids id r hr
  · intro t id hm
    obtain ⟨r, hr, h1, h2⟩ := h.inactSound t id hm
    have he : id ≠ pid := by
      intro he; subst he; rw [hp] at hr; cases hr; rw [hst] at h1; cases h1
    exact ⟨r, by rw [hfind]; simp [he, hr], h1, h2⟩
  · intro id r hr hs
    rw [hfind] at hr
    by_cases he : id = pid
    · simp only [he, if_true, Option.some.injEq] at hr; subst hr; exact absurd hs hq2
    · simp only [he, if_false] at hr; exact h.inactComplete id r hr hs
  · intro t id hm
    obtain ⟨hm1, hm2⟩ := mem_removeQ.mp hm
    obtain ⟨r, hr, h1, h2⟩ := h.actSound t id hm1
    have he : id ≠ pid := by
      intro he; subst he; rw [hp] at hr; cases hr; exact hm2 (by rw [h2])
    exact ⟨r, by rw [hfind]; simp [he, hr], h1, h2⟩
  · intro id r hr hs
    rw [hfind] at hr
    by_cases he : id = pid
    · simp only [he, if_true, Option.some.injEq] at hr; subst hr; exact absurd hs hq1
    · simp only [he, if_false] at hr
      refine mem_removeQ.mpr ⟨h.actComplete id r hr hs, ?_⟩
      intro he2; exact he (Prod.mk.inj he2).2

/-- a stored proposal in its voting period gets a new voting end (expedited → regular): entry moved -/
theorem qi_move_voting {props : List Proposal} {n : Nat} {ia ac : Q} (h : QI props n ia ac) {p q : Proposal} {pid : Nat}
    (hp : findProp props pid = some p) (hst : p.status = .voting) (hid : q.id = pid) (hq : q.status = .voting)
    (hm : q.msgs = p.msgs) :
    QI (putProp props q) n ia (insertQ (q.votingEnd, pid) (removeQ (p.votingEnd, pid) ac)) := by
  have hfind : ∀ id, findProp (putProp props q) id = if id = pid then some q else findProp props id := by
    intro id
    rw [findProp_putProp, hid]
    by_cases he : id = pid
    · subst he; simp [hp]
    · simp [he]
  refine ⟨?_, ?_, ?_, ?_, ?_, h.inactSorted, sorted_insertQ (sorted_removeQ h.actSorted), ?_⟩
  rotate_left 5
  · intro id r hr
    rw [hfind] at hr
    by_cases he : id = pid
    · simp only [he, if_true, Option.some.injEq] at hr; subst hr; rw [hm]; exact h.typed pid p hp
    · simp only [he, if_false] at hr; exact h.typed id r hr
  · intro id r hr
    rw [hfind] at hr
    by_cases he : id = pid
    · subst he; exact h.ids id p hp
    · simp only [he, if_false] at hr; exact h.ids id r hr
  · intro t id hm
    obtain ⟨r, hr, h1, h2⟩ := h.inactSound t id hm
    have he : id ≠ pid := by
      intro he; subst he; rw [hp] at hr; cases hr; rw [hst] at h1; cases h1
    exact ⟨r, by rw [hfind]; simp [he, hr], h1, h2⟩
  · intro id r hr hs
    rw [hfind] at hr
    by_cases he : id = pid
    · simp only [he, if_true, Option.some.injEq] at hr; subst hr; rw [hq] at hs; cases hs
    · simp only [he, if_false] at hr; exact h.inactComplete id r hr hs
  · intro t id hm
    rcases mem_insertQ.mp hm with hm | hm
    · cases hm
      exact ⟨q, by rw [hfind]; simp, hq, rfl⟩
    · obtain ⟨hm1, hm2⟩ := mem_removeQ.mp hm
      obtain ⟨r, hr, h1, h2⟩ := h.actSound t id hm1
      have he : id ≠ pid := by
        intro he; subst he; rw [hp] at hr; cases hr; exact hm2 (by rw [h2])
      exact ⟨r, by rw [hfind]; simp [he, hr], h1, h2⟩
  · intro id r hr hs
    rw [hfind] at hr
    by_cases he : id = pid
    · simp only [he, if_true, Option.some.injEq] at hr; subst hr
      rw [he]; exact mem_insertQ.mpr (Or.inl rfl)
    · simp only [he, if_false] at hr
      refine mem_insertQ.mpr (Or.inr (mem_removeQ.mpr ⟨h.actComplete id r hr hs, ?_⟩))
      intro he2; exact he (Prod.mk.inj he2).2

/-- a stored proposal in its deposit period enters its voting period (`ActivateVotingPeriod`) -/
theorem qi_activate {props : List Proposal} {n : Nat} {ia ac : Q} (h : QI props n ia ac) {p q : Proposal} {pid : Nat}
    (hp : findProp props pid = some p) (hst : p.status = .deposit) (hid : q.id = pid) (hq : q.status = .voting)
    (hm : q.msgs = p.msgs) :
    QI (putProp props q) n (removeQ (p.depositEnd, pid) ia) (insertQ (q.votingEnd, pid) ac) := by
  have hfind : ∀ id, findProp (putProp props q) id = if id = pid then some q else findProp props id := by
    intro id
    rw [findProp_putProp, hid]
    by_cases he : id = pid
    · subst he; simp [hp]
    · simp [he]
  refine ⟨?_, ?_, ?_, ?_, ?_, sorted_removeQ h.inactSorted, sorted_insertQ h.actSorted, ?_⟩
  rotate_left 5
  · intro id r hr
    rw [hfind] at hr
    by_cases he : id = pid
    · simp only [he, if_true, Option.some.injEq] at hr; subst hr; rw [hm]; exact h.typed pid p hp
    · simp only [he, if_false] at hr; exact h.typed id r hr
  · intro id r hr
    rw [hfind] at hr
    by_cases he : id = pid
    · subst he; exact h.ids id p hp
    · simp only [he, if_false] at hr; exact h.ids id r hr
  · intro t id hm
    obtain ⟨hm1, hm2⟩ := mem_removeQ.mp hm
    obtain ⟨r, hr, h1, h2⟩ := h.inactSound t id hm1
    have he : id ≠ pid := by
      intro he; subst he; rw [hp] at hr; cases hr; exact hm2 (by rw [h2])
    exact ⟨r, by rw [hfind]; simp [he, hr], h1, h2⟩
  · intro id r hr hs
    rw [hfind] at hr
    by_cases he : id = pid
    · simp only [he, if_true, Option.some.injEq] at hr; subst hr; rw [hq] at hs; cases hs
    · simp only [he, if_false] at hr
      refine mem_removeQ.mpr ⟨h.inactComplete id r hr hs, ?_⟩
      intro he2; exact he (Prod.mk.inj he2).2
  · intro t id hm
    rcases mem_insertQ.mp hm with hm | hm
    · cases hm
      exact ⟨q, by rw [hfind]; simp, hq, rfl⟩
    · obtain ⟨r, hr, h1, h2⟩ := h.actSound t id hm
      have he : id ≠ pid := by
        intro he; subst he; rw [hp] at hr; cases hr; rw [hst] at h1; cases h1
      exact ⟨r, by rw [hfind]; simp [he, hr], h1, h2⟩
  · intro id r hr hs
    rw [hfind] at hr
    by_cases he : id = pid
    · simp only [he, if_true, Option.some.injEq] at hr; subst hr
      rw [he]; exact mem_insertQ.mpr (Or.inl rfl)
    · simp only [he, if_false] at hr
      exact mem_insertQ.mpr (Or.inr (h.actComplete id r hr hs))

/-- a new proposal in its deposit period (`SubmitProposal`) -/
theorem qi_submit {props : List Proposal} {n : Nat} {ia ac : Q} (h : QI props n ia ac) {p : Proposal}
    (hid : p.id = n) (hst : p.status = .deposit) (hm : checkMsgs p.msgs = true) :
    QI (props ++ [p]) (n + 1) (insertQ (p.depositEnd, p.id) ia) ac := by
  have hnone : findProp props n = none := by
    cases hf : findProp props n with
    | none => rfl
    | some r => exact absurd (h.ids n r hf) (Nat.lt_irrefl n)
  have hfind : ∀ id, findProp (props ++ [p]) id = if id = n then some p else findProp props id := by
    intro id
    rw [findProp_append]
    by_cases he : id = n
    · subst he; simp [hnone, hid]
    · have : ¬ p.id = id := by rw [hid]; exact fun h => he h.symm
      cases hf : findProp props id <;> simp [he, this]
  refine ⟨?_, ?_, ?_, ?_, ?_, sorted_insertQ h.inactSorted, h.actSorted, ?_⟩
  rotate_left 5
  · intro id r hr
    rw [hfind] at hr
    by_cases he : id = n
    · simp only [he, if_true, Option.some.injEq] at hr; subst hr; exact hm
    · simp only [he, if_false] at hr; exact h.typed id r hr
  · intro id r hr
    rw [hfind] at hr
    by_cases he : id = n
    · omega
    · simp only [he, if_false] at hr; have := h.ids id r hr; omega
  · intro t id hm
    rcases mem_insertQ.mp hm with hm | hm
    · cases hm
      exact ⟨p, by rw [hfind]; simp [hid], hst, rfl⟩
    · obtain ⟨r, hr, h1, h2⟩ := h.inactSound t id hm
      have he : id ≠ n := by
        intro he; subst he; rw [hnone] at hr; cases hr
      exact ⟨r, by rw [hfind]; simp [he, hr], h1, h2⟩
  · intro id r hr hs
    rw [hfind] at hr
    by_cases he : id = n
    · simp only [he, if_true, Option.some.injEq] at hr; subst hr
      rw [he, ← hid]; exact mem_insertQ.mpr (Or.inl rfl)
    · simp only [he, if_false] at hr
      exact mem_insertQ.mpr (Or.inr (h.inactComplete id r hr hs))
  · intro t id hm
    obtain ⟨r, hr, h1, h2⟩ := h.actSound t id hm
    have he : id ≠ n := by
      intro he; subst he; rw [hnone] at hr; cases hr
    exact ⟨r, by rw [hfind]; simp [he, hr], h1, h2⟩
  · intro id r hr hs
    rw [hfind] at hr
    by_cases he : id = n
    · simp only [he, if_true, Option.some.injEq] at hr; subst hr; rw [hst] at hs; cases hs
    · simp only [he, if_false] at hr; exact h.actComplete id r hr hs

end FxVerif.Proofs.C15
