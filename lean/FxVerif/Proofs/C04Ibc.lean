import FxVerif.Proofs.C04Acct
import FxVerif.Proofs.C04Claims
import FxVerif.Model.C04Ibc
/-! C04, IBC layer: no operation of the base model touches an IBC voucher (frame), so the conservation equation and the
per-account statements extend to the voucher representation by adding the IBC operations' own deltas. -/
namespace FxVerif.Proofs.C04
open FxVerif.Model.Ledger FxVerif.Model.Flows FxVerif.Model.C04 FxVerif.Proofs.Ledger

/-- assets the base model can name: base coins, ERC-20s, bridge denominations of the three bridge chains -/
def onBridge : Asset → Bool
  | .bridge _ c => decide (c < 3)
  | _ => true

def primAsset : Prim → Asset
  | .send a _ _ _ => a
  | .mint a _ _ _ => a
  | .burn a _ _ _ => a

/-- accounts the base model can name: everything except the ibc-transfer module account -/
def notT : Addr → Bool
  | .chainMod c => decide (c < 3)
  | _ => true

def primAddrs : Prim → Bool
  | .send _ s d _ => notT s && notT d
  | .mint _ b d _ => notT b && notT d
  | .burn _ b s _ => notT b && notT s

/-- a primitive that names neither an IBC voucher nor the ibc-transfer module account -/
def okPrim (p : Prim) : Bool := onBridge (primAsset p) && primAddrs p

/-- a flow that names no IBC voucher and never touches the ibc-transfer module account -/
def clean (fl : List Prim) : Bool := fl.all okPrim

@[simp] theorem clean_nil : clean [] = true := rfl
@[simp] theorem clean_cons (p : Prim) (fl : List Prim) : clean (p :: fl) = (okPrim p && clean fl) := by
  simp [clean]
@[simp] theorem clean_append (a b : List Prim) : clean (a ++ b) = (clean a && clean b) := by
  simp [clean, List.all_append]

/-- an observable that looks at vouchers only -/
def VoucherOnly (o : Obs) : Prop := ∀ p, onBridge (primAsset p) = true → o.delta p = 0

theorem clean_delta {o : Obs} (ho : VoucherOnly o) (fl : List Prim) (h : clean fl = true) : o.flowDelta fl = 0 := by
  induction fl with
  | nil => rfl
  | cons p ps ih =>
    simp only [clean_cons, okPrim, Bool.and_eq_true] at h
    simp only [Obs.flowDelta, ho p h.1.1, ih h.2]; rfl

/-- an observable that looks at the ibc-transfer module account only -/
def TOnly (o : Obs) : Prop := ∀ p, primAddrs p = true → o.delta p = 0

theorem clean_deltaT {o : Obs} (ho : TOnly o) (fl : List Prim) (h : clean fl = true) : o.flowDelta fl = 0 := by
  induction fl with
  | nil => rfl
  | cons p ps ih =>
    simp only [clean_cons, okPrim, Bool.and_eq_true] at h
    simp only [Obs.flowDelta, ho p h.1.2, ih h.2]; rfl

theorem notT_ne {a : Addr} (h : notT a = true) : a ≠ T := by
  intro e; subst e; simp [notT, ibcRoute] at h

theorem tbal_TOnly (a : Asset) : TOnly (balObs a T) := by
  intro p hp
  cases p <;> simp only [primAddrs, Bool.and_eq_true] at hp <;>
    (have h1 := notT_ne hp.1; have h2 := notT_ne hp.2; simp [balObs, h1, h2])

theorem onBridge_ne {a : Asset} (g : Nat) (h : onBridge a = true) : a ≠ voucher g := by
  intro e; subst e; simp [onBridge, ibcRoute] at h

theorem vbal_voucherOnly (g : Nat) (x : Addr) : VoucherOnly (balObs (voucher g) x) := by
  intro p hp
  have hne := onBridge_ne g hp
  cases p <;> simp only [primAsset] at hne <;> simp [balObs, hne]

theorem vsup_voucherOnly (g : Nat) : VoucherOnly (supplyObs (voucher g)) := by
  intro p hp
  have hne := onBridge_ne g hp
  cases p <;> simp only [primAsset] at hne <;> simp [supplyObs, hne]

theorem add_voucherOnly {o1 o2 : Obs} (h1 : VoucherOnly o1) (h2 : VoucherOnly o2) : VoucherOnly (o1.add o2) := by
  intro p hp; simp [Obs.add, h1 p hp, h2 p hp]

theorem neg_voucherOnly {o : Obs} (h : VoucherOnly o) : VoucherOnly o.neg := by
  intro p hp; simp [Obs.neg, h p hp]

@[simp] theorem notT_user (u : Nat) : notT (.user u) = true := rfl
@[simp] theorem notT_U (u : Nat) : notT (U u) = true := rfl
@[simp] theorem notT_ext (m : Nat) : notT (.ext m) = true := rfl
@[simp] theorem notT_E : notT .erc20Mod = true := rfl
@[simp] theorem notT_wfx : notT .wfx = true := rfl
theorem notT_M {c : Nat} (hc : c < 3) : notT (.chainMod c) = true := by simp [notT, hc]

/-! ### every flow builder of the base model is clean on the three bridge chains -/

section builders
variable {c : Nat} (hc : c < 3)
include hc

theorem clean_deposit' (k : Kind) (g : Nat) (h : Addr) (n : Nat) (hh : notT h = true) : clean (bridgeTokenToBaseCoin k g c h n) = true := by
  cases k <;> simp [bridgeTokenToBaseCoin, depositBridgeToken, conversionCoin, okPrim, primAddrs, onBridge, primAsset, M, E, precompileAcc, evmMod, badContract, hh, notT_M hc, hc]

theorem clean_withdraw' (k : Kind) (g : Nat) (h : Addr) (n : Nat) (hh : notT h = true) : clean (baseCoinToBridgeToken k g c h n) = true := by
  cases k <;> simp [baseCoinToBridgeToken, withdrawBridgeToken, conversionCoin, okPrim, primAddrs, onBridge, primAsset, M, E, precompileAcc, evmMod, badContract, hh, notT_M hc, hc]

theorem clean_addBridgeFee' (k : Kind) (g : Nat) (h : Addr) (n : Nat) (hh : notT h = true) : clean (addBridgeFee k g c h n) = true := by
  cases k <;> simp [addBridgeFee, okPrim, primAddrs, onBridge, primAsset, M, E, precompileAcc, evmMod, badContract, hh, notT_M hc, hc]

end builders

theorem onBridge_den (g : Nat) (d : Den) (hd : denOk d) : onBridge (d.asset g) = true := by
  cases d with
  | base => rfl
  | chain c => simp only [denOk] at hd; simp [Den.asset, onBridge, hd]

theorem clean_convertDenom' (k : Kind) (g : Nat) (h : Addr) (n : Nat) (src dst : Den) (hs : denOk src) (hd : denOk dst)
    (hh : notT h = true) :
    clean (convertDenom k g h n src dst) = true := by
  have h1 := onBridge_den g src hs
  have h2 := onBridge_den g dst hd
  cases k <;> cases src <;> cases dst <;>
    simp_all [convertDenom, okPrim, primAddrs, onBridge, primAsset, M, E, precompileAcc, evmMod, badContract, hh, Den.asset]

theorem clean_feeToBridgeDenom' {c : Nat} (hc : c < 3) (k : Kind) (g : Nat) (h : Addr) (n : Nat) (hh : notT h = true) :
    clean (feeToBridgeDenom k g c h n) = true := by
  cases k
  · rfl
  all_goals (simp only [feeToBridgeDenom]; exact clean_convertDenom' _ g h n .base (.chain c) trivial hc hh)

theorem clean_refundCoin' {c : Nat} (hc : c < 3) (k : Kind) (g : Nat) (r : Addr) (n : Nat) (hh : notT r = true) :
    clean (bridgeCallRefundCoin k g c r n) = true := by
  have hcd := fun k => clean_convertDenom' k g r n (.chain c) .base hc trivial hh
  cases k <;> simp only [bridgeCallRefundCoin, clean_append, clean_cons, clean_nil, hcd] <;>
    simp [okPrim, primAddrs, onBridge, primAsset, M, E, precompileAcc, evmMod, badContract, hh, hc, notT_M hc]

theorem clean_convertCoin' (k : Kind) (g : Nat) (s r : Addr) (n : Nat) (hh : notT s = true) (hr : notT r = true) : clean (convertCoin k g s r n) = true := by
  cases k <;> simp [convertCoin, okPrim, primAddrs, onBridge, primAsset, M, E, precompileAcc, evmMod, badContract, hh, hr]

theorem clean_convertERC20' (k : Kind) (g : Nat) (s r : Addr) (n : Nat) (hh : notT s = true) (hr : notT r = true) : clean (convertERC20 k g s r n) = true := by
  cases k <;> simp [convertERC20, okPrim, primAddrs, onBridge, primAsset, M, E, precompileAcc, evmMod, badContract, hh, hr]

theorem clean_precompileTokenIn' (k : Kind) (g : Nat) (s : Addr) (n : Nat) (hh : notT s = true) : clean (precompileTokenIn k g s n) = true := by
  cases k <;> simp [precompileTokenIn, okPrim, primAddrs, onBridge, primAsset, M, E, precompileAcc, evmMod, badContract, hh]

theorem clean_valueIn' (g : Nat) (s : Addr) (n : Nat) (hh : notT s = true) : clean (valueIn g s n) = true := by
  simp [valueIn, okPrim, primAddrs, onBridge, primAsset, M, E, precompileAcc, evmMod, badContract, hh]

theorem clean_refundToEvm' (k : Kind) (g : Nat) (r : Addr) (n : Nat) (hh : notT r = true) : clean (bridgeCallRefundToEvm k g r n) = true := by
  cases k <;> simp [bridgeCallRefundToEvm, clean_convertCoin' _ _ _ _ _ hh hh]


/-! the same for the accounts the operations really use (users) -/
theorem clean_deposit {c : Nat} (hc : c < 3) (k : Kind) (g u n : Nat) : clean (bridgeTokenToBaseCoin k g c (U u) n) = true :=
  clean_deposit' hc k g _ n rfl
theorem clean_withdraw {c : Nat} (hc : c < 3) (k : Kind) (g u n : Nat) : clean (baseCoinToBridgeToken k g c (U u) n) = true :=
  clean_withdraw' hc k g _ n rfl
theorem clean_addBridgeFee {c : Nat} (hc : c < 3) (k : Kind) (g u n : Nat) : clean (addBridgeFee k g c (U u) n) = true :=
  clean_addBridgeFee' hc k g _ n rfl
theorem clean_convertDenom (k : Kind) (g u n : Nat) (src dst : Den) (hs : denOk src) (hd : denOk dst) :
    clean (convertDenom k g (U u) n src dst) = true := clean_convertDenom' k g _ n src dst hs hd rfl
theorem clean_feeToBridgeDenom {c : Nat} (hc : c < 3) (k : Kind) (g u n : Nat) : clean (feeToBridgeDenom k g c (U u) n) = true :=
  clean_feeToBridgeDenom' hc k g _ n rfl
theorem clean_refundCoin {c : Nat} (hc : c < 3) (k : Kind) (g r n : Nat) : clean (bridgeCallRefundCoin k g c (U r) n) = true :=
  clean_refundCoin' hc k g _ n rfl
theorem clean_convertCoin (k : Kind) (g u r n : Nat) : clean (convertCoin k g (U u) (U r) n) = true :=
  clean_convertCoin' k g _ _ n rfl rfl
theorem clean_convertERC20 (k : Kind) (g u r n : Nat) : clean (convertERC20 k g (U u) (U r) n) = true :=
  clean_convertERC20' k g _ _ n rfl rfl
theorem clean_precompileTokenIn (k : Kind) (g u n : Nat) : clean (precompileTokenIn k g (U u) n) = true :=
  clean_precompileTokenIn' k g _ n rfl
theorem clean_valueIn (g u n : Nat) : clean (valueIn g (U u) n) = true := clean_valueIn' g _ n rfl
theorem clean_refundToEvm (k : Kind) (g r n : Nat) : clean (bridgeCallRefundToEvm k g (U r) n) = true :=
  clean_refundToEvm' k g _ n rfl

theorem foldlM_clean (stp : List Prim → (Nat × Nat) → Except Err (List Prim))
    (h : ∀ acc t r, stp acc t = .ok r → clean acc = true → clean r = true) :
    ∀ (tokens : List (Nat × Nat)) (acc fl : List Prim), tokens.foldlM stp acc = .ok fl → clean acc = true → clean fl = true := by
  intro tokens
  induction tokens with
  | nil => intro acc fl hf ha; simp [List.foldlM, pure, Except.pure] at hf; subst hf; exact ha
  | cons t ts ih =>
    intro acc fl hf ha
    simp only [List.foldlM, bind, Except.bind] at hf
    cases hs : stp acc t with
    | error e => simp [hs] at hf
    | ok r => simp only [hs] at hf; exact ih r fl hf (h acc t r hs ha)

theorem tokensFlow_clean (cfg : Cfg) (c : Nat) (f : Kind → Nat → Nat → List Prim) (hf : ∀ k g n, clean (f k g n) = true)
    (tokens : List (Nat × Nat)) (fl : List Prim) (h : tokensFlow cfg c tokens f = .ok fl) : clean fl = true := by
  unfold tokensFlow at h
  refine foldlM_clean _ ?_ tokens [] fl h rfl
  intro acc t r hr ha
  split at hr
  · cases hr; simp [ha, hf]
  · cases hr

theorem pairsFlow_clean (cfg : Cfg) (f : Kind → Nat → Nat → List Prim) (hf : ∀ k g n, clean (f k g n) = true)
    (tokens : List (Nat × Nat)) (fl : List Prim) (h : pairsFlow cfg tokens f = .ok fl) : clean fl = true := by
  unfold pairsFlow at h
  refine foldlM_clean _ ?_ tokens [] fl h rfl
  intro acc t r hr ha
  split at hr
  · cases hr; simp [ha, hf]
  · cases hr

theorem refundToEvmFlow_clean (cfg : Cfg) (r : Nat) (tokens : List (Nat × Nat)) (fl : List Prim)
    (h : refundToEvmFlow cfg r tokens = .ok fl) : clean fl = true := by
  unfold refundToEvmFlow at h
  refine foldlM_clean _ ?_ tokens [] fl h rfl
  intro acc t r' hr ha
  split at hr
  · cases hr; exact ha
  · split at hr
    · cases hr; simp [ha, clean_refundToEvm]
    · cases hr
  · cases hr

theorem refundFlow_clean (cfg : Cfg) (c : Nat) (hc : c < 3) (call : OutCall) (fl : List Prim)
    (h : refundFlow cfg c call = .ok fl) : clean fl = true := by
  simp only [refundFlow] at h; exc'
  cases h1 : tokensFlow cfg c call.tokens (fun k g n => bridgeCallRefundCoin k g c (U call.refund) n) with
  | error e => simp [h1] at h
  | ok fl1 =>
    simp only [h1] at h
    have c1 := tokensFlow_clean cfg c _ (fun k g n => clean_refundCoin hc k g _ n) _ _ h1
    cases hfm : call.fromMsg
    · simp only [hfm, Bool.false_eq_true, ↓reduceIte] at h
      cases h2 : refundToEvmFlow cfg call.refund call.tokens with
      | error e => simp [h2] at h
      | ok fl2 =>
        simp only [h2, Except.ok.injEq] at h; subst h
        simp [c1, refundToEvmFlow_clean cfg _ _ _ h2]
    · simp only [hfm, ↓reduceIte, Except.ok.injEq] at h; subst h
      simp [c1]

/-- **frame**: the flow of every successful base operation names no IBC voucher -/
theorem opFlow_clean (cfg : Cfg) (s s' : State) (op : Op) (hc : ∀ c, op.chain? = some c → c < 3)
    (h : stepCore cfg s op = .ok s') (fl : List Prim) (hfl : opFlow cfg s op = .ok fl) : clean fl = true := by
  cases op with
  | deposit c g u n toErc =>
    have hc3 := hc c rfl
    simp only [opFlow] at hfl; exc'
    repeat' (split at hfl)
    all_goals (first | cases hfl | skip)
    all_goals simp [clean_deposit hc3, clean_convertCoin]
  | send c g u n fee =>
    have hc3 := hc c rfl
    simp only [opFlow] at hfl; exc'
    repeat' (split at hfl)
    all_goals (first | cases hfl | skip)
    all_goals simp [clean_withdraw hc3]
  | xsend c g u n fee =>
    have hc3 := hc c rfl
    simp only [opFlow] at hfl; exc'
    repeat' (split at hfl)
    all_goals (first | cases hfl | skip)
    all_goals simp [clean_withdraw hc3, clean_precompileTokenIn]
  | vsend c g u n fee =>
    have hc3 := hc c rfl
    simp only [opFlow] at hfl; exc'
    repeat' (split at hfl)
    all_goals (first | cases hfl | skip)
    all_goals simp [clean_withdraw hc3, clean_valueIn]
  | xincfee c id u g n =>
    have hc3 := hc c rfl
    simp only [opFlow] at hfl; exc'
    repeat' (split at hfl)
    all_goals (first | cases hfl | skip)
    all_goals simp [clean_precompileTokenIn, clean_feeToBridgeDenom hc3, clean_addBridgeFee hc3]
  | cancel c id u =>
    have hc3 := hc c rfl
    simp only [opFlow] at hfl; exc'
    repeat' (split at hfl)
    all_goals (first | cases hfl | skip)
    all_goals simp [clean_deposit hc3, clean_convertCoin]
  | incfee c id u g n =>
    have hc3 := hc c rfl
    simp only [opFlow] at hfl; exc'
    repeat' (split at hfl)
    all_goals (first | cases hfl | skip)
    all_goals simp [clean_addBridgeFee hc3]
  | batch c g bf mf ao => simp only [opFlow, pure, Except.pure, Except.ok.injEq] at hfl; subst hfl; rfl
  | executed c g nonce => simp only [opFlow, pure, Except.pure, Except.ok.injEq] at hfl; subst hfl; rfl
  | btimeout c g nonce => simp only [opFlow, pure, Except.pure, Except.ok.injEq] at hfl; subst hfl; rfl
  | bcout c u r tokens pre =>
    have hc3 := hc c rfl
    simp only [opFlow] at hfl; exc'
    cases ho : tokensFlow cfg c tokens (fun k g n => baseCoinToBridgeToken k g c (U u) n) with
    | error e => cases pre <;> simp [ho] at hfl <;> (split at hfl <;> cases hfl)
    | ok flOut =>
      have co := tokensFlow_clean cfg c _ (fun k g n => clean_withdraw hc3 k g _ n) _ _ ho
      cases pre
      · simp only [Bool.false_eq_true, ↓reduceIte, ho, List.nil_append, Except.ok.injEq] at hfl; subst hfl; exact co
      · simp only [↓reduceIte] at hfl
        cases hi : pairsFlow cfg tokens (fun k g n => convertERC20 k g (U u) (U u) n) with
        | error e => simp [hi] at hfl
        | ok flIn =>
          simp only [hi, ho, Except.ok.injEq] at hfl; subst hfl
          simp [co, pairsFlow_clean cfg _ (fun k g n => clean_convertERC20 k g _ _ n) _ _ hi]
  | vbcout c gfx u r v tokens =>
    have hc3 := hc c rfl
    simp only [opFlow] at hfl; exc'
    cases hi : pairsFlow cfg tokens (fun k g n => convertERC20 k g (U u) (U u) n) with
    | error e => simp [hi] at hfl
    | ok flIn =>
      simp only [hi] at hfl
      cases ho : tokensFlow cfg c ((gfx, v) :: tokens) (fun k g n => baseCoinToBridgeToken k g c (U u) n) with
      | error e => simp [ho] at hfl
      | ok flOut =>
        simp only [ho, Except.ok.injEq] at hfl; subst hfl
        simp [clean_valueIn, tokensFlow_clean cfg c _ (fun k g n => clean_withdraw hc3 k g _ n) _ _ ho,
          pairsFlow_clean cfg _ (fun k g n => clean_convertERC20 k g _ _ n) _ _ hi]
  | bcresult c nonce success =>
    have hc3 := hc c rfl
    simp only [opFlow] at hfl; exc'
    cases he : extract (fun cl : OutCall => cl.nonce == nonce) (s.chains c).calls with
    | none => simp [he] at hfl
    | some pr =>
      obtain ⟨call, rest⟩ := pr
      simp only [he] at hfl
      cases success
      · simp only [Bool.false_eq_true, ↓reduceIte] at hfl
        exact refundFlow_clean cfg c hc3 call fl hfl
      · simp only [↓reduceIte, Except.ok.injEq] at hfl; subst hfl; rfl
  | bctimeout c nonce =>
    have hc3 := hc c rfl
    simp only [opFlow] at hfl; exc'
    cases he : extract (fun cl : OutCall => cl.nonce == nonce) (s.chains c).calls with
    | none => simp [he] at hfl
    | some pr =>
      obtain ⟨call, rest⟩ := pr
      simp only [he] at hfl
      exact refundFlow_clean cfg c hc3 call fl hfl
  | bcin c to tokens =>
    have hc3 := hc c rfl
    simp only [opFlow] at hfl; exc'
    cases h1 : tokensFlow cfg c tokens (fun k g n => bridgeTokenToBaseCoin k g c (U to) n) with
    | error e => simp [h1] at hfl
    | ok fl1 =>
      simp only [h1] at hfl
      cases h2 : pairsFlow cfg tokens (fun k g n => convertCoin k g (U to) (U to) n) with
      | error e => simp [h2] at hfl
      | ok fl2 =>
        simp only [h2, Except.ok.injEq] at hfl; subst hfl
        simp [tokensFlow_clean cfg c _ (fun k g n => clean_deposit hc3 k g _ n) _ _ h1,
          pairsFlow_clean cfg _ (fun k g n => clean_convertCoin k g _ _ n) _ _ h2]
  | bcinfail c r tokens =>
    have hc3 := hc c rfl
    simp only [opFlow] at hfl; exc'
    cases h1 : tokensFlow cfg c tokens (fun k g n =>
        bridgeTokenToBaseCoin k g c badContract n ++ [.send (.base g) badContract (U r) n]) with
    | error e => simp [h1] at hfl
    | ok fl1 =>
      simp only [h1] at hfl
      cases h2 : tokensFlow cfg c tokens (fun k g n => baseCoinToBridgeToken k g c (U r) n) with
      | error e => simp [h2] at hfl
      | ok fl2 =>
        simp only [h2, Except.ok.injEq] at hfl; subst hfl
        simp [tokensFlow_clean cfg c _ (fun k g n => by
            rw [clean_append, clean_deposit' hc3 k g badContract n rfl]
            simp [okPrim, primAddrs, onBridge, primAsset, badContract]) _ _ h1,
          tokensFlow_clean cfg c _ (fun k g n => clean_withdraw hc3 k g _ n) _ _ h2]
  | convertCoin g u r n =>
    simp only [opFlow] at hfl; exc'
    repeat' (split at hfl)
    all_goals (first | cases hfl | skip)
    all_goals simp [clean_convertCoin]
  | convertERC20 g u r n =>
    simp only [opFlow] at hfl; exc'
    repeat' (split at hfl)
    all_goals (first | cases hfl | skip)
    all_goals simp [clean_convertERC20]
  | convertDenom g u r n src dst =>
    simp only [opFlow] at hfl; exc'
    simp only [stepCore] at h; exc'
    cases hk : cfg.kind g with
    | none => simp [hk] at hfl
    | some k =>
      simp only [hk, Except.ok.injEq] at hfl h
      generalize hdst : (if okDen cfg g dst = true then dst else Den.base) = dst' at hfl h
      subst hfl
      split at h
      · cases h
      · split at h
        · cases h
        · rename_i hb
          simp only [Bool.not_eq_true', Bool.not_eq_false, Bool.and_eq_true] at hb
          have hs := okDen_denOk hb.1
          have hd := okDen_denOk hb.2
          have h2 := onBridge_den g dst' hd
          simp only [clean_append, clean_convertDenom k g _ n src dst' hs hd, Bool.true_and]
          split <;> simp [okPrim, primAddrs, primAsset, h2]

/-- **no base operation touches a voucher**: every voucher-only observable is unchanged by every successful base step -/
theorem step_voucher_frame {o : Obs} (hs : o.Sound) (ho : VoucherOnly o) (cfg : Cfg) (s s' : State) (op : Op)
    (h : step cfg s op = .ok s') : o.val s'.L = o.val s.L := by
  unfold step at h
  have key : stepCore cfg s op = .ok s' ∧ ∀ c, op.chain? = some c → c < 3 := by
    cases hch : op.chain? with
    | none => simp only [hch] at h; exact ⟨h, by intro c hc; cases hc⟩
    | some c =>
      simp only [hch] at h
      split at h
      · rename_i hc; exact ⟨h, by intro c' hc'; cases hc'; exact hc⟩
      · cases h
  obtain ⟨fl, hfl, hval⟩ := stepCore_obs hs cfg s s' op key.1
  rw [hval, clean_delta ho fl (opFlow_clean cfg s s' op key.2 key.1 fl hfl)]; omega

/-! ### the IBC operations -/

theorem flowDelta_add (o1 o2 : Obs) (fl : List Prim) : (o1.add o2).flowDelta fl = o1.flowDelta fl + o2.flowDelta fl := by
  induction fl with
  | nil => rfl
  | cons p ps ih => simp only [Obs.flowDelta, ih]; simp only [Obs.add]; omega

/-- vouchers of group `g` held outside the transfer module account: supply − what is parked there -/
def vheldObs (g : Nat) : Obs := (supplyObs (voucher g)).add (balObs (voucher g) T).neg

theorem vheldObs_sound (g : Nat) : (vheldObs g).Sound :=
  add_sound (supplyObs_sound _) (neg_sound (balObs_sound _ _))

theorem vheldObs_voucherOnly (g : Nat) : VoucherOnly (vheldObs g) :=
  add_voucherOnly (vsup_voucherOnly g) (neg_voucherOnly (vbal_voucherOnly g T))

/-- value of group `g` held by non-module accounts in EVERY representation, the IBC voucher included -/
def held3Obs (g : Nat) : Obs := (heldObs g).add (vheldObs g)

theorem held3Obs_sound (g : Nat) : (held3Obs g).Sound := add_sound (heldObs_sound g) (vheldObs_sound g)

/-- what an IBC operation does to the total held: a received packet adds, a sent packet removes, the two conversions
between voucher and base coin (and on into the ERC-20) change nothing -/
def ibcDelta (op : IbcOp) (g' : Nat) : Int :=
  match op with
  | .recv g _ n => if g = g' then (n : Int) else 0
  | .xfer g _ n => if g = g' then -(n : Int) else 0
  | _ => 0

macro "held3_simp" : tactic =>
  `(tactic| simp [Obs.flowDelta, held3Obs, vheldObs, heldObs, heldAsset, modBalObs, Obs.sum, Obs.add, Obs.neg, Obs.zero, assets,
      modules, balObs, supplyObs, U, M, E, T, voucher, ibcRoute, ibcCoinToBaseCoin, baseCoinToIBCCoin])

theorem held3_ibcFlow (cfg : Cfg) (op : IbcOp) (g' : Nat) (fl : List Prim) (h : ibcFlow cfg op = .ok fl) :
    (held3Obs g').flowDelta fl = ibcDelta op g' := by
  cases op with
  | recv g u n =>
    simp only [ibcFlow] at h; split at h
    · cases h
    · cases h; simp only [ibcDelta]; held3_simp <;> (repeat' split) <;> (try simp_all) <;> (try omega)
  | toBase g u n toErc =>
    simp only [ibcFlow] at h; split at h
    · cases h
    · cases toErc
      · simp only [Bool.false_eq_true, ↓reduceIte, Except.ok.injEq] at h; subst h
        simp only [ibcDelta]; held3_simp <;> (repeat' split) <;> (try simp_all) <;> (try omega)
      · simp only [↓reduceIte] at h
        split at h
        · rename_i k hk
          cases h
          rw [flowDelta_append]
          have h1 : (held3Obs g').flowDelta (ibcCoinToBaseCoin g (U u) n) = 0 := by
            held3_simp <;> (repeat' split) <;> (try simp_all) <;> (try omega)
          have h2 : (held3Obs g').flowDelta (convertCoin k g (U u) (U u) n) = 0 := by
            have a := held_convertCoin g' k g u u n
            have b := clean_delta (vheldObs_voucherOnly g') _ (clean_convertCoin k g u u n)
            rw [held3Obs, flowDelta_add, a, b]; rfl
          rw [h1, h2]; rfl
        · cases h
  | toIbc g u n =>
    simp only [ibcFlow] at h; split at h
    · split at h
      · cases h; rfl
      · cases h
    · split at h
      · cases h
      · cases h; simp only [ibcDelta]; held3_simp <;> (repeat' split) <;> (try simp_all) <;> (try omega)
  | xfer g u n =>
    simp only [ibcFlow] at h; split at h
    · cases h
    · cases h; simp only [ibcDelta]; held3_simp <;> (repeat' split) <;> (try simp_all) <;> (try omega)

/-- an IBC operation only changes the ledger, by exactly its flow -/
theorem stepIbc_flow (cfg : Cfg) (s s' : State) (op : IbcOp) (h : stepIbc cfg s op = .ok s') :
    ∃ fl, ibcFlow cfg op = .ok fl ∧ runFlow fl s.L = .ok s'.L ∧ s' = { s with L := s'.L } := by
  unfold stepIbc at h
  cases hf : ibcFlow cfg op with
  | error e => simp [hf] at h
  | ok fl =>
    simp only [hf] at h
    obtain ⟨L', hL, rfl⟩ := run_ok h
    exact ⟨fl, rfl, hL, rfl⟩

/-- the conserved quantity of the base model, with the voucher representation added -/
def measureV (s : State) (g : Nat) : Int := measure s g + (vheldObs g).val s.L

theorem step_measureV (cfg : Cfg) (s s' : State) (op : Op) (g : Nat) (h : step cfg s op = .ok s') :
    measureV s' g = measureV s g := by
  simp only [measureV, step_measure cfg s s' op g h,
    step_voucher_frame (vheldObs_sound g) (vheldObs_voucherOnly g) cfg s s' op h]

theorem measureV_eq (s : State) (g : Nat) :
    measureV s g = (held3Obs g).val s.L + (inFlight s g : Int) - (s.deposited g : Int) + (s.withdrawn g : Int) := by
  simp only [measureV, measure, held3Obs, Obs.add]; omega

theorem stepIbc_measureV (cfg : Cfg) (s s' : State) (op : IbcOp) (g : Nat) (h : stepIbc cfg s op = .ok s') :
    measureV s' g = measureV s g + ibcDelta op g := by
  obtain ⟨fl, hf, hr, he⟩ := stepIbc_flow cfg s s' op h
  rw [measureV_eq, measureV_eq, runFlow_obs (held3Obs_sound g) fl _ _ hr, held3_ibcFlow cfg op g fl hf, he]
  simp only [inFlight]; omega

theorem run_measureV (s s1 : State) (fl : List Prim) (g : Nat) (h : run s fl = .ok s1) :
    measureV s1 g = measureV s g + (held3Obs g).flowDelta fl := by
  obtain ⟨L', hL, rfl⟩ := run_ok h
  rw [measureV_eq, measureV_eq, runFlow_obs (held3Obs_sound g) fl _ _ hL]
  simp only [inFlight]; omega

theorem held3_precompileTokenIn (g' : Nat) (k : Kind) (g u n : Nat) :
    (held3Obs g').flowDelta (precompileTokenIn k g (U u) n) = 0 := by
  rw [held3Obs, flowDelta_add, held_precompileTokenIn g' k g u n,
    clean_delta (vheldObs_voucherOnly g') _ (clean_precompileTokenIn k g u n)]; rfl

/-- conserved quantity of the IBC layer -/
def measure3 (s : State3) (g : Nat) : Int := measureV s.s2.base g - (s.ibcIn g : Int) + (s.ibcOut g : Int)

theorem bump_val (f : Nat → Nat) (g n g' : Nat) : ((bump f g n g' : Nat) : Int) = f g' + (if g = g' then (n : Int) else 0) := by
  simp only [bump]; split
  · rename_i h; subst h; simp
  · rename_i h; have : ¬ g = g' := fun e => h e.symm; simp [this]

theorem step3_measure (cfg : Cfg) (s s' : State3) (op : Op3) (g : Nat) (h : step3 cfg s op = .ok s') :
    measure3 s' g = measure3 s g := by
  cases op with
  | claim op =>
    simp only [step3] at h
    cases h2 : step2 cfg s.s2 op with
    | error e => simp [h2] at h
    | ok t =>
      simp only [h2, Except.ok.injEq] at h; subst h
      have hst := step2With_steps cfg execSteps s.s2 t op h2
      have := Steps.inv (P := fun b => measureV b g = measureV s.s2.base g)
        (fun a b o hs hp => by rw [step_measureV cfg a b o g hs]; exact hp) hst rfl
      simp only [measure3, this]
  | ibc op =>
    simp only [step3] at h
    cases hi : stepIbc cfg s.s2.base op with
    | error e => simp [hi] at h
    | ok b =>
      simp only [hi] at h
      have hm := stepIbc_measureV cfg _ _ op g hi
      cases op <;> simp only [Except.ok.injEq] at h <;> subst h <;>
        simp only [measure3, setBase, hm, ibcDelta, bump_val] <;> omega
  | depositIbc c g0 u n =>
    simp only [step3] at h
    cases h1 : step cfg s.s2.base (.deposit c g0 u n false) with
    | error e => simp [h1] at h
    | ok b1 =>
      simp only [h1] at h
      cases h2 : stepIbc cfg b1 (.toIbc g0 u n) with
      | error e => simp [h2] at h
      | ok b2 =>
        simp only [h2] at h
        cases h3 : stepIbc cfg b2 (.xfer g0 u n) with
        | error e => simp [h3] at h
        | ok b3 =>
          simp only [h3, Except.ok.injEq] at h; subst h
          have m1 := step_measureV cfg _ _ _ g h1
          have m2 := stepIbc_measureV cfg _ _ _ g h2
          have m3 := stepIbc_measureV cfg _ _ _ g h3
          simp only [measure3, setBase, m3, m2, m1, ibcDelta, bump_val]; omega
  | xibc g0 u n =>
    simp only [step3] at h
    split at h
    · cases h
    · cases hk : cfg.kind g0 with
      | none => simp [hk] at h
      | some kp =>
        simp only [hk] at h
        cases h1 : run s.s2.base (precompileTokenIn kp g0 (U u) n) with
        | error e => simp [h1] at h
        | ok b1 =>
          simp only [h1] at h
          cases h2 : stepIbc cfg b1 (.toIbc g0 u n) with
          | error e => simp [h2] at h
          | ok b2 =>
            simp only [h2] at h
            cases h3 : stepIbc cfg b2 (.xfer g0 u n) with
            | error e => simp [h3] at h
            | ok b3 =>
              simp only [h3, Except.ok.injEq] at h; subst h
              have m1 := run_measureV _ _ _ g h1
              rw [held3_precompileTokenIn] at m1
              have m2 := stepIbc_measureV cfg _ _ _ g h2
              have m3 := stepIbc_measureV cfg _ _ _ g h3
              simp only [measure3, setBase, m3, m2, m1, ibcDelta, bump_val]; omega

theorem runOps3_measure (cfg : Cfg) (ops : List Op3) (s : State3) (g : Nat) :
    measure3 (runOps3 cfg s ops) g = measure3 s g := by
  induction ops generalizing s with
  | nil => rfl
  | cons op ops ih =>
    simp only [runOps3, List.foldl_cons] at ih ⊢
    rw [ih]
    unfold stepT3
    cases h : step3 cfg s op with
    | error e => rfl
    | ok s' => exact step3_measure cfg s s' op g h

/-! ### the claim-layer invariant is untouched by the IBC operations -/

theorem credInv_setBase {s : State2} (b : State) (hi : CredInv s) : CredInv { s with base := b } :=
  ⟨hi.pend_seen, hi.pend_zero, hi.le_claimed⟩

theorem step3_cred (cfg : Cfg) (s s' : State3) (op : Op3) (h : step3 cfg s op = .ok s') (hi : CredInv s.s2) : CredInv s'.s2 := by
  cases op with
  | claim op =>
    simp only [step3] at h
    cases h2 : step2 cfg s.s2 op with
    | error e => simp [h2] at h
    | ok t => simp only [h2, Except.ok.injEq] at h; subst h; exact step2_cred cfg s.s2 t op h2 hi
  | ibc op =>
    simp only [step3] at h
    cases hib : stepIbc cfg s.s2.base op with
    | error e => simp [hib] at h
    | ok b =>
      simp only [hib] at h
      cases op <;> simp only [Except.ok.injEq] at h <;> subst h <;> exact credInv_setBase b hi
  | depositIbc c g u n =>
    simp only [step3] at h
    repeat' (split at h)
    all_goals (first | cases h | skip)
    exact credInv_setBase _ hi
  | xibc g u n =>
    simp only [step3] at h
    repeat' (split at h)
    all_goals (first | cases h | skip)
    exact credInv_setBase _ hi

theorem runOps3_cred (cfg : Cfg) (ops : List Op3) (s : State3) (hi : CredInv s.s2) : CredInv (runOps3 cfg s ops).s2 := by
  induction ops generalizing s with
  | nil => exact hi
  | cons op ops ih =>
    simp only [runOps3, List.foldl_cons] at ih ⊢
    apply ih
    unfold stepT3
    cases h : step3 cfg s op with
    | error e => exact hi
    | ok s' => exact step3_cred cfg s s' op h hi

/-! ### per account -/

/-- holdings of account `x` in every representation of group `g`, the voucher included -/
def acct3Obs (g : Nat) (x : Addr) : Obs := (acctObs g x).add (balObs (voucher g) x)

theorem acct3Obs_sound (g : Nat) (x : Addr) : (acct3Obs g x).Sound := add_sound (acctObs_sound g x) (balObs_sound _ _)

/-- a base operation changes a holder's holdings, voucher included, by exactly what it states -/
theorem step_holdings3 (cfg : Cfg) (s s' : State) (op : Op) (g : Nat) (x : Addr) (hx : Holder x) (h : step cfg s op = .ok s') :
    (acct3Obs g x).val s'.L = (acct3Obs g x).val s.L + stated s op x g := by
  have a := step_holdings cfg s s' op g x hx h
  have b := step_voucher_frame (balObs_sound (voucher g) x) (vbal_voucherOnly g x) cfg s s' op h
  simp only [acct3Obs, Obs.add, a, b]; omega

macro "acct3_simp" : tactic =>
  `(tactic| (simp only [Obs.flowDelta, acct3Obs, Obs.add, ibcCoinToBaseCoin, baseCoinToIBCCoin]
             simp only [acctObs, Obs.sum, assets, List.map, Obs.add, Obs.zero, balObs]
             simp [T, voucher, ibcRoute, U]))

/-- an IBC operation changes a holder's holdings, voucher included, by exactly what it states -/
theorem stepIbc_holdings3 (cfg : Cfg) (s s' : State) (op : IbcOp) (g' : Nat) (x : Addr) (hx : Holder x)
    (h : stepIbc cfg s op = .ok s') : (acct3Obs g' x).val s'.L = (acct3Obs g' x).val s.L + stated3 op x g' := by
  obtain ⟨fl, hf, hr, -⟩ := stepIbc_flow cfg s s' op h
  rw [runFlow_obs (acct3Obs_sound g' x) fl _ _ hr]
  congr 1
  clear hr h
  have hT' : ¬ (Addr.chainMod 3 = x) := fun e => hx.1 3 e.symm
  cases op with
  | recv g u n =>
    simp only [ibcFlow] at hf; split at hf
    · cases hf
    · cases hf; simp only [stated3]
      acct3_simp
      (repeat' split) <;> (try simp_all) <;> (try omega) <;> (try rfl) <;> (try (split <;> simp_all))
  | toBase g u n toErc =>
    simp only [ibcFlow] at hf; split at hf
    · cases hf
    · cases toErc
      · simp only [Bool.false_eq_true, ↓reduceIte, Except.ok.injEq] at hf; subst hf
        simp only [stated3]
        acct3_simp
        (repeat' split) <;> (try simp_all) <;> (try omega) <;> (try rfl) <;> (try (split <;> simp_all))
      · simp only [↓reduceIte] at hf
        split at hf
        · rename_i k hk
          cases hf
          have hadd : ∀ fl, (acct3Obs g' x).flowDelta fl = (acctObs g' x).flowDelta fl + (balObs (voucher g') x).flowDelta fl :=
            fun fl => flowDelta_add _ _ fl
          rw [flowDelta_append, hadd (convertCoin k g (U u) (U u) n),
            acct_convertCoin g' x hx k g u u n,
            clean_delta (vbal_voucherOnly g' x) _ (clean_convertCoin k g u u n)]
          simp only [stated3]
          acct3_simp
          (repeat' split) <;> (try simp_all) <;> (try omega) <;> (try rfl) <;> (try (split <;> simp_all))
        · cases hf
  | toIbc g u n =>
    simp only [ibcFlow] at hf; split at hf
    · split at hf
      · cases hf; rfl
      · cases hf
    · split at hf
      · cases hf
      · cases hf; simp only [stated3]
        acct3_simp
        (repeat' split) <;> (try simp_all) <;> (try omega) <;> (try rfl) <;> (try (split <;> simp_all))
  | xfer g u n =>
    simp only [ibcFlow] at hf; split at hf
    · cases hf
    · cases hf; simp only [stated3]
      acct3_simp
      (repeat' split) <;> (try simp_all) <;> (try omega) <;> (try rfl) <;> (try (split <;> simp_all))

/-! ### the ibc-transfer module account keeps no base coin -/

/-- no base operation touches the ibc-transfer module account -/
theorem step_T_frame {o : Obs} (hs : o.Sound) (ho : TOnly o) (cfg : Cfg) (s s' : State) (op : Op)
    (h : step cfg s op = .ok s') : o.val s'.L = o.val s.L := by
  unfold step at h
  have key : stepCore cfg s op = .ok s' ∧ ∀ c, op.chain? = some c → c < 3 := by
    cases hch : op.chain? with
    | none => simp only [hch] at h; exact ⟨h, by intro c hc; cases hc⟩
    | some c =>
      simp only [hch] at h
      split at h
      · rename_i hc; exact ⟨h, by intro c' hc'; cases hc'; exact hc⟩
      · cases h
  obtain ⟨fl, hfl, hval⟩ := stepCore_obs hs cfg s s' op key.1
  rw [hval, clean_deltaT ho fl (opFlow_clean cfg s s' op key.2 key.1 fl hfl)]; omega

def tbaseObs (g : Nat) : Obs := balObs (.base g) T

theorem tbase_TOnly (g : Nat) : TOnly (tbaseObs g) := tbal_TOnly _

theorem stepIbc_tbase (cfg : Cfg) (s s' : State) (op : IbcOp) (g' : Nat) (h : stepIbc cfg s op = .ok s') :
    (tbaseObs g').val s'.L = (tbaseObs g').val s.L := by
  obtain ⟨fl, hf, hr, -⟩ := stepIbc_flow cfg s s' op h
  have hv := runFlow_obs (o := tbaseObs g') (balObs_sound _ _) fl _ _ hr
  rw [hv]
  suffices hz : (tbaseObs g').flowDelta fl = 0 by omega
  clear hr h
  cases op with
  | recv g u n =>
    simp only [ibcFlow] at hf; split at hf
    · cases hf
    · cases hf; simp [Obs.flowDelta, tbaseObs, balObs, voucher, T, ibcRoute]
  | toBase g u n toErc =>
    simp only [ibcFlow] at hf; split at hf
    · cases hf
    · cases toErc
      · simp only [Bool.false_eq_true, ↓reduceIte, Except.ok.injEq] at hf; subst hf
        simp [Obs.flowDelta, tbaseObs, balObs, voucher, T, ibcRoute, ibcCoinToBaseCoin, U] <;> (try (split <;> simp)) <;> (try omega)
      · simp only [↓reduceIte] at hf
        split at hf
        · rename_i k hk
          cases hf
          rw [flowDelta_append, clean_deltaT (tbase_TOnly g') _ (clean_convertCoin k g u u n)]
          simp [Obs.flowDelta, tbaseObs, balObs, voucher, T, ibcRoute, ibcCoinToBaseCoin, U] <;> (try (split <;> simp)) <;> (try omega)
        · cases hf
  | toIbc g u n =>
    simp only [ibcFlow] at hf; split at hf
    · split at hf
      · cases hf; rfl
      · cases hf
    · split at hf
      · cases hf
      · cases hf
        simp [Obs.flowDelta, tbaseObs, balObs, voucher, T, ibcRoute, baseCoinToIBCCoin, U] <;> (try (split <;> simp)) <;> (try omega)
  | xfer g u n =>
    simp only [ibcFlow] at hf; split at hf
    · cases hf
    · cases hf; simp [Obs.flowDelta, tbaseObs, balObs, voucher, T, ibcRoute]

theorem step3_tbase (cfg : Cfg) (s s' : State3) (op : Op3) (g : Nat) (h : step3 cfg s op = .ok s') :
    (tbaseObs g).val s'.s2.base.L = (tbaseObs g).val s.s2.base.L := by
  have hb : ∀ a b o, step cfg a o = .ok b → (tbaseObs g).val b.L = (tbaseObs g).val a.L :=
    fun a b o hs => step_T_frame (balObs_sound _ _) (tbal_TOnly _) cfg a b o hs
  cases op with
  | claim op =>
    simp only [step3] at h
    cases h2 : step2 cfg s.s2 op with
    | error e => simp [h2] at h
    | ok t =>
      simp only [h2, Except.ok.injEq] at h; subst h
      have hst := step2With_steps cfg execSteps s.s2 t op h2
      exact Steps.inv (P := fun b => (tbaseObs g).val b.L = (tbaseObs g).val s.s2.base.L)
        (fun a b o hs hp => by rw [hb a b o hs]; exact hp) hst rfl
  | ibc op =>
    simp only [step3] at h
    cases hi : stepIbc cfg s.s2.base op with
    | error e => simp [hi] at h
    | ok b =>
      simp only [hi] at h
      have hm := stepIbc_tbase cfg _ _ op g hi
      cases op <;> simp only [Except.ok.injEq] at h <;> subst h <;> simpa [setBase] using hm
  | depositIbc c g0 u n =>
    simp only [step3] at h
    cases h1 : step cfg s.s2.base (.deposit c g0 u n false) with
    | error e => simp [h1] at h
    | ok b1 =>
      simp only [h1] at h
      cases h2 : stepIbc cfg b1 (.toIbc g0 u n) with
      | error e => simp [h2] at h
      | ok b2 =>
        simp only [h2] at h
        cases h3 : stepIbc cfg b2 (.xfer g0 u n) with
        | error e => simp [h3] at h
        | ok b3 =>
          simp only [h3, Except.ok.injEq] at h; subst h
          have m1 := hb _ _ _ h1
          have m2 := stepIbc_tbase cfg _ _ _ g h2
          have m3 := stepIbc_tbase cfg _ _ _ g h3
          simp only [setBase]; omega
  | xibc g0 u n =>
    simp only [step3] at h
    split at h
    · cases h
    · cases hk : cfg.kind g0 with
      | none => simp [hk] at h
      | some kp =>
        simp only [hk] at h
        cases h1 : run s.s2.base (precompileTokenIn kp g0 (U u) n) with
        | error e => simp [h1] at h
        | ok b1 =>
          simp only [h1] at h
          cases h2 : stepIbc cfg b1 (.toIbc g0 u n) with
          | error e => simp [h2] at h
          | ok b2 =>
            simp only [h2] at h
            cases h3 : stepIbc cfg b2 (.xfer g0 u n) with
            | error e => simp [h3] at h
            | ok b3 =>
              simp only [h3, Except.ok.injEq] at h; subst h
              obtain ⟨L', hL, rfl⟩ := run_ok h1
              have m1 := runFlow_obs (balObs_sound (.base g) T) _ _ _ hL
              rw [clean_deltaT (tbal_TOnly _) _ (clean_precompileTokenIn kp g0 u n)] at m1
              have m2 := stepIbc_tbase cfg _ _ _ g h2
              have m3 := stepIbc_tbase cfg _ _ _ g h3
              simp only [setBase, tbaseObs] at m1 m2 m3 ⊢; omega

theorem runOps3_tbase (cfg : Cfg) (ops : List Op3) (s : State3) (g : Nat) :
    (tbaseObs g).val (runOps3 cfg s ops).s2.base.L = (tbaseObs g).val s.s2.base.L := by
  induction ops generalizing s with
  | nil => rfl
  | cons op ops ih =>
    simp only [runOps3, List.foldl_cons] at ih ⊢
    rw [ih]
    unfold stepT3
    cases h : step3 cfg s op with
    | error e => rfl
    | ok s' => exact step3_tbase cfg s s' op g h

end FxVerif.Proofs.C04
