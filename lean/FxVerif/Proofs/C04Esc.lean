import FxVerif.Proofs.C04Flow
/-! C04: the bridge-side escrow of a LOCKING token (FX, externally-owned pair) on a chain is exactly the value in flight
on that chain plus what circulates on the external chain — for every history, under the environment bound on deposits.
So every cancel, refund and deposit of such a token finds its funds in the chain's module account. -/
namespace FxVerif.Proofs.C04
open FxVerif.Model.Ledger FxVerif.Model.Flows FxVerif.Model.C04 FxVerif.Proofs.Ledger

/-- the asset the bridge side of chain `c` locks for a token of kind `k`: FX itself, or the bridge denomination -/
def lockAsset (k : Kind) (g c : Nat) : Asset :=
  match k with
  | .fx => .base g
  | _ => .bridge g c

/-- balance of the chain's module account in the locked asset -/
def escObs (k : Kind) (g c : Nat) : Obs := balObs (lockAsset k g c) (M c)

theorem escObs_sound (k : Kind) (g c : Nat) : (escObs k g c).Sound := balObs_sound _ _

section esc
variable (k0 : Kind) (g0 c0 : Nat) (hk0 : k0 ≠ .moduleOwned)

macro "esc_simp" : tactic =>
  `(tactic| simp [Obs.flowDelta, escObs, lockAsset, balObs, U, M, E, Den.asset, badContract, precompileAcc, evmMod])

macro "esc_done" : tactic =>
  `(tactic| (first | (esc_simp; done) | (esc_simp <;> (repeat' split) <;> (try simp_all) <;> (try omega))))

include hk0

theorem esc_deposit (k : Kind) (g c u n : Nat) (hkk : g = g0 → k = k0) :
    (escObs k0 g0 c0).flowDelta (bridgeTokenToBaseCoin k g c (U u) n) = if g = g0 ∧ c = c0 then -(n : Int) else 0 := by
  have hne := fun (hk : k ≠ k0) (e : g = g0) => hk (hkk e)
  cases k <;> cases k0 <;> first | exact absurd rfl hk0 | skip
  all_goals simp only [bridgeTokenToBaseCoin, depositBridgeToken, conversionCoin, List.cons_append, List.nil_append, ite_true]
  all_goals (try simp at hne)
  all_goals esc_done

theorem esc_depositBad (k : Kind) (g c r n : Nat) (hkk : g = g0 → k = k0) :
    (escObs k0 g0 c0).flowDelta (bridgeTokenToBaseCoin k g c badContract n ++ [.send (.base g) badContract (U r) n]) =
      if g = g0 ∧ c = c0 then -(n : Int) else 0 := by
  have hne := fun (hk : k ≠ k0) (e : g = g0) => hk (hkk e)
  cases k <;> cases k0 <;> first | exact absurd rfl hk0 | skip
  all_goals simp only [bridgeTokenToBaseCoin, depositBridgeToken, conversionCoin, List.cons_append, List.nil_append, ite_true]
  all_goals (try simp at hne)
  all_goals esc_done

theorem esc_withdraw (k : Kind) (g c u n : Nat) (hkk : g = g0 → k = k0) :
    (escObs k0 g0 c0).flowDelta (baseCoinToBridgeToken k g c (U u) n) = if g = g0 ∧ c = c0 then (n : Int) else 0 := by
  have hne := fun (hk : k ≠ k0) (e : g = g0) => hk (hkk e)
  cases k <;> cases k0 <;> first | exact absurd rfl hk0 | skip
  all_goals simp only [baseCoinToBridgeToken, withdrawBridgeToken, conversionCoin, List.cons_append, List.nil_append]
  all_goals (try simp at hne)
  all_goals esc_done

theorem esc_addBridgeFee (k : Kind) (g c u n : Nat) (hkk : g = g0 → k = k0) :
    (escObs k0 g0 c0).flowDelta (addBridgeFee k g c (U u) n) = if g = g0 ∧ c = c0 then (n : Int) else 0 := by
  have hne := fun (hk : k ≠ k0) (e : g = g0) => hk (hkk e)
  cases k <;> cases k0 <;> first | exact absurd rfl hk0 | skip
  all_goals simp only [addBridgeFee]
  all_goals (try simp at hne)
  all_goals esc_done

theorem esc_refundCoin (k : Kind) (g c r n : Nat) (hkk : g = g0 → k = k0) :
    (escObs k0 g0 c0).flowDelta (bridgeCallRefundCoin k g c (U r) n) = if g = g0 ∧ c = c0 then -(n : Int) else 0 := by
  have hne := fun (hk : k ≠ k0) (e : g = g0) => hk (hkk e)
  cases k <;> cases k0 <;> first | exact absurd rfl hk0 | skip
  all_goals simp only [bridgeCallRefundCoin, convertDenom, List.cons_append, List.nil_append]
  all_goals (try simp at hne)
  all_goals esc_done

omit hk0

theorem esc_convertCoin (k : Kind) (g u r n : Nat) :
    (escObs k0 g0 c0).flowDelta (convertCoin k g (U u) (U r) n) = 0 := by
  cases k <;> simp only [convertCoin] <;> esc_done

theorem esc_convertERC20 (k : Kind) (g u r n : Nat) :
    (escObs k0 g0 c0).flowDelta (convertERC20 k g (U u) (U r) n) = 0 := by
  cases k <;> simp only [convertERC20] <;> esc_done

theorem esc_precompileTokenIn (k : Kind) (g u n : Nat) :
    (escObs k0 g0 c0).flowDelta (precompileTokenIn k g (U u) n) = 0 := by
  cases k <;> simp only [precompileTokenIn, List.cons_append, List.nil_append] <;> esc_done

theorem esc_valueIn (g u n : Nat) : (escObs k0 g0 c0).flowDelta (valueIn g (U u) n) = 0 := by
  simp only [valueIn]; esc_done

theorem esc_convertDenom (k : Kind) (g u n : Nat) (src dst : Den) :
    (escObs k0 g0 c0).flowDelta (convertDenom k g (U u) n src dst) = 0 := by
  cases k <;> cases src <;> cases dst <;> simp only [convertDenom, List.cons_append, List.nil_append] <;> esc_done

theorem esc_sendPair (a : Asset) (u r n : Nat) :
    (escObs k0 g0 c0).flowDelta [.send a (U u) E n, .send a E (U r) n] = 0 := by
  esc_done

theorem esc_feeToBridgeDenom (k : Kind) (g c u n : Nat) :
    (escObs k0 g0 c0).flowDelta (feeToBridgeDenom k g c (U u) n) = 0 := by
  cases k <;> simp only [feeToBridgeDenom]
  · rfl
  · exact esc_convertDenom k0 g0 c0 _ g u n _ _
  · exact esc_convertDenom k0 g0 c0 _ g u n _ _

theorem esc_refundToEvm (k : Kind) (g r n : Nat) :
    (escObs k0 g0 c0).flowDelta (bridgeCallRefundToEvm k g (U r) n) = 0 := by
  cases k <;> simp only [bridgeCallRefundToEvm, convertCoin] <;> esc_done

end esc

/-! ### the escrow measure along operations -/

/-- escrow − in flight on the chain − circulating outside -/
def emeasure (k0 : Kind) (g0 c0 : Nat) (s : State) : Int :=
  (escObs k0 g0 c0).val s.L - chainInFlight g0 (s.chains c0) - (s.chains c0).ext g0

theorem bridged_kind {cfg : Cfg} {g c : Nat} {k : Kind} (h : bridged cfg g c = some k) : cfg.kind g = some k := by
  unfold bridged at h; split at h
  · exact h
  · cases h

theorem kind_unique {cfg : Cfg} {g g0 c : Nat} {k k0 : Kind} (h : bridged cfg g c = some k) (h0 : cfg.kind g0 = some k0) :
    g = g0 → k = k0 := by
  intro e; subst e; have := bridged_kind h; rw [h0] at this; cases this; rfl

theorem tokensValue_pos_mem (g : Nat) (ts : List (Nat × Nat)) (h : 0 < tokensValue g ts) : ∃ t ∈ ts, t.1 = g := by
  induction ts with
  | nil => simp [tokensValue] at h
  | cons t ts ih =>
    by_cases ht : t.1 = g
    · exact ⟨t, List.mem_cons_self, ht⟩
    · have : 0 < tokensValue g ts := by simpa [tokensValue, ht] using h
      obtain ⟨t', h1, h2⟩ := ih this
      exact ⟨t', List.mem_cons_of_mem _ h1, h2⟩

/-- the environment bound: a deposit of a locking token does not exceed what circulates outside -/
theorem envOk_bound {cfg : Cfg} {cs : ChainSt} {ts : List (Nat × Nat)} {g0 : Nat} {k0 : Kind}
    (he : cfg.envBound = true) (h0 : cfg.kind g0 = some k0) (hk0 : k0 ≠ .moduleOwned)
    (h : envOk cfg cs ts = true) : tokensValue g0 ts ≤ cs.ext g0 := by
  by_cases hp : 0 < tokensValue g0 ts
  · obtain ⟨t, ht, rfl⟩ := tokensValue_pos_mem g0 ts hp
    simp only [envOk, he, Bool.not_true, Bool.false_or, List.all_eq_true] at h
    have := h t ht
    have hl : locks cfg t.1 = true := by
      cases k0 <;> simp only [locks, h0] <;> exact absurd rfl hk0
    simpa [hl] using this
  · omega

section em
variable (cfg : Cfg) (k0 : Kind) (g0 c0 : Nat)

theorem emeasure_finish (s s1 : State) (fl : List Prim) (c : Nat) (cs : ChainSt) (dep wd : List (Nat × Nat))
    (hr : run s fl = .ok s1) (hext : cs.ext = (s.chains c).ext)
    (henv : c = c0 → tokensValue g0 dep ≤ (s.chains c).ext g0 + tokensValue g0 wd) :
    emeasure k0 g0 c0 (finish s1 c cs dep wd) = emeasure k0 g0 c0 s + (escObs k0 g0 c0).flowDelta fl
      - (if c = c0 then (chainInFlight g0 cs : Int) - chainInFlight g0 (s.chains c0) + tokensValue g0 wd
          - tokensValue g0 dep else 0) := by
  obtain ⟨L', hL, rfl⟩ := run_ok hr
  have hv := runFlow_obs (escObs_sound k0 g0 c0) fl s.L L' hL
  simp only [emeasure, finish, setChain, hv]
  by_cases hc : c = c0
  · subst hc
    have := henv rfl
    simp only [↓reduceIte, hext, chainInFlight]
    omega
  · have hc' : ¬ c0 = c := fun e => hc e.symm
    simp only [hc, hc', ↓reduceIte]
    omega

theorem run_nil (s : State) : run s [] = .ok s := rfl

end em
end FxVerif.Proofs.C04
