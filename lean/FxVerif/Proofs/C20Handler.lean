import FxVerif.Model.C20Handler
/-!
# C20 — soundness of the reachability certificate (for every graph)
-/
namespace FxVerif.Proofs.C20Handler
open FxVerif.Model.C20Handler

/-- one edge out of a closed set stays inside -/
theorem closed_edge (g : Graph) (R : Nat) (h : closed g R = true) {a b : Nat} (ha : inSet R a = true) (he : g.edge a b) :
    inSet R b = true := by
  obtain ⟨ts, hm, hb⟩ := he
  have h1 := List.all_eq_true.1 h (a, ts) hm
  simp only [Bool.or_eq_true, Bool.not_eq_eq_eq_not, Bool.not_true, List.all_eq_true] at h1
  rcases h1 with h1 | h1
  · rw [ha] at h1
    cases h1
  · exact h1 b hb

/-- **a closed set contains everything reachable from any of its members** — for every graph and every set -/
theorem closed_sound (g : Graph) (R : Nat) (h : closed g R = true) {a b : Nat} (ha : inSet R a = true) (hr : Reach g a b) :
    inSet R b = true := by
  induction hr with
  | refl => exact ha
  | step _ he ih => exact closed_edge g R h ih he

/-- the certificate: nothing outside `R` is reachable from the roots -/
theorem certifies_sound (g : Graph) (roots : List Nat) (R : Nat) (h : certifies g roots R = true) (n : Nat)
    (hn : inSet R n = false) : ¬ reachableFrom g roots n := by
  simp only [certifies, Bool.and_eq_true, List.all_eq_true] at h
  rintro ⟨r, hr, hreach⟩
  have := closed_sound g R h.2 (h.1 r hr) hreach
  rw [hn] at this
  cases this

/-- the certificate is not only sound but can be made tight: reachability itself is closed (so the smallest certificate is
the reachable set) -/
theorem reach_trans (g : Graph) {a b c : Nat} (h1 : Reach g a b) (h2 : Reach g b c) : Reach g a c := by
  induction h2 with
  | refl => exact h1
  | step _ he ih => exact Reach.step ih he

/-- removing edges can only shrink reachability (the ungated graph is a sub-graph of the full one) -/
theorem reach_mono (g g' : Graph) (hsub : ∀ a b, g.edge a b → g'.edge a b) {a b : Nat} (h : Reach g a b) : Reach g' a b := by
  induction h with
  | refl => exact Reach.refl _
  | step _ he ih => exact Reach.step ih (hsub _ _ he)

/-- **the last call on every path from a root into one of the functions `fs` is a guarded call** — for every graph, certificate
and call table: if the certificate checks and `edgesGuarded` holds, then whatever the path `r →* a → f` (with `f ∈ fs`), the
call `a → f` is in the table with its dominating test -/
theorem edgesGuarded_sound (g : Graph) (roots : List Nat) (R : Nat) (qcalls : List QCall) (fs : List Nat)
    (hc : certifies g roots R = true) (hg : edgesGuarded g R qcalls fs = true)
    {r a f : Nat} (hr : r ∈ roots) (hra : Reach g r a) (he : g.edge a f) (hf : f ∈ fs) :
    callsGuarded qcalls a f = true := by
  simp only [certifies, Bool.and_eq_true, List.all_eq_true] at hc
  have ha : inSet R a = true := closed_sound g R hc.2 (hc.1 r hr) hra
  obtain ⟨ts, hm, hb⟩ := he
  have h1 := List.all_eq_true.1 hg (a, ts) hm
  simp only [Bool.or_eq_true, Bool.not_eq_eq_eq_not, Bool.not_true, List.all_eq_true] at h1
  rcases h1 with h1 | h1
  · rw [ha] at h1
    cases h1
  · rcases h1 f hb with h2 | h2
    · have : fs.contains f = true := by simpa using hf
      rw [this] at h2
      cases h2
    · exact h2

end FxVerif.Proofs.C20Handler
