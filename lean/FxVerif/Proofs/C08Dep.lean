import FxVerif.Model.C08DepI
/-!
# C08 — the hand-written StateDB cache / journal model equals the interpretation of the regenerated source (round 5)
-/
namespace FxVerif.Proofs.C08Dep
open FxVerif.Model.C08Cache FxVerif.Model.C08Dep FxVerif.Gen.C08e

theorem iGetState_eq (k : Slot) (o : Outer) (j : List (Slot × Nat)) :
    iGetState k ⟨o, j⟩ = some ((o.read k).1, ⟨(o.read k).2, j⟩) := by
  unfold iGetState Outer.read
  simp only [getState_body, exec, mapOf]
  cases hd : lookup k o.dirty with
  | some v => simp
  | none =>
    simp only [calleesGet, iGetCommitted, getCommittedState_body, exec, mapOf, if_true]
    cases ho : lookup k o.origin with
    | some v => simp
    | none => simp [envGet]

theorem iSetRaw_eq (k : Slot) (v : Nat) (s : ObjSt) :
    iSetRaw k v s = some { s with o := { s.o with dirty := (k, v) :: s.o.dirty } } := by
  simp [iSetRaw, setState_body, exec, envGet]

theorem iSetState_eq (k : Slot) (v : Nat) (s : ObjSt) :
    iSetState k v s = some (stepAcc s (.wr k v)) := by
  obtain ⟨o, j⟩ := s
  unfold iSetState
  simp only [setStateJ_body, exec, calleesSet, if_true, iGetState_eq, envGet]
  by_cases h : (o.read k).1 = v
  · simp [h, stepAcc]
  · simp [h, stepAcc, iSetRaw_eq, Outer.write]

theorem iStepAcc_eq (s : ObjSt) (a : Acc) : iStepAcc s a = some (stepAcc s a) := by
  cases a with
  | rd k => obtain ⟨o, j⟩ := s; simp [iStepAcc, iGetState_eq, stepAcc]
  | wr k v => simp [iStepAcc, iSetState_eq]
  | native st => simp [iStepAcc, stepAcc]

/-- the whole run through the interpreted source -/
def iRunAcc : List Acc → ObjSt → Option ObjSt
  | [], s => some s
  | a :: rest, s =>
    match iStepAcc s a with
    | some s1 => iRunAcc rest s1
    | none => none

theorem iRunAcc_eq (as : List Acc) (s : ObjSt) : iRunAcc as s = some (runAcc as s) := by
  induction as generalizing s with
  | nil => rfl
  | cons a rest ih => simp [iRunAcc, iStepAcc_eq, runAcc, ih]

theorem write_eq_step (o : Outer) (j : List (Slot × Nat)) (k : Slot) (v : Nat) :
    (stepAcc ⟨o, j⟩ (.wr k v)).o = o.write k v := by
  by_cases h : (o.read k).1 = v <;> simp [stepAcc, h, Outer.write]

theorem runAcc_accsOf (p : TProg) (o : Outer) (j : List (Slot × Nat)) :
    (runAcc (accsOf p o) ⟨o, j⟩).o = (runOuter p o).2 := by
  induction p generalizing o j with
  | done ok => rfl
  | read k cont ih =>
    simp only [accsOf, runAcc, runOuter, stepAcc]
    exact ih _ _ _
  | write k v cont ih =>
    simp only [accsOf, runAcc, runOuter]
    have h := write_eq_step o j k v
    generalize stepAcc ⟨o, j⟩ (.wr k v) = s1 at h
    obtain ⟨o1, j1⟩ := s1
    simp only at h
    subst h
    exact ih _ _

/-! ### Commit -/

theorem iCommitSlot_eq (k : Slot) (s : ObjSt) :
    iCommitSlot k s = some
      (if (lookup k s.o.dirty).getD 0 = (lookup k s.o.origin).getD 0 then s
       else { s with o := { s.o with store := s.o.store.set k ((lookup k s.o.dirty).getD 0) } }) := by
  unfold iCommitSlot
  simp only [commitSlot_body, exec, envGet, mapOf, if_true]
  by_cases h : (lookup k s.o.dirty).getD 0 = (lookup k s.o.origin).getD 0 <;> simp [h]

theorem commitKeys_spec (ks : List Slot) (s : ObjSt)
    (hks : ∀ k ∈ ks, (lookup k s.o.dirty).isSome = true) :
    ∃ s', commitKeys ks s = some s' ∧ s'.o.dirty = s.o.dirty ∧ s'.o.origin = s.o.origin ∧ s'.journal = s.journal ∧
      ∀ k, s'.o.store k = if k ∈ ks then s.o.commit k else s.o.store k := by
  induction ks generalizing s with
  | nil => exact ⟨s, rfl, rfl, rfl, rfl, fun k => by simp⟩
  | cons k0 rest ih =>
    simp only [commitKeys, iCommitSlot_eq]
    have hk0 := hks k0 (by simp)
    obtain ⟨v0, hv0⟩ := Option.isSome_iff_exists.mp hk0
    by_cases h : (lookup k0 s.o.dirty).getD 0 = (lookup k0 s.o.origin).getD 0
    · simp only [h, if_true]
      obtain ⟨s', h1, h2, h3, h4, h5⟩ := ih s (fun k hk => hks k (by simp [hk]))
      refine ⟨s', h1, h2, h3, h4, fun k => ?_⟩
      rw [h5 k]
      by_cases hk : k = k0
      · subst hk
        by_cases hr : k ∈ rest
        · simp [hr]
        · simp only [hr, if_false, List.mem_cons, true_or, if_true]
          simp only [hv0, Option.getD_some] at h
          simp [Outer.commit, hv0, h]
      · simp [hk]
    · simp only [h, if_false]
      obtain ⟨s', h1, h2, h3, h4, h5⟩ := ih { s with o := { s.o with store := s.o.store.set k0 ((lookup k0 s.o.dirty).getD 0) } }
        (fun k hk => hks k (by simp [hk]))
      refine ⟨s', h1, h2, h3, h4, fun k => ?_⟩
      rw [h5 k]
      simp only [hv0, Option.getD_some] at h ⊢
      by_cases hk : k = k0
      · subst hk
        by_cases hr : k ∈ rest
        · simp [hr, Outer.commit, hv0, h]
        · simp [hr, Outer.commit, hv0, h, Store.set]
      · by_cases hr : k ∈ rest
        · simp [hr, hk, Outer.commit, Store.set]
        · simp [hr, hk, Store.set]

theorem lookup_isSome_of_mem_keys (k : Slot) (l : List (Slot × Nat)) (h : k ∈ l.map (·.1)) :
    (lookup k l).isSome = true := by
  induction l with
  | nil => simp at h
  | cons kv rest ih =>
    obtain ⟨k1, v1⟩ := kv
    simp only [lookup]
    by_cases hk : k1 = k
    · simp [hk]
    · simp only [hk, if_false]
      apply ih
      simp only [List.map_cons, List.mem_cons] at h
      rcases h with h | h
      · exact absurd h.symm hk
      · exact h

theorem lookup_none_of_not_mem_keys (k : Slot) (l : List (Slot × Nat)) (h : k ∉ l.map (·.1)) :
    lookup k l = none := by
  induction l with
  | nil => rfl
  | cons kv rest ih =>
    obtain ⟨k1, v1⟩ := kv
    simp only [List.map_cons, List.mem_cons, not_or] at h
    simp only [lookup]
    have : ¬ k1 = k := fun e => h.1 e.symm
    simp [this, ih h.2]

/-- **Commit as the source says** = `Outer.commit`, slot by slot, for every StateDB state -/
theorem iCommit_eq (s : ObjSt) :
    ∃ s', iCommit s = some s' ∧ ∀ k, s'.o.store k = s.o.commit k := by
  obtain ⟨s', h1, _, _, _, h5⟩ := commitKeys_spec (s.o.dirty.map (·.1)) s (fun k hk => lookup_isSome_of_mem_keys k _ hk)
  refine ⟨s', by simp [iCommit, commit_rangesOverDirtyKeys, h1], fun k => ?_⟩
  rw [h5 k]
  by_cases hk : k ∈ s.o.dirty.map (·.1)
  · simp [hk]
  · simp only [hk, if_false]
    simp [Outer.commit, lookup_none_of_not_mem_keys k _ hk]

/-! ### RevertToSnapshot -/

/-- undoing storage entries one after the other (hand form of `revertAll`) -/
def replay : List (Slot × Nat) → Outer → Outer
  | [], o => o
  | (k, p) :: rest, o => replay rest { o with dirty := (k, p) :: o.dirty }

theorem iRevertEntry_eq (kp : Slot × Nat) (s : ObjSt) :
    iRevertEntry kp s = some { s with o := { s.o with dirty := (kp.1, kp.2) :: s.o.dirty } } := by
  simp [iRevertEntry, storageChangeRevert_body, exec, envGet, calleesSet, iSetRaw_eq]

theorem revertAll_eq (seg : List (Slot × Nat)) (o : Outer) (j : List (Slot × Nat)) :
    revertAll seg ⟨o, j⟩ = some ⟨replay seg o, j⟩ := by
  induction seg generalizing o with
  | nil => rfl
  | cons kp rest ih =>
    obtain ⟨k, p⟩ := kp
    simp only [revertAll, iRevertEntry_eq, replay]
    exact ih _

theorem lookup_append (k : Slot) (l1 l2 : List (Slot × Nat)) :
    lookup k (l1 ++ l2) = (lookup k l1).orElse (fun _ => lookup k l2) := by
  induction l1 with
  | nil => simp [lookup]
  | cons kv rest ih =>
    obtain ⟨k1, v1⟩ := kv
    simp only [List.cons_append, lookup]
    by_cases h : k1 = k <;> simp [h, ih]

theorem replay_frame (seg : List (Slot × Nat)) (o : Outer) :
    (replay seg o).origin = o.origin ∧ (replay seg o).store = o.store := by
  induction seg generalizing o with
  | nil => exact ⟨rfl, rfl⟩
  | cons kp rest ih => obtain ⟨k, p⟩ := kp; simp only [replay]; exact ih _

theorem lookup_replay (k : Slot) (seg : List (Slot × Nat)) (o : Outer) :
    lookup k (replay seg o).dirty = (lookup k seg.reverse).orElse (fun _ => lookup k o.dirty) := by
  induction seg generalizing o with
  | nil => simp [replay, lookup]
  | cons kp rest ih =>
    obtain ⟨k1, p1⟩ := kp
    simp only [replay, List.reverse_cons, lookup_append, ih, lookup]
    cases hr : lookup k rest.reverse with
    | some v => simp
    | none => by_cases h : k1 = k <;> simp [h]

theorem lookup_map_val (k : Slot) (l : List (Slot × Nat)) (g : Slot → Nat) :
    lookup k (l.map fun kv => (kv.1, g kv.1)) = (lookup k l).map (fun _ => g k) := by
  induction l with
  | nil => rfl
  | cons kv rest ih =>
    obtain ⟨k1, v1⟩ := kv
    simp only [List.map_cons, lookup]
    by_cases h : k1 = k
    · subst h; simp
    · simp [h, ih]

theorem read_dirty (o : Outer) (k : Slot) : (o.read k).2.dirty = o.dirty := by
  unfold Outer.read
  split
  · rfl
  · split <;> rfl

theorem read_origin_mono (o : Outer) (k k' : Slot) (w : Nat) (h : lookup k' o.origin = some w) :
    lookup k' (o.read k).2.origin = some w := by
  unfold Outer.read
  split
  · exact h
  · split
    · exact h
    · rename_i hn
      simp only [lookup]
      by_cases hk : k = k'
      · subst hk; rw [hn] at h; cases h
      · simp [hk, h]

theorem read_fst_of_dirty (o : Outer) (k : Slot) (v : Nat) (h : lookup k o.dirty = some v) : (o.read k).1 = v := by
  simp [Outer.read, h]

theorem read_caches (o : Outer) (k : Slot) (h : lookup k o.dirty = none) :
    lookup k (o.read k).2.origin = some (o.read k).1 := by
  unfold Outer.read
  simp only [h]
  split
  · rename_i v hv; exact hv
  · simp [lookup]

/-- what the journal segment of a frame knows about the snapshot: the OLDEST entry of a slot holds the value the slot had
at the snapshot (its dirty value, else its — by then cached — origin value); a slot without an entry has the dirty value it
had at the snapshot -/
structure JInv (snap : Outer) (seg : List (Slot × Nat)) (cur : Outer) : Prop where
  a : ∀ k p, lookup k seg.reverse = some p → (lookup k cur.dirty).isSome = true ∧
        (match lookup k snap.dirty with
         | some v => p = v
         | none => lookup k cur.origin = some p)
  b : ∀ k, lookup k seg.reverse = none → lookup k cur.dirty = lookup k snap.dirty

theorem JInv.init (snap : Outer) : JInv snap [] snap :=
  ⟨fun k p h => by simp [lookup] at h, fun _ _ => rfl⟩

theorem JInv.read {snap cur : Outer} {seg : List (Slot × Nat)} (h : JInv snap seg cur) (k0 : Slot) :
    JInv snap seg (cur.read k0).2 := by
  refine ⟨fun k p hp => ?_, fun k hn => ?_⟩
  · obtain ⟨h1, h2⟩ := h.a k p hp
    refine ⟨by rw [read_dirty]; exact h1, ?_⟩
    cases hs : lookup k snap.dirty with
    | some v => rw [hs] at h2; exact h2
    | none => rw [hs] at h2; exact read_origin_mono _ _ _ _ h2
  · rw [read_dirty]; exact h.b k hn

theorem JInv.step {snap cur : Outer} {seg j0 : List (Slot × Nat)} (h : JInv snap seg cur) (a : Acc) :
    ∃ seg', (stepAcc ⟨cur, seg ++ j0⟩ a).journal = seg' ++ j0 ∧ JInv snap seg' (stepAcc ⟨cur, seg ++ j0⟩ a).o := by
  cases a with
  | rd k0 => exact ⟨seg, rfl, h.read k0⟩
  | native st => exact ⟨seg, rfl, ⟨h.a, h.b⟩⟩
  | wr k0 v =>
    by_cases hv : (cur.read k0).1 = v
    · refine ⟨seg, by simp [stepAcc, hv], ?_⟩
      simp only [stepAcc, hv, if_true]
      exact h.read k0
    · refine ⟨(k0, (cur.read k0).1) :: seg, by simp [stepAcc, hv], ?_⟩
      have hr := h.read k0
      simp only [stepAcc, hv, if_false, Outer.write]
      refine ⟨fun k p hp => ?_, fun k hn => ?_⟩
      · simp only [List.reverse_cons, lookup_append, lookup] at hp
        cases hs : lookup k seg.reverse with
        | some p' =>
          rw [hs] at hp
          simp only [Option.orElse_some, Option.some.injEq] at hp
          subst hp
          obtain ⟨h1, h2⟩ := hr.a k p' hs
          refine ⟨?_, h2⟩
          simp only [lookup]
          by_cases hk : k0 = k <;> simp [hk, h1]
        | none =>
          rw [hs] at hp
          by_cases hk : k0 = k
          · subst hk
            simp only [Option.orElse_none, if_true, Option.some.injEq] at hp
            subst hp
            refine ⟨by simp [lookup], ?_⟩
            have hb := h.b k0 hs
            cases hsd : lookup k0 snap.dirty with
            | some v' =>
              rw [hsd] at hb
              exact read_fst_of_dirty _ _ _ hb
            | none =>
              rw [hsd] at hb
              exact read_caches _ _ hb
          · simp [hk] at hp
      · simp only [List.reverse_cons, lookup_append, lookup] at hn
        cases hs : lookup k seg.reverse with
        | some p' => rw [hs] at hn; simp at hn
        | none =>
          rw [hs] at hn
          by_cases hk : k0 = k
          · simp [hk] at hn
          · simp only [lookup, hk, if_false]
            exact hr.b k hs

theorem JInv.run {snap cur : Outer} {seg j0 : List (Slot × Nat)} (h : JInv snap seg cur) (as : List Acc) :
    ∃ seg', (runAcc as ⟨cur, seg ++ j0⟩).journal = seg' ++ j0 ∧ JInv snap seg' (runAcc as ⟨cur, seg ++ j0⟩).o := by
  induction as generalizing cur seg with
  | nil => exact ⟨seg, rfl, h⟩
  | cons a rest ih =>
    obtain ⟨seg1, hj, hi⟩ := h.step (j0 := j0) a
    simp only [runAcc]
    generalize stepAcc ⟨cur, seg ++ j0⟩ a = s1 at hj hi
    obtain ⟨o1, j1⟩ := s1
    simp only at hj hi
    subst hj
    exact ih hi

theorem JInv.revert {snap cur : Outer} {seg : List (Slot × Nat)} (h : JInv snap seg cur) (k : Slot) :
    lookup k (replay seg cur).dirty = lookup k (snap.revertTo cur).dirty := by
  have e : lookup k (snap.revertTo cur).dirty = (lookup k cur.dirty).map (fun _ =>
      match lookup k snap.dirty with
      | some v => v
      | none => (lookup k cur.origin).getD 0) :=
    lookup_map_val k cur.dirty (fun k => match lookup k snap.dirty with
      | some v => v
      | none => (lookup k cur.origin).getD 0)
  rw [lookup_replay, e]
  cases hs : lookup k seg.reverse with
  | some p =>
    obtain ⟨h1, h2⟩ := h.a k p hs
    obtain ⟨d, hd⟩ := Option.isSome_iff_exists.mp h1
    simp only [Option.orElse_some, hd, Option.map_some]
    cases hsd : lookup k snap.dirty with
    | some v => rw [hsd] at h2; simp [h2]
    | none => rw [hsd] at h2; simp [h2]
  | none =>
    have hb := h.b k hs
    simp only [Option.orElse_none, hb]
    cases hsd : lookup k snap.dirty with
    | some v => simp
    | none => simp

/-! ### whole transactions -/

theorem iRunProg_eq (p : TProg) (o : Outer) (j : List (Slot × Nat)) :
    ∃ j', iRunProg p ⟨o, j⟩ = some ((runOuter p o).1, ⟨(runOuter p o).2, j'⟩) := by
  induction p generalizing o j with
  | done ok => exact ⟨j, rfl⟩
  | read k cont ih =>
    simp only [iRunProg, iGetState_eq, runOuter]
    exact ih _ _ _
  | write k v cont ih =>
    simp only [iRunProg, iSetState_eq, runOuter]
    have h := write_eq_step o j k v
    generalize stepAcc ⟨o, j⟩ (.wr k v) = s1 at h
    obtain ⟨o1, j1⟩ := s1
    simp only at h
    subst h
    exact ih _ _

theorem iNested_eq (p : TProg) (st : Store) : iNested p st = some (nestedCall p st) := by
  obtain ⟨j', h⟩ := iRunProg_eq p { store := st } []
  simp only [iNested, applyMessage_freshStateDB, applyMessage_commitsIffAsked, Bool.and_self, if_true, h, nestedCall]
  cases hok : (runOuter p { store := st }).1 with
  | false => simp
  | true =>
    obtain ⟨s2, h2, h3⟩ := iCommit_eq ⟨(runOuter p { store := st }).2, j'⟩
    have : s2.o.store = (runOuter p { store := st }).2.commit := funext h3
    simp [h2, this]

theorem iRunTx_eq (steps : List MStep) (o : Outer) (j : List (Slot × Nat)) (esc : Nat) :
    ∃ r, iRunTx steps ⟨o, j⟩ esc = some r ∧
      r.map (fun x => (x.1.o, x.2)) = (runTx steps ⟨o, esc⟩).map (fun t => (t.o, t.esc)) := by
  induction steps generalizing o j esc with
  | nil => exact ⟨_, rfl, rfl⟩
  | cons st rest ih =>
    cases st with
    | evm p pay =>
      obtain ⟨j', h⟩ := iRunProg_eq p o j
      simp only [iRunTx, h, runTx]
      cases hok : (runOuter p o).1 with
      | false =>
        have : runOuter p o = (false, (runOuter p o).2) := by rw [← hok]
        rw [this]; exact ⟨none, rfl, rfl⟩
      | true =>
        have : runOuter p o = (true, (runOuter p o).2) := by rw [← hok]
        rw [this]
        simp only
        by_cases hp : esc < pay
        · simp only [hp, if_true]; exact ⟨none, rfl, rfl⟩
        · simp only [hp, if_false]; exact ih _ _ _
    | nested p pay gain =>
      simp only [iRunTx, iNested_eq, runTx]
      cases hok : (nestedCall p o.store).1 with
      | false =>
        have : nestedCall p o.store = (false, (nestedCall p o.store).2) := by rw [← hok]
        rw [this]; exact ⟨none, rfl, rfl⟩
      | true =>
        have : nestedCall p o.store = (true, (nestedCall p o.store).2) := by rw [← hok]
        rw [this]
        simp only
        by_cases hp : esc < pay
        · simp only [hp, if_true]; exact ⟨none, rfl, rfl⟩
        · simp only [hp, if_false]; exact ih _ _ _

/-- **a whole transaction as the source executes it is `txResult`** -/
theorem iTxResult_eq (steps : List MStep) (st : Store) (esc : Nat) :
    iTxResult steps st esc = some (txResult steps st esc) := by
  obtain ⟨r, h1, h2⟩ := iRunTx_eq steps { store := st } [] esc
  simp only [iTxResult, commit_nativeStoreFirst, if_true, h1, txResult]
  cases r with
  | none =>
    cases hr : runTx steps ⟨{ store := st }, esc⟩ with
    | none => rfl
    | some t => rw [hr] at h2; simp at h2
  | some x =>
    obtain ⟨s, e⟩ := x
    cases hr : runTx steps ⟨{ store := st }, esc⟩ with
    | none => rw [hr] at h2; simp at h2
    | some t =>
      rw [hr] at h2
      simp only [Option.map_some, Option.some.injEq, Prod.mk.injEq] at h2
      obtain ⟨s2, h3, h4⟩ := iCommit_eq s
      have : s2.o.store = t.o.commit := by rw [← h2.1]; exact funext h4
      simp [h3, this, h2.2]

end FxVerif.Proofs.C08Dep
