import FxVerif.Proofs.C03Attest

/-!
# C03 — helper lemmas for the handler view and the store-key layout
-/
namespace FxVerif.Proofs.C03
open FxVerif.Model.C03 FxVerif.Gen.C03

/-! ## an external address string belongs to one address class only -/

theorem isExtAddr_kind_unique {k₁ k₂ : AddrKind} {s : Str} (h₁ : isExtAddr k₁ s = true) (h₂ : isExtAddr k₂ s = true) :
    k₁ = k₂ := by
  cases k₁ <;> cases k₂ <;> simp only [isExtAddr] at h₁ h₂ <;> first
    | rfl
    | (exfalso; exact Bool.false_ne_true h₁)
    | (exfalso; exact Bool.false_ne_true h₂)
    | (exfalso
       first
         | (have a := isEthAddr_length h₁; have b := isTronAddr_length h₂; omega)
         | (have a := isTronAddr_length h₁; have b := isEthAddr_length h₂; omega))

/-! ## `sdk.Uint64ToBigEndian` is injective on `uint64` -/

theorem be64_inj {m n : Nat} (hm : m < 2^64) (hn : n < 2^64) (h : be64 m = be64 n) : m = n := by
  simp only [be64, List.cons.injEq, and_true] at h
  omega

theorem be64_length (n : Nat) : (be64 n).length = 8 := rfl

/-- equal-length prefixes of equal concatenations are equal -/
theorem append_inj_of_length {α : Type} {a b c d : List α} (hl : a.length = c.length) (h : a ++ b = c ++ d) :
    a = c ∧ b = d := List.append_inj h hl

end FxVerif.Proofs.C03
