import FxVerif.Model.C10
/-!
# C10 helper lemmas: the regenerated programs compute what the abstract specification says

* `checkDisabledGen_spec`: the interpreter of the regenerated `CheckContractAddressIsDisabled` returns an error exactly
  when SOME entry of the list (at any position, among any number of other entries) equals, in lower case, the address
  or address + "/" + methodId (induction over the list through the loop's `return` / fall-through structure);
* `decrement_exact`: the regenerated `decrementAllowance` fails iff allowance < amount and otherwise stores exactly
  allowance − amount under the same (owner, spender) key, for every allowance and amount;
* `runGen_refines`: the dispatcher assembled from regenerated steps / programs / closures equals `specRun`.
-/
namespace FxVerif.Proofs.C10
open FxVerif.Gen.C09 FxVerif.Gen.C10 FxVerif.Model.C10

/-! ### the governance switch -/

theorem loop_spec (n : Nat) (addr mid : List Char) (dis : List (List Char)) (env : DEnv)
    (h0 : env.s 0 = lower addr) (h2 : env.s 2 = lower addr ++ '/' :: mid) :
    (specDisabled dis addr mid = true ∧
        loopDis n addr mid disabledProg.body disabledProg.loopVar dis env = .ret true) ∨
    (specDisabled dis addr mid = false ∧
        ∃ env', loopDis n addr mid disabledProg.body disabledProg.loopVar dis env = .fall env') := by
  induction dis generalizing env with
  | nil => right; exact ⟨rfl, env, rfl⟩
  | cons d r ih =>
    simp only [specDisabled, List.any_cons]
    by_cases h1 : lower d = lower addr
    · left
      simp [h1, loopDis, disabledProg, execL, execS, evalBE, evalSE, updS, h0]
    · by_cases h3 : lower d = lower addr ++ '/' :: mid
      · left
        simp [h3, loopDis, disabledProg, execL, execS, evalBE, evalSE, updS, h0, h2]
      · have := ih { s := updS (updS env.s 3 d) 3 (lower d), b := env.b } (by simp [updS, h0]) (by simp [updS, h2])
        simp only [specDisabled, disabledProg] at this
        simpa [h1, h3, loopDis, disabledProg, execL, execS, evalBE, evalSE, updS, h0, h2] using this

theorem checkDisabledGen_spec (dis : List (List Char)) (addr mid : List Char) :
    checkDisabledGen disabledProg dis addr mid = some (specDisabled dis addr mid) := by
  cases dis with
  | nil => simp [checkDisabledGen, disabledProg, execL, execS, evalBE, specDisabled]
  | cons d r =>
    have hl := loop_spec (d :: r).length addr mid (d :: r)
      { s := updS (updS (updS denv0.s 0 (lower addr)) 1 mid) 2 (lower addr ++ '/' :: mid), b := denv0.b }
      (by simp [updS]) (by simp [updS])
    have hpre : execL (d :: r).length addr mid disabledProg.pre denv0 =
        .fall { s := updS (updS (updS denv0.s 0 (lower addr)) 1 mid) 2 (lower addr ++ '/' :: mid), b := denv0.b } := by
      simp [disabledProg, execL, execS, evalBE, evalSE, updS]
    have hloops : disabledProg.loops = 1 := rfl
    unfold checkDisabledGen
    rw [hpre]
    rcases hl with ⟨hs, hloop⟩ | ⟨hs, env', hloop⟩
    · dsimp only; rw [hloop, hs]; simp [hloops]
    · dsimp only; rw [hloop, hs]; simp [disabledProg, execL, execS]

/-- the two spellings of the specification agree (`isDisabled` over the round-1 shape flags) -/
theorem isDisabled_eq_spec (dis : List (List Char)) (addr mid : List Char) :
    isDisabled disabledCheck dis addr mid = specDisabled dis addr mid := by
  have h : disabledCheck.lowerEntry = true ∧ disabledCheck.lowerAddr = true ∧ disabledCheck.addrEq = true ∧
      disabledCheck.addrMethodEq = true ∧ disabledCheck.fmt = "%s/%s" ∧ disabledCheck.methodEnc = "hex" := by decide
  simp [isDisabled, specDisabled, h.1, h.2.1, h.2.2.1, h.2.2.2.1, h.2.2.2.2.1, h.2.2.2.2.2]

/-! ### decrementAllowance -/

theorem cmp_lt_zero (a b : Int) : cmpHolds .lt (cmpInt a b) 0 = decide (a < b) := by
  unfold cmpHolds cmpInt
  by_cases h : a < b
  · simp [h]
  · by_cases h2 : a = b <;> simp [h, h2]

theorem decrement_exact (o s : Addr) (d : Nat) (w : World) :
    runDecW decrementProg o s d w =
      if w.allow o s < d then .error .allowance
      else .ok { w with allow := upd2 w.allow o s (w.allow o s - d) } := by
  by_cases h : w.allow o s < d
  · simp [runDecW, decrementProg, execAL, execA, icKnown, ieKnown, evalIC, evalIE, cmp_lt_zero, updI, h]
  · have : ((w.allow o s : Int) - (d : Int)).natAbs = w.allow o s - d := by omega
    simp [runDecW, decrementProg, execAL, execA, icKnown, ieKnown, evalIC, evalIE, cmp_lt_zero, updI, h, this]

/-! ### msg.value -/

theorem cmp_ne_zero (a b : Int) : cmpHolds .ne (cmpInt a b) 0 = (a != b) := by
  unfold cmpHolds cmpInt
  by_cases h : a < b
  · have : a ≠ b := by omega
    simp [h, this]
  · by_cases h2 : a = b <;> simp [h, h2]

/-- a flow whose only guard is `taken != msg.value → error`: the layer is the identity exactly when msg.value is positive,
equals `taken` and is covered by the caller's balance (value in from the caller, the same amount back out to the caller) -/
theorem valueLayer_eq (f : ValueFlow) (env : Env) (call : Call) (w : World) (hk : flowKnown f = true)
    (hg : f.guards = [⟨f.taken, .value, .ne, 0⟩]) :
    valueLayer f env call w =
      if decide (env.caller ≠ env.self) && decide (0 < env.value) && env.value == evalVE env.value call.numArg f.taken &&
          decide (env.value ≤ w.bal env.caller) then .ok w else .error .value := by
  unfold valueLayer
  simp only [hk, hg, Bool.not_true, Bool.false_eq_true, ↓reduceIte]
  by_cases hcs : env.caller = env.self
  · simp [hcs]
  · by_cases hb : w.bal env.caller < env.value
    · have : ¬ env.value ≤ w.bal env.caller := by omega
      simp [hcs, hb, this]
    · by_cases hv : env.value = 0
      · simp [hcs, hv]
      · by_cases hgd : env.value = evalVE env.value call.numArg f.taken
        · have hle : env.value ≤ w.bal env.caller := by omega
          have hpos : 0 < env.value := by omega
          simp [hcs, hb, hv, guardPasses, evalVE, cmp_ne_zero, ← hgd, hle, hpos, upd]
          have hn : ¬ (w.bal env.self + env.value < env.value) := by omega
          have hbal : upd (upd (upd (upd w.bal env.caller (w.bal env.caller - env.value)) env.self (w.bal env.self + env.value))
                env.self (w.bal env.self)) env.caller (w.bal env.caller) = w.bal := by
            funext x; simp only [upd]
            by_cases h1 : x = env.caller
            · subst h1; simp
            · by_cases h2 : x = env.self
              · subst h2; simp [h1]
              · simp [h1, h2]
          simp [hn, hbal]
        · have hg' : ¬ ((evalVE env.value call.numArg f.taken : Int) = (env.value : Int)) := by omega
          simp [hcs, hb, hv, guardPasses, evalVE, cmp_ne_zero, hgd, hg']

theorem flow_crossChain : valueFlows.find? (fun f => f.abiName == "crossChain") =
    some ⟨"crossChain", "value.Cmp(big.NewInt(0)) == 1 && fxcontract.IsZeroEthAddress(args.Token)",
      [⟨.add (.arg "Amount") (.arg "Fee"), .value, .ne, 0⟩], .add (.arg "Amount") (.arg "Fee"), "caller"⟩ := by decide

theorem flow_increaseFee : valueFlows.find? (fun f => f.abiName == "increaseBridgeFee") =
    some ⟨"increaseBridgeFee", "value.Cmp(big.NewInt(0)) == 1 && fxcontract.IsZeroEthAddress(args.Token)",
      [⟨.arg "Fee", .value, .ne, 0⟩], .arg "Fee", "caller"⟩ := by decide

/-! ### table look-ups (kernel-evaluated over the regenerated tables) -/

theorem row_delegate : rows.find? (fun r => r.info.name == "delegateV2") = some ⟨"staking", ⟨"delegateV2", false, .caller, false⟩⟩ := by decide
theorem row_undelegate : rows.find? (fun r => r.info.name == "undelegateV2") = some ⟨"staking", ⟨"undelegateV2", false, .caller, false⟩⟩ := by decide
theorem row_redelegate : rows.find? (fun r => r.info.name == "redelegateV2") = some ⟨"staking", ⟨"redelegateV2", false, .caller, false⟩⟩ := by decide
theorem row_withdraw : rows.find? (fun r => r.info.name == "withdraw") = some ⟨"staking", ⟨"withdraw", false, .caller, false⟩⟩ := by decide
theorem row_approve : rows.find? (fun r => r.info.name == "approveShares") = some ⟨"staking", ⟨"approveShares", false, .caller, false⟩⟩ := by decide
theorem row_ts : rows.find? (fun r => r.info.name == "transferShares") = some ⟨"staking", ⟨"transferShares", false, .caller, false⟩⟩ := by decide
theorem row_tfs : rows.find? (fun r => r.info.name == "transferFromShares") = some ⟨"staking", ⟨"transferFromShares", false, .argFrom, true⟩⟩ := by decide
theorem row_crossChain : rows.find? (fun r => r.info.name == "crossChain") = some ⟨"crosschain", ⟨"crossChain", false, .caller, false⟩⟩ := by decide
theorem row_cancel : rows.find? (fun r => r.info.name == "cancelSendToExternal") = some ⟨"crosschain", ⟨"cancelSendToExternal", false, .caller, false⟩⟩ := by decide
theorem row_increase : rows.find? (fun r => r.info.name == "increaseBridgeFee") = some ⟨"crosschain", ⟨"increaseBridgeFee", false, .caller, false⟩⟩ := by decide
theorem row_bridgeCall : rows.find? (fun r => r.info.name == "bridgeCall") = some ⟨"crosschain", ⟨"bridgeCall", false, .caller, false⟩⟩ := by decide
theorem row_executeClaim : rows.find? (fun r => r.info.name == "executeClaim") = some ⟨"crosschain", ⟨"executeClaim", false, .caller, false⟩⟩ := by decide

theorem clo_approve : closures.find? (fun c => c.abiName == "approveShares" && c.contract == "staking") =
    some ⟨"staking", "approveShares", true,
      [⟨"SetAllowance", "expr", ["ctx", "arg:GetValidator", "caller", "arg:Spender", "arg:Shares"]⟩]⟩ := by decide
theorem clo_ts : closures.find? (fun c => c.abiName == "transferShares" && c.contract == "staking") =
    some ⟨"staking", "transferShares", true,
      [⟨"handlerTransferShares", "checked", ["ctx", "evm", "arg:GetValidator", "caller", "arg:To", "arg:Shares"]⟩]⟩ := by decide
theorem clo_tfs : closures.find? (fun c => c.abiName == "transferFromShares" && c.contract == "staking") =
    some ⟨"staking", "transferFromShares", true,
      [⟨"decrementAllowance", "checked", ["ctx", "arg:GetValidator", "arg:From", "caller", "arg:Shares"]⟩,
       ⟨"handlerTransferShares", "checked", ["ctx", "evm", "arg:GetValidator", "arg:From", "arg:To", "arg:Shares"]⟩]⟩ := by decide

theorem steps_all : ∀ d ∈ dispatchers, d.steps = ["readonly-guard", "disabled-check", "run"] := by decide

theorem disp_staking : ∃ d, dispatchers.find? (fun d => d.contract == "staking") = some d ∧
    d.steps = ["readonly-guard", "disabled-check", "run"] := by
  refine ⟨_, rfl, ?_⟩; decide
theorem disp_crosschain : ∃ d, dispatchers.find? (fun d => d.contract == "crosschain") = some d ∧
    d.steps = ["readonly-guard", "disabled-check", "run"] := by
  refine ⟨_, rfl, ?_⟩; decide

/-- the regenerated step order, executed -/
theorem runSteps_canonical (ro wr : Bool) (dis : Option Bool) (eff : World → Except Err World) (w : World) :
    runSteps ro wr dis eff ["readonly-guard", "disabled-check", "run"] w false =
      if ro && wr then ⟨.error .writeProtection, false⟩
      else match dis with
        | some true => ⟨.error .disabled, false⟩
        | some false => (match eff w with | .ok w' => ⟨.ok w', true⟩ | .error e => ⟨.error e, true⟩)
        | none => ⟨.error .unknownStep, false⟩ := by
  by_cases h : (ro && wr) = true
  · simp [runSteps, h]
  · rcases dis with _ | _ | _ <;> simp [runSteps, h] <;> cases eff w <;> simp

theorem res_eta (r : Except Err World) :
    (match r with | .ok w' => (⟨.ok w', true⟩ : Res) | .error e => ⟨.error e, true⟩) = ⟨r, true⟩ := by
  cases r <;> rfl

/-! ### refinement -/

private theorem gen_of_row (dis : List (List Char)) (ro : Bool) (addr mid : List Char) (env : Env) (call : Call) (w : World)
    (r : Row) (hrow : rows.find? (fun r => r.info.name == call.name) = some r) (hw : r.info.readonly = false)
    (hd : ∃ d, dispatchers.find? (fun d => d.contract == r.contract) = some d ∧
      d.steps = ["readonly-guard", "disabled-check", "run"])
    (heff : effectGen r env call w = specEffectV env call w) :
    runGen dis ro addr mid env call w = specRun dis ro addr mid env call w := by
  obtain ⟨d, hd1, hd2⟩ := hd
  unfold runGen specRun
  rw [hrow]; simp only [hd1, hd2, runSteps_canonical, checkDisabledGen_spec, hw, heff, res_eta]
  cases ro <;> cases specDisabled dis addr mid <;> simp

theorem effectGen_tfs (env : Env) (f t : Addr) (s : Nat) (w : World) :
    effectGen ⟨"staking", ⟨"transferFromShares", false, .argFrom, true⟩⟩ env (.transferFromShares f t s) w =
      specEffectV env (.transferFromShares f t s) w := by
  simp only [specEffectV, specValueOk, effectGen, isShareCall, Call.name, clo_tfs, runClosure, stepClosure, Call.addrArg, Call.amtArg,
    applyErr, decrement_exact, specEffect, effect, ↓reduceIte]
  by_cases h : w.allow f env.caller < s
  · simp [h]
  · simp [h]
    cases moveShares { w with allow := upd2 w.allow f env.caller (w.allow f env.caller - s) } f t s <;> rfl

theorem effectGen_ts (env : Env) (t : Addr) (s : Nat) (w : World) :
    effectGen ⟨"staking", ⟨"transferShares", false, .caller, false⟩⟩ env (.transferShares t s) w =
      specEffectV env (.transferShares t s) w := by
  simp only [specEffectV, specValueOk, effectGen, isShareCall, Call.name, clo_ts, runClosure, stepClosure, Call.addrArg, Call.amtArg,
    applyErr, specEffect, effect, ↓reduceIte]
  simp
  cases moveShares w env.caller t s <;> rfl

theorem effectGen_approve (env : Env) (sp : Addr) (s : Nat) (w : World) :
    effectGen ⟨"staking", ⟨"approveShares", false, .caller, false⟩⟩ env (.approve sp s) w =
      specEffectV env (.approve sp s) w := by
  simp [specEffectV, specValueOk, effectGen, isShareCall, Call.name, clo_approve, runClosure, stepClosure, Call.addrArg, Call.amtArg,
    specEffect, effect]

theorem effectGen_crossChain (env : Env) (a f : Nat) (r : Addr) (w : World) :
    effectGen ⟨"crosschain", ⟨"crossChain", false, .caller, false⟩⟩ env (.crossChain a f r) w =
      specEffectV env (.crossChain a f r) w := by
  simp only [effectGen, isShareCall, isPayable, Call.name, flow_crossChain, Bool.false_eq_true, ↓reduceIte]
  rw [valueLayer_eq _ _ _ _ (by decide) rfl]
  simp only [specEffectV, specValueOk, evalVE, Call.numArg, specEffect, resolve, Call.name]
  by_cases hc : (decide (env.caller ≠ env.self) && decide (0 < env.value) && env.value == a + f &&
      decide (env.value ≤ w.bal env.caller)) = true <;> simp only [hc] <;> rfl

theorem effectGen_increaseFee (env : Env) (i f : Nat) (w : World) :
    effectGen ⟨"crosschain", ⟨"increaseBridgeFee", false, .caller, false⟩⟩ env (.increaseFee i f) w =
      specEffectV env (.increaseFee i f) w := by
  simp only [effectGen, isShareCall, isPayable, Call.name, flow_increaseFee, Bool.false_eq_true, ↓reduceIte]
  rw [valueLayer_eq _ _ _ _ (by decide) rfl]
  simp only [specEffectV, specValueOk, evalVE, Call.numArg, specEffect, resolve, Call.name]
  by_cases hc : (decide (env.caller ≠ env.self) && decide (0 < env.value) && env.value == f &&
      decide (env.value ≤ w.bal env.caller)) = true <;> simp only [hc] <;> rfl

/-- REFINEMENT: for every state-changing call the dispatcher assembled from the regenerated step order, the regenerated
governance-check program, the regenerated closures and the regenerated `decrementAllowance` equals the specification -/
theorem runGen_refines (dis : List (List Char)) (ro : Bool) (addr mid : List Char) (env : Env) (call : Call) (w : World)
    (hv : call.isView = false) :
    runGen dis ro addr mid env call w = specRun dis ro addr mid env call w := by
  cases call with
  | view n => simp [Call.isView] at hv
  | delegate a => exact gen_of_row _ _ _ _ _ _ _ _ row_delegate rfl disp_staking (by simp [effectGen, isShareCall, isPayable, specEffectV, specValueOk, specEffect, resolve, Call.name])
  | undelegate a => exact gen_of_row _ _ _ _ _ _ _ _ row_undelegate rfl disp_staking (by simp [effectGen, isShareCall, isPayable, specEffectV, specValueOk, specEffect, resolve, Call.name])
  | redelegate a => exact gen_of_row _ _ _ _ _ _ _ _ row_redelegate rfl disp_staking (by simp [effectGen, isShareCall, isPayable, specEffectV, specValueOk, specEffect, resolve, Call.name])
  | withdraw => exact gen_of_row _ _ _ _ _ _ _ _ row_withdraw rfl disp_staking (by simp [effectGen, isShareCall, isPayable, specEffectV, specValueOk, specEffect, resolve, Call.name])
  | approve sp s => exact gen_of_row _ _ _ _ _ _ _ _ row_approve rfl disp_staking (effectGen_approve _ _ _ _)
  | transferShares t s => exact gen_of_row _ _ _ _ _ _ _ _ row_ts rfl disp_staking (effectGen_ts _ _ _ _)
  | transferFromShares f t s => exact gen_of_row _ _ _ _ _ _ _ _ row_tfs rfl disp_staking (effectGen_tfs _ _ _ _ _)
  | crossChain a f r => exact gen_of_row _ _ _ _ _ _ _ _ row_crossChain rfl disp_crosschain (effectGen_crossChain _ _ _ _ _)
  | cancelSend i => exact gen_of_row _ _ _ _ _ _ _ _ row_cancel rfl disp_crosschain (by simp [effectGen, isShareCall, isPayable, specEffectV, specValueOk, specEffect, resolve, Call.name])
  | increaseFee i f => exact gen_of_row _ _ _ _ _ _ _ _ row_increase rfl disp_crosschain (effectGen_increaseFee _ _ _ _)
  | bridgeCall r t v => exact gen_of_row _ _ _ _ _ _ _ _ row_bridgeCall rfl disp_crosschain (by simp [effectGen, isShareCall, isPayable, specEffectV, specValueOk, specEffect, resolve, Call.name])
  | executeClaim n => exact gen_of_row _ _ _ _ _ _ _ _ row_executeClaim rfl disp_crosschain (by simp [effectGen, isShareCall, isPayable, specEffectV, specValueOk, specEffect, resolve, Call.name])

/-- a view never changes the world, whatever the table says about it -/
theorem runGen_view (dis : List (List Char)) (ro : Bool) (addr mid : List Char) (env : Env) (n : String) (w : World) :
    (runGen dis ro addr mid env (.view n) w).out = .ok w ∨ ∃ e, (runGen dis ro addr mid env (.view n) w).out = .error e := by
  unfold runGen
  split
  · exact .inr ⟨_, rfl⟩
  next r _ =>
    split
    · exact .inr ⟨_, rfl⟩
    next d hd =>
      have hmem : d ∈ dispatchers := List.mem_of_find?_eq_some hd
      rw [steps_all d hmem, runSteps_canonical, checkDisabledGen_spec]
      have heff : effectGen r env (.view n) w = .ok w := by simp [effectGen, isShareCall, isPayable, effect]
      by_cases h1 : (ro && !r.info.readonly) = true
      · simp [h1]
      · cases hs : specDisabled dis addr mid <;> simp [h1, heff]

/-- one step of a history, in terms of the specification: either nothing happened, or the caller's `specEffect` did -/
theorem applyOp_spec (w : World) (o : HOp) :
    (succeeded w o = false ∧ applyOp w o = w) ∨
    (succeeded w o = true ∧ specEffect o.env.caller o.call w = .ok (applyOp w o) ∧
      readonlyFlag o.kind = some false ∧ specDisabled o.dis o.addr o.mid = false) ∨
    (succeeded w o = true ∧ applyOp w o = w ∧ o.call.isView = true) := by
  unfold succeeded applyOp outcome
  cases hk : readonlyFlag o.kind with
  | none => left; simp
  | some ro =>
    simp only [Option.map_some]
    cases hv : o.call.isView with
    | true =>
      cases hc : o.call with
      | view n =>
        rcases runGen_view o.dis ro o.addr o.mid o.env n w with h | ⟨e, h⟩
        · right; right; simp [h]
        · left; simp [h]
      | _ => simp [hc, Call.isView] at hv
    | false =>
      rw [runGen_refines _ _ _ _ _ _ _ hv]
      unfold specRun
      cases ro with
      | true => left; simp
      | false =>
        cases hd : specDisabled o.dis o.addr o.mid with
        | true => left; simp
        | false =>
          unfold specEffectV
          cases hvok : specValueOk o.env o.call w with
          | false => left; simp
          | true =>
            cases he : specEffect o.env.caller o.call w with
            | error e => left; simp
            | ok w' => right; left; simp


/-! ## round 4 — fixed-point arithmetic of the validator's exchange rate (`sdk.Dec`, 18 decimals, banker's rounding) -/

theorem chopRound_mul (n : Nat) : chopRound (n * shareScale) = n := by
  have hS : 0 < shareScale := by decide
  simp [chopRound, Nat.mul_div_cancel _ hS, Nat.mul_mod_left, hS]

theorem chopRound_le (q : Nat) : 2 * chopRound q * shareScale ≤ 2 * q + shareScale := by
  unfold chopRound shareScale
  simp only []
  split
  · omega
  · split
    · omega
    · split <;> omega

theorem tokens_bound (r T D : Nat) :
    2 * shareScale * (chopRound (r * T * shareScale * shareScale / D) / shareScale) * D ≤ 2 * shareScale * r * T + D := by
  have hS : 0 < shareScale := by decide
  generalize hQ : r * T * shareScale * shareScale / D = Q
  have hq : Q * D ≤ r * T * shareScale * shareScale := by rw [← hQ]; exact Nat.div_mul_le_self _ _
  have hX := chopRound_le Q
  generalize chopRound Q = X at hX ⊢
  have hout : X / shareScale * shareScale ≤ X := Nat.div_mul_le_self _ _
  generalize X / shareScale = out at hout ⊢
  have h1 : 2 * (X * D) * shareScale ≤ 2 * (Q * D) + shareScale * D := by
    have := Nat.mul_le_mul_right D hX
    rw [Nat.add_mul] at this
    calc 2 * (X * D) * shareScale = 2 * X * shareScale * D := by ac_rfl
      _ ≤ 2 * Q * D + shareScale * D := this
      _ = 2 * (Q * D) + shareScale * D := by ac_rfl
  have h2 : out * D * shareScale ≤ X * D := by
    have := Nat.mul_le_mul_right D hout
    calc out * D * shareScale = out * shareScale * D := by ac_rfl
      _ ≤ X * D := this
  have h3 : r * T * shareScale * shareScale = r * T * shareScale * shareScale := rfl
  have e1 : 2 * shareScale * out * D = 2 * shareScale * (out * D) := by ac_rfl
  have e2 : 2 * shareScale * r * T = 2 * (r * T * shareScale) := by ac_rfl
  rw [e1, e2]
  generalize X * D = a at h1 h2
  generalize Q * D = b at h1 hq
  generalize out * D = e at h2 ⊢
  generalize r * T * shareScale = c at hq ⊢
  unfold shareScale at *
  omega

theorem removal_bound (T D r : Nat) (hD : 0 < D) :
    2 * shareScale * (T * (D - r)) ≤
      2 * shareScale * ((T - (if D - r = 0 then T else chopRound (r * T * shareScale * shareScale / D) / shareScale)) * D) + D := by
  split
  · rename_i h0; simp [h0]
  · rename_i h0
    have hb := tokens_bound r T D
    generalize chopRound (r * T * shareScale * shareScale / D) / shareScale = out at hb ⊢
    have hr : r * T ≤ T * D - T := by
      have : r ≤ D - 1 := by omega
      calc r * T ≤ (D - 1) * T := Nat.mul_le_mul_right T this
        _ = T * D - T := by rw [Nat.sub_mul, Nat.one_mul, Nat.mul_comm]
    have hTD : T ≤ T * D := Nat.le_mul_of_pos_right T hD
    have e0 : 2 * shareScale * r * T = 2 * shareScale * (r * T) := by ac_rfl
    have e1 : 2 * shareScale * out * D = 2 * shareScale * (out * D) := by ac_rfl
    rw [e0, e1] at hb
    have hle : out ≤ T := by
      apply Nat.le_of_not_lt
      intro hlt
      have h1 : (T + 1) * D ≤ out * D := Nat.mul_le_mul_right D hlt
      rw [Nat.add_mul, Nat.one_mul] at h1
      generalize T * D = td at *
      generalize out * D = od at *
      generalize r * T = rt at *
      unfold shareScale at *
      omega
    have e2 : T * (D - r) = T * D - r * T := by rw [Nat.mul_sub, Nat.mul_comm T r]
    have e3 : (T - out) * D = T * D - out * D := Nat.sub_mul _ _ _
    have h4 : out * D ≤ T * D := Nat.mul_le_mul_right D hle
    rw [e2, e3]
    generalize T * D = td at *
    generalize out * D = od at *
    generalize r * T = rt at *
    unfold shareScale at *
    omega

end FxVerif.Proofs.C10
