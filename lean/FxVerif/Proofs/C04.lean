import FxVerif.Model.C04
import FxVerif.Proofs.Ledger
/-! helper lemmas for C04: the "held by non-module accounts" observable and its change along every flow -/
namespace FxVerif.Proofs.C04
open FxVerif.Model.Ledger FxVerif.Model.Flows FxVerif.Model.C04 FxVerif.Proofs.Ledger

/-- balances of the module accounts in one asset -/
def modBalObs (a : Asset) : Obs := Obs.sum (modules.map (balObs a))

/-- amount of one asset held outside the module accounts: supply − Σ module balances -/
def heldAsset (a : Asset) : Obs := (supplyObs a).add (modBalObs a).neg

/-- value of token group `g` held by non-module accounts, in every representation -/
def heldObs (g : Nat) : Obs := Obs.sum ((assets g).map heldAsset)

theorem heldObs_sound (g : Nat) : (heldObs g).Sound := by
  apply sum_sound
  intro o ho
  simp only [List.mem_map] at ho
  obtain ⟨a, _, rfl⟩ := ho
  apply add_sound (supplyObs_sound a)
  apply neg_sound
  apply sum_sound
  intro o ho
  simp only [List.mem_map] at ho
  obtain ⟨m, _, rfl⟩ := ho
  exact balObs_sound a m

/-- holdings of one account in every representation of group `g` -/
def acctObs (g : Nat) (x : Addr) : Obs := Obs.sum ((assets g).map (fun a => balObs a x))

theorem acctObs_sound (g : Nat) (x : Addr) : (acctObs g x).Sound := by
  apply sum_sound
  intro o ho
  simp only [List.mem_map] at ho
  obtain ⟨a, _, rfl⟩ := ho
  exact balObs_sound a x

theorem flowDelta_append (o : Obs) (a b : List Prim) : o.flowDelta (a ++ b) = o.flowDelta a + o.flowDelta b := by
  induction a with
  | nil => simp [Obs.flowDelta]
  | cons p ps ih => simp only [List.cons_append, Obs.flowDelta, ih]; omega

section closed
variable (g' : Nat)

/-- evaluate the delta of `heldObs` on concrete primitives -/
macro "held_simp" : tactic =>
  `(tactic| simp [Obs.flowDelta, heldObs, heldAsset, modBalObs, Obs.sum, Obs.add, Obs.neg, Obs.zero, assets, modules,
      balObs, supplyObs, U, M, E, Den.asset, badContract])

macro "held_done" : tactic =>
  `(tactic| (first | (held_simp; done) | (held_simp <;> (repeat' split) <;> (try simp_all) <;> (try omega))))

theorem held_deposit (k : Kind) (g c u n : Nat) (hc : c < 3) :
    (heldObs g').flowDelta (bridgeTokenToBaseCoin k g c (U u) n) = if g = g' then (n : Int) else 0 := by
  have : c = 0 ∨ c = 1 ∨ c = 2 := by omega
  rcases this with rfl | rfl | rfl <;> cases k <;>
    simp only [bridgeTokenToBaseCoin, depositBridgeToken, conversionCoin, List.cons_append, List.nil_append, ite_true] <;>
    held_done

theorem held_withdraw (k : Kind) (g c u n : Nat) (hc : c < 3) :
    (heldObs g').flowDelta (baseCoinToBridgeToken k g c (U u) n) = if g = g' then -(n : Int) else 0 := by
  have : c = 0 ∨ c = 1 ∨ c = 2 := by omega
  rcases this with rfl | rfl | rfl <;> cases k <;>
    simp only [baseCoinToBridgeToken, withdrawBridgeToken, conversionCoin, List.cons_append, List.nil_append] <;>
    held_done

theorem held_depositBad (k : Kind) (g c n : Nat) (hc : c < 3) :
    (heldObs g').flowDelta (bridgeTokenToBaseCoin k g c badContract n) = if g = g' then (n : Int) else 0 := by
  have : c = 0 ∨ c = 1 ∨ c = 2 := by omega
  rcases this with rfl | rfl | rfl <;> cases k <;>
    simp only [bridgeTokenToBaseCoin, depositBridgeToken, conversionCoin, List.cons_append, List.nil_append, ite_true] <;>
    held_done

theorem held_depositBadRefund (k : Kind) (g c r n : Nat) (hc : c < 3) :
    (heldObs g').flowDelta (bridgeTokenToBaseCoin k g c badContract n ++ [.send (.base g) badContract (U r) n]) =
      if g = g' then (n : Int) else 0 := by
  have : c = 0 ∨ c = 1 ∨ c = 2 := by omega
  rcases this with rfl | rfl | rfl <;> cases k <;>
    simp only [bridgeTokenToBaseCoin, depositBridgeToken, conversionCoin, List.cons_append, List.nil_append, ite_true] <;>
    held_done

theorem held_convertCoin (k : Kind) (g u r n : Nat) :
    (heldObs g').flowDelta (convertCoin k g (U u) (U r) n) = 0 := by
  cases k <;> simp only [convertCoin] <;> held_done

theorem held_convertERC20 (k : Kind) (g u r n : Nat) :
    (heldObs g').flowDelta (convertERC20 k g (U u) (U r) n) = 0 := by
  cases k <;> simp only [convertERC20] <;> held_done

theorem held_precompileTokenIn (k : Kind) (g u n : Nat) :
    (heldObs g').flowDelta (precompileTokenIn k g (U u) n) = 0 := by
  cases k <;> simp only [precompileTokenIn, List.cons_append, List.nil_append] <;> held_done

theorem held_addBridgeFee (k : Kind) (g c u n : Nat) (hc : c < 3) :
    (heldObs g').flowDelta (addBridgeFee k g c (U u) n) = if g = g' then -(n : Int) else 0 := by
  have : c = 0 ∨ c = 1 ∨ c = 2 := by omega
  rcases this with rfl | rfl | rfl <;> cases k <;> simp only [addBridgeFee] <;> held_done

/-- 1 if the asset is a representation of group `g'` -/
def inG (a : Asset) : Int := if a ∈ assets g' then 1 else 0

theorem d_send_uE (a : Asset) (u n : Nat) :
    (heldObs g').flowDelta [.send a (U u) E n] = -((n : Int) * inG g' a) := by
  cases a <;> simp only [inG] <;> held_done

theorem d_send_Eu (a : Asset) (u n : Nat) :
    (heldObs g').flowDelta [.send a E (U u) n] = (n : Int) * inG g' a := by
  cases a <;> simp only [inG] <;> held_done

theorem d_mintE (a : Asset) (n : Nat) : (heldObs g').flowDelta [.mint a E E n] = 0 := by
  cases a <;> held_done

theorem d_burnE (a : Asset) (n : Nat) : (heldObs g').flowDelta [.burn a E E n] = 0 := by
  cases a <;> held_done

theorem inG_den (g : Nat) (d : Den) (h : ∀ c, d = .chain c → c < 3) :
    inG g' (d.asset g) = if g = g' then 1 else 0 := by
  cases d with
  | base => simp [inG, Den.asset, assets]
  | chain c =>
    have := h c rfl
    have : c = 0 ∨ c = 1 ∨ c = 2 := by omega
    rcases this with rfl | rfl | rfl <;> simp [inG, Den.asset, assets]

theorem held_convertDenom (k : Kind) (g u n : Nat) (src dst : Den)
    (hs : ∀ c, src = .chain c → c < 3) (hd : ∀ c, dst = .chain c → c < 3) :
    (heldObs g').flowDelta (convertDenom k g (U u) n src dst) = 0 := by
  have hmid : ∀ mid : List Prim, (mid = [] ∨ (∃ a, mid = [.mint a E E n]) ∨ (∃ a, mid = [.burn a E E n])) →
      (heldObs g').flowDelta mid = 0 := by
    intro mid h
    rcases h with rfl | ⟨a, rfl⟩ | ⟨a, rfl⟩
    · rfl
    · exact d_mintE g' a n
    · exact d_burnE g' a n
  simp only [convertDenom, flowDelta_append, d_send_uE, d_send_Eu, inG_den g' g src hs, inG_den g' g dst hd]
  rw [hmid]
  · omega
  · cases k <;> cases src <;> cases dst <;> simp

theorem held_sendPair (a : Asset) (u r n : Nat) :
    (heldObs g').flowDelta [.send a (U u) E n, .send a E (U r) n] = 0 := by
  cases a <;> held_done

theorem held_refundCoin (k : Kind) (g c r n : Nat) (hc : c < 3) :
    (heldObs g').flowDelta (bridgeCallRefundCoin k g c (U r) n) = if g = g' then (n : Int) else 0 := by
  have : c = 0 ∨ c = 1 ∨ c = 2 := by omega
  rcases this with rfl | rfl | rfl <;> cases k <;>
    simp only [bridgeCallRefundCoin, convertDenom, List.cons_append, List.nil_append] <;> held_done

theorem held_refundToEvm (k : Kind) (g r n : Nat) :
    (heldObs g').flowDelta (bridgeCallRefundToEvm k g (U r) n) = 0 := by
  cases k <;> simp only [bridgeCallRefundToEvm, convertCoin] <;> held_done

end closed
end FxVerif.Proofs.C04
