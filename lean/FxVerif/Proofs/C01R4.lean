import FxVerif.Proofs.C01Gen
/-!
round 4 — (1) key-uniqueness of the oracle registry, the invariant that lifts the bridger-index invariant `BInv` to histories
with genesis export / import restarts (the import REBUILDS the index from the exported records); (2) claims whose handler
panics; (3) a claim inside a signed transaction.
-/
namespace FxVerif.Proofs.C01
open FxVerif.Gen.C01 FxVerif.Model.C01

/-! ## keys of an association list -/

def keys {α : Type} (m : Map α) : List Nat := m.map Prod.fst

theorem keys_set {α : Type} (m : Map α) (k : Nat) (v : α) :
    keys (m.set k v) = if k ∈ keys m then keys m else keys m ++ [k] := by
  induction m with
  | nil => simp [Map.set, keys]
  | cons p r ih =>
    obtain ⟨k', v'⟩ := p
    by_cases h : k' = k
    · subst h; simp [Map.set, keys]
    · have h' : ¬ k = k' := fun e => h e.symm
      simp only [keys] at ih
      simp only [Map.set, h, if_false, keys, List.map_cons, List.mem_cons, h', false_or]
      rw [ih]
      by_cases hm : k ∈ List.map Prod.fst r <;> simp [hm]

theorem nodup_keys_set {α : Type} (m : Map α) (k : Nat) (v : α) (h : (keys m).Nodup) : (keys (m.set k v)).Nodup := by
  rw [keys_set]
  split
  · exact h
  · rename_i hk
    rw [List.nodup_append]
    refine ⟨h, by simp, ?_⟩
    intro a ha b hb
    simp at hb; subst hb
    intro e; subst e; exact hk ha

theorem nodup_keys_del {α : Type} (m : Map α) (k : Nat) (h : (keys m).Nodup) : (keys (m.del k)).Nodup := by
  unfold keys Map.del
  exact (List.filter_sublist.map Prod.fst).nodup h

theorem keys_map {α : Type} (m : Map α) (f : Nat × α → Nat × α) (hk : ∀ p, (f p).1 = p.1) : keys (m.map f) = keys m := by
  unfold keys
  rw [List.map_map]
  exact List.map_congr_left (fun p _ => hk p)

theorem get_of_mem_nodup {α : Type} (m : Map α) (k : Nat) (v : α) (h : (keys m).Nodup) (hm : (k, v) ∈ m) : m.get k = some v := by
  induction m with
  | nil => cases hm
  | cons p r ih =>
    obtain ⟨k', v'⟩ := p
    simp only [keys, List.map_cons, List.nodup_cons] at h
    rcases List.mem_cons.mp hm with e | e
    · cases e; simp [Map.get]
    · have hne : k' ≠ k := by
        intro hc; subst hc
        exact h.1 (List.mem_map.mpr ⟨(k', v), e, rfl⟩)
      simp only [Map.get, hne, if_false]
      exact ih h.2 e

theorem mem_of_get {α : Type} (m : Map α) (k : Nat) (v : α) (h : m.get k = some v) : (k, v) ∈ m := by
  induction m with
  | nil => simp [Map.get] at h
  | cons p r ih =>
    obtain ⟨k', v'⟩ := p
    by_cases e : k' = k
    · simp [Map.get, e] at h; subst h; subst e; exact List.mem_cons_self
    · simp [Map.get, e] at h; exact List.mem_cons_of_mem _ (ih h)

/-- storing the records of a key-unique list one after the other into the empty registry gives the list back -/
theorem foldl_set_append {α : Type} (l acc : Map α) (h : (keys (acc ++ l)).Nodup) :
    l.foldl (fun m p => m.set p.1 p.2) acc = acc ++ l := by
  induction l generalizing acc with
  | nil => simp
  | cons p t ih =>
    simp only [List.foldl_cons]
    have hnot : p.1 ∉ keys acc := by
      intro hc
      simp only [keys, List.map_append, List.map_cons] at h
      rw [List.nodup_append] at h
      exact h.2.2 _ hc _ List.mem_cons_self rfl
    have hset : acc.set p.1 p.2 = acc ++ [p] := by
      clear h ih
      induction acc with
      | nil => simp [Map.set]
      | cons q r ih2 =>
        obtain ⟨k', v'⟩ := q
        have hne : k' ≠ p.1 := by intro e; apply hnot; simp [keys, e]
        have hr : p.1 ∉ keys r := by intro e; apply hnot; simp only [keys, List.map_cons, List.mem_cons]; exact Or.inr e
        simp only [Map.set, hne, if_false, List.cons_append]
        rw [ih2 hr]
    rw [hset, ih (acc ++ [p]) (by simpa using h)]
    simp

/-! ## the registry is key-unique in every reachable state -/

def KU (s : State) : Prop := (keys s.oracles).Nodup

theorem ku_of_eq {s s' : State} (h : s'.oracles = s.oracles) (hK : KU s) : KU s' := by unfold KU; rw [h]; exact hK

theorem nodup_keys_slashOne (m : Map Oracle) (o : Nat) (h : (keys m).Nodup) : (keys (slashOne m o)).Nodup := by
  unfold slashOne
  split
  · split
    · exact nodup_keys_set _ _ _ h
    · exact h
  · exact h

theorem nodup_keys_foldl_slashOne (l : List Nat) (m : Map Oracle) (h : (keys m).Nodup) : (keys (l.foldl slashOne m)).Nodup := by
  induction l generalizing m with
  | nil => exact h
  | cons o r ih => exact ih _ (nodup_keys_slashOne m o h)

theorem ku_step (s : State) (op : Op) (hK : KU s) : KU (step s op).1 := by
  cases op with
  | claim w i n h k e =>
    have := claim_registry s w i n h k
    simp only [] at this
    simp only [step]
    exact ku_of_eq this.1 hK
  | bond o b e a d =>
    simp only [step]; unfold bondStep
    repeat' split
    all_goals first | exact hK | skip
    all_goals
      unfold KU
      simp only [applyRefresh_oracles]
      exact nodup_keys_set _ _ _ hK
  | addDelegate o a d =>
    simp only [step]; unfold addDelegateStep addDelegateTo
    repeat' split
    all_goals first | exact hK | skip
    all_goals
      unfold KU
      simp only [applyRefresh_oracles]
      exact nodup_keys_set _ _ _ hK
  | editBridger o b =>
    simp only [step]; unfold editBridgerStep
    repeat' split
    all_goals first | exact hK | skip
    exact nodup_keys_set _ _ _ hK
  | unbond o u bal d =>
    simp only [step]
    rcases unbond_cases s o u bal d with h | ⟨orc, _, _, h⟩
    · rw [h]; exact hK
    · rw [h]; exact nodup_keys_del _ _ hK
  | gov l d =>
    simp only [step]; unfold govStep
    repeat' split
    all_goals first | exact hK | skip
    all_goals
      unfold KU
      simp only [refresh]
      rw [keys_map]
      · exact hK
      · intro p; split <;> rfl
  | endBlock l r =>
    simp only [step]; unfold endBlockStep
    split
    all_goals exact nodup_keys_foldl_slashOne l s.oracles hK
  | exec n o c =>
    simp only [step]
    obtain ⟨P, L, h⟩ := exec_frame s n o c
    rw [h]; exact hK

/-! ## what the loop over `state.Oracles` of `InitGenesis` builds -/

theorem loadOracles_oracles (l : List (Nat × Oracle)) (s : State) :
    (l.foldl (loadOracle true true true) s).oracles = l.foldl (fun m p => m.set p.1 p.2) s.oracles := by
  induction l generalizing s with
  | nil => rfl
  | cons p t ih => simp only [List.foldl_cons]; rw [ih]; rfl

theorem loadOracles_byBridger (l : List (Nat × Oracle)) (s : State) :
    (l.foldl (loadOracle true true true) s).byBridger = l.foldl (fun m p => m.set p.2.bridger p.1) s.byBridger := by
  induction l generalizing s with
  | nil => rfl
  | cons p t ih => simp only [List.foldl_cons]; rw [ih]; rfl

/-- every entry of the rebuilt bridger index comes from the accumulator or from a loaded record -/
theorem foldl_index_get (l : List (Nat × Oracle)) (acc : Map Nat) (b a : Nat)
    (h : (l.foldl (fun m p => m.set p.2.bridger p.1) acc).get b = some a) :
    acc.get b = some a ∨ ∃ p ∈ l, p.2.bridger = b ∧ p.1 = a := by
  induction l generalizing acc with
  | nil => exact Or.inl h
  | cons p t ih =>
    simp only [List.foldl_cons] at h
    rcases ih _ h with h1 | ⟨q, hq, hb, ha⟩
    · by_cases e : p.2.bridger = b
      · rw [e, get_set_self] at h1
        cases h1
        exact Or.inr ⟨p, List.mem_cons_self, e, rfl⟩
      · rw [get_set_ne _ _ _ _ e] at h1; exact Or.inl h1
    · exact Or.inr ⟨q, List.mem_cons_of_mem _ hq, hb, ha⟩

/-- the part of the state the registry invariants speak about, after an export / import round trip: the registry itself
comes back record for record (key-uniqueness), and the bridger index is rebuilt from exactly those records -/
theorem roundTrip_registry (s : State) (hK : KU s) :
    (roundTrip s).oracles = s.oracles ∧
    (roundTrip s).byBridger = s.oracles.foldl (fun (m : Map Nat) p => m.set p.2.bridger p.1) ([] : Map Nat) := by
  have he : (exportGenesis s).oracles = s.oracles := by simp [exportGenesis, exportHasOracles]
  have h1 : (roundTrip s).oracles = (loaded (exportGenesis s)).oracles := by
    show (importGenesis (exportGenesis s)).oracles = _
    rw [import_shape]; rfl
  have h2 : (roundTrip s).byBridger = (loaded (exportGenesis s)).byBridger := by
    show (importGenesis (exportGenesis s)).byBridger = _
    rw [import_shape]; rfl
  refine ⟨?_, ?_⟩
  · rw [h1]; unfold loaded; rw [loadOracles_oracles, he]
    have := foldl_set_append s.oracles [] (by simpa [KU] using hK)
    simpa using this
  · rw [h2]; unfold loaded; rw [loadOracles_byBridger, he]

theorem ku_roundTrip (s : State) (hK : KU s) : KU (roundTrip s) := ku_of_eq (roundTrip_registry s hK).1 hK

/-- the REBUILT bridger index is consistent with the registry — from key-uniqueness alone (the old index is not used) -/
theorem binv_roundTrip (s : State) (hK : KU s) : BInv (roundTrip s) := by
  obtain ⟨ho, hb⟩ := roundTrip_registry s hK
  intro b a hg
  rw [hb] at hg
  rcases foldl_index_get s.oracles [] b a hg with h | ⟨p, hp, hpb, hpa⟩
  · simp [Map.get] at h
  · refine ⟨p.2, ?_, hpb⟩
    rw [ho, ← hpa]
    exact get_of_mem_nodup s.oracles p.1 p.2 hK hp

structure RInv (s : State) : Prop where
  ku : KU s
  bi : BInv s

theorem rinv_init (p : Params) : RInv (init p) :=
  ⟨by simp [KU, keys, init], by intro b a hg; simp [init, Map.get] at hg⟩

theorem rinv_gstep (s : State) (op : GOp) (h : RInv s) : RInv (gstep s op).1 := by
  cases op with
  | op o => exact ⟨ku_step s o h.ku, binv_step s o h.bi⟩
  | genesis => exact ⟨ku_roundTrip s h.ku, binv_roundTrip s h.ku⟩

theorem rinv_grun (s : State) (ops : List GOp) (h : RInv s) : RInv (grun s ops) := by
  induction ops generalizing s with
  | nil => exact h
  | cons op r ih => exact ih _ (rinv_gstep s op h)

/-! ## every record's bridger is indexed to it (converse of `BInv`); hence a restart reproduces the bridger index entry for entry -/

/-- `m'` has no record that `m` does not have, and records keep their bridger -/
def BPr (m m' : Map Oracle) : Prop := ∀ a orc', m'.get a = some orc' → ∃ orc, m.get a = some orc ∧ orc.bridger = orc'.bridger

theorem BPr_refl (m : Map Oracle) : BPr m m := fun _ orc h => ⟨orc, h, rfl⟩

theorem BPr_trans {m1 m2 m3 : Map Oracle} (h1 : BPr m1 m2) (h2 : BPr m2 m3) : BPr m1 m3 := by
  intro a o3 h
  obtain ⟨o2, hg2, hb2⟩ := h2 a o3 h
  obtain ⟨o1, hg1, hb1⟩ := h1 a o2 hg2
  exact ⟨o1, hg1, by rw [hb1, hb2]⟩

theorem BPr_set (m : Map Oracle) (o : Nat) (orc new : Oracle) (hg : m.get o = some orc) (hb : new.bridger = orc.bridger) :
    BPr m (m.set o new) := by
  intro a x hx
  by_cases h : o = a
  · subst h
    rw [get_set_self] at hx; cases hx
    exact ⟨orc, hg, hb.symm⟩
  · rw [get_set_ne _ _ _ _ h] at hx; exact ⟨x, hx, rfl⟩

theorem BPr_map (m : Map Oracle) (f : Nat × Oracle → Nat × Oracle) (hk : ∀ p, (f p).1 = p.1)
    (hb : ∀ p, (f p).2.bridger = p.2.bridger) : BPr m (m.map f) := by
  intro a orc' h
  induction m with
  | nil => simp [Map.get] at h
  | cons q r ih =>
    obtain ⟨k', v'⟩ := q
    have e : f (k', v') = (k', (f (k', v')).2) := Prod.ext (hk (k', v')) rfl
    rw [List.map_cons, e] at h
    by_cases h1 : k' = a
    · subst h1
      simp [Map.get] at h
      exact ⟨v', by simp [Map.get], by rw [← h]; exact (hb (k', v')).symm⟩
    · simp [Map.get, h1] at h
      obtain ⟨o, hg, hbr⟩ := ih h
      exact ⟨o, by simp [Map.get, h1]; exact hg, hbr⟩

theorem BPr_slashOne (m : Map Oracle) (o : Nat) : BPr m (slashOne m o) := by
  unfold slashOne
  split
  · rename_i orc hg
    split
    · exact BPr_set m o orc _ hg rfl
    · exact BPr_refl _
  · exact BPr_refl _

theorem BPr_foldl_slashOne (l : List Nat) (m : Map Oracle) : BPr m (l.foldl slashOne m) := by
  induction l generalizing m with
  | nil => exact BPr_refl _
  | cons o r ih => exact BPr_trans (BPr_slashOne m o) (ih _)

def CInv (s : State) : Prop := ∀ a orc, s.oracles.get a = some orc → s.byBridger.get orc.bridger = some a

theorem cinv_of_BPr {s s' : State} (hb : s'.byBridger = s.byBridger) (hp : BPr s.oracles s'.oracles) (h : CInv s) : CInv s' := by
  intro a orc' hg
  obtain ⟨orc, ho, hbr⟩ := hp a orc' hg
  rw [hb, ← hbr]; exact h a orc ho

/-- two records with the same bridger are the same record -/
theorem cinv_inj {s : State} (h : CInv s) {a a' : Nat} {o o' : Oracle} (h1 : s.oracles.get a = some o) (h2 : s.oracles.get a' = some o')
    (hb : o.bridger = o'.bridger) : a = a' := by
  have e1 := h a o h1
  have e2 := h a' o' h2
  rw [hb, e2] at e1; cases e1; rfl

theorem cinv_step (s : State) (op : Op) (hC : CInv s) : CInv (step s op).1 := by
  cases op with
  | claim w i n h k e =>
    have := claim_registry s w i n h k
    simp only [] at this
    simp only [step]
    exact cinv_of_BPr this.2.2.1 (by rw [this.1]; exact BPr_refl _) hC
  | bond o b e a d =>
    simp only [step]; unfold bondStep
    repeat' split
    all_goals first | exact hC | skip
    all_goals
      rename_i _ hno hnb _ _ _ _
      have hno' : s.oracles.get o = none := by simpa using hno
      have hnb' : s.byBridger.get b = none := by simpa using hnb
      intro a' orc' hg
      simp only [applyRefresh_byBridger, applyRefresh_oracles] at hg ⊢
      by_cases ha : o = a'
      · subst ha
        rw [get_set_self] at hg; cases hg
        exact get_set_self _ _ _
      · rw [get_set_ne _ _ _ _ ha] at hg
        have := hC a' orc' hg
        have hne : b ≠ orc'.bridger := by intro hc; rw [← hc, hnb'] at this; cases this
        rw [get_set_ne _ _ _ _ hne]; exact this
  | addDelegate o a d =>
    simp only [step]; unfold addDelegateStep addDelegateTo
    repeat' split
    all_goals first | exact hC | skip
    all_goals
      rename_i orc hg _ _ _ _ _
      exact cinv_of_BPr (s := s) (by simp) (by simp only [applyRefresh_oracles]; exact BPr_set s.oracles o orc _ hg rfl) hC
  | editBridger o b =>
    simp only [step]; unfold editBridgerStep
    repeat' split
    all_goals first | exact hC | skip
    rename_i orc hgo _ hneq hnb
    have hnb' : s.byBridger.get b = none := by simpa using hnb
    intro a' orc' hg
    simp only [editIndex_eq] at hg ⊢
    by_cases ha : o = a'
    · subst ha
      rw [get_set_self] at hg; cases hg
      exact get_set_self _ _ _
    · rw [get_set_ne _ _ _ _ ha] at hg
      have h1 := hC a' orc' hg
      have hne : b ≠ orc'.bridger := by intro hc; rw [← hc, hnb'] at h1; cases h1
      have hold : orc.bridger ≠ orc'.bridger := fun hc => ha (cinv_inj hC hgo hg hc)
      rw [get_set_ne _ _ _ _ hne, get_del_ne _ _ _ hold]; exact h1
  | unbond o u bal d =>
    simp only [step]
    rcases unbond_cases s o u bal d with h | ⟨orc, hgo, _, h⟩
    · rw [h]; exact hC
    · rw [h]
      intro a' orc' hg
      simp only [unbondApply] at hg ⊢
      have ha : o ≠ a' := by intro hc; subst hc; rw [get_del_self] at hg; cases hg
      rw [get_del_ne _ _ _ ha] at hg
      have hold : orc.bridger ≠ orc'.bridger := fun hc => ha (cinv_inj hC hgo hg hc)
      rw [get_del_ne _ _ _ hold]; exact hC a' orc' hg
  | gov l d =>
    simp only [step]; unfold govStep
    repeat' split
    all_goals first | exact hC | skip
    all_goals
      refine cinv_of_BPr (s := s) rfl (BPr_map s.oracles _ ?_ ?_) hC
      · intro p; split <;> rfl
      · intro p; split <;> rfl
  | endBlock l r =>
    simp only [step]; unfold endBlockStep
    split
    all_goals exact cinv_of_BPr (s := s) rfl (BPr_foldl_slashOne l s.oracles) hC
  | exec n o c =>
    simp only [step]
    obtain ⟨P, L, h⟩ := exec_frame s n o c
    rw [h]; exact hC

/-- a loaded record's bridger has an entry in the rebuilt index -/
theorem foldl_index_isSome (l : List (Nat × Oracle)) (acc : Map Nat) (b : Nat)
    (h : (acc.get b).isSome ∨ ∃ p ∈ l, p.2.bridger = b) :
    ((l.foldl (fun (m : Map Nat) p => m.set p.2.bridger p.1) acc).get b).isSome := by
  induction l generalizing acc with
  | nil =>
    rcases h with h | ⟨p, hp, _⟩
    · exact h
    · cases hp
  | cons q t ih =>
    simp only [List.foldl_cons]
    apply ih
    rcases h with h | ⟨p, hp, hb⟩
    · left
      by_cases e : q.2.bridger = b
      · rw [e, get_set_self]; rfl
      · rw [get_set_ne _ _ _ _ e]; exact h
    · rcases List.mem_cons.mp hp with e | e
      · left; subst e; rw [hb, get_set_self]; rfl
      · exact Or.inr ⟨p, e, hb⟩

/-- a restart reproduces the bridger index ENTRY FOR ENTRY (as a function; the store order may differ) -/
theorem roundTrip_index (s : State) (hK : KU s) (hB : BInv s) (hC : CInv s) (b : Nat) :
    (roundTrip s).byBridger.get b = s.byBridger.get b := by
  obtain ⟨_, hb⟩ := roundTrip_registry s hK
  rw [hb]
  cases hm : (s.oracles.foldl (fun (m : Map Nat) p => m.set p.2.bridger p.1) ([] : Map Nat)).get b with
  | some a =>
    rcases foldl_index_get s.oracles [] b a hm with h | ⟨p, hp, hpb, hpa⟩
    · simp [Map.get] at h
    · have := hC p.1 p.2 (get_of_mem_nodup s.oracles p.1 p.2 hK hp)
      rw [hpb, hpa] at this; exact this.symm
  | none =>
    cases hs : s.byBridger.get b with
    | none => rfl
    | some a =>
      obtain ⟨orc, ho, hbr⟩ := hB b a hs
      have := foldl_index_isSome s.oracles [] b (Or.inr ⟨(a, orc), mem_of_get _ _ _ ho, hbr⟩)
      rw [hm] at this; cases this

theorem cinv_roundTrip (s : State) (hK : KU s) (hB : BInv s) (hC : CInv s) : CInv (roundTrip s) := by
  intro a orc hg
  rw [(roundTrip_registry s hK).1] at hg
  rw [roundTrip_index s hK hB hC]; exact hC a orc hg

structure RInv2 (s : State) : Prop where
  ku : KU s
  bi : BInv s
  ci : CInv s

theorem rinv2_init (p : Params) : RInv2 (init p) :=
  ⟨by simp [KU, keys, init], by intro b a hg; simp [init, Map.get] at hg, by intro a orc hg; simp [init, Map.get] at hg⟩

theorem rinv2_gstep (s : State) (op : GOp) (h : RInv2 s) : RInv2 (gstep s op).1 := by
  cases op with
  | op o => exact ⟨ku_step s o h.ku, binv_step s o h.bi, cinv_step s o h.ci⟩
  | genesis => exact ⟨ku_roundTrip s h.ku, binv_roundTrip s h.ku, cinv_roundTrip s h.ku h.bi h.ci⟩

theorem rinv2_grun (s : State) (ops : List GOp) (h : RInv2 s) : RInv2 (grun s ops) := by
  induction ops generalizing s with
  | nil => exact h
  | cons op r ih => exact ih _ (rinv2_gstep s op h)

/-! ## a claim whose handler panics -/

theorem panics_not_ok_or_not_observing (s : State) (w i n h : Nat) (ms : List Nat)
    (hok : (claimStep s w i n h (.panics ms)).2 = .ok) :
    ∃ a, s.byBridger.get (voter w i) = some a ∧ observesNow s a n h = false := by
  unfold claimStep at hok
  repeat' split at hok
  all_goals first | (simp at hok; done) | skip
  rename_i _ _ a hga _ _ _ _ _ _ hpn
  refine ⟨a, hga, ?_⟩
  have hr : observeRunsHandler = true := by decide
  simpa [handlerPanics, hr] using hpn

/-- `attest` without an observation leaves the last observed nonce, the observation log and the parked claims alone -/
theorem attest_not_observing (s : State) (o n h : Nat) (kind : Kind) (hno : observesNow s o n h = false) :
    (attest s o n h kind).lastObserved = s.lastObserved ∧ (attest s o n h kind).observedLog = s.observedLog ∧
    (attest s o n h kind).pending = s.pending := by
  unfold observesNow at hno
  unfold attest
  simp only []
  split
  · rename_i hc
    have ht : tally s.oracles (required s.lastTotalPower) (voteAtt s o n h).votes 0 = false := by
      simpa [hc] using hno
    rw [tryAttest_false _ _ _ (by simpa using ht)]
    exact ⟨rfl, rfl, rfl⟩
  · exact ⟨rfl, rfl, rfl⟩

theorem txClaim_cases (s : State) (w i n h : Nat) (k : Kind) :
    txClaimStep s w i n h k = (s, .undeliverable) ∨ txClaimStep s w i n h k = claimStep s w i n h k := by
  unfold txClaimStep
  split
  · exact Or.inl rfl
  · exact Or.inr rfl

end FxVerif.Proofs.C01
