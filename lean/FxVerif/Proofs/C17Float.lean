import FxVerif.Model.C17Float
/-! helper lemmas for the binary64 division / `%.8f` rendering model (core Lean only) -/
namespace FxVerif.Proofs.C17
open FxVerif.Model.C17 FxVerif.Gen.C17

/-- round-half-even to an integer is within half a unit of the exact quotient -/
theorem rhe_half (num den : Nat) (hd : 0 < den) :
    2 * (rhe num den * den) ≤ 2 * num + den ∧ 2 * num ≤ 2 * (rhe num den * den) + den := by
  unfold rhe
  have h1 := Nat.div_add_mod num den
  have h2 := Nat.mod_lt num hd
  generalize num / den = q at *
  generalize num % den = r at *
  have h3 : den * q = q * den := Nat.mul_comm _ _
  simp only []
  split
  · have : (q + 1) * den = q * den + den := by rw [Nat.add_mul, Nat.one_mul]
    rw [this]
    omega
  · omega

/-- round-half-even is monotone in the numerator -/
theorem rhe_mono (a b den : Nat) (hd : 0 < den) (h : a ≤ b) : rhe a den ≤ rhe b den := by
  have ha := rhe_half a den hd
  have hb := rhe_half b den hd
  -- suppose rhe b + 1 ≤ rhe a: then 2·a ≥ 2·rhe a·den − den ≥ 2·rhe b·den + den ≥ 2·b, so a = b (contradiction with the value) or a > b
  apply Nat.le_of_not_lt
  intro hlt
  have hmul : (rhe b den + 1) * den ≤ rhe a den * den := Nat.mul_le_mul_right den hlt
  rw [Nat.add_mul, Nat.one_mul] at hmul
  have hab : a = b := by omega
  subst hab
  omega

theorem log2_divisor : powerDiffDivisor.log2 = 31 := by
  have h1 : powerDiffDivisor.log2 < 32 := (Nat.log2_lt (by decide)).mpr (by decide)
  have h2 : ¬ powerDiffDivisor.log2 < 31 := fun h => absurd ((Nat.log2_lt (by decide)).mp h) (by decide)
  omega

/-- for numerators below 2^53 the quotient by 2^32-1 carries at least 31 fractional bits -/
theorem fdiv_k_ge (n : Nat) (h0 : 0 < n) (h : n < 2 ^ 53) : 31 ≤ (fdiv n powerDiffDivisor).k := by
  have hl : n.log2 < 53 := (Nat.log2_lt (by omega)).mpr h
  unfold fdiv
  have hn : ¬ (n = 0 ∨ powerDiffDivisor = 0) := by
    intro hh; rcases hh with hh | hh
    · omega
    · exact absurd hh (by decide)
  simp only [hn, if_false, log2_divisor]
  split <;> omega

theorem fdiv_half_ulp (n d : Nat) (hn : 0 < n) (hd : 0 < d) :
    2 * ((fdiv n d).m * d) ≤ 2 * (n * 2 ^ (fdiv n d).k) + d ∧ 2 * (n * 2 ^ (fdiv n d).k) ≤ 2 * ((fdiv n d).m * d) + d := by
  unfold fdiv
  have hh : ¬ (n = 0 ∨ d = 0) := by omega
  simp only [hh, if_false]
  exact rhe_half _ d hd

end FxVerif.Proofs.C17
