import FxVerif.Model.C17Float
/-! helper lemmas for the binary64 division / `%.8f` rendering model (core Lean only) -/
namespace FxVerif.Proofs.C17
open FxVerif.Model.C17 FxVerif.Gen.C17

/-- round-half-even to an integer is within half a unit of the exact quotient -/
theorem rhe_half (num den : Nat) (hd : 0 < den) :
    2 * (rhe num den * den) ≤ 2 * num + den ∧ 2 * num ≤ 2 * (rhe num den * den) + den := by
  unfold rhe
  have h1 := Nat.div_add_mod num den
  have h2 := Nat.mod_lt num hd
  generalize num / den = q at *
  generalize num % den = r at *
  have h3 : den * q = q * den := Nat.mul_comm _ _
  simp only []
  split
  · have : (q + 1) * den = q * den + den := by rw [Nat.add_mul, Nat.one_mul]
    rw [this]
    omega
  · omega

/-- round-half-even is monotone in the numerator -/
theorem rhe_mono (a b den : Nat) (hd : 0 < den) (h : a ≤ b) : rhe a den ≤ rhe b den := by
  have ha := rhe_half a den hd
  have hb := rhe_half b den hd
  -- suppose rhe b + 1 ≤ rhe a: then 2·a ≥ 2·rhe a·den − den ≥ 2·rhe b·den + den ≥ 2·b, so a = b (contradiction with the value) or a > b
  apply Nat.le_of_not_lt
  intro hlt
  have hmul : (rhe b den + 1) * den ≤ rhe a den * den := Nat.mul_le_mul_right den hlt
  rw [Nat.add_mul, Nat.one_mul] at hmul
  have hab : a = b := by omega
  subst hab
  omega

theorem log2_divisor : powerDiffDivisor.log2 = 31 := by
  have h1 : powerDiffDivisor.log2 < 32 := (Nat.log2_lt (by decide)).mpr (by decide)
  have h2 : ¬ powerDiffDivisor.log2 < 31 := fun h => absurd ((Nat.log2_lt (by decide)).mp h) (by decide)
  omega

/-- for numerators below 2^53 the quotient by 2^32-1 carries at least 31 fractional bits -/
theorem fdiv_k_ge (n : Nat) (h0 : 0 < n) (h : n < 2 ^ 53) : 31 ≤ (fdiv n powerDiffDivisor).k := by
  have hl : n.log2 < 53 := (Nat.log2_lt (by omega)).mpr h
  unfold fdiv
  have hn : ¬ (n = 0 ∨ powerDiffDivisor = 0) := by
    intro hh; rcases hh with hh | hh
    · omega
    · exact absurd hh (by decide)
  simp only [hn, if_false, log2_divisor]
  split <;> omega

theorem fdiv_half_ulp (n d : Nat) (hn : 0 < n) (hd : 0 < d) :
    2 * ((fdiv n d).m * d) ≤ 2 * (n * 2 ^ (fdiv n d).k) + d ∧ 2 * (n * 2 ^ (fdiv n d).k) ≤ 2 * ((fdiv n d).m * d) + d := by
  unfold fdiv
  have hh : ¬ (n = 0 ∨ d = 0) := by omega
  simp only [hh, if_false]
  exact rhe_half _ d hd

/-- scaling numerator and denominator does not change the rounded quotient -/
theorem rhe_scale (a b c : Nat) (_hb : 0 < b) (hc : 0 < c) : rhe (a * c) (b * c) = rhe a b := by
  unfold rhe
  have hq : a * c / (b * c) = a / b := Nat.mul_div_mul_right a b hc
  have hr : a * c % (b * c) = a % b * c := by
    rw [Nat.mul_comm a c, Nat.mul_comm b c, Nat.mul_mod_mul_left, Nat.mul_comm]
  simp only [hq, hr]
  have e1 : (2 * (a % b * c) > b * c) ↔ (2 * (a % b) > b) := by
    rw [← Nat.mul_assoc]
    exact Nat.mul_lt_mul_right hc
  have e2 : (2 * (a % b * c) = b * c) ↔ (2 * (a % b) = b) := by
    rw [← Nat.mul_assoc]
    exact Nat.mul_left_inj (by omega)
  simp only [e1, e2]

theorem rhe_cases (num den : Nat) : rhe num den = num / den ∨ rhe num den = num / den + 1 := by
  unfold rhe
  simp only []
  split
  · right; rfl
  · left; rfl

theorem log2_bounds (n : Nat) (hn : 0 < n) : 2 ^ n.log2 ≤ n ∧ n < 2 * 2 ^ n.log2 := by
  refine ⟨Nat.log2_self_le (by omega), ?_⟩
  have := Nat.lt_log2_self (n := n)
  rw [Nat.pow_succ] at this
  omega

/-- the exponent `fdiv` chooses and the quotient at that exponent: normalised to [2^52, 2^53) -/
theorem fdiv_spec (n d : Nat) (hn : 0 < n) (hd : 0 < d) (hnd : n < 2 ^ 53 * d) :
    ∃ k, fdiv n d = ⟨rhe (n * 2 ^ k) d, k⟩ ∧ 2 ^ 52 * d ≤ n * 2 ^ k ∧ n * 2 ^ k < 2 ^ 53 * d ∧
      (k = 53 + d.log2 - n.log2 ∨ k + 1 = 53 + d.log2 - n.log2) := by
  have ⟨hA1, hA2⟩ := log2_bounds n hn
  have ⟨hB1, hB2⟩ := log2_bounds d hd
  have hle : n.log2 ≤ 53 + d.log2 := by
    have h1 : n < 2 ^ (54 + d.log2) := by
      have : 2 ^ (54 + d.log2) = 2 ^ 53 * (2 * 2 ^ d.log2) := by rw [Nat.pow_add]; omega
      rw [this]
      have : 2 ^ 53 * d < 2 ^ 53 * (2 * 2 ^ d.log2) := (Nat.mul_lt_mul_left (a := 2 ^ 53) (by decide)).mpr hB2
      omega
    have := (Nat.log2_lt (by omega)).mpr h1
    omega
  have hpow : 2 ^ n.log2 * 2 ^ (53 + d.log2 - n.log2) = 2 ^ 53 * 2 ^ d.log2 := by
    rw [← Nat.pow_add, ← Nat.pow_add]
    congr 1
    omega
  have hX1 : 2 ^ n.log2 * 2 ^ (53 + d.log2 - n.log2) ≤ n * 2 ^ (53 + d.log2 - n.log2) := Nat.mul_le_mul_right _ hA1
  have hX2 : n * 2 ^ (53 + d.log2 - n.log2) < 2 * 2 ^ n.log2 * 2 ^ (53 + d.log2 - n.log2) :=
    (Nat.mul_lt_mul_right (a := 2 ^ (53 + d.log2 - n.log2)) (Nat.pos_of_ne_zero (by simp))).mpr hA2
  have hX2' : 2 * 2 ^ n.log2 * 2 ^ (53 + d.log2 - n.log2) = 2 * (2 ^ 53 * 2 ^ d.log2) := by rw [Nat.mul_assoc, hpow]
  unfold fdiv
  have hh : ¬ (n = 0 ∨ d = 0) := by omega
  simp only [hh, if_false]
  generalize hk0 : 53 + d.log2 - n.log2 = k0 at *
  generalize hX : n * 2 ^ k0 = X at *
  generalize 2 ^ d.log2 = B at *
  generalize 2 ^ n.log2 = A at *
  by_cases hc : X / d < 2 ^ 53
  · refine ⟨k0, ?_, ?_, ?_, Or.inl rfl⟩
    · simp only [hc, if_true, hX]
    · rw [hX]; omega
    · rw [hX]; exact (Nat.div_lt_iff_lt_mul hd).mp hc
  · have hge : 2 ^ 53 * d ≤ X := by
      have := Nat.not_lt.mp hc
      exact (Nat.le_div_iff_mul_le hd).mp this
    have hk0pos : 0 < k0 := by
      apply Nat.pos_of_ne_zero
      intro h0
      rw [h0] at hX
      simp at hX
      omega
    have hhalf : n * 2 ^ (k0 - 1) * 2 = X := by
      rw [← hX, Nat.mul_assoc, ← Nat.pow_succ]
      congr 2
      omega
    refine ⟨k0 - 1, ?_, ?_, ?_, Or.inr (by omega)⟩
    · simp only [hc, if_false]
    · omega
    · omega

/-- normalisation: the significand of a quotient lies in [2^52, 2^53] -/
theorem fdiv_normal (n d : Nat) (hn : 0 < n) (hd : 0 < d) (hnd : n < 2 ^ 53 * d) :
    2 ^ 52 ≤ (fdiv n d).m ∧ (fdiv n d).m ≤ 2 ^ 53 := by
  obtain ⟨k, hk, h1, h2, _⟩ := fdiv_spec n d hn hd hnd
  rw [hk]
  have hq1 : 2 ^ 52 ≤ n * 2 ^ k / d := (Nat.le_div_iff_mul_le hd).mpr h1
  have hq2 : n * 2 ^ k / d < 2 ^ 53 := (Nat.div_lt_iff_lt_mul hd).mpr h2
  rcases rhe_cases (n * 2 ^ k) d with h | h <;> simp only [h] <;> omega

/-- binary64 division is monotone in the numerator (as dyadic rationals `m / 2^k`) -/
theorem fdiv_mono (n₁ n₂ d : Nat) (h0 : 0 < n₁) (h : n₁ ≤ n₂) (hd : 0 < d) (hnd : n₂ < 2 ^ 53 * d) :
    (fdiv n₁ d).m * 2 ^ (fdiv n₂ d).k ≤ (fdiv n₂ d).m * 2 ^ (fdiv n₁ d).k := by
  have hn1 : n₁ < 2 ^ 53 * d := by omega
  have N1 := fdiv_normal n₁ d h0 hd hn1
  have N2 := fdiv_normal n₂ d (by omega) hd hnd
  obtain ⟨k₁, e₁, a₁, b₁, _⟩ := fdiv_spec n₁ d h0 hd hn1
  obtain ⟨k₂, e₂, a₂, b₂, _⟩ := fdiv_spec n₂ d (by omega) hd hnd
  rw [e₁] at N1 ⊢
  rw [e₂] at N2 ⊢
  simp only at N1 N2 ⊢
  have hk : k₂ ≤ k₁ := by
    apply Nat.le_of_not_lt
    intro hlt
    have h1 : 2 ^ (k₁ + 1) ≤ 2 ^ k₂ := Nat.pow_le_pow_right (by decide) hlt
    have h2 : n₂ * 2 ^ (k₁ + 1) ≤ n₂ * 2 ^ k₂ := Nat.mul_le_mul_left _ h1
    have h3 : n₁ * 2 ^ (k₁ + 1) ≤ n₂ * 2 ^ (k₁ + 1) := Nat.mul_le_mul_right _ h
    have h4 : n₁ * 2 ^ (k₁ + 1) = 2 * (n₁ * 2 ^ k₁) := by rw [Nat.pow_succ]; ac_rfl
    omega
  rcases Nat.eq_or_lt_of_le hk with heq | hlt
  · subst heq
    exact Nat.mul_le_mul_right _ (rhe_mono _ _ d hd (Nat.mul_le_mul_right _ h))
  · have h1 : 2 ^ (k₂ + 1) ≤ 2 ^ k₁ := Nat.pow_le_pow_right (by decide) hlt
    have h2 : rhe (n₁ * 2 ^ k₁) d * 2 ^ k₂ ≤ 2 ^ 53 * 2 ^ k₂ := Nat.mul_le_mul_right _ N1.2
    have h3 : 2 ^ 52 * 2 ^ k₁ ≤ rhe (n₂ * 2 ^ k₂) d * 2 ^ k₁ := Nat.mul_le_mul_right _ N2.1
    have h4 : 2 ^ 52 * 2 ^ (k₂ + 1) ≤ 2 ^ 52 * 2 ^ k₁ := Nat.mul_le_mul_left _ h1
    have h5 : 2 ^ 52 * 2 ^ (k₂ + 1) = 2 ^ 53 * 2 ^ k₂ := by rw [Nat.pow_succ]; omega
    omega

/-- fixed-precision formatting is monotone in the binary64 value -/
theorem fmtFixed_mono_value (p : Nat) (v₁ v₂ : Dy) (h : v₁.m * 2 ^ v₂.k ≤ v₂.m * 2 ^ v₁.k) : fmtFixed p v₁ ≤ fmtFixed p v₂ := by
  unfold fmtFixed
  have p1 : 0 < 2 ^ v₁.k := Nat.pos_of_ne_zero (by simp)
  have p2 : 0 < 2 ^ v₂.k := Nat.pos_of_ne_zero (by simp)
  rw [← rhe_scale (v₁.m * 10 ^ p) (2 ^ v₁.k) (2 ^ v₂.k) p1 p2, ← rhe_scale (v₂.m * 10 ^ p) (2 ^ v₂.k) (2 ^ v₁.k) p2 p1,
    Nat.mul_comm (2 ^ v₂.k) (2 ^ v₁.k)]
  apply rhe_mono _ _ _ (Nat.mul_pos p1 p2)
  have e1 : v₁.m * 10 ^ p * 2 ^ v₂.k = v₁.m * 2 ^ v₂.k * 10 ^ p := by ac_rfl
  have e2 : v₂.m * 10 ^ p * 2 ^ v₁.k = v₂.m * 2 ^ v₁.k * 10 ^ p := by ac_rfl
  rw [e1, e2]
  exact Nat.mul_le_mul_right _ h


end FxVerif.Proofs.C17
