import FxVerif.Model.C01
import FxVerif.Model.C03Attest

/-!
# C03 ↔ C01: the two attestation models make the same steps (round 4)

`Model/C03Attest.lean` (claims as records, votes with their claim objects, keyed by the regenerated paths) and
`Model/C01.lean` (claims as a hash id, the guards of `Attest` / `TryAttestation` entering through the regenerated `Gen.C01`
flags) were written independently for two properties.  This file relates them: `Corr s t` says that a C03 state `s` and a
C01 state `t` describe the same store (attestations by key, last observed nonce, per-oracle last nonces, oracle powers,
recorded total power), and `vote_refines_attest` shows that one accepted vote takes corresponding states to corresponding
states — same attestation found, same vote list, same decision to call `TryAttestation`, same tally, same observation.
Side condition: the event nonce is at most `MaxKeepEventSize` (the C03 model does not prune old attestations).
-/
namespace FxVerif.Proofs.C03Refine
open FxVerif.Model.C03
open FxVerif.Model
open FxVerif.Gen.C01 (maxKeepEventSize)

/-- a C03 attestation seen by the C01 model: the votes without the ghost claim objects -/
def absAtt (a : Att Nat) : C01.Att := { nonce := a.nonce, hash := a.hash, votes := a.votes.map (·.1), observed := a.observed }

structure Corr (s : AState Nat) (t : C01.State) : Prop where
  atts : ∀ n h, (getAtt s.atts n h).map absAtt = C01.findAtt t.atts n h
  lastObserved : t.lastObserved = s.lastObserved
  lastNonce : ∀ o, C01.Map.get t.lastNonce o = s.lastByOracle.lookup o
  powers : ∀ o, (C01.Map.get t.oracles o).map C01.Oracle.power = s.powers.lookup o
  total : t.lastTotalPower = s.total

/-! ## the store primitives -/

theorem findAtt_setAtt (l : List C01.Att) (a : C01.Att) (n h : Nat) :
    C01.findAtt (C01.setAtt l a) n h = if a.nonce = n ∧ a.hash = h then some a else C01.findAtt l n h := by
  induction l with
  | nil => simp [C01.setAtt, C01.findAtt]
  | cons b r ih =>
    simp only [C01.setAtt]
    by_cases hb : b.nonce = a.nonce ∧ b.hash = a.hash
    · simp only [hb, and_self, if_true, C01.findAtt]
      by_cases ha : a.nonce = n ∧ a.hash = h
      · simp [ha]
      · have : ¬(b.nonce = n ∧ b.hash = h) := by rw [hb.1, hb.2]; exact ha
        simp [ha, this]
    · simp only [hb, if_false, C01.findAtt, ih]
      by_cases hbn : b.nonce = n ∧ b.hash = h
      · have : ¬(a.nonce = n ∧ a.hash = h) := by
          intro ha
          exact hb ⟨hbn.1.trans ha.1.symm, hbn.2.trans ha.2.symm⟩
        simp [hbn, this]
      · simp [hbn]

theorem find?_congr' {α : Type} {p q : α → Bool} : ∀ (l : List α), (∀ x ∈ l, p x = q x) → l.find? p = l.find? q
  | [], _ => rfl
  | x :: r, h => by
    simp only [List.find?_cons, h x List.mem_cons_self]
    rw [find?_congr' r (fun y hy => h y (List.mem_cons_of_mem _ hy))]

theorem getAtt_setAtt (l : List (Att Nat)) (a : Att Nat) (n h : Nat) :
    getAtt (setAtt l a) n h = if a.nonce = n ∧ a.hash = h then some a else getAtt l n h := by
  simp only [getAtt, setAtt, List.find?_cons]
  by_cases ha : a.nonce = n ∧ a.hash = h
  · simp [sameKey, ha]
  · have hk : sameKey n h a = false := by
      simp only [sameKey, Bool.and_eq_false_iff, beq_eq_false_iff_ne, ne_eq]
      by_cases h1 : a.nonce = n
      · exact Or.inr (fun h2 => ha ⟨h1, h2⟩)
      · exact Or.inl h1
    simp only [hk, ha, if_false]
    rw [List.find?_filter]
    apply find?_congr'
    intro b _
    by_cases hb : sameKey n h b = true
    · have : sameKey a.nonce a.hash b = false := by
        simp only [sameKey, Bool.and_eq_true, beq_iff_eq] at hb
        simp only [sameKey, Bool.and_eq_false_iff, beq_eq_false_iff_ne, ne_eq]
        by_cases h1 : b.nonce = a.nonce
        · refine Or.inr (fun h2 => ha ⟨?_, ?_⟩)
          · exact h1.symm.trans hb.1
          · exact h2.symm.trans hb.2
        · exact Or.inl h1
      simp [hb, this]
    · simp [hb]

theorem map_get_set {α : Type} (m : C01.Map α) (k : Nat) (v : α) (k' : Nat) :
    C01.Map.get (C01.Map.set m k v) k' = if k = k' then some v else C01.Map.get m k' := by
  induction m with
  | nil => simp [C01.Map.set, C01.Map.get]
  | cons p r ih =>
    obtain ⟨pk, pv⟩ := p
    simp only [C01.Map.set]
    by_cases h1 : pk = k
    · subst h1
      simp only [if_true, C01.Map.get]
      by_cases h2 : pk = k' <;> simp [h2]
    · simp only [h1, if_false, C01.Map.get, ih]
      by_cases h2 : pk = k'
      · have : k ≠ k' := fun e => h1 (h2.trans e.symm)
        simp [h2, this]
      · simp [h2]

theorem lookup_setAssoc (xs : List (Nat × Nat)) (k v k' : Nat) :
    (setAssoc xs k v).lookup k' = if k = k' then some v else xs.lookup k' := by
  simp only [setAssoc, List.lookup_cons]
  by_cases h : k = k'
  · subst h
    simp
  · have h' : (k' == k) = false := by simp [Ne.symm h]
    simp only [h', h, if_false]
    induction xs with
    | nil => simp
    | cons p r ih =>
      obtain ⟨pk, pv⟩ := p
      by_cases hp : pk = k
      · subst hp
        simp only [List.filter_cons, bne_self_eq_false, Bool.false_eq_true, if_false, List.lookup_cons, h', ih]
      · have : (pk != k) = true := by simp [hp]
        simp only [List.filter_cons, this, if_true, List.lookup_cons, ih]

/-! ## the decisions -/

theorem required_eq (total : Nat) : C01.required total = 66 * total / 100 := by
  simp [C01.required, FxVerif.Gen.C01.requiredExpr, FxVerif.Gen.C01.QExpr.eval, FxVerif.Gen.C01.votesThreshold]

theorem below_eq (acc req : Nat) : C01.below acc req = decide (acc < req) := by
  simp [C01.below, FxVerif.Gen.C01.tallyCmp]

/-- the vote loop of `TryAttestation`: the same verdict in both models -/
theorem crosses_eq_tally {s : AState Nat} {t : C01.State} (hc : Corr s t) (votes : List Nat) (acc : Nat) :
    crossesFrom s votes acc = C01.tally t.oracles (C01.required t.lastTotalPower) votes acc := by
  induction votes generalizing acc with
  | nil => rfl
  | cons v r ih =>
    simp only [crossesFrom, C01.tally]
    have hp := hc.powers v
    cases hg : C01.Map.get t.oracles v with
    | none =>
      rw [hg] at hp
      simp only [Option.map_none] at hp
      rw [← hp]
      exact ih acc
    | some orc =>
      rw [hg] at hp
      simp only [Option.map_some] at hp
      rw [← hp]
      simp only [below_eq, required_eq, hc.total, required, decide_eq_true_eq]
      by_cases hlt : acc + orc.power < 66 * s.total / 100
      · simp only [hlt, if_true]
        have := ih (acc + orc.power)
        simpa only [required_eq, hc.total] using this
      · simp [hlt]

/-- `GetLastEventNonceByOracle` with its fallback: the same value in both models -/
theorem lastNonce_eq {s : AState Nat} {t : C01.State} (hc : Corr s t) (o : Nat) : lastNonceOf s o = C01.effLast t o := by
  unfold lastNonceOf C01.effLast
  rw [hc.lastNonce o, hc.lastObserved]
  cases s.lastByOracle.lookup o <;> rfl

/-- the attestation the vote is appended to: the same one (found under the same key, or new), with the same votes -/
theorem votedAtt_eq {s : AState Nat} {t : C01.State} (hc : Corr s t) (key : AnyClaim → Nat) (o : Nat) (c : AnyClaim) :
    absAtt (votedAtt key s o c) = C01.voteAtt t o c.nonce (key c) := by
  simp only [votedAtt, attFor, C01.voteAtt]
  have := hc.atts c.nonce (key c)
  cases hg : getAtt s.atts c.nonce (key c) with
  | none =>
    rw [hg] at this
    simp only [Option.map_none] at this
    rw [← this]
    simp [absAtt, withVote, freshAtt]
  | some a =>
    rw [hg] at this
    simp only [Option.map_some] at this
    rw [← this]
    simp [absAtt, withVote]

/-- the guard of the `TryAttestation` call in `Attest`: the same decision (the C01 side through its regenerated flags) -/
theorem eligible_eq {s : AState Nat} {t : C01.State} (hl : t.lastObserved = s.lastObserved) (a : Att Nat) (c : AnyClaim) :
    eligible s a c = C01.tallyCond t (absAtt a) c.nonce := by
  simp [eligible, C01.tallyCond, FxVerif.Gen.C01.tallyCalled, FxVerif.Gen.C01.tallyRequiresNotObserved,
    FxVerif.Gen.C01.tallyRequiresNextNonce, absAtt, hl]

/-- how the C01 model classifies a claim: parked for `ExecuteClaim`, or handled at once -/
def kindOf (c : AnyClaim) : C01.Kind := if c.deferred then .pending else .other

/-! ## one accepted vote: corresponding states go to corresponding states -/

theorem attFor_key (key : AnyClaim → Nat) (s : AState Nat) (c : AnyClaim) :
    (attFor key s c).nonce = c.nonce ∧ (attFor key s c).hash = key c := by
  unfold attFor
  cases hg : getAtt s.atts c.nonce (key c) with
  | none => exact ⟨rfl, rfl⟩
  | some a =>
    simp only [getAtt] at hg
    have hp := List.find?_some hg
    simp only [sameKey, Bool.and_eq_true, beq_iff_eq] at hp
    exact hp

theorem lookup_own_eq (le : Nat → Nat → Bool) (key : AnyClaim → Nat) (s : AState Nat) (c : AnyClaim) :
    lookupWith le key s c [.ownKey, .fresh] = (attFor key s c, none) := by
  simp only [lookupWith, attFor]
  cases getAtt s.atts c.nonce (key c) <;> rfl

theorem votedAttWith_own (le : Nat → Nat → Bool) (key : AnyClaim → Nat) (s : AState Nat) (o : Nat) (c : AnyClaim) :
    votedAttWith [.ownKey, .fresh] le key s o c = votedAtt key s o c
    ∧ baseWith [.ownKey, .fresh] le key s c = s := by
  obtain ⟨hn, hh⟩ := attFor_key key s c
  constructor
  · simp only [votedAttWith, lookup_own_eq, votedAtt, withVote]
    rw [← hn, ← hh]
  · simp only [baseWith, lookup_own_eq]

/-- filing corresponding attestations keeps the tables corresponding -/
theorem corr_setAtt {l : List (Att Nat)} {l' : List C01.Att}
    (h : ∀ n h, (getAtt l n h).map absAtt = C01.findAtt l' n h) (a : Att Nat) :
    ∀ n h, (getAtt (setAtt l a) n h).map absAtt = C01.findAtt (C01.setAtt l' (absAtt a)) n h := by
  intro n hh
  rw [getAtt_setAtt, findAtt_setAtt]
  by_cases hk : a.nonce = n ∧ a.hash = hh
  · have hk' : (absAtt a).nonce = n ∧ (absAtt a).hash = hh := hk
    simp only [hk, hk', and_self, if_true, Option.map_some]
  · have hk' : ¬((absAtt a).nonce = n ∧ (absAtt a).hash = hh) := hk
    simp only [hk, hk', if_false]
    exact h n hh

theorem prune_id {lo : Nat} (h : lo ≤ maxKeepEventSize) (atts : List C01.Att) : C01.prune lo atts = atts := by
  simp [C01.prune, h]

/-- **refinement of one vote**: from corresponding states, a vote that passes the contiguity check (and whose handler does
not panic) takes the C03 model and the C01 model (`attest`: its guards are the regenerated `Gen.C01` flags) to corresponding
states.  `sites`: the C03 call structure is the one found in the source (one call, handed the voted attestation and the
voter's claim); the lookup is `[.ownKey, .fresh]`; `c.nonce ≤ MaxKeepEventSize`: no pruning -/
theorem vote_refines_attest (key : AnyClaim → Nat) (le : Nat → Nat → Bool) (sites : List TrySite)
    (hsites : sites.map (fun t => (t.att, t.claim)) = [(.voted, .voter)])
    {s : AState Nat} {t : C01.State} (hc : Corr s t) (o : Nat) (c : AnyClaim)
    (hl : logicCheck s c = true) (hcont : c.nonce = lastNonceOf s o + 1) (hkeep : c.nonce ≤ maxKeepEventSize) :
    (voteWith sites [.ownKey, .fresh] key le s o c false).2 = .ok
    ∧ Corr (voteWith sites [.ownKey, .fresh] key le s o c false).1 (C01.attest t o c.nonce (key c) (kindOf c)) := by
  obtain ⟨hva, hba⟩ := votedAttWith_own le key s o c
  obtain ⟨hn, hh⟩ := attFor_key key s c
  have hvn : (votedAtt key s o c).nonce = c.nonce := hn
  have hvh : (votedAtt key s o c).hash = key c := hh
  have habs := votedAtt_eq hc key o c
  -- the single call site
  obtain ⟨st, rfl, hatt, hcl⟩ : ∃ st, sites = [st] ∧ st.att = .voted ∧ st.claim = .voter := by
    cases sites with
    | nil => simp at hsites
    | cons st r =>
      cases r with
      | nil =>
        simp only [List.map_cons, List.map_nil, List.cons.injEq, Prod.mk.injEq, and_true] at hsites
        exact ⟨st, rfl, hsites.1, hsites.2⟩
      | cons _ _ => simp at hsites
  -- the state after the vote is filed, in both models
  have hc1 : Corr (afterVote s (votedAtt key s o c))
      { t with atts := C01.setAtt t.atts (C01.voteAtt t o c.nonce (key c)) } :=
    { atts := by
        intro n h
        have := corr_setAtt hc.atts (votedAtt key s o c) n h
        rw [habs] at this
        exact this
      lastObserved := hc.lastObserved
      lastNonce := hc.lastNonce
      powers := hc.powers
      total := hc.total }
  have helig := eligible_eq (s := afterVote s (votedAtt key s o c)) (t := t) hc.lastObserved (votedAtt key s o c) c
  have hcross := crosses_eq_tally hc1 ((votedAtt key s o c).votes.map (·.1)) 0
  have hvotes : (C01.voteAtt t o c.nonce (key c)).votes = (votedAtt key s o c).votes.map (·.1) := by
    rw [← habs]; rfl
  have hobs : (C01.voteAtt t o c.nonce (key c)).observed = (votedAtt key s o c).observed := by
    rw [← habs]; rfl
  have hnon : (C01.voteAtt t o c.nonce (key c)).nonce = c.nonce := by
    rw [← habs]; exact hvn
  unfold voteWith
  simp only [hl, Bool.not_true, Bool.false_eq_true, if_false, hcont, bne_self_eq_false, hva, hba]
  rw [← hcont]
  simp only [hit, trySites, candidates, hatt, hcl, handed, firstCrossing, crosses]
  have htc : C01.tallyCond t (C01.voteAtt t o c.nonce (key c)) c.nonce
      = eligible (afterVote s (votedAtt key s o c)) (votedAtt key s o c) c := by
    rw [← habs]; exact helig.symm
  unfold C01.attest
  simp only [htc]
  by_cases he : eligible (afterVote s (votedAtt key s o c)) (votedAtt key s o c) c = true
  · have hno : (votedAtt key s o c).observed = false := by
      simp only [eligible, Bool.and_eq_true, Bool.not_eq_true'] at he
      exact he.1
    simp only [he, if_true, hno, Bool.not_false, Bool.true_and]
    by_cases hx : crossesFrom (afterVote s (votedAtt key s o c)) ((votedAtt key s o c).votes.map (·.1)) 0 = true
    · -- observed
      have hx' := hx
      rw [hcross] at hx'
      simp only [hx, if_true, Bool.false_eq_true, if_false, true_and]
      simp only [C01.tryAttest, hvotes, hx', if_true, FxVerif.Gen.C01.observeSetsLastObserved,
        FxVerif.Gen.C01.observeMarksObserved]
      refine
        { atts := ?_
          lastObserved := ?_
          lastNonce := ?_
          powers := ?_
          total := ?_ }
      · intro n h
        have hhash : (C01.voteAtt t o c.nonce (key c)).hash = key c := by
          rw [← habs]; exact hvh
        have hobsAtt : absAtt { votedAtt key s o c with observed := true, nonce := c.nonce, hash := key c }
            = { nonce := c.nonce, hash := (C01.voteAtt t o c.nonce (key c)).hash,
                votes := (votedAtt key s o c).votes.map (·.1), observed := true } := by
          simp [absAtt, hhash]
        have := corr_setAtt hc1.atts { votedAtt key s o c with observed := true, nonce := c.nonce, hash := key c } n h
        rw [hobsAtt] at this
        cases hk : kindOf c <;>
          simp only [setLast, observe, hnon, prune_id hkeep] <;> exact this
      · cases hk : kindOf c <;> simp only [setLast, observe, hnon]
      · intro o'
        cases hk : kindOf c <;>
          simp only [setLast, observe, map_get_set, lookup_setAssoc] <;>
          (by_cases ho : o = o' <;> simp only [ho, if_true, if_false] <;> exact hc.lastNonce o')
      · cases hk : kindOf c <;> simp only [setLast, observe] <;> exact hc.powers
      · cases hk : kindOf c <;> simp only [setLast, observe] <;> exact hc.total
    · -- the votes do not reach the threshold
      have hx' : C01.tally t.oracles (C01.required t.lastTotalPower) ((votedAtt key s o c).votes.map (·.1)) 0 = false := by
        have := hcross
        simp only [Bool.not_eq_true] at hx
        rw [hx] at this
        exact this.symm
      simp only [hx, Bool.false_eq_true, if_false, true_and]
      simp only [C01.tryAttest, hvotes, hx', Bool.false_eq_true, if_false]
      exact
        { atts := hc1.atts
          lastObserved := hc1.lastObserved
          lastNonce := by
            intro o'
            simp only [setLast, map_get_set, lookup_setAssoc]
            by_cases ho : o = o' <;> simp only [ho, if_true, if_false]
            exact hc.lastNonce o'
          powers := hc1.powers
          total := hc1.total }
  · -- `TryAttestation` is not called
    simp only [Bool.not_eq_true] at he
    simp only [he, Bool.false_eq_true, if_false, true_and]
    exact
      { atts := hc1.atts
        lastObserved := hc1.lastObserved
        lastNonce := by
          intro o'
          simp only [setLast, map_get_set, lookup_setAssoc]
          by_cases ho : o = o' <;> simp only [ho, if_true, if_false]
          exact hc.lastNonce o'
        powers := hc1.powers
        total := hc1.total }

end FxVerif.Proofs.C03Refine
