import FxVerif.Proofs.C14
/-! C14, round 4: `DistrStakingMigrate.Execute` interpreted as a statement program equals the hand-written loop bodies -/
namespace FxVerif.Proofs.C14
open FxVerif.Model.C14

/-- two per-entry steps that commute can be run entry by entry or loop after loop -/
theorem foldl_interleave {σ ε : Type} (f g : σ → ε → σ) (hc : ∀ s a b, g (f s a) b = f (g s b) a) (es : List ε) (s : σ) :
    es.foldl (fun s e => g (f s e) e) s = es.foldl g (es.foldl f s) := by
  have push : ∀ (es : List ε) (x : σ) (e : ε), es.foldl f (g x e) = g (es.foldl f x) e := by
    intro es
    induction es with
    | nil => intro x e; rfl
    | cons a es ih => intro x e; simp only [List.foldl_cons]; rw [← hc, ih]
  induction es generalizing s with
  | nil => rfl
  | cons e es ih =>
    simp only [List.foldl_cons]
    rw [ih, push]

def delProg : List XStmt := [.siGet .frm, .siDel .frm, .siSet .to, .recDel .frm, .recSet .to, .idxDel 0 .frm, .idxSet 0 .to]
def ubdProg : List XStmt := [.recDel .frm, .recSet .to, .idxDel 0 .frm, .idxSet 0 .to]
def redProg : List XStmt := [.recDel .frm, .recSet .to, .idxDel 0 .frm, .idxSet 0 .to, .idxDel 1 .frm, .idxSet 1 .to]
def entryProg : List XStmt := [.idSet .to, .queue]

theorem moveDelegationP_eq (c : Cfg) (hc : c.rewriteDelIdx = true) (frm to : Addr) (s : State) (p : (Addr × Val) × Nat) :
    moveDelegationP delProg frm to s p = moveDelegation c frm to s p := by
  unfold moveDelegationP moveDelegation delProg
  simp only [List.foldl_cons, List.foldl_nil, delStmt, whoAddr, hc, ↓reduceIte]
  cases get s.startInfo (p.1.2, frm) <;> rfl

theorem moveUbdP_eq (c : Cfg) (h1 : c.rewriteUnbId = true) (h2 : c.qEveryEntry = true) (frm to : Addr) (s : State)
    (p : (Addr × Val) × List (Time × Nat × Nat)) :
    moveUbdP c ubdProg entryProg frm to s p = moveUbd c frm to s p := by
  unfold moveUbdP moveUbd ubdProg entryProg qEntries
  simp only [List.foldl_cons, List.foldl_nil, ubdStmt, ubdEntryStmt, whoAddr, h1, h2, ↓reduceIte, Bool.true_or]
  exact foldl_interleave
    (fun (s : State) (e : Time × Nat × Nat) => { s with unbId := put s.unbId e.2.2 (to, p.1.2, none) })
    (fun s e => ubdQueue c frm to p.1.2 s e) (fun s a b => rfl) p.2 _

theorem moveRedP_eq (c : Cfg) (h1 : c.rewriteUnbId = true) (h2 : c.qEveryEntry = true) (frm to : Addr) (s : State)
    (p : (Addr × Val × Val) × List (Time × Nat × Nat)) :
    moveRedP c redProg entryProg frm to s p = moveRed c frm to s p := by
  unfold moveRedP moveRed redProg entryProg qEntries
  simp only [List.foldl_cons, List.foldl_nil, redStmt, redEntryStmt, whoAddr, h1, h2, ↓reduceIte, Bool.true_or]
  exact foldl_interleave
    (fun (s : State) (e : Time × Nat × Nat) => { s with unbId := put s.unbId e.2.2 (to, p.1.2.1, some p.1.2.2) })
    (fun s e => redQueue c frm to p.1.2.1 p.1.2.2 s e) (fun s a b => rfl) p.2 _

end FxVerif.Proofs.C14
