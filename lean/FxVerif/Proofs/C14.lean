import FxVerif.Model.C14
/-! helper lemmas for C14: association-list stores, key sets, folds -/
namespace FxVerif.Proofs.C14
open FxVerif.Model.C14

variable {κ ν : Type} [BEq κ] [LawfulBEq κ]

omit [LawfulBEq κ] in
theorem get_nil (k : κ) : get ([] : Store κ ν) k = none := rfl

theorem get_cons (p : κ × ν) (m : Store κ ν) (k : κ) :
    get (p :: m) k = if k == p.1 then some p.2 else get m k := by
  obtain ⟨a, b⟩ := p
  simp only [Model.C14.get, List.lookup_cons]
  cases h : k == a <;> simp

theorem get_del_eq (m : Store κ ν) (k : κ) : get (del m k) k = none := by
  induction m with
  | nil => rfl
  | cons p m ih =>
    simp only [del, List.filter_cons]
    by_cases h : p.1 == k
    · simp only [h, Bool.not_true, Bool.false_eq_true, ↓reduceIte]; exact ih
    · have hk : (k == p.1) = false := by
        cases hh : k == p.1
        · rfl
        · exact absurd (by rw [eq_of_beq hh]; exact beq_self_eq_true _) h
      simp only [h, Bool.not_false, ↓reduceIte, get_cons, hk, Bool.false_eq_true]; exact ih

theorem get_del_ne (m : Store κ ν) (k k' : κ) (h : k' ≠ k) : get (del m k) k' = get m k' := by
  induction m with
  | nil => rfl
  | cons p m ih =>
    simp only [del, List.filter_cons]
    by_cases hp : p.1 == k
    · have : (k' == p.1) = false := by
        cases hh : k' == p.1
        · rfl
        · exact absurd ((eq_of_beq hh).trans (eq_of_beq hp)) h
      simp only [hp, Bool.not_true, Bool.false_eq_true, ↓reduceIte, get_cons, this]; exact ih
    · simp only [hp, Bool.not_false, ↓reduceIte, get_cons]
      split
      · rfl
      · exact ih

theorem get_put_eq (m : Store κ ν) (k : κ) (v : ν) : get (put m k v) k = some v := by
  simp [put, get_cons]

theorem get_put_ne (m : Store κ ν) (k k' : κ) (v : ν) (h : k' ≠ k) : get (put m k v) k' = get m k' := by
  have : (k' == k) = false := by
    cases hh : k' == k
    · rfl
    · exact absurd (eq_of_beq hh) h
  simp only [put, get_cons, this, Bool.false_eq_true, ↓reduceIte]
  exact get_del_ne m k k' h

theorem get_none_of_no_key (m : Store κ ν) (k : κ) (h : ∀ p ∈ m, p.1 ≠ k) : get m k = none := by
  induction m with
  | nil => rfl
  | cons p m ih =>
    have hk : (k == p.1) = false := by
      cases hh : k == p.1
      · rfl
      · exact absurd (eq_of_beq hh).symm (h p (List.mem_cons_self ..))
    simp only [get_cons, hk, Bool.false_eq_true, ↓reduceIte]
    exact ih (fun q hq => h q (List.mem_cons_of_mem _ hq))

theorem get_some_mem (m : Store κ ν) (k : κ) (v : ν) (h : get m k = some v) : (k, v) ∈ m := by
  induction m with
  | nil => simp [get_nil] at h
  | cons p m ih =>
    rw [get_cons] at h
    split at h
    · rename_i hk
      have : k = p.1 := eq_of_beq hk
      cases h
      subst this
      exact List.mem_cons_self ..
    · exact List.mem_cons_of_mem _ (ih h)

theorem mem_ins (s : List κ) (k x : κ) : x ∈ ins s k ↔ x = k ∨ x ∈ s := by
  unfold ins
  split
  · rename_i h
    constructor
    · exact Or.inr
    · rintro (rfl | h')
      · exact List.contains_iff_mem.mp h |> id
      · exact h'
  · simp

theorem mem_rem (s : List κ) (k x : κ) : x ∈ rem s k ↔ x ≠ k ∧ x ∈ s := by
  simp [rem, List.mem_filter, and_comm]

theorem foldl_proj {σ α β : Type} (g : σ → α) (step : σ → β → σ) (stepα : α → β → α)
    (h : ∀ s p, g (step s p) = stepα (g s) p) (s : σ) (l : List β) :
    g (l.foldl step s) = l.foldl stepα (g s) := by
  induction l generalizing s with
  | nil => rfl
  | cons p l ih => simp only [List.foldl_cons]; rw [ih, h]

theorem foldl_keep {σ α β : Type} (g : σ → α) (step : σ → β → σ)
    (h : ∀ s p, g (step s p) = g s) (s : σ) (l : List β) : g (l.foldl step s) = g s := by
  induction l generalizing s with
  | nil => rfl
  | cons p l ih => simp only [List.foldl_cons]; rw [ih, h]

theorem foldl_inv {σ β : Type} (P : σ → Prop) (step : σ → β → σ)
    (h : ∀ s p, P s → P (step s p)) (s : σ) (l : List β) (h0 : P s) : P (l.foldl step s) := by
  induction l generalizing s with
  | nil => exact h0
  | cons p l ih => exact ih _ (h _ _ h0)

end FxVerif.Proofs.C14

namespace FxVerif.Proofs.C14
open FxVerif.Model.C14

section rekey
variable {β ν : Type} [BEq β] [LawfulBEq β]

/-- the store component of the `Execute` loops: delete the record under (from, x), set it under (to, x) -/
def rekeyStep (frm to : Addr) (m : Store (Addr × β) ν) (p : (Addr × β) × ν) : Store (Addr × β) ν :=
  put (del m (frm, p.1.2)) (to, p.1.2) p.2

theorem rekey_other (frm to : Addr) (L : List ((Addr × β) × ν)) (m : Store (Addr × β) ν) (d : Addr) (x : β)
    (h1 : d ≠ frm) (h2 : d ≠ to) : get (L.foldl (rekeyStep frm to) m) (d, x) = get m (d, x) := by
  induction L generalizing m with
  | nil => rfl
  | cons p L ih =>
    simp only [List.foldl_cons]
    rw [ih, rekeyStep, get_put_ne _ _ _ _ (by intro e; cases e; exact h2 rfl),
      get_del_ne _ _ _ (by intro e; cases e; exact h1 rfl)]

theorem rekey_to_absent (frm to : Addr) (hne : frm ≠ to) (L : List ((Addr × β) × ν)) (m : Store (Addr × β) ν) (x : β)
    (h : ∀ p ∈ L, p.1.2 ≠ x) : get (L.foldl (rekeyStep frm to) m) (to, x) = get m (to, x) := by
  induction L generalizing m with
  | nil => rfl
  | cons p L ih =>
    simp only [List.foldl_cons]
    rw [ih _ (fun q hq => h q (List.mem_cons_of_mem _ hq)), rekeyStep,
      get_put_ne _ _ _ _ (by intro e; cases e; exact h p (List.mem_cons_self ..) rfl),
      get_del_ne _ _ _ (by intro e; cases e; exact hne rfl)]

theorem rekey_to_present (frm to : Addr) (hne : frm ≠ to) (L : List ((Addr × β) × ν)) (m : Store (Addr × β) ν) (x : β)
    (y : ν) (hval : ∀ p ∈ L, p.1.2 = x → p.2 = y) (hex : ∃ p ∈ L, p.1.2 = x) :
    get (L.foldl (rekeyStep frm to) m) (to, x) = some y := by
  induction L generalizing m with
  | nil => obtain ⟨p, hp, _⟩ := hex; cases hp
  | cons p L ih =>
    simp only [List.foldl_cons]
    by_cases hL : ∃ q ∈ L, q.1.2 = x
    · exact ih _ (fun q hq => hval q (List.mem_cons_of_mem _ hq)) hL
    · have hno : ∀ q ∈ L, q.1.2 ≠ x := fun q hq e => hL ⟨q, hq, e⟩
      rw [rekey_to_absent frm to hne L _ x hno]
      obtain ⟨q, hq, hqx⟩ := hex
      have hp : p.1.2 = x := by
        rcases List.mem_cons.mp hq with rfl | hq'
        · exact hqx
        · exact absurd hqx (hno q hq')
      rw [rekeyStep, hp, get_put_eq, hval p (List.mem_cons_self ..) hp]

theorem rekey_from_none (frm to : Addr) (hne : frm ≠ to) (L : List ((Addr × β) × ν)) (m : Store (Addr × β) ν) (x : β)
    (h : get m (frm, x) = none) : get (L.foldl (rekeyStep frm to) m) (frm, x) = none := by
  induction L generalizing m with
  | nil => exact h
  | cons p L ih =>
    simp only [List.foldl_cons]
    apply ih
    rw [rekeyStep, get_put_ne _ _ _ _ (by intro e; cases e; exact hne rfl)]
    by_cases hp : p.1.2 = x
    · rw [hp, get_del_eq]
    · rw [get_del_ne _ _ _ (by intro e; cases e; exact hp rfl), h]

theorem rekey_from_present (frm to : Addr) (hne : frm ≠ to) (L : List ((Addr × β) × ν)) (m : Store (Addr × β) ν) (x : β)
    (hex : ∃ p ∈ L, p.1.2 = x) : get (L.foldl (rekeyStep frm to) m) (frm, x) = none := by
  induction L generalizing m with
  | nil => obtain ⟨p, hp, _⟩ := hex; cases hp
  | cons p L ih =>
    simp only [List.foldl_cons]
    by_cases hp : p.1.2 = x
    · apply rekey_from_none frm to hne
      rw [rekeyStep, get_put_ne _ _ _ _ (by intro e; cases e; exact hne rfl), hp, get_del_eq]
    · obtain ⟨q, hq, hqx⟩ := hex
      rcases List.mem_cons.mp hq with rfl | hq'
      · exact absurd hqx hp
      · exact ih _ ⟨q, hq', hqx⟩

end rekey

/-- entries an iterator over the prefix of `a` yields -/
def entriesOf {β ν : Type} [BEq β] [BEq ν] (m : Store (Addr × β) ν) (a : Addr) : Store (Addr × β) ν :=
  (visible m).filter (fun p => p.1.1 == a)

theorem entriesOf_spec {β ν : Type} [BEq β] [LawfulBEq β] [BEq ν] [LawfulBEq ν] (m : Store (Addr × β) ν) (a : Addr)
    (p : (Addr × β) × ν) : p ∈ entriesOf m a ↔ p ∈ m ∧ get m p.1 = some p.2 ∧ p.1.1 = a := by
  simp only [entriesOf, visible, List.mem_filter, beq_iff_eq, and_assoc]

theorem entriesOf_of_get {β ν : Type} [BEq β] [LawfulBEq β] [BEq ν] [LawfulBEq ν] (m : Store (Addr × β) ν) (a : Addr) (x : β)
    (y : ν) (h : get m (a, x) = some y) : ∃ p ∈ entriesOf m a, p.1.2 = x := by
  exact ⟨((a, x), y), (entriesOf_spec m a _).mpr ⟨get_some_mem m _ _ h, h, rfl⟩, rfl⟩

theorem entriesOf_val {β ν : Type} [BEq β] [LawfulBEq β] [BEq ν] [LawfulBEq ν] (m : Store (Addr × β) ν) (a : Addr) (x : β)
    (y : ν) (h : get m (a, x) = some y) : ∀ p ∈ entriesOf m a, p.1.2 = x → p.2 = y := by
  intro p hp hx
  obtain ⟨_, hg, ha⟩ := (entriesOf_spec m a p).mp hp
  have : p.1 = (a, x) := by cases p with | mk k v => cases k; simp_all
  rw [this, h] at hg
  exact (Option.some.inj hg).symm

theorem entriesOf_none {β ν : Type} [BEq β] [LawfulBEq β] [BEq ν] [LawfulBEq ν] (m : Store (Addr × β) ν) (a : Addr) (x : β)
    (h : get m (a, x) = none) : ∀ p ∈ entriesOf m a, p.1.2 ≠ x := by
  intro p hp hx
  obtain ⟨_, hg, ha⟩ := (entriesOf_spec m a p).mp hp
  have : p.1 = (a, x) := by cases p with | mk k v => cases k; simp_all
  rw [this, h] at hg
  cases hg

/-- the rekeyed store: what the record store looks like after the loop over the entries of `from` -/
theorem rekey_spec {β ν : Type} [BEq β] [LawfulBEq β] [BEq ν] [LawfulBEq ν] (m : Store (Addr × β) ν) (frm to : Addr)
    (hne : frm ≠ to) (hto : ∀ p ∈ m, p.1.1 ≠ to) (d : Addr) (x : β) :
    get ((entriesOf m frm).foldl (rekeyStep frm to) m) (d, x) =
      if d = to then get m (frm, x) else if d = frm then none else get m (d, x) := by
  by_cases h2 : d = to
  · subst h2
    simp only [↓reduceIte]
    cases hg : get m (frm, x) with
    | none =>
      rw [rekey_to_absent frm d hne _ _ _ (entriesOf_none m frm x hg)]
      exact get_none_of_no_key m _ (fun p hp e => hto p hp (by rw [e]))
    | some y => exact rekey_to_present frm d hne _ _ _ y (entriesOf_val m frm x y hg) (entriesOf_of_get m frm x y hg)
  · simp only [h2, ↓reduceIte]
    by_cases h1 : d = frm
    · subst h1
      simp only [↓reduceIte]
      cases hg : get m (d, x) with
      | none => exact rekey_from_none d to hne _ _ _ hg
      | some y => exact rekey_from_present d to hne _ _ _ (entriesOf_of_get m d x y hg)
    · simp only [h1, ↓reduceIte]
      exact rekey_other frm to _ _ d x h1 h2


/-! ### migration records are written by `setRecord` only -/

theorem touchPre_recs {s s' : State} {d v rw} (h : touchPre s d v rw = some s') : s'.recs = s.recs := by
  unfold touchPre at h
  split at h
  · cases h; rfl
  · split at h
    · cases h
    · cases h; rfl

theorem unbond_recs {s s' : State} {d v amt rw} (h : unbond s d v amt rw = some s') : s'.recs = s.recs := by
  unfold unbond at h
  split at h
  · cases h
  · split at h
    · cases h
    · split at h
      · cases h
      · rename_i s1 h1
        cases h
        have := touchPre_recs h1
        split <;> simpa [touchPost] using this

theorem addShares_recs {s s' : State} {d v amt rw} (h : addShares s d v amt rw = some s') : s'.recs = s.recs := by
  unfold addShares at h
  split at h
  · cases h
  · rename_i s1 h1
    cases h
    simpa [touchPost] using touchPre_recs h1

theorem delegate_recs {s s' : State} {d v amt rw} (h : delegate s d v amt rw = some s') : s'.recs = s.recs := by
  unfold delegate at h
  split at h
  · cases h
  · split at h
    · cases h
    · rename_i s1 h1
      split at h
      · cases h
      · cases h
        simpa [touchPost] using touchPre_recs h1

theorem undelegate_recs {s s' : State} {d v amt rw} (h : undelegate s d v amt rw = some s') : s'.recs = s.recs := by
  unfold undelegate at h
  split at h
  · cases h
  · simp only [] at h
    split at h
    · cases h
    · split at h
      · cases h
      · rename_i s1 h1
        split at h
        · cases h
        · cases h
          exact (unbond_recs h1 : s1.recs = s.recs)

theorem redelegate_recs {s s' : State} {d a b amt r1 r2} (h : redelegate s d a b amt r1 r2 = some s') : s'.recs = s.recs := by
  unfold redelegate at h
  split at h
  · cases h
  · split at h
    · cases h
    · simp only [] at h
      split at h
      · cases h
      · split at h
        · cases h
        · rename_i s1 h1
          split at h
          · cases h
          · rename_i s2 h2
            cases h
            exact ((addShares_recs h2 : s2.recs = s1.recs).trans (unbond_recs h1))

theorem withdraw_recs {s s' : State} {d v rw} (h : withdraw s d v rw = some s') : s'.recs = s.recs := by
  unfold withdraw at h
  split at h
  · cases h
  · split at h
    · cases h
    · rename_i s1 h1
      cases h
      simpa [touchPost] using touchPre_recs h1

theorem submit_recs {s s' : State} {a dep} (h : submit s a dep = some s') : s'.recs = s.recs := by
  unfold submit at h
  split at h
  · cases h
  · cases h; rfl

theorem deposit_recs {s s' : State} {a id amt} (h : deposit s a id amt = some s') : s'.recs = s.recs := by
  unfold deposit at h
  split at h
  · cases h
  · split at h
    · cases h
    · split at h
      · cases h
      · cases h; rfl

theorem vote_recs {s s' : State} {a id} (h : vote s a id = some s') : s'.recs = s.recs := by
  unfold vote at h
  split at h
  · cases h
  · split at h
    · cases h
    · cases h; rfl

theorem completeUnbonding_recs (s : State) (d v) : (completeUnbonding s d v).recs = s.recs := by
  unfold completeUnbonding
  split
  · rfl
  · simp only []
    split <;> rfl

theorem completeRedelegation_recs (s : State) (d a b) : (completeRedelegation s d a b).recs = s.recs := by
  unfold completeRedelegation
  split
  · rfl
  · simp only []
    split <;> rfl

theorem stakingEnd_recs (s : State) : (stakingEnd s).recs = s.recs := by
  unfold stakingEnd
  refine (foldl_keep (fun s : State => s.recs) _ (by intros; exact completeRedelegation_recs _ _ _ _) _ _).trans ?_
  exact foldl_keep (fun s : State => s.recs) _ (by intros; exact completeUnbonding_recs _ _ _) _ _

theorem refundDeposits_recs (s : State) (id) : (refundDeposits s id).recs = s.recs := rfl

theorem govEnd_recs (s : State) : (govEnd s).recs = s.recs := by
  unfold govEnd
  refine (foldl_keep (fun s : State => s.recs) _ (by intros; rfl) _ _).trans ?_
  exact foldl_keep (fun s : State => s.recs) _ (by intros; rfl) _ _

theorem endBlock_recs (s : State) (dt) : (endBlock s dt).recs = s.recs := by
  unfold endBlock
  exact (govEnd_recs _).trans (stakingEnd_recs _)

end FxVerif.Proofs.C14
