import FxVerif.Model.C14
/-! helper lemmas for C14: association-list stores, key sets, folds -/
namespace FxVerif.Proofs.C14
open FxVerif.Model.C14

variable {κ ν : Type} [BEq κ] [LawfulBEq κ]

omit [LawfulBEq κ] in
theorem get_nil (k : κ) : get ([] : Store κ ν) k = none := rfl

theorem get_cons (p : κ × ν) (m : Store κ ν) (k : κ) :
    get (p :: m) k = if k == p.1 then some p.2 else get m k := by
  obtain ⟨a, b⟩ := p
  simp only [Model.C14.get, List.lookup_cons]
  cases h : k == a <;> simp

theorem get_del_eq (m : Store κ ν) (k : κ) : get (del m k) k = none := by
  induction m with
  | nil => rfl
  | cons p m ih =>
    simp only [del, List.filter_cons]
    by_cases h : p.1 == k
    · simp only [h, Bool.not_true, Bool.false_eq_true, ↓reduceIte]; exact ih
    · have hk : (k == p.1) = false := by
        cases hh : k == p.1
        · rfl
        · exact absurd (by rw [eq_of_beq hh]; exact beq_self_eq_true _) h
      simp only [h, Bool.not_false, ↓reduceIte, get_cons, hk, Bool.false_eq_true]; exact ih

theorem get_del_ne (m : Store κ ν) (k k' : κ) (h : k' ≠ k) : get (del m k) k' = get m k' := by
  induction m with
  | nil => rfl
  | cons p m ih =>
    simp only [del, List.filter_cons]
    by_cases hp : p.1 == k
    · have : (k' == p.1) = false := by
        cases hh : k' == p.1
        · rfl
        · exact absurd ((eq_of_beq hh).trans (eq_of_beq hp)) h
      simp only [hp, Bool.not_true, Bool.false_eq_true, ↓reduceIte, get_cons, this]; exact ih
    · simp only [hp, Bool.not_false, ↓reduceIte, get_cons]
      split
      · rfl
      · exact ih

theorem get_put_eq (m : Store κ ν) (k : κ) (v : ν) : get (put m k v) k = some v := by
  simp [put, get_cons]

theorem get_put_ne (m : Store κ ν) (k k' : κ) (v : ν) (h : k' ≠ k) : get (put m k v) k' = get m k' := by
  have : (k' == k) = false := by
    cases hh : k' == k
    · rfl
    · exact absurd (eq_of_beq hh) h
  simp only [put, get_cons, this, Bool.false_eq_true, ↓reduceIte]
  exact get_del_ne m k k' h

theorem get_none_of_no_key (m : Store κ ν) (k : κ) (h : ∀ p ∈ m, p.1 ≠ k) : get m k = none := by
  induction m with
  | nil => rfl
  | cons p m ih =>
    have hk : (k == p.1) = false := by
      cases hh : k == p.1
      · rfl
      · exact absurd (eq_of_beq hh).symm (h p (List.mem_cons_self ..))
    simp only [get_cons, hk, Bool.false_eq_true, ↓reduceIte]
    exact ih (fun q hq => h q (List.mem_cons_of_mem _ hq))

theorem get_some_mem (m : Store κ ν) (k : κ) (v : ν) (h : get m k = some v) : (k, v) ∈ m := by
  induction m with
  | nil => simp [get_nil] at h
  | cons p m ih =>
    rw [get_cons] at h
    split at h
    · rename_i hk
      have : k = p.1 := eq_of_beq hk
      cases h
      subst this
      exact List.mem_cons_self ..
    · exact List.mem_cons_of_mem _ (ih h)

theorem mem_ins (s : List κ) (k x : κ) : x ∈ ins s k ↔ x = k ∨ x ∈ s := by
  unfold ins
  split
  · rename_i h
    constructor
    · exact Or.inr
    · rintro (rfl | h')
      · exact List.contains_iff_mem.mp h |> id
      · exact h'
  · simp

theorem mem_rem (s : List κ) (k x : κ) : x ∈ rem s k ↔ x ≠ k ∧ x ∈ s := by
  simp [rem, List.mem_filter, and_comm]

theorem foldl_proj {σ α β : Type} (g : σ → α) (step : σ → β → σ) (stepα : α → β → α)
    (h : ∀ s p, g (step s p) = stepα (g s) p) (s : σ) (l : List β) :
    g (l.foldl step s) = l.foldl stepα (g s) := by
  induction l generalizing s with
  | nil => rfl
  | cons p l ih => simp only [List.foldl_cons]; rw [ih, h]

theorem foldl_keep {σ α β : Type} (g : σ → α) (step : σ → β → σ)
    (h : ∀ s p, g (step s p) = g s) (s : σ) (l : List β) : g (l.foldl step s) = g s := by
  induction l generalizing s with
  | nil => rfl
  | cons p l ih => simp only [List.foldl_cons]; rw [ih, h]

theorem foldl_inv {σ β : Type} (P : σ → Prop) (step : σ → β → σ)
    (h : ∀ s p, P s → P (step s p)) (s : σ) (l : List β) (h0 : P s) : P (l.foldl step s) := by
  induction l generalizing s with
  | nil => exact h0
  | cons p l ih => exact ih _ (h _ _ h0)

end FxVerif.Proofs.C14
