import FxVerif.Proofs.C11Unslashed
/-!
# C11 — transactions that make several precompile calls (core Lean only)

A contract may call the staking precompile several times within one transaction (a spender contract that loops over
validators and calls `transferFromShares` for each).  `State.stepTx` runs such a group either all-or-nothing (`atomic`:
the contract lets a failure bubble up and the EVM reverts the transaction) or call by call (`each`: the contract swallows
the failure of a call, which is reverted on its own).  Every state reached through grouped transactions is a state
reached by a plain list of single calls, so every invariant proved over `State.run` holds after grouped transactions.
-/
namespace FxVerif.Proofs.C11
open FxVerif.Model.C11 FxVerif.Gen.C11

/-- the calls of a list of transactions, in order -/
def Tx.ops : Tx → List Op
  | .one o => [o]
  | .atomic os => os
  | .each os => os

def flattenTx : List Tx → List Op
  | [] => []
  | t :: ts => Tx.ops t ++ flattenTx ts

theorem run_append (c : Cfg) (s : State) (a b : List Op) : (s.run c a).run c b = s.run c (a ++ b) := by
  unfold State.run
  rw [List.foldl_append]

theorem step_of_exec {c : Cfg} {s s' : State} {o : Op} (h : s.exec c o = .ok s') : s.step c o = s' := by
  unfold State.step
  rw [h]

/-- a group that succeeds as a whole is the plain sequence of its calls -/
theorem execAll_ok_run {c : Cfg} : ∀ (os : List Op) (s s' : State), s.execAll c os = .ok s' → s.run c os = s' := by
  intro os
  induction os with
  | nil => intro s s' h; cases h; rfl
  | cons o os ih =>
    intro s s' h
    unfold State.execAll at h
    cases he : s.exec c o with
    | error e => rw [he] at h; cases h
    | ok s1 =>
      rw [he] at h
      have := ih s1 s' h
      show (os.foldl (State.step c) (s.step c o)) = s'
      rw [step_of_exec he]
      exact this

/-- … and every call of it succeeded on the state its predecessors left -/
inductive AllOk (c : Cfg) : State → List Op → State → Prop
  | nil (s : State) : AllOk c s [] s
  | cons {s s1 s' : State} {o : Op} {os : List Op} : s.exec c o = .ok s1 → AllOk c s1 os s' → AllOk c s (o :: os) s'

theorem execAll_AllOk {c : Cfg} : ∀ (os : List Op) (s s' : State), s.execAll c os = .ok s' → AllOk c s os s' := by
  intro os
  induction os with
  | nil => intro s s' h; cases h; exact .nil s
  | cons o os ih =>
    intro s s' h
    unfold State.execAll at h
    cases he : s.exec c o with
    | error e => rw [he] at h; cases h
    | ok s1 =>
      rw [he] at h
      exact .cons he (ih s1 s' h)

/-- one transaction is a (possibly empty) plain sequence of calls taken from it -/
theorem stepTx_reach (c : Cfg) (s : State) (t : Tx) :
    ∃ os, s.stepTx c t = s.run c os ∧ ∀ o, o ∈ os → o ∈ Tx.ops t := by
  cases t with
  | one o => exact ⟨[o], rfl, fun _ h => h⟩
  | each os => exact ⟨os, rfl, fun _ h => h⟩
  | atomic os =>
    cases he : s.execAll c os with
    | error e => exact ⟨[], by simp only [State.stepTx, he]; rfl, fun _ h => by cases h⟩
    | ok s' => exact ⟨os, by simp only [State.stepTx, he]; exact (execAll_ok_run os s s' he).symm, fun _ h => h⟩

theorem runTx_reach (c : Cfg) : ∀ (txs : List Tx) (s : State),
    ∃ os, s.runTx c txs = s.run c os ∧ ∀ o, o ∈ os → o ∈ flattenTx txs := by
  intro txs
  induction txs with
  | nil => intro s; exact ⟨[], rfl, fun _ h => by cases h⟩
  | cons t ts ih =>
    intro s
    obtain ⟨a, ha, ma⟩ := stepTx_reach c s t
    obtain ⟨b, hb, mb⟩ := ih (s.stepTx c t)
    refine ⟨a ++ b, ?_, ?_⟩
    · show (ts.foldl (State.stepTx c) (s.stepTx c t)) = _
      have hb' : ts.foldl (State.stepTx c) (s.stepTx c t) = (s.stepTx c t).run c b := hb
      rw [hb', ha, run_append]
    · intro o ho
      rcases List.mem_append.mp ho with h | h
      · exact List.mem_append.mpr (Or.inl (ma o h))
      · exact List.mem_append.mpr (Or.inr (mb o h))

/-! ### a spender that moves shares at several validators in one transaction -/

theorem transferOp_ok {c : Cfg} {s s' : State} {f t v x : Nat} (h : s.transferOp c f t v x = .ok s') :
    ∃ v' rf rt, VS.transfer c (s.vs v) s.height f t (x * ONE) (s.hasRecvRedel f v) = .ok (v', rf, rt) ∧ s'.vs v = v' := by
  unfold State.transferOp at h
  split at h
  · cases h
  · split at h
    · cases h
    · split at h
      · cases h
      · rename_i v' rf rt ht
        cases h
        refine ⟨v', rf, rt, ht, ?_⟩
        show setAt s.vs v v' v = v'
        exact setAt_same _ _ _

/-- what a successful `transferFromShares` does to the record of its validator and to its allowance, and what it leaves
alone elsewhere -/
theorem transferFrom_exec {c : Cfg} (hg : good c = true) {s s' : State} {sp f t v x : Nat}
    (h : s.exec c (.transferFrom sp f t v x) = .ok s') :
    x ≤ s.allow v f sp ∧ s'.allow v f sp = s.allow v f sp - x ∧
    (∀ a b d, ¬(a = v ∧ b = f ∧ d = sp) → s'.allow a b d = s.allow a b d) ∧
    (∀ w, w ≠ v → s'.vs w = s.vs w) ∧
    ∃ v' rf rt, VS.transfer c (s.vs v) s.height f t (x * ONE) (s.hasRecvRedel f v) = .ok (v', rf, rt) ∧ s'.vs v = v' := by
  obtain ⟨-, -, -, -, -, -, -, -, -, -, -, g12, g13, -⟩ := good_fields hg
  simp only [State.exec] at h
  rw [transferFromTx_eq hg] at h
  simp only [State.transferFromRef, g12, g13, Bool.true_and, decide_eq_true_eq, if_true] at h
  split at h
  · cases h
  · split at h
    · cases h
    · split at h
      · cases h
      · rename_i hlt
        have fr := transferOp_frame hg h
        obtain ⟨_, _, _, _, _, _, _, _, ha, hw, _⟩ := fr
        refine ⟨Nat.le_of_not_lt hlt, ?_, ?_, ?_, ?_⟩
        · rw [ha]; simp
        · intro a b d hne; rw [ha]; simp [hne]
        · intro w hne; rw [hw w hne]
        · have q := transferOp_ok h
          exact q

/-- the calls a spender contract makes when it loops over `(validator, shares)` pairs -/
def multiFrom (sp f t : Nat) (items : List (Nat × Nat)) : List Op :=
  items.map (fun i => Op.transferFrom sp f t i.1 i.2)

/-- the calls at other validators leave a validator's record and its allowances alone -/
theorem multiFrom_frame {c : Cfg} (hg : good c = true) {sp f t v : Nat} : ∀ (items : List (Nat × Nat)) (s s' : State),
    AllOk c s (multiFrom sp f t items) s' → (∀ i, i ∈ items → i.1 ≠ v) →
    s'.vs v = s.vs v ∧ ∀ b d, s'.allow v b d = s.allow v b d := by
  intro items
  induction items with
  | nil => intro s s' h _; cases h; exact ⟨rfl, fun _ _ => rfl⟩
  | cons i is ih =>
    intro s s' h hne
    cases h with
    | cons he hr =>
      obtain ⟨_, _, ha, hw, _⟩ := transferFrom_exec hg he
      have hi : i.1 ≠ v := hne i (List.mem_cons_self ..)
      obtain ⟨r1, r2⟩ := ih _ _ hr (fun j hj => hne j (List.mem_cons_of_mem _ hj))
      refine ⟨by rw [r1, hw v (Ne.symm hi)], ?_⟩
      intro b d
      rw [r2, ha v b d (by intro hc; exact hi hc.1.symm)]

end FxVerif.Proofs.C11
