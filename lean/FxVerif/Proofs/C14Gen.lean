import FxVerif.Proofs.C14
/-! C14, round 4: the migrate module's own store (records + direction flags) is written by `setRecord` only — frame lemmas for
the triple, the pairing invariant `RecInv` of every history, and the genesis export / import round trip -/
namespace FxVerif.Proofs.C14
open FxVerif.Model.C14

/-- the migrate module's store: records and the two direction flags -/
def recT (s : State) : Store Addr (Bool × Addr) × List Addr × List Addr := (s.recs, s.dirFrom, s.dirTo)

theorem touchPre_recT {s s' : State} {d v rw} (h : touchPre s d v rw = some s') : recT s' = recT s := by
  unfold touchPre at h
  split at h
  · cases h; rfl
  · split at h
    · cases h
    · cases h; rfl

theorem unbond_recT {s s' : State} {d v amt rw} (h : unbond s d v amt rw = some s') : recT s' = recT s := by
  unfold unbond at h
  split at h
  · cases h
  · split at h
    · cases h
    · split at h
      · cases h
      · rename_i s1 h1
        cases h
        have := touchPre_recT h1
        split <;> simpa [touchPost, recT] using this

theorem addShares_recT {s s' : State} {d v amt rw} (h : addShares s d v amt rw = some s') : recT s' = recT s := by
  unfold addShares at h
  split at h
  · cases h
  · rename_i s1 h1
    cases h
    simpa [touchPost, recT] using touchPre_recT h1

theorem delegate_recT {s s' : State} {d v amt rw} (h : delegate s d v amt rw = some s') : recT s' = recT s := by
  unfold delegate at h
  split at h
  · cases h
  · split at h
    · cases h
    · rename_i s1 h1
      split at h
      · cases h
      · cases h
        simpa [touchPost, recT] using touchPre_recT h1

theorem undelegate_recT {s s' : State} {d v amt rw} (h : undelegate s d v amt rw = some s') : recT s' = recT s := by
  unfold undelegate at h
  split at h
  · cases h
  · simp only [] at h
    split at h
    · cases h
    · split at h
      · cases h
      · rename_i s1 h1
        split at h
        · cases h
        · cases h
          exact (unbond_recT h1 : recT s1 = recT s)

theorem redelegate_recT {s s' : State} {d a b amt r1 r2} (h : redelegate s d a b amt r1 r2 = some s') : recT s' = recT s := by
  unfold redelegate at h
  split at h
  · cases h
  · split at h
    · cases h
    · simp only [] at h
      split at h
      · cases h
      · split at h
        · cases h
        · rename_i s1 h1
          split at h
          · cases h
          · rename_i s2 h2
            cases h
            exact ((addShares_recT h2 : recT s2 = recT s1).trans (unbond_recT h1))

theorem withdraw_recT {s s' : State} {d v rw} (h : withdraw s d v rw = some s') : recT s' = recT s := by
  unfold withdraw at h
  split at h
  · cases h
  · split at h
    · cases h
    · rename_i s1 h1
      cases h
      simpa [touchPost, recT] using touchPre_recT h1

theorem submit_recT {s s' : State} {a dep} (h : submit s a dep = some s') : recT s' = recT s := by
  unfold submit at h
  split at h
  · cases h
  · cases h; rfl

theorem deposit_recT {s s' : State} {a id amt} (h : deposit s a id amt = some s') : recT s' = recT s := by
  unfold deposit at h
  split at h
  · cases h
  · split at h
    · cases h
    · split at h
      · cases h
      · cases h; rfl

theorem vote_recT {s s' : State} {a id} (h : vote s a id = some s') : recT s' = recT s := by
  unfold vote at h
  split at h
  · cases h
  · split at h
    · cases h
    · cases h; rfl

theorem completeUnbonding_recT (s : State) (d v) : recT (completeUnbonding s d v) = recT s := by
  unfold completeUnbonding
  split
  · rfl
  · simp only []
    split <;> rfl

theorem completeRedelegation_recT (s : State) (d a b) : recT (completeRedelegation s d a b) = recT s := by
  unfold completeRedelegation
  split
  · rfl
  · simp only []
    split <;> rfl

theorem stakingEnd_recT (s : State) : recT (stakingEnd s) = recT s := by
  unfold stakingEnd
  refine (foldl_keep (recT) _ (by intros; exact completeRedelegation_recT _ _ _ _) _ _).trans ?_
  exact foldl_keep (recT) _ (by intros; exact completeUnbonding_recT _ _ _) _ _

theorem refundDeposits_recT (s : State) (id) : recT (refundDeposits s id) = recT s := rfl

theorem govEnd_recT (s : State) : recT (govEnd s) = recT s := by
  unfold govEnd
  refine (foldl_keep (recT) _ (by intros; rfl) _ _).trans ?_
  exact foldl_keep (recT) _ (by intros; rfl) _ _

theorem endBlock_recT (s : State) (dt) : recT (endBlock s dt) = recT s := by
  unfold endBlock
  exact (govEnd_recT _).trans (stakingEnd_recT _)

/-- `stakingExecute` and `bankExecute` leave the migrate module's store alone -/
theorem stakingExecute_recT (c : Cfg) (s : State) (frm to : Addr) : recT (stakingExecute c s frm to) = recT s := by
  unfold stakingExecute
  refine (foldl_keep recT _ (fun s p => by
    unfold moveRed; exact (foldl_keep recT _ (by intros; rfl) _ _).trans (foldl_keep recT _ (by intros; rfl) _ _)) _ _).trans ?_
  refine (foldl_keep recT _ (fun s p => by
    unfold moveUbd; exact (foldl_keep recT _ (by intros; rfl) _ _).trans (foldl_keep recT _ (by intros; rfl) _ _)) _ _).trans ?_
  exact foldl_keep recT _ (by intros; rfl) _ _

/-! ### the pairing invariant of the migration records -/

/-- every record has its counterpart under the other address with the other flag, and the direction flags are exactly
the sources / the targets of the records -/
structure RecInv (s : State) : Prop where
  pair : ∀ a b fl, get s.recs a = some (fl, b) → get s.recs b = some (!fl, a)
  dirF : ∀ a, a ∈ s.dirFrom ↔ ∃ b, get s.recs a = some (true, b)
  dirT : ∀ a, a ∈ s.dirTo ↔ ∃ b, get s.recs a = some (false, b)

theorem RecInv.of_recT {s s' : State} (h : RecInv s) (e : recT s' = recT s) : RecInv s' := by
  have e1 : s'.recs = s.recs := congrArg (·.1) e
  have e2 : s'.dirFrom = s.dirFrom := congrArg (·.2.1) e
  have e3 : s'.dirTo = s.dirTo := congrArg (·.2.2) e
  exact ⟨by rw [e1]; exact h.pair, by rw [e1, e2]; exact h.dirF, by rw [e1, e3]; exact h.dirT⟩

theorem RecInv.ne {s : State} (h : RecInv s) {a b : Addr} {fl : Bool} (e : get s.recs a = some (fl, b)) : a ≠ b := by
  intro hab
  subst hab
  have := h.pair a a fl e
  rw [e] at this
  cases fl <;> simp at this

/-- writing the two records and the two flags of a fresh pair keeps the invariant -/
theorem RecInv.set {s : State} (h : RecInv s) (frm to : Addr) (hne : frm ≠ to) (hf : get s.recs frm = none)
    (ht : get s.recs to = none) {s' : State} (e1 : s'.recs = put (put s.recs frm (true, to)) to (false, frm))
    (e2 : s'.dirFrom = ins s.dirFrom frm) (e3 : s'.dirTo = ins s.dirTo to) : RecInv s' := by
  have hget : ∀ x, get s'.recs x = if x = to then some (false, frm) else if x = frm then some (true, to) else get s.recs x := by
    intro x
    rw [e1]
    by_cases h1 : x = to
    · subst h1; simp [get_put_eq]
    · rw [get_put_ne _ _ _ _ h1]
      by_cases h2 : x = frm
      · subst h2; simp [get_put_eq, h1]
      · rw [get_put_ne _ _ _ _ h2]; simp [h1, h2]
  refine ⟨?_, ?_, ?_⟩
  · intro a b fl hab
    rw [hget] at hab
    rw [hget]
    by_cases h1 : a = to
    · subst h1
      simp only [↓reduceIte] at hab
      cases hab
      simp [hne]
    · simp only [h1, ↓reduceIte] at hab
      by_cases h2 : a = frm
      · subst h2
        simp only [↓reduceIte] at hab
        cases hab
        simp
      · simp only [h2, ↓reduceIte] at hab
        have hb := h.pair a b fl hab
        have hb1 : b ≠ to := by intro e; subst e; rw [ht] at hb; cases hb
        have hb2 : b ≠ frm := by intro e; subst e; rw [hf] at hb; cases hb
        simp [hb1, hb2, hb]
  · intro a
    rw [e2, mem_ins, hget]
    by_cases h1 : a = to
    · subst h1
      simp only [↓reduceIte]
      constructor
      · rintro (e | hm)
        · exact absurd e.symm hne
        · obtain ⟨b, hb⟩ := (h.dirF a).mp hm; rw [ht] at hb; cases hb
      · rintro ⟨b, hb⟩; cases hb
    · simp only [h1, ↓reduceIte]
      by_cases h2 : a = frm
      · subst h2; simp
      · simp only [h2, ↓reduceIte, false_or]; exact h.dirF a
  · intro a
    rw [e3, mem_ins, hget]
    by_cases h1 : a = to
    · subst h1; simp
    · simp only [h1, ↓reduceIte, false_or]
      by_cases h2 : a = frm
      · subst h2
        simp only [↓reduceIte]
        constructor
        · intro hm; obtain ⟨b, hb⟩ := (h.dirT a).mp hm; rw [hf] at hb; cases hb
        · rintro ⟨b, hb⟩; cases hb
      · simp only [h2, ↓reduceIte]; exact h.dirT a

/-! ### genesis import as a fold, and what it stores -/

/-- what one imported record stores under `x` -/
def recOf (r : Addr × Addr) (x : Addr) : Option (Bool × Addr) :=
  if x = r.2 then some (false, r.1) else if x = r.1 then some (true, r.2) else none

/-- what the import of a record list stores under `x`: the last record that mentions `x` wins -/
def lookupE : List (Addr × Addr) → Addr → Option (Bool × Addr)
  | [], _ => none
  | r :: E, x => match lookupE E x with
                 | some v => some v
                 | none => recOf r x

def impRecs (m : Store Addr (Bool × Addr)) (E : List (Addr × Addr)) : Store Addr (Bool × Addr) :=
  E.foldl (fun m r => put (put m r.1 (true, r.2)) r.2 (false, r.1)) m

theorem impRecs_get (E : List (Addr × Addr)) (m : Store Addr (Bool × Addr)) (x : Addr) :
    get (impRecs m E) x = match lookupE E x with
                          | some v => some v
                          | none => get m x := by
  induction E generalizing m with
  | nil => rfl
  | cons r E ih =>
    show get (impRecs (put (put m r.1 (true, r.2)) r.2 (false, r.1)) E) x = _
    rw [ih]
    simp only [lookupE]
    cases lookupE E x with
    | some v => rfl
    | none =>
      simp only [recOf]
      by_cases h1 : x = r.2
      · subst h1; simp [get_put_eq]
      · rw [get_put_ne _ _ _ _ h1]
        by_cases h2 : x = r.1
        · subst h2; simp [get_put_eq, h1]
        · rw [get_put_ne _ _ _ _ h2]; simp [h1, h2]

theorem lookupE_some (E : List (Addr × Addr)) (x : Addr) (v : Bool × Addr)
    (hall : ∀ r ∈ E, recOf r x = none ∨ recOf r x = some v) (hex : ∃ r ∈ E, recOf r x = some v) : lookupE E x = some v := by
  induction E with
  | nil => obtain ⟨r, hr, _⟩ := hex; cases hr
  | cons r E ih =>
    simp only [lookupE]
    cases hl : lookupE E x with
    | some w =>
      by_cases hE : ∃ q ∈ E, recOf q x = some v
      · rw [ih (fun q hq => hall q (List.mem_cons_of_mem _ hq)) hE] at hl
        cases hl; rfl
      · -- no record of E stores v: then none stores anything, so the look-up of E is none
        exfalso
        have hnone : ∀ q ∈ E, recOf q x = none := fun q hq =>
          (hall q (List.mem_cons_of_mem _ hq)).resolve_right (fun e => hE ⟨q, hq, e⟩)
        have : lookupE E x = none := by
          clear ih hl hE hex hall
          induction E with
          | nil => rfl
          | cons q E ih2 =>
            simp only [lookupE]
            rw [ih2 (fun z hz => hnone z (List.mem_cons_of_mem _ hz)), hnone q (List.mem_cons_self ..)]
        rw [this] at hl; cases hl
    | none =>
      show recOf r x = some v
      obtain ⟨q, hq, hqv⟩ := hex
      rcases List.mem_cons.mp hq with rfl | hq'
      · exact hqv
      · exfalso
        have : lookupE E x = some v := ih (fun z hz => hall z (List.mem_cons_of_mem _ hz)) ⟨q, hq', hqv⟩
        rw [this] at hl; cases hl

theorem lookupE_none (E : List (Addr × Addr)) (x : Addr) (hall : ∀ r ∈ E, recOf r x = none) : lookupE E x = none := by
  induction E with
  | nil => rfl
  | cons q E ih =>
    simp only [lookupE]
    rw [ih (fun z hz => hall z (List.mem_cons_of_mem _ hz)), hall q (List.mem_cons_self ..)]

theorem mem_foldl_ins (l : List Addr) (acc : List Addr) (x : Addr) : x ∈ l.foldl ins acc ↔ x ∈ l ∨ x ∈ acc := by
  induction l generalizing acc with
  | nil => simp
  | cons a l ih =>
    simp only [List.foldl_cons, ih, mem_ins, List.mem_cons]
    constructor
    · rintro (h | h | h)
      · exact Or.inl (Or.inr h)
      · exact Or.inl (Or.inl h)
      · exact Or.inr h
    · rintro ((h | h) | h)
      · exact Or.inr (Or.inl h)
      · exact Or.inl h
      · exact Or.inr (Or.inr h)

/-- the records exported from a paired store, imported into an empty store, give back every record -/
theorem import_export_get {s : State} (h : RecInv s) (E : List (Addr × Addr))
    (hE : ∀ r, r ∈ E ↔ get s.recs r.1 = some (true, r.2)) (x : Addr) : get (impRecs [] E) x = get s.recs x := by
  rw [impRecs_get]
  cases hx : get s.recs x with
  | none =>
    rw [lookupE_none]
    · rfl
    · intro r hr
      have hr' := (hE r).mp hr
      simp only [recOf]
      by_cases h1 : x = r.2
      · have := h.pair _ _ _ hr'
        rw [← h1, hx] at this; cases this
      · by_cases h2 : x = r.1
        · rw [← h2, hx] at hr'; cases hr'
        · simp [h1, h2]
  | some v =>
    obtain ⟨fl, b⟩ := v
    have hne := h.ne hx
    rw [lookupE_some E x (fl, b)]
    · intro r hr
      have hr' := (hE r).mp hr
      simp only [recOf]
      by_cases h1 : x = r.2
      · have hp := h.pair _ _ _ hr'
        rw [← h1, hx] at hp
        right
        simp only [h1, ↓reduceIte]
        cases hp; rfl
      · by_cases h2 : x = r.1
        · rw [← h2, hx] at hr'
          right
          cases hr'
          have h3 : ¬ r.1 = r.2 := fun e => h1 (h2.trans e)
          simp [h2, h3]
        · left; simp [h1, h2]
    · cases fl with
      | true =>
        refine ⟨(x, b), (hE (x, b)).mpr hx, ?_⟩
        simp [recOf, hne]
      | false =>
        have hp := h.pair _ _ _ hx
        refine ⟨(b, x), (hE (b, x)).mpr hp, ?_⟩
        simp [recOf]

end FxVerif.Proofs.C14
