import FxVerif.Proofs.C13Fits
/-!
The power-change cap of `UpdateProposalOracles`, over the model's `govUpdate` — whose refusing `if` (`capRefuses`) is assembled
from the REGENERATED parts of the guard (`cap…` of `Gen/C13.lean`): what the threshold is a fraction of, which records enter
the two sums, how the removed power is compared with the threshold, and that the refusal precedes every write.
-/
namespace FxVerif.Proofs.C13
open FxVerif.Model.C13 FxVerif.Gen.C13

/-- the cap guard of the code has the expected parts -/
def CapCodeOk : Prop :=
  powerChangeCap = 30 ∧ capDenominator = 100 ∧ capTotalOnlineOnly = true ∧ capDeleteOnlineOnly = true ∧
  capDeleteOldListOnly = true ∧ capAgainstLoopTotal = true ∧ capZeroGuard = true ∧ capCmp = .ge ∧ capBeforeWrites = true

/-- the records a governance update takes off the list: on the old list, not on the new one -/
def dropped (s : State) (list : List Nat) (o : Oracle) : Bool := !list.contains o.addr && s.proposal.contains o.addr

/-- the ONLINE power a governance update takes away -/
def removedPower (s : State) (list : List Nat) : Nat :=
  ((((Store.vals s.oracles).filter (dropped s list)).filter (·.online)).map (power s.p)).sum

theorem capCounted_true : capCounted true = fun o => o.online := by funext o; simp [capCounted]

theorem capTotal_eq (hc : CapCodeOk) (s : State) : capTotal s = totalOnlinePower s := by
  obtain ⟨_, _, h3, _, _, h6, _⟩ := hc
  simp [capTotal, h6, h3, capCounted_true, totalOnlinePower, onlineOracles]

theorem capRemoved_eq (hc : CapCodeOk) (s : State) (list : List Nat) : capRemoved s list = removedPower s list := by
  obtain ⟨_, _, _, h4, h5, _⟩ := hc
  simp [capRemoved, h4, h5, capCounted_true, removedPower, dropped]

theorem capRefuses_iff (hc : CapCodeOk) (s : State) (list : List Nat) :
    capRefuses s list = true ↔ (0 < removedPower s list ∧ 30 * totalOnlinePower s / 100 ≤ removedPower s list) := by
  have e1 := capTotal_eq hc s
  have e2 := capRemoved_eq hc s list
  obtain ⟨h1, h2, _, _, _, _, h7, h8, h9⟩ := hc
  simp [capRefuses, capThreshold, e1, e2, h1, h2, h7, h8, h9, evalCmp]

/-- the result of `govUpdate`, case by case -/
theorem govUpdate_cases (s : State) (list : List Nat) :
    ((govUpdate s list).1 = s ∧ (govUpdate s list).2 ≠ .ok ∧
      (list.length > maxOracleSize ∨ capRefuses s list = true ∨ (govUpdate s list).2 = .err "staking")) ∨
    ((govUpdate s list).2 = .ok ∧ ¬ list.length > maxOracleSize ∧ capRefuses s list = false ∧
      ∃ s2 : State, s2.oracles = s.oracles ∧ s2.p = s.p ∧
        (govUpdate s list).1.oracles = Store.mapVals (fun o => if dropped s list o then { o with online := false } else o) s2.oracles ∧
        (govUpdate s list).1.p = s2.p ∧ (govUpdate s list).1.proposal = s2.proposal) := by
  unfold govUpdate
  split
  · rename_i h; exact .inl ⟨rfl, by simp, .inl h⟩
  · rename_i hlen
    simp only
    split
    · rename_i h; exact .inl ⟨rfl, by simp, .inr (.inl h)⟩
    · rename_i hcap
      split
      · exact .inl ⟨rfl, by simp, .inr (.inr rfl)⟩
      · rename_i s2 hfold
        have hf := undelegateFold_frame _ _ _ hfold
        refine .inr ⟨rfl, hlen, by simpa using hcap, s2, hf.1, hf.2.2.2, ?_, rfl, rfl⟩
        rfl

/-- taking some records offline: the online power that remains + the online power of the ones taken = the online power before -/
theorem online_split (p : Params) (d : Oracle → Bool) : ∀ l : List Oracle,
    (((l.map (fun o => if d o then { o with online := false } else o)).filter (·.online)).map (power p)).sum +
      (((l.filter d).filter (·.online)).map (power p)).sum = ((l.filter (·.online)).map (power p)).sum := by
  intro l
  induction l with
  | nil => simp
  | cons o t ih =>
    by_cases hd : d o = true <;> by_cases ho : o.online = true
    · simp only [List.map_cons, hd, if_true, List.filter_cons, ho, List.sum_cons, power] at ih ⊢
      simp only [Bool.false_eq_true, if_false]
      omega
    · simp only [List.map_cons, hd, if_true, List.filter_cons, ho, power] at ih ⊢
      simp only [Bool.false_eq_true, if_false]
      exact ih
    · simp only [List.map_cons, hd, List.filter_cons, ho, if_true, List.sum_cons, power, Bool.false_eq_true, if_false] at ih ⊢
      omega
    · simp only [List.map_cons, hd, List.filter_cons, ho, power, Bool.false_eq_true, if_false] at ih ⊢
      exact ih

end FxVerif.Proofs.C13
