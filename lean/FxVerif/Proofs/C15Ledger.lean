import FxVerif.Model.C15
import FxVerif.Proofs.C15
/-!
# C15 — the deposit ledger over whole histories (ghost components `paid` and `settled`)

Everything ever paid in for a proposal is, at every moment, either still held as a deposit record of that proposal or has
been settled (refunded, burnt, or refunded-and-charged by a cancellation) — exactly once: the sums agree per proposal.
-/
namespace FxVerif.Proofs.C15
open FxVerif.Gen.C15 FxVerif.Model.C15

def sumSettled : List Settle → Nat
  | [] => 0
  | x :: r => x.amt + sumSettled r

def settledOf (xs : List Settle) (pid : Nat) : List Settle := xs.filter (fun x => x.pid == pid)

/-- per proposal: paid in = still held + settled -/
def LL (paid deps : List Dep) (settled : List Settle) : Prop :=
  ∀ pid, sumAmt (depsOf paid pid) = sumAmt (depsOf deps pid) + sumSettled (settledOf settled pid)

def Ledger (s : State) : Prop := LL s.paid s.deps s.settled

theorem sumSettled_append (a b : List Settle) : sumSettled (a ++ b) = sumSettled a + sumSettled b := by
  induction a with
  | nil => simp [sumSettled]
  | cons x r ih => simp only [List.cons_append, sumSettled, ih]; omega

theorem depsOf_addDep (ds : List Dep) (pid who amt pid' : Nat) :
    sumAmt (depsOf (addDep ds pid who amt) pid') = sumAmt (depsOf ds pid') + (if pid = pid' then amt else 0) := by
  induction ds with
  | nil => by_cases h : pid = pid' <;> simp [addDep, depsOf, sumAmt, h]
  | cons d r ih =>
    simp only [addDep]
    split
    · rename_i hc
      simp only [Bool.and_eq_true, beq_iff_eq] at hc
      by_cases h : pid = pid'
      · have hd : (d.pid == pid') = true := by simp [hc.1, h]
        simp only [depsOf, List.filter_cons, hd, if_true, sumAmt, h]
        omega
      · have hd : (d.pid == pid') = false := by simp [hc.1, h]
        simp [depsOf, hd, h]
    · unfold depsOf at ih ⊢
      simp only [List.filter_cons]
      split
      · simp only [sumAmt]; rw [ih]; omega
      · exact ih

theorem LL_deposit {paid deps : List Dep} {settled : List Settle} (h : LL paid deps settled) (pid who amt : Nat) :
    LL (paid ++ [⟨pid, who, amt⟩]) (addDep deps pid who amt) settled := by
  intro pid'
  have := h pid'
  rw [depsOf_addDep]
  simp only [depsOf, List.filter_append, sumAmt_append] at this ⊢
  by_cases e : pid = pid'
  · simp [e, sumAmt]; omega
  · simp [e, sumAmt]; omega

theorem depsOf_depsNot (ds : List Dep) (pid pid' : Nat) :
    depsOf (depsNot ds pid) pid' = if pid = pid' then [] else depsOf ds pid' := by
  by_cases e : pid = pid'
  · subst e
    simp only [if_true, depsOf, depsNot, List.filter_filter]
    rw [List.filter_eq_nil_iff]
    intro d _; simp
  · simp only [e, if_false, depsOf, depsNot, List.filter_filter]
    apply List.filter_congr
    intro d _
    by_cases hd : d.pid = pid'
    · have : ¬ d.pid = pid := fun h => e (h.symm.trans hd)
      have e' : ¬ pid' = pid := fun h => e h.symm
      simp [hd, e']
    · simp [hd]

theorem settledOf_map (ds : List Dep) (k : Dep → Kind) (pid pid' : Nat) :
    sumSettled (settledOf ((depsOf ds pid).map (fun d => (⟨d.pid, d.who, d.amt, k d⟩ : Settle))) pid') =
      if pid = pid' then sumAmt (depsOf ds pid) else 0 := by
  unfold depsOf settledOf
  induction ds with
  | nil => by_cases e : pid = pid' <;> simp [sumSettled, sumAmt, e]
  | cons d r ih =>
    simp only [List.filter_cons]
    by_cases hd : d.pid = pid
    · simp only [hd, beq_self_eq_true, if_true, List.map_cons, List.filter_cons]
      by_cases e : pid = pid'
      · simp only [e, beq_self_eq_true, if_true, sumSettled, sumAmt] at ih ⊢
        rw [ih]
      · have : (pid == pid') = false := by simpa using e
        simp only [this, Bool.false_eq_true, if_false, e] at ih ⊢
        exact ih
    · have : (d.pid == pid) = false := by simpa using hd
      simp only [this, Bool.false_eq_true, if_false]
      exact ih

theorem LL_settle {paid deps : List Dep} {settled : List Settle} (h : LL paid deps settled) (pid : Nat) (k : Dep → Kind) :
    LL paid (depsNot deps pid) (settled ++ (depsOf deps pid).map (fun d => (⟨d.pid, d.who, d.amt, k d⟩ : Settle))) := by
  intro pid'
  have := h pid'
  rw [depsOf_depsNot]
  simp only [settledOf, List.filter_append, sumSettled_append]
  have hm := settledOf_map deps k pid pid'
  simp only [settledOf] at hm
  rw [hm]
  by_cases e : pid = pid'
  · subst e; simp only [if_true, sumAmt]; simp only [settledOf] at this; omega
  · simp only [e, if_false]; simp only [settledOf] at this; omega

theorem ledger_of_eq {s s' : State} (h : Ledger s) (h1 : s'.paid = s.paid) (h2 : s'.deps = s.deps) (h3 : s'.settled = s.settled) :
    Ledger s' := by
  unfold Ledger at *; rw [h1, h2, h3]; exact h

theorem refundDeposits_ledger {s s' : State} {pid : Nat} (h : Ledger s) (hr : refundDeposits pid s = .ok s') : Ledger s' := by
  unfold refundDeposits at hr
  split at hr
  · cases hr
  · cases hr
    exact LL_settle h pid (fun _ => .refund)

theorem burnDeposits_ledger {s s' : State} {pid : Nat} (h : Ledger s) (hr : burnDeposits pid s = .ok s') : Ledger s' := by
  unfold burnDeposits at hr
  simp only at hr
  split at hr
  · cases hr
  · cases hr
    exact LL_settle h pid (fun _ => .burn)

theorem depositEffect_ledger {s : State} (p : Proposal) (who amt : Nat) (h : Ledger s) : Ledger (depositEffect s p who amt) := by
  unfold depositEffect
  simp only
  split
  · exact LL_deposit h p.id who amt
  · exact LL_deposit h p.id who amt

theorem addDeposit_ledger {s s' : State} {pid who amt : Nat} (h : Ledger s) (hd : addDeposit s pid who amt = .ok s') : Ledger s' := by
  obtain ⟨p, hp, _, rfl⟩ := addDeposit_ok hd
  exact depositEffect_ledger p who amt h

theorem execMsg_ghost {m : Msg} {s s' : State} (h : execMsg m s = some s') : s'.paid = s.paid ∧ s'.deps = s.deps ∧ s'.settled = s.settled := by
  unfold execMsg at h
  split at h
  · cases h
  · split at h
    · cases h; simp
    · split at h
      · cases h; simp
      · cases h
    · cases h; simp
    · split at h
      · cases h; simp
      · split at h
        · cases h; simp
        · cases h
    · simp [addDepositGov, show depositGuardsModule = true from rfl] at h
    · simp [submitGov, show depositGuardsModule = true from rfl] at h
    · split at h
      · cases h
      · cases h; simp

theorem execMsgs_ghost : ∀ (ms : List Msg) (s s' : State), execMsgs ms s = some s' →
    s'.paid = s.paid ∧ s'.deps = s.deps ∧ s'.settled = s.settled := by
  intro ms
  induction ms with
  | nil => intro s s' h; simp [execMsgs] at h; subst h; simp
  | cons m r ih =>
    intro s s' h
    simp only [execMsgs] at h
    split at h
    · rename_i s1 h1
      have f1 := execMsg_ghost h1
      have f2 := ih _ _ h
      exact ⟨f2.1.trans f1.1, f2.2.1.trans f1.2.1, f2.2.2.trans f1.2.2⟩
    · cases h

theorem execPrefix_ghost : ∀ (ms : List Msg) (s : State),
    (execPrefix ms s).paid = s.paid ∧ (execPrefix ms s).deps = s.deps ∧ (execPrefix ms s).settled = s.settled := by
  intro ms
  induction ms with
  | nil => intro s; exact ⟨rfl, rfl, rfl⟩
  | cons m r ih =>
    intro s
    simp only [execPrefix]
    split
    · rename_i s1 h1
      have f1 := execMsg_ghost h1
      have f2 := ih s1
      exact ⟨f2.1.trans f1.1, f2.2.1.trans f1.2.1, f2.2.2.trans f1.2.2⟩
    · exact ⟨rfl, rfl, rfl⟩

theorem runProposalMsgs_ghost (hc : execInCacheCtx = true) (ms : List Msg) (s : State) :
    (runProposalMsgs ms s).1.paid = s.paid ∧ (runProposalMsgs ms s).1.deps = s.deps ∧ (runProposalMsgs ms s).1.settled = s.settled := by
  unfold runProposalMsgs
  simp only [hc, if_true]
  split
  · split
    · rename_i s' h; exact execMsgs_ghost _ _ _ h
    · exact ⟨rfl, rfl, rfl⟩
  · exact execPrefix_ghost ms s

theorem dropInactive_ledger {s s' : State} {pid : Nat} (hsh : inactiveSettleShapeOk = true) (h : Ledger s)
    (hd : dropInactive pid s = .ok s') : Ledger s' := by
  rw [dropInactive_eq] at hd
  unfold dropInactiveSpec at hd
  split at hd
  · cases hd
  · simp only [hsh, if_true] at hd
    split at hd
    · refine refundDeposits_ledger ?_ hd
      exact ledger_of_eq h rfl rfl rfl
    · refine burnDeposits_ledger ?_ hd
      exact ledger_of_eq h rfl rfl rfl

theorem finishTally_ledger {s s' : State} {pid : Nat} {p : Proposal} {passes burn : Bool} {res : Nat × Nat × Nat × Nat}
    (h2 : settleShapeOk = true) (h3 : execInCacheCtx = true) (h : Ledger s)
    (hf : finishTally passes burn res p pid s = .ok s') : Ledger s' := by
  unfold finishTally at hf
  simp only [refundRun_eq, burnRun_eq] at hf
  simp only [h2, Bool.not_true, Bool.false_and, Bool.false_eq_true, if_false] at hf
  simp only [if_true] at hf
  have settle : ∀ s1 : State,
      (if (!(p.expedited && !passes)) = true then (if burn = true then burnDeposits pid s else refundDeposits pid s)
        else Except.ok s) = .ok s1 → Ledger s1 := by
    intro s1 hx
    split at hx
    · split at hx
      · exact burnDeposits_ledger h hx
      · exact refundDeposits_ledger h hx
    · cases hx; exact h
  split at hf
  · cases hf
  · rename_i s1 hx
    have l1 := settle s1 hx
    split at hf
    · generalize hr' : runProposalMsgs p.msgs { s1 with active := removeQ (p.votingEnd, pid) s1.active } = rr at hf
      obtain ⟨s3, ok⟩ := rr
      simp only at hf
      cases hf
      have e3' : s3 = (runProposalMsgs p.msgs { s1 with active := removeQ (p.votingEnd, pid) s1.active }).1 := by rw [hr']
      have fr := runProposalMsgs_ghost h3 p.msgs { s1 with active := removeQ (p.votingEnd, pid) s1.active }
      rw [← e3'] at fr
      exact ledger_of_eq l1 fr.1 fr.2.1 fr.2.2
    · split at hf
      · cases hf; exact ledger_of_eq l1 rfl rfl rfl
      · cases hf; exact ledger_of_eq l1 rfl rfl rfl

theorem tallyOne_ledger {s s' : State} {stk : Staking} {pid : Nat} (h2 : settleShapeOk = true) (h3 : execInCacheCtx = true)
    (h : Ledger s) (ht : tallyOne stk pid s = .ok s') : Ledger s' := by
  unfold tallyOne at ht
  split at ht
  · cases ht
  · split at ht
    · cases ht
    · split at ht
      · cases ht
      · refine finishTally_ledger h2 h3 ?_ ht
        exact ledger_of_eq h rfl rfl rfl

theorem runAll_keep {f : Nat → State → Except Err State} {P : State → Prop} (hf : ∀ id s s', P s → f id s = .ok s' → P s') :
    ∀ (ids : List Nat) (s s' : State), P s → runAll f ids s = .ok s' → P s' := by
  intro ids
  induction ids with
  | nil => intro s s' hp h; simp [runAll] at h; subst h; exact hp
  | cons id r ih =>
    intro s s' hp h
    simp only [runAll] at h
    split at h
    · rename_i s1 h1; exact ih s1 s' (hf id s s1 hp h1) h
    · cases h

theorem endBlock_ledger {s s' : State} {stk : Staking} (h1 : inactiveSettleShapeOk = true) (h2 : settleShapeOk = true)
    (h3 : execInCacheCtx = true) (h : Ledger s) (he : endBlock stk s = .ok s') : Ledger s' := by
  unfold endBlock at he
  split at he
  · cases he
  · rename_i s1 e1
    have l1 := runAll_keep (P := Ledger) (fun id s s' hp hd => dropInactive_ledger h1 hp hd) _ s s1 h e1
    exact runAll_keep (P := Ledger) (fun id s s' hp hd => tallyOne_ledger h2 h3 hp hd) _ s1 s' l1 he

theorem cancel_ledger {s s' : State} {pid : Nat} {who : Addr} (h : Ledger s) (hc : cancel s pid who = .ok s') : Ledger s' := by
  unfold cancel at hc
  split at hc
  · cases hc
  · split at hc
    · cases hc
    · split at hc
      · cases hc
      · split at hc
        · cases hc
        · split at hc
          · cases hc
          · split at hc
            · cases hc
            · cases hc
              exact LL_settle h pid (fun d => .cancel (d.amt - (d.amt - mulTrunc d.amt s.params.cancelRatio)))

theorem step_ledger (h1 : inactiveSettleShapeOk = true) (h2 : settleShapeOk = true) (h3 : execInCacheCtx = true)
    {s : State} (op : Op) (h : Ledger s) : Ledger (step s op).1 := by
  cases op with
  | mint who amt => exact ledger_of_eq h rfl rfl rfl
  | updateParams p => simp only [step]; split <;> exact ledger_of_eq h rfl rfl rfl
  | updateCustom url c =>
    simp only [step]
    split
    · exact ledger_of_eq h rfl rfl rfl
    · split <;> exact ledger_of_eq h rfl rfl rfl
  | submit who msgs initial exp =>
    simp only [step, Model.C15.ofExcept]
    split
    · rename_i s' hs
      rw [submit_eq] at hs
      unfold submitSpec at hs
      split at hs
      · cases hs
      · split at hs
        · cases hs
        · split at hs
          · cases hs
          · simp only at hs
            refine addDeposit_ledger ?_ hs
            exact ledger_of_eq h rfl rfl rfl
    · exact h
  | deposit pid who amt =>
    simp only [step, Model.C15.ofExcept]
    split
    · rename_i s' hs
      unfold deposit at hs
      split at hs
      · cases hs
      · exact addDeposit_ledger h hs
    · exact h
  | depositX pid who fx other =>
    simp only [step, Model.C15.ofExcept]
    split
    · rename_i s' hs
      have hs := (depositX_ok hs).2
      unfold deposit at hs
      split at hs
      · cases hs
      · exact addDeposit_ledger h hs
    · exact h
  | cancel pid who =>
    simp only [step, Model.C15.ofExcept, cancelRun_eq]
    split
    · rename_i s' hs; exact cancel_ledger h hs
    · exact h
  | vote pid voter opts =>
    simp only [step, Model.C15.ofExcept]
    split
    · rename_i s' hs
      rw [vote_eq] at hs
      unfold voteSpec at hs
      split at hs
      · cases hs
      · split at hs
        · cases hs
        · split at hs
          · cases hs; exact ledger_of_eq h rfl rfl rfl
          · cases hs
    · exact h
  | spend who amt =>
    simp only [step]
    split
    · exact h
    · exact ledger_of_eq h rfl rfl rfl
  | endBlock dt stk =>
    simp only [step]
    split
    · rename_i s' hs
      exact ledger_of_eq (endBlock_ledger h1 h2 h3 h hs) rfl rfl rfl
    · exact h

theorem run_ledger (h1 : inactiveSettleShapeOk = true) (h2 : settleShapeOk = true) (h3 : execInCacheCtx = true) :
    ∀ (ops : List Op) (s : State), Ledger s → Ledger (run s ops) := by
  intro ops
  induction ops with
  | nil => intro s h; exact h
  | cons o r ih => intro s h; exact ih _ (step_ledger h1 h2 h3 o h)

theorem init_ledger : Ledger init := by intro pid; rfl

end FxVerif.Proofs.C15
