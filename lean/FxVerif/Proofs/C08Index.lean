import FxVerif.Model.C08U
/-! helper lemmas for C08: association-list stores, the index invariant `IdxInv` and its preservation by every
operation that writes the erc20 store (registration, toggle, alias update, removal of a dead pair) -/
namespace FxVerif.Proofs.C08
open FxVerif.Model.Ledger FxVerif.Model.Flows FxVerif.Model.C08

/-! ### association lists -/

theorem lookup_setKV_same {α β : Type} [DecidableEq α] (k : α) (v : β) (l : List (α × β)) :
    lookup k (setKV k v l) = some v := by
  induction l with
  | nil => simp [setKV, lookup]
  | cons p ps ih =>
    obtain ⟨k', v'⟩ := p
    by_cases h : k' = k
    · simp [setKV, lookup, h]
    · simp [setKV, lookup, h, ih]

theorem lookup_setKV_ne {α β : Type} [DecidableEq α] (k k' : α) (v : β) (l : List (α × β)) (h : k' ≠ k) :
    lookup k' (setKV k v l) = lookup k' l := by
  induction l with
  | nil => simp [setKV, lookup, Ne.symm h]
  | cons p ps ih =>
    obtain ⟨k'', v''⟩ := p
    by_cases h2 : k'' = k
    · subst h2; simp [setKV, lookup, Ne.symm h]
    · by_cases h3 : k'' = k'
      · subst h3; simp [setKV, lookup, h]
      · simp [setKV, lookup, h2, h3, ih]

theorem lookup_delKV_same {α β : Type} [DecidableEq α] (k : α) (l : List (α × β)) :
    lookup k (delKV k l) = none := by
  induction l with
  | nil => simp [delKV, lookup]
  | cons p ps ih =>
    obtain ⟨k', v'⟩ := p
    by_cases h : k' = k
    · simpa [delKV, List.filter, h] using ih
    · simp only [delKV, List.filter, ne_eq, h, not_false_eq_true, decide_true, lookup, ↓reduceIte]
      simpa [delKV] using ih

theorem lookup_delKV_ne {α β : Type} [DecidableEq α] (k k' : α) (l : List (α × β)) (h : k' ≠ k) :
    lookup k' (delKV k l) = lookup k' l := by
  induction l with
  | nil => simp [delKV, lookup]
  | cons p ps ih =>
    obtain ⟨k'', v''⟩ := p
    by_cases h2 : k'' = k
    · subst h2
      have : lookup k' (delKV k'' ps) = lookup k' ps := ih
      simpa [delKV, List.filter, lookup, Ne.symm h] using this
    · have : lookup k' (delKV k ps) = lookup k' ps := ih
      by_cases h3 : k'' = k'
      · subst h3; simp [delKV, List.filter, lookup, h]
      · simpa [delKV, List.filter, lookup, h2, h3] using this

theorem lookup_foldl_set (d : Nat) (aliases : List Nat) (l : List (Nat × Nat)) (a : Nat) :
    lookup a (aliases.foldl (fun acc x => setKV x d acc) l) = if a ∈ aliases then some d else lookup a l := by
  induction aliases generalizing l with
  | nil => simp
  | cons x xs ih =>
    simp only [List.foldl_cons, ih, List.mem_cons]
    by_cases hx : a ∈ xs
    · simp [hx]
    · by_cases hax : a = x
      · subst hax; simp [hx, lookup_setKV_same]
      · simp [hx, hax, lookup_setKV_ne _ _ _ _ hax]

theorem lookup_foldl_del (aliases : List Nat) (l : List (Nat × Nat)) (a : Nat) :
    lookup a (aliases.foldl (fun acc x => delKV x acc) l) = if a ∈ aliases then none else lookup a l := by
  induction aliases generalizing l with
  | nil => simp
  | cons x xs ih =>
    simp only [List.foldl_cons, ih, List.mem_cons]
    by_cases hx : a ∈ xs
    · simp [hx]
    · by_cases hax : a = x
      · subst hax; simp [hx, lookup_delKV_same]
      · simp [hx, hax, lookup_delKV_ne _ _ _ hax]

/-! ### the index invariant -/

/-- **I_index**: the pair records, the denom index, the contract index, the alias index and the bank metadata describe
the same set of pairs; a denomination is never both a registered base denomination and an alias -/
structure IdxInv (i : Idx) : Prop where
  pairs_ok : ∀ id p, lookup id i.pairs = some p →
    id = (p.denom, p.contract) ∧ lookup p.denom i.byDenom = some id ∧ lookup p.contract i.byErc = some id
  byDenom_ok : ∀ d id, lookup d i.byDenom = some id → ∃ p, lookup id i.pairs = some p ∧ p.denom = d
  byErc_ok : ∀ ct id, lookup ct i.byErc = some id → ∃ p, lookup id i.pairs = some p ∧ p.contract = ct
  alias_ok : ∀ a d, lookup a i.aliasIdx = some d →
    (lookup d i.byDenom).isSome ∧ ∃ as, lookup d i.md = some as ∧ a ∈ as
  md_ok : ∀ d as, (lookup d i.byDenom).isSome → lookup d i.md = some as → ∀ a ∈ as, lookup a i.aliasIdx = some d
  disj : ∀ a d, lookup a i.aliasIdx = some d → lookup a i.byDenom = none

theorem aliasesOk_iff (i : Idx) (d : Nat) (aliases : List Nat) :
    aliasesOk i d aliases = true ↔ ∀ a ∈ aliases, a ≠ d ∧ lookup a i.byDenom = none ∧ lookup a i.aliasIdx = none := by
  simp only [aliasesOk, List.all_eq_true, Bool.and_eq_true, bne_iff_ne, ne_eq, Option.isNone_iff_eq_none]
  constructor
  · intro h a ha; exact ⟨(h a ha).1.1, (h a ha).1.2, (h a ha).2⟩
  · intro h a ha; exact ⟨⟨(h a ha).1, (h a ha).2.1⟩, (h a ha).2.2⟩

/-- the state change common to both registrations, given what their guards established -/
theorem inv_register (i : Idx) (hi : IdxInv i) (d ct : Nat) (aliases : List Nat) (ext : Bool) (md' : List (Nat × List Nat))
    (hd : lookup d i.byDenom = none) (hda : lookup d i.aliasIdx = none)
    (hal : ∀ a ∈ aliases, a ≠ d ∧ lookup a i.byDenom = none ∧ lookup a i.aliasIdx = none)
    (hct : lookup ct i.byErc = none)
    (hmd : lookup d md' = some aliases) (hmd' : ∀ d', d' ≠ d → lookup d' md' = lookup d' i.md) :
    IdxInv (addPair { (setAliases i d aliases) with md := md' } ⟨d, ct, true, ext⟩) := by
  have hnone : lookup (d, ct) i.pairs = none := by
    cases h : lookup (d, ct) i.pairs with
    | none => rfl
    | some p =>
      obtain ⟨hid, hden, _⟩ := hi.pairs_ok _ _ h
      have : p.denom = d := by have := congrArg Prod.fst hid; simpa using this.symm
      rw [this, hd] at hden; cases hden
  constructor
  · -- pairs_ok
    intro id p hp
    simp only [addPair, setAliases] at hp ⊢
    by_cases hid : id = (d, ct)
    · subst hid
      rw [lookup_setKV_same] at hp; cases hp
      exact ⟨rfl, lookup_setKV_same _ _ _, lookup_setKV_same _ _ _⟩
    · rw [lookup_setKV_ne _ _ _ _ hid] at hp
      obtain ⟨h1, h2, h3⟩ := hi.pairs_ok _ _ hp
      have hne1 : p.denom ≠ d := by intro e; rw [e, hd] at h2; cases h2
      have hne2 : p.contract ≠ ct := by intro e; rw [e, hct] at h3; cases h3
      exact ⟨h1, by rw [lookup_setKV_ne _ _ _ _ hne1]; exact h2, by rw [lookup_setKV_ne _ _ _ _ hne2]; exact h3⟩
  · -- byDenom_ok
    intro d' id hl
    simp only [addPair, setAliases] at hl ⊢
    by_cases hdd : d' = d
    · subst hdd
      rw [lookup_setKV_same] at hl; cases hl
      exact ⟨_, lookup_setKV_same _ _ _, rfl⟩
    · rw [lookup_setKV_ne _ _ _ _ hdd] at hl
      obtain ⟨p, hp, hpd⟩ := hi.byDenom_ok _ _ hl
      have : id ≠ (d, ct) := by intro e; rw [e, hnone] at hp; cases hp
      exact ⟨p, by rw [lookup_setKV_ne _ _ _ _ this]; exact hp, hpd⟩
  · -- byErc_ok
    intro c' id hl
    simp only [addPair, setAliases] at hl ⊢
    by_cases hcc : c' = ct
    · subst hcc
      rw [lookup_setKV_same] at hl; cases hl
      exact ⟨_, lookup_setKV_same _ _ _, rfl⟩
    · rw [lookup_setKV_ne _ _ _ _ hcc] at hl
      obtain ⟨p, hp, hpc⟩ := hi.byErc_ok _ _ hl
      have : id ≠ (d, ct) := by intro e; rw [e, hnone] at hp; cases hp
      exact ⟨p, by rw [lookup_setKV_ne _ _ _ _ this]; exact hp, hpc⟩
  · -- alias_ok
    intro a d' hl
    simp only [addPair, setAliases, lookup_foldl_set] at hl ⊢
    by_cases ha : a ∈ aliases
    · simp only [ha, ↓reduceIte, Option.some.injEq] at hl; subst hl
      exact ⟨by rw [lookup_setKV_same]; rfl, aliases, hmd, ha⟩
    · simp only [ha, ↓reduceIte] at hl
      obtain ⟨hreg, as, hmdd, haas⟩ := hi.alias_ok _ _ hl
      have hne : d' ≠ d := by intro e; rw [e, hd] at hreg; cases hreg
      exact ⟨by rw [lookup_setKV_ne _ _ _ _ hne]; exact hreg, as, by rw [hmd' _ hne]; exact hmdd, haas⟩
  · -- md_ok
    intro d' as hreg hmdd a ha
    simp only [addPair, setAliases, lookup_foldl_set] at hreg hmdd ⊢
    by_cases hdd : d' = d
    · subst hdd
      rw [hmd] at hmdd; cases hmdd
      simp [ha]
    · rw [lookup_setKV_ne _ _ _ _ hdd] at hreg
      rw [hmd' _ hdd] at hmdd
      have hold := hi.md_ok _ _ hreg hmdd a ha
      by_cases haa : a ∈ aliases
      · rw [(hal a haa).2.2] at hold; cases hold
      · simp [haa, hold]
  · -- disj
    intro a d' hl
    simp only [addPair, setAliases, lookup_foldl_set] at hl ⊢
    by_cases ha : a ∈ aliases
    · rw [lookup_setKV_ne _ _ _ _ (hal a ha).1]; exact (hal a ha).2.1
    · simp only [ha, ↓reduceIte] at hl
      have hne : a ≠ d := by intro e; rw [e, hda] at hl; cases hl
      rw [lookup_setKV_ne _ _ _ _ hne]; exact hi.disj _ _ hl

/-- the deployed contract of `RegisterNativeCoin` is new (`CREATE` address): the only fact about the EVM the index
invariant needs -/
def IOp.fresh (i : Idx) : IOp → Prop
  | .registerCoin _ ct _ => lookup ct i.byErc = none
  | _ => True

theorem inv_stepIdx (i i' : Idx) (hi : IdxInv i) (op : IOp) (hf : IOp.fresh i op) (h : stepIdx i op = .ok i') : IdxInv i' := by
  cases op with
  | registerCoin d ct aliases =>
    simp only [stepIdx] at h
    split at h; · cases h
    rename_i h1
    split at h; · cases h
    rename_i h2
    split at h; · cases h
    rename_i h3
    have hd : lookup d i.byDenom = none := by simpa using h1
    have hda : lookup d i.aliasIdx = none := by simpa using h2
    have hal := (aliasesOk_iff i d aliases).1 (by simpa using h3)
    split at h
    · rename_i as' hmd
      split at h; · cases h
      rename_i heq
      have heq' : as' = aliases := by simpa using heq
      subst heq'
      cases h
      exact inv_register i hi d ct as' false i.md hd hda hal hf hmd (fun _ _ => rfl)
    · rename_i hmd
      cases h
      exact inv_register i hi d ct aliases false _ hd hda hal hf (lookup_setKV_same _ _ _)
        (fun d' hne => lookup_setKV_ne _ _ _ _ hne)
  | registerERC20 d ct aliases =>
    simp only [stepIdx] at h
    split at h; · cases h
    rename_i h0
    split at h; · cases h
    rename_i h1
    split at h; · cases h
    rename_i h2
    split at h; · cases h
    rename_i h3
    split at h; · cases h
    cases h
    have hct : lookup ct i.byErc = none := by simpa using h0
    have hd : lookup d i.byDenom = none := by simpa using h1
    have hda : lookup d i.aliasIdx = none := by simpa using h2
    have hal := (aliasesOk_iff i d aliases).1 (by simpa using h3)
    exact inv_register i hi d ct aliases true _ hd hda hal hct (lookup_setKV_same _ _ _)
      (fun d' hne => lookup_setKV_ne _ _ _ _ hne)
  | toggle d =>
    simp only [stepIdx] at h
    split at h; · cases h
    rename_i id hid
    split at h; · cases h
    rename_i p hp
    cases h
    obtain ⟨h1, h2, h3⟩ := hi.pairs_ok _ _ hp
    constructor
    · intro id' p' hp'
      simp only at hp' ⊢
      by_cases e : id' = id
      · subst e
        rw [lookup_setKV_same] at hp'; cases hp'
        exact ⟨h1, h2, h3⟩
      · rw [lookup_setKV_ne _ _ _ _ e] at hp'; exact hi.pairs_ok _ _ hp'
    · intro d' id' hl
      obtain ⟨p', hp', hpd⟩ := hi.byDenom_ok _ _ hl
      by_cases e : id' = id
      · subst e
        rw [hp] at hp'; cases hp'
        exact ⟨_, lookup_setKV_same _ _ _, hpd⟩
      · exact ⟨p', by simp only; rw [lookup_setKV_ne _ _ _ _ e]; exact hp', hpd⟩
    · intro c' id' hl
      obtain ⟨p', hp', hpc⟩ := hi.byErc_ok _ _ hl
      by_cases e : id' = id
      · subst e
        rw [hp] at hp'; cases hp'
        exact ⟨_, lookup_setKV_same _ _ _, hpc⟩
      · exact ⟨p', by simp only; rw [lookup_setKV_ne _ _ _ _ e]; exact hp', hpc⟩
    · exact hi.alias_ok
    · exact hi.md_ok
    · exact hi.disj
  | updateAlias d a =>
    simp only [stepIdx] at h
    split at h; · cases h
    rename_i h1
    split at h; · cases h
    rename_i h2
    have hreg : (lookup d i.byDenom).isSome := by
      cases hx : lookup d i.byDenom <;> simp_all
    have hab : lookup a i.byDenom = none := by
      cases hx : lookup a i.byDenom <;> simp_all
    split at h; · cases h
    rename_i old hold
    split at h
    · -- add
      rename_i hnone
      cases h
      have hnotin : a ∉ old := fun hin => by
        have := hi.md_ok _ _ hreg hold a hin
        rw [hnone] at this; cases this
      constructor
      · exact hi.pairs_ok
      · exact hi.byDenom_ok
      · exact hi.byErc_ok
      · intro a' d' hl
        simp only at hl ⊢
        by_cases e : a' = a
        · subst e
          rw [lookup_setKV_same] at hl; cases hl
          exact ⟨hreg, _, lookup_setKV_same _ _ _, by simp⟩
        · rw [lookup_setKV_ne _ _ _ _ e] at hl
          obtain ⟨hr, as, hm, hin⟩ := hi.alias_ok _ _ hl
          by_cases e2 : d' = d
          · subst e2
            rw [hold] at hm; cases hm
            exact ⟨hr, _, lookup_setKV_same _ _ _, by simp [hin]⟩
          · exact ⟨hr, as, by rw [lookup_setKV_ne _ _ _ _ e2]; exact hm, hin⟩
      · intro d' as hr hm a' hin
        simp only at hm ⊢
        by_cases e2 : d' = d
        · subst e2
          rw [lookup_setKV_same] at hm; cases hm
          simp only [List.mem_append, List.mem_singleton] at hin
          rcases hin with hin | rfl
          · have := hi.md_ok _ _ hr hold a' hin
            have e : a' ≠ a := fun e => hnotin (e ▸ hin)
            rw [lookup_setKV_ne _ _ _ _ e]; exact this
          · exact lookup_setKV_same _ _ _
        · rw [lookup_setKV_ne _ _ _ _ e2] at hm
          have := hi.md_ok _ _ hr hm a' hin
          have e : a' ≠ a := fun e => by rw [e, hnone] at this; cases this
          rw [lookup_setKV_ne _ _ _ _ e]; exact this
      · intro a' d' hl
        simp only at hl ⊢
        by_cases e : a' = a
        · subst e; exact hab
        · rw [lookup_setKV_ne _ _ _ _ e] at hl; exact hi.disj _ _ hl
    · rename_i d0 hsome
      split at h
      · -- remove
        rename_i hdd
        subst hdd
        cases h
        constructor
        · exact hi.pairs_ok
        · exact hi.byDenom_ok
        · exact hi.byErc_ok
        · intro a' d' hl
          simp only at hl ⊢
          by_cases e : a' = a
          · subst e; rw [lookup_delKV_same] at hl; cases hl
          · rw [lookup_delKV_ne _ _ _ e] at hl
            obtain ⟨hr, as, hm, hin⟩ := hi.alias_ok _ _ hl
            by_cases e2 : d' = d0
            · subst e2
              rw [hold] at hm; cases hm
              exact ⟨hr, _, lookup_setKV_same _ _ _, by simp [hin, e]⟩
            · exact ⟨hr, as, by rw [lookup_setKV_ne _ _ _ _ e2]; exact hm, hin⟩
        · intro d' as hr hm a' hin
          simp only at hm ⊢
          by_cases e2 : d' = d0
          · subst e2
            rw [lookup_setKV_same] at hm; cases hm
            simp only [ne_eq, decide_not, List.mem_filter, Bool.not_eq_eq_eq_not, Bool.not_true,
              decide_eq_false_iff_not] at hin
            rw [lookup_delKV_ne _ _ _ hin.2]
            exact hi.md_ok _ _ hr hold a' hin.1
          · rw [lookup_setKV_ne _ _ _ _ e2] at hm
            have := hi.md_ok _ _ hr hm a' hin
            have e : a' ≠ a := fun e => by
              rw [e, hsome] at this; cases this; exact e2 rfl
            rw [lookup_delKV_ne _ _ _ e]; exact this
        · intro a' d' hl
          simp only at hl ⊢
          by_cases e : a' = a
          · subst e; rw [lookup_delKV_same] at hl; cases hl
          · rw [lookup_delKV_ne _ _ _ e] at hl; exact hi.disj _ _ hl
      · cases h

/-- `RemoveTokenPair` of a registered pair keeps the invariant -/
theorem inv_removePair (i : Idx) (hi : IdxInv i) (p : Pair) (id : PairId) (hp : lookup id i.pairs = some p) :
    IdxInv (removePair i p) := by
  obtain ⟨hid, hden, herc⟩ := hi.pairs_ok _ _ hp
  subst hid
  -- the alias index after the removal, uniformly
  have hal : ∀ a, lookup a (removePair i p).aliasIdx =
      if lookup a i.aliasIdx = some p.denom then none else lookup a i.aliasIdx := by
    intro a
    simp only [removePair]
    cases hh : hasDenomAlias i p.denom with
    | none =>
      simp only
      split
      · rename_i hl
        obtain ⟨_, as, hm, hin⟩ := hi.alias_ok _ _ hl
        simp only [hasDenomAlias, hm] at hh
        cases as with
        | nil => cases hin
        | cons x xs => cases hh
      · rfl
    | some as =>
      simp only [lookup_foldl_del]
      have hm : lookup p.denom i.md = some as := by
        simp only [hasDenomAlias] at hh
        split at hh
        · cases hh; assumption
        · cases hh
      by_cases hin : a ∈ as
      · have := hi.md_ok _ _ (by rw [hden]; rfl) hm a hin
        simp [hin, this]
      · simp only [hin, ↓reduceIte]
        split
        · rename_i hl
          obtain ⟨_, as', hm', hin'⟩ := hi.alias_ok _ _ hl
          rw [hm] at hm'; cases hm'
          exact absurd hin' hin
        · rfl
  have hpairs : (removePair i p).pairs = delKV (p.denom, p.contract) i.pairs := by
    simp only [removePair]; split <;> rfl
  have hbd : (removePair i p).byDenom = delKV p.denom i.byDenom := by
    simp only [removePair]; split <;> rfl
  have hbe : (removePair i p).byErc = delKV p.contract i.byErc := by
    simp only [removePair]; split <;> rfl
  have hmd : (removePair i p).md = i.md := by
    simp only [removePair]; split <;> rfl
  constructor
  · intro id' p' hp'
    rw [hpairs] at hp'
    rw [hbd, hbe]
    by_cases e : id' = (p.denom, p.contract)
    · subst e; rw [lookup_delKV_same] at hp'; cases hp'
    · rw [lookup_delKV_ne _ _ _ e] at hp'
      obtain ⟨h1, h2, h3⟩ := hi.pairs_ok _ _ hp'
      have hne1 : p'.denom ≠ p.denom := by
        intro e1; rw [e1, hden] at h2; exact e (Option.some.inj h2).symm
      have hne2 : p'.contract ≠ p.contract := by
        intro e1; rw [e1, herc] at h3; exact e (Option.some.inj h3).symm
      exact ⟨h1, by rw [lookup_delKV_ne _ _ _ hne1]; exact h2, by rw [lookup_delKV_ne _ _ _ hne2]; exact h3⟩
  · intro d' id' hl
    rw [hbd] at hl; rw [hpairs]
    by_cases e : d' = p.denom
    · subst e; rw [lookup_delKV_same] at hl; cases hl
    · rw [lookup_delKV_ne _ _ _ e] at hl
      obtain ⟨p', hp', hpd⟩ := hi.byDenom_ok _ _ hl
      have : id' ≠ (p.denom, p.contract) := by
        intro e1; subst e1; rw [hp] at hp'; cases hp'; exact e hpd.symm
      exact ⟨p', by rw [lookup_delKV_ne _ _ _ this]; exact hp', hpd⟩
  · intro c' id' hl
    rw [hbe] at hl; rw [hpairs]
    by_cases e : c' = p.contract
    · subst e; rw [lookup_delKV_same] at hl; cases hl
    · rw [lookup_delKV_ne _ _ _ e] at hl
      obtain ⟨p', hp', hpc⟩ := hi.byErc_ok _ _ hl
      have : id' ≠ (p.denom, p.contract) := by
        intro e1; subst e1; rw [hp] at hp'; cases hp'; exact e hpc.symm
      exact ⟨p', by rw [lookup_delKV_ne _ _ _ this]; exact hp', hpc⟩
  · intro a d' hl
    rw [hal] at hl
    split at hl; · cases hl
    rename_i hne
    obtain ⟨hr, as, hm, hin⟩ := hi.alias_ok _ _ hl
    have e : d' ≠ p.denom := fun e => hne (e ▸ hl)
    exact ⟨by rw [hbd, lookup_delKV_ne _ _ _ e]; exact hr, as, by rw [hmd]; exact hm, hin⟩
  · intro d' as hr hm a hin
    rw [hbd] at hr; rw [hmd] at hm
    by_cases e : d' = p.denom
    · subst e; rw [lookup_delKV_same] at hr; cases hr
    · rw [lookup_delKV_ne _ _ _ e] at hr
      have := hi.md_ok _ _ hr hm a hin
      rw [hal, this]
      simp [e]
  · intro a d' hl
    rw [hal] at hl
    split at hl; · cases hl
    have := hi.disj _ _ hl
    rw [hbd]
    by_cases e : a = p.denom
    · subst e; exact lookup_delKV_same _ _
    · rw [lookup_delKV_ne _ _ _ e]; exact this

end FxVerif.Proofs.C08
