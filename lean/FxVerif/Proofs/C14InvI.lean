import FxVerif.Proofs.C14InvS
/-!
# C14 — invariants of every history: the unbonding-id index (0x38) and the entries of the records

`IdInv s`: every entry of an unbonding delegation / redelegation is indexed under its unbonding id at the key of its
record; every index entry points at a record holding an entry of that id; ids are below the counter; the entries of a
record carry different ids.
-/
namespace FxVerif.Proofs.C14
open FxVerif.Model.C14

abbrev Entry := Time × Nat × Nat
abbrev IdVal := Addr × Val × Option Val

structure IdInv (s : State) : Prop where
  ubd : ∀ k es (e : Entry), get s.ubds k = some es → e ∈ es → get s.unbId e.2.2 = some (k.1, k.2, none)
  red : ∀ k es (e : Entry), get s.reds k = some es → e ∈ es → get s.unbId e.2.2 = some (k.1, k.2.1, some k.2.2)
  of : ∀ id (r : IdVal), get s.unbId id = some r →
      (r.2.2 = none ∧ ∃ es, get s.ubds (r.1, r.2.1) = some es ∧ ∃ e ∈ es, e.2.2 = id) ∨
      (∃ b, r.2.2 = some b ∧ ∃ es, get s.reds (r.1, r.2.1, b) = some es ∧ ∃ e ∈ es, e.2.2 = id)
  fresh : ∀ id r, get s.unbId id = some r → id < s.nextUnbId
  undup : ∀ k es, get s.ubds k = some es → (es.map (fun e : Entry => e.2.2)).Nodup
  rndup : ∀ k es, get s.reds k = some es → (es.map (fun e : Entry => e.2.2)).Nodup

/-- the fields of `IdInv` are left alone -/
structure IFrame (s s' : State) : Prop where
  ubds : s'.ubds = s.ubds
  reds : s'.reds = s.reds
  unbId : s'.unbId = s.unbId
  nextUnbId : s'.nextUnbId = s.nextUnbId

theorem IFrame.trans {a b c : State} (h1 : IFrame a b) (h2 : IFrame b c) : IFrame a c :=
  ⟨h2.ubds.trans h1.ubds, h2.reds.trans h1.reds, h2.unbId.trans h1.unbId, h2.nextUnbId.trans h1.nextUnbId⟩

theorem IdInv.frame {s s' : State} (h : IdInv s) (f : IFrame s s') : IdInv s' := by
  refine ⟨?_, ?_, ?_, ?_, ?_, ?_⟩
  · rw [f.ubds, f.unbId]; exact h.ubd
  · rw [f.reds, f.unbId]; exact h.red
  · rw [f.ubds, f.reds, f.unbId]; exact h.of
  · rw [f.unbId, f.nextUnbId]; exact h.fresh
  · rw [f.ubds]; exact h.undup
  · rw [f.reds]; exact h.rndup

theorem iframe_touchPre {s s' : State} {d v rw} (e : touchPre s d v rw = some s') : IFrame s s' := by
  unfold touchPre at e
  split at e
  · cases e; exact ⟨rfl, rfl, rfl, rfl⟩
  · split at e
    · cases e
    · cases e; exact ⟨rfl, rfl, rfl, rfl⟩

theorem iframe_addShares {s s' : State} {d v amt rw} (e : addShares s d v amt rw = some s') : IFrame s s' := by
  unfold addShares at e
  split at e
  · cases e
  · rename_i s1 h1
    cases e; exact (iframe_touchPre h1).trans ⟨rfl, rfl, rfl, rfl⟩

theorem iframe_delegate {s s' : State} {d v amt rw} (e : delegate s d v amt rw = some s') : IFrame s s' := by
  unfold delegate at e
  split at e
  · cases e
  · split at e
    · cases e
    · rename_i s1 h1
      split at e
      · cases e
      · cases e; exact (iframe_touchPre h1).trans ⟨rfl, rfl, rfl, rfl⟩

theorem iframe_unbond {s s' : State} {d v amt rw} (e : unbond s d v amt rw = some s') : IFrame s s' := by
  unfold unbond at e
  split at e
  · cases e
  · split at e
    · cases e
    · split at e
      · cases e
      · rename_i s1 h1
        cases e
        refine (iframe_touchPre h1).trans ?_
        split <;> exact ⟨rfl, rfl, rfl, rfl⟩

theorem iframe_withdraw {s s' : State} {d v rw} (e : withdraw s d v rw = some s') : IFrame s s' := by
  unfold withdraw at e
  split at e
  · cases e
  · split at e
    · cases e
    · rename_i s1 h1
      cases e; exact (iframe_touchPre h1).trans ⟨rfl, rfl, rfl, rfl⟩

/-! ### a new entry with a fresh id -/

theorem nodup_ids_inj {es : List Entry} (h : (es.map (fun e : Entry => e.2.2)).Nodup) {a b : Entry} (ha : a ∈ es) (hb : b ∈ es)
    (e : a.2.2 = b.2.2) : a = b := by
  induction es with
  | nil => cases ha
  | cons x es ih =>
    have hnd : x.2.2 ∉ es.map (fun e : Entry => e.2.2) ∧ (es.map (fun e : Entry => e.2.2)).Nodup := List.nodup_cons.mp h
    rcases List.mem_cons.mp ha with rfl | ha' <;> rcases List.mem_cons.mp hb with rfl | hb'
    · rfl
    · exact absurd (List.mem_map.mpr ⟨b, hb', e.symm⟩) hnd.1
    · exact absurd (List.mem_map.mpr ⟨a, ha', e⟩) hnd.1
    · exact ih hnd.2 ha' hb'

/-- all ids of the entries of a record are below the counter -/
theorem IdInv.ubd_lt {s : State} (h : IdInv s) {k es} {e : Entry} (hg : get s.ubds k = some es) (he : e ∈ es) :
    e.2.2 < s.nextUnbId := h.fresh _ _ (h.ubd k es e hg he)
theorem IdInv.red_lt {s : State} (h : IdInv s) {k es} {e : Entry} (hg : get s.reds k = some es) (he : e ∈ es) :
    e.2.2 < s.nextUnbId := h.fresh _ _ (h.red k es e hg he)

/-- an unbonding delegation gets the entry list `es'`: either the old one with a new entry of the fresh id appended and
indexed, or a list carrying the same ids (amounts merged) with the index untouched -/
theorem IdInv.setUbd {s : State} (h : IdInv s) (k : Addr × Val) (es' : List Entry) (isNew : Bool) (t amt : Nat)
    (hshape : (isNew = true ∧ es' = (get s.ubds k).getD [] ++ [(t, amt, s.nextUnbId)]) ∨
              (isNew = false ∧ es'.map (fun e : Entry => e.2.2) = ((get s.ubds k).getD []).map (fun e : Entry => e.2.2)))
    (s' : State) (e1 : s'.ubds = put s.ubds k es') (e2 : s'.reds = s.reds)
    (e3 : s'.unbId = if isNew then put s.unbId s.nextUnbId (k.1, k.2, none) else s.unbId)
    (e4 : s'.nextUnbId = s.nextUnbId + 1) : IdInv s' := by
  -- ids of the new list: old ids, plus the fresh one when new
  have hid : ∀ e' ∈ es', (isNew = true ∧ e'.2.2 = s.nextUnbId) ∨ ∃ e ∈ (get s.ubds k).getD [], e.2.2 = e'.2.2 := by
    intro e' he'
    rcases hshape with ⟨hn, rfl⟩ | ⟨_, hm⟩
    · rcases List.mem_append.mp he' with h1 | h1
      · exact Or.inr ⟨e', h1, rfl⟩
      · simp only [List.mem_cons, List.not_mem_nil, or_false] at h1
        exact Or.inl ⟨hn, by rw [h1]⟩
    · have : e'.2.2 ∈ es'.map (fun e : Entry => e.2.2) := List.mem_map.mpr ⟨e', he', rfl⟩
      rw [hm] at this
      obtain ⟨e, he, hee⟩ := List.mem_map.mp this
      exact Or.inr ⟨e, he, hee⟩
  have hold : ∀ e ∈ (get s.ubds k).getD [], get s.unbId e.2.2 = some (k.1, k.2, none) ∧ e.2.2 < s.nextUnbId := by
    intro e he
    cases hg : get s.ubds k with
    | none => rw [hg] at he; cases he
    | some es => rw [hg] at he; exact ⟨h.ubd k es e hg he, h.ubd_lt hg he⟩
  have hback : ∀ e ∈ (get s.ubds k).getD [], ∃ e' ∈ es', e'.2.2 = e.2.2 := by
    intro e he
    rcases hshape with ⟨_, rfl⟩ | ⟨_, hm⟩
    · exact ⟨e, List.mem_append_left _ he, rfl⟩
    · have : e.2.2 ∈ ((get s.ubds k).getD []).map (fun e : Entry => e.2.2) := List.mem_map.mpr ⟨e, he, rfl⟩
      rw [← hm] at this
      obtain ⟨e', he', hee⟩ := List.mem_map.mp this
      exact ⟨e', he', hee⟩
  -- reading the new index at an id below the counter
  have hget : ∀ id, id < s.nextUnbId → get s'.unbId id = get s.unbId id := by
    intro id hlt
    rw [e3]
    split
    · rw [get_put_ne _ _ _ _ (by omega)]
    · rfl
  refine ⟨?_, ?_, ?_, ?_, ?_, ?_⟩
  · intro k' es0 e hg he
    rw [e1] at hg
    by_cases hk : k' = k
    · subst hk
      rw [get_put_eq] at hg; cases hg
      rcases hid e he with ⟨hn, hfresh⟩ | ⟨e0, he0, hee⟩
      · rw [e3, hn, hfresh]; simp only [↓reduceIte]; rw [get_put_eq]
      · rw [← hee, hget _ (hold e0 he0).2]; exact (hold e0 he0).1
    · rw [get_put_ne _ _ _ _ hk] at hg
      rw [hget _ (h.ubd_lt hg he)]; exact h.ubd k' es0 e hg he
  · intro k' es0 e hg he
    rw [e2] at hg
    rw [hget _ (h.red_lt hg he)]; exact h.red k' es0 e hg he
  · intro id r hg
    rw [e1, e2]
    by_cases hnew : isNew = true ∧ id = s.nextUnbId
    · obtain ⟨hn, rfl⟩ := hnew
      rw [e3, hn] at hg
      simp only [↓reduceIte] at hg
      rw [get_put_eq] at hg; cases hg
      refine Or.inl ⟨rfl, es', get_put_eq _ _ _, ?_⟩
      rcases hshape with ⟨_, rfl⟩ | ⟨hf, _⟩
      · exact ⟨_, List.mem_append_right _ (List.mem_cons_self ..), rfl⟩
      · rw [hn] at hf; cases hf
    · have hg0 : get s.unbId id = some r := by
        rw [e3] at hg
        split at hg
        · rename_i hn
          rw [get_put_ne _ _ _ _ (fun e => hnew ⟨hn, e⟩)] at hg; exact hg
        · exact hg
      rcases h.of id r hg0 with ⟨hr, es, hes, e, he, hee⟩ | ⟨b, hr, es, hes, e, he, hee⟩
      · left
        refine ⟨hr, ?_⟩
        by_cases hk : (r.1, r.2.1) = k
        · rw [hk, get_put_eq]
          have : e ∈ (get s.ubds k).getD [] := by rw [← hk, hes]; exact he
          obtain ⟨e', he', hee'⟩ := hback e this
          exact ⟨es', rfl, e', he', hee'.trans hee⟩
        · rw [get_put_ne _ _ _ _ hk]; exact ⟨es, hes, e, he, hee⟩
      · exact Or.inr ⟨b, hr, es, hes, e, he, hee⟩
  · intro id r hg
    rw [e4]
    rw [e3] at hg
    split at hg
    · by_cases hid' : id = s.nextUnbId
      · omega
      · rw [get_put_ne _ _ _ _ hid'] at hg
        have := h.fresh id r hg; omega
    · have := h.fresh id r hg; omega
  · intro k' es0 hg
    rw [e1] at hg
    by_cases hk : k' = k
    · subst hk
      rw [get_put_eq] at hg; cases hg
      have hnd0 : (((get s.ubds k').getD []).map (fun e : Entry => e.2.2)).Nodup := by
        cases hg0 : get s.ubds k' with
        | none => simp
        | some es => simpa using h.undup k' es hg0
      rcases hshape with ⟨_, rfl⟩ | ⟨_, hm⟩
      · rw [List.map_append, List.nodup_append]
        refine ⟨hnd0, by simp, ?_⟩
        intro a ha b hb
        simp only [List.map_cons, List.map_nil, List.mem_cons, List.not_mem_nil, or_false] at hb
        obtain ⟨e, he, rfl⟩ := List.mem_map.mp ha
        have := (hold e he).2
        omega
      · rw [hm]; exact hnd0
    · rw [get_put_ne _ _ _ _ hk] at hg; exact h.undup k' es0 hg
  · intro k' es0 hg
    rw [e2] at hg; exact h.rndup k' es0 hg

/-- a redelegation gets a new entry of the fresh id, indexed -/
theorem IdInv.setRed {s : State} (h : IdInv s) (k : Addr × Val × Val) (t amt : Nat)
    (s' : State) (e1 : s'.reds = put s.reds k ((get s.reds k).getD [] ++ [(t, amt, s.nextUnbId)])) (e2 : s'.ubds = s.ubds)
    (e3 : s'.unbId = put s.unbId s.nextUnbId (k.1, k.2.1, some k.2.2))
    (e4 : s'.nextUnbId = s.nextUnbId + 1) : IdInv s' := by
  have hold : ∀ e ∈ (get s.reds k).getD [], get s.unbId e.2.2 = some (k.1, k.2.1, some k.2.2) ∧ e.2.2 < s.nextUnbId := by
    intro e he
    cases hg : get s.reds k with
    | none => rw [hg] at he; cases he
    | some es => rw [hg] at he; exact ⟨h.red k es e hg he, h.red_lt hg he⟩
  have hget : ∀ id, id < s.nextUnbId → get s'.unbId id = get s.unbId id := by
    intro id hlt
    rw [e3, get_put_ne _ _ _ _ (by omega)]
  refine ⟨?_, ?_, ?_, ?_, ?_, ?_⟩
  · intro k' es0 e hg he
    rw [e2] at hg
    rw [hget _ (h.ubd_lt hg he)]; exact h.ubd k' es0 e hg he
  · intro k' es0 e hg he
    rw [e1] at hg
    by_cases hk : k' = k
    · subst hk
      rw [get_put_eq] at hg; cases hg
      rcases List.mem_append.mp he with h1 | h1
      · rw [hget _ (hold e h1).2]; exact (hold e h1).1
      · simp only [List.mem_cons, List.not_mem_nil, or_false] at h1
        subst h1
        rw [e3, get_put_eq]
    · rw [get_put_ne _ _ _ _ hk] at hg
      rw [hget _ (h.red_lt hg he)]; exact h.red k' es0 e hg he
  · intro id r hg
    rw [e1, e2]
    by_cases hnew : id = s.nextUnbId
    · subst hnew
      rw [e3, get_put_eq] at hg; cases hg
      exact Or.inr ⟨k.2.2, rfl, _, get_put_eq _ _ _, _, List.mem_append_right _ (List.mem_cons_self ..), rfl⟩
    · rw [e3, get_put_ne _ _ _ _ hnew] at hg
      rcases h.of id r hg with ⟨hr, es, hes, e, he, hee⟩ | ⟨b, hr, es, hes, e, he, hee⟩
      · exact Or.inl ⟨hr, es, hes, e, he, hee⟩
      · right
        refine ⟨b, hr, ?_⟩
        by_cases hk : (r.1, r.2.1, b) = k
        · rw [hk, get_put_eq]
          have : e ∈ (get s.reds k).getD [] := by rw [← hk, hes]; exact he
          exact ⟨_, rfl, e, List.mem_append_left _ this, hee⟩
        · rw [get_put_ne _ _ _ _ hk]; exact ⟨es, hes, e, he, hee⟩
  · intro id r hg
    rw [e4]
    by_cases hid' : id = s.nextUnbId
    · omega
    · rw [e3, get_put_ne _ _ _ _ hid'] at hg
      have := h.fresh id r hg; omega
  · intro k' es0 hg
    rw [e2] at hg; exact h.undup k' es0 hg
  · intro k' es0 hg
    rw [e1] at hg
    by_cases hk : k' = k
    · subst hk
      rw [get_put_eq] at hg; cases hg
      have hnd0 : (((get s.reds k').getD []).map (fun e : Entry => e.2.2)).Nodup := by
        cases hg0 : get s.reds k' with
        | none => simp
        | some es => simpa using h.rndup k' es hg0
      rw [List.map_append, List.nodup_append]
      refine ⟨hnd0, by simp, ?_⟩
      intro a ha b hb
      simp only [List.map_cons, List.map_nil, List.mem_cons, List.not_mem_nil, or_false] at hb
      obtain ⟨e, he, rfl⟩ := List.mem_map.mp ha
      have := (hold e he).2
      omega
    · rw [get_put_ne _ _ _ _ hk] at hg; exact h.rndup k' es0 hg

theorem addEntry_shape (es : List Entry) (t amt id lo : Nat) :
    ((addEntry es t amt id lo).2 = true ∧ (addEntry es t amt id lo).1 = es ++ [(t, amt, id)]) ∨
    ((addEntry es t amt id lo).2 = false ∧
      (addEntry es t amt id lo).1.map (fun e : Entry => e.2.2) = es.map (fun e : Entry => e.2.2)) := by
  unfold addEntry
  split
  · right
    refine ⟨rfl, ?_⟩
    rw [List.map_map]
    apply List.map_congr_left
    intro e _
    simp only [Function.comp]
    split <;> rfl
  · exact Or.inl ⟨rfl, rfl⟩

theorem idInv_undelegate {s s' : State} {d v amt rw} (h : IdInv s) (e : undelegate s d v amt rw = some s') : IdInv s' := by
  unfold undelegate at e
  split at e
  · cases e
  · simp only [] at e
    split at e
    · cases e
    · split at e
      · cases e
      · rename_i s1 h1
        split at e
        · cases e
        · cases e
          have f1 := iframe_unbond h1
          have i1 := h.frame f1
          have hes : (get s.ubds (d, v)).getD [] = (get s1.ubds (d, v)).getD [] := by rw [f1.ubds]
          rw [hes]
          refine i1.setUbd (d, v) _
            (addEntry ((get s1.ubds (d, v)).getD []) (s.now + s.unbondTime) amt s1.nextUnbId s.blockFirstId).2
            (s.now + s.unbondTime) amt (addEntry_shape _ _ _ _ _) _ rfl rfl rfl rfl

theorem idInv_redelegate {s s' : State} {d a b amt r1 r2} (h : IdInv s) (e : redelegate s d a b amt r1 r2 = some s') :
    IdInv s' := by
  unfold redelegate at e
  split at e
  · cases e
  · split at e
    · cases e
    · simp only [] at e
      split at e
      · cases e
      · split at e
        · cases e
        · rename_i s1 h1
          split at e
          · cases e
          · rename_i s2 h2
            cases e
            have f2 := (iframe_unbond h1).trans (iframe_addShares h2)
            have i2 := h.frame f2
            have hes : (get s.reds (d, a, b)).getD [] = (get s2.reds (d, a, b)).getD [] := by rw [f2.reds]
            rw [hes]
            exact i2.setRed (d, a, b) (s.now + s.unbondTime) amt _ rfl rfl rfl rfl

/-! ### maturation -/

theorem get_foldl_del {ν : Type} (L : List Entry) (u : Store Nat ν) (id : Nat) :
    get (L.foldl (fun u e => del u e.2.2) u) id = if id ∈ L.map (fun e : Entry => e.2.2) then none else get u id := by
  induction L generalizing u with
  | nil => simp
  | cons x L ih =>
    simp only [List.foldl_cons, List.map_cons, List.mem_cons]
    rw [ih]
    by_cases h1 : id ∈ L.map (fun e : Entry => e.2.2)
    · simp [h1]
    · by_cases h2 : id = x.2.2
      · subst h2; simp [h1, get_del_eq]
      · simp [h1, h2, get_del_ne _ _ _ h2]

/-- the entries of one unbonding delegation that completed leave the record and the index -/
theorem IdInv.completeU {s : State} (h : IdInv s) (k : Addr × Val) (es : List Entry) (hes : get s.ubds k = some es)
    (P : Entry → Bool) (s' : State)
    (e1 : s'.ubds = if (es.filter (fun e => !P e)).isEmpty then del s.ubds k else put s.ubds k (es.filter (fun e => !P e)))
    (e2 : s'.reds = s.reds) (e3 : s'.unbId = (es.filter P).foldl (fun u e => del u e.2.2) s.unbId)
    (e4 : s'.nextUnbId = s.nextUnbId) : IdInv s' := by
  have hnd := h.undup k es hes
  -- an id removed from the index belongs to a completed entry of this record
  have hrem : ∀ id, id ∈ (es.filter P).map (fun e : Entry => e.2.2) → ∃ m ∈ es, P m = true ∧ m.2.2 = id := by
    intro id hid
    obtain ⟨m, hm, hmid⟩ := List.mem_map.mp hid
    exact ⟨m, (List.mem_filter.mp hm).1, (List.mem_filter.mp hm).2, hmid⟩
  have hget : ∀ id, get s'.unbId id = if id ∈ (es.filter P).map (fun e : Entry => e.2.2) then none else get s.unbId id := by
    intro id; rw [e3]; exact get_foldl_del _ _ _
  have hrec : ∀ k', k' ≠ k → get s'.ubds k' = get s.ubds k' := by
    intro k' hk
    rw [e1]; split
    · exact get_del_ne _ _ _ hk
    · exact get_put_ne _ _ _ _ hk
  refine ⟨?_, ?_, ?_, ?_, ?_, ?_⟩
  · intro k' es0 e hg he
    by_cases hk : k' = k
    · subst hk
      rw [e1] at hg
      split at hg
      · rw [get_del_eq] at hg; cases hg
      · rw [get_put_eq] at hg; cases hg
        have hee := (List.mem_filter.mp he).1
        have hPe : P e = false := by simpa using (List.mem_filter.mp he).2
        rw [hget]
        have : e.2.2 ∉ (es.filter P).map (fun e : Entry => e.2.2) := by
          intro hid
          obtain ⟨m, hm, hPm, hmid⟩ := hrem _ hid
          have := nodup_ids_inj hnd hm hee hmid
          subst this; rw [hPm] at hPe; cases hPe
        rw [if_neg this]; exact h.ubd k' es e hes hee
    · rw [hrec k' hk] at hg
      rw [hget]
      have : e.2.2 ∉ (es.filter P).map (fun e : Entry => e.2.2) := by
        intro hid
        obtain ⟨m, hm, _, hmid⟩ := hrem _ hid
        have h1 := h.ubd k es m hes hm
        have h2 := h.ubd k' es0 e hg he
        rw [hmid, h2] at h1
        simp only [Option.some.injEq, Prod.mk.injEq, and_true] at h1
        exact hk (Prod.ext h1.1 h1.2)
      rw [if_neg this]; exact h.ubd k' es0 e hg he
  · intro k' es0 e hg he
    rw [e2] at hg
    rw [hget]
    have : e.2.2 ∉ (es.filter P).map (fun e : Entry => e.2.2) := by
      intro hid
      obtain ⟨m, hm, _, hmid⟩ := hrem _ hid
      have h1 := h.ubd k es m hes hm
      have h2 := h.red k' es0 e hg he
      rw [hmid, h2] at h1
      simp at h1
    rw [if_neg this]; exact h.red k' es0 e hg he
  · intro id r hg
    rw [hget] at hg
    split at hg
    · cases hg
    · rename_i hnot
      rcases h.of id r hg with ⟨hr, es0, hes0, e, he, hee⟩ | ⟨b, hr, es0, hes0, e, he, hee⟩
      · left
        refine ⟨hr, ?_⟩
        by_cases hk : (r.1, r.2.1) = k
        · rw [hk, hes] at hes0; cases hes0
          have hPe : P e = false := by
            cases hp : P e
            · rfl
            · exact absurd (List.mem_map.mpr ⟨e, List.mem_filter.mpr ⟨he, hp⟩, hee⟩) hnot
          have hin : e ∈ es.filter (fun e => !P e) := List.mem_filter.mpr ⟨he, by simp [hPe]⟩
          have hne : (es.filter (fun e => !P e)).isEmpty = false := by
            cases hh : es.filter (fun e => !P e) with
            | nil => rw [hh] at hin; cases hin
            | cons _ _ => rfl
          rw [hk, e1, hne]
          exact ⟨_, get_put_eq _ _ _, e, hin, hee⟩
        · rw [hrec _ hk]; exact ⟨es0, hes0, e, he, hee⟩
      · rw [e2]; exact Or.inr ⟨b, hr, es0, hes0, e, he, hee⟩
  · intro id r hg
    rw [hget] at hg
    split at hg
    · cases hg
    · rw [e4]; exact h.fresh id r hg
  · intro k' es0 hg
    by_cases hk : k' = k
    · subst hk
      rw [e1] at hg
      split at hg
      · rw [get_del_eq] at hg; cases hg
      · rw [get_put_eq] at hg; cases hg
        exact List.Nodup.sublist ((List.filter_sublist (l := es)).map _) hnd
    · rw [hrec k' hk] at hg; exact h.undup k' es0 hg
  · intro k' es0 hg
    rw [e2] at hg; exact h.rndup k' es0 hg

/-- the same for one redelegation -/
theorem IdInv.completeR {s : State} (h : IdInv s) (k : Addr × Val × Val) (es : List Entry) (hes : get s.reds k = some es)
    (P : Entry → Bool) (s' : State)
    (e1 : s'.reds = if (es.filter (fun e => !P e)).isEmpty then del s.reds k else put s.reds k (es.filter (fun e => !P e)))
    (e2 : s'.ubds = s.ubds) (e3 : s'.unbId = (es.filter P).foldl (fun u e => del u e.2.2) s.unbId)
    (e4 : s'.nextUnbId = s.nextUnbId) : IdInv s' := by
  have hnd := h.rndup k es hes
  have hrem : ∀ id, id ∈ (es.filter P).map (fun e : Entry => e.2.2) → ∃ m ∈ es, P m = true ∧ m.2.2 = id := by
    intro id hid
    obtain ⟨m, hm, hmid⟩ := List.mem_map.mp hid
    exact ⟨m, (List.mem_filter.mp hm).1, (List.mem_filter.mp hm).2, hmid⟩
  have hget : ∀ id, get s'.unbId id = if id ∈ (es.filter P).map (fun e : Entry => e.2.2) then none else get s.unbId id := by
    intro id; rw [e3]; exact get_foldl_del _ _ _
  have hrec : ∀ k', k' ≠ k → get s'.reds k' = get s.reds k' := by
    intro k' hk
    rw [e1]; split
    · exact get_del_ne _ _ _ hk
    · exact get_put_ne _ _ _ _ hk
  refine ⟨?_, ?_, ?_, ?_, ?_, ?_⟩
  · intro k' es0 e hg he
    rw [e2] at hg
    rw [hget]
    have : e.2.2 ∉ (es.filter P).map (fun e : Entry => e.2.2) := by
      intro hid
      obtain ⟨m, hm, _, hmid⟩ := hrem _ hid
      have h1 := h.red k es m hes hm
      have h2 := h.ubd k' es0 e hg he
      rw [hmid, h2] at h1
      simp at h1
    rw [if_neg this]; exact h.ubd k' es0 e hg he
  · intro k' es0 e hg he
    by_cases hk : k' = k
    · subst hk
      rw [e1] at hg
      split at hg
      · rw [get_del_eq] at hg; cases hg
      · rw [get_put_eq] at hg; cases hg
        have hee := (List.mem_filter.mp he).1
        have hPe : P e = false := by simpa using (List.mem_filter.mp he).2
        rw [hget]
        have : e.2.2 ∉ (es.filter P).map (fun e : Entry => e.2.2) := by
          intro hid
          obtain ⟨m, hm, hPm, hmid⟩ := hrem _ hid
          have := nodup_ids_inj hnd hm hee hmid
          subst this; rw [hPm] at hPe; cases hPe
        rw [if_neg this]; exact h.red k' es e hes hee
    · rw [hrec k' hk] at hg
      rw [hget]
      have : e.2.2 ∉ (es.filter P).map (fun e : Entry => e.2.2) := by
        intro hid
        obtain ⟨m, hm, _, hmid⟩ := hrem _ hid
        have h1 := h.red k es m hes hm
        have h2 := h.red k' es0 e hg he
        rw [hmid, h2] at h1
        simp only [Option.some.injEq, Prod.mk.injEq] at h1
        exact hk (Prod.ext h1.1 (Prod.ext h1.2.1 h1.2.2))
      rw [if_neg this]; exact h.red k' es0 e hg he
  · intro id r hg
    rw [hget] at hg
    split at hg
    · cases hg
    · rename_i hnot
      rcases h.of id r hg with ⟨hr, es0, hes0, e, he, hee⟩ | ⟨b, hr, es0, hes0, e, he, hee⟩
      · rw [e2]; exact Or.inl ⟨hr, es0, hes0, e, he, hee⟩
      · right
        refine ⟨b, hr, ?_⟩
        by_cases hk : (r.1, r.2.1, b) = k
        · rw [hk, hes] at hes0; cases hes0
          have hPe : P e = false := by
            cases hp : P e
            · rfl
            · exact absurd (List.mem_map.mpr ⟨e, List.mem_filter.mpr ⟨he, hp⟩, hee⟩) hnot
          have hin : e ∈ es.filter (fun e => !P e) := List.mem_filter.mpr ⟨he, by simp [hPe]⟩
          have hne : (es.filter (fun e => !P e)).isEmpty = false := by
            cases hh : es.filter (fun e => !P e) with
            | nil => rw [hh] at hin; cases hin
            | cons _ _ => rfl
          rw [hk, e1, hne]
          exact ⟨_, get_put_eq _ _ _, e, hin, hee⟩
        · rw [hrec _ hk]; exact ⟨es0, hes0, e, he, hee⟩
  · intro id r hg
    rw [hget] at hg
    split at hg
    · cases hg
    · rw [e4]; exact h.fresh id r hg
  · intro k' es0 hg
    rw [e2] at hg; exact h.undup k' es0 hg
  · intro k' es0 hg
    by_cases hk : k' = k
    · subst hk
      rw [e1] at hg
      split at hg
      · rw [get_del_eq] at hg; cases hg
      · rw [get_put_eq] at hg; cases hg
        exact List.Nodup.sublist ((List.filter_sublist (l := es)).map _) hnd
    · rw [hrec k' hk] at hg; exact h.rndup k' es0 hg

theorem idInv_completeUnbonding {s : State} (h : IdInv s) (d : Addr) (v : Val) : IdInv (completeUnbonding s d v) := by
  unfold completeUnbonding
  split
  · exact h
  · rename_i es hes
    simp only []
    refine h.completeU (d, v) es hes (fun e => decide (e.1 ≤ s.now)) _ ?_ ?_ ?_ ?_
    · split <;> rfl
    · split <;> rfl
    · split <;> rfl
    · split <;> rfl

theorem idInv_completeRedelegation {s : State} (h : IdInv s) (d : Addr) (a b : Val) :
    IdInv (completeRedelegation s d a b) := by
  unfold completeRedelegation
  split
  · exact h
  · rename_i es hes
    simp only []
    refine h.completeR (d, a, b) es hes (fun e => decide (e.1 ≤ s.now)) _ ?_ ?_ ?_ ?_
    · split <;> rfl
    · split <;> rfl
    · split <;> rfl
    · split <;> rfl

theorem idInv_stakingEnd {s : State} (h : IdInv s) : IdInv (stakingEnd s) := by
  unfold stakingEnd
  refine foldl_inv IdInv _ (fun s (p : Addr × Val × Val) hs => idInv_completeRedelegation hs p.1 p.2.1 p.2.2) _ _ ?_
  refine IdInv.frame (s := List.foldl (fun s (p : Addr × Val) => completeUnbonding s p.1 p.2) _ _) ?_ ⟨rfl, rfl, rfl, rfl⟩
  refine foldl_inv IdInv _ (fun s (p : Addr × Val) hs => idInv_completeUnbonding hs p.1 p.2) _ _ ?_
  exact h.frame ⟨rfl, rfl, rfl, rfl⟩

theorem govEnd_iframe (s : State) : IFrame s (govEnd s) := by
  unfold govEnd
  refine ⟨?_, ?_, ?_, ?_⟩
  · exact (foldl_keep (fun s : State => s.ubds) _ (by intros; rfl) _ _).trans (foldl_keep (fun s : State => s.ubds) _ (by intros; rfl) _ _)
  · exact (foldl_keep (fun s : State => s.reds) _ (by intros; rfl) _ _).trans (foldl_keep (fun s : State => s.reds) _ (by intros; rfl) _ _)
  · exact (foldl_keep (fun s : State => s.unbId) _ (by intros; rfl) _ _).trans (foldl_keep (fun s : State => s.unbId) _ (by intros; rfl) _ _)
  · exact (foldl_keep (fun s : State => s.nextUnbId) _ (by intros; rfl) _ _).trans (foldl_keep (fun s : State => s.nextUnbId) _ (by intros; rfl) _ _)

theorem idInv_endBlock {s : State} (h : IdInv s) (dt : Nat) : IdInv (endBlock s dt) := by
  unfold endBlock
  exact ((idInv_stakingEnd h).frame (govEnd_iframe _)).frame ⟨rfl, rfl, rfl, rfl⟩

/-! ### migration -/

theorem IdInv.idWF {s : State} (h : IdInv s) (frm to : Addr)
    (hto : (∀ p ∈ s.ubds, p.1.1 ≠ to) ∧ (∀ p ∈ s.reds, p.1.1 ≠ to)) : IdWF s frm to := by
  refine ⟨fun v es e hg he => h.ubd (frm, v) es e hg he, fun a b es e hg he => h.red (frm, a, b) es e hg he,
    fun id r hg hr => ?_, fun id r hg hr => ?_⟩
  · rcases h.of id r hg with ⟨_, es, hes, e, he, hee⟩ | ⟨b, _, es, hes, e, he, hee⟩
    · rw [hr] at hes; exact Or.inl ⟨r.2.1, es, e, hes, he, hee⟩
    · rw [hr] at hes; exact Or.inr ⟨r.2.1, b, es, e, hes, he, hee⟩
  · rcases h.of id r hg with ⟨_, es, hes, _⟩ | ⟨b, _, es, hes, _⟩
    · exact hto.1 _ (get_some_mem _ _ _ hes) hr
    · exact hto.2 _ (get_some_mem _ _ _ hes) hr

/-- a record of the state after `Execute` is a record of the state before, read at the swapped delegator -/
theorem rekey_back {β ν : Type} [BEq β] [LawfulBEq β] [BEq ν] [LawfulBEq ν] (m : Store (Addr × β) ν) (frm to : Addr) (hne : frm ≠ to)
    (hto : ∀ p ∈ m, p.1.1 ≠ to) (k : Addr × β) (y : ν)
    (hg : get ((entriesOf m frm).foldl (rekeyStep frm to) m) k = some y) :
    get m (sw frm to k.1, k.2) = some y ∧ k.1 ≠ frm := by
  rw [rekey_spec m frm to hne hto k.1 k.2] at hg
  by_cases h2 : k.1 = to
  · rw [if_pos h2] at hg
    rw [h2, sw_to]; exact ⟨hg, fun e => hne e.symm⟩
  · rw [if_neg h2] at hg
    by_cases h1 : k.1 = frm
    · rw [if_pos h1] at hg; cases hg
    · rw [if_neg h1] at hg
      rw [sw_fix frm to k.1 h1 h2]; exact ⟨hg, h1⟩

theorem idInv_stakingExecute (c : Cfg) (hc : c.rewriteUnbId = true) {s : State} (h : IdInv s) (frm to : Addr)
    (hne : frm ≠ to) (hto : (∀ p ∈ s.ubds, p.1.1 ≠ to) ∧ (∀ p ∈ s.reds, p.1.1 ≠ to)) :
    IdInv (stakingExecute c s frm to) := by
  have hid : ∀ id, get (stakingExecute c s frm to).unbId id = (get s.unbId id).map (swP frm to) :=
    fun id => unbId_ExtRel c hc s (h.idWF frm to hto) id
  have fr := stakingExecute_frame c s frm to
  have hsw : ∀ a : Addr, a ≠ frm → sw frm to (sw frm to a) = a := fun a _ => sw_sw frm to a
  refine ⟨?_, ?_, ?_, ?_, ?_, ?_⟩
  · intro k es e hg he
    rw [exec_ubdsG] at hg
    obtain ⟨hg0, hk⟩ := rekey_back s.ubds frm to hne hto.1 k es hg
    rw [hid, h.ubd _ es e hg0 he]
    simp only [Option.map_some, swP, sw_sw]
  · intro k es e hg he
    rw [exec_reds] at hg
    obtain ⟨hg0, hk⟩ := rekey_back s.reds frm to hne hto.2 k es hg
    rw [hid, h.red _ es e hg0 he]
    simp only [Option.map_some, swP, sw_sw]
  · intro id r' hg
    rw [hid] at hg
    cases hg0 : get s.unbId id with
    | none => rw [hg0] at hg; cases hg
    | some r =>
      rw [hg0] at hg
      simp only [Option.map_some, Option.some.injEq] at hg
      subst hg
      rw [exec_ubdsG, exec_reds]
      rcases h.of id r hg0 with ⟨hr, es, hes, e, he, hee⟩ | ⟨b, hr, es, hes, e, he, hee⟩
      · left
        refine ⟨hr, es, ?_, e, he, hee⟩
        have hr2 : r.1 ≠ to := hto.1 _ (get_some_mem _ _ _ hes)
        show get _ (sw frm to r.1, r.2.1) = some es
        rw [rekey_spec s.ubds frm to hne hto.1]
        by_cases h1 : r.1 = frm
        · rw [h1, sw_frm]; simp only [↓reduceIte]; rw [← h1]; exact hes
        · rw [sw_fix frm to r.1 h1 hr2]; simp only [hr2, h1, ↓reduceIte]; exact hes
      · right
        refine ⟨b, hr, es, ?_, e, he, hee⟩
        have hr2 : r.1 ≠ to := hto.2 _ (get_some_mem _ _ _ hes)
        show get _ (sw frm to r.1, r.2.1, b) = some es
        rw [rekey_spec s.reds frm to hne hto.2]
        by_cases h1 : r.1 = frm
        · rw [h1, sw_frm]; simp only [↓reduceIte]; rw [← h1]; exact hes
        · rw [sw_fix frm to r.1 h1 hr2]; simp only [hr2, h1, ↓reduceIte]; exact hes
  · intro id r' hg
    rw [hid] at hg
    rw [fr.nextUnbId]
    cases hg0 : get s.unbId id with
    | none => rw [hg0] at hg; cases hg
    | some r => exact h.fresh id r hg0
  · intro k es hg
    rw [exec_ubdsG] at hg
    exact h.undup _ es (rekey_back s.ubds frm to hne hto.1 k es hg).1
  · intro k es hg
    rw [exec_reds] at hg
    exact h.rndup _ es (rekey_back s.reds frm to hne hto.2 k es hg).1

end FxVerif.Proofs.C14
