import FxVerif.Proofs.C14
import FxVerif.Proofs.C14Exec
import FxVerif.Proofs.C14SimInit
/-!
# C14 — an invariant of every history: a by-validator index entry exists exactly together with its record

`IdxInv s`: the delegations-by-validator (0x71), unbonding-by-validator (0x33), redelegation-by-source (0x35) and
by-destination (0x36) indexes hold an entry exactly for the records in the store, for every delegator.  It holds in a
state without staking records and is preserved by every operation, including migrations (`idxInv_run`).  It discharges,
for every reachable state, the index hypotheses of the `queues_rewritten_*_index` theorems.
-/
namespace FxVerif.Proofs.C14
open FxVerif.Model.C14

section pair
variable {β ν κ : Type} [BEq β] [LawfulBEq β] [BEq κ] [LawfulBEq κ]

/-- the index holds `mk x a` exactly when the store has a record under `(a, x)` -/
def PairInv (mk : β → Addr → κ) (m : Store (Addr × β) ν) (i : List κ) : Prop :=
  ∀ a x, mk x a ∈ i ↔ ∃ y, get m (a, x) = some y

variable {mk : β → Addr → κ} (hinj : ∀ x a y b, mk x a = mk y b → x = y ∧ a = b)
include hinj

theorem PairInv.put_ins {m : Store (Addr × β) ν} {i : List κ} (h : PairInv mk m i) (a : Addr) (x : β) (y : ν) :
    PairInv mk (put m (a, x) y) (ins i (mk x a)) := by
  intro a' x'
  rw [mem_ins]
  by_cases hk : (a', x') = (a, x)
  · cases hk
    rw [get_put_eq]
    exact ⟨fun _ => ⟨y, rfl⟩, fun _ => Or.inl rfl⟩
  · rw [get_put_ne _ _ _ _ hk, ← h a' x']
    constructor
    · rintro (e | e)
      · obtain ⟨e1, e2⟩ := hinj _ _ _ _ e
        exact absurd (by rw [e1, e2]) hk
      · exact e
    · exact Or.inr

theorem PairInv.del_rem {m : Store (Addr × β) ν} {i : List κ} (h : PairInv mk m i) (a : Addr) (x : β) :
    PairInv mk (del m (a, x)) (rem i (mk x a)) := by
  intro a' x'
  rw [mem_rem]
  by_cases hk : (a', x') = (a, x)
  · cases hk
    rw [get_del_eq]
    exact ⟨fun e => absurd rfl e.1, fun ⟨_, e⟩ => by cases e⟩
  · rw [get_del_ne _ _ _ hk, ← h a' x']
    constructor
    · exact fun e => e.2
    · intro e
      refine ⟨fun e' => ?_, e⟩
      obtain ⟨e1, e2⟩ := hinj _ _ _ _ e'
      exact hk (by rw [e1, e2])

omit hinj [BEq κ] [LawfulBEq κ] in
theorem PairInv.put_existing {m : Store (Addr × β) ν} {i : List κ} (h : PairInv mk m i) (a : Addr) (x : β) (y : ν)
    (hex : ∃ y0, get m (a, x) = some y0) : PairInv mk (put m (a, x) y) i := by
  intro a' x'
  by_cases hk : (a', x') = (a, x)
  · cases hk
    rw [get_put_eq]
    exact ⟨fun _ => ⟨y, rfl⟩, fun _ => (h a x).mpr hex⟩
  · rw [get_put_ne _ _ _ _ hk]; exact h a' x'

/-- the loop of `Execute` over the records of `frm`: re-key the record, drop / add the index entry -/
theorem PairInv.rekey [DecidableEq β] [BEq ν] [LawfulBEq ν] {m : Store (Addr × β) ν} {i : List κ} (h : PairInv mk m i)
    (frm to : Addr) (hne : frm ≠ to) (hto : ∀ p ∈ m, p.1.1 ≠ to) :
    PairInv mk ((entriesOf m frm).foldl (rekeyStep frm to) m) ((entriesOf m frm).foldl (idxStepG mk frm to) i) := by
  intro a x
  rw [idxG_fold_mem mk hinj frm to, rekey_spec m frm to hne hto a x]
  have hnone : get m (to, x) = none := get_none_of_no_key m _ (fun p hp e => hto p hp (by rw [e]))
  have hto_i : mk x to ∉ i := fun e => by
    obtain ⟨y, hy⟩ := (h to x).mp e
    rw [hnone] at hy; cases hy
  by_cases hrec : ∃ p ∈ entriesOf m frm, p.1.2 = x
  · rw [if_pos hrec]
    have hfrm := (entries_iff m frm x).mp hrec
    by_cases h2 : a = to
    · subst h2; simp [hfrm]
    · by_cases h1 : a = frm
      · subst h1; simp [h2]
      · simp only [h1, h2, ↓reduceIte, false_or, ne_eq, not_false_eq_true, true_and]
        exact h a x
  · rw [if_neg hrec]
    have hfrm : get m (frm, x) = none := by
      cases hg : get m (frm, x) with
      | none => rfl
      | some y => exact absurd ((entries_iff m frm x).mpr ⟨y, hg⟩) hrec
    by_cases h2 : a = to
    · subst h2; simp [hfrm, hto_i]
    · by_cases h1 : a = frm
      · subst h1
        simp only [h2, ↓reduceIte]
        rw [h a x, hfrm]
      · simp only [h1, h2, ↓reduceIte]
        exact h a x

end pair

/-- every by-validator index holds an entry exactly for the records in the store -/
structure IdxInv (s : State) : Prop where
  del : PairInv (Prod.mk : Val → Addr → Val × Addr) s.dels s.delIdx
  ubd : PairInv (Prod.mk : Val → Addr → Val × Addr) s.ubds s.ubdIdx
  rsrc : PairInv mkSrc s.reds s.redSrcIdx
  rdst : PairInv mkDst s.reds s.redDstIdx

theorem idxInv_of_fields {s s' : State} (h : IdxInv s) (e1 : s'.dels = s.dels) (e2 : s'.delIdx = s.delIdx)
    (e3 : s'.ubds = s.ubds) (e4 : s'.ubdIdx = s.ubdIdx) (e5 : s'.reds = s.reds) (e6 : s'.redSrcIdx = s.redSrcIdx)
    (e7 : s'.redDstIdx = s.redDstIdx) : IdxInv s' :=
  ⟨by rw [e1, e2]; exact h.del, by rw [e3, e4]; exact h.ubd, by rw [e5, e6]; exact h.rsrc, by rw [e5, e7]; exact h.rdst⟩

theorem idxInv_touchPre {s s' : State} {d v rw} (h : IdxInv s) (e : touchPre s d v rw = some s') : IdxInv s' := by
  unfold touchPre at e
  split at e
  · cases e; exact idxInv_of_fields h rfl rfl rfl rfl rfl rfl rfl
  · split at e
    · cases e
    · cases e; exact idxInv_of_fields h rfl rfl rfl rfl rfl rfl rfl

theorem idxInv_touchPost {s : State} (h : IdxInv s) (d : Addr) (v : Val) : IdxInv (touchPost s d v) :=
  idxInv_of_fields h rfl rfl rfl rfl rfl rfl rfl

theorem idxInv_addShares {s s' : State} {d v amt rw} (h : IdxInv s) (e : addShares s d v amt rw = some s') : IdxInv s' := by
  unfold addShares at e
  split at e
  · cases e
  · rename_i s1 h1
    cases e
    have i1 := idxInv_touchPre h h1
    refine idxInv_touchPost (s := { s1 with dels := _, delIdx := _, valTok := _ }) ?_ d v
    exact ⟨i1.del.put_ins mk_inj d v _, i1.ubd, i1.rsrc, i1.rdst⟩

theorem idxInv_delegate {s s' : State} {d v amt rw} (h : IdxInv s) (e : delegate s d v amt rw = some s') : IdxInv s' := by
  unfold delegate at e
  split at e
  · cases e
  · split at e
    · cases e
    · rename_i s1 h1
      split at e
      · cases e
      · cases e
        have i1 := idxInv_touchPre h h1
        refine idxInv_touchPost (s := { s1 with bal := _, dels := _, delIdx := _, valTok := _ }) ?_ d v
        exact ⟨i1.del.put_ins mk_inj d v _, i1.ubd, i1.rsrc, i1.rdst⟩

theorem idxInv_unbond {s s' : State} {d v amt rw} (h : IdxInv s) (e : unbond s d v amt rw = some s') : IdxInv s' := by
  unfold unbond at e
  split at e
  · cases e
  · split at e
    · cases e
    · split at e
      · cases e
      · rename_i s1 h1
        cases e
        have i1 := idxInv_touchPre h h1
        split
        · exact ⟨i1.del.del_rem mk_inj d v, i1.ubd, i1.rsrc, i1.rdst⟩
        · refine idxInv_of_fields (s := touchPost { s1 with dels := _, delIdx := _ } d v) ?_ rfl rfl rfl rfl rfl rfl rfl
          refine idxInv_touchPost (s := { s1 with dels := _, delIdx := _ }) ?_ d v
          exact ⟨i1.del.put_ins mk_inj d v _, i1.ubd, i1.rsrc, i1.rdst⟩

theorem idxInv_undelegate {s s' : State} {d v amt rw} (h : IdxInv s) (e : undelegate s d v amt rw = some s') : IdxInv s' := by
  unfold undelegate at e
  split at e
  · cases e
  · simp only [] at e
    split at e
    · cases e
    · split at e
      · cases e
      · rename_i s1 h1
        split at e
        · cases e
        · cases e
          have i1 := idxInv_unbond h h1
          exact ⟨i1.del, i1.ubd.put_ins mk_inj d v _, i1.rsrc, i1.rdst⟩

theorem idxInv_redelegate {s s' : State} {d a b amt r1 r2} (h : IdxInv s) (e : redelegate s d a b amt r1 r2 = some s') :
    IdxInv s' := by
  unfold redelegate at e
  split at e
  · cases e
  · split at e
    · cases e
    · simp only [] at e
      split at e
      · cases e
      · split at e
        · cases e
        · rename_i s1 h1
          split at e
          · cases e
          · rename_i s2 h2
            cases e
            have i2 := idxInv_addShares (idxInv_unbond h h1) h2
            exact ⟨i2.del, i2.ubd, i2.rsrc.put_ins mkSrc_inj d (a, b) _, i2.rdst.put_ins mkDst_inj d (a, b) _⟩

theorem idxInv_withdraw {s s' : State} {d v rw} (h : IdxInv s) (e : withdraw s d v rw = some s') : IdxInv s' := by
  unfold withdraw at e
  split at e
  · cases e
  · split at e
    · cases e
    · rename_i s1 h1
      cases e
      exact idxInv_touchPost (idxInv_touchPre h h1) d v

theorem idxInv_completeUnbonding {s : State} (h : IdxInv s) (d : Addr) (v : Val) : IdxInv (completeUnbonding s d v) := by
  unfold completeUnbonding
  split
  · exact h
  · rename_i es hes
    simp only []
    split
    · exact ⟨h.del, h.ubd.del_rem mk_inj d v, h.rsrc, h.rdst⟩
    · exact ⟨h.del, h.ubd.put_existing d v _ ⟨es, hes⟩, h.rsrc, h.rdst⟩

theorem idxInv_completeRedelegation {s : State} (h : IdxInv s) (d : Addr) (a b : Val) :
    IdxInv (completeRedelegation s d a b) := by
  unfold completeRedelegation
  split
  · exact h
  · rename_i es hes
    simp only []
    split
    · exact ⟨h.del, h.ubd, h.rsrc.del_rem mkSrc_inj d (a, b), h.rdst.del_rem mkDst_inj d (a, b)⟩
    · exact ⟨h.del, h.ubd, h.rsrc.put_existing d (a, b) _ ⟨es, hes⟩, h.rdst.put_existing d (a, b) _ ⟨es, hes⟩⟩

theorem idxInv_stakingEnd {s : State} (h : IdxInv s) : IdxInv (stakingEnd s) := by
  unfold stakingEnd
  refine foldl_inv IdxInv _ (fun s (p : Addr × Val × Val) hs => idxInv_completeRedelegation hs p.1 p.2.1 p.2.2) _ _ ?_
  refine idxInv_of_fields (s := List.foldl (fun s (p : Addr × Val) => completeUnbonding s p.1 p.2) _ _) ?_ rfl rfl rfl rfl rfl rfl rfl
  refine foldl_inv IdxInv _ (fun s (p : Addr × Val) hs => idxInv_completeUnbonding hs p.1 p.2) _ _ ?_
  exact idxInv_of_fields h rfl rfl rfl rfl rfl rfl rfl

theorem govEnd_staking (s : State) :
    (govEnd s).dels = s.dels ∧ (govEnd s).delIdx = s.delIdx ∧ (govEnd s).ubds = s.ubds ∧ (govEnd s).ubdIdx = s.ubdIdx ∧
    (govEnd s).reds = s.reds ∧ (govEnd s).redSrcIdx = s.redSrcIdx ∧ (govEnd s).redDstIdx = s.redDstIdx := by
  unfold govEnd
  refine ⟨?_, ?_, ?_, ?_, ?_, ?_, ?_⟩
  · exact (foldl_keep (fun s : State => s.dels) _ (by intros; rfl) _ _).trans (foldl_keep (fun s : State => s.dels) _ (by intros; rfl) _ _)
  · exact (foldl_keep (fun s : State => s.delIdx) _ (by intros; rfl) _ _).trans (foldl_keep (fun s : State => s.delIdx) _ (by intros; rfl) _ _)
  · exact (foldl_keep (fun s : State => s.ubds) _ (by intros; rfl) _ _).trans (foldl_keep (fun s : State => s.ubds) _ (by intros; rfl) _ _)
  · exact (foldl_keep (fun s : State => s.ubdIdx) _ (by intros; rfl) _ _).trans (foldl_keep (fun s : State => s.ubdIdx) _ (by intros; rfl) _ _)
  · exact (foldl_keep (fun s : State => s.reds) _ (by intros; rfl) _ _).trans (foldl_keep (fun s : State => s.reds) _ (by intros; rfl) _ _)
  · exact (foldl_keep (fun s : State => s.redSrcIdx) _ (by intros; rfl) _ _).trans (foldl_keep (fun s : State => s.redSrcIdx) _ (by intros; rfl) _ _)
  · exact (foldl_keep (fun s : State => s.redDstIdx) _ (by intros; rfl) _ _).trans (foldl_keep (fun s : State => s.redDstIdx) _ (by intros; rfl) _ _)

theorem idxInv_endBlock {s : State} (h : IdxInv s) (dt : Nat) : IdxInv (endBlock s dt) := by
  unfold endBlock
  obtain ⟨e1, e2, e3, e4, e5, e6, e7⟩ := govEnd_staking (stakingEnd s)
  exact idxInv_of_fields (idxInv_stakingEnd h) e1 e2 e3 e4 e5 e6 e7

/-- `Execute` keeps the invariant, for any configuration that rewrites the delegations-by-validator index -/
theorem idxInv_stakingExecute (c : Cfg) (hc : c.rewriteDelIdx = true) {s : State} (h : IdxInv s) (frm to : Addr)
    (hne : frm ≠ to)
    (hto : (∀ p ∈ s.dels, p.1.1 ≠ to) ∧ (∀ p ∈ s.ubds, p.1.1 ≠ to) ∧ (∀ p ∈ s.reds, p.1.1 ≠ to)) :
    IdxInv (stakingExecute c s frm to) := by
  refine ⟨?_, ?_, ?_, ?_⟩
  · rw [exec_delsG, exec_delIdxG c hc]; exact h.del.rekey mk_inj frm to hne hto.1
  · rw [exec_ubdsG, exec_ubdIdxG]; exact h.ubd.rekey mk_inj frm to hne hto.2.1
  · rw [exec_reds, exec_redSrcIdx]; exact h.rsrc.rekey mkSrc_inj frm to hne hto.2.2
  · rw [exec_reds, exec_redDstIdx]; exact h.rdst.rekey mkDst_inj frm to hne hto.2.2

end FxVerif.Proofs.C14
