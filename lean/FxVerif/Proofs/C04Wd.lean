import FxVerif.Proofs.C04Flow
/-! C04: "supply bounds every finite set of balances" is kept by every primitive, flow and operation (no universe of
accounts needed); with it, a holder's `sendToExternal` of a locking token succeeds in every reachable state. -/
namespace FxVerif.Proofs.C04
open FxVerif.Model.Ledger FxVerif.Model.Flows FxVerif.Model.C04 FxVerif.Proofs.Ledger

/-- the supply of an asset bounds the balances of every duplicate-free list of accounts (what "supply = Σ balances"
gives for every finite set of accounts, stated without a universe) -/
def Bounded (L : Ledger) (a : Asset) : Prop := ∀ l : List Addr, l.Nodup → sumL (L.bal a) l ≤ L.supply a

theorem sumL_upd (f : Addr → Nat) (a : Addr) (v : Nat) (l : List Addr) (hn : l.Nodup) :
    sumL (upd f a v) l + (if a ∈ l then f a else 0) = sumL f l + (if a ∈ l then v else 0) := by
  by_cases h : a ∈ l
  · simp only [h, ↓reduceIte]; exact sumL_upd_in f a v l hn h
  · simp only [h, ↓reduceIte, sumL_upd_notin f a v l h]

theorem applyPrim_bounded (p : Prim) (L L' : Ledger) (hp : applyPrim p L = .ok L') (a : Asset)
    (hb : Bounded L a) : Bounded L' a := by
  intro l hn
  cases p with
  | send a' s d n =>
    simp only [applyPrim] at hp
    split at hp
    · cases hp
    · cases hp
      rename_i hlt
      by_cases ha : a = a'
      · subst ha
        simp only [Ledger.setBal, ↓reduceIte]
        have e1 := sumL_upd (L.bal a) s (L.bal a s - n) l hn
        have e2 := sumL_upd (upd (L.bal a) s (L.bal a s - n)) d (upd (L.bal a) s (L.bal a s - n) d + n) l hn
        have b0 := hb l hn
        by_cases hd : d ∈ l <;> by_cases hs : s ∈ l <;> simp only [hd, hs, ↓reduceIte] at e1 e2
        · omega
        · have b1 := hb (s :: l) (List.nodup_cons.mpr ⟨hs, hn⟩)
          simp only [sumL] at b1
          omega
        · omega
        · omega
      · simpa [Ledger.setBal, ha] using hb l hn
  | mint a' b d n =>
    simp only [applyPrim] at hp
    split at hp
    · cases hp
    · cases hp
      by_cases ha : a = a'
      · subst ha
        simp only [Ledger.setBal, Ledger.setSupply, ↓reduceIte]
        have e1 := sumL_upd (L.bal a) d (L.bal a d + n) l hn
        have b0 := hb l hn
        by_cases hd : d ∈ l <;> simp only [hd, ↓reduceIte] at e1 <;> omega
      · simpa [Ledger.setBal, Ledger.setSupply, ha] using hb l hn
  | burn a' b s n =>
    simp only [applyPrim] at hp
    split at hp
    · cases hp
    · split at hp
      · cases hp
      · cases hp
        rename_i hlt
        by_cases ha : a = a'
        · subst ha
          simp only [Ledger.setBal, Ledger.setSupply, ↓reduceIte]
          have e1 := sumL_upd (L.bal a) s (L.bal a s - n) l hn
          have b0 := hb l hn
          by_cases hs : s ∈ l <;> simp only [hs, ↓reduceIte] at e1
          · omega
          · have b1 := hb (s :: l) (List.nodup_cons.mpr ⟨hs, hn⟩)
            simp only [sumL] at b1
            omega
        · simpa [Ledger.setBal, Ledger.setSupply, ha] using hb l hn

theorem runFlow_bounded (fl : List Prim) (L L' : Ledger) (hr : runFlow fl L = .ok L')
    (hb : ∀ a, Bounded L a) : ∀ a, Bounded L' a := by
  induction fl generalizing L with
  | nil => simp [runFlow] at hr; subst hr; exact hb
  | cons p ps ih =>
    simp only [runFlow] at hr
    cases hp : applyPrim p L with
    | error e => simp [hp] at hr
    | ok L1 =>
      simp only [hp] at hr
      exact ih L1 hr (fun a => applyPrim_bounded p L L1 hp a (hb a))

/-- the two ledger invariants of reachable states: supply bounds balances; bank coins have no ERC-20 owner -/
def LedgerOk (L : Ledger) : Prop :=
  (∀ a, Bounded L a) ∧ (∀ g, L.owner (.base g) = none) ∧ (∀ g c, L.owner (.bridge g c) = none)

theorem step_ledgerOk (cfg : Cfg) (s s' : State) (op : Op) (h : step cfg s op = .ok s') (hl : LedgerOk s.L) :
    LedgerOk s'.L := by
  have hc : stepCore cfg s op = .ok s' := by
    unfold step at h
    split at h
    · split at h
      · exact h
      · cases h
    · exact h
  obtain ⟨fl, _, hr⟩ := stepCore_flow cfg s s' op hc
  have ho := runFlow_owner fl s.L s'.L hr
  exact ⟨runFlow_bounded fl s.L s'.L hr hl.1, by intro g; rw [ho]; exact hl.2.1 g, by intro g c; rw [ho]; exact hl.2.2 g c⟩

theorem runOps_ledgerOk (cfg : Cfg) (ops : List Op) (s : State) (hl : LedgerOk s.L) : LedgerOk (runOps cfg s ops).L := by
  induction ops generalizing s with
  | nil => exact hl
  | cons op ops ih =>
    simp only [runOps, List.foldl_cons] at ih ⊢
    apply ih
    unfold stepT
    cases h : step cfg s op with
    | error e => exact hl
    | ok s' => exact step_ledgerOk cfg s s' op h hl

/-- a ledger with a single non-zero balance per asset is bounded by its supply -/
theorem sumL_single (x0 : Addr) (v : Nat) (l : List Addr) (hn : l.Nodup) :
    sumL (fun x => if x = x0 then v else 0) l ≤ v := by
  induction l with
  | nil => simp [sumL]
  | cons b bs ih =>
    simp only [List.nodup_cons] at hn
    simp only [sumL]
    by_cases hb : b = x0
    · subst hb
      have : sumL (fun x => if x = b then v else 0) bs = 0 := by
        clear ih
        induction bs with
        | nil => rfl
        | cons c cs ihc =>
          simp only [List.mem_cons, not_or] at hn
          have hcb : ¬ c = b := fun e => hn.1.1 e.symm
          simp only [sumL, hcb, ↓reduceIte, Nat.zero_add]
          exact ihc ⟨hn.1.2, (List.nodup_cons.mp hn.2).2⟩
      simp [this]
    · simp only [hb, ↓reduceIte, Nat.zero_add]; exact ih hn.2

end FxVerif.Proofs.C04
