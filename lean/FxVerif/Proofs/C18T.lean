import FxVerif.Proofs.C18P
import FxVerif.Model.C18Inv
/-!
# C18 — the WHOLE executeClaim transaction (`Gen.C18.executeClaimTxProg`)

`ExecuteClaimMethod.Run` of the crosschain precompile with the keeper's `ExecuteClaim` → `BridgeCallHandler` →
`BridgeCallEvm` / `BridgeCallFailedRefund` inlined into the statedb native action (regenerated, `go/extract/c18prog.go`
3c).  The native action is cache 1 (parent: the outer context = the statedb's context); the cache `BridgeCallHandler`
opens is cache 2, a branch OF cache 1.  So a failure of the refund calls themselves (`SendCoins`, `AddOutgoingBridgeCall`)
no longer has to be assumed away: it makes the closure return the error, cache 1 is dropped and NOTHING is written.
-/
namespace FxVerif.Proofs.C18T
open FxVerif.Gen.C18 FxVerif.Model.C18P FxVerif.Proofs.C18P FxVerif.Model.C18Inv

/-- what is pending on the native action (cache 1) after the credits -/
def txPre (env : Env) : List Tok := bciPre ++ toks "k.BridgeTokenToBaseCoin" (env.iters 1 0) 0

def T1Inv (env : Env) (f0 : List Nat) (i : Nat) (st : St) : Prop :=
  st.outer = [] ∧ st.caches = [(1, Ctx.outer, bciPre ++ toks "k.BridgeTokenToBaseCoin" i 0)] ∧ st.failed = f0 ∧ BciAll1 env i

def T1Post (env : Env) (f0 : List Nat) (n : Nat) (r : Flow × St) : Prop :=
  r.2.outer = [] ∧
  ((¬ BciAll1 env n ∧ r.1 = .ret false ∧ ∃ ts, r.2.caches = [(1, Ctx.outer, ts)]) ∨
   (BciAll1 env n ∧ r.1 = .norm ∧ r.2.caches = [(1, Ctx.outer, bciPre ++ toks "k.BridgeTokenToBaseCoin" n 0)] ∧ r.2.failed = f0))

/-- the credits: written on the NATIVE ACTION's branch, nothing on the statedb context -/
theorem tx_loop1 (env : Env) (hp : NoPanic env) (L : Stmt) (hL : loopOf executeClaimTxProg 1 = some L)
    (bad : List Nat) (evm : List (Nat × EvmKind)) (f0 : List Nat) :
    T1Post env f0 (env.iters 1 0) (exec env L 0 { outer := [], caches := [(1, Ctx.outer, bciPre)], bad := bad, evm := evm, failed := f0 }) := by
  simp [loopOf, executeClaimTxProg, seqs] at hL
  subst hL
  rw [exec_loop, Nat.zero_mul]
  refine iterate_inv_bdd _ (T1Inv env f0) (T1Post env f0 (env.iters 1 0)) (env.iters 1 0) 0 _
    ⟨rfl, by simp [toks], rfl, fun j hj => absurd hj (Nat.not_lt_zero j)⟩ ?_ ?_
  · intro i st _ hi hst
    obtain ⟨outer, caches, bad, evm, failed⟩ := st
    obtain ⟨h1, h2, h3, h4⟩ := hst
    simp only at h1 h2 h3
    subst h1 h2 h3
    have hp' := fun n i => hp n i
    have hno : env.ok "k.BridgeTokenToBaseCoin" i = false → ¬ BciAll1 env (env.iters 1 0) := by
      intro hf hall
      have := hall i (by omega)
      simp [hf] at this
    by_cases h : env.ok "k.BridgeTokenToBaseCoin" i <;> c18eval
    · exact ⟨rfl, by simp [toks_snoc], rfl, all_succ _ i h4 h⟩
    · exact ⟨rfl, Or.inl ⟨hno (by simpa using h), rfl, ⟨_, rfl⟩⟩⟩
  · intro st hst
    obtain ⟨h1, h2, h3, h4⟩ := hst
    simp at h2 h4
    exact ⟨h1, Or.inr ⟨h4, rfl, h2, h3⟩⟩

def T2Inv (env : Env) (p1 : List Tok) (f0 : List Nat) (i : Nat) (st : St) : Prop :=
  st.outer = [] ∧ st.caches = [(2, Ctx.cache 1, toks "k.BaseCoinToEvm" i 0), (1, Ctx.outer, p1)] ∧ st.failed = f0 ∧ BciAll2 env i

def T2Post (env : Env) (p1 : List Tok) (f0 : List Nat) (n : Nat) (r : Flow × St) : Prop :=
  r.2.outer = [] ∧
    ((BciAll2 env n ∧ r.1 = .norm ∧ r.2.caches = [(2, Ctx.cache 1, toks "k.BaseCoinToEvm" n 0), (1, Ctx.outer, p1)] ∧ r.2.failed = f0) ∨
     (¬ BciAll2 env n ∧ r.1 = .ret false ∧ (∃ ts, r.2.caches = [(2, Ctx.cache 1, ts), (1, Ctx.outer, p1)]) ∧ r.2.failed = 2 :: f0))

/-- the conversions: written on the branch of the branch (cache 2 of cache 1) -/
theorem tx_loop2 (env : Env) (hp : NoPanic env) (L : Stmt) (hL : loopOf executeClaimTxProg 2 = some L)
    (p1 : List Tok) (bad : List Nat) (evm : List (Nat × EvmKind)) (f0 : List Nat) :
    T2Post env p1 f0 (env.iters 2 0)
      (exec env L 0 { outer := [], caches := [(2, Ctx.cache 1, []), (1, Ctx.outer, p1)], bad := bad, evm := evm, failed := f0 }) := by
  simp [loopOf, executeClaimTxProg, seqs] at hL
  subst hL
  rw [exec_loop, Nat.zero_mul]
  refine iterate_inv_bdd _ (T2Inv env p1 f0) (T2Post env p1 f0 (env.iters 2 0)) (env.iters 2 0) 0 _
    ⟨rfl, by simp [toks], rfl, fun j hj => absurd hj (Nat.not_lt_zero j)⟩ ?_ ?_
  · intro i st _ hi hst
    obtain ⟨outer, caches, bad, evm, failed⟩ := st
    obtain ⟨h1, h2, h3, h4⟩ := hst
    simp only at h1 h2 h3
    subst h1 h2 h3
    have hp' := fun n i => hp n i
    have hno : env.ok "k.BaseCoinToEvm" i = false → ¬ BciAll2 env (env.iters 2 0) := by
      intro hf hall
      have := hall i (by omega)
      simp [hf] at this
    by_cases h : env.ok "k.BaseCoinToEvm" i <;> c18eval
    · exact ⟨rfl, by simp [toks_snoc], rfl, all_succ _ i h4 h⟩
    · exact ⟨rfl, Or.inr ⟨hno (by simpa using h), rfl, ⟨_, rfl⟩, rfl⟩⟩
  · intro st hst
    obtain ⟨h1, h2, h3, h4⟩ := hst
    simp at h2 h4
    exact ⟨h1, Or.inl ⟨h4, rfl, h2, h3⟩⟩

theorem tx_loop1_eq (env : Env) (hp : NoPanic env) (L : Stmt) (hL : loopOf executeClaimTxProg 1 = some L) (st : St) (r : Flow × St)
    (hr : exec env L 0 st = r) (ho : st.outer = []) (hc : st.caches = [(1, Ctx.outer, bciPre)]) :
    T1Post env st.failed (env.iters 1 0) r := by
  obtain ⟨outer, caches, bad, evm, failed⟩ := st
  simp only at ho hc
  subst hr ho hc
  exact tx_loop1 env hp L hL bad evm failed

theorem tx_loop2_eq (env : Env) (hp : NoPanic env) (L : Stmt) (hL : loopOf executeClaimTxProg 2 = some L) (st : St) (r : Flow × St)
    (p1 : List Tok) (hr : exec env L 0 st = r) (ho : st.outer = []) (hc : st.caches = [(2, Ctx.cache 1, []), (1, Ctx.outer, p1)]) :
    T2Post env p1 st.failed (env.iters 2 0) r := by
  obtain ⟨outer, caches, bad, evm, failed⟩ := st
  simp only at ho hc
  subst hr ho hc
  exact tx_loop2 env hp L hL p1 bad evm failed

/-- the failure path moves the credited coins to the refund address first -/
def txMoves (env : Env) : Prop :=
  env.cond "Keeper.BridgeCallHandler: baseCoins.IsZero()" 0 = false ∧
  env.cond "Keeper.BridgeCallHandler: bytes.Equal(receiverAddr.Bytes(), refundAddr.Bytes())" 0 = false

/-- one of the refund calls themselves fails -/
def txRefundFails (env : Env) : Prop :=
  (txMoves env ∧ env.ok "k.bankKeeper.SendCoins" 0 = false) ∨ env.ok "k.AddOutgoingBridgeCall" 0 = false

/-- the claim fails HARD: a credit fails, or the contract call fails AND its refund fails, or the event cannot be built -/
def txHardFails (env : Env) : Prop :=
  ¬ BciAll1 env (env.iters 1 0) ∨ (bciCachedFails env ∧ txRefundFails env) ∨ env.ok "m.NewExecuteClaimEvent" 0 = false

/-- the method is reached with a pending inbound bridge call whose sender is not a module account -/
structure TxReached (env : Env) : Prop where
  router : env.cond "Run: m.router == nil" 0 = false
  unpack : env.ok "m.UnpackInput" 0 = true
  has : env.cond "Run: has" 0 = true
  found : env.cond "Keeper.ExecuteClaim: found" 0 = true
  notStf : env.cond "Keeper.ExecuteClaim: externalClaim.(type) is *types.MsgSendToFxClaim" 0 = false
  isBc : env.cond "Keeper.ExecuteClaim: externalClaim.(type) is *types.MsgBridgeCallClaim" 0 = true
  notModule : env.ok "k.ak.GetAccount" 0 = true ∨ env.cond "Keeper.BridgeCallHandler: ok" 0 = false

/-- the ghost list `St.failed` kept FOLDED.  A call WITHOUT an error result (`DeletePendingExecuteClaim`,
`CreateBridgeAccount`) cannot influence the control flow: whether the environment flags it as failing only shows in the
ghost list, so a proof whose statement does not mention `failed` need not fork on it.  `mf` is never unfolded. -/
def mf (c : Ctx) (b : Bool) (l : List Nat) : List Nat :=
  match c with
  | .cache k => if b then k :: l else l
  | _ => l

def gmark (st : St) (c : Ctx) (b : Bool) : St := { st with failed := mf c b st.failed }

theorem gmark_mk (o : List Tok) (cs : List (Nat × Ctx × List Tok)) (bad : List Nat) (evm : List (Nat × EvmKind)) (f : List Nat)
    (c : Ctx) (b : Bool) : gmark ⟨o, cs, bad, evm, f⟩ c b = ⟨o, cs, bad, evm, mf c b f⟩ := rfl

theorem markFailed_gmark (st : St) (c : Ctx) (b : Bool) : markFailed st c b = gmark st c b := by
  cases c <;> simp [markFailed, gmark, mf]
  split <;> rfl

/-- a call with an error variable: as `exec_call` -/
theorem exec_call_some (env : Env) (name : String) (c : Ctx) (v : Var) (resp : Option Var) (args : List Var) (it : Nat) (st : St) :
    exec env (.call name c (some v) resp args) it st =
      if env.panics name it then (.panic, markFailed (writeMany st c [⟨name, it, args.map st.isOk⟩]) c true)
      else if env.ok name it then
        (if env.evm name it = .ok ∨ resp = none then
          (.norm, setEvm (setVar (writeMany st c [⟨name, it, args.map st.isOk⟩]) (some v) true) resp (env.evm name it))
        else (.norm, markFailed (setEvm (setVar (writeMany st c [⟨name, it, args.map st.isOk⟩]) (some v) true) resp (env.evm name it)) c true))
      else (.norm, markFailed (setEvm (setVar (writeMany st c [⟨name, it, args.map st.isOk⟩]) (some v) false) resp (env.evm name it)) c true) :=
  exec_call env name c (some v) resp args it st

/-- a call WITHOUT error variable and response: no fork on its result, the ghost list stays folded -/
theorem exec_call_none (env : Env) (name : String) (c : Ctx) (args : List Var) (it : Nat) (st : St) :
    exec env (.call name c none none args) it st =
      if env.panics name it then (.panic, markFailed (writeMany st c [⟨name, it, args.map st.isOk⟩]) c true)
      else (.norm, gmark (writeMany st c [⟨name, it, args.map st.isOk⟩]) c (!env.ok name it)) := by
  rw [exec_call]
  cases env.panics name it <;> cases hok : env.ok name it <;> simp [setVar, setEvm, markFailed_gmark]
  cases c <;> rfl

/-- `c18eval` that does not fork on the result of calls without an error variable -/
macro "c18evalG" : tactic => `(tactic| simp [run, seqs, exec_seq, exec_block, exec_inl, exec_skip, exec_open, exec_commit, exec_call_some, exec_call_none, exec_panic,
  exec_setErr, exec_ite, exec_brk, exec_cont, exec_ret, seqK_norm, seqK_brk, seqK_cont, seqK_ret, seqK_panic, seqK_ite,
  blockK_norm, blockK_brk, blockK_cont, blockK_ret, blockK_panic, blockK_ite, inlK_norm, inlK_ret, inlK_brk, inlK_cont,
  inlK_panic_none, inlK_panic_some, inlK_ite, writeMany, isOpen, markFailed, gmark_mk, setVar, setEvm, evalCond, St.isOk, St.evmOf,
  retOk, commitCache, St.init, List.filter_cons, List.filter_nil, *])

open Classical in
/-- every path of the executeClaim TRANSACTION for an inbound bridge call: a hard failure leaves NOTHING (the claim stays
pending, `Run` returns the error); otherwise the statedb context carries either everything (call succeeded) or exactly
the designated outcome of the tolerated failure -/
def TxOutcome (env : Env) (r : Flow × St) : Prop :=
  (txHardFails env ∧ r.1 = .ret false ∧ r.2.outer = []) ∨
  (¬ txHardFails env ∧ r.1 = .ret (env.ok "m.PackOutput" 0) ∧
    ((bciCachedFails env ∧ r.2.outer = bciDesignated env) ∨ (¬ bciCachedFails env ∧ r.2.outer = bciSuccess env)))

set_option hygiene false in
/-- the proof script shared by the two halves of `tx_total` (the sender has no account / the sender's account is not a
module account): evaluate the front, replace the credits (`loop 1`) and the conversions (`loop 2`) by their summaries,
evaluate the rest on every path -/
macro "c18txBody" : tactic => `(tactic| (
  c18evalG
  repeat' c18split
  all_goals try (simp_all; done)
  all_goals (
    generalize hr : exec env L1 0 _ = q1
    have k := k1' _ _ hr rfl (by simp [bciPre])
    clear hr
    obtain ⟨fl, ⟨outer, caches, bad, evm, failed⟩⟩ := q1
    obtain ⟨h0, k⟩ := k
    simp only at h0
    subst h0
    rcases k with ⟨hall1, h1, ⟨ts, h2⟩⟩ | ⟨hall1, h1, h2, h3⟩ <;> simp only at h1 h2 <;> subst h1 h2
    · c18evalG
      exact Or.inl ⟨Or.inl hall1, by simp⟩
    · clear h3
      c18evalG
      generalize hr : exec env L2 0 _ = q2
      have k := k2' _ _ _ hr rfl rfl
      clear hr
      obtain ⟨fl, ⟨outer, caches, bad, evm, failed⟩⟩ := q2
      obtain ⟨h1, h3⟩ := k
      simp only at h1 h3
      subst h1
      rcases h3 with ⟨hall2, h3, h4, _⟩ | ⟨hall2, h3, ⟨ts, h4⟩, _⟩ <;> subst h3 h4
      · c18evalG
        repeat' c18split
        all_goals (simp [TxOutcome, txHardFails, txRefundFails, txMoves, bciCachedFails, bciSuccess, bciDesignated, bciPre, hall1, hall2]; try simp_all)
      · c18evalG
        repeat' c18split
        all_goals (simp [TxOutcome, txHardFails, txRefundFails, txMoves, bciCachedFails, bciSuccess, bciDesignated, bciPre, hall1, hall2]; try simp_all))))

set_option maxHeartbeats 800000 in
/-- first half: the sender of the bridge call has no account yet (or a plain one: `GetAccount` "succeeds" in the sense of
the model — the module-account test is not reached) -/
theorem tx_total_acc (env : Env) (hp : NoPanic env)
    (r1 : env.cond "Run: m.router == nil" 0 = false) (r2 : env.ok "m.UnpackInput" 0 = true) (r3 : env.cond "Run: has" 0 = true)
    (r4 : env.cond "Keeper.ExecuteClaim: found" 0 = true)
    (r5 : env.cond "Keeper.ExecuteClaim: externalClaim.(type) is *types.MsgSendToFxClaim" 0 = false)
    (r6 : env.cond "Keeper.ExecuteClaim: externalClaim.(type) is *types.MsgBridgeCallClaim" 0 = true)
    (r7 : env.ok "k.ak.GetAccount" 0 = true) : TxOutcome env (run env executeClaimTxProg) := by
  have k1 := tx_loop1_eq env hp
  have k2 := tx_loop2_eq env hp
  have hp' := fun n i => hp n i
  unfold executeClaimTxProg at k1 k2 ⊢
  simp only [seqs, loopOf] at k1 k2
  simp only [run, seqs]
  generalize hL1 : Stmt.loop 1 _ = L1 at k1 k2 ⊢
  generalize hL2 : Stmt.loop 2 _ = L2 at k1 k2 ⊢
  have k1' := k1 L1 (by simp)
  have k2' := k2 L2 (by simp)
  clear k1 k2 hL1 hL2 hp
  c18txBody

set_option maxHeartbeats 800000 in
/-- second half: the account exists and is not a module account -/
theorem tx_total_notmod (env : Env) (hp : NoPanic env)
    (r1 : env.cond "Run: m.router == nil" 0 = false) (r2 : env.ok "m.UnpackInput" 0 = true) (r3 : env.cond "Run: has" 0 = true)
    (r4 : env.cond "Keeper.ExecuteClaim: found" 0 = true)
    (r5 : env.cond "Keeper.ExecuteClaim: externalClaim.(type) is *types.MsgSendToFxClaim" 0 = false)
    (r6 : env.cond "Keeper.ExecuteClaim: externalClaim.(type) is *types.MsgBridgeCallClaim" 0 = true)
    (r7 : env.ok "k.ak.GetAccount" 0 = false) (r8 : env.cond "Keeper.BridgeCallHandler: ok" 0 = false) :
    TxOutcome env (run env executeClaimTxProg) := by
  have k1 := tx_loop1_eq env hp
  have k2 := tx_loop2_eq env hp
  have hp' := fun n i => hp n i
  unfold executeClaimTxProg at k1 k2 ⊢
  simp only [seqs, loopOf] at k1 k2
  simp only [run, seqs]
  generalize hL1 : Stmt.loop 1 _ = L1 at k1 k2 ⊢
  generalize hL2 : Stmt.loop 2 _ = L2 at k1 k2 ⊢
  have k1' := k1 L1 (by simp)
  have k2' := k2 L2 (by simp)
  clear k1 k2 hL1 hL2 hp
  c18txBody

/-- every path of the executeClaim transaction for a pending inbound bridge call — NO hypothesis on the calls that have no
error result (`DeletePendingExecuteClaim`, `CreateBridgeAccount`): their flag in `Env` only feeds the ghost list -/
theorem tx_total (env : Env) (hp : NoPanic env) (hr : TxReached env) : TxOutcome env (run env executeClaimTxProg) := by
  obtain ⟨r1, r2, r3, r4, r5, r6, r7⟩ := hr
  by_cases h : env.ok "k.ak.GetAccount" 0 = true
  · exact tx_total_acc env hp r1 r2 r3 r4 r5 r6 h
  · rcases r7 with r7 | r7
    · exact absurd r7 h
    · exact tx_total_notmod env hp r1 r2 r3 r4 r5 r6 (by simpa using h) r7

/-! ## gov `EndBlocker`, first part: the inactive proposals and the `AfterProposalFailedMinDeposit` hook -/

/-- the calls of the inactive walk that run on the outer context succeed (an error of any of them is returned by
`EndBlocker`), nothing panics -/
structure InactiveOuterOk (env : Env) : Prop where
  nopanic : NoPanic env
  get : ∀ p, env.ok "keeper.Proposals.Get" p = true
  del : ∀ p, env.ok "keeper.DeleteProposal #2" p = true
  params : ∀ p, env.ok "keeper.Params.Get" p = true
  burn : ∀ p, env.ok "keeper.DeleteAndBurnDeposits" p = true
  refund : ∀ p, env.ok "keeper.RefundAndDeleteDeposits" p = true

/-- what inactive proposal `p` leaves on the outer context: deleted, deposits refunded or burnt, and the hook's writes
only when the hook succeeded -/
def inactiveContribution (env : Env) (p : Nat) : List Tok :=
  [⟨"keeper.DeleteProposal #2", p, []⟩] ++
  (if env.cond "EndBlocker: params.BurnProposalDepositPrevote" p = true then [⟨"keeper.DeleteAndBurnDeposits", p, []⟩]
   else [⟨"keeper.RefundAndDeleteDeposits", p, []⟩]) ++
  (if env.ok "keeper.Hooks().AfterProposalFailedMinDeposit" p = true then [⟨"keeper.Hooks().AfterProposalFailedMinDeposit", p, []⟩] else [])

def inactiveBlock (env : Env) : Nat → List Tok
  | 0 => []
  | n + 1 => inactiveBlock env n ++ inactiveContribution env n

def InactiveInv (env : Env) (p : Nat) (st : St) : Prop :=
  st.outer = inactiveBlock env p ∧ (st.caches = [] ∨ ∃ a, st.caches = [(1, Ctx.outer, a)]) ∧ st.bad.contains 1 = false

def InactivePost (env : Env) (r : Flow × St) : Prop :=
  r.1 = .norm ∧ r.2.outer = inactiveBlock env (env.iters 1 0) ∧ r.2.bad.contains 1 = false

theorem inactive_loop (env : Env) (hok : InactiveOuterOk env) (L : Stmt) (hL : loopOf govInactiveProg 1 = some L) :
    InactivePost env (exec env L 0 {}) := by
  simp [loopOf, govInactiveProg, seqs] at hL
  subst hL
  rw [exec_loop, Nat.zero_mul]
  refine iterate_inv_bdd _ (InactiveInv env) (InactivePost env) (env.iters 1 0) 0 _ ⟨rfl, Or.inl rfl, rfl⟩ ?_ ?_
  · intro p st _ _ hst
    obtain ⟨outer, caches, bad, evm, failed⟩ := st
    obtain ⟨h1, h2, h3⟩ := hst
    simp only at h1 h2 h3
    subst h1
    have h3' : 1 ∉ bad := by simpa using h3
    have hp' := fun n i => hok.nopanic n i
    have o1 := hok.get p
    have o2 := hok.del p
    have o3 := hok.params p
    have o4 := hok.burn p
    have o5 := hok.refund p
    clear hok
    rcases h2 with hc | ⟨a, hc⟩ <;> subst hc
    all_goals (
      c18eval
      repeat' c18split
      all_goals (simp [InactiveInv, inactiveBlock, inactiveContribution, *]))
  · intro st hst
    obtain ⟨h1, _, h3⟩ := hst
    simp at h1
    exact ⟨rfl, h1, h3⟩

/-- **a block of inactive proposals**: the walk ends normally and the outer context carries, proposal after proposal,
exactly that proposal's own contribution; a failing hook contributes nothing -/
theorem inactive_block (env : Env) (hok : InactiveOuterOk env) :
    (run env govInactiveProg).1 = .norm ∧ (run env govInactiveProg).2.outer = inactiveBlock env (env.iters 1 0) := by
  have k := inactive_loop env hok
  unfold govInactiveProg at k ⊢
  simp only [seqs, loopOf] at k
  simp only [run, seqs]
  generalize hL : Stmt.loop 1 _ = L at k ⊢
  have k' := k L (by simp)
  clear k hL
  c18eval
  generalize exec env L 0 _ = r at k'
  obtain ⟨fl, ⟨outer, caches, bad, evm, failed⟩⟩ := r
  obtain ⟨h1, h2, h3⟩ := k'
  simp only at h1 h2 h3
  subst h1 h2
  have h3' : 1 ∉ bad := by simpa using h3
  c18eval

theorem mem_inactiveBlock (env : Env) (t : Tok) : ∀ P, t ∈ inactiveBlock env P → ∃ p, p < P ∧ t ∈ inactiveContribution env p := by
  intro P
  induction P with
  | zero => intro h; simp [inactiveBlock] at h
  | succ P ih =>
    intro h
    simp only [inactiveBlock, List.mem_append] at h
    rcases h with h | h
    · obtain ⟨p, hp, r⟩ := ih h
      exact ⟨p, by omega, r⟩
    · exact ⟨P, by omega, h⟩

/-! ## the designated outcomes, REGENERATED: the run of the same program in which the calls on the failed branch write nothing (`Model.C18Inv.strip`) -/


theorem att_strip (env : Env) (it : Nat) (hp : NoPanic env) :
    (run env (strip 1 attestationProg) it).1 = .brk ∧ (run env (strip 1 attestationProg) it).2.outer = attDesignated it := by
  have hp' := fun n i => hp n i
  unfold attestationProg
  simp only [seqs, strip]
  c18eval
  repeat' c18split
  all_goals simp [attDesignated, attPre, attPost]

theorem ibc_strip (env : Env) (hp : NoPanic env) (hr : ibcReached env)
    (hsync' : env.cond "RecvPacket: ack == nil" 0 = false)
    (hw : env.ok "k.ChannelKeeper.WriteAcknowledgement" 0 = true) (hf : ibcAppFails env ∨ ibcHookFails env) :
    (run env (strip 2 recvPacketProg)).2.outer = ibcDesignated := by
  have hp' := fun n i => hp n i
  obtain ⟨r1, r2, r3, r4⟩ := hr
  unfold recvPacketProg
  simp only [seqs, strip]
  c18eval
  clear hp hp'
  repeat' c18split
  all_goals (simp [ibcAppFails, ibcHookFails, ibcDesignated] at hf ⊢; try simp_all)

def S2Inv (env : Env) (o : List Tok) (f0 : List Nat) (i : Nat) (st : St) : Prop :=
  st.outer = o ∧ st.caches = [(1, Ctx.outer, [])] ∧ st.failed = f0 ∧ BciAll2 env i

def S2Post (env : Env) (o : List Tok) (f0 : List Nat) (n : Nat) (r : Flow × St) : Prop :=
  r.2.outer = o ∧ r.2.caches = [(1, Ctx.outer, [])] ∧ r.2.failed = f0 ∧
    ((BciAll2 env n ∧ r.1 = .norm) ∨ (¬ BciAll2 env n ∧ r.1 = .ret false))

theorem strip_loop2 (env : Env) (hp : NoPanic env) (L : Stmt) (hL : loopOf (strip 1 executeClaimProg) 2 = some L)
    (o : List Tok) (bad : List Nat) (evm : List (Nat × EvmKind)) (f0 : List Nat) :
    S2Post env o f0 (env.iters 2 0) (exec env L 0 { outer := o, caches := [(1, Ctx.outer, [])], bad := bad, evm := evm, failed := f0 }) := by
  simp [loopOf, executeClaimProg, seqs, strip] at hL
  subst hL
  rw [exec_loop, Nat.zero_mul]
  refine iterate_inv_bdd _ (S2Inv env o f0) (S2Post env o f0 (env.iters 2 0)) (env.iters 2 0) 0 _
    ⟨rfl, rfl, rfl, fun j hj => absurd hj (Nat.not_lt_zero j)⟩ ?_ ?_
  · intro i st _ hi hst
    obtain ⟨outer, caches, bad, evm, failed⟩ := st
    obtain ⟨h1, h2, h3, h4⟩ := hst
    simp only at h1 h2 h3
    subst h1 h2 h3
    have hp' := fun n i => hp n i
    have hno : env.ok "k.BaseCoinToEvm" i = false → ¬ BciAll2 env (env.iters 2 0) := by
      intro hf hall
      have := hall i (by omega)
      simp [hf] at this
    by_cases h : env.ok "k.BaseCoinToEvm" i <;> c18eval
    · exact ⟨rfl, rfl, rfl, all_succ _ i h4 h⟩
    · exact ⟨rfl, rfl, rfl, Or.inr ⟨hno (by simpa using h), rfl⟩⟩
  · intro st hst
    obtain ⟨h1, h2, h3, h4⟩ := hst
    simp at h4
    exact ⟨h1, h2, h3, Or.inl ⟨h4, rfl⟩⟩

theorem bci_strip (env : Env) (hp : NoPanic env)
    (hfound : env.cond "ExecuteClaim: found" 0 = true)
    (ht1 : env.cond "ExecuteClaim: externalClaim.(type) is *types.MsgSendToFxClaim" 0 = false)
    (ht2 : env.cond "ExecuteClaim: externalClaim.(type) is *types.MsgBridgeCallClaim" 0 = true)
    (hmod : env.ok "k.ak.GetAccount" 0 = true ∨ env.cond "Keeper.BridgeCallHandler: ok" 0 = false)
    (hs : env.ok "k.bankKeeper.SendCoins" 0 = true) (ha : env.ok "k.AddOutgoingBridgeCall" 0 = true)
    (hcred : BciAll1 env (env.iters 1 0)) (hcf : bciCachedFails env) :
    (run env (strip 1 executeClaimProg)).1 = .ret true ∧ (run env (strip 1 executeClaimProg)).2.outer = bciDesignated env := by
  have k1 := bci_loop1' env hp
  have k2 := strip_loop2 env hp
  have hp' := fun n i => hp n i
  unfold executeClaimProg at k1 k2 ⊢
  simp only [seqs, loopOf, strip, Nat.reduceBEq, ↓reduceIte] at k1 k2
  simp only [run, seqs, strip, Nat.reduceBEq, ↓reduceIte]
  generalize hL1 : Stmt.loop 1 _ = L1 at k1 k2 ⊢
  generalize hL2 : Stmt.loop 2 _ = L2 at k1 k2 ⊢
  have k1' := k1 L1 (by simp)
  have k2' := k2 L2 (by simp)
  clear k1 k2 hL1 hL2 hp
  c18eval
  repeat' c18split
  all_goals try (simp_all; done)
  all_goals (
    generalize hr : exec env L1 0 _ = r1
    have k : Bci1Post' env (env.iters 1 0) r1 := by rw [← hr]; exact k1' _ _
    clear hr
    obtain ⟨fl, ⟨outer, caches, bad, evm, failed⟩⟩ := r1
    rcases k with ⟨hall1, _⟩ | ⟨hall1, h1, h2, h3, h4⟩
    · exact absurd hcred hall1
    · simp only at h1 h2 h3 h4
      subst h1 h2 h3 h4
      c18eval
      generalize hr : exec env L2 0 _ = r2
      have k : S2Post env (bciPre ++ toks "k.BridgeTokenToBaseCoin" (env.iters 1 0) 0) [] (env.iters 2 0) r2 := by rw [← hr]; exact k2' _ _ _ _
      clear hr
      obtain ⟨fl, ⟨outer, caches, bad, evm, failed⟩⟩ := r2
      obtain ⟨h1, h2, h3, h5⟩ := k
      simp only at h1 h2 h3
      subst h1 h2 h3
      rcases h5 with ⟨hall2, h5⟩ | ⟨hall2, h5⟩ <;> simp only at h5 <;> subst h5
      · c18eval
        repeat' c18split
        all_goals (simp [bciCachedFails, bciDesignated, bciPre, hall2] at hcf ⊢; try simp_all)
      · c18eval
        repeat' c18split
        all_goals (simp [bciCachedFails, bciDesignated, bciPre, hall2] at hcf ⊢; try simp_all))

/-! ## concrete environment for the non-vacuity examples (condition names of the composed transaction program) -/

def envTx : Env :=
  { envOk with cond := fun t _ => t ∈ ["Run: has", "Keeper.ExecuteClaim: found", "Keeper.ExecuteClaim: externalClaim.(type) is *types.MsgBridgeCallClaim",
      "Keeper.BridgeCallEvm: k.evmKeeper.IsContract(ctx, to)"] }

end FxVerif.Proofs.C18T
