import FxVerif.Model.C17Ack
/-! helper lemmas for the acknowledgement model (core Lean only) -/
namespace FxVerif.Proofs.C17
open FxVerif.Model.C17 FxVerif.Gen.C17 List

theorem perm_pair {α : Type} {a b : α} {l : List α} (h : l.Perm [a, b]) : l = [a, b] ∨ l = [b, a] := by
  have hl := h.length_eq
  match l, hl with
  | [x, y], _ =>
    have hx : x ∈ [a, b] := h.subset (by simp)
    have hy : y ∈ [a, b] := h.subset (by simp)
    have ha : a ∈ [x, y] := h.symm.subset (by simp)
    have hb : b ∈ [x, y] := h.symm.subset (by simp)
    simp only [mem_cons, not_mem_nil, or_false] at hx hy ha hb
    rcases hx with rfl | rfl <;> rcases hy with rfl | rfl <;> simp_all

/-- whatever the runtime does, the arms are visited in one of the two orders -/
theorem arm_order (σ : Sched) (i : Nat) :
    σ.pick i String armNames = ["result", "error"] ∨ σ.pick i String armNames = ["error", "result"] :=
  perm_pair (σ.perm i String armNames)

/-- canonical bytes decode to the value they are the encoding of, in either order -/
theorem resolve_canon (d : Option Arm) (order : List String)
    (ho : order = ["result", "error"] ∨ order = ["error", "result"]) : resolveOneof order (canonOf d).members = d := by
  rcases ho with rfl | rfl <;> cases d with
  | none => simp [resolveOneof, canonOf, lookupMember]
  | some a => cases a <;> simp [resolveOneof, canonOf, lookupMember, Arm.name, Arm.val, mkArm]

theorem canon_members_known (d : Option Arm) : (canonOf d).members.all (fun m => armNames.contains m.1) = true := by
  cases d with
  | none => rfl
  | some a => cases a <;> simp [canonOf, Arm.name, armNames]

/-- canonical bytes decode to the same value under every schedule, at every point of it -/
theorem decode_canon (σ : Sched) (i : Nat) (d : Option Arm) : decodeAck σ i (canonOf d) = some d := by
  unfold decodeAck
  rw [if_pos (canon_members_known d), resolve_canon d _ (arm_order σ i)]

/-- whether the decode fails does not depend on the schedule -/
theorem decode_isNone (σ₁ σ₂ : Sched) (i j : Nat) (raw : Raw) : decodeAck σ₁ i raw = none ↔ decodeAck σ₂ j raw = none := by
  unfold decodeAck
  split <;> simp

/-- once the bytes are known to be canonical, the rest of ANY program runs the same under all schedules -/
theorem runSteps_canon (σ₁ σ₂ : Sched) (d : Option Arm) (amount : Nat) :
    ∀ (prog : List AStep) (f : AFrame), runSteps σ₁ (canonOf d) amount prog f = runSteps σ₂ (canonOf d) amount prog f := by
  intro prog
  induction prog with
  | nil => intro f; rfl
  | cons s rest ih =>
    intro f
    have hs : stepAck σ₁ (canonOf d) amount f s = stepAck σ₂ (canonOf d) amount f s := by
      cases s <;> simp only [stepAck, decode_canon]
    cases s <;> simp only [runSteps, hs] <;> split <;> first | rfl | exact ih _

end FxVerif.Proofs.C17
