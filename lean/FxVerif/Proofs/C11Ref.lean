import FxVerif.Proofs.C11
/-!
# C11 — reference-count invariant of the F1 bookkeeping (core Lean only)

`RI n v`: every historical record of validator `v` is referenced exactly by the starting infos that point at it, by
the validator's current period (record `period - 1`) and by the slash events recorded for it — per period, which is
stronger than the SDK's `ReferenceCountInvariant` (a total) — no period is referenced by more than one starting info
or slash event (so a count never exceeds 2), all references point below the current period, and the cumulative
reward ratio is monotone over the existing records.  The lemmas below show every step of the model keeps it, and that
under it the only way `withdrawDelegationRewards` can fail is the SDK's own stake sanity check.
-/
set_option linter.unusedSimpArgs false
set_option linter.unusedVariables false

namespace FxVerif.Proofs.C11
open FxVerif.Model.C11
open FxVerif.Gen.C11 (Cfg)

/-! ### counting -/

/-- 1 when the (optional) starting info references period `p` -/
def ind (o : Option SInfo) (p : Nat) : Nat :=
  match o with
  | some si => if si.period = p then 1 else 0
  | none => 0

/-- number of starting infos (of the accounts `< n`) that reference period `p` -/
def infoCnt (n : Nat) (v : VS) (p : Nat) : Nat := sumTo n (fun d => ind (v.sinfo d) p)

/-- number of slash events that reference period `p` -/
def slashCnt (v : VS) (p : Nat) : Nat := (v.slashes.filter (fun e => e.period == p)).length

/-- the validator's current-period reference: record `period - 1` -/
def curRef (v : VS) (p : Nat) : Nat := if p + 1 = v.period then 1 else 0

theorem ind_le_one (o : Option SInfo) (p : Nat) : ind o p ≤ 1 := by
  unfold ind; split
  · split <;> omega
  · omega

theorem sumTo_eq_zero {n : Nat} {f : Nat → Nat} (h : ∀ i, i < n → f i = 0) : sumTo n f = 0 := by
  induction n with
  | zero => rfl
  | succ n ih =>
    simp only [sumTo]
    rw [ih (fun i hi => h i (Nat.lt_succ_of_lt hi)), h n (Nat.lt_succ_self n)]

theorem sumTo_ge_term {n : Nat} (f : Nat → Nat) {d : Nat} (hd : d < n) : f d ≤ sumTo n f := by
  induction n with
  | zero => omega
  | succ n ih =>
    simp only [sumTo]
    by_cases h : d = n
    · subst h; omega
    · have := ih (by omega); omega

/-- rewriting one starting info below `n` changes the count by the difference of the indicators -/
theorem cnt_set {n : Nat} (f : Nat → Option SInfo) {d : Nat} (hd : d < n) (o : Option SInfo) (p : Nat) :
    sumTo n (fun i => ind (setAt f d o i) p) + ind (f d) p = sumTo n (fun i => ind (f i) p) + ind o p := by
  have := sumTo_update (fun i => ind (f i) p) (fun i => ind (setAt f d o i) p) d hd
    (fun i hi => by simp [setAt, hi])
  simpa using this

theorem slashCnt_append (l : List SlashEv) (e : SlashEv) (p : Nat) :
    ((l ++ [e]).filter (fun x => x.period == p)).length =
      (l.filter (fun x => x.period == p)).length + (if e.period = p then 1 else 0) := by
  rw [List.filter_append, List.length_append]
  by_cases h : e.period = p
  · have hb : (e.period == p) = true := by simp [h]
    simp [List.filter, hb, h]
  · have hb : (e.period == p) = false := by simp [h]
    simp [List.filter, hb, h]

theorem filter_len_pos_of_mem {l : List SlashEv} {e : SlashEv} (h : e ∈ l) :
    1 ≤ (l.filter (fun x => x.period == e.period)).length := by
  have : e ∈ l.filter (fun x => x.period == e.period) := List.mem_filter.mpr ⟨h, by simp⟩
  exact List.length_pos_of_mem this

theorem filter_len_zero {l : List SlashEv} {p : Nat} (h : ∀ e, e ∈ l → e.period ≠ p) :
    (l.filter (fun x => x.period == p)).length = 0 := by
  rw [List.length_eq_zero_iff, List.filter_eq_nil_iff]
  intro e he
  simp [h e he]

/-! ### the invariant -/

structure RI (n : Nat) (v : VS) : Prop where
  per : 1 ≤ v.period
  cnt : ∀ p, v.refs p = infoCnt n v p + curRef v p + slashCnt v p
  uniq : ∀ p, infoCnt n v p + slashCnt v p ≤ 1
  sper : ∀ d si, v.sinfo d = some si → si.period + 1 ≤ v.period
  eper : ∀ e, e ∈ v.slashes → e.period + 1 ≤ v.period
  out : ∀ d, n ≤ d → v.sinfo d = none
  mono : ∀ p q, p ≤ q → v.refs q ≠ 0 → v.ratioAt p ≤ v.ratioAt q

/-- only the distribution records matter -/
theorem RI.congr {n : Nat} {v v' : VS} (hp : v'.period = v.period) (hr : v'.refs = v.refs) (hq : v'.ratio = v.ratio)
    (hs : v'.sinfo = v.sinfo) (he : v'.slashes = v.slashes) (h : RI n v) : RI n v' := by
  have hc : ∀ p, infoCnt n v' p = infoCnt n v p := by intro p; simp only [infoCnt, hs]
  have hl : ∀ p, slashCnt v' p = slashCnt v p := by intro p; simp only [slashCnt, he]
  have hu : ∀ p, curRef v' p = curRef v p := by intro p; simp only [curRef, hp]
  have ha : ∀ p, v'.ratioAt p = v.ratioAt p := by intro p; simp only [VS.ratioAt, hr, hq]
  constructor
  · rw [hp]; exact h.per
  · intro p; rw [hr, hc, hl, hu]; exact h.cnt p
  · intro p; rw [hc, hl]; exact h.uniq p
  · intro d si hd; rw [hs] at hd; rw [hp]; exact h.sper d si hd
  · intro e hm; rw [he] at hm; rw [hp]; exact h.eper e hm
  · intro d hd; rw [hs]; exact h.out d hd
  · intro p q hpq hq0; rw [hr] at hq0; rw [ha, ha]; exact h.mono p q hpq hq0

theorem RI.infoCnt_zero {n : Nat} {v : VS} (h : RI n v) {p : Nat} (hp : v.period ≤ p) : infoCnt n v p = 0 := by
  apply sumTo_eq_zero
  intro d _
  unfold ind
  cases hs : v.sinfo d with
  | none => rfl
  | some si =>
    have := h.sper d si hs
    have : si.period ≠ p := by omega
    simp [this]

theorem RI.slashCnt_zero {n : Nat} {v : VS} (h : RI n v) {p : Nat} (hp : v.period ≤ p) : slashCnt v p = 0 := by
  apply filter_len_zero
  intro e he
  have := h.eper e he
  omega

theorem RI.refs_zero {n : Nat} {v : VS} (h : RI n v) {p : Nat} (hp : v.period ≤ p) : v.refs p = 0 := by
  rw [h.cnt p, h.infoCnt_zero hp, h.slashCnt_zero hp]
  have : ¬ (p + 1 = v.period) := by omega
  simp [curRef, this]

theorem RI.refs_cur_pos {n : Nat} {v : VS} (h : RI n v) : v.refs (v.period - 1) ≠ 0 := by
  have hp := h.per
  rw [h.cnt]
  have : v.period - 1 + 1 = v.period := by omega
  simp [curRef, this]

theorem RI.refs_le_two {n : Nat} {v : VS} (h : RI n v) (p : Nat) : v.refs p ≤ 2 := by
  have a := h.cnt p
  have b := h.uniq p
  have c : curRef v p ≤ 1 := by unfold curRef; split <;> omega
  omega

theorem RI.refs_info_pos {n : Nat} {v : VS} (h : RI n v) {d : Nat} {si : SInfo} (hd : d < n) (hs : v.sinfo d = some si) :
    v.refs si.period ≠ 0 := by
  have a := h.cnt si.period
  have b : ind (v.sinfo d) si.period ≤ infoCnt n v si.period :=
    sumTo_ge_term (fun i => ind (v.sinfo i) si.period) hd
  have c : ind (v.sinfo d) si.period = 1 := by simp [ind, hs]
  omega

theorem RI.refs_slash_pos {n : Nat} {v : VS} (h : RI n v) {e : SlashEv} (he : e ∈ v.slashes) : v.refs e.period ≠ 0 := by
  have a := h.cnt e.period
  have b : 1 ≤ slashCnt v e.period := filter_len_pos_of_mem he
  omega

/-- "fresh": the record of the period just ended is referenced by the current period only -/
theorem RI.fresh_cnt {n : Nat} {v : VS} (h : RI n v) (hf : v.refs (v.period - 1) = 1) :
    infoCnt n v (v.period - 1) = 0 ∧ slashCnt v (v.period - 1) = 0 := by
  have hp := h.per
  have a := h.cnt (v.period - 1)
  have : v.period - 1 + 1 = v.period := by omega
  simp only [curRef, this, if_true] at a
  omega

theorem RI.fresh_info {n : Nat} {v : VS} (h : RI n v) (hf : v.refs (v.period - 1) = 1) {d : Nat} {si : SInfo}
    (hs : v.sinfo d = some si) : si.period + 1 < v.period := by
  have hsp := h.sper d si hs
  by_cases hd : d < n
  · have hz := (h.fresh_cnt hf).1
    have b : ind (v.sinfo d) (v.period - 1) ≤ infoCnt n v (v.period - 1) :=
      sumTo_ge_term (fun i => ind (v.sinfo i) (v.period - 1)) hd
    rw [hz, hs] at b
    simp only [ind] at b
    by_cases he : si.period = v.period - 1
    · simp [he] at b
    · omega
  · have := h.out d (by omega)
    rw [hs] at this; cases this

/-! ### monotone ratios under a step that only lowers / keeps records -/

theorem mono_step {v v' : VS} (h1 : ∀ x, v'.ratioAt x ≤ v.ratioAt x)
    (h2 : ∀ x, v'.refs x ≠ 0 → v.refs x ≠ 0 ∧ v'.ratioAt x = v.ratioAt x)
    (hm : ∀ p q, p ≤ q → v.refs q ≠ 0 → v.ratioAt p ≤ v.ratioAt q) :
    ∀ p q, p ≤ q → v'.refs q ≠ 0 → v'.ratioAt p ≤ v'.ratioAt q := by
  intro p q hpq hq
  obtain ⟨a, b⟩ := h2 q hq
  rw [b]
  exact Nat.le_trans (h1 p) (hm p q hpq a)

/-! ### primitive steps -/

theorem prePeriod_fields (v : VS) (t : Nat) :
    (prePeriod v t).period = v.period ∧ (prePeriod v t).refs = v.refs ∧ (prePeriod v t).ratio = v.ratio ∧
    (prePeriod v t).sinfo = v.sinfo ∧ (prePeriod v t).slashes = v.slashes ∧ (prePeriod v t).del = v.del ∧
    (prePeriod v t).tokens = v.tokens ∧ (prePeriod v t).shares = v.shares := by
  unfold prePeriod; split <;> exact ⟨rfl, rfl, rfl, rfl, rfl, rfl, rfl, rfl⟩

/-- `IncrementValidatorPeriod` always succeeds under the invariant, keeps it, and leaves a fresh record -/
theorem incPeriod_total {n : Nat} {v : VS} (hi : RI n v) (t : Nat) :
    ∃ v', v.incPeriod t = .ok (v', v.period) ∧ RI n v' ∧ v'.refs (v'.period - 1) = 1 ∧ v'.period = v.period + 1 ∧
      v'.sinfo = v.sinfo ∧ v'.slashes = v.slashes ∧ SF v v' := by
  have hpos := hi.refs_cur_pos
  have hper := hi.per
  obtain ⟨f1, f2, f3, f4, f5, f6, f7, f8⟩ := prePeriod_fields v t
  -- the result, explicitly
  have hex : ∃ v', v.incPeriod t = .ok (v', v.period) := by
    unfold VS.incPeriod
    by_cases ht : t = 0
    · simp only [ht, if_true]
      unfold VS.decRef
      simp only [hpos, if_false]
      exact ⟨_, rfl⟩
    · simp only [ht, if_false]
      unfold VS.decRef
      simp only [hpos, if_false]
      exact ⟨_, rfl⟩
  obtain ⟨v', hv⟩ := hex
  obtain ⟨_, _, hv'⟩ := incPeriod_ok hv
  refine ⟨v', hv, ?_, ?_, ?_, ?_, ?_, incPeriod_SF hv⟩
  · subst hv'
    have hc : ∀ p, infoCnt n ({ prePeriod v t with
            refs := setAt (setAt v.refs (v.period - 1) (v.refs (v.period - 1) - 1)) v.period 1,
            ratio := setAt v.ratio v.period (v.ratioAt (v.period - 1) + curRatio v t),
            cur := 0, period := v.period + 1 } : VS) p = infoCnt n v p := by
      intro p; simp only [infoCnt, f4]
    have hl : ∀ p, slashCnt ({ prePeriod v t with
            refs := setAt (setAt v.refs (v.period - 1) (v.refs (v.period - 1) - 1)) v.period 1,
            ratio := setAt v.ratio v.period (v.ratioAt (v.period - 1) + curRatio v t),
            cur := 0, period := v.period + 1 } : VS) p = slashCnt v p := by
      intro p; simp only [slashCnt, f5]
    constructor
    · show 1 ≤ v.period + 1
      omega
    · intro p
      rw [hc, hl]
      show setAt (setAt v.refs (v.period - 1) (v.refs (v.period - 1) - 1)) v.period 1 p =
        infoCnt n v p + (if p + 1 = v.period + 1 then 1 else 0) + slashCnt v p
      have a := hi.cnt p
      simp only [curRef] at a
      by_cases h1 : p = v.period
      · subst h1
        rw [hi.infoCnt_zero (Nat.le_refl _), hi.slashCnt_zero (Nat.le_refl _)]
        simp [setAt]
      · by_cases h2 : p = v.period - 1
        · subst h2
          have e3 : v.period - 1 + 1 = v.period := by omega
          have ne : ¬ (v.period - 1 + 1 = v.period + 1) := by omega
          simp only [e3, if_true] at a
          simp only [setAt, h1, ne, if_false, if_true, ↓reduceIte]
          omega
        · have e1 : ¬ (p + 1 = v.period) := by omega
          have e2 : ¬ (p + 1 = v.period + 1) := by omega
          simp only [setAt, h1, h2, if_false, e2]
          simp only [e1, if_false] at a
          exact a
    · intro p; rw [hc, hl]; exact hi.uniq p
    · intro d si hs
      show si.period + 1 ≤ v.period + 1
      have hs' : v.sinfo d = some si := by rw [← f4]; exact hs
      have := hi.sper d si hs'
      omega
    · intro e he
      show e.period + 1 ≤ v.period + 1
      have he' : e ∈ v.slashes := by rw [← f5]; exact he
      have := hi.eper e he'
      omega
    · intro d hd
      show (prePeriod v t).sinfo d = none
      rw [f4]; exact hi.out d hd
    · -- monotone ratios with the new record on top
      intro p q hpq hq
      -- refs / ratioAt of the new record in terms of the old one
      have R : ∀ x, (({ prePeriod v t with
            refs := setAt (setAt v.refs (v.period - 1) (v.refs (v.period - 1) - 1)) v.period 1,
            ratio := setAt v.ratio v.period (v.ratioAt (v.period - 1) + curRatio v t),
            cur := 0, period := v.period + 1 } : VS).refs x) =
          setAt (setAt v.refs (v.period - 1) (v.refs (v.period - 1) - 1)) v.period 1 x := fun _ => rfl
      have A : ∀ x, (({ prePeriod v t with
            refs := setAt (setAt v.refs (v.period - 1) (v.refs (v.period - 1) - 1)) v.period 1,
            ratio := setAt v.ratio v.period (v.ratioAt (v.period - 1) + curRatio v t),
            cur := 0, period := v.period + 1 } : VS).ratioAt x) =
          (if setAt (setAt v.refs (v.period - 1) (v.refs (v.period - 1) - 1)) v.period 1 x = 0 then 0
           else setAt v.ratio v.period (v.ratioAt (v.period - 1) + curRatio v t) x) := fun _ => rfl
      rw [R] at hq
      rw [A, A]
      -- below the new record the new ratioAt is at most the old one
      have low : ∀ x, x ≠ v.period →
          (if setAt (setAt v.refs (v.period - 1) (v.refs (v.period - 1) - 1)) v.period 1 x = 0 then 0
           else setAt v.ratio v.period (v.ratioAt (v.period - 1) + curRatio v t) x) ≤ v.ratioAt x := by
        intro x hx
        simp only [setAt, hx, if_false]
        unfold VS.ratioAt
        by_cases hx2 : x = v.period - 1
        · simp only [hx2, if_true]
          (repeat' split) <;> omega
        · simp only [hx2, if_false]
          (repeat' split) <;> omega
      by_cases hq1 : q = v.period
      · subst hq1
        have top : (if setAt (setAt v.refs (v.period - 1) (v.refs (v.period - 1) - 1)) v.period 1 v.period = 0 then 0
            else setAt v.ratio v.period (v.ratioAt (v.period - 1) + curRatio v t) v.period) =
            v.ratioAt (v.period - 1) + curRatio v t := by simp [setAt]
        rw [top]
        by_cases hp1 : p = v.period
        · rw [hp1, top]; omega
        · have := low p hp1
          have m := hi.mono p (v.period - 1) (by omega) hpos
          omega
      · -- q is an old record, so it lies below the old current period
        have hq2 : v.refs q ≠ 0 := by
          simp only [setAt, hq1, if_false] at hq
          by_cases hq3 : q = v.period - 1
          · rw [hq3]; exact hpos
          · simp only [hq3, if_false] at hq; exact hq
        have hq4 : q < v.period := by
          by_cases hlt : q < v.period
          · exact hlt
          · exact absurd (hi.refs_zero (by omega)) hq2
        have hp1 : p ≠ v.period := by omega
        have e : (if setAt (setAt v.refs (v.period - 1) (v.refs (v.period - 1) - 1)) v.period 1 q = 0 then 0
            else setAt v.ratio v.period (v.ratioAt (v.period - 1) + curRatio v t) q) = v.ratioAt q := by
          rw [if_neg hq]
          simp only [setAt, hq1, if_false]
          unfold VS.ratioAt
          rw [if_neg hq2]
        rw [e]
        exact Nat.le_trans (low p hp1) (hi.mono p q hpq hq2)
  · subst hv'
    show setAt (setAt v.refs (v.period - 1) (v.refs (v.period - 1) - 1)) v.period 1 (v.period + 1 - 1) = 1
    simp [setAt]
  · subst hv'; rfl
  · subst hv'; exact f4
  · subst hv'; exact f5

theorem ratioAt_of {v v' : VS} (hr : v'.refs = v.refs) (hq : v'.ratio = v.ratio) (x : Nat) : v'.ratioAt x = v.ratioAt x := by
  simp only [VS.ratioAt, hr, hq]

/-- a starting info is dropped together with its reference (`decrementReferenceCount` + delete) -/
theorem RI.dropInfo {n : Nat} {v v' : VS} (hi : RI n v) {d : Nat} {si : SInfo} (hd : d < n) (hs : v.sinfo d = some si)
    (hp : v'.period = v.period) (hr : v'.refs = setAt v.refs si.period (v.refs si.period - 1)) (hq : v'.ratio = v.ratio)
    (hs' : v'.sinfo = setAt v.sinfo d none) (he : v'.slashes = v.slashes) : RI n v' := by
  have hpos := hi.refs_info_pos hd hs
  have hc : ∀ p, infoCnt n v' p + (if si.period = p then 1 else 0) = infoCnt n v p := by
    intro p
    have := cnt_set v.sinfo hd none p
    simp only [hs, ind] at this
    simp only [infoCnt, hs']
    simpa [ind] using this
  have hl : ∀ p, slashCnt v' p = slashCnt v p := by intro p; simp only [slashCnt, he]
  have hA : ∀ x, v'.ratioAt x = if setAt v.refs si.period (v.refs si.period - 1) x = 0 then 0 else v.ratio x := by
    intro x; simp only [VS.ratioAt, hr, hq]
  constructor
  · rw [hp]; exact hi.per
  · intro p
    have a := hi.cnt p
    have b := hc p
    rw [hr, hl]
    simp only [curRef, hp] at a ⊢
    by_cases h1 : p = si.period
    · subst h1
      simp only [setAt, if_true] at b ⊢
      omega
    · have h2 : ¬ (si.period = p) := fun e => h1 e.symm
      simp only [setAt, h1, h2, if_false] at b ⊢
      omega
  · intro p
    have a := hi.uniq p
    have b := hc p
    rw [hl]; omega
  · intro e sj hsj
    rw [hs'] at hsj
    rw [hp]
    by_cases h1 : e = d
    · subst h1; simp [setAt] at hsj
    · simp only [setAt, h1, if_false] at hsj
      exact hi.sper e sj hsj
  · intro e hm; rw [he] at hm; rw [hp]; exact hi.eper e hm
  · intro e hn
    rw [hs']
    have : e ≠ d := by omega
    simp only [setAt, this, if_false]
    exact hi.out e hn
  · apply mono_step (v := v) _ _ hi.mono
    · intro x
      rw [hA]
      unfold VS.ratioAt
      by_cases h1 : x = si.period
      · subst h1
        simp only [setAt, if_true]
        (repeat' split) <;> omega
      · simp only [setAt, h1, if_false]
        exact Nat.le_refl _
    · intro x hx
      rw [hr] at hx
      rw [hA]
      unfold VS.ratioAt
      by_cases h1 : x = si.period
      · subst h1
        simp only [setAt, if_true] at hx ⊢
        have : v.refs si.period ≠ 0 := by omega
        simp [hx, this]
      · simp only [setAt, h1, if_false] at hx ⊢
        exact ⟨hx, trivial⟩

/-- a starting info is created on the fresh record of the period just ended (`incrementReferenceCount` + set) -/
theorem RI.addInfo {n : Nat} {v v' : VS} (hi : RI n v) {d : Nat} (hd : d < n) (hs : v.sinfo d = none)
    (hf : v.refs (v.period - 1) = 1) (st h : Nat)
    (hp : v'.period = v.period) (hr : v'.refs = setAt v.refs (v.period - 1) (v.refs (v.period - 1) + 1))
    (hq : v'.ratio = setAt v.ratio (v.period - 1) (v.ratioAt (v.period - 1)))
    (hs' : v'.sinfo = setAt v.sinfo d (some ⟨v.period - 1, st, h⟩)) (he : v'.slashes = v.slashes) : RI n v' := by
  have hper := hi.per
  obtain ⟨z1, z2⟩ := hi.fresh_cnt hf
  have hc : ∀ p, infoCnt n v' p = infoCnt n v p + (if v.period - 1 = p then 1 else 0) := by
    intro p
    have := cnt_set v.sinfo hd (some ⟨v.period - 1, st, h⟩) p
    simp only [hs, ind] at this
    simp only [infoCnt, hs']
    simpa [ind] using this
  have hl : ∀ p, slashCnt v' p = slashCnt v p := by intro p; simp only [slashCnt, he]
  have hA : ∀ x, v'.ratioAt x = v.ratioAt x := by
    intro x
    simp only [VS.ratioAt, hr, hq]
    by_cases h1 : x = v.period - 1
    · subst h1
      simp only [setAt, if_true]
      rw [if_neg (by omega), if_neg (by omega)]
    · simp only [setAt, h1, if_false]
  constructor
  · rw [hp]; exact hper
  · intro p
    have a := hi.cnt p
    rw [hr, hl, hc]
    simp only [curRef, hp] at a ⊢
    by_cases h1 : p = v.period - 1
    · subst h1
      simp only [setAt, if_true] at a ⊢
      omega
    · have h2 : ¬ (v.period - 1 = p) := fun e => h1 e.symm
      simp only [setAt, h1, h2, if_false] at a ⊢
      omega
  · intro p
    have a := hi.uniq p
    rw [hl, hc]
    by_cases h1 : v.period - 1 = p
    · subst h1
      simp only [if_true]
      omega
    · simp only [h1, if_false]; omega
  · intro e sj hsj
    rw [hs'] at hsj
    rw [hp]
    by_cases h1 : e = d
    · subst h1
      simp only [setAt, if_true, Option.some.injEq] at hsj
      subst hsj
      show v.period - 1 + 1 ≤ v.period
      omega
    · simp only [setAt, h1, if_false] at hsj
      exact hi.sper e sj hsj
  · intro e hm; rw [he] at hm; rw [hp]; exact hi.eper e hm
  · intro e hn
    rw [hs']
    have : e ≠ d := by omega
    simp only [setAt, this, if_false]
    exact hi.out e hn
  · intro p q hpq hq0
    rw [hA, hA]
    apply hi.mono p q hpq
    rw [hr] at hq0
    by_cases h1 : q = v.period - 1
    · subst h1; omega
    · simpa [setAt, h1] using hq0

/-- a slash event is recorded on the fresh record of the period just ended -/
theorem RI.addSlash {n : Nat} {v v' : VS} (hi : RI n v) (hf : v.refs (v.period - 1) = 1) (h eff : Nat)
    (hp : v'.period = v.period) (hr : v'.refs = setAt v.refs (v.period - 1) (v.refs (v.period - 1) + 1))
    (hq : v'.ratio = setAt v.ratio (v.period - 1) (v.ratioAt (v.period - 1)))
    (hs' : v'.sinfo = v.sinfo) (he : v'.slashes = v.slashes ++ [⟨h, v.period - 1, eff⟩]) : RI n v' := by
  have hper := hi.per
  obtain ⟨z1, z2⟩ := hi.fresh_cnt hf
  have hc : ∀ p, infoCnt n v' p = infoCnt n v p := by intro p; simp only [infoCnt, hs']
  have hl : ∀ p, slashCnt v' p = slashCnt v p + (if v.period - 1 = p then 1 else 0) := by
    intro p; simp only [slashCnt, he]; exact slashCnt_append _ _ _
  have hA : ∀ x, v'.ratioAt x = v.ratioAt x := by
    intro x
    simp only [VS.ratioAt, hr, hq]
    by_cases h1 : x = v.period - 1
    · subst h1
      simp only [setAt, if_true]
      rw [if_neg (by omega), if_neg (by omega)]
    · simp only [setAt, h1, if_false]
  constructor
  · rw [hp]; exact hper
  · intro p
    have a := hi.cnt p
    rw [hr, hl, hc]
    simp only [curRef, hp] at a ⊢
    by_cases h1 : p = v.period - 1
    · subst h1
      simp only [setAt, if_true] at a ⊢
      omega
    · have h2 : ¬ (v.period - 1 = p) := fun e => h1 e.symm
      simp only [setAt, h1, h2, if_false] at a ⊢
      omega
  · intro p
    have a := hi.uniq p
    rw [hl, hc]
    by_cases h1 : v.period - 1 = p
    · subst h1
      simp only [if_true]
      omega
    · simp only [h1, if_false]; omega
  · intro e sj hsj
    rw [hs'] at hsj; rw [hp]; exact hi.sper e sj hsj
  · intro e hm
    rw [he] at hm
    rw [hp]
    rcases List.mem_append.mp hm with h1 | h1
    · exact hi.eper e h1
    · simp only [List.mem_singleton] at h1
      subst h1
      show v.period - 1 + 1 ≤ v.period
      omega
  · intro e hn; rw [hs']; exact hi.out e hn
  · intro p q hpq hq0
    rw [hA, hA]
    apply hi.mono p q hpq
    rw [hr] at hq0
    by_cases h1 : q = v.period - 1
    · subst h1; omega
    · simpa [setAt, h1] using hq0

/-- a starting info is rewritten without changing the period it references -/
theorem RI.setInfoSame {n : Nat} {v v' : VS} (hi : RI n v) {d : Nat} {si si' : SInfo} (hd : d < n)
    (hs : v.sinfo d = some si) (hsp : si'.period = si.period)
    (hp : v'.period = v.period) (hr : v'.refs = v.refs) (hq : v'.ratio = v.ratio)
    (hs' : v'.sinfo = setAt v.sinfo d (some si')) (he : v'.slashes = v.slashes) : RI n v' := by
  have hc : ∀ p, infoCnt n v' p = infoCnt n v p := by
    intro p
    have := cnt_set v.sinfo hd (some si') p
    simp only [hs, ind, hsp] at this
    simp only [infoCnt, hs']
    simp only [ind] at this ⊢
    omega
  have hl : ∀ p, slashCnt v' p = slashCnt v p := by intro p; simp only [slashCnt, he]
  constructor
  · rw [hp]; exact hi.per
  · intro p; rw [hr, hc, hl]; simp only [curRef, hp]; exact hi.cnt p
  · intro p; rw [hc, hl]; exact hi.uniq p
  · intro e sj hsj
    rw [hs'] at hsj
    rw [hp]
    by_cases h1 : e = d
    · subst h1
      simp only [setAt, if_true, Option.some.injEq] at hsj
      subst hsj
      rw [hsp]; exact hi.sper e si hs
    · simp only [setAt, h1, if_false] at hsj
      exact hi.sper e sj hsj
  · intro e hm; rw [he] at hm; rw [hp]; exact hi.eper e hm
  · intro e hn
    rw [hs']
    have : e ≠ d := by omega
    simp only [setAt, this, if_false]
    exact hi.out e hn
  · intro p q hpq hq0
    rw [ratioAt_of hr hq, ratioAt_of hr hq]
    rw [hr] at hq0
    exact hi.mono p q hpq hq0

/-! ### reward calculation cannot fail except for the SDK's stake sanity check -/

theorem between_ok {v : VS} {sp ep st : Nat} (h1 : sp ≤ ep) (h2 : v.ratioAt sp ≤ v.ratioAt ep) :
    v.between sp ep st = .ok (dMulTrunc (v.ratioAt ep - v.ratioAt sp) st) := by
  unfold VS.between
  rw [if_neg (by omega), if_neg (by omega)]

theorem slashLoop_total {v : VS} (hm : ∀ p q, p ≤ q → v.refs q ≠ 0 → v.ratioAt p ≤ v.ratioAt q) {B : Nat} :
    ∀ (evs : List SlashEv) (rew sp st : Nat), (∀ e, e ∈ evs → v.refs e.period ≠ 0 ∧ e.period ≤ B) → sp ≤ B →
      ∃ r, v.slashLoop evs rew sp st = .ok r ∧ r.2.1 ≤ B := by
  intro evs
  induction evs with
  | nil => intro rew sp st _ hsp; exact ⟨(rew, sp, st), rfl, hsp⟩
  | cons e es ih =>
    intro rew sp st he hsp
    obtain ⟨he1, he2⟩ := he e (List.mem_cons_self ..)
    have hes : ∀ x, x ∈ es → v.refs x.period ≠ 0 ∧ x.period ≤ B := fun x hx => he x (List.mem_cons_of_mem _ hx)
    unfold VS.slashLoop
    by_cases hlt : sp < e.period
    · rw [if_pos hlt, between_ok (Nat.le_of_lt hlt) (hm sp e.period (Nat.le_of_lt hlt) he1)]
      exact ih _ _ _ hes he2
    · rw [if_neg hlt]
      exact ih _ _ _ hes hsp

/-- `CalculateDelegationRewards` up to a period whose record exists and that lies above every reference -/
theorem calcRewards_total {n : Nat} {v : VS} (hi : RI n v) {h d sh ending : Nat} {si : SInfo} (hs : v.sinfo d = some si)
    (he : ending + 1 = v.period) :
    v.calcRewards h d sh ending = .error .stakeSanity ∨ ∃ raw, v.calcRewards h d sh ending = .ok raw := by
  have hend : v.refs ending ≠ 0 := by
    have := hi.refs_cur_pos
    have e : v.period - 1 = ending := by omega
    rw [e] at this; exact this
  unfold VS.calcRewards
  rw [hs]
  dsimp only
  by_cases hh : si.height = h
  · rw [if_pos hh]; exact Or.inr ⟨0, rfl⟩
  · rw [if_neg hh]
    have hsp : si.period ≤ ending := by have := hi.sper d si hs; omega
    obtain ⟨r, hr, hrB⟩ := slashLoop_total (v := v) hi.mono (B := ending)
      (if si.height < h then v.slashes.filter (fun e => si.height ≤ e.height && e.height ≤ h) else []) 0 si.period si.stake
      (by
        intro e hm
        have hmem : e ∈ v.slashes := by
          split at hm
          · exact (List.mem_filter.mp hm).1
          · cases hm
        have := hi.eper e hmem
        exact ⟨hi.refs_slash_pos hmem, by omega⟩)
      hsp
    obtain ⟨rew, sp, stake⟩ := r
    rw [hr]
    dsimp only at hrB ⊢
    by_cases hsan : v.tokensFromShares sh + 3 < stake
    · rw [if_pos hsan]; exact Or.inl rfl
    · rw [if_neg hsan, between_ok hrB (hi.mono sp ending hrB hend)]
      exact Or.inr ⟨_, rfl⟩

/-- every starting info belongs to a delegation and vice versa -/
def Dom (v : VS) : Prop := ∀ d, (v.sinfo d).isSome = (v.del d).isSome

/-- `withdrawDelegationRewards`: under the invariant it can only fail with the stake sanity check; on success the
invariant holds again, the delegator's starting info is gone and the record of the period just ended is fresh -/
theorem withdrawRewards_total {n : Nat} {v : VS} (hi : RI n v) {h d sh : Nat} {si : SInfo} (hd : d < n)
    (hdel : v.del d = some sh) (hs : v.sinfo d = some si) :
    v.withdrawRewards h d = .error .stakeSanity ∨
    ∃ v' c, v.withdrawRewards h d = .ok (v', c) ∧ RI n v' ∧ v'.sinfo = setAt v.sinfo d none ∧
      v'.refs (v'.period - 1) = 1 ∧ v'.period = v.period + 1 ∧ v'.slashes = v.slashes ∧ SF v v' := by
  obtain ⟨v1, h1, i1, f1, p1, s1, e1, sf1⟩ := incPeriod_total hi v.tokens
  have hs1 : v1.sinfo d = some si := by rw [s1]; exact hs
  unfold VS.withdrawRewards
  rw [hdel, hs]
  dsimp only
  rw [h1]
  dsimp only
  rcases calcRewards_total i1 (h := h) (sh := sh) hs1 (ending := v.period) (by omega) with hE | ⟨raw, hR⟩
  · rw [hE]; exact Or.inl rfl
  · rw [hR]
    dsimp only
    have hpos := i1.refs_info_pos hd hs1
    right
    unfold VS.decRef
    dsimp only
    rw [if_neg hpos]
    dsimp only
    refine ⟨_, _, rfl, ?_, ?_, ?_, ?_, ?_, ?_⟩
    · exact i1.dropInfo hd hs1 rfl rfl rfl rfl rfl
    · show setAt v1.sinfo d none = setAt v.sinfo d none
      rw [s1]
    · show setAt v1.refs si.period (v1.refs si.period - 1) (v1.period - 1) = 1
      have := hi.sper d si hs
      have ne : v1.period - 1 ≠ si.period := by omega
      simp only [setAt, ne, if_false]
      exact f1
    · exact p1
    · exact e1
    · exact ⟨sf1.1, sf1.2.1, sf1.2.2⟩

/-- `initializeDelegation` on a fresh record -/
theorem initDelegation_total {n : Nat} {v : VS} (hi : RI n v) {h d sh : Nat} (hd : d < n) (hdel : v.del d = some sh)
    (hs : v.sinfo d = none) (hf : v.refs (v.period - 1) = 1) :
    ∃ v', v.initDelegation h d = .ok v' ∧ RI n v' ∧
      v'.sinfo = setAt v.sinfo d (some ⟨v.period - 1, v.tokensFromSharesTrunc sh, h⟩) ∧
      v'.period = v.period ∧ v'.slashes = v.slashes ∧ SF v v' := by
  unfold VS.initDelegation VS.incRef
  rw [if_neg (by omega)]
  dsimp only
  rw [hdel]
  dsimp only
  refine ⟨_, rfl, ?_, rfl, rfl, rfl, ⟨rfl, rfl, rfl⟩⟩
  exact hi.addInfo hd hs hf _ h rfl rfl rfl rfl rfl

theorem Dom_set {v v' : VS} {d : Nat} {o : Option SInfo} (hD : Dom v) (hd : v'.del = v.del) (hs : v'.sinfo = setAt v.sinfo d o)
    (ho : o.isSome = (v.del d).isSome) : Dom v' := by
  intro e
  rw [hd, hs]
  by_cases h1 : e = d
  · subst h1; simp [setAt, ho]
  · simp only [setAt, h1, if_false]; exact hD e

/-- keeper `WithdrawDelegationRewards` (withdraw + re-initialise) -/
theorem withdrawMsg_total {n : Nat} {v : VS} (hi : RI n v) (hD : Dom v) {h d sh : Nat} (hd : d < n)
    (hdel : v.del d = some sh) :
    v.withdrawMsg h d = .error .stakeSanity ∨
    ∃ v' c, v.withdrawMsg h d = .ok (v', c) ∧ RI n v' ∧ Dom v' ∧
      v'.sinfo = setAt v.sinfo d (some ⟨v.period, v.tokensFromSharesTrunc sh, h⟩) ∧
      v'.period = v.period + 1 ∧ v'.refs v.period = 2 ∧ v'.slashes = v.slashes ∧ SF v v' := by
  have hsome : (v.sinfo d).isSome = true := by rw [hD d, hdel]; rfl
  obtain ⟨si, hs⟩ := Option.isSome_iff_exists.mp hsome
  unfold VS.withdrawMsg
  rcases withdrawRewards_total hi (h := h) hd hdel hs with hE | ⟨v1, c, hw, i1, s1, f1, p1, e1, sf1⟩
  · rw [hE]; exact Or.inl rfl
  · rw [hw]
    dsimp only
    have hdel1 : v1.del d = some sh := by rw [sf1.1]; exact hdel
    have hs1 : v1.sinfo d = none := by rw [s1]; simp [setAt]
    obtain ⟨v2, h2, i2, s2, p2, e2, sf2⟩ := initDelegation_total i1 (h := h) hd hdel1 hs1 f1
    rw [h2]
    right
    have pe : v1.period - 1 = v.period := by omega
    have tk : v1.tokensFromSharesTrunc sh = v.tokensFromSharesTrunc sh := by
      simp only [VS.tokensFromSharesTrunc, sf1.2.1, sf1.2.2]
    have hsinfo : v2.sinfo = setAt v.sinfo d (some ⟨v.period, v.tokensFromSharesTrunc sh, h⟩) := by
      rw [s2, s1, pe, tk]
      funext x
      by_cases hx : x = d
      · simp [setAt, hx]
      · simp [setAt, hx]
    refine ⟨v2, c, rfl, i2, ?_, hsinfo, by omega, ?_, e2.trans e1, sf1.trans sf2⟩
    · exact Dom_set hD (sf1.trans sf2).1 hsinfo (by rw [hdel]; rfl)
    · -- the record of the period just ended is referenced by the current period and by the delegator
      have a := i2.cnt v.period
      have hcur : curRef v2 v.period = 1 := by simp [curRef, p2, p1]
      have hsl : slashCnt v2 v.period = 0 := by
        have : slashCnt v2 v.period = slashCnt v v.period := by simp only [slashCnt, e2, e1]
        rw [this]; exact hi.slashCnt_zero (Nat.le_refl _)
      have hge : 1 ≤ infoCnt n v2 v.period := by
        have b : ind (v2.sinfo d) v.period ≤ infoCnt n v2 v.period :=
          sumTo_ge_term (fun i => ind (v2.sinfo i) v.period) hd
        rw [hsinfo] at b
        simpa [setAt, ind] using b
      have := i2.refs_le_two v.period
      omega

/-! ### the whole per-validator invariant and the SDK operations -/

structure VInv (n : Nat) (v : VS) : Prop where
  sum : SumInv n v
  ri : RI n v
  dom : Dom v

theorem setAt_setAt {α} (f : Nat → α) (d : Nat) (x y : α) : setAt (setAt f d x) d y = setAt f d y := by
  funext i; by_cases h : i = d <;> simp [setAt, h]

theorem Dom_set2 {v v' : VS} {d : Nat} {a : Option Nat} {b : Option SInfo} (hD : Dom v) (hd : v'.del = setAt v.del d a)
    (hs : v'.sinfo = setAt v.sinfo d b) (ho : b.isSome = a.isSome) : Dom v' := by
  intro e
  rw [hd, hs]
  by_cases h1 : e = d
  · subst h1; simp [setAt, ho]
  · simp only [setAt, h1, if_false]; exact hD e

theorem Dom_sinfo_some {v : VS} (hD : Dom v) {d sh : Nat} (h : v.del d = some sh) : ∃ si, v.sinfo d = some si := by
  have : (v.sinfo d).isSome = true := by rw [hD d, h]; rfl
  exact Option.isSome_iff_exists.mp this

theorem Dom_sinfo_none {v : VS} (hD : Dom v) {d : Nat} (h : v.del d = none) : v.sinfo d = none := by
  have : (v.sinfo d).isSome = false := by rw [hD d, h]; rfl
  cases hs : v.sinfo d with
  | none => rfl
  | some x => rw [hs] at this; cases this

theorem delegatePre_total {n : Nat} {v : VS} (hi : RI n v) (hD : Dom v) {h d : Nat} (hd : d < n) :
    v.delegatePre h d = .error .stakeSanity ∨
    ∃ v1 c, v.delegatePre h d = .ok (v1, c) ∧ RI n v1 ∧ v1.sinfo = setAt v.sinfo d none ∧
      v1.refs (v1.period - 1) = 1 ∧ SF v v1 := by
  unfold VS.delegatePre
  cases hdel : v.del d with
  | some sh =>
    dsimp only
    obtain ⟨si, hs⟩ := Dom_sinfo_some hD hdel
    rcases withdrawRewards_total hi (h := h) hd hdel hs with hE | ⟨v1, c, hw, i1, s1, f1, _, _, sf1⟩
    · exact Or.inl hE
    · exact Or.inr ⟨v1, c, hw, i1, s1, f1, sf1⟩
  | none =>
    dsimp only
    obtain ⟨v1, h1, i1, f1, _, s1, _, sf1⟩ := incPeriod_total hi v.tokens
    rw [h1]
    refine Or.inr ⟨v1, 0, rfl, i1, ?_, f1, sf1⟩
    rw [s1]
    funext x
    by_cases hx : x = d
    · subst hx; simp [setAt, Dom_sinfo_none hD hdel]
    · simp [setAt, hx]

theorem delegate_VInv {n : Nat} {v v' : VS} {h d amt c : Nat} (hd : d < n)
    (hx : v.delegate h d amt = .ok (v', c)) (hi : VInv n v) : VInv n v' := by
  have hsum := delegate_SumInv hd hx hi.sum
  suffices key : RI n v' ∧ Dom v' from ⟨hsum, key.1, key.2⟩
  unfold VS.delegate at hx
  split at hx
  · cases hx
  · obtain ⟨r, hpre, hx⟩ := bind_ok hx
    obtain ⟨v3, h3, hx⟩ := bind_ok hx
    obtain ⟨v1, c1⟩ := r
    cases hx
    rcases delegatePre_total hi.ri hi.dom (h := h) hd with hE | ⟨v1', c', hw, i1, s1, f1, sf1⟩
    · rw [hE] at hpre; cases hpre
    · rw [hw] at hpre
      cases hpre
      have iI : RI n (v1.issue d amt) := RI.congr (v := v1) rfl rfl rfl rfl rfl i1
      have hdelI : (v1.issue d amt).del d = some ((v1.del d).getD 0 +
          (if v1.shares = 0 then amt * ONE else v1.sharesFromTokens amt)) := by
        simp [VS.issue, setAt]
      have hsI : (v1.issue d amt).sinfo d = none := by
        show v1.sinfo d = none
        rw [s1]; simp [setAt]
      obtain ⟨v3', h3', i3, s3, _, _, sf3⟩ := initDelegation_total iI (h := h) hd hdelI hsI f1
      rw [h3'] at h3
      cases h3
      refine ⟨i3, ?_⟩
      refine Dom_set2 (v := v) (d := d) hi.dom (a := some ((v1.del d).getD 0 +
          (if v1.shares = 0 then amt * ONE else v1.sharesFromTokens amt)))
          (b := some ⟨(v1.issue d amt).period - 1, (v1.issue d amt).tokensFromSharesTrunc ((v1.del d).getD 0 +
          (if v1.shares = 0 then amt * ONE else v1.sharesFromTokens amt)), h⟩) ?_ ?_ rfl
      · rw [sf3.1]
        show setAt v1.del d _ = _
        rw [sf1.1]
      · rw [s3]
        show setAt v1.sinfo d _ = _
        rw [s1, setAt_setAt]

theorem unbond_VInv {n : Nat} {v v' : VS} {h d sh ret c : Nat} (hd : d < n)
    (hx : v.unbond h d sh = .ok (v', ret, c)) (hi : VInv n v) : VInv n v' := by
  have hsum := unbond_SumInv hd hx hi.sum
  suffices key : RI n v' ∧ Dom v' from ⟨hsum, key.1, key.2⟩
  unfold VS.unbond at hx
  cases hdel : v.del d with
  | none => rw [hdel] at hx; cases hx
  | some cur =>
    rw [hdel] at hx
    dsimp only at hx
    obtain ⟨r, hw, hx⟩ := bind_ok hx
    obtain ⟨v1, c1⟩ := r
    dsimp only at hx
    obtain ⟨si, hs⟩ := Dom_sinfo_some hi.dom hdel
    rcases withdrawRewards_total hi.ri (h := h) hd hdel hs with hE | ⟨v1', c', hw', i1, s1, f1, _, _, sf1⟩
    · rw [hE] at hw; cases hw
    · rw [hw'] at hw
      cases hw
      by_cases hlt : cur < sh
      · rw [if_pos hlt] at hx; cases hx
      · rw [if_neg hlt] at hx
        obtain ⟨v2, hpost, hx⟩ := bind_ok hx
        obtain ⟨q, hq, hx⟩ := bind_ok hx
        cases hx
        -- after the delegation rewrite
        have h2 : RI n v2 ∧ Dom v2 := by
          unfold VS.unbondPost at hpost
          by_cases hz : cur - sh = 0
          · rw [if_pos hz] at hpost
            cases hpost
            refine ⟨RI.congr (v := v1) rfl rfl rfl rfl rfl i1, ?_⟩
            refine Dom_set2 (v := v) (d := d) hi.dom (a := none) (b := none) ?_ ?_ rfl
            · show setAt v1.del d (if cur - sh = 0 then none else some (cur - sh)) = _
              rw [sf1.1, if_pos hz]
            · show v1.sinfo = _
              exact s1
          · rw [if_neg hz] at hpost
            have iS : RI n (v1.setShares d (cur - sh)) := RI.congr (v := v1) rfl rfl rfl rfl rfl i1
            have hdelS : (v1.setShares d (cur - sh)).del d = some (cur - sh) := by
              simp [VS.setShares, setAt, hz]
            have hsS : (v1.setShares d (cur - sh)).sinfo d = none := by
              show v1.sinfo d = none
              rw [s1]; simp [setAt]
            obtain ⟨v2', h2', i2, s2, _, _, sf2⟩ := initDelegation_total iS (h := h) hd hdelS hsS f1
            rw [h2'] at hpost
            cases hpost
            refine ⟨i2, ?_⟩
            refine Dom_set2 (v := v) (d := d) hi.dom (a := some (cur - sh))
              (b := some ⟨(v1.setShares d (cur - sh)).period - 1,
                (v1.setShares d (cur - sh)).tokensFromSharesTrunc (cur - sh), h⟩) ?_ ?_ rfl
            · rw [sf2.1]
              show setAt v1.del d (if cur - sh = 0 then none else some (cur - sh)) = _
              rw [sf1.1, if_neg hz]
            · rw [s2]
              show setAt v1.sinfo d _ = _
              rw [s1, setAt_setAt]
        unfold VS.removeTokens at hq
        dsimp only at hq
        generalize (if v2.shares - sh = 0 then v2.tokens else v2.tokensFromShares sh / ONE) = issued at hq
        by_cases hneg : v2.tokens < issued
        · rw [if_pos hneg] at hq; cases hq
        · rw [if_neg hneg] at hq
          cases hq
          exact ⟨RI.congr (v := v2) rfl rfl rfl rfl rfl h2.1, h2.2⟩

theorem alloc_fields (v : VS) (amt : Nat) :
    (v.alloc amt).period = v.period ∧ (v.alloc amt).refs = v.refs ∧ (v.alloc amt).ratio = v.ratio ∧
    (v.alloc amt).sinfo = v.sinfo ∧ (v.alloc amt).slashes = v.slashes ∧ (v.alloc amt).del = v.del := by
  unfold VS.alloc
  generalize amt * ONE = t
  dsimp only
  generalize dMul t v.rate = com
  exact ⟨rfl, rfl, rfl, rfl, rfl, rfl⟩

theorem alloc_VInv {n : Nat} {v : VS} (amt : Nat) (hi : VInv n v) : VInv n (v.alloc amt) := by
  obtain ⟨a1, a2, a3, a4, a5, a6⟩ := alloc_fields v amt
  refine ⟨SumInv_of_SF (alloc_SF _ _) hi.sum, hi.ri.congr a1 a2 a3 a4 a5, ?_⟩
  intro e
  rw [a4, a6]; exact hi.dom e

theorem slashHook_RI {n : Nat} {v : VS} (hi : RI n v) (h eff : Nat) :
    RI n (v.slashHook h eff) ∧ (v.slashHook h eff).sinfo = v.sinfo := by
  obtain ⟨v1, h1, i1, f1, p1, s1, e1, sf1⟩ := incPeriod_total hi v.tokens
  unfold VS.slashHook
  rw [h1]
  dsimp only
  unfold VS.incRef
  have pe : v.period = v1.period - 1 := by omega
  rw [pe, if_neg (by omega)]
  dsimp only
  exact ⟨i1.addSlash f1 h eff rfl rfl rfl rfl rfl, s1⟩

theorem slash_RI_Dom {n : Nat} {v : VS} (h p f : Nat) (hi : VInv n v) :
    RI n (v.slash h p f) ∧ Dom (v.slash h p f) := by
  unfold VS.slash
  dsimp only
  split
  · exact ⟨hi.ri, hi.dom⟩
  · generalize (min ONE _) = eff
    obtain ⟨hr, hsame⟩ := slashHook_RI hi.ri h eff
    obtain ⟨hd, _, _⟩ := slashHook_SF v h eff
    refine ⟨RI.congr (v := v.slashHook h eff) rfl rfl rfl rfl rfl hr, ?_⟩
    intro e
    show ((v.slashHook h eff).sinfo e).isSome = ((v.slashHook h eff).del e).isSome
    rw [hsame, hd]; exact hi.dom e

theorem slash_VInv {n : Nat} {v : VS} (h p f : Nat) (hi : VInv n v) : VInv n (v.slash h p f) :=
  have key := slash_RI_Dom h p f hi
  ⟨slash_SumInv v h p f hi.sum, key.1, key.2⟩

theorem withdrawMsg_VInv {n : Nat} {v v' : VS} {h d c : Nat} (hd : d < n)
    (hx : v.withdrawMsg h d = .ok (v', c)) (hi : VInv n v) : VInv n v' := by
  have hsum := SumInv_of_SF (withdrawMsg_SF hx) hi.sum
  suffices key : RI n v' ∧ Dom v' from ⟨hsum, key.1, key.2⟩
  cases hdel : v.del d with
  | none =>
    unfold VS.withdrawMsg VS.withdrawRewards at hx
    rw [hdel] at hx
    cases hx
  | some sh =>
    rcases withdrawMsg_total hi.ri hi.dom (h := h) hd hdel with hE | ⟨v2, c2, hw, i2, D2, _⟩
    · rw [hE] at hx; cases hx
    · rw [hw] at hx; cases hx
      exact ⟨i2, D2⟩

/-! ### the share transfer keeps the invariant and can only fail with the stake sanity check -/

theorem xferLookup_total {c : Cfg} (hg : good c = true) {n : Nat} {v v1 : VS} (i1 : RI n v1) (D1 : Dom v1) {h t : Nat}
    (ht : t < n) :
    VS.xferLookup c v v1 h t = .error .stakeSanity ∨
    ∃ v2 rt, VS.xferLookup c v v1 h t = .ok (v2, rt) ∧ RI n v2 ∧ Dom v2 ∧ SF v1 v2 ∧
      (v1.del t = none → v2.refs (v2.period - 1) = 1) := by
  obtain ⟨-, -, -, -, -, g6, g7, -⟩ := good_fields hg
  unfold VS.xferLookup
  cases hd : v1.del t with
  | none =>
    dsimp only
    rw [g7, if_pos rfl]
    obtain ⟨v2, h2, i2, f2, _, s2, _, sf2⟩ := incPeriod_total i1 v.tokens
    rw [h2]
    refine Or.inr ⟨v2, 0, rfl, i2, ?_, sf2, fun _ => f2⟩
    intro e
    rw [s2, sf2.1]; exact D1 e
  | some tsh =>
    dsimp only
    rw [g6, if_pos rfl]
    rcases withdrawMsg_total i1 D1 (h := h) ht hd with hE | ⟨v2, c2, hw, i2, D2, _, _, _, _, sf2⟩
    · exact Or.inl hE
    · exact Or.inr ⟨v2, c2, hw, i2, D2, sf2, fun hn => by cases hn⟩

theorem xferFrom_total {c : Cfg} (hg : good c = true) {n : Nat} {v v2 : VS} (i2 : RI n v2) (D2 : Dom v2) {f fsh X : Nat}
    (hf : f < n) (hdel : v2.del f = some fsh) (hle : X ≤ fsh) :
    ∃ v3, VS.xferFrom c v v2 f fsh X = .ok v3 ∧ RI n v3 ∧ Dom v3 ∧ v3.period = v2.period ∧
      (v2.refs (v2.period - 1) = 1 → v3.refs (v3.period - 1) = 1) ∧
      (∀ e, e ≠ f → v3.sinfo e = v2.sinfo e ∧ v3.del e = v2.del e) := by
  obtain ⟨-, -, -, -, -, -, -, g8, g9, -⟩ := good_fields hg
  obtain ⟨si, hs⟩ := Dom_sinfo_some D2 hdel
  unfold VS.xferFrom
  rw [hs]
  dsimp only [Option.getD_some]
  rw [if_neg (by omega)]
  by_cases hz : fsh - X = 0
  · rw [if_pos hz, g8, g9]
    simp only [if_true]
    have hpos := i2.refs_info_pos hf hs
    unfold VS.decRef
    dsimp only
    rw [if_neg hpos]
    dsimp only
    refine ⟨_, rfl, ?_, ?_, rfl, ?_, ?_⟩
    · exact i2.dropInfo hf hs rfl rfl rfl rfl rfl
    · exact Dom_set2 (v := v2) (d := f) D2 (a := none) (b := none) rfl rfl rfl
    · intro hfr
      show setAt v2.refs si.period (v2.refs si.period - 1) (v2.period - 1) = 1
      have := i2.fresh_info hfr hs
      have ne : v2.period - 1 ≠ si.period := by omega
      simp only [setAt, ne, if_false]
      exact hfr
    · intro e he
      exact ⟨by simp [setAt, he], by simp [setAt, he]⟩
  · rw [if_neg hz]
    refine ⟨_, rfl, ?_, ?_, rfl, fun hfr => hfr, ?_⟩
    · exact i2.setInfoSame (si' := { si with stake := v.tokensFromSharesTrunc (fsh - X) }) hf hs rfl rfl rfl rfl rfl rfl
    · exact Dom_set2 (v := v2) (d := f) D2 (a := some (fsh - X))
        (b := some { si with stake := v.tokensFromSharesTrunc (fsh - X) }) rfl rfl rfl
    · intro e he
      exact ⟨by simp [setAt, he], by simp [setAt, he]⟩

theorem xferTo_total {c : Cfg} (hg : good c = true) {n : Nat} {v v3 : VS} (i3 : RI n v3) (D3 : Dom v3) {h t X : Nat}
    (ht : t < n) (o : Option Nat) (ho : o = v3.del t) (hfresh : o = none → v3.refs (v3.period - 1) = 1) :
    ∃ v4, VS.xferTo c v v3 h t X o = .ok v4 ∧ RI n v4 ∧ Dom v4 := by
  obtain ⟨-, -, -, -, g5, -, -, -, -, g10, g11, -⟩ := good_fields hg
  unfold VS.xferTo
  rw [g5, g10, g11]
  simp only [if_true]
  cases hd : o with
  | none =>
    dsimp only
    have hf := hfresh hd
    have hdel3 : v3.del t = none := by rw [← ho]; exact hd
    have hs3 := Dom_sinfo_none D3 hdel3
    unfold VS.incRef
    dsimp only
    rw [if_neg (by omega)]
    dsimp only
    refine ⟨_, rfl, ?_, ?_⟩
    · exact RI.addInfo (v := v3) i3 ht hs3 hf _ h rfl rfl rfl rfl rfl
    · exact Dom_set2 (v := v3) (d := t) D3 (a := some (0 + X))
        (b := some ⟨v3.period - 1, v.tokensFromSharesTrunc X, h⟩) rfl rfl rfl
  | some tsh =>
    dsimp only
    have hdel3 : v3.del t = some tsh := by rw [← ho]; exact hd
    obtain ⟨si, hs⟩ := Dom_sinfo_some D3 hdel3
    have hs' : setAt v3.del t (some (tsh + X)) = setAt v3.del t (some (tsh + X)) := rfl
    refine ⟨_, rfl, ?_, ?_⟩
    · refine RI.setInfoSame (v := v3) (si := si)
        (si' := { (v3.sinfo t).getD ⟨0, 0, 0⟩ with stake := v.tokensFromSharesTrunc (tsh + X) }) i3 ht hs ?_ rfl rfl rfl rfl rfl
      rw [hs]; rfl
    · exact Dom_set2 (v := v3) (d := t) D3 (a := some (tsh + X))
        (b := some { (v3.sinfo t).getD ⟨0, 0, 0⟩ with stake := v.tokensFromSharesTrunc (tsh + X) }) rfl rfl rfl

/-- the state-changing part of the transfer between two different accounts -/
theorem specCore_total {c : Cfg} (hg : good c = true) {n : Nat} {v : VS} (hi : VInv n v) {h f t fsh X : Nat}
    (hf : f < n) (ht : t < n) (hne : f ≠ t) (hdel : v.del f = some fsh) (hle : X ≤ fsh) :
    VS.specCore c v h f t fsh X = .error .stakeSanity ∨
    ∃ v' rf rt, VS.specCore c v h f t fsh X = .ok (v', rf, rt) ∧ RI n v' ∧ Dom v' := by
  obtain ⟨-, -, -, g4, -⟩ := good_fields hg
  unfold VS.specCore
  rw [g4, if_pos rfl]
  rcases withdrawMsg_total hi.ri hi.dom (h := h) hf hdel with hE | ⟨v1, c1, hw, i1, D1, _, _, _, _, sf1⟩
  · rw [hE]; exact Or.inl rfl
  · rw [hw]
    simp only [bind, Except.bind]
    rcases xferLookup_total hg (v := v) i1 D1 (h := h) ht with hE | ⟨v2, rt, hl, i2, D2, sf2, fr2⟩
    · rw [hE]; exact Or.inl rfl
    · rw [hl]
      dsimp only
      have hdel2 : v2.del f = some fsh := by rw [sf2.1, sf1.1]; exact hdel
      obtain ⟨v3, h3, i3, D3, p3, fr3, oth3⟩ := xferFrom_total hg (v := v) i2 D2 hf hdel2 hle
      rw [h3]
      dsimp only
      have hto : v1.del t = v3.del t := by
        rw [(oth3 t (fun e => hne e.symm)).2, sf2.1]
      obtain ⟨v4, h4, i4, D4⟩ := xferTo_total hg (v := v) i3 D3 (h := h) (X := X) ht (v1.del t) hto
        (fun hn => fr3 (fr2 hn))
      rw [h4]
      exact Or.inr ⟨v4, c1, rt, rfl, i4, D4⟩

/-- `handlerTransferShares` under the invariant: the only failures are the three documented refusals and the SDK's
stake sanity check; a success keeps the invariant -/
theorem transfer_total {c : Cfg} (hg : good c = true) {n : Nat} {v : VS} (hi : VInv n v) {h f t X : Nat} {recv : Bool}
    (hf : f < n) (ht : t < n) :
    (∃ e, VS.transfer c v h f t X recv = .error e ∧
      (e = .noDelegation ∨ e = .recvRedel ∨ e = .insufficient ∨ e = .stakeSanity)) ∨
    ∃ v' rf rt, VS.transfer c v h f t X recv = .ok (v', rf, rt) ∧ VInv n v' := by
  obtain ⟨g1, g2, g3, -⟩ := good_fields hg
  by_cases hok : ∃ r, VS.transfer c v h f t X recv = .ok r
  · obtain ⟨⟨v', rf, rt⟩, hr⟩ := hok
    refine Or.inr ⟨v', rf, rt, hr, ?_⟩
    have hsum := transfer_SumInv hg hf ht hr hi.sum
    by_cases hft : f = t
    · subst hft
      rw [(transfer_self hg hr).1]; exact hi
    · obtain ⟨fsh, hdf, _, hle, _⟩ := transfer_del hg hft hr
      unfold VS.transfer at hr
      rw [hdf] at hr
      have hfte : (f == t) = false := by simp [hft]
      simp only [g2, g3, g1, hfte, Bool.true_and, Bool.and_false, Bool.false_eq_true, cmpShares_LT,
        decide_eq_true_eq, if_false] at hr
      split at hr
      · cases hr
      · split at hr
        · cases hr
        · rw [xferCore_eq_spec hg] at hr
          rcases specCore_total hg hi (h := h) hf ht hft hdf hle with hE | ⟨v2, a, b, hs, i2, D2⟩
          · rw [hE] at hr; cases hr
          · rw [hs] at hr; cases hr
            exact ⟨hsum, i2, D2⟩
  · left
    unfold VS.transfer at hok ⊢
    cases hdf : v.del f with
    | none => exact ⟨_, rfl, Or.inl rfl⟩
    | some fsh =>
      rw [hdf] at hok
      dsimp only at hok ⊢
      rw [g2, g3, g1] at hok ⊢
      simp only [Bool.true_and, cmpShares_LT, decide_eq_true_eq] at hok ⊢
      by_cases hrecv : recv = true
      · rw [if_pos hrecv]; exact ⟨_, rfl, Or.inr (Or.inl rfl)⟩
      · rw [if_neg hrecv] at hok ⊢
        by_cases hlt : fsh < X
        · rw [if_pos hlt]; exact ⟨_, rfl, Or.inr (Or.inr (Or.inl rfl))⟩
        · rw [if_neg hlt] at hok ⊢
          by_cases hft : f = t
          · exfalso; apply hok
            simp [hft]
          · have hfte : (f == t) = false := by simp [hft]
            simp only [hfte, Bool.false_eq_true, if_false] at hok ⊢
            rw [xferCore_eq_spec hg] at hok ⊢
            rcases specCore_total hg hi (h := h) hf ht hft hdf (Nat.le_of_not_lt hlt) with hE | ⟨v2, a, b, hs, _⟩
            · exact ⟨_, hE, Or.inr (Or.inr (Or.inr rfl))⟩
            · exact absurd ⟨_, hs⟩ hok

/-! ### a full undelegation -/

theorem chopRound_le {y z : Nat} (h : y ≤ z * ONE) : chopRound y ≤ z := by
  unfold chopRound ONE at *
  dsimp only
  (repeat' split) <;> omega

/-- the tokens handed out for at most all shares never exceed the validator's tokens -/
theorem tokensFromShares_div_le (v : VS) {sh : Nat} (h : sh ≤ v.shares) : v.tokensFromShares sh / ONE ≤ v.tokens := by
  unfold VS.tokensFromShares dQuo
  have h1 : sh * v.tokens * ONE * ONE / v.shares ≤ v.tokens * ONE * ONE := by
    apply Nat.div_le_of_le_mul
    have : sh * (v.tokens * ONE * ONE) ≤ v.shares * (v.tokens * ONE * ONE) := Nat.mul_le_mul_right _ h
    calc sh * v.tokens * ONE * ONE = sh * (v.tokens * ONE * ONE) := by simp [Nat.mul_assoc]
      _ ≤ v.shares * (v.tokens * ONE * ONE) := this
  have h2 := chopRound_le (z := v.tokens * ONE) h1
  exact Nat.div_le_of_le_mul (by rw [Nat.mul_comm ONE v.tokens]; exact h2)

theorem delSum_ge {n : Nat} (v : VS) {d : Nat} (hd : d < n) : (v.del d).getD 0 ≤ v.delSum n :=
  sumTo_ge_term (fun i => (v.del i).getD 0) hd

/-- staking `Unbond` of *all* shares of a delegator: only the stake sanity check of the reward withdrawal can fail -/
theorem unbond_full_total {n : Nat} {v : VS} (hi : VInv n v) {h d sh : Nat} (hd : d < n) (hdel : v.del d = some sh) :
    v.unbond h d sh = .error .stakeSanity ∨
    ∃ v' ret c, v.unbond h d sh = .ok (v', ret, c) ∧ v'.del d = none ∧ VInv n v' := by
  obtain ⟨si, hs⟩ := Dom_sinfo_some hi.dom hdel
  have key : v.unbond h d sh = .error .stakeSanity ∨ ∃ r, v.unbond h d sh = .ok r ∧ r.1.del d = none := by
    unfold VS.unbond
    rw [hdel]
    dsimp only
    rcases withdrawRewards_total hi.ri (h := h) hd hdel hs with hE | ⟨v1, c, hw, i1, s1, f1, _, _, sf1⟩
    · rw [hE]; exact Or.inl rfl
    · rw [hw]
      simp only [bind, Except.bind]
      rw [if_neg (Nat.lt_irrefl _)]
      unfold VS.unbondPost
      rw [if_pos (Nat.sub_self _)]
      dsimp only
      unfold VS.removeTokens
      dsimp only
      have hsh : sh ≤ v.shares := by
        have a := delSum_ge v hd
        rw [hdel] at a
        have b := hi.sum.1
        simp only [Option.getD_some] at a
        omega
      have hle : (if (v1.setShares d (sh - sh)).shares - sh = 0 then (v1.setShares d (sh - sh)).tokens
          else (v1.setShares d (sh - sh)).tokensFromShares sh / ONE) ≤ (v1.setShares d (sh - sh)).tokens := by
        split
        · exact Nat.le_refl _
        · have e1 : (v1.setShares d (sh - sh)).tokens = v1.tokens := rfl
          have e2 : (v1.setShares d (sh - sh)).tokensFromShares sh = v1.tokensFromShares sh := rfl
          rw [e1, e2]
          apply tokensFromShares_div_le
          rw [sf1.2.2]; exact hsh
      rw [if_neg (by omega)]
      refine Or.inr ⟨_, rfl, ?_⟩
      show setAt v1.del d (if sh - sh = 0 then none else some (sh - sh)) d = none
      simp [setAt]
  rcases key with hE | ⟨⟨v', ret, c⟩, hr, hnone⟩
  · exact Or.inl hE
  · exact Or.inr ⟨v', ret, c, hr, hnone, unbond_VInv hd hr hi⟩

/-! ### the chain -/

/-- every validator of the chain satisfies the invariant (accounts `< nAcc`) -/
def SInv (s : State) : Prop := ∀ w, w < s.nVal → VInv s.nAcc (s.vs w)

theorem SInv_setVS {s : State} {v : Nat} {x : VS} (hi : SInv s) (hx : VInv s.nAcc x) : SInv (s.setVS v x) := by
  intro w hw
  show VInv s.nAcc (setAt s.vs v x w)
  by_cases h : w = v
  · subst h; rw [setAt_same]; exact hx
  · rw [setAt_ne _ _ h]; exact hi w hw

theorem b2 {a b c : Bool} (h : ¬((!(a && b) || c) = true)) : a = true ∧ b = true := by
  revert h; cases a <;> cases b <;> cases c <;> decide
theorem b3 {a b c d : Bool} (h : ¬((!(a && b && c) || d) = true)) : a = true ∧ b = true ∧ c = true := by
  revert h; cases a <;> cases b <;> cases c <;> cases d <;> decide
theorem lt_of_okAcc' {s : State} {d : Nat} (h : s.okAcc d = true) : d < s.nAcc := by
  simpa [State.okAcc] using h
theorem lt_of_okVal {s : State} {d : Nat} (h : s.okVal d = true) : d < s.nVal := by
  simpa [State.okVal] using h

theorem transferOp_SInv {c : Cfg} (hg : good c = true) {s s' : State} {f t v x : Nat}
    (hi : SInv s) (h : s.transferOp c f t v x = .ok s') : SInv s' ∧ s'.nAcc = s.nAcc ∧ s'.nVal = s.nVal := by
  unfold State.transferOp at h
  split at h
  · cases h
  · rename_i hok
    have hok' : s.okAcc f = true ∧ s.okAcc t = true ∧ s.okVal v = true := by
      revert hok
      cases s.okAcc f <;> cases s.okAcc t <;> cases s.okVal v <;> decide
    split at h
    · cases h
    · split at h
      · cases h
      · rename_i v' rf rt ht
        cases h
        have hf := lt_of_okAcc' hok'.1
        have htn := lt_of_okAcc' hok'.2.1
        have hv := lt_of_okVal hok'.2.2
        rcases transfer_total hg (hi v hv) (h := s.height) (f := f) (t := t) (X := x * ONE)
            (recv := s.hasRecvRedel f v) hf htn with ⟨e, he, _⟩ | ⟨v2, a, b, hr, hv2⟩
        · rw [he] at ht; cases ht
        · rw [hr] at ht; cases ht
          exact ⟨SInv_setVS hi hv2, rfl, rfl⟩

/-- a change of the validator's status touches none of the records the invariant speaks about -/
theorem status_VInv {n : Nat} {v : VS} (b ub j : Bool) (u : Nat) (hi : VInv n v) :
    VInv n { v with bonded := b, unbonded := ub, ubHeight := u, jailed := j } :=
  ⟨hi.sum, RI.congr (v := v) rfl rfl rfl rfl rfl hi.ri, hi.dom⟩

theorem endBlock_VInv {n : Nat} {v : VS} (h : Nat) (hi : VInv n v) : VInv n (v.endBlock h) := by
  unfold VS.endBlock
  dsimp only
  split
  · exact status_VInv false v.unbonded v.jailed h hi
  · split
    · exact status_VInv true false v.jailed v.ubHeight hi
    · exact hi

theorem matureVal_VInv {n : Nat} {v : VS} (hi : VInv n v) : VInv n v.matureVal := by
  unfold VS.matureVal
  split
  · exact hi
  · exact status_VInv v.bonded true v.jailed v.ubHeight hi

theorem matureValTo_VInv {n : Nat} {v : VS} (H : Nat) (hi : VInv n v) : VInv n (v.matureValTo H) := by
  unfold VS.matureValTo
  split
  · exact matureVal_VInv hi
  · exact hi

theorem matureStep_VInv {n : Nat} {v : VS} (h H : Nat) (hi : VInv n v) :
    VInv n (if v.bonded then v.endBlock h else (v.endBlock h).matureValTo H) := by
  split
  · exact endBlock_VInv h hi
  · exact matureValTo_VInv H (endBlock_VInv h hi)

/-- one successful operation keeps the invariant of every validator (and the universe of accounts / validators) -/
theorem exec_SInv {c : Cfg} (hg : good c = true) {s s' : State} {o : Op}
    (hi : SInv s) (h : s.exec c o = .ok s') : SInv s' ∧ s'.nAcc = s.nAcc ∧ s'.nVal = s.nVal := by
  cases o with
  | delegate d v amt =>
    simp only [State.exec] at h
    split at h
    · cases h
    · rename_i hok
      have hd := lt_of_okAcc' (b2 hok).1
      have hv := lt_of_okVal (b2 hok).2
      split at h
      · cases h
      · rename_i v' r hx
        cases h
        exact ⟨SInv_setVS hi (delegate_VInv hd hx (hi v hv)), rfl, rfl⟩
  | undelegate d v amt =>
    simp only [State.exec] at h
    split at h
    · cases h
    · rename_i hok
      have hd := lt_of_okAcc' (b2 hok).1
      have hv := lt_of_okVal (b2 hok).2
      split at h
      · cases h
      · split at h
        · cases h
        · split at h
          · cases h
          · rename_i v' ret r hx
            cases h
            exact ⟨SInv_setVS hi (unbond_VInv hd hx (hi v hv)), rfl, rfl⟩
  | redelegate d src dst amt =>
    simp only [State.exec] at h
    split at h
    · cases h
    · rename_i hok
      have hd := lt_of_okAcc' (b3 hok).1
      have hsrc := lt_of_okVal (b3 hok).2.1
      have hdst := lt_of_okVal (b3 hok).2.2
      split at h
      · cases h
      · split at h
        · cases h
        · split at h
          · cases h
          · split at h
            · cases h
            · split at h
              · cases h
              · rename_i vsrc ret r1 hx
                split at h
                · cases h
                · split at h
                  · cases h
                  · rename_i vdst r2 hy
                    cases h
                    have a : SInv (s.setVS src vsrc) := SInv_setVS hi (unbond_VInv hd hx (hi src hsrc))
                    have b : VInv s.nAcc vdst := delegate_VInv hd hy (hi dst hdst)
                    exact ⟨SInv_setVS (s := s.setVS src vsrc) a b, rfl, rfl⟩
  | withdraw d v =>
    simp only [State.exec] at h
    split at h
    · cases h
    · rename_i hok
      have hok' : s.okAcc d = true ∧ s.okVal v = true := by
        revert hok
        cases s.okAcc d <;> cases s.okVal v <;> decide
      split at h
      · cases h
      · rename_i v' r hx
        cases h
        exact ⟨SInv_setVS hi (withdrawMsg_VInv (lt_of_okAcc' hok'.1) hx (hi v (lt_of_okVal hok'.2))), rfl, rfl⟩
  | approve owner spender v shares =>
    simp only [State.exec] at h
    split at h
    · cases h
    · cases h; exact ⟨hi, rfl, rfl⟩
  | transfer f t v x =>
    simp only [State.exec] at h
    rw [transferTx_eq hg] at h
    exact transferOp_SInv hg hi h
  | transferFrom sp f t v x =>
    simp only [State.exec] at h
    rw [transferFromTx_eq hg] at h
    simp only [State.transferFromRef] at h
    split at h
    · cases h
    · split at h
      · cases h
      · split at h
        · cases h
        · split at h
          · cases h
          · have r := transferOp_SInv hg (s := { s with allow := _ }) (by exact hi) h
            exact ⟨r.1, r.2.1, r.2.2⟩
  | alloc v amt =>
    simp only [State.exec] at h
    split at h
    · cases h
    · rename_i hok
      have hv : v < s.nVal := by
        apply lt_of_okVal
        revert hok; cases s.okVal v <;> decide
      cases h
      exact ⟨SInv_setVS hi (alloc_VInv _ (hi v hv)), rfl, rfl⟩
  | slash v p f =>
    simp only [State.exec] at h
    split at h
    · cases h
    · rename_i hok
      have hv : v < s.nVal := by
        apply lt_of_okVal
        revert hok; cases s.okVal v <;> cases (decide (ONE < f)) <;> cases (s.vs v).unbonded <;> decide
      cases h
      exact ⟨SInv_setVS hi (slash_VInv _ _ _ (hi v hv)), rfl, rfl⟩
  | block =>
    simp only [State.exec] at h
    cases h
    exact ⟨fun w hw => endBlock_VInv _ (hi w hw), rfl, rfl⟩
  | mature H =>
    simp only [State.exec] at h
    cases h
    exact ⟨fun w hw => matureStep_VInv _ H (hi w hw), rfl, rfl⟩
  | jail v =>
    simp only [State.exec] at h
    split at h
    · cases h
    · rename_i hok
      have hv : v < s.nVal := by
        apply lt_of_okVal
        revert hok; cases s.okVal v <;> cases (s.vs v).jailed <;> decide
      cases h
      exact ⟨SInv_setVS hi (status_VInv _ _ _ _ (hi v hv)), rfl, rfl⟩
  | unjail v =>
    simp only [State.exec] at h
    split at h
    · cases h
    · rename_i hok
      have hv : v < s.nVal := by
        apply lt_of_okVal
        revert hok; cases s.okVal v <;> cases (s.vs v).jailed <;> decide
      cases h
      exact ⟨SInv_setVS hi (status_VInv _ _ _ _ (hi v hv)), rfl, rfl⟩

theorem step_SInv {c : Cfg} (hg : good c = true) {s : State} (o : Op) (hi : SInv s) :
    SInv (s.step c o) ∧ (s.step c o).nAcc = s.nAcc ∧ (s.step c o).nVal = s.nVal := by
  unfold State.step
  cases h : s.exec c o with
  | error e => exact ⟨hi, rfl, rfl⟩
  | ok s' => exact exec_SInv hg hi h

theorem run_SInv {c : Cfg} (hg : good c = true) (ops : List Op) (s : State) (hi : SInv s) :
    SInv (s.run c ops) ∧ (s.run c ops).nAcc = s.nAcc ∧ (s.run c ops).nVal = s.nVal := by
  induction ops generalizing s with
  | nil => exact ⟨hi, rfl, rfl⟩
  | cons o os ih =>
    obtain ⟨h1, h2, h3⟩ := step_SInv hg o hi
    obtain ⟨h4, h5, h6⟩ := ih (s.step c o) h1
    exact ⟨h4, h5.trans h2, h6.trans h3⟩

/-! ### genesis -/

theorem sumTo_zero' (n : Nat) : sumTo n (fun _ => 0) = 0 := sumTo_eq_zero (fun _ _ => rfl)

theorem genesis_VInv {n i t r : Nat} (hi : i < n) : VInv n (genesisVS i t r) := by
  have hinfo : ∀ p, infoCnt n (genesisVS i t r) p = if 1 = p then 1 else 0 := by
    intro p
    have := cnt_set (n := n) (fun _ => (none : Option SInfo)) hi (some ⟨1, t * ONE, 0⟩) p
    have e0 : sumTo n (fun j => ind ((fun _ => (none : Option SInfo)) j) p) = 0 := sumTo_eq_zero (fun _ _ => rfl)
    have e1 : ind ((fun _ => (none : Option SInfo)) i) p = 0 := rfl
    have e2 : ind (some (⟨1, t * ONE, 0⟩ : SInfo)) p = if 1 = p then 1 else 0 := rfl
    rw [e0, e1, e2] at this
    simp only [infoCnt, genesisVS]
    omega
  have hslash : ∀ p, slashCnt (genesisVS i t r) p = 0 := fun _ => rfl
  refine ⟨?_, ?_, ?_⟩
  · unfold genesisVS SumInv VS.delSum
    dsimp only
    generalize t * ONE = T
    constructor
    · have := sumTo_update (fun _ => 0) (fun d => (setAt (fun _ => (none : Option Nat)) i (some T) d).getD 0) i hi
        (fun d hd => by simp [setAt, hd])
      rw [sumTo_zero'] at this
      simp only [setAt_same, Option.getD_some] at this
      omega
    · intro e he
      have : e ≠ i := by omega
      simp [setAt, this]
  · constructor
    · show 1 ≤ 2
      omega
    · intro p
      rw [hinfo, hslash]
      show setAt (fun _ => 0) 1 2 p = _ + (if p + 1 = 2 then 1 else 0) + 0
      by_cases h1 : p = 1
      · subst h1; simp [setAt]
      · have h2 : ¬ (1 = p) := fun e => h1 e.symm
        have h3 : ¬ (p + 1 = 2) := by omega
        simp [setAt, h1, h2, h3]
    · intro p
      rw [hinfo, hslash]
      split <;> omega
    · intro d si hs
      show si.period + 1 ≤ 2
      simp only [genesisVS, setAt] at hs
      split at hs
      · cases hs; exact Nat.le_refl _
      · cases hs
    · intro e he
      cases he
    · intro d hd
      have : d ≠ i := by omega
      simp [genesisVS, setAt, this]
    · intro p q _ _
      have : ∀ x, (genesisVS i t r).ratioAt x = 0 := by
        intro x; simp only [VS.ratioAt, genesisVS]; exact ite_self _
      rw [this, this]
      exact Nat.le_refl _
  · intro d
    by_cases h1 : d = i
    · subst h1; simp [genesisVS, setAt]
    · simp [genesisVS, setAt, h1]

theorem init_SInv {nAcc h0 : Nat} {vals : List (Nat × Nat)} (hv : vals.length ≤ nAcc) : SInv (init nAcc h0 vals) := by
  intro w hw
  have hw' : w < vals.length := hw
  show VInv nAcc (match vals[w]? with | some (t, r) => genesisVS w t r | none => {})
  rw [List.getElem?_eq_getElem hw']
  exact genesis_VInv (by omega)

/-- the invariant after any history from genesis -/
theorem reach_SInv {c : Cfg} (hg : good c = true) (nAcc h0 : Nat) (vals : List (Nat × Nat)) (hv : vals.length ≤ nAcc)
    (ops : List Op) {w : Nat} (hw : w < vals.length) : VInv nAcc (((init nAcc h0 vals).run c ops).vs w) := by
  obtain ⟨h1, h2, h3⟩ := run_SInv hg ops (init nAcc h0 vals) (init_SInv hv)
  have := h1 w (by rw [h3]; exact hw)
  rw [h2] at this
  exact this

/-! ### the SDK's `ReferenceCountInvariant` (a total) follows from the per-period equations -/

theorem sumTo_add (n : Nat) (f g : Nat → Nat) : sumTo n (fun i => f i + g i) = sumTo n f + sumTo n g := by
  induction n with
  | zero => rfl
  | succ n ih => simp only [sumTo, ih]; omega

theorem sumTo_swap (m n : Nat) (F : Nat → Nat → Nat) :
    sumTo m (fun p => sumTo n (fun d => F d p)) = sumTo n (fun d => sumTo m (fun p => F d p)) := by
  induction m with
  | zero => simp only [sumTo]; exact (sumTo_eq_zero (fun _ _ => rfl)).symm
  | succ m ih =>
    simp only [sumTo]
    rw [ih, ← sumTo_add]

theorem sumTo_single (m k : Nat) : sumTo m (fun p => if k = p then 1 else 0) = if k < m then 1 else 0 := by
  induction m with
  | zero => rfl
  | succ m ih =>
    simp only [sumTo, ih]
    by_cases h1 : k < m
    · have : ¬ (k = m) := by omega
      simp [h1, this, Nat.lt_succ_of_lt h1]
    · by_cases h2 : k = m
      · subst h2; simp
      · have : ¬ (k < m + 1) := by omega
        simp [h1, h2, this]

/-- number of delegations of the accounts `< n` -/
def delNum (n : Nat) (v : VS) : Nat := sumTo n (fun d => if (v.del d).isSome then 1 else 0)

theorem sum_slashCnt (l : List SlashEv) (P : Nat) (h : ∀ e, e ∈ l → e.period < P) :
    sumTo P (fun p => (l.filter (fun e => e.period == p)).length) = l.length := by
  induction l with
  | nil => exact sumTo_eq_zero (fun _ _ => rfl)
  | cons e es ih =>
    have he := h e (List.mem_cons_self ..)
    have hes := ih (fun x hx => h x (List.mem_cons_of_mem _ hx))
    have : (fun p => ((e :: es).filter (fun x => x.period == p)).length) =
        fun p => (if e.period = p then 1 else 0) + (es.filter (fun x => x.period == p)).length := by
      funext p
      by_cases hp : e.period = p
      · have hb : (e.period == p) = true := by simp [hp]
        simp [List.filter, hb, hp]; omega
      · have hb : (e.period == p) = false := by simp [hp]
        simp [List.filter, hb, hp]
    rw [this, sumTo_add, sumTo_single, hes, if_pos he]
    simp only [List.length_cons]; omega

/-- the total of all reference counts = one per validator + one per delegation + one per slash event -/
theorem RI.total {n : Nat} {v : VS} (hi : RI n v) (hD : Dom v) :
    sumTo v.period v.refs = delNum n v + 1 + v.slashes.length := by
  have hper := hi.per
  have e1 : sumTo v.period v.refs = sumTo v.period (fun p => infoCnt n v p + curRef v p + slashCnt v p) :=
    sumTo_congr (fun p _ => hi.cnt p)
  have e2 : sumTo v.period (fun p => infoCnt n v p + curRef v p + slashCnt v p) =
      sumTo v.period (fun p => infoCnt n v p) + sumTo v.period (fun p => curRef v p) +
      sumTo v.period (fun p => slashCnt v p) := by
    rw [sumTo_add (f := fun p => infoCnt n v p + curRef v p), sumTo_add]
  have e3 : sumTo v.period (fun p => curRef v p) = 1 := by
    have : (fun p => curRef v p) = fun p => if v.period - 1 = p then 1 else 0 := by
      funext p
      unfold curRef
      by_cases h : p + 1 = v.period
      · have : v.period - 1 = p := by omega
        simp [h, this]
      · have : ¬ (v.period - 1 = p) := by omega
        simp [h, this]
    rw [this, sumTo_single, if_pos (by omega)]
  have e4 : sumTo v.period (fun p => slashCnt v p) = v.slashes.length :=
    sum_slashCnt v.slashes v.period (fun e he => by have := hi.eper e he; omega)
  have e5 : sumTo v.period (fun p => infoCnt n v p) = delNum n v := by
    unfold infoCnt delNum
    rw [sumTo_swap]
    apply sumTo_congr
    intro d _
    rw [← hD d]
    cases hs : v.sinfo d with
    | none => simp only [ind]; exact sumTo_eq_zero (fun _ _ => rfl)
    | some si =>
      have := hi.sper d si hs
      simp only [ind, Option.isSome_some, if_true]
      rw [sumTo_single, if_pos (by omega)]
  rw [e1, e2, e3, e4, e5]

end FxVerif.Proofs.C11
