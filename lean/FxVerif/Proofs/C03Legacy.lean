import FxVerif.Proofs.C03Attest

/-!
# C03 — the claim-hash paths of the release before `b7515bc` never coincide with a current path (round 4)

An attestation that was open when the formats changed stays in the store under the hash of its LEGACY path.  For the
bridge-call format (`h/n/sender/refund/to/[tokens]/[amounts]/data/value`, 8 separators) no valid claim of any type has that
path under the current formats (5, 10, 5, 4, 6, 4 separators), and the legacy bridge-call-result format
(`h/n/nonce/bool/cause`, 4 separators) differs from the two current formats with 4 separators in its fourth component.  So
with an injective hash a post-upgrade vote can never land on a pre-upgrade key: the hypothesis `stale` of
`executed_is_voted_from` is a theorem for these two formats.
-/
namespace FxVerif.Proofs.C03
open FxVerif.Model.C03

theorem legacy_bc_slashes {k : AddrKind} {c : MsgBridgeCallClaim} (v : c.valid k = true) : slashes (legacyBridgeCallPath c) = 8 := by
  simp only [MsgBridgeCallClaim.valid, MsgBridgeCallClaim.validGen, Bool.and_eq_true] at v
  obtain ⟨⟨⟨⟨⟨⟨⟨⟨⟨⟨⟨_, tc⟩, _⟩, s⟩, to⟩, rf⟩, _⟩, d⟩, _⟩, _⟩, o⟩, m⟩ := v
  simp only [legacyBridgeCallPath, fmt_d_uint64, fmt_s_string, fmt_v_string, fmt_s_IntString, fmt_s_sliceString,
    fmt_v_sliceInt, List.append_assoc, List.singleton_append, List.cons_append, List.nil_append]
  rw [slashes_sep (noSlash_nat _), slashes_sep (noSlash_nat _), slashes_sep (noSlash_addr s), slashes_sep (noSlash_addr rf),
    slashes_sep (noSlash_addr to), slashes_sep (noSlash_addrs tc), slashes_sep (noSlash_ints _), slashes_sep (noSlash_hex d),
    (noSlash_int _).slashes]

/-- no valid claim of any type has, under the current formats, the legacy path of a valid bridge call -/
theorem legacy_bc_ne_current {k₁ k₂ : AddrKind} {a : MsgBridgeCallClaim} (va : a.valid k₁ = true) :
    ∀ (c : AnyClaim), c.valid k₂ = true → legacyBridgeCallPath a ≠ c.path
  | .stf _, v => ne_of_slashes (legacy_bc_slashes va) (stf_slashes v) (by decide)
  | .bc _, v => ne_of_slashes (legacy_bc_slashes va) (bc_slashes v) (by decide)
  | .bcr _, v => ne_of_slashes (legacy_bc_slashes va) (bcr_slashes v) (by decide)
  | .ste _, v => ne_of_slashes (legacy_bc_slashes va) (ste_slashes v) (by decide)
  | .bt _, v => ne_of_slashes (legacy_bc_slashes va) (bt_slashes v) (by decide)
  | .osu _, v => ne_of_slashes (legacy_bc_slashes va) (osu_slashes v) (by decide)

theorem legacy_bcr_slashes {k : AddrKind} {c : MsgBridgeCallResultClaim} (v : c.valid k = true) :
    slashes (legacyBridgeCallResultPath c) = 4 := by
  simp only [MsgBridgeCallResultClaim.valid, MsgBridgeCallResultClaim.validGen, Bool.and_eq_true] at v
  obtain ⟨⟨⟨⟨⟨_, _⟩, _⟩, _⟩, o⟩, ca⟩ := v
  simp only [legacyBridgeCallResultPath, fmt_d_uint64, fmt_s_string, List.append_assoc, List.cons_append, List.nil_append]
  rw [slashes_sep (noSlash_nat _), slashes_sep (noSlash_nat _), slashes_sep (noSlash_nat _), slashes_sep (noSlash_bool _),
    (noSlash_hex ca).slashes]

theorem bool_not_digits (b : Bool) (n : Nat) : fmt_t_bool b ≠ fmtNat n := by
  intro e
  have hd := fmtNat_digits n
  cases b
  · exact absurd (hd 'f' (by rw [← e]; simp [fmt_t_bool])) (by decide)
  · exact absurd (hd 't' (by rw [← e]; simp [fmt_t_bool])) (by decide)

/-- legacy result `h/n/nonce/bool/cause` vs send-to-external `h/n/T/batch/`: the fourth component is `true`/`false` in one
and a number in the other -/
theorem legacy_bcr_ne_ste {k₁ k₂ : AddrKind} {a : MsgBridgeCallResultClaim} {b : MsgSendToExternalClaim}
    (_va : a.valid k₁ = true) (vb : b.valid k₂ = true) : legacyBridgeCallResultPath a ≠ b.path := by
  intro h
  simp only [MsgSendToExternalClaim.valid, MsgSendToExternalClaim.validGen, Bool.and_eq_true] at vb
  obtain ⟨⟨⟨⟨_, t⟩, _⟩, _⟩, _⟩ := vb
  simp only [legacyBridgeCallResultPath, MsgSendToExternalClaim.path, fmt_d_uint64, fmt_s_string, List.append_assoc,
    List.cons_append, List.nil_append] at h
  obtain ⟨_, h⟩ := split_sep (noSlash_nat _) (noSlash_nat _) h
  obtain ⟨_, h⟩ := split_sep (noSlash_nat _) (noSlash_nat _) h
  obtain ⟨_, h⟩ := split_sep (noSlash_nat _) (noSlash_addr t) h
  obtain ⟨e, _⟩ := split_sep (noSlash_bool _) (noSlash_nat _) h
  exact bool_not_digits _ _ e

/-- legacy result vs oracle-set-updated `h/set/n/[members]/`: the fourth component starts with `[` there -/
theorem legacy_bcr_ne_osu {k₁ k₂ : AddrKind} {a : MsgBridgeCallResultClaim} {b : MsgOracleSetUpdatedClaim}
    (_va : a.valid k₁ = true) (vb : b.valid k₂ = true) : legacyBridgeCallResultPath a ≠ b.path := by
  intro h
  simp only [MsgOracleSetUpdatedClaim.valid, MsgOracleSetUpdatedClaim.validGen, Bool.and_eq_true] at vb
  obtain ⟨⟨⟨⟨_, _⟩, m⟩, _⟩, _⟩ := vb
  have m := members_addr m
  simp only [legacyBridgeCallResultPath, MsgOracleSetUpdatedClaim.path, fmt_d_uint64, fmt_s_string,
    fmt_v_sliceBridgeValidator, List.append_assoc, List.cons_append, List.nil_append] at h
  obtain ⟨_, h⟩ := split_sep (noSlash_nat _) (noSlash_nat _) h
  obtain ⟨_, h⟩ := split_sep (noSlash_nat _) (noSlash_nat _) h
  obtain ⟨_, h⟩ := split_sep (noSlash_nat _) (noSlash_nat _) h
  obtain ⟨e, _⟩ := split_sep (noSlash_bool _) (members_noslash m) h
  cases hb : a.Success <;> simp [hb, fmt_t_bool, fmtSlice] at e

/-- no valid claim of any type has, under the current formats, the legacy path of a valid bridge-call result -/
theorem legacy_bcr_ne_current {k₁ k₂ : AddrKind} {a : MsgBridgeCallResultClaim} (va : a.valid k₁ = true) :
    ∀ (c : AnyClaim), c.valid k₂ = true → legacyBridgeCallResultPath a ≠ c.path
  | .stf _, v => ne_of_slashes (legacy_bcr_slashes va) (stf_slashes v) (by decide)
  | .bc _, v => ne_of_slashes (legacy_bcr_slashes va) (bc_slashes v) (by decide)
  | .bcr _, v => ne_of_slashes (legacy_bcr_slashes va) (bcr_slashes v) (by decide)
  | .ste _, v => legacy_bcr_ne_ste va v
  | .bt _, v => ne_of_slashes (legacy_bcr_slashes va) (bt_slashes v) (by decide)
  | .osu _, v => legacy_bcr_ne_osu va v

end FxVerif.Proofs.C03
