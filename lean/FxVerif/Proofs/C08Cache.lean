import FxVerif.Model.C08Cache
/-! helper lemmas for the StateDB cache model: a StateDB whose caches agree with the store is a faithful buffer; a nested
keeper-level call that touches no cached slot commutes with it -/
namespace FxVerif.Proofs.C08Cache
open FxVerif.Model.C08Cache

/-- the caches are consistent with the store: every origin entry is the store's value, every dirty slot has an origin
entry (`SetState` reads before it writes) -/
structure Cons (o : Outer) : Prop where
  origin_ok : ∀ k v, lookup k o.origin = some v → o.store k = v
  dirty_ok : ∀ k v, lookup k o.dirty = some v → (lookup k o.origin).isSome

theorem cons_fresh (st : Store) : Cons { store := st } :=
  ⟨fun _ _ h => by simp [lookup] at h, fun _ _ h => by simp [lookup] at h⟩

theorem commit_eq_view (o : Outer) (h : Cons o) : o.commit = o.view := by
  funext k
  simp only [Outer.commit, Outer.view]
  cases hd : lookup k o.dirty with
  | none =>
    simp only
    cases ho : lookup k o.origin with
    | none => rfl
    | some w => exact h.origin_ok _ _ ho
  | some v =>
    simp only
    have := h.dirty_ok _ _ hd
    cases ho : lookup k o.origin with
    | none => simp [ho] at this
    | some w =>
      simp only [Option.getD_some]
      split
      · rename_i e; rw [e]; exact h.origin_ok _ _ ho
      · rfl

theorem lookup_cons_same (k : Slot) (v : Nat) (l : List (Slot × Nat)) : lookup k ((k, v) :: l) = some v := by
  simp [lookup]

theorem lookup_cons_ne (k k' : Slot) (v : Nat) (l : List (Slot × Nat)) (h : k ≠ k') :
    lookup k' ((k, v) :: l) = lookup k' l := by
  simp [lookup, h]

theorem read_spec (o : Outer) (h : Cons o) (k : Slot) :
    (o.read k).1 = o.view k ∧ (o.read k).2.view = o.view ∧ Cons (o.read k).2 ∧ (o.read k).2.store = o.store ∧
    (lookup k (o.read k).2.origin).isSome := by
  cases hd : lookup k o.dirty with
  | some v =>
    have e : o.read k = (v, o) := by simp [Outer.read, hd]
    rw [e]
    exact ⟨by simp [Outer.view, hd], rfl, h, rfl, h.dirty_ok _ _ hd⟩
  | none =>
    cases ho : lookup k o.origin with
    | some w =>
      have e : o.read k = (w, o) := by simp [Outer.read, hd, ho]
      rw [e]
      exact ⟨by simp [Outer.view, hd, ho], rfl, h, rfl, by simp [ho]⟩
    | none =>
      have e : o.read k = (o.store k, { o with origin := (k, o.store k) :: o.origin }) := by simp [Outer.read, hd, ho]
      rw [e]
      refine ⟨by simp [Outer.view, hd, ho], ?_, ?_, rfl, by simp [lookup]⟩
      · funext k'
        simp only [Outer.view]
        by_cases e : k = k'
        · subst e; simp [hd, ho, lookup]
        · rw [lookup_cons_ne _ _ _ _ e]
      · constructor
        · intro k' v hl
          by_cases e : k = k'
          · subst e; simp [lookup] at hl; exact hl
          · rw [lookup_cons_ne _ _ _ _ e] at hl; exact h.origin_ok _ _ hl
        · intro k' v hl
          by_cases e : k = k'
          · subst e; simp [lookup]
          · rw [lookup_cons_ne _ _ _ _ e]; exact h.dirty_ok _ _ hl

theorem write_spec (o : Outer) (h : Cons o) (k : Slot) (v : Nat) :
    (o.write k v).view = o.view.set k v ∧ Cons (o.write k v) ∧ (o.write k v).store = o.store := by
  obtain ⟨h1, h2, h3, h4, h5⟩ := read_spec o h k
  simp only [Outer.write]
  split
  · rename_i e
    refine ⟨?_, h3, h4⟩
    rw [h2]
    funext k'
    simp only [Store.set]
    split
    · rename_i e'; subst e'; rw [← h1]; exact e
    · rfl
  · refine ⟨?_, ?_, h4⟩
    · funext k'
      simp only [Outer.view, Store.set]
      by_cases e : k = k'
      · subst e; simp [lookup]
      · rw [lookup_cons_ne _ _ _ _ e]
        have : k' ≠ k := fun x => e x.symm
        simp only [this, ↓reduceIte]
        have := congrFun h2 k'
        simpa [Outer.view] using this
    · constructor
      · exact h3.origin_ok
      · intro k' v' hl
        by_cases e : k = k'
        · subst e; exact h5
        · rw [lookup_cons_ne _ _ _ _ e] at hl; exact h3.dirty_ok _ _ hl

/-- **a StateDB with consistent caches refines plain execution on what it presents** -/
theorem runOuter_refines (p : TProg) (o : Outer) (h : Cons o) :
    (runPlain p o.view).1 = (runOuter p o).1 ∧ (runPlain p o.view).2 = (runOuter p o).2.view ∧
    Cons (runOuter p o).2 ∧ (runOuter p o).2.store = o.store := by
  induction p generalizing o with
  | done ok => exact ⟨rfl, rfl, h, rfl⟩
  | read k cont ih =>
    obtain ⟨h1, h2, h3, h4, _⟩ := read_spec o h k
    simp only [runPlain, runOuter]
    have := ih (o.read k).1 (o.read k).2 h3
    rw [h2] at this
    rw [h1] at this ⊢
    exact ⟨this.1, this.2.1, this.2.2.1, this.2.2.2.trans h4⟩
  | write k v cont ih =>
    obtain ⟨h1, h2, h3⟩ := write_spec o h k v
    simp only [runPlain, runOuter]
    have := ih (o.write k v) h2
    rw [h1] at this
    exact ⟨this.1, this.2.1, this.2.2.1, this.2.2.2.trans h3⟩

/-- a keeper-level nested call (fresh StateDB, committed at the end) is plain execution on the store -/
theorem nestedCall_eq_plain (p : TProg) (st : Store) :
    nestedCall p st = ((runPlain p st).1, if (runPlain p st).1 then (runPlain p st).2 else st) := by
  obtain ⟨h1, h2, h3, _⟩ := runOuter_refines p { store := st } (cons_fresh st)
  have hv : ({ store := st } : Outer).view = st := by funext k; simp [Outer.view, lookup]
  rw [hv] at h1 h2
  simp only [nestedCall]
  rw [commit_eq_view _ h3, ← h2, ← h1]

/-! ### programs only depend on the slots they touch -/

theorem runPlain_agree (p : TProg) (st1 st2 : Store) (h : ∀ k ∈ touchedOf p st1, st1 k = st2 k) :
    (runPlain p st2).1 = (runPlain p st1).1 ∧
    ∀ k, (runPlain p st2).2 k = if k ∈ touchedOf p st1 then (runPlain p st1).2 k else st2 k := by
  induction p generalizing st1 st2 with
  | done ok => exact ⟨rfl, fun k => by simp [runPlain, touchedOf]⟩
  | read k cont ih =>
    have hk : st1 k = st2 k := h k (by simp [touchedOf])
    simp only [runPlain, touchedOf]
    rw [← hk]
    have := ih (st1 k) st1 st2 (fun k' hk' => h k' (by simp [touchedOf, hk']))
    refine ⟨this.1, fun k' => ?_⟩
    rw [this.2 k']
    by_cases e : k' = k
    · subst e
      simp only [List.mem_cons, true_or, ↓reduceIte]
      split
      · rfl
      · -- not touched later: plain execution leaves it alone
        have self := (ih (st1 k') st1 st1 (fun _ _ => rfl)).2 k'
        rename_i hnot
        simp only [hnot, ↓reduceIte] at self
        rw [self, hk]
    · simp [e]
  | write k v cont ih =>
    simp only [runPlain, touchedOf]
    have hag : ∀ k' ∈ touchedOf cont (st1.set k v), (st1.set k v) k' = (st2.set k v) k' := by
      intro k' hk'
      simp only [Store.set]
      split
      · rfl
      · exact h k' (by simp [touchedOf, hk'])
    have := ih (st1.set k v) (st2.set k v) hag
    refine ⟨this.1, fun k' => ?_⟩
    rw [this.2 k']
    by_cases e : k' = k
    · subst e
      simp only [List.mem_cons, true_or, ↓reduceIte]
      split
      · rfl
      · have self := (ih (st1.set k' v) (st1.set k' v) (fun _ _ => rfl)).2 k'
        rename_i hnot
        simp only [hnot, ↓reduceIte] at self
        rw [self]; simp [Store.set]
    · simp [e, Store.set]

theorem runPlain_untouched (p : TProg) (st : Store) (k : Slot) (h : k ∉ touchedOf p st) : (runPlain p st).2 k = st k := by
  have := (runPlain_agree p st st (fun _ _ => rfl)).2 k
  simpa [h] using this

theorem view_of_uncached (o : Outer) (k : Slot) (h : o.cached k = false) : o.view k = o.store k := by
  simp only [Outer.cached, Bool.or_eq_false_iff] at h
  cases hd : lookup k o.dirty with
  | some v => simp [hd] at h
  | none =>
    cases ho : lookup k o.origin with
    | some w => simp [ho] at h
    | none => simp [Outer.view, hd, ho]

/-- **a nested call that touches no cached slot commutes with the running StateDB** -/
theorem nested_coherent (p : TProg) (o : Outer) (h : Cons o)
    (hc : ∀ k ∈ touchedOf p o.store, o.cached k = false) :
    (runPlain p o.view).1 = (nestedCall p o.store).1 ∧
    ((nestedCall p o.store).1 = true →
      (runPlain p o.view).2 = ({ o with store := (nestedCall p o.store).2 } : Outer).view ∧
      Cons { o with store := (nestedCall p o.store).2 }) := by
  have hag : ∀ k ∈ touchedOf p o.store, o.store k = o.view k := fun k hk => (view_of_uncached o k (hc k hk)).symm
  obtain ⟨a1, a2⟩ := runPlain_agree p o.store o.view hag
  rw [nestedCall_eq_plain]
  refine ⟨a1, fun hok => ?_⟩
  simp only at hok
  simp only [hok, ↓reduceIte]
  constructor
  · funext k
    rw [a2 k]
    by_cases ht : k ∈ touchedOf p o.store
    · have hu := hc k ht
      simp only [ht, ↓reduceIte]
      have : ({ o with store := (runPlain p o.store).2 } : Outer).cached k = false := hu
      rw [view_of_uncached _ k this]
    · simp only [ht, ↓reduceIte]
      simp only [Outer.view]
      cases hd : lookup k o.dirty with
      | some v => rfl
      | none =>
        cases ho : lookup k o.origin with
        | some w => rfl
        | none => simp only; exact (runPlain_untouched p o.store k ht).symm
  · constructor
    · intro k v hl
      have hcached : o.cached k = true := by simp [Outer.cached, hl]
      have ht : k ∉ touchedOf p o.store := fun ht => by rw [hc k ht] at hcached; cases hcached
      simp only
      rw [runPlain_untouched p o.store k ht]
      exact h.origin_ok _ _ hl
    · exact h.dirty_ok

/-! ### whole transactions -/

theorem runTx_coherent (steps : List MStep) (s : TxSt) (h : Cons s.o) (hc : CoherentTx steps s) :
    (runTx steps s).map (fun s' => (s'.o.view, s'.esc)) = runSeq steps (s.o.view, s.esc) ∧
    ∀ s', runTx steps s = some s' → Cons s'.o := by
  induction steps generalizing s with
  | nil => exact ⟨rfl, fun s' hs => by simp [runTx] at hs; subst hs; exact h⟩
  | cons st rest ih =>
    cases st with
    | evm p pay =>
      obtain ⟨r1, r2, r3, _⟩ := runOuter_refines p s.o h
      simp only [runTx, runSeq, CoherentTx] at hc ⊢
      cases hrun : runOuter p s.o with
      | mk ok o1 =>
        rw [hrun] at r1 r2 r3 hc
        simp only at r1 r2 r3
        cases hp : runPlain p s.o.view with
        | mk ok' st1 =>
          rw [hp] at r1 r2
          simp only at r1 r2
          subst r1
          cases ok' with
          | false => exact ⟨rfl, fun _ hs => by cases hs⟩
          | true =>
            simp only at hc ⊢
            by_cases hpay : s.esc < pay
            · simp only [hpay, ↓reduceIte]
              exact ⟨rfl, fun _ hs => by cases hs⟩
            · simp only [hpay, ↓reduceIte]
              have hc' : CoherentTx rest ⟨o1, s.esc - pay⟩ := by
                rcases hc with hc | hc
                · exact absurd hc hpay
                · exact hc
              have := ih ⟨o1, s.esc - pay⟩ r3 hc'
              rw [r2]
              exact this
    | nested p pay gain =>
      simp only [runTx, runSeq, CoherentTx] at hc ⊢
      obtain ⟨hdis, hc⟩ := hc
      obtain ⟨n1, n2⟩ := nested_coherent p s.o h hdis
      cases hn : nestedCall p s.o.store with
      | mk ok st' =>
        rw [hn] at n1 n2 hc
        simp only at n1 n2 hc
        cases hp : runPlain p s.o.view with
        | mk ok' st1 =>
          rw [hp] at n1 n2
          simp only at n1 n2
          subst n1
          cases ok' with
          | false => exact ⟨rfl, fun _ hs => by cases hs⟩
          | true =>
            obtain ⟨n3, n4⟩ := n2 rfl
            simp only at hc ⊢
            by_cases hpay : s.esc < pay
            · simp only [hpay, ↓reduceIte]
              exact ⟨rfl, fun _ hs => by cases hs⟩
            · simp only [hpay, ↓reduceIte]
              have hc' : CoherentTx rest ⟨{ s.o with store := st' }, s.esc - pay + gain⟩ := by
                rcases hc with hc | hc
                · exact absurd hc hpay
                · exact hc
              have := ih ⟨{ s.o with store := st' }, s.esc - pay + gain⟩ n4 hc'
              rw [n3]
              exact this

/-- the transaction's result equals the sequential reference semantics when it is coherent -/
theorem txResult_coherent (steps : List MStep) (st : Store) (esc : Nat)
    (hc : CoherentTx steps ⟨{ store := st }, esc⟩) : txResult steps st esc = seqResult steps st esc := by
  obtain ⟨h1, h2⟩ := runTx_coherent steps ⟨{ store := st }, esc⟩ (cons_fresh st) hc
  have hv : ({ store := st } : Outer).view = st := by funext k; simp [Outer.view, lookup]
  simp only [hv] at h1
  simp only [txResult, seqResult]
  cases hr : runTx steps ⟨{ store := st }, esc⟩ with
  | none => rw [hr] at h1; simp only [Option.map_none] at h1; rw [← h1]
  | some s' =>
    rw [hr] at h1; simp only [Option.map_some] at h1
    rw [← h1]
    show (true, s'.o.commit, s'.esc) = (true, s'.o.view, s'.esc)
    rw [commit_eq_view _ (h2 s' hr)]

/-- a transaction without keeper-level nested calls is always coherent -/
theorem coherent_of_evm_only (steps : List MStep) (s : TxSt) (h : ∀ st ∈ steps, ∃ p pay, st = .evm p pay) :
    CoherentTx steps s := by
  induction steps generalizing s with
  | nil => trivial
  | cons st rest ih =>
    obtain ⟨p, pay, rfl⟩ := h st (by simp)
    simp only [CoherentTx]
    cases runOuter p s.o with
    | mk ok o1 =>
      cases ok with
      | false => trivial
      | true => exact Or.inr (ih _ (fun st' hs => h st' (by simp [hs])))

theorem coherentTxB_iff (steps : List MStep) (s : TxSt) : coherentTxB steps s = true ↔ CoherentTx steps s := by
  induction steps generalizing s with
  | nil => simp [coherentTxB, CoherentTx]
  | cons st rest ih =>
    cases st with
    | evm p pay =>
      simp only [coherentTxB, CoherentTx]
      cases runOuter p s.o with
      | mk ok o1 =>
        cases ok with
        | false => simp
        | true => simp [ih]
    | nested p pay gain =>
      simp only [coherentTxB, CoherentTx, Bool.and_eq_true, List.all_eq_true, Bool.not_eq_eq_eq_not, Bool.not_true]
      cases nestedCall p s.o.store with
      | mk ok st' =>
        cases ok with
        | false => simp
        | true => simp [ih]

/-! ### Σ balances = totalSupply for the FIP20 methods -/

theorem sumBal_set_other (hs : List Nat) (st : Store) (k : Slot) (v : Nat) (h : ∀ a, k ≠ .bal a) :
    sumBal hs (st.set k v) = sumBal hs st := by
  induction hs with
  | nil => rfl
  | cons a as ih =>
    simp only [sumBal, List.map_cons, List.sum_cons] at ih ⊢
    have : (Slot.bal a = k) = False := by simp; exact fun e => h a e.symm
    simp only [Store.set, this, ↓reduceIte]
    simpa [Store.set] using ih

theorem sumBal_set_notin (hs : List Nat) (st : Store) (a v : Nat) (h : a ∉ hs) :
    sumBal hs (st.set (.bal a) v) = sumBal hs st := by
  induction hs with
  | nil => rfl
  | cons b bs ih =>
    simp only [List.mem_cons, not_or] at h
    simp only [sumBal, List.map_cons, List.sum_cons] at ih ⊢
    have hb : b ≠ a := fun e => h.1 e.symm
    simp only [Store.set, Slot.bal.injEq, hb, ↓reduceIte]
    simpa [Store.set] using ih h.2

theorem sumBal_set_in (hs : List Nat) (hn : hs.Nodup) (st : Store) (a v : Nat) (h : a ∈ hs) :
    sumBal hs (st.set (.bal a) v) + st (.bal a) = sumBal hs st + v := by
  induction hs with
  | nil => cases h
  | cons b bs ih =>
    simp only [List.nodup_cons] at hn
    simp only [sumBal, List.map_cons, List.sum_cons]
    by_cases e : b = a
    · subst e
      have := sumBal_set_notin bs st b v hn.1
      simp only [sumBal] at this
      simp only [Store.set, ↓reduceIte]
      simp only [Store.set] at this
      rw [this]; omega
    · have hin : a ∈ bs := by
        rcases List.mem_cons.1 h with h | h
        · exact absurd h.symm e
        · exact h
      have := ih hn.2 hin
      simp only [sumBal, Store.set, Slot.bal.injEq] at this
      simp only [Store.set, Slot.bal.injEq, e, ↓reduceIte]
      omega

/-- Σ balances over `hs` minus the total supply, as an integer -/
def tokDiff (hs : List Nat) (st : Store) : Int := (sumBal hs st : Int) - (st .supply : Int)

theorem tokDiff_set_bal (hs : List Nat) (hn : hs.Nodup) (st : Store) (a v : Nat) (h : a ∈ hs) :
    tokDiff hs (st.set (.bal a) v) = tokDiff hs st - (st (.bal a) : Int) + v := by
  have := sumBal_set_in hs hn st a v h
  have e : (st.set (.bal a) v) .supply = st .supply := by simp [Store.set]
  simp only [tokDiff, e]
  omega

theorem tokDiff_set_allow (hs : List Nat) (st : Store) (o s v : Nat) :
    tokDiff hs (st.set (.allow o s) v) = tokDiff hs st := by
  simp only [tokDiff, sumBal_set_other hs st (.allow o s) v (by simp), Store.set]
  have e : (Slot.supply = Slot.allow o s) = False := by simp
  simp [e]

theorem tokDiff_set_supply (hs : List Nat) (st : Store) (v : Nat) :
    tokDiff hs (st.set .supply v) = tokDiff hs st + (st .supply : Int) - v := by
  simp only [tokDiff, sumBal_set_other hs st .supply v (by simp), Store.set, ↓reduceIte]
  omega

theorem pTransfer_tokDiff (hs : List Nat) (hn : hs.Nodup) (s r n : Nat) (hs' : s ∈ hs) (hr : r ∈ hs) (k : TProg)
    (hk : ∀ st, (runPlain k st).1 = true → tokDiff hs (runPlain k st).2 = tokDiff hs st) (st : Store)
    (h : (runPlain (pTransfer s r n k) st).1 = true) :
    tokDiff hs (runPlain (pTransfer s r n k) st).2 = tokDiff hs st := by
  simp only [pTransfer, runPlain] at h ⊢
  split at h
  · simp [runPlain] at h
  · rename_i hge
    simp only [hge, ↓reduceIte, runPlain] at h ⊢
    rw [hk _ h, tokDiff_set_bal hs hn _ r _ hr, tokDiff_set_bal hs hn _ s _ hs']
    by_cases e : r = s
    · subst e; simp only [Store.set, ↓reduceIte]; omega
    · have : (Slot.bal r = Slot.bal s) = False := by simp [e]
      simp only [Store.set, this, ↓reduceIte]; omega

/-- **every FIP20 method keeps Σ balances − totalSupply** on a coherent store, whenever the accounts it moves tokens
between are among the holders counted -/
theorem method_tokDiff (hs : List Nat) (hn : hs.Nodup) (m : Method) (hm : ∀ a ∈ m.holders, a ∈ hs) (st : Store)
    (h : (runPlain m.prog st).1 = true) : tokDiff hs (runPlain m.prog st).2 = tokDiff hs st := by
  have hdone : ∀ st, (runPlain (.done true) st).1 = true → tokDiff hs (runPlain (.done true) st).2 = tokDiff hs st :=
    fun _ _ => rfl
  cases m with
  | transfer c t n =>
    exact pTransfer_tokDiff hs hn c t n (hm c (by simp [Method.holders])) (hm t (by simp [Method.holders])) _ hdone st h
  | approve c s n =>
    simp only [Method.prog, approve, runPlain]
    exact tokDiff_set_allow hs st c s n
  | transferFrom c f t n =>
    simp only [Method.prog, transferFrom, runPlain] at h ⊢
    split at h
    · simp [runPlain] at h
    · rename_i hge
      simp only [hge, ↓reduceIte, runPlain] at h ⊢
      have := pTransfer_tokDiff hs hn f t n (hm f (by simp [Method.holders])) (hm t (by simp [Method.holders])) _ hdone _ h
      rw [this, tokDiff_set_allow]
  | mint t n =>
    simp only [Method.prog, mint, runPlain]
    rw [tokDiff_set_bal hs hn _ t _ (hm t (by simp [Method.holders])), tokDiff_set_supply]
    have : (Slot.bal t = Slot.supply) = False := by simp
    simp only [Store.set, this, ↓reduceIte]; omega
  | burn a n =>
    simp only [Method.prog, burn, runPlain] at h ⊢
    split at h
    · simp [runPlain] at h
    · rename_i hge
      simp only [hge, ↓reduceIte, runPlain] at h ⊢
      split at h
      · simp [runPlain] at h
      · rename_i hge2
        simp only [hge2, ↓reduceIte, runPlain]
        rw [tokDiff_set_supply, tokDiff_set_bal hs hn _ a _ (hm a (by simp [Method.holders]))]
        have e1 : (Slot.supply = Slot.bal a) = False := by simp
        simp only [Store.set, e1, ↓reduceIte] at hge2 ⊢
        omega
  | balanceOf a => rfl

theorem runSeq_tokDiff (hs : List Nat) (hn : hs.Nodup) (steps : List MStep)
    (hm : ∀ st ∈ steps, ∃ m : Method, st.prog = m.prog ∧ ∀ a ∈ m.holders, a ∈ hs) (st : Store) (esc : Nat)
    (st' : Store) (esc' : Nat) (h : runSeq steps (st, esc) = some (st', esc')) : tokDiff hs st' = tokDiff hs st := by
  induction steps generalizing st esc with
  | nil => simp [runSeq] at h; rw [h.1]
  | cons s rest ih =>
    obtain ⟨m, hp, hh⟩ := hm s (by simp)
    have hrest := fun st esc h => ih (fun s' hs' => hm s' (by simp [hs'])) st esc h
    cases s with
    | evm p pay =>
      simp only [MStep.prog] at hp; subst hp
      simp only [runSeq] at h
      cases hr : runPlain m.prog st with
      | mk ok st1 =>
        rw [hr] at h
        cases ok with
        | false => cases h
        | true =>
          simp only at h
          split at h; · cases h
          have := method_tokDiff hs hn m hh st (by rw [hr])
          rw [hr] at this
          rw [hrest _ _ h, this]
    | nested p pay gain =>
      simp only [MStep.prog] at hp; subst hp
      simp only [runSeq] at h
      cases hr : runPlain m.prog st with
      | mk ok st1 =>
        rw [hr] at h
        cases ok with
        | false => cases h
        | true =>
          simp only at h
          split at h; · cases h
          have := method_tokDiff hs hn m hh st (by rw [hr])
          rw [hr] at this
          rw [hrest _ _ h, this]

end FxVerif.Proofs.C08Cache
