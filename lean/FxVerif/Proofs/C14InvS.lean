import FxVerif.Proofs.C14InvQ
/-!
# C14 — invariants of every history: starting infos exist only with a delegation
-/
namespace FxVerif.Proofs.C14
open FxVerif.Model.C14

/-- a distribution starting info exists only for an existing delegation -/
def SiInv (s : State) : Prop := ∀ a v, get s.dels (a, v) = none → get s.startInfo (v, a) = none

theorem siInv_of_fields {s s' : State} (h : SiInv s) (e1 : s'.dels = s.dels) (e2 : s'.startInfo = s.startInfo) : SiInv s' := by
  intro a v; rw [e1, e2]; exact h a v

theorem siInv_touchPre {s s' : State} {d v rw} (h : SiInv s) (e : touchPre s d v rw = some s') :
    SiInv s' ∧ s'.dels = s.dels ∧ get s'.startInfo (v, d) = none := by
  unfold touchPre at e
  split at e
  · rename_i hd
    cases e
    exact ⟨siInv_of_fields h rfl rfl, rfl, h d v hd⟩
  · split at e
    · cases e
    · cases e
      refine ⟨fun a v' hn => ?_, rfl, get_del_eq _ _⟩
      by_cases hk : (v', a) = (v, d)
      · cases hk; exact get_del_eq _ _
      · show get (del s.startInfo (v, d)) (v', a) = none
        rw [get_del_ne _ _ _ hk]; exact h a v' hn

/-- writing a delegation and then its starting info -/
theorem siInv_set {s : State} (h : SiInv s) (d : Addr) (v : Val) (sh : Nat) (x : Nat × Nat) :
    ∀ a v', get (put s.dels (d, v) sh) (a, v') = none → get (put s.startInfo (v, d) x) (v', a) = none := by
  intro a v' hn
  by_cases hk : (a, v') = (d, v)
  · cases hk; rw [get_put_eq] at hn; cases hn
  · rw [get_put_ne _ _ _ _ hk] at hn
    rw [get_put_ne _ _ _ _ (fun e => hk (by cases e; rfl))]
    exact h a v' hn

theorem siInv_addShares {s s' : State} {d v amt rw} (h : SiInv s) (e : addShares s d v amt rw = some s') : SiInv s' := by
  unfold addShares at e
  split at e
  · cases e
  · rename_i s1 h1
    cases e
    obtain ⟨i1, _, _⟩ := siInv_touchPre h h1
    exact siInv_set i1 d v _ _

theorem siInv_delegate {s s' : State} {d v amt rw} (h : SiInv s) (e : delegate s d v amt rw = some s') : SiInv s' := by
  unfold delegate at e
  split at e
  · cases e
  · split at e
    · cases e
    · rename_i s1 h1
      split at e
      · cases e
      · cases e
        obtain ⟨i1, _, _⟩ := siInv_touchPre h h1
        exact siInv_set i1 d v _ _

theorem siInv_unbond {s s' : State} {d v amt rw} (h : SiInv s) (e : unbond s d v amt rw = some s') : SiInv s' := by
  unfold unbond at e
  split at e
  · cases e
  · split at e
    · cases e
    · split at e
      · cases e
      · rename_i s1 h1
        cases e
        obtain ⟨i1, _, hnone⟩ := siInv_touchPre h h1
        split
        · intro a v' hn
          show get s1.startInfo (v', a) = none
          by_cases hk : (a, v') = (d, v)
          · cases hk; exact hnone
          · have : get (del s1.dels (d, v)) (a, v') = none := hn
            rw [get_del_ne _ _ _ hk] at this
            exact i1 a v' this
        · exact siInv_set i1 d v _ _

theorem siInv_withdraw {s s' : State} {d v rw} (h : SiInv s) (e : withdraw s d v rw = some s') : SiInv s' := by
  unfold withdraw at e
  split at e
  · cases e
  · rename_i sh hsh
    split at e
    · cases e
    · rename_i s1 h1
      cases e
      obtain ⟨i1, hd, _⟩ := siInv_touchPre h h1
      intro a v' hn
      show get (put s1.startInfo (v, d) _) (v', a) = none
      have hn' : get s1.dels (a, v') = none := hn
      by_cases hk : (a, v') = (d, v)
      · cases hk; rw [hd, hsh] at hn'; cases hn'
      · rw [get_put_ne _ _ _ _ (fun e => hk (by cases e; rfl))]; exact i1 a v' hn'

/-- the fields of the starting-info invariant are left alone -/
theorem siInv_frame {s s' : State} (h : SiInv s) (f : s'.dels = s.dels ∧ s'.startInfo = s.startInfo) : SiInv s' :=
  siInv_of_fields h f.1 f.2

theorem sframe_completeUnbonding (s : State) (d : Addr) (v : Val) :
    (completeUnbonding s d v).dels = s.dels ∧ (completeUnbonding s d v).startInfo = s.startInfo := by
  unfold completeUnbonding
  split
  · exact ⟨rfl, rfl⟩
  · simp only []; split <;> exact ⟨rfl, rfl⟩

theorem sframe_completeRedelegation (s : State) (d : Addr) (a b : Val) :
    (completeRedelegation s d a b).dels = s.dels ∧ (completeRedelegation s d a b).startInfo = s.startInfo := by
  unfold completeRedelegation
  split
  · exact ⟨rfl, rfl⟩
  · simp only []; split <;> exact ⟨rfl, rfl⟩

theorem sframe_endBlock (s : State) (dt : Nat) : (endBlock s dt).dels = s.dels ∧ (endBlock s dt).startInfo = s.startInfo := by
  unfold endBlock govEnd stakingEnd
  refine ⟨?_, ?_⟩
  · refine (foldl_keep (fun s : State => s.dels) _ (by intros; rfl) _ _).trans ?_
    refine (foldl_keep (fun s : State => s.dels) _ (by intros; rfl) _ _).trans ?_
    refine (foldl_keep (fun s : State => s.dels) _ (fun s p => (sframe_completeRedelegation s _ _ _).1) _ _).trans ?_
    exact foldl_keep (fun s : State => s.dels) _ (fun s p => (sframe_completeUnbonding s _ _).1) _ _
  · refine (foldl_keep (fun s : State => s.startInfo) _ (by intros; rfl) _ _).trans ?_
    refine (foldl_keep (fun s : State => s.startInfo) _ (by intros; rfl) _ _).trans ?_
    refine (foldl_keep (fun s : State => s.startInfo) _ (fun s p => (sframe_completeRedelegation s _ _ _).2) _ _).trans ?_
    exact foldl_keep (fun s : State => s.startInfo) _ (fun s p => (sframe_completeUnbonding s _ _).2) _ _

theorem siInv_stakingExecute (c : Cfg) {s : State} (h : SiInv s) (frm to : Addr) (hne : frm ≠ to)
    (hto : ∀ p ∈ s.dels, p.1.1 ≠ to) : SiInv (stakingExecute c s frm to) := by
  intro a v hn
  rw [exec_delsG, rekey_spec s.dels frm to hne hto a v] at hn
  rw [exec_startInfo, get_siFold frm to hne]
  have hnone_to : get s.dels (to, v) = none := get_none_of_no_key s.dels _ (fun p hp e => hto p hp (by rw [e]))
  by_cases hrec : ∃ p ∈ entriesOf s.dels frm, p.1.2 = v
  · rw [if_pos hrec]
    by_cases h1 : a = frm
    · rw [if_pos h1]
    · rw [if_neg h1]
      by_cases h2 : a = to
      · -- the target holds the source's delegation now: `hn` is impossible
        obtain ⟨y, hy⟩ := (entries_iff s.dels frm v).mp hrec
        rw [h2] at hn; simp [hy] at hn
      · rw [if_neg h2]
        simp only [h2, h1, ↓reduceIte] at hn
        exact h a v hn
  · rw [if_neg hrec]
    have hfrm : get s.dels (frm, v) = none := by
      cases hg : get s.dels (frm, v) with
      | none => rfl
      | some y => exact absurd ((entries_iff s.dels frm v).mpr ⟨y, hg⟩) hrec
    by_cases h2 : a = to
    · subst h2; exact h a v hnone_to
    · by_cases h1 : a = frm
      · subst h1; exact h a v hfrm
      · simp only [h2, h1, ↓reduceIte] at hn
        exact h a v hn

end FxVerif.Proofs.C14
