import FxVerif.Proofs.C18T
/-!
# C18, round 4 — the designated outcome of a BLOCK of proposals, regenerated (`strip 2 govProg`)

`strip 2 govProg` is gov `EndBlocker`'s walk over the active proposals in which the message handlers (the leaf calls on
store branch 2) write NOTHING while returning / panicking exactly as before.  `gov_strip_block` computes what that
program leaves on the outer context for any number of proposals; `govBlock_filter` shows that it is the outcome of the
real walk with the handler writes of the proposals that passed removed.  So the state after a block is the regenerated
designated outcome plus the handler writes of the proposals ALL of whose messages succeeded — nothing else.
-/
namespace FxVerif.Proofs.C18R4
open FxVerif.Gen.C18 FxVerif.Model.C18P FxVerif.Proofs.C18P FxVerif.Proofs.C18T FxVerif.Model.C18Inv

def SMsgInv (env : Env) (p : Nat) (o : List Tok) (rest : Caches) (f0 : List Nat) (i : Nat) (st : St) : Prop :=
  ∃ k, i = p * env.stride + k ∧ st.outer = o ∧ st.caches = (2, Ctx.outer, []) :: rest ∧
    st.failed = f0 ∧ st.bad.contains 4 = false ∧ GovAllOkP env p k

def SMsgPost (env : Env) (p : Nat) (o : List Tok) (rest : Caches) (f0 : List Nat) (r : Flow × St) : Prop :=
  r.1 = .norm ∧ r.2.outer = o ∧ r.2.caches = (2, Ctx.outer, []) :: rest ∧ r.2.failed = f0 ∧
    ((r.2.bad.contains 4 = false ∧ GovAllOkP env p (env.iters 2 p)) ∨
     (r.2.bad.contains 4 = true ∧ ¬ GovAllOkP env p (env.iters 2 p)))

/-- the message loop of one proposal in the stripped program: the same control flow (first failing message, by error or
recovered panic, ends the loop with the error variable set), and the proposal's branch stays EMPTY -/
theorem strip_msg_loop (env : Env) (L : Stmt) (hL : loopOf (strip 2 govProg) 2 = some L) (p : Nat)
    (o : List Tok) (rest : Caches) (hrest : rest = [] ∨ ∃ a, rest = [(3, Ctx.outer, a)])
    (bad : List Nat) (hb : bad.contains 4 = false) (evm : List (Nat × EvmKind)) (f0 : List Nat) :
    SMsgPost env p o rest f0
      (exec env L p { outer := o, caches := (2, Ctx.outer, []) :: rest, bad := bad, evm := evm, failed := f0 }) := by
  simp [loopOf, govProg, seqs, strip] at hL
  subst hL
  rw [exec_loop]
  refine iterate_inv_bdd _ (SMsgInv env p o rest f0) (SMsgPost env p o rest f0) (env.iters 2 p) (p * env.stride) _
    ⟨0, rfl, rfl, rfl, rfl, hb, fun j hj => absurd hj (Nat.not_lt_zero j)⟩ ?_ ?_
  · intro i st _ hi hst
    obtain ⟨outer, caches, bad, evm, failed⟩ := st
    obtain ⟨k, hk, h1, h2, h3, h4, h5⟩ := hst
    simp only at h1 h2 h3 h4
    subst hk h1 h2 h3
    have hkn : k < env.iters 2 p := by omega
    have hno : (env.ok "handler" (p * env.stride + k) = false ∨ env.panics "handler" (p * env.stride + k) = true) →
        ¬ GovAllOkP env p (env.iters 2 p) := by
      intro hf hall
      have := hall k hkn
      rcases hf with hf | hf <;> simp [hf] at this
    have h4' : 4 ∉ bad := by simpa using h4
    rcases hrest with hr | ⟨a, hr⟩ <;> subst hr <;>
    by_cases hpn : env.panics "handler" (p * env.stride + k) <;> by_cases hok : env.ok "handler" (p * env.stride + k) <;> c18eval
    all_goals first
      | exact ⟨rfl, rfl, rfl, rfl, Or.inr ⟨by simp, hno (Or.inr hpn)⟩⟩
      | exact ⟨rfl, rfl, rfl, rfl, Or.inr ⟨by simp, hno (Or.inl (by simpa using hok))⟩⟩
      | exact ⟨k + 1, by omega, rfl, rfl, rfl, by simp [h4'], GovAllOkP_succ env p k h5 (by simpa using hpn) hok⟩
  · intro st hst
    obtain ⟨k, hk, h1, h2, h3, h4, h5⟩ := hst
    have : k = env.iters 2 p := by omega
    subst this
    exact ⟨rfl, h1, h2, h3, Or.inl ⟨h4, h5⟩⟩

theorem strip_msg_loop_eq (env : Env) (L : Stmt) (hL : loopOf (strip 2 govProg) 2 = some L) (p : Nat) (st : St) (r : Flow × St)
    (hr : exec env L p st = r)
    (hc : st.caches = [(2, Ctx.outer, [])] ∨ ∃ a, st.caches = [(2, Ctx.outer, []), (3, Ctx.outer, a)])
    (hb : st.bad.contains 4 = false) :
    SMsgPost env p st.outer (st.caches.drop 1) st.failed r := by
  obtain ⟨outer, caches, bad, evm, failed⟩ := st
  subst hr
  rcases hc with hc | ⟨a, hc⟩ <;> simp only at hc <;> subst hc
  · exact strip_msg_loop env L hL p outer [] (Or.inl rfl) bad hb evm failed
  · exact strip_msg_loop env L hL p outer [(3, Ctx.outer, a)] (Or.inr ⟨a, rfl⟩) bad hb evm failed

open Classical in
/-- what proposal `p` leaves on the outer context when the message handlers write nothing: `govContribution` without
the handler tokens (the STATUS still says whether all messages succeeded) -/
noncomputable def govContributionS (env : Env) (p : Nat) : List Tok :=
  [⟨"keeper.Tally", p, []⟩] ++
  (if env.cond "EndBlocker: proposal.Expedited" p = false ∨ env.cond "EndBlocker: passes" p = true then
     (if env.cond "EndBlocker: burnDeposits" p = true then [⟨"keeper.DeleteAndBurnDeposits", p, []⟩]
      else [⟨"keeper.RefundAndDeleteDeposits", p, []⟩])
   else []) ++
  [⟨"keeper.ActiveProposalsQueue.Remove #2", p, []⟩] ++
  (if env.cond "EndBlocker: passes #2" p = true then
     (if env.ok "proposal.GetMsgs" p = true then
        (if GovAllOkP env p (env.iters 2 p) then [⟨"set proposal.Status = v1.StatusPassed", p, []⟩]
         else [⟨"set proposal.Status = v1.StatusFailed #2", p, []⟩])
      else [⟨"set proposal.Status = v1.StatusFailed", p, []⟩])
   else if env.cond "EndBlocker: proposal.Expedited #2" p = true then [⟨"keeper.ActiveProposalsQueue.Set", p, []⟩]
   else [⟨"set proposal.Status = v1.StatusRejected", p, []⟩]) ++
  [⟨"keeper.SetProposal", p, []⟩] ++
  (if env.ok "keeper.Hooks().AfterProposalVotingPeriodEnded" p = true then [⟨"keeper.Hooks().AfterProposalVotingPeriodEnded", p, []⟩] else [])

noncomputable def govBlockS (env : Env) : Nat → List Tok
  | 0 => []
  | n + 1 => govBlockS env n ++ govContributionS env n

def SBlockInv (env : Env) (p : Nat) (st : St) : Prop :=
  st.outer = govBlockS env p ∧ CachesOK st.caches ∧ st.bad.contains 1 = false

def SBlockPost (env : Env) (r : Flow × St) : Prop :=
  r.1 = .norm ∧ r.2.outer = govBlockS env (env.iters 1 0) ∧ r.2.bad.contains 1 = false

theorem gov_strip_block_loop (env : Env) (hok : GovOuterOk env) (L : Stmt) (hL : loopOf (strip 2 govProg) 1 = some L) :
    SBlockPost env (exec env L 0 {}) := by
  simp [loopOf, govProg, seqs, strip] at hL
  generalize hL2 : Stmt.loop 2 _ = L2 at hL
  have kmsg := strip_msg_loop_eq env L2 (by rw [← hL2]; simp [loopOf, govProg, seqs, strip])
  subst hL
  rw [exec_loop, Nat.zero_mul]
  refine iterate_inv_bdd _ (SBlockInv env) (SBlockPost env) (env.iters 1 0) 0 _ ⟨rfl, Or.inl rfl, rfl⟩ ?_ ?_
  · intro p st _ _ hst
    obtain ⟨outer, caches, bad, evm, failed⟩ := st
    obtain ⟨h1, h2, h3⟩ := hst
    simp only at h1 h2 h3
    subst h1
    have h3' : 1 ∉ bad := by simpa using h3
    have q1 := hok.nopanic "keeper.Proposals.Get" p (by decide)
    have q2 := hok.nopanic "keeper.Tally" p (by decide)
    have q3 := hok.nopanic "keeper.DeleteAndBurnDeposits" p (by decide)
    have q4 := hok.nopanic "keeper.RefundAndDeleteDeposits" p (by decide)
    have q5 := hok.nopanic "keeper.ActiveProposalsQueue.Remove #2" p (by decide)
    have q6 := hok.nopanic "proposal.GetMsgs" p (by decide)
    have q7 := hok.nopanic "set proposal.Status = v1.StatusFailed" p (by decide)
    have q8 := hok.nopanic "set proposal.Status = v1.StatusFailed #2" p (by decide)
    have q9 := hok.nopanic "set proposal.Status = v1.StatusPassed" p (by decide)
    have q10 := hok.nopanic "set proposal.Status = v1.StatusRejected" p (by decide)
    have q11 := hok.nopanic "keeper.Params.Get" p (by decide)
    have q12 := hok.nopanic "keeper.ActiveProposalsQueue.Set" p (by decide)
    have q13 := hok.nopanic "keeper.SetProposal" p (by decide)
    have q14 := hok.nopanic "keeper.Hooks().AfterProposalVotingPeriodEnded" p (by decide)
    have o1 := hok.get p
    have o2 := hok.tally p
    have o3 := hok.burn p
    have o4 := hok.refund p
    have o5 := hok.remove p
    have o6 := hok.params p
    have o7 := hok.qset p
    have o8 := hok.setp p
    clear hok
    rcases h2 with hc | ⟨a, hc⟩ | ⟨a, b, hc⟩ <;> subst hc
    all_goals (
      c18eval
      repeat' c18split
      all_goals try (simp [SBlockInv, CachesOK, govBlockS, govContributionS, *]; done)
      all_goals try (simp [SBlockInv, CachesOK, govBlockS, govContributionS, *]; done))
    all_goals (
      generalize hr : exec env L2 p _ = r
      have k := kmsg p _ _ hr (by simp) (by simp [h3'])
      clear hr
      obtain ⟨fl, ⟨outer', caches', bad', evm', failed'⟩⟩ := r
      obtain ⟨k1, k2, k3, _, k4⟩ := k
      simp only [List.drop] at k1 k2 k3 k4
      subst k1 k2 k3
      rcases k4 with ⟨k7, k8⟩ | ⟨k7, k8⟩
      · have k7' : 4 ∉ bad' := by simpa using k7
        c18eval
        repeat' c18split
        all_goals (simp [SBlockInv, CachesOK, govBlockS, govContributionS, *])
      · have k7' : 4 ∈ bad' := by simpa using k7
        c18eval
        repeat' c18split
        all_goals (simp [SBlockInv, CachesOK, govBlockS, govContributionS, *]))
  · intro st hst
    obtain ⟨h1, _, h3⟩ := hst
    simp at h1
    exact ⟨rfl, h1, h3⟩

/-- **the stripped block**: the walk of `strip 2 govProg` returns nil and leaves, proposal after proposal, that
proposal's contribution WITHOUT handler writes -/
theorem gov_strip_block (env : Env) (hok : GovOuterOk env) :
    (run env (strip 2 govProg)).1 = .ret true ∧ (run env (strip 2 govProg)).2.outer = govBlockS env (env.iters 1 0) := by
  have k := gov_strip_block_loop env hok
  unfold govProg at k ⊢
  simp only [seqs, loopOf, strip, Nat.reduceBEq, Bool.false_eq_true, ↓reduceIte] at k
  simp only [run, seqs, strip, Nat.reduceBEq, Bool.false_eq_true, ↓reduceIte]
  generalize hL : Stmt.loop 1 _ = L at k ⊢
  have k' := k L (by simp)
  clear k hL
  c18eval
  generalize exec env L 0 _ = r at k'
  obtain ⟨fl, ⟨outer, caches, bad, evm, failed⟩⟩ := r
  obtain ⟨h1, h2, h3⟩ := k'
  simp only at h1 h2 h3
  subst h1 h2
  have h3' : 1 ∉ bad := by simpa using h3
  c18eval

theorem filter_toks_handler : ∀ n b, (toks "handler" n b).filter (fun t => t.name != "handler") = [] := by
  intro n
  induction n with
  | zero => intro b; rfl
  | succ n ih => intro b; simp [toks, ih]

theorem app_congr {α : Type} {a a' b b' : List α} (h1 : a = a') (h2 : b = b') : a ++ b = a' ++ b' := by
  subst h1 h2; rfl

/-- (stated with the name as a hypothesis: evaluating `"long literal" != "handler"` inside `simp` is slow) -/
theorem filter_keep (n : String) (p : Nat) (rest : List Tok) (h : n ≠ "handler") :
    (⟨n, p, []⟩ :: rest).filter (fun t => t.name != "handler") = ⟨n, p, []⟩ :: rest.filter (fun t => t.name != "handler") := by
  simp [h]

/-- the stripped contribution IS the real contribution without its handler writes -/
theorem govContribution_filter (env : Env) (p : Nat) :
    (govContribution env p).filter (fun t => t.name != "handler") = govContributionS env p := by
  unfold govContribution govContributionS
  simp only [List.filter_append]
  refine app_congr (app_congr (app_congr (app_congr (app_congr ?_ ?_) ?_) ?_) ?_) ?_
  · exact filter_keep _ _ _ (by decide)
  · split
    · split
      · exact filter_keep _ _ _ (by decide)
      · exact filter_keep _ _ _ (by decide)
    · rfl
  · exact filter_keep _ _ _ (by decide)
  · split
    · split
      · split
        · rw [filter_keep _ _ _ (by decide), filter_toks_handler]
        · exact filter_keep _ _ _ (by decide)
      · exact filter_keep _ _ _ (by decide)
    · split
      · exact filter_keep _ _ _ (by decide)
      · exact filter_keep _ _ _ (by decide)
  · exact filter_keep _ _ _ (by decide)
  · split
    · exact filter_keep _ _ _ (by decide)
    · rfl

theorem govBlock_filter (env : Env) : ∀ n, (govBlock env n).filter (fun t => t.name != "handler") = govBlockS env n := by
  intro n
  induction n with
  | zero => rfl
  | succ n ih => simp only [govBlock, govBlockS, List.filter_append, ih, govContribution_filter]

/-- a proposal that does not pass all its messages contributes exactly its stripped contribution -/
theorem govContribution_failed (env : Env) (p : Nat)
    (h : env.cond "EndBlocker: passes #2" p = true → env.ok "proposal.GetMsgs" p = true → ¬ GovAllOkP env p (env.iters 2 p)) :
    govContribution env p = govContributionS env p := by
  unfold govContribution govContributionS
  by_cases h1 : env.cond "EndBlocker: passes #2" p = true
  · by_cases h2 : env.ok "proposal.GetMsgs" p = true
    · simp [h1, h2, h h1 h2]
    · simp [h1, h2]
  · simp [h1]

theorem govBlock_failed (env : Env) : ∀ n,
    (∀ p, p < n → env.cond "EndBlocker: passes #2" p = true → env.ok "proposal.GetMsgs" p = true → ¬ GovAllOkP env p (env.iters 2 p)) →
    govBlock env n = govBlockS env n := by
  intro n
  induction n with
  | zero => intro _; rfl
  | succ n ih =>
    intro h
    simp only [govBlock, govBlockS]
    rw [ih (fun p hp => h p (by omega)), govContribution_failed env n (h n (by omega))]

/-! ## IBC receive without the "synchronous acknowledgement" hypothesis

`RecvPacket: ack == nil` is ONE environment input (the translator emits `ack != nil` as its negation: the variable is
assigned once).  `asyncAck env` = the callback handed back no acknowledgement (the application will acknowledge
later).  The only thing still required of the environment is CONSISTENCY of the two readings of the same Go value:
a nil acknowledgement is not an error acknowledgement (`async → ¬ fails`). -/

def asyncAck (env : Env) : Prop := env.cond "RecvPacket: ack == nil" 0 = true

/-- everything committed, NO acknowledgement written (it will be written by the application later) -/
def ibcAsync (env : Env) : List Tok :=
  [⟨"k.ChannelKeeper.LookupModuleByChannel", 0, []⟩, ⟨"k.ChannelKeeper.RecvPacket", 0, []⟩, ⟨"im.IBCModule.OnRecvPacket", 0, []⟩] ++
  (if env.cond "Keeper.OnRecvPacket: receiveCoin.GetDenom() != fxtypes.DefaultDenom" 0 = true then [⟨"k.crossChainKeeper.IBCCoinToEvm", 0, []⟩] else []) ++
  (if env.cond "Keeper.OnRecvPacket: len(data.Memo) > 0" 0 = true ∧ env.ok "k.cdc.UnmarshalInterfaceJSON" 0 = true then [⟨"k.evmKeeper.CallEVM", 0, []⟩] else [])

/-- every path of the receive boundary, synchronous or not, `WriteAcknowledgement` succeeding or not -/
def IbcOutcomeA (env : Env) (r : Flow × St) : Prop :=
  (asyncAck env ∧ r.1 = .ret true ∧ r.2.outer = ibcAsync env ∧ 2 ∉ r.2.failed) ∨
  (¬ asyncAck env ∧ env.ok "k.ChannelKeeper.WriteAcknowledgement" 0 = false ∧ r.1 = .ret false) ∨
  (¬ asyncAck env ∧ env.ok "k.ChannelKeeper.WriteAcknowledgement" 0 = true ∧ r.1 = .ret true ∧
    (((ibcAppFails env ∨ ibcHookFails env) ∧ r.2.outer = ibcDesignated) ∨
     (¬ (ibcAppFails env ∨ ibcHookFails env) ∧ r.2.outer = ibcSuccess env ∧ 2 ∉ r.2.failed)))

theorem ibc_total_any (env : Env) (hp : NoPanic env) (hr : ibcReached env)
    (hcons : asyncAck env → ¬ (ibcAppFails env ∨ ibcHookFails env)) :
    IbcOutcomeA env (run env recvPacketProg) := by
  have hp' := fun n i => hp n i
  obtain ⟨r1, r2, r3, r4⟩ := hr
  unfold recvPacketProg
  c18eval
  clear hp hp'
  repeat' c18split
  all_goals (simp [IbcOutcomeA, asyncAck, ibcAsync, ibcAppFails, ibcHookFails, ibcSuccess, ibcDesignated] at hcons ⊢; try simp_all)

/-- the return statements of the callback as the middleware composes it (directly inside the inlined function, not
inside the functions it calls) -/
def retsOf (fn : String) : Stmt → List Ret
  | .seq a b => retsOf fn a ++ retsOf fn b
  | .ite _ t e => retsOf fn t ++ retsOf fn e
  | .loop _ b => retsOf fn b
  | .block b => retsOf fn b
  | .inl n _ _ _ b => if n == fn then direct b else retsOf fn b
  | _ => []
where
  direct : Stmt → List Ret
    | .seq a b => direct a ++ direct b
    | .ite _ t e => direct t ++ direct e
    | .loop _ b => direct b
    | .block b => direct b
    | .ret r => [r]
    | _ => []

end FxVerif.Proofs.C18R4
