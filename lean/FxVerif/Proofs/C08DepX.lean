import FxVerif.Proofs.C08Dep
/-!
# C08 — transactions WITH sub-call frames: the hand model equals the interpretation of the regenerated source (round 5)

After a `RevertToSnapshot` the interpreted state object holds the replayed journal entries in `dirtyStorage` (a longer
list) where the hand model maps over the list: the two agree slot by slot (`Outer.Equiv`), and every operation of the
model respects that equivalence.
-/
namespace FxVerif.Proofs.C08Dep
open FxVerif.Model.C08Cache FxVerif.Model.C08Dep FxVerif.Gen.C08e

/-- same store, same `originStorage`, `dirtyStorage` equal slot by slot -/
def Equiv (a b : Outer) : Prop :=
  a.store = b.store ∧ a.origin = b.origin ∧ ∀ k, lookup k a.dirty = lookup k b.dirty

theorem Equiv.refl (a : Outer) : Equiv a a := ⟨rfl, rfl, fun _ => rfl⟩

theorem read_congr {a b : Outer} (h : Equiv a b) (k : Slot) :
    (a.read k).1 = (b.read k).1 ∧ Equiv (a.read k).2 (b.read k).2 := by
  obtain ⟨sa, oa, da⟩ := a
  obtain ⟨sb, ob, db⟩ := b
  obtain ⟨hs, ho, hd⟩ := h
  simp only at hs ho hd
  subst hs ho
  unfold Outer.read
  simp only [hd k]
  cases lookup k db with
  | some v => exact ⟨rfl, rfl, rfl, hd⟩
  | none =>
    cases lookup k oa with
    | some v => exact ⟨rfl, rfl, rfl, hd⟩
    | none => exact ⟨rfl, rfl, rfl, hd⟩

theorem write_congr {a b : Outer} (h : Equiv a b) (k : Slot) (v : Nat) : Equiv (a.write k v) (b.write k v) := by
  obtain ⟨h1, h2⟩ := read_congr h k
  unfold Outer.write
  simp only
  rw [h1]
  by_cases hv : (b.read k).1 = v
  · simp only [hv, if_true]; exact h2
  · simp only [hv, if_false]
    obtain ⟨hs, ho, hd⟩ := h2
    refine ⟨hs, ho, fun k' => ?_⟩
    simp only [lookup]
    by_cases hk : k = k' <;> simp [hk, hd k']

theorem runOuter_congr (p : TProg) {a b : Outer} (h : Equiv a b) :
    (runOuter p a).1 = (runOuter p b).1 ∧ Equiv (runOuter p a).2 (runOuter p b).2 := by
  induction p generalizing a b with
  | done ok => exact ⟨rfl, h⟩
  | read k cont ih =>
    obtain ⟨h1, h2⟩ := read_congr h k
    simp only [runOuter]
    rw [h1]
    exact ih _ h2
  | write k v cont ih =>
    simp only [runOuter]
    exact ih (write_congr h k v)

theorem commit_congr {a b : Outer} (h : Equiv a b) : a.commit = b.commit := by
  obtain ⟨hs, ho, hd⟩ := h
  funext k
  simp [Outer.commit, hd k, ho, hs]

theorem revertTo_congr {s1 s2 c1 c2 : Outer} (hs : Equiv s1 s2) (hc : Equiv c1 c2) :
    Equiv (s1.revertTo c1) (s2.revertTo c2) := by
  refine ⟨hs.1, hc.2.1, fun k => ?_⟩
  have e1 := lookup_map_val k c1.dirty (fun k => match lookup k s1.dirty with
    | some v => v
    | none => (lookup k c1.origin).getD 0)
  have e2 := lookup_map_val k c2.dirty (fun k => match lookup k s2.dirty with
    | some v => v
    | none => (lookup k c2.origin).getD 0)
  show lookup k (s1.revertTo c1).dirty = lookup k (s2.revertTo c2).dirty
  have a1 : lookup k (s1.revertTo c1).dirty = _ := e1
  have a2 : lookup k (s2.revertTo c2).dirty = _ := e2
  rw [a1, a2, hc.2.2 k, hs.2.2 k, hc.2.1]

theorem runTxF_congr (g : List MStep) {a b : Outer} (h : Equiv a b) (esc : Nat) :
    (runTxF g ⟨a, esc⟩).2 = (runTxF g ⟨b, esc⟩).2 ∧ (runTxF g ⟨a, esc⟩).1.esc = (runTxF g ⟨b, esc⟩).1.esc ∧
    Equiv (runTxF g ⟨a, esc⟩).1.o (runTxF g ⟨b, esc⟩).1.o := by
  induction g generalizing a b esc with
  | nil => exact ⟨by trivial, by trivial, h⟩
  | cons st rest ih =>
    cases st with
    | evm p pay =>
      obtain ⟨h1, h2⟩ := runOuter_congr p h
      simp only [runTxF]
      have ea : runOuter p a = ((runOuter p a).1, (runOuter p a).2) := rfl
      have eb : runOuter p b = ((runOuter p b).1, (runOuter p b).2) := rfl
      rw [ea, eb, h1]
      cases (runOuter p b).1 with
      | false => exact ⟨by trivial, by trivial, h2⟩
      | true =>
        simp only
        by_cases hp : esc < pay
        · simp only [hp, if_true]; exact ⟨by trivial, by trivial, h2⟩
        · simp only [hp, if_false]; exact ih h2 _
    | nested p pay gain =>
      simp only [runTxF, h.1]
      have eb : nestedCall p b.store = ((nestedCall p b.store).1, (nestedCall p b.store).2) := rfl
      rw [eb]
      cases (nestedCall p b.store).1 with
      | false => exact ⟨by trivial, by trivial, h⟩
      | true =>
        simp only
        by_cases hp : esc < pay
        · simp only [hp, if_true]; exact ⟨by trivial, by trivial, h⟩
        · simp only [hp, if_false]
          apply ih
          exact ⟨rfl, h.2.1, h.2.2⟩

/-- `runTx` in terms of `runTxF` -/
theorem runTx_eq_runTxF (g : List MStep) (s : TxSt) :
    runTx g s = bif (runTxF g s).2 then some (runTxF g s).1 else none := by
  induction g generalizing s with
  | nil => rfl
  | cons st rest ih =>
    cases st with
    | evm p pay =>
      simp only [runTx, runTxF]
      cases runOuter p s.o with
      | mk ok o1 =>
        cases ok with
        | false => rfl
        | true =>
          simp only
          by_cases hp : s.esc < pay
          · simp [hp]
          · simp only [hp, if_false]; exact ih _
    | nested p pay gain =>
      simp only [runTx, runTxF]
      cases nestedCall p s.o.store with
      | mk ok st1 =>
        cases ok with
        | false => rfl
        | true =>
          simp only
          by_cases hp : s.esc < pay
          · simp [hp]
          · simp only [hp, if_false]; exact ih _

/-! ### the interpreted run of a frame keeps the journal invariant -/

theorem iRunProg_inv {snap : Outer} (j0 : List (Slot × Nat)) (p : TProg) (o : Outer) (seg : List (Slot × Nat))
    (h : JInv snap seg o) :
    ∃ seg', iRunProg p ⟨o, seg ++ j0⟩ = some ((runOuter p o).1, ⟨(runOuter p o).2, seg' ++ j0⟩) ∧
      JInv snap seg' (runOuter p o).2 := by
  induction p generalizing o seg with
  | done ok => exact ⟨seg, rfl, h⟩
  | read k cont ih =>
    simp only [iRunProg, iGetState_eq, runOuter]
    exact ih _ _ _ (h.read k)
  | write k v cont ih =>
    simp only [iRunProg, iSetState_eq, runOuter]
    obtain ⟨seg1, hj, hi⟩ := h.step (j0 := j0) (.wr k v)
    have hw := write_eq_step o (seg ++ j0) k v
    generalize stepAcc ⟨o, seg ++ j0⟩ (.wr k v) = s1 at hj hi hw
    obtain ⟨o1, j1⟩ := s1
    simp only at hj hi hw
    subst hj hw
    exact ih _ _ hi

theorem iRunTxF_inv {snap : Outer} (j0 : List (Slot × Nat)) (g : List MStep) (o : Outer) (seg : List (Slot × Nat))
    (esc : Nat) (h : JInv snap seg o) :
    ∃ seg', iRunTxF g ⟨o, seg ++ j0⟩ esc =
        some ((⟨(runTxF g ⟨o, esc⟩).1.o, seg' ++ j0⟩, (runTxF g ⟨o, esc⟩).1.esc), (runTxF g ⟨o, esc⟩).2) ∧
      JInv snap seg' (runTxF g ⟨o, esc⟩).1.o := by
  induction g generalizing o seg esc with
  | nil => exact ⟨seg, rfl, h⟩
  | cons st rest ih =>
    cases st with
    | evm p pay =>
      obtain ⟨seg1, h1, h2⟩ := iRunProg_inv j0 p o seg h
      simp only [iRunTxF, h1, runTxF]
      have e : runOuter p o = ((runOuter p o).1, (runOuter p o).2) := rfl
      rw [e]
      cases (runOuter p o).1 with
      | false => exact ⟨seg1, rfl, h2⟩
      | true =>
        simp only
        by_cases hp : esc < pay
        · simp only [hp, if_true]; exact ⟨seg1, rfl, h2⟩
        · simp only [hp, if_false]; exact ih _ _ _ h2
    | nested p pay gain =>
      simp only [iRunTxF, iNested_eq, runTxF]
      have e : nestedCall p o.store = ((nestedCall p o.store).1, (nestedCall p o.store).2) := rfl
      rw [e]
      cases (nestedCall p o.store).1 with
      | false => exact ⟨seg, rfl, h⟩
      | true =>
        simp only
        by_cases hp : esc < pay
        · simp only [hp, if_true]; exact ⟨seg, rfl, h⟩
        · simp only [hp, if_false]
          exact ih _ _ _ ⟨h.a, h.b⟩

theorem take_seg (seg j0 : List (Slot × Nat)) : (seg ++ j0).take ((seg ++ j0).length - j0.length) = seg := by
  simp

theorem iRevertTo_eq (seg j0 : List (Slot × Nat)) (cur : Outer) :
    iRevertTo seg j0 cur = some ⟨replay seg cur, j0⟩ := by
  simp [iRevertTo, journalRevert_revertsEntry, journalRevert_newestFirst, journalRevert_truncates, revertAll_eq]

/-- result of an interpreted run against a hand run: both revert, or both go on in equivalent StateDBs with equal escrow -/
def Agree : Option (ObjSt × Nat) → Option TxSt → Prop
  | some (s, e), some t => Equiv s.o t.o ∧ e = t.esc
  | none, none => True
  | _, _ => False

theorem iRunTxX_agree (steps : List XStep) (s : ObjSt) (o2 : Outer) (esc : Nat) (h : Equiv s.o o2) :
    ∃ r, iRunTxX steps s esc = some r ∧ Agree r (runTxX steps ⟨o2, esc⟩) := by
  induction steps generalizing s o2 esc with
  | nil => exact ⟨_, rfl, h, rfl⟩
  | cons x rest ih =>
    obtain ⟨o, j⟩ := s
    cases x with
    | plain st =>
      obtain ⟨r, h1, h2⟩ := iRunTx_eq [st] o j esc
      obtain ⟨c1, c2, c3⟩ := runTxF_congr [st] h esc
      simp only [iRunTxX, h1, runTxX]
      rw [runTx_eq_runTxF] at h2 ⊢
      simp only at c1 c2 c3
      rw [c1] at h2
      cases hb : (runTxF [st] ⟨o2, esc⟩).2 with
      | false =>
        rw [hb] at h2
        simp only [cond_false] at h2 ⊢
        cases r with
        | none => exact ⟨none, rfl, trivial⟩
        | some x => simp at h2
      | true =>
        rw [hb] at h2
        simp only [cond_true] at h2 ⊢
        cases r with
        | none => simp at h2
        | some x =>
          obtain ⟨s1, e1⟩ := x
          simp only [Option.map_some, Option.some.injEq, Prod.mk.injEq] at h2
          have he : e1 = (runTxF [st] ⟨o2, esc⟩).1.esc := by rw [h2.2]; exact c2
          subst he
          exact ih s1 (runTxF [st] ⟨o2, esc⟩).1.o _ (by rw [h2.1]; exact c3)
    | attempt g =>
      obtain ⟨seg, h1, h2⟩ := iRunTxF_inv (snap := o) j g o [] esc (JInv.init o)
      obtain ⟨c1, c2, c3⟩ := runTxF_congr g h esc
      simp only [List.nil_append] at h1
      simp only [iRunTxX, h1, runTxX]
      have e : runTxF g ⟨o2, esc⟩ = ((runTxF g ⟨o2, esc⟩).1, (runTxF g ⟨o2, esc⟩).2) := rfl
      rw [e, c1]
      cases hb : (runTxF g ⟨o2, esc⟩).2 with
      | true =>
        simp only
        rw [c2]
        exact ih _ _ _ c3
      | false =>
        simp only [take_seg, iRevertTo_eq]
        apply ih
        refine ⟨h.1, ?_, fun k => ?_⟩
        · show (replay seg _).origin = _
          rw [(replay_frame seg _).1]; exact c3.2.1
        · show lookup k (replay seg _).dirty = _
          rw [h2.revert k]
          exact (revertTo_congr h c3).2.2 k

theorem iTxResultX_eq (steps : List XStep) (st : Store) (esc : Nat) :
    iTxResultX steps st esc = some (txResultX steps st esc) := by
  obtain ⟨r, h1, h2⟩ := iRunTxX_agree steps ⟨{ store := st }, []⟩ { store := st } esc (Equiv.refl _)
  simp only [iTxResultX, commit_nativeStoreFirst, if_true, h1, txResultX]
  cases r with
  | none =>
    cases hr : runTxX steps ⟨{ store := st }, esc⟩ with
    | none => rfl
    | some t => rw [hr] at h2; exact absurd h2 (by simp [Agree])
  | some x =>
    obtain ⟨s, e⟩ := x
    cases hr : runTxX steps ⟨{ store := st }, esc⟩ with
    | none => rw [hr] at h2; exact absurd h2 (by simp [Agree])
    | some t =>
      rw [hr] at h2
      obtain ⟨h3, h4⟩ := h2
      obtain ⟨s2, h5, h6⟩ := iCommit_eq s
      have : s2.o.store = t.o.commit := by rw [← commit_congr h3]; exact funext h6
      simp [h5, this, h4]

end FxVerif.Proofs.C08Dep
