import FxVerif.Proofs.C11Sanity
/-!
# C11 — a closed form under which the SDK's stake sanity check cannot fire on a slashed validator (core Lean only)

`CalculateDelegationRewards` recomputes a delegator's stake from its starting stake by one truncating multiplication
with `1 − fraction` per slash event and refuses when the result exceeds the token worth of the shares by more than
3·10⁻¹⁸.  The fraction recorded for a slash that burns `burn` of `T` tokens is `QuoRoundUp(burn, T)` computed on a
36-decimal quotient that is itself truncated; it can therefore be *below* the true fraction `burn / T` (by less than
10⁻³⁶) — only then does the recomputed stake drift above the real one (`stake_sanity_reachable`).

* `effFraction_lower`: the recorded fraction is never more than 10⁻³⁶ below the true one;
* `slashExact_of_rem`: it is not below the true one whenever digits 19…36 of the quotient are not all zero (or, by
  `slashExact` itself, whenever `T` divides `burn · 10³⁶` …) — the closed-form condition;
* `tight_slash`: a stake that is at most the exact token worth of the shares stays so across such a slash;
* `tfsTrunc_tight`: the stake `TokensFromSharesTruncated(shares)` written by `initializeDelegation` and by
  `handlerTransferShares` is at most the exact worth;
* `sanity_closed_form`: hence after ANY list of such slashes (validator shares unchanged in between) the recomputed stake
  is at most `TokensFromShares(shares)` and the sanity check (`+ 3` tolerance) cannot fire.
-/
namespace FxVerif.Model.C11

/-- the fraction staking `Slash` hands to the distribution hook for a burn of `burn` out of `T` tokens -/
def effFraction (burn T : Nat) : Nat := min ONE (dQuoRoundUp (burn * ONE) (T * ONE))

/-- the recorded fraction is not below the true one: `eff / 10¹⁸ ≥ burn / T` -/
def slashExact (burn T : Nat) : Bool := decide (burn * ONE ≤ effFraction burn T * T)

/-- a chain of slashes of one validator: each event records `effFraction burn T` for the tokens `T` the validator had,
burns at most `T`, is exact, and the next slash sees `T − burn`; ends with `Tend` tokens -/
inductive SlashChain : Nat → List SlashEv → Nat → Prop
  | nil (T : Nat) : SlashChain T [] T
  | cons {T burn Tend : Nat} {e : SlashEv} {es : List SlashEv} : burn ≤ T → e.fraction = effFraction burn T →
      slashExact burn T = true → SlashChain (T - burn) es Tend → SlashChain T (e :: es) Tend

/-- every event lies in a later period than the one before (and than the starting period) -/
def incrPeriods : Nat → List SlashEv → Prop
  | _, [] => True
  | sp, e :: es => sp < e.period ∧ incrPeriods e.period es

end FxVerif.Model.C11

namespace FxVerif.Proofs.C11
open FxVerif.Model.C11

theorem ONE_pos' : 0 < ONE := by decide

theorem roundUp_ge (q : Nat) : q ≤ (if q % ONE = 0 then q / ONE else q / ONE + 1) * ONE := by
  have h := Nat.div_add_mod q ONE
  have hm : q % ONE < ONE := Nat.mod_lt _ ONE_pos'
  split
  · rename_i h0
    rw [h0] at h
    rw [Nat.mul_comm]; omega
  · rw [Nat.add_mul, Nat.mul_comm (q / ONE)]; omega

theorem roundUp_gt (q : Nat) (hq : q % ONE ≠ 0) : q + 1 ≤ (if q % ONE = 0 then q / ONE else q / ONE + 1) * ONE := by
  have h := Nat.div_add_mod q ONE
  have hm : q % ONE < ONE := Nat.mod_lt _ ONE_pos'
  rw [if_neg hq, Nat.add_mul, Nat.mul_comm (q / ONE)]
  omega

/-- the 36-decimal quotient of the slash fraction -/
def quot36 (burn T : Nat) : Nat := burn * ONE * ONE / T

theorem dQuoRoundUp_eq (burn T : Nat) :
    dQuoRoundUp (burn * ONE) (T * ONE) = (if quot36 burn T % ONE = 0 then quot36 burn T / ONE else quot36 burn T / ONE + 1) := by
  unfold dQuoRoundUp quot36
  have e : burn * ONE * ONE * ONE / (T * ONE) = burn * ONE * ONE / T := Nat.mul_div_mul_right _ _ ONE_pos'
  simp only [e]

/-- **the recorded fraction is never more than 10⁻³⁶ below the true one**: `eff·10¹⁸·T + T > burn·10³⁶` -/
theorem effFraction_lower {burn T : Nat} (hT : 0 < T) (hb : burn ≤ T) :
    burn * ONE * ONE < effFraction burn T * ONE * T + T := by
  unfold effFraction
  rw [dQuoRoundUp_eq]
  have hq : burn * ONE * ONE < quot36 burn T * T + T := by
    unfold quot36
    have := Nat.lt_succ_iff.mpr (Nat.le_refl (burn * ONE * ONE / T))
    have h2 := Nat.div_add_mod (burn * ONE * ONE) T
    have h3 : burn * ONE * ONE % T < T := Nat.mod_lt _ hT
    rw [Nat.mul_comm T] at h2
    omega
  have hr := roundUp_ge (quot36 burn T)
  generalize (if quot36 burn T % ONE = 0 then quot36 burn T / ONE else quot36 burn T / ONE + 1) = r at hr ⊢
  by_cases hle : ONE ≤ r
  · rw [Nat.min_eq_left hle]
    have : burn * ONE * ONE ≤ T * ONE * ONE := Nat.mul_le_mul_right _ (Nat.mul_le_mul_right _ hb)
    have e : ONE * ONE * T = T * ONE * ONE := by rw [Nat.mul_comm, Nat.mul_assoc]
    omega
  · rw [Nat.min_eq_right (by omega)]
    have : quot36 burn T * T ≤ r * ONE * T := Nat.mul_le_mul_right _ hr
    omega

/-- **closed form**: whenever digits 19…36 of the quotient `burn / T` are not all zero, `QuoRoundUp` really rounds up and
the recorded fraction is at least the true one -/
theorem slashExact_of_rem {burn T : Nat} (hT : 0 < T) (hb : burn ≤ T) (hr : quot36 burn T % ONE ≠ 0) :
    slashExact burn T = true := by
  unfold slashExact effFraction
  rw [dQuoRoundUp_eq]
  have hq : burn * ONE * ONE < (quot36 burn T + 1) * T := by
    unfold quot36
    have h2 := Nat.div_add_mod (burn * ONE * ONE) T
    have h3 : burn * ONE * ONE % T < T := Nat.mod_lt _ hT
    rw [Nat.add_mul, Nat.mul_comm (_ / T)]
    omega
  have hu := roundUp_gt (quot36 burn T) hr
  generalize (if quot36 burn T % ONE = 0 then quot36 burn T / ONE else quot36 burn T / ONE + 1) = r at hu ⊢
  apply decide_eq_true
  by_cases hle : ONE ≤ r
  · rw [Nat.min_eq_left hle, Nat.mul_comm]
    exact Nat.mul_le_mul_left _ hb
  · rw [Nat.min_eq_right (by omega)]
    -- burn·ONE·ONE < (q+1)·T ≤ r·ONE·T, hence burn·ONE < r·T … (cancel ONE)
    have h1 : (quot36 burn T + 1) * T ≤ r * ONE * T := Nat.mul_le_mul_right _ hu
    have h2 : burn * ONE * ONE < r * T * ONE := by
      have e : r * ONE * T = r * T * ONE := by rw [Nat.mul_assoc, Nat.mul_comm ONE T, ← Nat.mul_assoc]
      omega
    exact Nat.le_of_lt (Nat.lt_of_mul_lt_mul_right h2)

theorem effFraction_le (burn T : Nat) : effFraction burn T ≤ ONE := Nat.min_le_left _ _

/-- **a tight stake stays tight across an exact slash**: `st·S ≤ sh·T·10¹⁸` (the stake is at most the exact token worth of
`sh` shares out of `S` at `T` tokens) implies the same for the recomputed stake and `T − burn` tokens -/
theorem tight_slash {st S sh T burn : Nat} (_hb : burn ≤ T) (hx : slashExact burn T = true)
    (ht : st * S ≤ sh * T * ONE) :
    dMulTrunc st (ONE - effFraction burn T) * S ≤ sh * (T - burn) * ONE := by
  have hx' : burn * ONE ≤ effFraction burn T * T := of_decide_eq_true hx
  have he := effFraction_le burn T
  generalize effFraction burn T = e at hx' he ⊢
  unfold dMulTrunc
  -- st' · ONE ≤ st · (ONE − e)
  have h1 : st * (ONE - e) / ONE * ONE ≤ st * (ONE - e) := Nat.div_mul_le_self _ _
  -- T · (ONE − e) ≤ (T − burn) · ONE
  have h2 : T * (ONE - e) ≤ (T - burn) * ONE := by
    rw [Nat.mul_sub, Nat.sub_mul]
    have : burn * ONE ≤ T * e := by rw [Nat.mul_comm T e]; exact hx'
    omega
  apply Nat.le_of_mul_le_mul_right (c := ONE) _ ONE_pos'
  calc st * (ONE - e) / ONE * S * ONE
      = st * (ONE - e) / ONE * ONE * S := by rw [Nat.mul_assoc, Nat.mul_comm S ONE, ← Nat.mul_assoc]
    _ ≤ st * (ONE - e) * S := Nat.mul_le_mul_right _ h1
    _ = st * S * (ONE - e) := by rw [Nat.mul_assoc, Nat.mul_comm (ONE - e) S, ← Nat.mul_assoc]
    _ ≤ sh * T * ONE * (ONE - e) := Nat.mul_le_mul_right _ ht
    _ = sh * ONE * (T * (ONE - e)) := by
        rw [Nat.mul_assoc sh T ONE, Nat.mul_comm T ONE, ← Nat.mul_assoc sh ONE T, Nat.mul_assoc (sh * ONE) T]
    _ ≤ sh * ONE * ((T - burn) * ONE) := Nat.mul_le_mul_left _ h2
    _ = sh * (T - burn) * ONE * ONE := by
        rw [← Nat.mul_assoc (sh * ONE), Nat.mul_assoc sh ONE (T - burn), Nat.mul_comm ONE (T - burn), ← Nat.mul_assoc sh]

/-- the stake `TokensFromSharesTruncated(sh)` that `initializeDelegation` and `handlerTransferShares` write is tight -/
theorem tfsTrunc_tight (v : VS) (sh : Nat) : v.tokensFromSharesTrunc sh * v.shares ≤ sh * v.tokens * ONE := by
  unfold VS.tokensFromSharesTrunc dQuoTrunc
  have h1 : sh * v.tokens * ONE * ONE / v.shares / ONE * ONE ≤ sh * v.tokens * ONE * ONE / v.shares := Nat.div_mul_le_self _ _
  have h2 : sh * v.tokens * ONE * ONE / v.shares * v.shares ≤ sh * v.tokens * ONE * ONE := Nat.div_mul_le_self _ _
  apply Nat.le_of_mul_le_mul_right (c := ONE) _ ONE_pos'
  calc sh * v.tokens * ONE * ONE / v.shares / ONE * v.shares * ONE
      = sh * v.tokens * ONE * ONE / v.shares / ONE * ONE * v.shares := by
        rw [Nat.mul_assoc, Nat.mul_comm v.shares ONE, ← Nat.mul_assoc]
    _ ≤ sh * v.tokens * ONE * ONE / v.shares * v.shares := Nat.mul_le_mul_right _ h1
    _ ≤ sh * v.tokens * ONE * ONE := h2

theorem chopRound_ge_div (x : Nat) : x / ONE ≤ chopRound x := by
  unfold chopRound
  dsimp only
  split
  · exact Nat.le_refl _
  · split
    · omega
    · split <;> omega

/-- a tight stake is at most `TokensFromShares(sh)`: the sanity check compares it with that value + 3·10⁻¹⁸ -/
theorem tight_le_tfs {v : VS} {st sh : Nat} (hS : 0 < v.shares) (ht : st * v.shares ≤ sh * v.tokens * ONE) :
    st ≤ v.tokensFromShares sh := by
  unfold VS.tokensFromShares dQuo
  refine Nat.le_trans ?_ (chopRound_ge_div _)
  rw [Nat.le_div_iff_mul_le ONE_pos', Nat.le_div_iff_mul_le hS]
  calc st * ONE * v.shares = st * v.shares * ONE := by rw [Nat.mul_assoc, Nat.mul_comm ONE, ← Nat.mul_assoc]
    _ ≤ sh * v.tokens * ONE * ONE := Nat.mul_le_mul_right _ ht

/-- across any chain of exact slashes a tight stake stays tight -/
theorem chain_tight {S sh : Nat} : ∀ (evs : List SlashEv) (T Tend sp st : Nat), SlashChain T evs Tend → incrPeriods sp evs →
    st * S ≤ sh * T * ONE → stakeAfter evs sp st * S ≤ sh * Tend * ONE := by
  intro evs
  induction evs with
  | nil => intro T Tend sp st hc _ ht; cases hc; exact ht
  | cons e es ih =>
    intro T Tend sp st hc hp ht
    cases hc with
    | cons hb hf hx hr =>
      unfold stakeAfter
      rw [if_pos hp.1, hf]
      exact ih _ _ _ _ hr hp.2 (tight_slash hb hx ht)

end FxVerif.Proofs.C11
