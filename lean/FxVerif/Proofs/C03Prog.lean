import FxVerif.Model.C03Prog

/-!
# C03 — the interpreted handler program depends on the claim only through the fields it mentions
-/
namespace FxVerif.Proofs.C03
open FxVerif.Model.C03

variable {fe₁ fe₂ : FieldEnv}

theorem evalS_congr (m : Str) (vars : List (String × Str)) :
    ∀ e : SExpr, (∀ f ∈ e.strFields, fe₁.str f = fe₂.str f) → evalS fe₁ m vars e = evalS fe₂ m vars e
  | .lit _, _ => rfl
  | .field f, h => by simpa [evalS] using h f (by simp [SExpr.strFields])
  | .var _, _ => rfl
  | .moduleName, _ => rfl
  | .unknown _, _ => rfl
  | .cat a b, h => by
    have ha := evalS_congr m vars a (fun f hf => h f (by simp [SExpr.strFields, hf]))
    have hb := evalS_congr m vars b (fun f hf => h f (by simp [SExpr.strFields, hf]))
    simp only [evalS, ha, hb]

theorem evalN_congr : ∀ e : NExpr, (∀ f ∈ e.natFields, fe₁.nat f = fe₂.nat f) → evalN fe₁ e = evalN fe₂ e
  | .lit _, _ => rfl
  | .field f, h => by simpa [evalN] using h f (by simp [NExpr.natFields])
  | .unknown _, _ => rfl

theorem evalC_congr (m : Str) (s : HSt) (c : HCond) (hs : ∀ f ∈ c.strFields, fe₁.str f = fe₂.str f)
    (hn : ∀ f ∈ c.natFields, fe₁.nat f = fe₂.nat f) : evalC fe₁ m s c = evalC fe₂ m s c := by
  cases c with
  | hasKey k => simp only [evalC, evalS_congr m s.vars k (fun f hf => hs f (by simpa [HCond.strFields] using hf))]
  | strEq a b =>
    simp only [evalC, evalS_congr m s.vars a (fun f hf => hs f (by simp [HCond.strFields, hf])),
      evalS_congr m s.vars b (fun f hf => hs f (by simp [HCond.strFields, hf]))]
  | strNe a b =>
    simp only [evalC, evalS_congr m s.vars a (fun f hf => hs f (by simp [HCond.strFields, hf])),
      evalS_congr m s.vars b (fun f hf => hs f (by simp [HCond.strFields, hf]))]
  | natEq a b =>
    simp only [evalC, evalN_congr a (fun f hf => hn f (by simp [HCond.natFields, hf])),
      evalN_congr b (fun f hf => hn f (by simp [HCond.natFields, hf]))]
  | natNe a b =>
    simp only [evalC, evalN_congr a (fun f hf => hn f (by simp [HCond.natFields, hf])),
      evalN_congr b (fun f hf => hn f (by simp [HCond.natFields, hf]))]
  | unknown _ => rfl

theorem evalGuards_congr (m : Str) (s : HSt) : ∀ gs : List HCond,
    (∀ f ∈ gs.flatMap HCond.strFields, fe₁.str f = fe₂.str f) → (∀ f ∈ gs.flatMap HCond.natFields, fe₁.nat f = fe₂.nat f) →
    evalGuards fe₁ m s gs = evalGuards fe₂ m s gs
  | [], _, _ => rfl
  | g :: r, hs, hn => by
    have hg := evalC_congr (fe₁ := fe₁) (fe₂ := fe₂) m s g (fun f hf => hs f (by simp [List.flatMap_cons, hf]))
      (fun f hf => hn f (by simp [List.flatMap_cons, hf]))
    have hr := evalGuards_congr m s r (fun f hf => hs f (by simp only [List.flatMap_cons, List.mem_append]; exact Or.inr hf))
      (fun f hf => hn f (by simp only [List.flatMap_cons, List.mem_append]; exact Or.inr hf))
    simp only [evalGuards, hg, hr]

/-- the result of the interpreted handler depends on the claim only through the string and numeric fields the program
mentions -/
theorem runProg_congr (m : Str) : ∀ (p : List HLine) (s : HSt),
    (∀ f ∈ progStrFields p, fe₁.str f = fe₂.str f) → (∀ f ∈ progNatFields p, fe₁.nat f = fe₂.nat f) →
    runProg fe₁ m p s = runProg fe₂ m p s
  | [], _, _, _ => rfl
  | l :: r, s, hs, hn => by
    have hsl : ∀ f ∈ l.strFields, fe₁.str f = fe₂.str f := fun f hf => hs f (by simp [progStrFields, List.flatMap_cons, hf])
    have hnl : ∀ f ∈ l.natFields, fe₁.nat f = fe₂.nat f := fun f hf => hn f (by simp [progNatFields, List.flatMap_cons, hf])
    have hsr : ∀ f ∈ progStrFields r, fe₁.str f = fe₂.str f := fun f hf =>
      hs f (by simp only [progStrFields, List.flatMap_cons, List.mem_append]; exact Or.inr hf)
    have hnr : ∀ f ∈ progNatFields r, fe₁.nat f = fe₂.nat f := fun f hf =>
      hn f (by simp only [progNatFields, List.flatMap_cons, List.mem_append]; exact Or.inr hf)
    have hg := evalGuards_congr (fe₁ := fe₁) (fe₂ := fe₂) m s l.guards
      (fun f hf => hsl f (by simp only [HLine.strFields, List.mem_append]; exact Or.inl hf))
      (fun f hf => hnl f (by simpa [HLine.natFields] using hf))
    have ih := fun s' => runProg_congr m r s' hsr hnr
    have hst : ∀ f ∈ l.stmt.strFields, fe₁.str f = fe₂.str f := fun f hf =>
      hsl f (by simp only [HLine.strFields, List.mem_append]; exact Or.inr hf)
    unfold runProg
    rw [hg]
    cases evalGuards fe₂ m s l.guards with
    | none => rfl
    | some b =>
      cases b with
      | false => exact ih s
      | true =>
        cases hl : l.stmt with
        | assign v e =>
          rw [hl] at hst
          simp only [evalS_congr m s.vars e (fun f hf => hst f (by simpa [HStmt.strFields] using hf))]
          cases evalS fe₂ m s.vars e with
          | none => rfl
          | some x => exact ih _
        | setKey k v =>
          rw [hl] at hst
          simp only [evalS_congr m s.vars k (fun f hf => hst f (by simp [HStmt.strFields, hf])),
            evalS_congr m s.vars v (fun f hf => hst f (by simp [HStmt.strFields, hf]))]
          cases evalS fe₂ m s.vars k with
          | none => rfl
          | some x =>
            cases evalS fe₂ m s.vars v with
            | none => rfl
            | some y => exact ih _
        | retErr => rfl
        | retNil => rfl
        | unknown _ => rfl

end FxVerif.Proofs.C03
