import FxVerif.Proofs.C08Cache
/-!
# C08 — mixed transactions on an EXTERNALLY-owned token: the escrow book at slot level (round 5)

Accounts as in the `mixx` lines: 0 = the calling contract, 1 = sink, 2 = the erc20 module account (escrows the ERC-20),
3 = the crosschain precompile, 4 = a holder who approved the caller.  `esc` = supply of the pair's coin over all its
denominations.  The words are the kind-1 steps of `parseStep` / `parseStepX`.
-/
namespace FxVerif.Proofs.C08Cache
open FxVerif.Model.C08Cache

/-- the kind-1 words of a mixed transaction -/
inductive EW where
  | t (n : Nat) | rm | rs | a (n : Nat) | f (n : Nat)
  | b (n : Nat) | x (n : Nat) | c (n : Nat)

def EW.steps : EW → List MStep
  | .t n => [.evm (transfer 0 1 n) 0]
  | .rm => [.evm (balanceOf 0) 0]
  | .rs => [.evm (balanceOf 1) 0]
  | .a n => [.evm (approve 0 3 n) 0]
  | .f n => [.evm (transferFrom 0 4 1 n) 0]
  | .b n => [.nested (transfer 0 2 n) 0 n]
  | .x n => [.evm (transferFrom 3 0 2 n) 0, .nested (.done true) 0 n]
  | .c n => [.nested (transfer 2 0 n) n 0]

/-- ERC-20 escrowed by the module − coin supply over all denominations -/
def extBook (s : Store × Nat) : Int := (s.1 (.bal 2) : Int) - s.2

theorem runSeq_append (a b : List MStep) (s : Store × Nat) :
    runSeq (a ++ b) s = (runSeq a s).bind (runSeq b) := by
  induction a generalizing s with
  | nil => rfl
  | cons st rest ih =>
    obtain ⟨st0, esc⟩ := s
    cases st with
    | evm p pay =>
      simp only [List.cons_append, runSeq]
      cases runPlain p st0 with
      | mk ok st1 =>
        cases ok with
        | false => rfl
        | true =>
          simp only
          by_cases h : esc < pay
          · simp [h]
          · simp only [h, if_false]; exact ih _
    | nested p pay gain =>
      simp only [List.cons_append, runSeq]
      cases runPlain p st0 with
      | mk ok st1 =>
        cases ok with
        | false => rfl
        | true =>
          simp only
          by_cases h : esc < pay
          · simp [h]
          · simp only [h, if_false]; exact ih _

theorem word_keeps_extBook (w : EW) (s s' : Store × Nat) (h : runSeq w.steps s = some s') : extBook s' = extBook s := by
  obtain ⟨st, esc⟩ := s
  cases w with
  | t n =>
    simp only [EW.steps, runSeq, runPlain, transfer, pTransfer] at h
    by_cases hb : st (.bal 0) < n
    · simp [hb, runPlain] at h
    · simp [hb, runPlain, runSeq] at h; subst h; simp [extBook, Store.set]
  | rm => simp [EW.steps, runSeq, runPlain, balanceOf] at h; subst h; rfl
  | rs => simp [EW.steps, runSeq, runPlain, balanceOf] at h; subst h; rfl
  | a n => simp [EW.steps, runSeq, runPlain, approve] at h; subst h; simp [extBook, Store.set]
  | f n =>
    simp only [EW.steps, runSeq, runPlain, transferFrom, pTransfer] at h
    by_cases ha : st (.allow 4 0) < n
    · simp [ha, runPlain] at h
    · simp only [ha, if_false, runPlain, Store.set] at h
      by_cases hb : st (.bal 4) < n
      · simp [hb, runPlain] at h
      · simp [hb, runPlain, runSeq, Store.set] at h; subst h; simp [extBook, Store.set]
  | b n =>
    simp only [EW.steps, runSeq, runPlain, transfer, pTransfer] at h
    by_cases hb : st (.bal 0) < n
    · simp [hb, runPlain] at h
    · simp [hb, runPlain, runSeq, Store.set] at h; subst h; simp [extBook, Store.set] <;> omega
  | x n =>
    simp only [EW.steps, runSeq, runPlain, transferFrom, pTransfer] at h
    by_cases ha : st (.allow 0 3) < n
    · simp [ha, runPlain] at h
    · simp only [ha, if_false, runPlain, Store.set] at h
      by_cases hb : st (.bal 0) < n
      · simp [hb, runPlain] at h
      · simp [hb, runPlain, runSeq, Store.set] at h; subst h; simp [extBook, Store.set] <;> omega
  | c n =>
    simp only [EW.steps, runSeq, runPlain, transfer, pTransfer] at h
    by_cases hb : st (.bal 2) < n
    · simp [hb, runPlain] at h
    · simp only [hb, if_false, runPlain, Store.set] at h
      by_cases he : esc < n
      · simp [he] at h
      · simp [he, runSeq] at h; subst h; simp [extBook, Store.set] <;> omega

theorem words_keep_extBook (ws : List EW) (s s' : Store × Nat) (h : runSeq (ws.flatMap EW.steps) s = some s') :
    extBook s' = extBook s := by
  induction ws generalizing s with
  | nil => simp [runSeq] at h; subst h; rfl
  | cons w rest ih =>
    simp only [List.flatMap_cons, runSeq_append] at h
    cases h1 : runSeq w.steps s with
    | none => simp [h1] at h
    | some s1 =>
      simp only [h1, Option.bind_some] at h
      rw [ih s1 h, word_keeps_extBook w s s1 h1]

/-- steps executed by the running EVM and native actions that touch no token slot are always coherent -/
theorem coherent_of_evm_or_native (steps : List MStep) (s : TxSt)
    (h : ∀ st ∈ steps, (∃ p pay, st = .evm p pay) ∨ ∃ pay gain, st = .nested (.done true) pay gain) :
    CoherentTx steps s := by
  induction steps generalizing s with
  | nil => trivial
  | cons st rest ih =>
    have hr : ∀ st' ∈ rest, (∃ p pay, st' = .evm p pay) ∨ ∃ pay gain, st' = .nested (.done true) pay gain :=
      fun st' hs => h st' (by simp [hs])
    rcases h st (by simp) with ⟨p, pay, rfl⟩ | ⟨pay, gain, rfl⟩
    · simp only [CoherentTx]
      cases runOuter p s.o with
      | mk ok o1 =>
        cases ok with
        | false => trivial
        | true => exact Or.inr (ih _ hr)
    · simp only [CoherentTx, touchedOf, nestedCall, runOuter]
      exact ⟨fun k hk => by simp at hk, Or.inr (ih _ hr)⟩

end FxVerif.Proofs.C08Cache
