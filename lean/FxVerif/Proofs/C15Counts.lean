import FxVerif.Model.C15
/-!
# C15 — the per-option counts of `Tally` are votes × stakes

`tallyNums` accumulates the per-option sums in two loops.  Here the accumulation is unfolded into plain sums: the count of an
option is the sum, over the stored votes, of (voting power of each delegation of the voter to a bonded validator) × (the
weight the vote gives the option), plus, over the bonded validators whose operator voted, (the power left to the validator
after the deductions) × (the weight its vote gives the option); the total is the sum of those powers — each once.
-/
namespace FxVerif.Proofs.C15
open FxVerif.Gen.C15 FxVerif.Model.C15

def getOpt (n : Nums) : Opt → Nat
  | .yes => n.yes
  | .abstain => n.abstain
  | .no => n.no
  | .veto => n.veto

/-- what a vote with options `opts` cast with voting power `pw` adds to option `o`: `pw.Mul(weight)` per matching entry -/
def optAmt (o : Opt) (pw : Nat) : List (Opt × Nat) → Nat
  | [] => 0
  | (o', w) :: r => (if o' == o then decMul pw w else 0) + optAmt o pw r

/-- the delegations of one voter: power × weight of each delegation to a bonded validator -/
def delCount (o : Opt) (vals : List Val) (opts : List (Opt × Nat)) : List Del → Nat
  | [] => 0
  | d :: r => (match findVal vals d.val with
      | some v => optAmt o ((delPower v d.shares).getD 0) opts
      | none => 0) + delCount o vals opts r

def delTotal (vals : List Val) : List Del → Nat
  | [] => 0
  | d :: r => (match findVal vals d.val with
      | some v => (delPower v d.shares).getD 0
      | none => 0) + delTotal vals r

/-- … over all stored votes of the proposal -/
def voteCount (o : Opt) (stk : Staking) : List Vote → Nat
  | [] => 0
  | v :: r => delCount o stk.vals v.opts (stk.dels.filter (fun d => d.who == v.voter)) + voteCount o stk r

def voteTotal (stk : Staking) : List Vote → Nat
  | [] => 0
  | v :: r => delTotal stk.vals (stk.dels.filter (fun d => d.who == v.voter)) + voteTotal stk r

/-- the bonded validators whose operator voted: what is left of their shares after the voting delegators' deductions -/
def valCount (o : Opt) (votes : List Vote) (dels : List Del) : List Val → Nat
  | [] => 0
  | v :: r => (match voteOf votes v.op with
      | some vt => optAmt o ((valPower v (deductions votes dels v.op)).getD 0) vt.opts
      | none => 0) + valCount o votes dels r

def valTotal (votes : List Vote) (dels : List Del) : List Val → Nat
  | [] => 0
  | v :: r => (match voteOf votes v.op with
      | some _ => (valPower v (deductions votes dels v.op)).getD 0
      | none => 0) + valTotal votes dels r

theorem addOpts_get (pw : Nat) (o : Opt) : ∀ (opts : List (Opt × Nat)) (n : Nums),
    getOpt (addOpts true pw opts n) o = getOpt n o + optAmt o pw opts ∧ (addOpts true pw opts n).total = n.total ∧
    (addOpts true pw opts n).bonded = n.bonded := by
  intro opts
  induction opts with
  | nil => intro n; simp [addOpts, optAmt]
  | cons x r ih =>
    intro n
    obtain ⟨o', w⟩ := x
    simp only [addOpts, optAmt, if_true]
    obtain ⟨i1, i2, i3⟩ := ih (addOpt n o' (decMul pw w))
    refine ⟨?_, ?_, ?_⟩
    · rw [i1]
      cases o' <;> cases o <;> simp [addOpt, getOpt] <;> omega
    · rw [i2]; cases o' <;> rfl
    · rw [i3]; cases o' <;> rfl

theorem addPower_get (pw : Nat) (o : Opt) (opts : List (Opt × Nat)) (n : Nums) :
    getOpt (addPower true pw opts n) o = getOpt n o + optAmt o pw opts ∧ (addPower true pw opts n).total = n.total + pw ∧
    (addPower true pw opts n).bonded = n.bonded := by
  have h : tallyAccumulatesBoth = true := rfl
  obtain ⟨i1, _, i3⟩ := addOpts_get pw o opts n
  have e : addPower true pw opts n = { addOpts true pw opts n with total := n.total + pw } := by
    simp [addPower, h]
  rw [e]
  refine ⟨?_, rfl, i3⟩
  rw [← i1]; cases o <;> rfl

theorem delLoop_count (o : Opt) (vals : List Val) (opts : List (Opt × Nat)) : ∀ (dels : List Del) (n n' : Nums),
    delLoop vals opts dels n = some n' →
    getOpt n' o = getOpt n o + delCount o vals opts dels ∧ n'.total = n.total + delTotal vals dels ∧ n'.bonded = n.bonded := by
  intro dels
  induction dels with
  | nil => intro n n' h; simp [delLoop] at h; subst h; simp [delCount, delTotal]
  | cons d r ih =>
    intro n n' h
    have hb : tallyDelegationNeedsBondedValidator = true := rfl
    have hm : (tallySubPowerDelegator == "votingPower.Mul(weight)") = true := rfl
    simp only [delLoop] at h
    cases hf : findVal vals d.val with
    | none =>
      simp only [hf, hb, if_true] at h
      obtain ⟨i1, i2, i3⟩ := ih n n' h
      simp only [delCount, delTotal, hf]
      exact ⟨by rw [i1]; omega, by rw [i2]; omega, i3⟩
    | some v =>
      simp only [hf] at h
      cases hp : delPower v d.shares with
      | none => simp [hp] at h
      | some pw =>
        simp only [hp, hm] at h
        obtain ⟨i1, i2, i3⟩ := ih _ n' h
        obtain ⟨a1, a2, a3⟩ := addPower_get pw o opts n
        simp only [delCount, delTotal, hf, hp, Option.getD_some]
        exact ⟨by rw [i1, a1]; omega, by rw [i2, a2]; omega, by rw [i3, a3]⟩

theorem voteLoop_count (o : Opt) (stk : Staking) : ∀ (votes : List Vote) (n n' : Nums), voteLoop stk votes n = some n' →
    getOpt n' o = getOpt n o + voteCount o stk votes ∧ n'.total = n.total + voteTotal stk votes ∧ n'.bonded = n.bonded := by
  intro votes
  induction votes with
  | nil => intro n n' h; simp [voteLoop] at h; subst h; simp [voteCount, voteTotal]
  | cons v r ih =>
    intro n n' h
    simp only [voteLoop] at h
    split at h
    · cases h
    · rename_i n1 h1
      obtain ⟨d1, d2, d3⟩ := delLoop_count o stk.vals v.opts _ n n1 h1
      obtain ⟨i1, i2, i3⟩ := ih n1 n' h
      simp only [voteCount, voteTotal]
      exact ⟨by rw [i1, d1]; omega, by rw [i2, d2]; omega, by rw [i3, d3]⟩

theorem valLoop_count (o : Opt) (votes : List Vote) (dels : List Del) : ∀ (vals : List Val) (n n' : Nums),
    valLoop votes dels vals n = some n' →
    getOpt n' o = getOpt n o + valCount o votes dels vals ∧ n'.total = n.total + valTotal votes dels vals ∧ n'.bonded = n.bonded := by
  intro vals
  induction vals with
  | nil => intro n n' h; simp [valLoop] at h; subst h; simp [valCount, valTotal]
  | cons v r ih =>
    intro n n' h
    have h5 : tallySkipsSilentValidators = true := rfl
    have h6 : tallyRecordsValidatorVote = true := rfl
    have hm : (tallySubPowerValidator == "votingPower.Mul(weight)") = true := rfl
    simp only [valLoop, h6, if_true] at h
    cases hv : voteOf votes v.op with
    | none =>
      simp only [hv, h5, if_true] at h
      obtain ⟨i1, i2, i3⟩ := ih n n' h
      simp only [valCount, valTotal, hv]
      exact ⟨by rw [i1]; omega, by rw [i2]; omega, i3⟩
    | some vt =>
      simp only [hv] at h
      cases hp : valPower v (deductions votes dels v.op) with
      | none => simp [hp] at h
      | some pw =>
        simp only [hp, hm] at h
        obtain ⟨i1, i2, i3⟩ := ih _ n' h
        obtain ⟨a1, a2, a3⟩ := addPower_get pw o vt.opts n
        simp only [valCount, valTotal, hv, hp, Option.getD_some]
        exact ⟨by rw [i1, a1]; omega, by rw [i2, a2]; omega, by rw [i3, a3]⟩

/-- the sums of `Tally`, as plain sums over votes and stakes -/
theorem tallyNums_counts (votes : List Vote) (stk : Staking) (n : Nums) (h : tallyNums votes stk = some n) (o : Opt) :
    getOpt n o = voteCount o stk votes + valCount o votes stk.dels stk.vals ∧
    n.total = voteTotal stk votes + valTotal votes stk.dels stk.vals ∧ n.bonded = stk.totalBonded := by
  unfold tallyNums at h
  split at h
  · cases h
  · rename_i n1 h1
    obtain ⟨v1, v2, v3⟩ := voteLoop_count o stk votes _ n1 h1
    obtain ⟨w1, w2, w3⟩ := valLoop_count o votes stk.dels stk.vals n1 n h
    refine ⟨by rw [w1, v1]; cases o <;> simp [getOpt], by rw [w2, v2]; simp, by rw [w3, v3]⟩

end FxVerif.Proofs.C15
