import FxVerif.Proofs.C05Ext
/-!
What is queued is what its creator supplied — at every later time, not only at creation — and what a cancel refunds is
everything that was paid in for that transfer, to its creator.  Ghost logs `Ext.sent` (transfers as created) and
`Ext.raised` (successful fee increases).
-/
namespace FxVerif.Proofs.C05
open FxVerif.Gen.C05 FxVerif.Model.C05 List

/-- transfers waiting for the external chain: pool and batches -/
def queued (s : State) : List Tx := s.pool ++ batchTxs s

/-- `tx` is a transfer of the creation log, field for field, its fee raised by exactly what was paid in since -/
def IsOrig (x : Ext) (tx : Tx) : Prop :=
  ∃ o ∈ x.sent, o.id = tx.id ∧ o.sender = tx.sender ∧ o.dest = tx.dest ∧ o.token = tx.token ∧ o.amount = tx.amount ∧
    tx.fee = o.fee + raisedSum x.raised tx.id

/-- a refund entry pays the creator everything paid in for that id -/
def RefundOrig (x : Ext) (e : Settle) : Prop :=
  ∃ o ∈ x.sent, o.id = e.id ∧ e.to = o.sender ∧ e.coins = [(o.token, o.amount + o.fee + raisedSum x.raised e.id)]

structure Q (s : State) (x : Ext) : Prop where
  queued : ∀ tx ∈ queued s, IsOrig x tx
  refunds : ∀ e ∈ s.settled, e.isCall = false → e.how = .refunded → RefundOrig x e
  raisedLt : ∀ r ∈ x.raised, r.1 < s.nextTxId
  sentIds : x.sent.map (·.id) = range' 1 (s.nextTxId - 1)

theorem Q_init {s : State} (h : IsInit s) : Q s {} := by
  obtain ⟨h1, _, _, h4, h5, _, _, h8, _⟩ := h
  refine ⟨?_, ?_, ?_, by simp [h1]⟩
  · intro tx htx; simp [queued, batchTxs, h4, h5] at htx
  · rw [h8]; intro e he; cases he
  · intro r hr; cases hr

/-- an operation that only moves transfers between pool and batches (or drops them), appends only bridge-call entries or
executions to the log, and leaves the id counter and the ghost logs alone keeps `Q` -/
theorem Q_of {s s' : State} {x x' : Ext} (hq : Q s x) (hs : x'.sent = x.sent) (hr : x'.raised = x.raised)
    (hmem : ∀ tx ∈ queued s', tx ∈ queued s)
    (hset : ∀ e ∈ s'.settled, e ∈ s.settled ∨ e.isCall = true ∨ e.how = .executed)
    (hn : s'.nextTxId = s.nextTxId) : Q s' x' := by
  refine ⟨fun tx htx => ?_, fun e he hc hh => ?_, by rw [hr, hn]; exact hq.raisedLt, by rw [hs, hn]; exact hq.sentIds⟩
  · unfold IsOrig; rw [hs, hr]; exact hq.queued tx (hmem tx htx)
  · unfold RefundOrig; rw [hs, hr]
    rcases hset e he with h1 | h1 | h1
    · exact hq.refunds e h1 hc hh
    · rw [hc] at h1; cases h1
    · rw [hh] at h1; cases h1

theorem mem_queued_cancelBatches (p : Batch → Bool) (s : State) (tx : Tx) :
    tx ∈ queued (cancelBatches p s) ↔ tx ∈ queued s := by
  have h1 := (insertAll_perm ((s.batches.filter p).flatMap (·.txs)) s.pool).mem_iff (a := tx)
  have h2 := (filter_flatMap_perm p s.batches).mem_iff (a := tx)
  simp only [queued, batchTxs, cancelBatches, mem_append] at *
  rw [h1, ← h2]
  constructor
  · rintro ((h | h) | h)
    · exact Or.inr (Or.inl h)
    · exact Or.inl h
    · exact Or.inr (Or.inr h)
  · rintro (h | h | h)
    · exact Or.inl (Or.inr h)
    · exact Or.inl (Or.inl h)
    · exact Or.inr h

theorem queued_cleanup (z : State) : queued (cleanupCalls (cleanupBatches z)) = queued (cleanupBatches z) := by
  obtain ⟨fm, er, hfm⟩ := cleanupCalls_core (cleanupBatches z)
  rw [hfm]
  unfold cleanupCallsCore
  obtain ⟨h1, h2, _⟩ := foldl_refundCall (expiredCalls (heightOf callCleanupSrc (cleanupBatches z)) (cleanupBatches z).calls)
    { cleanupBatches z with calls := if callCleanupDeletes then keptCalls (heightOf callCleanupSrc (cleanupBatches z)) (cleanupBatches z).calls else (cleanupBatches z).calls }
  simp only [queued, batchTxs, h1, h2]

/-- what an observation appends to the settlement log: executions and bridge-call refunds only -/
theorem observe_settled_new (s : State) (h : Nat) (ev : Ev) :
    ∀ e ∈ (doObserve s h ev).1.settled, e ∈ s.settled ∨ e.isCall = true ∨ e.how = .executed := by
  rcases observe_fields s h ev with hsame | ⟨s2, hh, hfin⟩
  · rw [hsame]; exact fun e he => Or.inl he
  · rw [hfin, cleanupCalls_settled]
    have hb : (cleanupBatches s2).settled = s2.settled := by simp [cleanupBatches, cancelBatches]
    rw [hb]
    intro e he
    simp only [mem_append, mem_map] at he
    rcases he with he | ⟨c, _, rfl⟩
    · cases ev with
      | other => cases hh; exact Or.inl he
      | result c ok => cases hh; exact Or.inl he
      | batch t n =>
        simp only [handleEvent] at hh
        cases hf : ({ s with eventNonce := s.eventNonce + 1, obsExt := h, obsFx := s.fxHeight } : State).batches.find?
            (fun b => decide (b.token = t ∧ b.nonce = n)) with
        | none => rw [hf] at hh; cases hh
        | some b0 =>
          rw [hf] at hh
          cases hh
          simp only [executeBatch, cancelBatches, mem_append, mem_map] at he
          rcases he with he | ⟨tx, _, rfl⟩
          · exact Or.inl he
          · exact Or.inr (Or.inr rfl)
    · exact Or.inr (Or.inl rfl)

theorem mem_queued_observe (s : State) (h : Nat) (ev : Ev) : ∀ tx ∈ queued (doObserve s h ev).1, tx ∈ queued s := by
  rcases observe_fields s h ev with hsame | ⟨s2, hh, hfin⟩
  · rw [hsame]; exact fun tx htx => htx
  · rw [hfin, queued_cleanup]
    intro tx htx
    rw [cleanupBatches, mem_queued_cancelBatches] at htx
    cases ev with
    | other => cases hh; exact htx
    | result c ok => cases hh; exact htx
    | batch t n =>
      simp only [handleEvent] at hh
      cases hf : ({ s with eventNonce := s.eventNonce + 1, obsExt := h, obsFx := s.fxHeight } : State).batches.find?
          (fun b => decide (b.token = t ∧ b.nonce = n)) with
      | none => rw [hf] at hh; cases hh
      | some b0 =>
        rw [hf] at hh
        cases hh
        have hsub : ∀ tx ∈ queued (executeBatch { s with eventNonce := s.eventNonce + 1, obsExt := h, obsFx := s.fxHeight } b0),
            tx ∈ queued s := by
          intro tx htx
          have : tx ∈ queued (cancelBatches (fun b' => executedCancelsCmp.eval b'.nonce b0.nonce &&
              (!executedCancelsSameToken || b'.token == b0.token))
              { s with eventNonce := s.eventNonce + 1, obsExt := h, obsFx := s.fxHeight }) := by
            simp only [queued, batchTxs, executeBatch, mem_append, mem_flatMap] at htx ⊢
            rcases htx with htx | ⟨b, hb, htx⟩
            · exact Or.inl htx
            · exact Or.inr ⟨b, mem_of_mem_erase hb, htx⟩
          rw [mem_queued_cancelBatches] at this
          exact this
        exact hsub tx htx

/-! ## ids: what the partition invariant says about one id -/

theorem inv_ids_nodup {s : State} (hi : Inv s) : (allTxIds s).Nodup := hi.tx.nodup_iff.mpr nodup_range'

theorem id_lt_next {s : State} (hi : Inv s) {tx : Tx} (h : tx ∈ queued s) : tx.id < s.nextTxId := by
  have hm : tx.id ∈ allTxIds s := by
    simp only [queued, mem_append] at h
    simp only [allTxIds, poolIds, batchIds, mem_append, mem_map]
    rcases h with h | h
    · exact Or.inl (Or.inl ⟨tx, h, rfl⟩)
    · exact Or.inl (Or.inr ⟨tx, h, rfl⟩)
  have := (hi.tx.mem_iff).mp hm
  simp only [mem_range'_1] at this
  have := hi.txPos
  omega

/-- the id of a transfer in the pool occurs nowhere else: not on another pool entry, not in a batch, not in the log -/
theorem pool_id_unique {s : State} (hi : Inv s) {tx : Tx} (hmem : tx ∈ s.pool) :
    (∀ z ∈ s.pool.erase tx, z.id ≠ tx.id) ∧ (∀ z ∈ batchTxs s, z.id ≠ tx.id) ∧
    (∀ e ∈ s.settled, e.isCall = false → e.id ≠ tx.id) := by
  have nd := inv_ids_nodup hi
  have hp := ((perm_cons_erase hmem).map (·.id))
  have nd' : (tx.id :: ((s.pool.erase tx).map (·.id) ++ batchIds s ++ settledTxIds s.settled)).Nodup := by
    have : (allTxIds s).Perm (tx.id :: ((s.pool.erase tx).map (·.id) ++ batchIds s ++ settledTxIds s.settled)) := by
      simp only [allTxIds, poolIds]
      have := (hp.append_right (batchIds s)).append_right (settledTxIds s.settled)
      simpa using this
    exact this.nodup_iff.mp nd
  rw [nodup_cons] at nd'
  have hnot := nd'.1
  simp only [mem_append, not_or] at hnot
  refine ⟨fun z hz he => hnot.1.1 (by rw [← he]; exact mem_map_of_mem hz),
    fun z hz he => hnot.1.2 (by rw [← he]; exact mem_map_of_mem (f := (·.id)) hz), fun e he hc hid => hnot.2 ?_⟩
  rw [← hid]
  simp only [settledTxIds, mem_map, mem_filter]
  exact ⟨e, ⟨he, by simp [hc]⟩, rfl⟩

theorem raisedSum_append (r : List (Nat × Nat)) (id id' add : Nat) :
    raisedSum (r ++ [(id, add)]) id' = raisedSum r id' + (if id = id' then add else 0) := by
  unfold raisedSum
  by_cases h : id = id'
  · simp [filter_append, h]
  · simp [filter_append, h]

theorem raisedSum_zero {r : List (Nat × Nat)} {id : Nat} (h : ∀ p ∈ r, p.1 ≠ id) : raisedSum r id = 0 := by
  unfold raisedSum
  have : r.filter (fun p => decide (p.1 = id)) = [] := by
    rw [filter_eq_nil_iff]; intro p hp; simpa using h p hp
  rw [this]; rfl

/-! ## the three operations that touch one transfer -/

theorem Q_send {s : State} {x : Ext} (hq : Q s x) (hi : Inv s) (a : Addr) (d : String) (t am f : Nat) :
    Q (step s (.send a d t am f)).1 (x.nextStd s (.send a d t am f)) := by
  simp only [step, Ext.nextStd]
  unfold doSend
  split
  · simp only [Nat.left_eq_add, Nat.succ_ne_self, if_false]
    exact hq
  · split
    · simp only [Nat.left_eq_add, Nat.succ_ne_self, if_false]
      exact hq
    · simp only [if_true]
      have hmono : ∀ tx, IsOrig x tx → IsOrig { x with sent := x.sent ++ [⟨s.nextTxId, a, d, t, am, f⟩] } tx := by
        rintro tx ⟨o, ho, h⟩
        exact ⟨o, mem_append_left _ ho, h⟩
      refine ⟨fun tx htx => ?_, fun e he hc hh => ?_, fun r hr => by have := hq.raisedLt r hr; simp only; omega, ?_⟩
      · simp only [queued, batchTxs, mem_append] at htx
        rcases htx with htx | htx
        · rcases mem_insertDesc htx with rfl | htx
          · refine ⟨_, mem_append_right _ (mem_singleton_self _), rfl, rfl, rfl, rfl, rfl, ?_⟩
            simp only
            rw [raisedSum_zero]
            · rfl
            · intro p hp he
              have := hq.raisedLt p hp
              omega
          · exact hmono tx (hq.queued tx (by simp only [queued, mem_append]; exact Or.inl htx))
        · exact hmono tx (hq.queued tx (by simp only [queued, batchTxs, mem_append]; exact Or.inr htx))
      · obtain ⟨o, ho, h⟩ := hq.refunds e he hc hh
        exact ⟨o, mem_append_left _ ho, h⟩
      · simp only [map_append, map_cons, map_nil, hq.sentIds]
        exact (range'_succ_concat _ hi.txPos).symm

theorem Q_psend {s : State} {x : Ext} (hq : Q s x) (hi : Inv s) (a : Addr) (d : String) (t am f : Nat) :
    Q (step s (.psend a d t am f)).1 (x.nextStd s (.psend a d t am f)) := by
  simp only [step, Ext.nextStd]
  unfold doPSend
  split
  · simp only [Nat.left_eq_add, Nat.succ_ne_self, if_false]
    exact hq
  · split
    · simp only [Nat.left_eq_add, Nat.succ_ne_self, if_false]
      exact hq
    · simp only [if_true]
      have hmono : ∀ tx, IsOrig x tx → IsOrig { x with sent := x.sent ++ [⟨s.nextTxId, a, d, t, am, f⟩], sentEvm := x.sentEvm ++ [s.nextTxId] } tx := by
        rintro tx ⟨o, ho, h⟩
        exact ⟨o, mem_append_left _ ho, h⟩
      refine ⟨fun tx htx => ?_, fun e he hc hh => ?_, fun r hr => by have := hq.raisedLt r hr; simp only; omega, ?_⟩
      · simp only [queued, batchTxs, mem_append] at htx
        rcases htx with htx | htx
        · rcases mem_insertDesc htx with rfl | htx
          · refine ⟨_, mem_append_right _ (mem_singleton_self _), rfl, rfl, rfl, rfl, rfl, ?_⟩
            simp only
            rw [raisedSum_zero]
            · rfl
            · intro p hp he
              have := hq.raisedLt p hp
              omega
          · exact hmono tx (hq.queued tx (by simp only [queued, mem_append]; exact Or.inl htx))
        · exact hmono tx (hq.queued tx (by simp only [queued, batchTxs, mem_append]; exact Or.inr htx))
      · obtain ⟨o, ho, h⟩ := hq.refunds e he hc hh
        exact ⟨o, mem_append_left _ ho, h⟩
      · simp only [map_append, map_cons, map_nil, hq.sentIds]
        exact (range'_succ_concat _ hi.txPos).symm

theorem Q_cancel {s : State} {x : Ext} (hq : Q s x) (id : Nat) (who : Addr) :
    Q (step s (.cancel id who)).1 (x.nextStd s (.cancel id who)) := by
  have hc : cancelSenderCheck = true := by decide
  have hterms : ∀ tx : Tx, refundAmount tx = tx.amount + tx.fee := by
    intro tx; simp [refundAmount, cancelRefundTerms]
  simp only [step, Ext.nextStd]
  unfold doCancel
  split
  · exact hq
  · split
    · exact hq
    · rename_i tx hf
      split
      · exact hq
      · rename_i hs
        have hmem : tx ∈ s.pool := mem_of_find?_eq_some hf
        have hsender : tx.sender = who := by simpa [hc] using hs
        refine ⟨fun z hz => ?_, fun e he hc' hh => ?_, hq.raisedLt, hq.sentIds⟩
        · refine hq.queued z ?_
          simp only [queued, batchTxs, mem_append] at hz ⊢
          rcases hz with hz | hz
          · exact Or.inl (mem_of_mem_erase hz)
          · exact Or.inr hz
        · simp only [mem_append, mem_singleton] at he
          rcases he with he | rfl
          · exact hq.refunds e he hc' hh
          · obtain ⟨o, ho, h1, h2, _, h4, h5, h6⟩ := hq.queued tx (by simp only [queued, mem_append]; exact Or.inl hmem)
            refine ⟨o, ho, h1, by simp only; rw [h2, hsender], ?_⟩
            simp only [hterms, h4, h5, h6]
            congr 2
            omega

theorem Q_incFee {s : State} {x : Ext} (hq : Q s x) (hi : Inv s) (id : Nat) (who : Addr) (t add : Nat) (evm : Bool) :
    Q (step s (.incFee id who t add evm)).1 (x.nextStd s (.incFee id who t add evm)) := by
  simp only [step, Ext.nextStd]
  unfold doIncFee
  split
  · exact hq
  · split
    · exact hq
    · rename_i tx hf
      split
      · exact hq
      · have hmem : tx ∈ s.pool := mem_of_find?_eq_some hf
        have hid : tx.id = id := by simpa using find?_some hf
        obtain ⟨u1, u2, u3⟩ := pool_id_unique hi hmem
        simp only
        have hother : ∀ z, z.id ≠ id → IsOrig x z → IsOrig { x with raised := x.raised ++ [(id, add)] } z := by
          rintro z hz ⟨o, ho, h1, h2, h3, h4, h5, h6⟩
          refine ⟨o, ho, h1, h2, h3, h4, h5, ?_⟩
          simp only
          rw [raisedSum_append, if_neg (fun h => hz h.symm), h6]
          rfl
        refine ⟨fun z hz => ?_, fun e he hc hh => ?_, fun r hr => ?_, hq.sentIds⟩
        · simp only [queued, batchTxs, mem_append] at hz
          rcases hz with hz | hz
          · rcases mem_insertDesc hz with rfl | hz
            · obtain ⟨o, ho, h1, h2, h3, h4, h5, h6⟩ := hq.queued tx (by simp only [queued, mem_append]; exact Or.inl hmem)
              refine ⟨o, ho, h1, h2, h3, h4, h5, ?_⟩
              simp only
              rw [raisedSum_append, hid, if_pos rfl, h6, hid]
              omega
            · exact hother z (by rw [← hid]; exact u1 z hz)
                (hq.queued z (by simp only [queued, mem_append]; exact Or.inl (mem_of_mem_erase hz)))
          · exact hother z (by rw [← hid]; exact u2 z hz)
              (hq.queued z (by simp only [queued, batchTxs, mem_append]; exact Or.inr hz))
        · obtain ⟨o, ho, h1, h2, h3⟩ := hq.refunds e he hc hh
          refine ⟨o, ho, h1, h2, ?_⟩
          simp only
          rw [raisedSum_append, if_neg (by rw [← hid]; exact fun h => u3 e he hc h.symm), h3]
          rfl
        · simp only [mem_append, mem_singleton] at hr
          rcases hr with hr | rfl
          · exact hq.raisedLt r hr
          · simp only
            rw [← hid]
            exact id_lt_next hi (by simp only [queued, mem_append]; exact Or.inl hmem)

theorem observe_nextTxId (s : State) (h : Nat) (ev : Ev) : (doObserve s h ev).1.nextTxId = s.nextTxId := by
  rcases observe_fields s h ev with hsame | ⟨s2, hh, hfin⟩
  · rw [hsame]
  · rw [hfin, (cleanupCalls_next _).1]
    have : (cleanupBatches s2).nextTxId = s2.nextTxId := by simp [cleanupBatches, cancelBatches]
    rw [this]
    cases ev with
    | other => cases hh; rfl
    | result c ok => cases hh; rfl
    | batch t n =>
      simp only [handleEvent] at hh
      split at hh
      · cases hh
      · cases hh; simp [executeBatch, cancelBatches]

/-! ## every operation -/

theorem Q_step {s : State} {x : Ext} (hq : Q s x) (hi : Inv s) (op : Op) : Q (step s op).1 (x.nextStd s op) := by
  cases op with
  | send a d t am f => exact Q_send hq hi a d t am f
  | psend a d t am f => exact Q_psend hq hi a d t am f
  | cancel id who => exact Q_cancel hq id who
  | incFee id who t add evm => exact Q_incFee hq hi id who t add evm
  | reqBatch t mf bf fr =>
    refine Q_of hq rfl rfl ?_ ?_ ?_
    · simp only [step]
      rcases reqBatch_not_ok s t mf bf fr with ⟨n, hn'⟩ | hsame
      · have hpair : doReqBatch s t mf bf fr = ((doReqBatch s t mf bf fr).1, .ok n) := by rw [← hn']
        rw [(reqBatch_ok hpair).2]
        intro tx htx
        have hp := (pick_perm t bf outgoingTxBatchSize s.pool).mem_iff (a := tx)
        simp only [queued, batchTxs, mem_append, flatMap_append, flatMap_cons, flatMap_nil, append_nil] at htx hp ⊢
        rcases htx with htx | htx | htx
        · exact Or.inl (hp.mp (Or.inr htx))
        · exact Or.inr htx
        · exact Or.inl (hp.mp (Or.inl htx))
      · rw [hsame]; exact fun tx h => h
    · simp only [step]
      rcases reqBatch_not_ok s t mf bf fr with ⟨n, hn'⟩ | hsame
      · have hpair : doReqBatch s t mf bf fr = ((doReqBatch s t mf bf fr).1, .ok n) := by rw [← hn']
        rw [(reqBatch_ok hpair).2]; exact fun e h => Or.inl h
      · rw [hsame]; exact fun e h => Or.inl h
    · simp only [step]
      rcases reqBatch_not_ok s t mf bf fr with ⟨n, hn'⟩ | hsame
      · have hpair : doReqBatch s t mf bf fr = ((doReqBatch s t mf bf fr).1, .ok n) := by rw [← hn']
        rw [(reqBatch_ok hpair).2]
      · rw [hsame]
  | bridgeCall a r to d m cs =>
    simp only [step]
    rcases bridgeCall_cases s a r to d m cs with hsame | ⟨_, _, _, _, hs'⟩
    · rw [hsame]; exact Q_of hq rfl rfl (fun _ h => h) (fun _ h => Or.inl h) rfl
    · rw [hs']; exact Q_of hq rfl rfl (fun _ h => h) (fun _ h => Or.inl h) rfl
  | pcall a r to d m cs =>
    simp only [step]
    rcases pcall_cases s a r to d m cs with hsame | ⟨_, _, _, _, hs'⟩
    · rw [hsame]; exact Q_of hq rfl rfl (fun _ h => h) (fun _ h => Or.inl h) rfl
    · rw [hs']; exact Q_of hq rfl rfl (fun _ h => h) (fun _ h => Or.inl h) rfl
  | observe h ev =>
    have hx : (x.nextStd s (.observe h ev)).sent = x.sent ∧ (x.nextStd s (.observe h ev)).raised = x.raised := by
      cases ev <;> exact ⟨rfl, rfl⟩
    refine Q_of hq hx.1 hx.2 (mem_queued_observe s h ev) (observe_settled_new s h ev) ?_
    simp only [step]
    exact observe_nextTxId s h ev
  | exec n =>
    simp only [step, Ext.nextStd]
    rw [doExec_eq]
    unfold doExecStd
    repeat' split
    all_goals first
      | exact hq
      | (refine Q_of hq rfl rfl (fun _ h => h) (fun e he => ?_) rfl
         simp only [refundCall, dropFromMsg, mem_append, mem_singleton] at he
         rcases he with he | rfl
         · exact Or.inl he
         · exact Or.inr (Or.inl rfl))
  | setParams p =>
    simp only [step, Ext.nextStd]
    split
    · exact hq
    · exact Q_of hq rfl rfl (fun _ h => h) (fun _ h => Or.inl h) rfl
  | block n =>
    simp only [step, Ext.nextStd, endBlock_eq]
    exact Q_of hq rfl rfl (fun _ h => h) (fun _ h => Or.inl h) rfl

theorem QI_run {s : State} {x : Ext} (hq : Q s x) (hi : Inv s) (ops : List Op) :
    Q (runExtStd s x ops).1 (runExtStd s x ops).2 := by
  induction ops generalizing s x with
  | nil => exact hq
  | cons op ops ih => exact ih (Q_step hq hi op) (inv_step hi op)

end FxVerif.Proofs.C05

namespace FxVerif.Proofs.C05
open FxVerif.Gen.C05 FxVerif.Model.C05 List

/-! ## bridge-call entries of the settlement log -/

/-- a bridge-call entry of the log is about a stored record and, if it is a refund, pays that record's refund address
exactly that record's tokens -/
def CallEntryOf (cs : List Call) (e : Settle) : Prop :=
  ∃ c ∈ cs, e.id = c.nonce ∧ (e.how = .refunded → e.to = c.refund ∧ e.coins = c.tokens)

theorem step_settled_calls (s : State) (op : Op) :
    ∀ e ∈ (step s op).1.settled, e ∈ s.settled ∨ e.isCall = false ∨ CallEntryOf s.calls e := by
  cases op with
  | send a d t am f =>
    simp only [step]; unfold doSend
    repeat' split
    all_goals exact fun e he => Or.inl he
  | psend a d t am f =>
    simp only [step]; unfold doPSend
    repeat' split
    all_goals exact fun e he => Or.inl he
  | cancel id who =>
    simp only [step]; unfold doCancel
    repeat' split
    all_goals first
      | exact fun e he => Or.inl he
      | (intro e he
         simp only [mem_append, mem_singleton] at he
         rcases he with he | rfl
         · exact Or.inl he
         · exact Or.inr (Or.inl rfl))
  | incFee id who t add evm =>
    simp only [step]; unfold doIncFee
    repeat' split
    all_goals exact fun e he => Or.inl he
  | reqBatch t mf bf fr =>
    simp only [step]
    rcases reqBatch_not_ok s t mf bf fr with ⟨n, hn'⟩ | hsame
    · have hpair : doReqBatch s t mf bf fr = ((doReqBatch s t mf bf fr).1, .ok n) := by rw [← hn']
      rw [(reqBatch_ok hpair).2]; exact fun e he => Or.inl he
    · rw [hsame]; exact fun e he => Or.inl he
  | bridgeCall a r to d m cs =>
    simp only [step]
    rcases bridgeCall_cases s a r to d m cs with hsame | ⟨_, _, _, _, hs'⟩
    · rw [hsame]; exact fun e he => Or.inl he
    · rw [hs']; exact fun e he => Or.inl he
  | pcall a r to d m cs =>
    simp only [step]
    rcases pcall_cases s a r to d m cs with hsame | ⟨_, _, _, _, hs'⟩
    · rw [hsame]; exact fun e he => Or.inl he
    · rw [hs']; exact fun e he => Or.inl he
  | setParams p =>
    simp only [step]
    split <;> exact fun e he => Or.inl he
  | block n =>
    simp only [step, endBlock_eq]
    exact fun e he => Or.inl he
  | exec n =>
    simp only [step]; rw [doExec_eq]; unfold doExecStd
    split
    · exact fun e he => Or.inl he
    · split
      · exact fun e he => Or.inl he
      · rename_i c hf
        have hc : c ∈ s.calls := mem_of_find?_eq_some hf
        simp only
        split
        · intro e he
          simp only [dropFromMsg, mem_append, mem_singleton] at he
          rcases he with he | rfl
          · exact Or.inl he
          · exact Or.inr (Or.inr ⟨c, hc, rfl, fun h => by cases h⟩)
        · intro e he
          simp only [refundCall, dropFromMsg, mem_append, mem_singleton] at he
          rcases he with he | rfl
          · exact Or.inl he
          · exact Or.inr (Or.inr ⟨c, hc, rfl, fun _ => ⟨rfl, rfl⟩⟩)
  | observe h ev =>
    simp only [step]
    rcases observe_fields s h ev with hsame | ⟨s2, hh, hfin⟩
    · rw [hsame]; exact fun e he => Or.inl he
    · rw [hfin, cleanupCalls_settled]
      have hb : (cleanupBatches s2).settled = s2.settled := by simp [cleanupBatches, cancelBatches]
      have hcl : (cleanupBatches s2).calls = s2.calls := by simp [cleanupBatches, cancelBatches]
      obtain ⟨g1, _⟩ := handleEvent_fields hh
      rw [hb, hcl, g1]
      intro e he
      simp only [mem_append, mem_map] at he
      rcases he with he | ⟨c, hc, rfl⟩
      · cases ev with
        | other => cases hh; exact Or.inl he
        | result c ok => cases hh; exact Or.inl he
        | batch t n =>
          simp only [handleEvent] at hh
          split at hh
          · cases hh
          · cases hh
            simp only [executeBatch, cancelBatches, mem_append, mem_map] at he
            rcases he with he | ⟨tx, _, rfl⟩
            · exact Or.inl he
            · exact Or.inr (Or.inl rfl)
      · refine Or.inr (Or.inr ⟨c, ?_, rfl, fun _ => ⟨rfl, rfl⟩⟩)
        have : c ∈ expiredCalls (heightOf callCleanupSrc (cleanupBatches s2)) s.calls := hc
        unfold expiredCalls at this
        split at this
        · exact (takeWhile_sublist _).subset this
        · exact (mem_filter.mp this).1

/-- every bridge-call entry of the log is about a bridge call of the creation log -/
structure R (s : State) (x : Ext) : Prop where
  calls : ∀ e ∈ s.settled, e.isCall = true → CallEntryOf x.createdCalls e

theorem R_step {s : State} {x : Ext} (hr : R s x) (hn : N s x) (op : Op) : R (step s op).1 (x.nextStd s op) := by
  have hgrow : ∀ c ∈ x.createdCalls, c ∈ (x.nextStd s op).createdCalls := by
    intro c hc
    cases op with
    | bridgeCall a r to d m cs => simp only [Ext.nextStd]; exact mem_append_left _ hc
    | pcall a r to d m cs => simp only [Ext.nextStd]; exact mem_append_left _ hc
    | send a d t am f => rw [(next_send_fields x s a d t am f).2.2.2.1]; exact hc
    | psend a d t am f => rw [(next_psend_fields x s a d t am f).2.2.2.1]; exact hc
    | incFee id who t add evm => rw [(next_incFee_fields x s id who t add evm).2.2.2.1]; exact hc
    | observe h ev => cases ev <;> exact hc
    | reqBatch t mf bf fr => exact hc
    | cancel id who => exact hc
    | exec n => exact hc
    | setParams p => exact hc
    | block n => exact hc
  refine ⟨fun e he hc => ?_⟩
  rcases step_settled_calls s op e he with h1 | h1 | ⟨c, hcm, h2⟩
  · obtain ⟨c, hcm, h2⟩ := hr.calls e h1 hc
    exact ⟨c, hgrow c hcm, h2⟩
  · rw [hc] at h1; cases h1
  · exact ⟨c, hgrow c (hn.csub c hcm), h2⟩

theorem RN_run {s : State} {x : Ext} (hr : R s x) (hn : N s x) (ops : List Op) :
    R (runExtStd s x ops).1 (runExtStd s x ops).2 := by
  induction ops generalizing s x with
  | nil => exact hr
  | cons op ops ih => exact ih (R_step hr hn op) (N_step hn op)

theorem R_init {s : State} (h : IsInit s) : R s {} := by
  obtain ⟨_, _, _, _, _, _, _, h8, _⟩ := h
  refine ⟨?_⟩
  rw [h8]; intro e he; cases he

end FxVerif.Proofs.C05
