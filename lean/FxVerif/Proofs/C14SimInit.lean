import FxVerif.Proofs.C14Sim
import FxVerif.Proofs.C14Exec
/-!
# C14 — the state right after an accepted migration is the swapped image of the state before it

`sim_init`: under the consistency conditions `MigWF` (indexes, queue elements, unbonding ids and starting infos of the
source correspond to its records; the target is unknown to staking; no withdraw-address setting, deposit, vote or vesting
schedule mentions either address), `Sim frm to s0 s'` holds, where `s'` is the state after the migration and `s0` the
state before it with the target's prior coins handed to the source.
-/
namespace FxVerif.Proofs.C14
open FxVerif.Model.C14

/-! ### what `Execute` and `SetMigrateRecord` leave alone -/

/-- the fields no migration handler writes (bank balances are written by the bank handler only) -/
structure Frame (s s' : State) : Prop where
  now : s'.now = s.now
  unbondTime : s'.unbondTime = s.unbondTime
  depPeriod : s'.depPeriod = s.depPeriod
  votePeriod : s'.votePeriod = s.votePeriod
  minDeposit : s'.minDeposit = s.minDeposit
  maxEntries : s'.maxEntries = s.maxEntries
  vals : s'.vals = s.vals
  hasKey : s'.hasKey = s.hasKey
  bal : s'.bal = s.bal
  valTok : s'.valTok = s.valTok
  period : s'.period = s.period
  nextUnbId : s'.nextUnbId = s.nextUnbId
  blockFirstId : s'.blockFirstId = s.blockFirstId
  nextProp : s'.nextProp = s.nextProp
  wdAddr : s'.wdAddr = s.wdAddr
  props : s'.props = s.props
  deposits : s'.deposits = s.deposits
  votes : s'.votes = s.votes
  inactiveQ : s'.inactiveQ = s.inactiveQ
  activeQ : s'.activeQ = s.activeQ
  vest : s'.vest = s.vest

theorem Frame.refl (s : State) : Frame s s :=
  ⟨rfl, rfl, rfl, rfl, rfl, rfl, rfl, rfl, rfl, rfl, rfl, rfl, rfl, rfl, rfl, rfl, rfl, rfl, rfl, rfl, rfl⟩

theorem Frame.trans {a b c : State} (h1 : Frame a b) (h2 : Frame b c) : Frame a c :=
  ⟨h2.now.trans h1.now, h2.unbondTime.trans h1.unbondTime, h2.depPeriod.trans h1.depPeriod,
   h2.votePeriod.trans h1.votePeriod, h2.minDeposit.trans h1.minDeposit, h2.maxEntries.trans h1.maxEntries,
   h2.vals.trans h1.vals, h2.hasKey.trans h1.hasKey, h2.bal.trans h1.bal, h2.valTok.trans h1.valTok,
   h2.period.trans h1.period, h2.nextUnbId.trans h1.nextUnbId, h2.blockFirstId.trans h1.blockFirstId,
   h2.nextProp.trans h1.nextProp,
   h2.wdAddr.trans h1.wdAddr, h2.props.trans h1.props, h2.deposits.trans h1.deposits, h2.votes.trans h1.votes,
   h2.inactiveQ.trans h1.inactiveQ, h2.activeQ.trans h1.activeQ, h2.vest.trans h1.vest⟩

theorem frame_foldl {β : Type} (f : State → β → State) (hf : ∀ s x, Frame s (f s x)) (L : List β) (s : State) :
    Frame s (L.foldl f s) := by
  induction L generalizing s with
  | nil => exact Frame.refl s
  | cons x L ih => exact (hf s x).trans (ih _)

theorem moveDelegation_frame (c : Cfg) (frm to : Addr) (s : State) (p) : Frame s (moveDelegation c frm to s p) :=
  ⟨rfl, rfl, rfl, rfl, rfl, rfl, rfl, rfl, rfl, rfl, rfl, rfl, rfl, rfl, rfl, rfl, rfl, rfl, rfl, rfl, rfl⟩

theorem moveUbd_frame (c : Cfg) (frm to : Addr) (s : State) (p) : Frame s (moveUbd c frm to s p) := by
  unfold moveUbd
  refine Frame.trans (b := { s with ubds := _, ubdIdx := _ }) ?_
    (Frame.trans (frame_foldl _ (fun s e => ?_) _ _) (frame_foldl _ (fun s e => ?_) _ _))
  all_goals exact ⟨rfl, rfl, rfl, rfl, rfl, rfl, rfl, rfl, rfl, rfl, rfl, rfl, rfl, rfl, rfl, rfl, rfl, rfl, rfl, rfl, rfl⟩

theorem moveRed_frame (c : Cfg) (frm to : Addr) (s : State) (p) : Frame s (moveRed c frm to s p) := by
  unfold moveRed
  refine Frame.trans (b := { s with reds := _, redSrcIdx := _, redDstIdx := _ }) ?_
    (Frame.trans (frame_foldl _ (fun s e => ?_) _ _) (frame_foldl _ (fun s e => ?_) _ _))
  all_goals exact ⟨rfl, rfl, rfl, rfl, rfl, rfl, rfl, rfl, rfl, rfl, rfl, rfl, rfl, rfl, rfl, rfl, rfl, rfl, rfl, rfl, rfl⟩

theorem stakingExecute_frame (c : Cfg) (s : State) (frm to : Addr) : Frame s (stakingExecute c s frm to) := by
  unfold stakingExecute
  exact ((frame_foldl _ (moveDelegation_frame c frm to) _ _).trans (frame_foldl _ (moveUbd_frame c frm to) _ _)).trans
    (frame_foldl _ (moveRed_frame c frm to) _ _)

/-! ### the two (validator, delegator) indexes, for any configuration that rewrites them -/

theorem exec_delIdxG (c : Cfg) (hc : c.rewriteDelIdx = true) (s : State) (frm to : Addr) :
    (stakingExecute c s frm to).delIdx = (entriesOf s.dels frm).foldl (idxStepG Prod.mk frm to) s.delIdx := by
  rw [stakingExecute_eq]
  refine (foldl_keep (fun s : State => s.delIdx) _ (fun s p => by
    unfold moveRed; exact (foldl_keep (fun s : State => s.delIdx) _ (by intros; rfl) _ _).trans (foldl_keep (fun s : State => s.delIdx) _ (by intros; rfl) _ _)) _ _).trans ?_
  unfold exec2
  refine (foldl_keep (fun s : State => s.delIdx) _ (moveUbd_keep _ c frm to (fun _ _ _ _ _ => rfl)) _ _).trans ?_
  exact foldl_proj (fun s : State => s.delIdx) (moveDelegation c frm to) (idxStepG Prod.mk frm to)
    (fun s p => by simp only [moveDelegation, hc]; rfl) _ _

theorem exec_ubdIdxG (c : Cfg) (s : State) (frm to : Addr) :
    (stakingExecute c s frm to).ubdIdx = (entriesOf s.ubds frm).foldl (idxStepG Prod.mk frm to) s.ubdIdx := by
  rw [stakingExecute_eq]
  refine (foldl_keep (fun s : State => s.ubdIdx) _ (fun s p => by
    unfold moveRed; exact (foldl_keep (fun s : State => s.ubdIdx) _ (by intros; rfl) _ _).trans (foldl_keep (fun s : State => s.ubdIdx) _ (by intros; rfl) _ _)) _ _).trans ?_
  unfold exec2
  refine (foldl_proj (fun s : State => s.ubdIdx) (moveUbd c frm to) (idxStepG Prod.mk frm to) (fun s p => by
    unfold moveUbd; exact (foldl_keep (fun s : State => s.ubdIdx) _ (by intros; rfl) _ _).trans (foldl_keep (fun s : State => s.ubdIdx) _ (by intros; rfl) _ _)) _ _).trans ?_
  have h1 : (exec1 c s frm to).ubds = s.ubds := exec1_keep (fun s => s.ubds) c s frm to (fun _ _ => rfl)
  have h2 : (exec1 c s frm to).ubdIdx = s.ubdIdx := exec1_keep (fun s => s.ubdIdx) c s frm to (fun _ _ => rfl)
  rw [h1, h2]; rfl

theorem exec_delsG (c : Cfg) (s : State) (frm to : Addr) :
    (stakingExecute c s frm to).dels = (entriesOf s.dels frm).foldl (rekeyStep frm to) s.dels := by
  rw [stakingExecute_eq]
  refine (foldl_keep (fun s : State => s.dels) _ (fun s p => by
    unfold moveRed; exact (foldl_keep (fun s : State => s.dels) _ (by intros; rfl) _ _).trans (foldl_keep (fun s : State => s.dels) _ (by intros; rfl) _ _)) _ _).trans ?_
  unfold exec2
  refine (foldl_keep (fun s : State => s.dels) _ (moveUbd_keep _ c frm to (fun _ _ _ _ _ => rfl)) _ _).trans ?_
  exact foldl_proj (fun s : State => s.dels) (moveDelegation c frm to) (rekeyStep frm to) (fun _ _ => rfl) _ _

theorem exec_ubdsG (c : Cfg) (s : State) (frm to : Addr) :
    (stakingExecute c s frm to).ubds = (entriesOf s.ubds frm).foldl (rekeyStep frm to) s.ubds := by
  rw [stakingExecute_eq]
  refine (foldl_keep (fun s : State => s.ubds) _ (fun s p => by
    unfold moveRed; exact (foldl_keep (fun s : State => s.ubds) _ (by intros; rfl) _ _).trans (foldl_keep (fun s : State => s.ubds) _ (by intros; rfl) _ _)) _ _).trans ?_
  unfold exec2
  refine (foldl_proj (fun s : State => s.ubds) (moveUbd c frm to) (rekeyStep frm to) (fun s p => by
    unfold moveUbd; exact (foldl_keep (fun s : State => s.ubds) _ (by intros; rfl) _ _).trans (foldl_keep (fun s : State => s.ubds) _ (by intros; rfl) _ _)) _ _).trans ?_
  have h1 : (exec1 c s frm to).ubds = s.ubds := exec1_keep (fun s => s.ubds) c s frm to (fun _ _ => rfl)
  rw [h1]; rfl

theorem setRecord_vest (c : Cfg) (s : State) (frm to : Addr) : (setRecord c s frm to).vest = s.vest := rfl
theorem bankExecute_vest (c : Cfg) (s : State) (frm to : Addr) : (bankExecute c s frm to).vest = s.vest := rfl

theorem mk_inj {β : Type} (x : β) (a : Addr) (y : β) (b : Addr) (h : (x, a) = (y, b)) : x = y ∧ a = b := by
  cases h; exact ⟨rfl, rfl⟩

/-! ### the unbonding-id index: a fold of writes -/
section putFold
variable {κ ν : Type} [BEq κ] [LawfulBEq κ]

theorem get_putFold_not_mem (W : List (κ × ν)) (u : Store κ ν) (k : κ) (h : ∀ w ∈ W, w.1 ≠ k) :
    get (W.foldl (fun u w => put u w.1 w.2) u) k = get u k := by
  induction W generalizing u with
  | nil => rfl
  | cons w W ih =>
    simp only [List.foldl_cons]
    rw [ih _ (fun w' hw' => h w' (List.mem_cons_of_mem _ hw'))]
    exact get_put_ne _ _ _ _ (fun e => h w (List.mem_cons_self ..) e.symm)

theorem get_putFold_mem (W : List (κ × ν)) (u : Store κ ν) (w : κ × ν) (hw : w ∈ W)
    (hcons : ∀ w' ∈ W, w'.1 = w.1 → w'.2 = w.2) : get (W.foldl (fun u w => put u w.1 w.2) u) w.1 = some w.2 := by
  induction W generalizing u w with
  | nil => cases hw
  | cons x W ih =>
    simp only [List.foldl_cons]
    by_cases hW : w ∈ W
    · exact ih _ w hW (fun w' hw' => hcons w' (List.mem_cons_of_mem _ hw'))
    · have hx : x = w := by
        rcases List.mem_cons.mp hw with e | e
        · exact e.symm
        · exact absurd e hW
      subst hx
      by_cases hex : ∃ w' ∈ W, w'.1 = x.1
      · obtain ⟨w', hw', e⟩ := hex
        have hv := hcons w' (List.mem_cons_of_mem _ hw') e
        have := ih (put u x.1 x.2) w' hw' (fun w'' hw'' e'' =>
          (hcons w'' (List.mem_cons_of_mem _ hw'') (e''.trans e)).trans hv.symm)
        rw [e, hv] at this
        exact this
      · rw [get_putFold_not_mem W _ x.1 (fun w' hw' e => hex ⟨w', hw', e⟩), get_put_eq]

end putFold

/-- the writes to the unbonding-id index for the unbonding delegations / the redelegations of the source -/
def idWritesU (to : Addr) (L : List ((Addr × Val) × List (Time × Nat × Nat))) : List (Nat × (Addr × Val × Option Val)) :=
  L.flatMap (fun p => p.2.map (fun e => (e.2.2, (to, p.1.2, none))))
def idWritesR (to : Addr) (L : List ((Addr × Val × Val) × List (Time × Nat × Nat))) :
    List (Nat × (Addr × Val × Option Val)) :=
  L.flatMap (fun p => p.2.map (fun e => (e.2.2, (to, p.1.2.1, some p.1.2.2))))

theorem moveUbd_unbId (c : Cfg) (hc : c.rewriteUnbId = true) (frm to : Addr) (s : State) (p) :
    (moveUbd c frm to s p).unbId =
      (p.2.map (fun e => (e.2.2, ((to, p.1.2, none) : Addr × Val × Option Val)))).foldl (fun u w => put u w.1 w.2) s.unbId := by
  unfold moveUbd
  refine (foldl_keep (fun s : State => s.unbId) _ (by intros; rfl) _ _).trans ?_
  rw [List.foldl_map]
  exact foldl_proj (fun s : State => s.unbId) _
    (fun u (e : Time × Nat × Nat) => put u e.2.2 ((to, p.1.2, none) : Addr × Val × Option Val))
    (fun s e => by simp only [hc]; rfl) _ _

theorem moveRed_unbId (c : Cfg) (hc : c.rewriteUnbId = true) (frm to : Addr) (s : State) (p) :
    (moveRed c frm to s p).unbId =
      (p.2.map (fun e => (e.2.2, ((to, p.1.2.1, some p.1.2.2) : Addr × Val × Option Val)))).foldl
        (fun u w => put u w.1 w.2) s.unbId := by
  unfold moveRed
  refine (foldl_keep (fun s : State => s.unbId) _ (by intros; rfl) _ _).trans ?_
  rw [List.foldl_map]
  exact foldl_proj (fun s : State => s.unbId) _
    (fun u (e : Time × Nat × Nat) => put u e.2.2 ((to, p.1.2.1, some p.1.2.2) : Addr × Val × Option Val))
    (fun s e => by simp only [hc]; rfl) _ _

theorem exec_unbId (c : Cfg) (hc : c.rewriteUnbId = true) (s : State) (frm to : Addr) :
    (stakingExecute c s frm to).unbId =
      (idWritesU to (entriesOf s.ubds frm) ++ idWritesR to (entriesOf s.reds frm)).foldl (fun u w => put u w.1 w.2) s.unbId := by
  rw [stakingExecute_eq, List.foldl_append]
  refine (foldl_proj (fun s : State => s.unbId) (moveRed c frm to)
    (fun u p => (p.2.map (fun e => (e.2.2, ((to, p.1.2.1, some p.1.2.2) : Addr × Val × Option Val)))).foldl
      (fun u w => put u w.1 w.2) u) (moveRed_unbId c hc frm to) _ _).trans ?_
  rw [foldl_flatMap (fun u (w : Nat × (Addr × Val × Option Val)) => put u w.1 w.2)
    (fun p : (Addr × Val × Val) × List (Time × Nat × Nat) =>
      p.2.map (fun e => (e.2.2, ((to, p.1.2.1, some p.1.2.2) : Addr × Val × Option Val))))]
  rw [exec2_reds]
  unfold exec2
  have := foldl_proj (fun s : State => s.unbId) (moveUbd c frm to)
    (fun u p => (p.2.map (fun e => (e.2.2, ((to, p.1.2, none) : Addr × Val × Option Val)))).foldl
      (fun u w => put u w.1 w.2) u) (moveUbd_unbId c hc frm to) (exec1 c s frm to)
      ((visible (exec1 c s frm to).ubds).filter (fun p => p.1.1 == frm))
  rw [this]
  rw [foldl_flatMap (fun u (w : Nat × (Addr × Val × Option Val)) => put u w.1 w.2)
    (fun p : (Addr × Val) × List (Time × Nat × Nat) =>
      p.2.map (fun e => (e.2.2, ((to, p.1.2, none) : Addr × Val × Option Val))))]
  have h1 : (exec1 c s frm to).ubds = s.ubds := exec1_keep (fun s => s.ubds) c s frm to (fun _ _ => rfl)
  have h2 : (exec1 c s frm to).unbId = s.unbId := exec1_keep (fun s => s.unbId) c s frm to (fun _ _ => rfl)
  rw [h1, h2]
  rfl

/-! ### from the fold characterisations to the relations of `Sim` -/
section init
variable {frm to : Addr}

theorem rekey_ExtRel {β ν : Type} [BEq β] [LawfulBEq β] (hne : frm ≠ to) (m m' : Store (Addr × β) ν)
    (hto : ∀ p ∈ m, p.1.1 ≠ to)
    (hspec : ∀ d x, get m' (d, x) = if d = to then get m (frm, x) else if d = frm then none else get m (d, x)) :
    ExtRel (swP frm to) id m m' := by
  intro k
  obtain ⟨a, x⟩ := k
  simp only [swP, Option.map_id, id]
  rw [hspec]
  have hnone : get m (to, x) = none := get_none_of_no_key m _ (fun p hp e => hto p hp (by rw [e]))
  by_cases h1 : a = frm
  · subst h1; rw [sw_frm]; simp
  · by_cases h2 : a = to
    · subst h2; rw [sw_to]; simp [hne, hnone]
    · rw [sw_fix frm to a h1 h2]; simp [h1, h2]

theorem entries_iff {β ν : Type} [BEq β] [LawfulBEq β] [BEq ν] [LawfulBEq ν] (m : Store (Addr × β) ν) (a : Addr) (x : β) :
    (∃ p ∈ entriesOf m a, p.1.2 = x) ↔ ∃ y, get m (a, x) = some y := by
  constructor
  · rintro ⟨p, hp, e⟩
    cases hg : get m (a, x) with
    | none => exact absurd e (entriesOf_none m a x hg p hp)
    | some y => exact ⟨y, rfl⟩
  · rintro ⟨y, hy⟩; exact entriesOf_of_get m a x y hy

theorem idx_MemRel {β ν κ : Type} [DecidableEq β] [BEq β] [LawfulBEq β] [BEq ν] [LawfulBEq ν] [BEq κ] [LawfulBEq κ]
    (hne : frm ≠ to) (mk : β → Addr → κ) (hinj : ∀ x a y b, mk x a = mk y b → x = y ∧ a = b) (kf : κ → κ)
    (hsurj : ∀ k, ∃ x a, k = mk x a) (hswap : ∀ x a, kf (mk x a) = mk x (sw frm to a))
    (m : Store (Addr × β) ν) (i : List κ)
    (hiff : ∀ x, mk x frm ∈ i ↔ ∃ y, get m (frm, x) = some y) (hto : ∀ x, mk x to ∉ i) :
    MemRel kf i ((entriesOf m frm).foldl (idxStepG mk frm to) i) := by
  intro k
  obtain ⟨x, a, rfl⟩ := hsurj k
  rw [hswap, idxG_fold_mem mk hinj frm to]
  by_cases hrec : ∃ p ∈ entriesOf m frm, p.1.2 = x
  · rw [if_pos hrec]
    have hin : mk x frm ∈ i := (hiff x).mpr ((entries_iff m frm x).mp hrec)
    by_cases h1 : a = frm
    · subst h1; rw [sw_frm]; simp [hin]
    · by_cases h2 : a = to
      · subst h2; rw [sw_to]; simp [hne, hto x]
      · rw [sw_fix frm to a h1 h2]; simp [h1, h2]
  · rw [if_neg hrec]
    have hnin : mk x frm ∉ i := fun e => hrec ((entries_iff m frm x).mpr ((hiff x).mp e))
    by_cases h1 : a = frm
    · subst h1; rw [sw_frm]; simp [hnin, hto x]
    · by_cases h2 : a = to
      · subst h2; rw [sw_to]; simp [hnin, hto x]
      · rw [sw_fix frm to a h1 h2]

theorem queue_exact {β γ : Type} [BEq β] [LawfulBEq β] (hne : frm ≠ to) (m : Store (Addr × β) (List (Time × Nat × Nat)))
    (q : Queue γ) (hnd : (q.map (·.1)).Nodup)
    (hof : ∀ p ∈ q, ∀ x ∈ p.2, x.1 = frm → hasEntryAt m frm p.1) (hto : ∀ p ∈ q, ∀ x ∈ p.2, x.1 ≠ to) :
    (entryTimes m frm).foldl (qStep frm to) q = mapKV id (List.map (swP frm to)) q := by
  rw [qFold_exact frm to hne _ q hnd]
  unfold mapKV
  apply List.map_congr_left
  intro p hp
  have hsw : ∀ x ∈ p.2, renG frm to x = swP frm to x := by
    intro x hx
    unfold renG swP
    by_cases h1 : x.1 = frm
    · simp [h1, sw_frm]
    · have h2 := hto p hp x hx
      have : (x.1 == frm) = false := by
        cases hh : x.1 == frm
        · rfl
        · exact absurd (eq_of_beq hh) h1
      simp [this, sw_fix frm to x.1 h1 h2]
  by_cases ht : p.1 ∈ entryTimes m frm
  · rw [if_pos ht]
    simp only [id]
    congr 1
    exact List.map_congr_left hsw
  · rw [if_neg ht]
    have hclean : ∀ x ∈ p.2, swP frm to x = x := by
      intro x hx
      have h1 : x.1 ≠ frm := fun e => ht ((mem_entryTimes m frm p.1).mpr (hof p hp x hx e))
      have h2 := hto p hp x hx
      simp [swP, sw_fix frm to x.1 h1 h2]
    have : p.2.map (swP frm to) = p.2 := by
      calc p.2.map (swP frm to) = p.2.map id := List.map_congr_left hclean
        _ = p.2 := List.map_id _
    simp only [id, this]

end init

/-- consistency of a state with respect to a (source, target) pair: what the staking, distribution and gov keepers
maintain for the records of the source (an index entry, a queue element, an unbonding id, a starting info exists exactly
with its record), that the target is unknown to staking, and that no withdraw-address setting, deposit, vote or vesting
schedule mentions either address -/
structure MigWF (s : State) (frm to : Addr) : Prop where
  modFix : ModFix frm to
  delIdx_iff : ∀ v, (v, frm) ∈ s.delIdx ↔ ∃ sh, get s.dels (frm, v) = some sh
  delIdx_to : ∀ v, (v, to) ∉ s.delIdx
  si_of : ∀ v, get s.dels (frm, v) = none → get s.startInfo (v, frm) = none
  si_to : ∀ v, get s.startInfo (v, to) = none
  ubdIdx_iff : ∀ v, (v, frm) ∈ s.ubdIdx ↔ ∃ es, get s.ubds (frm, v) = some es
  ubdIdx_to : ∀ v, (v, to) ∉ s.ubdIdx
  redSrc_iff : ∀ x : Val × Val, (x.1, frm, x.2) ∈ s.redSrcIdx ↔ ∃ es, get s.reds (frm, x) = some es
  redSrc_to : ∀ x : Val × Val, (x.1, to, x.2) ∉ s.redSrcIdx
  redDst_iff : ∀ x : Val × Val, (x.2, frm, x.1) ∈ s.redDstIdx ↔ ∃ es, get s.reds (frm, x) = some es
  redDst_to : ∀ x : Val × Val, (x.2, to, x.1) ∉ s.redDstIdx
  ubdQ_nodup : (s.ubdQ.map (·.1)).Nodup
  ubdQ_of : ∀ p ∈ s.ubdQ, ∀ x ∈ p.2, x.1 = frm → hasEntryAt s.ubds frm p.1
  ubdQ_to : ∀ p ∈ s.ubdQ, ∀ x ∈ p.2, x.1 ≠ to
  redQ_nodup : (s.redQ.map (·.1)).Nodup
  redQ_of : ∀ p ∈ s.redQ, ∀ x ∈ p.2, x.1 = frm → hasEntryAt s.reds frm p.1
  redQ_to : ∀ p ∈ s.redQ, ∀ x ∈ p.2, x.1 ≠ to
  id_ubd : ∀ v es e, get s.ubds (frm, v) = some es → e ∈ es → get s.unbId e.2.2 = some (frm, v, none)
  id_red : ∀ a b es e, get s.reds (frm, a, b) = some es → e ∈ es → get s.unbId e.2.2 = some (frm, a, some b)
  id_of : ∀ id r, get s.unbId id = some r → r.1 = frm →
    (∃ v es e, get s.ubds (frm, v) = some es ∧ e ∈ es ∧ e.2.2 = id) ∨
    (∃ a b es e, get s.reds (frm, a, b) = some es ∧ e ∈ es ∧ e.2.2 = id)
  id_to : ∀ id r, get s.unbId id = some r → r.1 ≠ to
  wd_frm : get s.wdAddr frm = none
  wd_to : get s.wdAddr to = none
  wd_val : ∀ a w, get s.wdAddr a = some w → w ≠ frm ∧ w ≠ to
  dep : ∀ p ∈ s.deposits, p.1.2 ≠ frm ∧ p.1.2 ≠ to
  vote : ∀ p ∈ s.votes, p.2 ≠ frm ∧ p.2 ≠ to
  vest_frm : get s.vest frm = none
  vest_to : get s.vest to = none

section init2
variable {frm to : Addr}

/-- consistency of the unbonding-id index with the entries of the source's records, and no id pointing at the target -/
structure IdWF (s : State) (frm to : Addr) : Prop where
  id_ubd : ∀ v es e, get s.ubds (frm, v) = some es → e ∈ es → get s.unbId e.2.2 = some (frm, v, none)
  id_red : ∀ a b es e, get s.reds (frm, a, b) = some es → e ∈ es → get s.unbId e.2.2 = some (frm, a, some b)
  id_of : ∀ id r, get s.unbId id = some r → r.1 = frm →
    (∃ v es e, get s.ubds (frm, v) = some es ∧ e ∈ es ∧ e.2.2 = id) ∨
    (∃ a b es e, get s.reds (frm, a, b) = some es ∧ e ∈ es ∧ e.2.2 = id)
  id_to : ∀ id r, get s.unbId id = some r → r.1 ≠ to

theorem MigWF.idWF {s : State} (wf : MigWF s frm to) : IdWF s frm to := ⟨wf.id_ubd, wf.id_red, wf.id_of, wf.id_to⟩

theorem unbId_ExtRel (c : Cfg) (hc : c.rewriteUnbId = true) (s : State) (wf : IdWF s frm to) :
    ExtRel id (swP frm to) s.unbId (stakingExecute c s frm to).unbId := by
  intro id
  simp only [_root_.id]
  rw [exec_unbId c hc]
  -- every write names the target's key of the record the id belongs to
  have hw : ∀ w ∈ idWritesU to (entriesOf s.ubds frm) ++ idWritesR to (entriesOf s.reds frm),
      ∃ r, get s.unbId w.1 = some r ∧ r.1 = frm ∧ w.2 = (to, r.2) := by
    intro w hw
    rcases List.mem_append.mp hw with h | h
    · simp only [idWritesU, List.mem_flatMap, List.mem_map] at h
      obtain ⟨p, hp, e, he, rfl⟩ := h
      obtain ⟨_, hg, ha⟩ := (entriesOf_spec s.ubds frm p).mp hp
      obtain ⟨⟨pa, pv⟩, es⟩ := p
      simp only at ha hg he ⊢
      subst ha
      exact ⟨_, wf.id_ubd pv es e hg he, rfl, rfl⟩
    · simp only [idWritesR, List.mem_flatMap, List.mem_map] at h
      obtain ⟨p, hp, e, he, rfl⟩ := h
      obtain ⟨_, hg, ha⟩ := (entriesOf_spec s.reds frm p).mp hp
      obtain ⟨⟨pa, px, py⟩, es⟩ := p
      simp only at ha hg he ⊢
      subst ha
      exact ⟨_, wf.id_red px py es e hg he, rfl, rfl⟩
  by_cases hex : ∃ w ∈ idWritesU to (entriesOf s.ubds frm) ++ idWritesR to (entriesOf s.reds frm), w.1 = id
  · obtain ⟨w, hwm, rfl⟩ := hex
    obtain ⟨r, hr, hr1, hr2⟩ := hw w hwm
    rw [get_putFold_mem _ _ w hwm (fun w' hw' e => by
      obtain ⟨r', hr', _, hr2'⟩ := hw w' hw'
      rw [e, hr] at hr'
      cases hr'
      rw [hr2, hr2'])]
    rw [hr, hr2]
    simp only [Option.map_some, swP, hr1, sw_frm]
  · rw [get_putFold_not_mem _ _ id (fun w hw e => hex ⟨w, hw, e⟩)]
    cases hg : get s.unbId id with
    | none => rfl
    | some r =>
      have h2 : r.1 ≠ to := wf.id_to id r hg
      have h1 : r.1 ≠ frm := by
        intro e
        apply hex
        rcases wf.id_of id r hg e with ⟨v, es, en, hes, hen, rfl⟩ | ⟨a, b, es, en, hes, hen, rfl⟩
        · refine ⟨(en.2.2, (to, v, none)), List.mem_append.mpr (Or.inl ?_), rfl⟩
          simp only [idWritesU, List.mem_flatMap, List.mem_map]
          exact ⟨((frm, v), es), (entriesOf_spec s.ubds frm _).mpr ⟨get_some_mem _ _ _ hes, hes, rfl⟩, en, hen, rfl⟩
        · refine ⟨(en.2.2, (to, a, some b)), List.mem_append.mpr (Or.inr ?_), rfl⟩
          simp only [idWritesR, List.mem_flatMap, List.mem_map]
          exact ⟨((frm, a, b), es), (entriesOf_spec s.reds frm _).mpr ⟨get_some_mem _ _ _ hes, hes, rfl⟩, en, hen, rfl⟩
      simp only [Option.map_some, swP, sw_fix frm to r.1 h1 h2]

theorem startInfo_ExtRel (c : Cfg) (hne : frm ≠ to) (s : State) (wf : MigWF s frm to) :
    ExtRel (swS frm to) id s.startInfo (stakingExecute c s frm to).startInfo := by
  intro k
  obtain ⟨v, a⟩ := k
  simp only [swS, Option.map_id, id]
  rw [exec_startInfo, get_siFold frm to hne]
  by_cases hrec : ∃ p ∈ entriesOf s.dels frm, p.1.2 = v
  · rw [if_pos hrec]
    by_cases h1 : a = frm
    · subst h1; rw [sw_frm]; simp [hne.symm, wf.si_to v]
    · by_cases h2 : a = to
      · subst h2; rw [sw_to]; simp [wf.si_to v]
      · rw [sw_fix frm to a h1 h2]; simp [h1, h2]
  · rw [if_neg hrec]
    have hnone : get s.dels (frm, v) = none := by
      cases hg : get s.dels (frm, v) with
      | none => rfl
      | some y => exact absurd (entriesOf_of_get s.dels frm v y hg) hrec
    by_cases h1 : a = frm
    · subst h1; rw [sw_frm, wf.si_to v, wf.si_of v hnone]
    · by_cases h2 : a = to
      · subst h2; rw [sw_to, wf.si_to v, wf.si_of v hnone]
      · rw [sw_fix frm to a h1 h2]

theorem map_swS_id {β : Type} (l : List (β × Addr)) (h : ∀ p ∈ l, p.2 ≠ frm ∧ p.2 ≠ to) : l.map (swS frm to) = l := by
  calc l.map (swS frm to) = l.map id := List.map_congr_left (fun p hp => by
        simp [swS, sw_fix frm to p.2 (h p hp).1 (h p hp).2])
    _ = l := List.map_id l

set_option maxHeartbeats 1000000 in
/-- **the state after an accepted migration is the swapped image of the state before it** (with the target's prior
coins handed to the source) -/
theorem sim_init (c : Cfg) (hc1 : c.rewriteDelIdx = true) (hc2 : c.rewriteUnbId = true) (hb : c.bankAll = true)
    (hq1 : c.qEveryEntry = true) (hq2 : c.qByDelegator = true) (s : State) (hne : frm ≠ to)
    (hto : (∀ p ∈ s.dels, p.1.1 ≠ to) ∧ (∀ p ∈ s.ubds, p.1.1 ≠ to) ∧ (∀ p ∈ s.reds, p.1.1 ≠ to))
    (wf : MigWF s frm to) :
    Sim frm to (bankExecute c s to frm) (setRecord c (stakingExecute c (bankExecute c s frm to) frm to) frm to) := by
  have fr := stakingExecute_frame c (bankExecute c s frm to) frm to
  have wfB : MigWF (bankExecute c s frm to) frm to := ⟨wf.modFix, wf.delIdx_iff, wf.delIdx_to, wf.si_of, wf.si_to,
    wf.ubdIdx_iff, wf.ubdIdx_to, wf.redSrc_iff, wf.redSrc_to, wf.redDst_iff, wf.redDst_to, wf.ubdQ_nodup, wf.ubdQ_of,
    wf.ubdQ_to, wf.redQ_nodup, wf.redQ_of, wf.redQ_to, wf.id_ubd, wf.id_red, wf.id_of, wf.id_to, wf.wd_frm, wf.wd_to,
    wf.wd_val, wf.dep, wf.vote, wf.vest_frm, wf.vest_to⟩
  refine ⟨fr.now, fr.unbondTime, fr.depPeriod, fr.votePeriod, fr.minDeposit, fr.maxEntries, fr.vals, fr.valTok,
    fr.period, fr.nextUnbId, fr.blockFirstId, fr.nextProp, ?bal, ?dels, ?delIdx, ?si, ?ubds, ?ubdIdx, ?ubdQ, ?reds, ?rs, ?rd, ?redQ, ?unbId,
    ?wd, ?props, ?dep, ?votes, fr.inactiveQ, fr.activeQ, ?vest⟩
  case bal =>
    intro a d
    show balOf (stakingExecute c (bankExecute c s frm to) frm to).bal (sw frm to a) d = _
    rw [fr.bal, bankExecute_spec c hb s frm to hne, bankExecute_spec c hb s to frm hne.symm]
    by_cases h1 : a = frm
    · subst h1; rw [sw_frm]; simp [Nat.add_comm]
    · by_cases h2 : a = to
      · subst h2; rw [sw_to]; simp [h1, hne]
      · rw [sw_fix frm to a h1 h2]; simp [h1, h2]
  case dels =>
    show ExtRel _ _ s.dels (stakingExecute c (bankExecute c s frm to) frm to).dels
    rw [exec_delsG]
    exact rekey_ExtRel hne s.dels _ hto.1 (rekey_spec s.dels frm to hne hto.1)
  case ubds =>
    show ExtRel _ _ s.ubds (stakingExecute c (bankExecute c s frm to) frm to).ubds
    rw [exec_ubdsG]
    exact rekey_ExtRel hne s.ubds _ hto.2.1 (rekey_spec s.ubds frm to hne hto.2.1)
  case reds =>
    show ExtRel _ _ s.reds (stakingExecute c (bankExecute c s frm to) frm to).reds
    rw [exec_reds]
    exact rekey_ExtRel hne s.reds _ hto.2.2 (rekey_spec s.reds frm to hne hto.2.2)
  case delIdx =>
    show MemRel _ s.delIdx (stakingExecute c (bankExecute c s frm to) frm to).delIdx
    rw [exec_delIdxG c hc1]
    exact idx_MemRel hne Prod.mk mk_inj (swS frm to) (fun k => ⟨k.1, k.2, rfl⟩) (fun _ _ => rfl) s.dels s.delIdx
      wf.delIdx_iff wf.delIdx_to
  case ubdIdx =>
    show MemRel _ s.ubdIdx (stakingExecute c (bankExecute c s frm to) frm to).ubdIdx
    rw [exec_ubdIdxG c]
    exact idx_MemRel hne Prod.mk mk_inj (swS frm to) (fun k => ⟨k.1, k.2, rfl⟩) (fun _ _ => rfl) s.ubds s.ubdIdx
      wf.ubdIdx_iff wf.ubdIdx_to
  case rs =>
    show MemRel _ s.redSrcIdx (stakingExecute c (bankExecute c s frm to) frm to).redSrcIdx
    rw [exec_redSrcIdx]
    exact idx_MemRel hne mkSrc mkSrc_inj (swM frm to) (fun k => ⟨(k.1, k.2.2), k.2.1, rfl⟩) (fun _ _ => rfl) s.reds
      s.redSrcIdx wf.redSrc_iff wf.redSrc_to
  case rd =>
    show MemRel _ s.redDstIdx (stakingExecute c (bankExecute c s frm to) frm to).redDstIdx
    rw [exec_redDstIdx]
    exact idx_MemRel hne mkDst mkDst_inj (swM frm to) (fun k => ⟨(k.2.2, k.1), k.2.1, rfl⟩) (fun _ _ => rfl) s.reds
      s.redDstIdx wf.redDst_iff wf.redDst_to
  case si => exact startInfo_ExtRel c hne (bankExecute c s frm to) wfB
  case ubdQ =>
    show (stakingExecute c (bankExecute c s frm to) frm to).ubdQ = _
    rw [exec_ubdQ c hq1 hq2]
    exact queue_exact hne s.ubds s.ubdQ wf.ubdQ_nodup wf.ubdQ_of wf.ubdQ_to
  case redQ =>
    show (stakingExecute c (bankExecute c s frm to) frm to).redQ = _
    rw [exec_redQ c hq1 hq2]
    exact queue_exact hne s.reds s.redQ wf.redQ_nodup wf.redQ_of wf.redQ_to
  case unbId => exact unbId_ExtRel c hc2 (bankExecute c s frm to) wfB.idWF
  case wd =>
    intro a
    show get (stakingExecute c (bankExecute c s frm to) frm to).wdAddr (sw frm to a) = _
    rw [fr.wdAddr]
    show get s.wdAddr (sw frm to a) = (get s.wdAddr a).map (sw frm to)
    by_cases h1 : a = frm
    · subst h1; rw [sw_frm, wf.wd_to, wf.wd_frm]; rfl
    · by_cases h2 : a = to
      · subst h2; rw [sw_to, wf.wd_to, wf.wd_frm]; rfl
      · rw [sw_fix frm to a h1 h2]
        cases hg : get s.wdAddr a with
        | none => rfl
        | some w => simp [sw_fix frm to w (wf.wd_val a w hg).1 (wf.wd_val a w hg).2]
  case props =>
    intro id
    show (get (stakingExecute c (bankExecute c s frm to) frm to).props id).map pcore = _
    rw [fr.props]; rfl
  case dep =>
    show (stakingExecute c (bankExecute c s frm to) frm to).deposits = mapKV (swS frm to) id s.deposits
    rw [fr.deposits]
    show s.deposits = s.deposits.map _
    symm
    calc s.deposits.map (fun p => (swS frm to p.1, id p.2)) = s.deposits.map id := List.map_congr_left (fun p hp => by
          have := wf.dep p hp
          simp [swS, sw_fix frm to p.1.2 this.1 this.2])
      _ = s.deposits := List.map_id _
  case votes =>
    show (stakingExecute c (bankExecute c s frm to) frm to).votes = s.votes.map (swS frm to)
    rw [fr.votes]
    exact (map_swS_id s.votes wf.vote).symm
  case vest =>
    intro a
    have e1 : (setRecord c (stakingExecute c (bankExecute c s frm to) frm to) frm to).vest = s.vest :=
      (setRecord_vest c _ frm to).trans (fr.vest.trans (bankExecute_vest c s frm to))
    rw [e1, bankExecute_vest c s to frm]
    by_cases h1 : a = frm
    · subst h1; rw [sw_frm, wf.vest_to, wf.vest_frm]; rfl
    · by_cases h2 : a = to
      · subst h2; rw [sw_to, wf.vest_to, wf.vest_frm]; rfl
      · rw [sw_fix frm to a h1 h2]; simp

end init2

end FxVerif.Proofs.C14
