import FxVerif.Proofs.C08Ext
/-! helper lemmas for C08: the denominations of a module-owned coin — supply of the base coin minus the alias coins the
erc20 module escrows -/
namespace FxVerif.Proofs.C08
open FxVerif.Model.Ledger FxVerif.Model.Flows FxVerif.Model.C08 FxVerif.Proofs.Ledger

/-- Σ over a list of coin denominations of the erc20 module account's balance -/
def escrowSum (l : List Nat) : Obs := Obs.sum (l.map (fun x => balObs (coinAsset x) E))

theorem escrowSum_sound (l : List Nat) : (escrowSum l).Sound :=
  sum_sound (fun o ho => by
    simp only [List.mem_map] at ho
    obtain ⟨x, _, rfl⟩ := ho
    exact balObs_sound _ _)

@[simp] theorem escrowSum_delta_send_erc (l : List Nat) (c : Nat) (s d : Addr) (n : Nat) :
    (escrowSum l).delta (.send (.erc c) s d n) = 0 := by
  induction l with
  | nil => rfl
  | cons x xs ih =>
    show (balObs (coinAsset x) E).delta _ + (escrowSum xs).delta _ = 0
    rw [ih]; simp [balObs]

@[simp] theorem escrowSum_delta_mint_erc (l : List Nat) (c : Nat) (b d : Addr) (n : Nat) :
    (escrowSum l).delta (.mint (.erc c) b d n) = 0 := by
  induction l with
  | nil => rfl
  | cons x xs ih =>
    show (balObs (coinAsset x) E).delta _ + (escrowSum xs).delta _ = 0
    rw [ih]; simp [balObs]

@[simp] theorem escrowSum_delta_burn_erc (l : List Nat) (c : Nat) (b d : Addr) (n : Nat) :
    (escrowSum l).delta (.burn (.erc c) b d n) = 0 := by
  induction l with
  | nil => rfl
  | cons x xs ih =>
    show (balObs (coinAsset x) E).delta _ + (escrowSum xs).delta _ = 0
    rw [ih]; simp [balObs]

theorem escrowSum_delta_send_coin (l : List Nat) (hn : l.Nodup) (y : Nat) (s d : Addr) (n : Nat) :
    (escrowSum l).delta (.send (coinAsset y) s d n) =
      if y ∈ l then (if d = E then (n : Int) else 0) - (if s = E then (n : Int) else 0) else 0 := by
  induction l with
  | nil => rfl
  | cons x xs ih =>
    simp only [List.nodup_cons] at hn
    show (balObs (coinAsset x) E).delta _ + (escrowSum xs).delta _ = _
    rw [ih hn.2]
    by_cases e : y = x
    · subst e; simp [balObs, hn.1]
    · have : coinAsset y ≠ coinAsset x := fun h => e (coinAsset_inj h)
      simp [balObs, this, e]

theorem escrowSum_delta_mint_coin (l : List Nat) (hn : l.Nodup) (y : Nat) (b d : Addr) (n : Nat) :
    (escrowSum l).delta (.mint (coinAsset y) b d n) = if y ∈ l ∧ d = E then (n : Int) else 0 := by
  induction l with
  | nil => simp [escrowSum, Obs.sum, Obs.zero]
  | cons x xs ih =>
    simp only [List.nodup_cons] at hn
    show (balObs (coinAsset x) E).delta _ + (escrowSum xs).delta _ = _
    rw [ih hn.2]
    by_cases e : y = x
    · subst e; simp [balObs, hn.1]
    · have : coinAsset y ≠ coinAsset x := fun h => e (coinAsset_inj h)
      simp [balObs, this, e]

theorem escrowSum_delta_burn_coin (l : List Nat) (hn : l.Nodup) (y : Nat) (b d : Addr) (n : Nat) :
    (escrowSum l).delta (.burn (coinAsset y) b d n) = if y ∈ l ∧ d = E then -(n : Int) else 0 := by
  induction l with
  | nil => simp [escrowSum, Obs.sum, Obs.zero]
  | cons x xs ih =>
    simp only [List.nodup_cons] at hn
    show (balObs (coinAsset x) E).delta _ + (escrowSum xs).delta _ = _
    rw [ih hn.2]
    by_cases e : y = x
    · subst e; simp [balObs, hn.1]
    · have : coinAsset y ≠ coinAsset x := fun h => e (coinAsset_inj h)
      simp [balObs, this, e]

/-- **I_family**: supply of the base coin `d` minus the alias coins (`as`) escrowed by the erc20 module account -/
def bookF (d : Nat) (as : List Nat) : Obs := (supplyObs (coinAsset d)).add (escrowSum as).neg

theorem bookF_sound (d : Nat) (as : List Nat) : (bookF d as).Sound :=
  add_sound (supplyObs_sound _) (neg_sound (escrowSum_sound _))

macro "bookf" hn:term : tactic =>
  `(tactic| (simp_all [bookF, convertCoinU, convertERC20U, Obs.flowDelta, Obs.add, Obs.neg, supplyObs, E,
      escrowSum_delta_send_coin _ $hn, escrowSum_delta_mint_coin _ $hn, escrowSum_delta_burn_coin _ $hn] <;> (try omega)))

/-- conversions coin ↔ ERC-20 of a pair whose denomination is not an alias of `d`, and which is module-owned whenever it
is `d`'s own pair, do not touch the family book of `d` -/
theorem bookF_convertCoinU (d : Nat) (as : List Nat) (hn : as.Nodup) (k : Kind) (d' ct' : Nat)
    (hd : d' ∉ as) (hk : d' = d → k ≠ .externalOwned) (s : Nat) (r : Addr) (n : Nat) :
    (bookF d as).flowDelta (convertCoinU k d' ct' (.user s) r n) = 0 := by
  by_cases e : d' = d
  · have := hk e
    subst e
    cases k <;> first | exact absurd rfl this | bookf hn
  · have h1 : coinAsset d' ≠ coinAsset d := fun h => e (coinAsset_inj h)
    cases k <;> bookf hn

theorem bookF_convertERC20U (d : Nat) (as : List Nat) (hn : as.Nodup) (k : Kind) (d' ct' : Nat)
    (hd : d' ∉ as) (hk : d' = d → k ≠ .externalOwned) (s : Nat) (r : Addr) (n : Nat) :
    (bookF d as).flowDelta (convertERC20U k d' ct' (.user s) r n) = 0 := by
  by_cases e : d' = d
  · have := hk e
    subst e
    cases k <;> first | exact absurd rfl this | bookf hn
  · have h1 : coinAsset d' ≠ coinAsset d := fun h => e (coinAsset_inj h)
    cases k <;> bookf hn

theorem bookF_convertDenomU_other (d : Nat) (as : List Nat) (hn : as.Nodup) (k : Kind) (base : Nat)
    (aliases : List Nat) (src dst u r n : Nat) (hs : src ∉ d :: as) (hd : dst ∉ d :: as) :
    (bookF d as).flowDelta (convertDenomU k base aliases src dst u r n) = 0 := by
  simp only [List.mem_cons, not_or] at hs hd
  have h1 : coinAsset src ≠ coinAsset d := fun h => hs.1 (coinAsset_inj h)
  have h2 : coinAsset dst ≠ coinAsset d := fun h => hd.1 (coinAsset_inj h)
  simp only [convertDenomU, flowDelta_append]
  have hmid : (bookF d as).flowDelta (convertDenomMid k base aliases src dst n) = 0 := by
    cases k <;> simp only [convertDenomMid] <;> (repeat' split) <;>
      simp [bookF, Obs.flowDelta, Obs.add, Obs.neg, supplyObs, E, escrowSum_delta_mint_coin _ hn,
        escrowSum_delta_burn_coin _ hn, hs.2, hd.2, h1, h2]
  rw [hmid]
  split <;> simp [bookF, Obs.flowDelta, Obs.add, Obs.neg, supplyObs, E, escrowSum_delta_send_coin _ hn, hs.2, hd.2]

/-- `MsgConvertDenom` inside the family of a module-owned coin (branch `convertNativeCoin`, or `convertNativeAlias` for
the native coin): every alias coin the module takes in or pays out is matched by base coins minted or burned -/
theorem bookF_convertDenomU_own (d : Nat) (as : List Nat) (hn : (d :: as).Nodup) (k : Kind) (hk : k ≠ .externalOwned)
    (src dst u r n : Nat) (hne : src ≠ dst) (hs : src ∈ d :: as) (hd : dst ∈ d :: as) :
    (bookF d as).flowDelta (convertDenomU k d as src dst u r n) = 0 := by
  obtain ⟨hd_notin, hn'⟩ := List.nodup_cons.1 hn
  simp only [convertDenomU, flowDelta_append]
  by_cases e1 : src = d
  · subst e1
    have hdne : dst ≠ src := fun e => hne e.symm
    have hdin : dst ∈ as := by
      rcases List.mem_cons.1 hd with h | h
      · exact absurd h hdne
      · exact h
    have h2 : coinAsset dst ≠ coinAsset src := fun h => hdne (coinAsset_inj h)
    cases k with
    | externalOwned => exact absurd rfl hk
    | moduleOwned =>
      simp only [convertDenomMid, ↓reduceIte]
      split <;> simp [bookF, Obs.flowDelta, Obs.add, Obs.neg, supplyObs, E, escrowSum_delta_send_coin _ hn',
        escrowSum_delta_burn_coin _ hn', hd_notin, hdin, h2] <;> omega
    | fx =>
      simp only [convertDenomMid, hdin, List.contains_eq_mem, decide_true, and_self, ↓reduceIte]
      split <;> simp [bookF, Obs.flowDelta, Obs.add, Obs.neg, supplyObs, E, escrowSum_delta_send_coin _ hn',
        escrowSum_delta_mint_coin _ hn', hd_notin, hdin, h2] <;> omega
  · have hsin : src ∈ as := by
      rcases List.mem_cons.1 hs with h | h
      · exact absurd h e1
      · exact h
    have h1 : coinAsset src ≠ coinAsset d := fun h => e1 (coinAsset_inj h)
    by_cases e2 : dst = d
    · subst e2
      cases k with
      | externalOwned => exact absurd rfl hk
      | moduleOwned =>
        simp only [convertDenomMid, e1, ↓reduceIte]
        split <;> simp [bookF, Obs.flowDelta, Obs.add, Obs.neg, supplyObs, E, escrowSum_delta_send_coin _ hn',
          escrowSum_delta_mint_coin _ hn', hd_notin, hsin, h1] <;> omega
      | fx =>
        simp only [convertDenomMid, e1, false_and, hsin, List.contains_eq_mem, decide_true, and_self, ↓reduceIte]
        split <;> simp [bookF, Obs.flowDelta, Obs.add, Obs.neg, supplyObs, E, escrowSum_delta_send_coin _ hn',
          escrowSum_delta_burn_coin _ hn', hd_notin, hsin, h1] <;> omega
    · have hdin : dst ∈ as := by
        rcases List.mem_cons.1 hd with h | h
        · exact absurd h e2
        · exact h
      have h2 : coinAsset dst ≠ coinAsset d := fun h => e2 (coinAsset_inj h)
      cases k with
      | externalOwned => exact absurd rfl hk
      | moduleOwned =>
        simp only [convertDenomMid, e1, e2, ↓reduceIte]
        split <;> simp [bookF, Obs.flowDelta, Obs.add, Obs.neg, supplyObs, E, escrowSum_delta_send_coin _ hn',
          hsin, hdin, h1, h2] <;> omega
      | fx =>
        simp only [convertDenomMid, e1, e2, false_and, ↓reduceIte]
        split <;> simp [bookF, Obs.flowDelta, Obs.add, Obs.neg, supplyObs, E, escrowSum_delta_send_coin _ hn',
          escrowSum_delta_mint_coin _ hn', escrowSum_delta_burn_coin _ hn', hsin, hdin, h1, h2] <;> omega

/-- **I_family, one message**: every message keeps (supply of the base coin − alias coins escrowed by the module) of
every registered module-owned pair -/
theorem bookF_stepU (s s' : UState) (hi : IdxInv s.idx) (id : PairId) (p : Pair) (hp : lookup id s.idx.pairs = some p)
    (hext : p.external = false) (as : List Nat) (hmd : lookup p.denom s.idx.md = some as) (hn : (p.denom :: as).Nodup)
    (op : UOp) (h : stepU s op = .ok s') :
    (bookF p.denom as).val s'.L = (bookF p.denom as).val s.L := by
  obtain ⟨hid, hden, herc⟩ := hi.pairs_ok _ _ hp
  obtain ⟨hd_notin, hn'⟩ := List.nodup_cons.1 hn
  have hreg : (lookup p.denom s.idx.byDenom).isSome := by rw [hden]; rfl
  have hkind : p.kind ≠ .externalOwned := by
    simp only [Pair.kind, hext, Bool.false_eq_true, ↓reduceIte]; split <;> simp
  have hnotal : ∀ d', (lookup d' s.idx.byDenom).isSome → d' ∉ as := by
    intro d' hr hin
    have := hi.disj _ _ (hi.md_ok _ _ hreg hmd d' hin)
    rw [this] at hr; cases hr
  have hnotin : ∀ d', (lookup d' s.idx.byDenom).isSome → d' ≠ p.denom → d' ∉ p.denom :: as := by
    intro d' hr hne hin
    rcases List.mem_cons.1 hin with e | hin
    · exact hne e
    · exact hnotal d' hr hin
  cases op with
  | convertCoin d u r n =>
    obtain ⟨p', hpd, _, hcase⟩ := stepU_convertCoin_ok s s' d u r n h
    obtain ⟨id', hl', hp'⟩ := pairByDenom_some hpd
    have hd' : p'.denom = d := by
      obtain ⟨q, hq, hqd⟩ := hi.byDenom_ok _ _ hl'
      rw [hp'] at hq; cases hq; exact hqd
    rcases hcase with ⟨_, rfl⟩ | ⟨_, L', hrun, rfl⟩
    · rfl
    · rw [runFlow_obs (bookF_sound _ _) _ _ _ hrun]
      rw [bookF_convertCoinU _ _ hn' _ _ _ (hnotal d (by rw [hl']; rfl))]
      · omega
      · intro e
        rcases pairs_eq_or_disjoint hi hp hp' with ⟨_, rfl⟩ | ⟨hnd, _⟩
        · exact hkind
        · exact absurd (hd'.trans e) hnd
  | convertERC20 ct u r n =>
    obtain ⟨p', hpe, _, hcase⟩ := stepU_convertERC20_ok s s' ct u r n h
    obtain ⟨id', hl', hp'⟩ := pairByErc_some hpe
    obtain ⟨_, hden', _⟩ := hi.pairs_ok _ _ hp'
    rcases hcase with ⟨_, rfl⟩ | ⟨_, L', hrun, rfl⟩
    · rfl
    · rw [runFlow_obs (bookF_sound _ _) _ _ _ hrun]
      rw [bookF_convertERC20U _ _ hn' _ _ _ (hnotal _ (by rw [hden']; rfl))]
      · omega
      · intro e
        rcases pairs_eq_or_disjoint hi hp hp' with ⟨_, rfl⟩ | ⟨hnd, _⟩
        · exact hkind
        · exact absurd e hnd
  | convertDenom d u r n tgt =>
    simp only [stepU] at h
    split at h; · cases h
    rename_i base aliases hfam
    obtain ⟨hbreg, hbmd, hne, hbase⟩ := familyOf_some hi hfam
    have hsrc := familyOf_src_mem hi hfam
    split at h; · cases h
    rename_i hdst
    split at h
    · split at h <;> cases h
    · rename_i pb hpb
      obtain ⟨idb, hlb, hppb⟩ := pairByDenom_some hpb
      simp only [UState.withLedger] at h
      split at h
      · rename_i L' hrun
        cases h
        rw [runFlow_obs (bookF_sound _ _) _ _ _ hrun]
        have hdstmem : toTargetDenom d base aliases tgt = base ∨ toTargetDenom d base aliases tgt ∈ aliases := by
          rcases toTargetDenom_cases d base aliases tgt with h | h | h
          · exact Or.inl h
          · exact Or.inr h
          · exact absurd h hne
        by_cases hb : base = p.denom
        · subst hb
          rw [hmd] at hbmd; cases hbmd
          rw [hden] at hlb; cases hlb
          rw [hp] at hppb; cases hppb
          have hk : denomMode p.denom p ≠ .externalOwned := by
            simp only [denomMode, hext, Bool.false_eq_true, ↓reduceIte]; split <;> simp
          have hs : d ∈ p.denom :: as := by
            rcases hsrc with e | e
            · rw [e]; simp
            · simp [e]
          have hd : toTargetDenom d p.denom as tgt ∈ p.denom :: as := by
            rcases hdstmem with e | e
            · rw [e]; simp
            · simp [e]
          rw [bookF_convertDenomU_own _ _ hn _ hk _ _ _ _ _ (fun e => hdst e.symm) hs hd]; omega
        · have hs : d ∉ p.denom :: as := by
            intro hin
            rcases List.mem_cons.1 hin with e | hin
            · exact hb (hbase (by rw [e]; exact hreg) |>.trans e)
            · have h1 := hi.md_ok _ _ hreg hmd d hin
              rcases hsrc with e | e
              · rw [e] at h1; rw [hi.disj _ _ h1] at hbreg; cases hbreg
              · have h2 := hi.md_ok _ _ hbreg hbmd d e
                rw [h1] at h2; exact hb (Option.some.inj h2).symm
          have hd : toTargetDenom d base aliases tgt ∉ p.denom :: as := by
            intro hin
            rcases hdstmem with e | e
            · rw [e] at hin
              exact hnotin base hbreg hb hin
            · have h2 := hi.md_ok _ _ hbreg hbmd _ e
              rcases List.mem_cons.1 hin with e' | hin
              · rw [e'] at h2; rw [hi.disj _ _ h2] at hreg; cases hreg
              · have h1 := hi.md_ok _ _ hreg hmd _ hin
                rw [h1] at h2; exact hb (Option.some.inj h2).symm
          rw [bookF_convertDenomU_other _ _ hn' _ _ _ _ _ _ _ _ hs hd]; omega
      · cases h
  | idx iop =>
    obtain ⟨i, _, rfl⟩ := stepU_idx_ok h; rfl
  | setEnable b =>
    simp only [stepU] at h; cases h; rfl

end FxVerif.Proofs.C08
