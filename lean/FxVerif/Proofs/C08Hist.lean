import FxVerif.Proofs.C08Run
import FxVerif.Proofs.C08Ext
import FxVerif.Proofs.C08Fam
/-! helper lemmas for C08: the books of externally-owned pairs (I_external) and "Σ balances = supply" (I_sum) along whole
histories of the message server.  The alias set of a pair changes along a history (`MsgUpdateDenomAlias`), so the book is
taken over the aliases the bank metadata lists *at that moment* (`mdOf`). -/
namespace FxVerif.Proofs.C08
open FxVerif.Model.Ledger FxVerif.Model.Flows FxVerif.Model.C08 FxVerif.Proofs.Ledger

/-- the aliases the bank metadata lists for a denomination, now -/
def mdOf (i : Idx) (d : Nat) : List Nat := (lookup d i.md).getD []

/-- stateless validation run by the message router before the handler (`Metadata.Validate`,
`MsgRegisterERC20.ValidateBasic`): the alias list of a registration has no duplicates -/
def UOp.wellFormed : UOp → Prop
  | .idx (.registerCoin _ _ as) => as.Nodup
  | .idx (.registerERC20 _ _ as) => as.Nodup
  | _ => True

def WellFormedRun (ops : List UOp) : Prop := ∀ op ∈ ops, UOp.wellFormed op

/-- the denominations of a registered token are pairwise different: base :: aliases has no duplicates -/
structure MdInv (i : Idx) : Prop where
  nodup : ∀ d as, (lookup d i.byDenom).isSome → lookup d i.md = some as → (d :: as).Nodup
  /-- a registered denomination has bank metadata (both registrations write or require it; nothing deletes it) -/
  has : ∀ d, (lookup d i.byDenom).isSome → (lookup d i.md).isSome

theorem mdInv_genesis : MdInv genesisIdx := by
  constructor
  · intro d as _ hm
    simp only [genesisIdx, addPair, lookup] at hm
    split at hm
    · cases hm; simp
    · cases hm
  · intro d hr
    simp only [genesisIdx, addPair, setKV, lookup] at hr ⊢
    split at hr
    · rename_i e; simp [e]
    · cases hr

theorem mdInv_register (i : Idx) (hm : MdInv i) (d ct : Nat) (aliases : List Nat) (ext : Bool) (md' : List (Nat × List Nat))
    (hnd : (d :: aliases).Nodup)
    (hmd : lookup d md' = some aliases) (hmd' : ∀ d', d' ≠ d → lookup d' md' = lookup d' i.md) :
    MdInv (addPair { (setAliases i d aliases) with md := md' } ⟨d, ct, true, ext⟩) := by
  constructor
  · intro d' as hr hl
    simp only [addPair, setAliases] at hr hl
    by_cases e : d' = d
    · subst e
      rw [hmd] at hl; cases hl; exact hnd
    · rw [lookup_setKV_ne _ _ _ _ e] at hr
      rw [hmd' _ e] at hl
      exact hm.nodup _ _ hr hl
  · intro d' hr
    simp only [addPair, setAliases] at hr ⊢
    by_cases e : d' = d
    · subst e; rw [hmd]; rfl
    · rw [lookup_setKV_ne _ _ _ _ e] at hr
      rw [hmd' _ e]
      exact hm.has _ hr

theorem mdInv_stepIdx (i i' : Idx) (hi : IdxInv i) (hm : MdInv i) (op : IOp) (hw : UOp.wellFormed (.idx op))
    (h : stepIdx i op = .ok i') : MdInv i' := by
  cases op with
  | registerCoin d ct aliases =>
    simp only [stepIdx] at h
    split at h; · cases h
    split at h; · cases h
    split at h; · cases h
    rename_i h3
    have hal := (aliasesOk_iff i d aliases).1 (by simpa using h3)
    have hnd : (d :: aliases).Nodup := List.nodup_cons.2 ⟨fun hin => (hal d hin).1 rfl, hw⟩
    split at h
    · rename_i as' hmd
      split at h; · cases h
      rename_i heq
      have heq' : as' = aliases := by simpa using heq
      subst heq'
      cases h
      exact mdInv_register i hm d ct as' false i.md hnd hmd (fun _ _ => rfl)
    · cases h
      exact mdInv_register i hm d ct aliases false _ hnd (lookup_setKV_same _ _ _)
        (fun d' hne => lookup_setKV_ne _ _ _ _ hne)
  | registerERC20 d ct aliases =>
    simp only [stepIdx] at h
    split at h; · cases h
    split at h; · cases h
    split at h; · cases h
    split at h; · cases h
    rename_i h3
    split at h; · cases h
    cases h
    have hal := (aliasesOk_iff i d aliases).1 (by simpa using h3)
    have hnd : (d :: aliases).Nodup := List.nodup_cons.2 ⟨fun hin => (hal d hin).1 rfl, hw⟩
    exact mdInv_register i hm d ct aliases true _ hnd (lookup_setKV_same _ _ _)
      (fun d' hne => lookup_setKV_ne _ _ _ _ hne)
  | toggle d =>
    simp only [stepIdx] at h
    split at h; · cases h
    split at h; · cases h
    cases h
    exact ⟨hm.nodup, hm.has⟩
  | updateAlias d a =>
    simp only [stepIdx] at h
    split at h; · cases h
    rename_i h1
    split at h; · cases h
    rename_i h2
    have hreg : (lookup d i.byDenom).isSome := by
      cases hx : lookup d i.byDenom <;> simp_all
    have hab : lookup a i.byDenom = none := by
      cases hx : lookup a i.byDenom <;> simp_all
    have had : a ≠ d := fun e => by rw [← e, hab] at hreg; cases hreg
    split at h; · cases h
    rename_i old hold
    have hold' := hm.nodup _ _ hreg hold
    split at h
    · rename_i hnone
      cases h
      have hnotin : a ∉ old := fun hin => by
        have := hi.md_ok _ _ hreg hold a hin
        rw [hnone] at this; cases this
      constructor
      · intro d' as hr hl
        simp only at hr hl
        by_cases e : d' = d
        · subst e
          rw [lookup_setKV_same] at hl; cases hl
          rw [List.nodup_cons] at hold' ⊢
          refine ⟨?_, ?_⟩
          · simp only [List.mem_append, List.mem_singleton, not_or]
            exact ⟨hold'.1, fun e => had e.symm⟩
          · exact List.nodup_append.2 ⟨hold'.2, by simp, fun x hx y hy => by
              simp only [List.mem_singleton] at hy; subst hy; exact fun e => hnotin (e ▸ hx)⟩
        · rw [lookup_setKV_ne _ _ _ _ e] at hl
          exact hm.nodup _ _ hr hl
      · intro d' hr
        simp only at hr ⊢
        by_cases e : d' = d
        · subst e; rw [lookup_setKV_same]; rfl
        · rw [lookup_setKV_ne _ _ _ _ e]; exact hm.has _ hr
    · split at h
      · cases h
        constructor
        · intro d' as hr hl
          simp only at hr hl
          by_cases e : d' = d
          · subst e
            rw [lookup_setKV_same] at hl; cases hl
            rw [List.nodup_cons] at hold' ⊢
            exact ⟨fun hin => hold'.1 (List.mem_filter.1 hin).1, hold'.2.filter _⟩
          · rw [lookup_setKV_ne _ _ _ _ e] at hl
            exact hm.nodup _ _ hr hl
        · intro d' hr
          simp only at hr ⊢
          by_cases e : d' = d
          · subst e; rw [lookup_setKV_same]; rfl
          · rw [lookup_setKV_ne _ _ _ _ e]; exact hm.has _ hr
      · cases h

theorem mdInv_removePair (i : Idx) (hm : MdInv i) (p : Pair) : MdInv (removePair i p) := by
  have hbd : (removePair i p).byDenom = delKV p.denom i.byDenom := by
    simp only [removePair]; split <;> rfl
  have hmd : (removePair i p).md = i.md := by
    simp only [removePair]; split <;> rfl
  constructor
  · intro d as hr hl
    rw [hbd] at hr; rw [hmd] at hl
    by_cases e : d = p.denom
    · subst e; rw [lookup_delKV_same] at hr; cases hr
    · rw [lookup_delKV_ne _ _ _ e] at hr; exact hm.nodup _ _ hr hl
  · intro d hr
    rw [hbd] at hr; rw [hmd]
    by_cases e : d = p.denom
    · subst e; rw [lookup_delKV_same] at hr; cases hr
    · rw [lookup_delKV_ne _ _ _ e] at hr; exact hm.has _ hr

theorem mdInv_stepU (s s' : UState) (hi : IdxInv s.idx) (hm : MdInv s.idx) (op : UOp) (hw : UOp.wellFormed op)
    (h : stepU s op = .ok s') : MdInv s'.idx := by
  cases op with
  | convertCoin d u r n =>
    obtain ⟨p', _, _, hcase⟩ := stepU_convertCoin_ok s s' d u r n h
    rcases hcase with ⟨_, rfl⟩ | ⟨_, L', _, rfl⟩
    · exact mdInv_removePair _ hm _
    · exact hm
  | convertERC20 ct u r n =>
    obtain ⟨p', _, _, hcase⟩ := stepU_convertERC20_ok s s' ct u r n h
    rcases hcase with ⟨_, rfl⟩ | ⟨_, L', _, rfl⟩
    · exact mdInv_removePair _ hm _
    · exact hm
  | convertDenom d u r n tgt =>
    simp only [stepU] at h
    split at h; · cases h
    split at h; · cases h
    split at h
    · split at h <;> cases h
    · simp only [UState.withLedger] at h
      split at h
      · cases h; exact hm
      · cases h
  | idx iop =>
    obtain ⟨i, hstep, rfl⟩ := stepU_idx_ok h
    exact mdInv_stepIdx _ _ hi hm iop hw hstep
  | setEnable b =>
    simp only [stepU] at h; cases h; exact hm

/-! ### what a message does to the alias list of a registered denomination -/

/-- the change the alias set itself makes to the right-hand side of I_external of denomination `d`: a new alias brings its
current supply into the sum, a removed alias takes it out -/
def aliasShift (s : UState) (d : Nat) : UOp → Int
  | .idx (.updateAlias d' a) =>
    if d' = d then
      (if lookup a s.idx.aliasIdx = none then -(s.L.supply (coinAsset a) : Int) else (s.L.supply (coinAsset a) : Int))
    else 0
  | _ => 0

theorem supplySum_val_filter (l : List Nat) (hn : l.Nodup) (a : Nat) (ha : a ∈ l) (L : Ledger) :
    (supplySum (l.filter (· ≠ a))).val L = (supplySum l).val L - (L.supply (coinAsset a) : Int) := by
  induction l with
  | nil => cases ha
  | cons x xs ih =>
    rw [List.nodup_cons] at hn
    by_cases e : x = a
    · subst e
      have hf : (x :: xs).filter (· ≠ x) = xs := by
        simp only [List.filter, ne_eq, not_true_eq_false, decide_false]
        refine List.filter_eq_self.2 (fun y hy => ?_)
        simp only [decide_eq_true_eq]
        exact fun e => hn.1 (e ▸ hy)
      rw [hf]
      show (supplySum xs).val L = (supplyObs (coinAsset x)).val L + (supplySum xs).val L - _
      simp only [supplyObs]; omega
    · have hin : a ∈ xs := by
        rcases List.mem_cons.1 ha with e' | e'
        · exact absurd e'.symm e
        · exact e'
      have hf : (x :: xs).filter (· ≠ a) = x :: xs.filter (· ≠ a) := by
        simp [List.filter, e]
      rw [hf]
      show (supplyObs (coinAsset x)).val L + (supplySum (xs.filter (· ≠ a))).val L =
        (supplyObs (coinAsset x)).val L + (supplySum xs).val L - _
      rw [ih hn.2 hin]; omega

/-- the metadata of a registered denomination is rewritten by `MsgUpdateDenomAlias` on that very denomination only -/
theorem md_stepIdx_other (i i' : Idx) (op : IOp) (h : stepIdx i op = .ok i') (d : Nat)
    (hreg : (lookup d i.byDenom).isSome) (hop : ∀ a, op ≠ .updateAlias d a) : lookup d i'.md = lookup d i.md := by
  cases op with
  | registerCoin d' ct aliases =>
    simp only [stepIdx] at h
    split at h; · cases h
    rename_i h1
    have hne : d ≠ d' := fun e => by subst e; simp_all
    split at h; · cases h
    split at h; · cases h
    split at h
    · split at h; · cases h
      cases h; rfl
    · cases h
      simp only [addPair, setAliases]
      exact lookup_setKV_ne _ _ _ _ hne
  | registerERC20 d' ct aliases =>
    simp only [stepIdx] at h
    split at h; · cases h
    split at h; · cases h
    rename_i h1
    have hne : d ≠ d' := fun e => by subst e; simp_all
    split at h; · cases h
    split at h; · cases h
    split at h; · cases h
    cases h
    simp only [addPair, setAliases]
    exact lookup_setKV_ne _ _ _ _ hne
  | toggle d' =>
    simp only [stepIdx] at h
    split at h; · cases h
    split at h; · cases h
    cases h; rfl
  | updateAlias d' a =>
    have hne : d ≠ d' := fun e => hop a (by rw [e])
    simp only [stepIdx] at h
    split at h; · cases h
    split at h; · cases h
    split at h; · cases h
    split at h
    · cases h; exact lookup_setKV_ne _ _ _ _ hne
    · split at h
      · cases h; exact lookup_setKV_ne _ _ _ _ hne
      · cases h

theorem md_stepIdx_update (i i' : Idx) (hi : IdxInv i) (d a : Nat) (h : stepIdx i (.updateAlias d a) = .ok i') :
    ∃ old, lookup d i.md = some old ∧ (lookup d i.byDenom).isSome ∧
      ((lookup a i.aliasIdx = none ∧ lookup d i'.md = some (old ++ [a])) ∨
       (lookup a i.aliasIdx ≠ none ∧ a ∈ old ∧ lookup d i'.md = some (old.filter (· ≠ a)))) := by
  simp only [stepIdx] at h
  split at h; · cases h
  rename_i h1
  have hreg : (lookup d i.byDenom).isSome := by
    cases hx : lookup d i.byDenom <;> simp_all
  split at h; · cases h
  split at h; · cases h
  rename_i old hold
  refine ⟨old, hold, hreg, ?_⟩
  split at h
  · rename_i hnone
    cases h
    exact Or.inl ⟨hnone, lookup_setKV_same _ _ _⟩
  · rename_i d' hsome
    split at h
    · rename_i e
      subst e
      cases h
      obtain ⟨_, as, hm, hin⟩ := hi.alias_ok _ _ hsome
      rw [hold] at hm; cases hm
      exact Or.inr ⟨by rw [hsome]; simp, hin, lookup_setKV_same _ _ _⟩
    · cases h

/-- the ledger is untouched by index operations and parameter updates; the metadata by conversions -/
theorem md_stepU_conv (s s' : UState) (op : UOp) (h : stepU s op = .ok s') (hop : ∀ iop, op ≠ .idx iop) :
    s'.idx.md = s.idx.md := by
  have hmd : ∀ p, (removePair s.idx p).md = s.idx.md := by
    intro p; simp only [removePair]; split <;> rfl
  cases op with
  | convertCoin d u r n =>
    obtain ⟨p', _, _, hcase⟩ := stepU_convertCoin_ok s s' d u r n h
    rcases hcase with ⟨_, rfl⟩ | ⟨_, L', _, rfl⟩
    · exact hmd _
    · rfl
  | convertERC20 ct u r n =>
    obtain ⟨p', _, _, hcase⟩ := stepU_convertERC20_ok s s' ct u r n h
    rcases hcase with ⟨_, rfl⟩ | ⟨_, L', _, rfl⟩
    · exact hmd _
    · rfl
  | convertDenom d u r n tgt =>
    simp only [stepU] at h
    split at h; · cases h
    split at h; · cases h
    split at h
    · split at h <;> cases h
    · simp only [UState.withLedger] at h
      split at h
      · cases h; rfl
      · cases h
  | idx iop => exact absurd rfl (hop iop)
  | setEnable b => simp only [stepU] at h; cases h; rfl

/-- the book of an externally-owned pair over the aliases listed NOW -/
def extBook (s : UState) (p : Pair) : Int := (bookE p.denom p.contract (mdOf s.idx p.denom)).val s.L

/-- **I_external, one message, with the alias set moving**: the book over the current alias list changes by exactly
`extDelta` (conversions between the token's own denominations) plus `aliasShift` (the supply of an alias entering or
leaving the sum) -/
theorem extBook_stepU (s s' : UState) (hi : IdxInv s.idx) (hm : MdInv s.idx) (id : PairId) (p : Pair)
    (hp : lookup id s.idx.pairs = some p) (hext : p.external = true) (op : UOp) (h : stepU s op = .ok s') :
    extBook s' p = extBook s p + extDelta s.idx p op + aliasShift s p.denom op := by
  obtain ⟨hid, hden, _⟩ := hi.pairs_ok _ _ hp
  have hreg : (lookup p.denom s.idx.byDenom).isSome := by rw [hden]; rfl
  cases hmd : lookup p.denom s.idx.md with
  | none => have := hm.has _ hreg; rw [hmd] at this; cases this
  | some as =>
    have hn := hm.nodup _ _ hreg hmd
    have hof : mdOf s.idx p.denom = as := by simp [mdOf, hmd]
    by_cases hop : ∃ a, op = .idx (.updateAlias p.denom a)
    · obtain ⟨a, rfl⟩ := hop
      obtain ⟨i, hstep, rfl⟩ := stepU_idx_ok h
      obtain ⟨old, hold, _, hcase⟩ := md_stepIdx_update _ _ hi _ _ hstep
      rw [hmd] at hold; cases hold
      simp only [extBook, hof, extDelta, aliasShift, ↓reduceIte]
      rcases hcase with ⟨hnone, hnew⟩ | ⟨hsome, hin, hnew⟩
      · have : mdOf i p.denom = as ++ [a] := by simp [mdOf, hnew]
        rw [this, hnone]
        have hh := supplySum_val_append (p.denom :: as) a s.L
        simp only [List.cons_append] at hh
        simp only [bookE, Obs.add, Obs.neg, hh, ↓reduceIte]; omega
      · have : mdOf i p.denom = as.filter (· ≠ a) := by simp [mdOf, hnew]
        rw [this, if_neg hsome]
        have hne : p.denom ≠ a := fun e => (List.nodup_cons.1 hn).1 (e ▸ hin)
        have hf : (p.denom :: as).filter (· ≠ a) = p.denom :: as.filter (· ≠ a) := by
          simp [List.filter, hne]
        have hh := supplySum_val_filter (p.denom :: as) hn a (by simp [hin]) s.L
        rw [hf] at hh
        simp only [bookE, Obs.add, Obs.neg, hh]; omega
    · have hsame : lookup p.denom s'.idx.md = lookup p.denom s.idx.md := by
        cases op with
        | idx iop =>
          obtain ⟨i, hstep, rfl⟩ := stepU_idx_ok h
          exact md_stepIdx_other _ _ iop hstep _ hreg (fun a e => hop ⟨a, by rw [e]⟩)
        | convertCoin d u r n => rw [md_stepU_conv s s' _ h (fun _ e => by cases e)]
        | convertERC20 d u r n => rw [md_stepU_conv s s' _ h (fun _ e => by cases e)]
        | convertDenom d u r n t => rw [md_stepU_conv s s' _ h (fun _ e => by cases e)]
        | setEnable b => rw [md_stepU_conv s s' _ h (fun _ e => by cases e)]
      have hof' : mdOf s'.idx p.denom = as := by simp [mdOf, hsame, hmd]
      have hsh : aliasShift s p.denom op = 0 := by
        cases op with
        | idx iop =>
          cases iop with
          | updateAlias d' a =>
            simp only [aliasShift]
            split
            · rename_i e; exact absurd ⟨a, by rw [e]⟩ hop
            · rfl
          | _ => rfl
        | _ => rfl
      simp only [extBook, hof, hof', hsh]
      rw [bookE_stepU s s' hi id p hp hext as hmd hn op h]; omega

/-! ### along whole histories -/

theorem extDelta_congr (i : Idx) (p p' : Pair) (h : p'.denom = p.denom) (op : UOp) : extDelta i p' op = extDelta i p op := by
  cases op <;> simp [extDelta, h]

/-- what a history adds to the book of the externally-owned pair `p`: the sum, over its successful messages, of
`extDelta` (conversions between the token's own denominations) and `aliasShift` (aliases entering / leaving) -/
def extDrift (p : Pair) : UState → List UOp → Int
  | _, [] => 0
  | s, op :: ops =>
    (match stepU s op with
     | .ok _ => extDelta s.idx p op + aliasShift s p.denom op
     | .error _ => 0) + extDrift p (stepUT s op) ops

theorem extDrift_congr (p p' : Pair) (h : p'.denom = p.denom) (s : UState) (ops : List UOp) :
    extDrift p' s ops = extDrift p s ops := by
  induction ops generalizing s with
  | nil => rfl
  | cons op ops ih => simp only [extDrift, ih, extDelta_congr _ _ _ h, h]

theorem extBook_congr (s : UState) (p p' : Pair) (h1 : p'.denom = p.denom) (h2 : p'.contract = p.contract) :
    extBook s p' = extBook s p := by
  simp only [extBook, h1, h2]

/-- **I_external along every history, exactly**: book at the end = book at the start + drift -/
theorem extBook_runU (s : UState) (hi : IdxInv s.idx) (hm : MdInv s.idx) (hdead : s.dead = []) (ops : List UOp)
    (hf : FreshRun s ops) (hw : WellFormedRun ops) (id : PairId) (p : Pair) (hp : lookup id s.idx.pairs = some p)
    (hext : p.external = true) :
    extBook (runU s ops) p = extBook s p + extDrift p s ops := by
  induction ops generalizing s p with
  | nil => simp [runU, extDrift]
  | cons op ops ih =>
    simp only [runU, List.foldl_cons, extDrift]
    cases h : stepU s op with
    | error e =>
      have hst : stepUT s op = s := by simp [stepUT, h]
      have := ih s hi hm hdead (by simpa [FreshRun, hst] using hf.2) (fun o ho => hw o (by simp [ho])) p hp hext
      simp only [runU] at this
      rw [hst, this]; simp
    | ok s' =>
      have hst : stepUT s op = s' := by simp [stepUT, h]
      obtain ⟨p', hp', e1, e2, e3⟩ := pair_persists s s' hi hdead op h id p hp
      have hstep := extBook_stepU s s' hi hm id p hp hext op h
      have := ih s' (inv_stepU s s' hi op hf.1 h) (mdInv_stepU s s' hi hm op (hw op (by simp)) h)
        ((dead_stepU s s' op h).trans hdead) (by simpa [FreshRun, hst] using hf.2) (fun o ho => hw o (by simp [ho]))
        p' hp' (e3.trans hext)
      simp only [runU] at this
      rw [extBook_congr _ _ _ e1 e2, extBook_congr _ _ _ e1 e2, extDrift_congr _ _ e1] at this
      rw [hst, this, hstep]; simp only; omega

/-- a history without `MsgConvertDenom` and without `MsgUpdateDenomAlias` has no drift -/
theorem extDrift_zero (p : Pair) (s : UState) (ops : List UOp)
    (h : ∀ op ∈ ops, (∀ d u r n t, op ≠ .convertDenom d u r n t) ∧ (∀ d a, op ≠ .idx (.updateAlias d a))) :
    extDrift p s ops = 0 := by
  induction ops generalizing s with
  | nil => rfl
  | cons op ops ih =>
    simp only [extDrift, ih _ (fun o ho => h o (by simp [ho]))]
    obtain ⟨h1, h2⟩ := h op (by simp)
    split
    · cases op with
      | convertDenom d u r n t => exact absurd rfl (h1 d u r n t)
      | idx iop =>
        cases iop with
        | updateAlias d a => exact absurd rfl (h2 d a)
        | _ => simp [extDelta, aliasShift]
      | _ => simp [extDelta, aliasShift]
    · rfl

/-- the accounts a message names -/
def UOp.addrsIn (univ : List Addr) : UOp → Prop
  | .convertCoin _ u r _ => Addr.user u ∈ univ ∧ partyAddr r ∈ univ
  | .convertERC20 _ u r _ => Addr.user u ∈ univ ∧ partyAddr r ∈ univ
  | .convertDenom _ u r _ _ => Addr.user u ∈ univ ∧ Addr.user r ∈ univ
  | _ => True

end FxVerif.Proofs.C08
