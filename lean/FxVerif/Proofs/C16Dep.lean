import FxVerif.Model.C16Dep
import FxVerif.Proofs.C16Sem
/-! # C16 — soundness of the one-sided guard procedure used for the dependency handlers (core Lean only) -/
namespace FxVerif.Model.C16

theorem govRel_sound (env : Env) (auth : Str) (c k : CmpK) (a b : SExpr) (h : govRel c a b = some k) :
    k = c ∧ relK env.cfg c (evalS env auth a) (evalS env auth b) = relK env.cfg c env.gov auth := by
  unfold govRel at h
  by_cases hg : isGovPair a b = true
  · simp only [hg, ↓reduceIte, Option.some.injEq] at h
    refine ⟨h.symm, ?_⟩
    simp only [isGovPair, Bool.or_eq_true, Bool.and_eq_true, beq_iff_eq] at hg
    rcases hg with ⟨rfl, rfl⟩ | ⟨rfl, rfl⟩
    · simp [evalS]
    · simp only [evalS]; exact relK_comm _ _ _ _
  · simp [hg] at h

theorem mustRejectWith_sound (env : Env) (auth : Str) (cv : String → List SExpr → Bool)
    (cf : String → List SExpr → Option CmpK)
    (hcf : ∀ h as k, cf h as = some k → relK env.cfg k env.gov auth = false → cv h as = true) :
    ∀ (b : BExpr) (k : CmpK), mustRejectWith cf b = some k → relK env.cfg k env.gov auth = false →
      evalBWith env auth cv b = true := by
  intro b
  fun_induction mustRejectWith cf b with
  | case1 a b =>
    intro k h hr
    obtain ⟨rfl, he⟩ := govRel_sound env auth _ k a b h
    simp [evalBWith, he, hr]
  | case2 a b =>
    intro k h hr
    obtain ⟨rfl, he⟩ := govRel_sound env auth _ k a b h
    simp [evalBWith, he, hr]
  | case3 a b =>
    intro k h hr
    obtain ⟨rfl, he⟩ := govRel_sound env auth _ k a b h
    simp [evalBWith, he, hr]
  | case4 a b =>
    intro k h hr
    obtain ⟨rfl, he⟩ := govRel_sound env auth _ k a b h
    simp [evalBWith, he, hr]
  | case5 d a b =>
    intro k h hr
    obtain ⟨rfl, he⟩ := govRel_sound env auth _ k a b h
    simp [evalBWith, he, hr]
  | case6 x y c hx ih =>
    intro k h hr
    simp only [Option.some.injEq] at h
    subst h
    simp [evalBWith, ih c hx hr]
  | case7 x y hx _ ih =>
    intro k h hr
    simp [evalBWith, ih k h hr]
  | case8 h' args =>
    intro k h hr
    simp only [evalBWith]
    exact hcf h' args k h hr
  | case9 b _ _ _ _ _ _ _ =>
    intro k h; simp at h

/-- an error helper that `helperMustReject` accepts returns an error for every authority not related to the keeper's -/
theorem helperMustReject_sound (env : Env) (auth : Str) :
    ∀ (body : List HStmt) (cur : Bool) (k : CmpK), helperMustReject body = some k →
      relK env.cfg k env.gov auth = false → helperVal env auth cur body = true := by
  intro body
  induction body with
  | nil => intro cur k h; simp [helperMustReject] at h
  | cons st rest ih =>
    intro cur k h hr
    cases st with
    | retIf c v =>
      cases v with
      | false => simp [helperMustReject] at h
      | true =>
        simp only [helperMustReject] at h
        simp only [helperVal]
        by_cases hc : evalB0 env auth c = true
        · simp [hc]
        · simp only [hc, Bool.false_eq_true, ↓reduceIte]
          cases hm : mustRejectWith (fun _ _ => none) c with
          | some k' =>
            simp only [hm, Option.some.injEq] at h
            subst h
            have := mustRejectWith_sound env auth (fun h _ => env.callB h) (fun _ _ => none)
              (fun _ _ _ hh => by simp at hh) c k' hm hr
            exact absurd this hc
          | none =>
            simp only [hm] at h
            exact ih cur k h hr
    | ret _ => simp [helperMustReject] at h
    | retB _ => simp [helperMustReject] at h
    | setIf _ _ => simp [helperMustReject] at h
    | retVar => simp [helperMustReject] at h
    | clobberLoop _ => simp [helperMustReject] at h
    | checkLoop _ => simp [helperMustReject] at h
    | clobber _ _ => simp [helperMustReject] at h
    | other _ => simp [helperMustReject] at h

theorem mustReject_sound (hs : List Helper) (env : Env) (auth : Str) (g : BExpr) (k : CmpK)
    (h : mustReject hs g = some k) (hr : relK env.cfg k env.gov auth = false) : evalB hs env auth g = true := by
  unfold mustReject at h
  unfold evalB
  apply mustRejectWith_sound env auth (callVal hs env auth) (callMustReject hs) _ g k h hr
  intro h' as k' hc hr'
  unfold callMustReject at hc
  unfold callVal
  cases hf : findHelper hs h' with
  | none => simp [hf] at hc
  | some hp =>
    simp only [hf] at hc ⊢
    exact helperMustReject_sound env auth _ false k' hc hr'

theorem depProtectedBody_sound {σ : Type} (hs : List Helper) (env : Env) (auth : Str) (W : World σ) (T m : String)
    (call : String → String → σ → Res × σ) (k : CmpK) (hr : relK env.cfg k env.gov auth = false) :
    ∀ (body : List Stmt) (s : σ), depProtectedBody hs body = some k →
      execBody hs env auth W T m call body s = (.err, s) := by
  intro body
  induction body with
  | nil => intro s h; simp [depProtectedBody] at h
  | cons st rest ih =>
    intro s h
    cases st with
    | rejectIf g =>
      simp only [depProtectedBody] at h
      simp [execBody, mustReject_sound hs env auth g k h hr]
    | nop _ =>
      simp only [depProtectedBody] at h
      simp only [execBody]
      exact ih s h
    | work _ _ => simp [depProtectedBody] at h
    | forward _ _ _ => simp [depProtectedBody] at h
    | ensureModuleAcc _ _ => simp [depProtectedBody] at h

theorem isStateGuard_sound (hs : List Helper) (env : Env) (auth : Str) (govName : String)
    (hst : env.stateModAddr govName = env.gov) (hne : auth ≠ env.gov) (g : BExpr)
    (h : isStateGuard govName g = true) : evalB hs env auth g = true := by
  have hne' : (env.gov == auth) = false := by
    simp only [beq_eq_false_iff_ne, ne_eq]; exact fun e => hne e.symm
  have hne'' : (auth == env.gov) = false := by
    simp only [beq_eq_false_iff_ne, ne_eq]; exact hne
  unfold isStateGuard at h
  split at h
  · simp only [beq_iff_eq] at h; subst h
    simp [evalB, evalBWith, evalS, relK, hst, hne']
  · simp only [beq_iff_eq] at h; subst h
    simp [evalB, evalBWith, evalS, relK, hst, hne'']
  · simp at h

/-- a state-reading guard program (`stateGuardBody`): when the module accounts it fetches exist (fetching them changes
nothing) and the x/auth state holds the keeper's authority as the address of the module account it compares with, every
other authority string is rejected with the state untouched -/
theorem stateGuardBody_sound {σ : Type} (hs : List Helper) (env : Env) (auth : Str) (W : World σ) (T m : String)
    (call : String → String → σ → Res × σ) (govName : String)
    (hst : env.stateModAddr govName = env.gov) (hne : auth ≠ env.gov) :
    ∀ (body : List Stmt) (s : σ), stateGuardBody govName body = true →
      (∀ n ∈ ensuredBefore body, ∀ s', W.ensureAcc n s' = s') →
      execBody hs env auth W T m call body s = (.err, s) := by
  intro body
  induction body with
  | nil => intro s h; simp [stateGuardBody] at h
  | cons st rest ih =>
    intro s h hens
    cases st with
    | nop _ =>
      simp only [stateGuardBody] at h
      simp only [execBody]
      exact ih s h (by simpa [ensuredBefore] using hens)
    | ensureModuleAcc n _ =>
      simp only [stateGuardBody] at h
      simp only [execBody]
      have h1 : W.ensureAcc n s = s := hens n (by simp [ensuredBefore]) s
      rw [h1]
      exact ih s h (fun n' hn' => hens n' (by simp [ensuredBefore, hn']))
    | rejectIf g =>
      have hne' : (env.gov == auth) = false := by
        simp only [beq_eq_false_iff_ne, ne_eq]; exact fun e => hne e.symm
      have hne'' : (auth == env.gov) = false := by
        simp only [beq_eq_false_iff_ne, ne_eq]; exact hne
      have hg : isStateGuard govName g = true := by simpa [stateGuardBody] using h
      simp [execBody, isStateGuard_sound hs env auth govName hst hne g hg]
    | work _ _ => simp [stateGuardBody] at h
    | forward _ _ _ => simp [stateGuardBody] at h

/-- a dependency handler that `depProtected` accepts, called directly with an authority not related to the keeper's
authority, returns an error and leaves the state untouched -/
theorem depProtected_sound {σ : Type} (P : Program) (env : Env) (auth : Str) (W : World σ) (k : CmpK)
    (hr : relK env.cfg k env.gov auth = false) (f : Nat) (T m : String) (s : σ) (h : depProtected P T m = some k) :
    exec P env auth W (f + 1) T m s = (.err, s) := by
  unfold depProtected at h
  simp only [exec]
  cases hres : resolve P T m with
  | none => simp [hres] at h
  | some impl =>
    simp only [hres] at h ⊢
    exact depProtectedBody_sound P.helpers env auth W impl.recv impl.method _ k hr impl.body s h

/-- a dependency handler with a state-reading guard program, called directly -/
theorem depStateGuarded_sound {σ : Type} (P : Program) (env : Env) (auth : Str) (W : World σ) (govName : String)
    (hst : env.stateModAddr govName = env.gov) (hne : auth ≠ env.gov) (f : Nat) (T m : String) (s : σ)
    (h : depStateGuarded P govName T m = true)
    (hens : ∀ n ∈ depEnsured P T m, ∀ s', W.ensureAcc n s' = s') :
    exec P env auth W (f + 1) T m s = (.err, s) := by
  unfold depStateGuarded at h
  unfold depEnsured at hens
  simp only [exec]
  cases hres : resolve P T m with
  | none => simp [hres] at h
  | some impl =>
    simp only [hres] at h hens ⊢
    exact stateGuardBody_sound P.helpers env auth W impl.recv impl.method _ govName hst hne impl.body s h hens

end FxVerif.Model.C16
