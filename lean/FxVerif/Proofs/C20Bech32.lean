import FxVerif.Model.C20Bech32
/-!
# C20 — facts about the bech32 decoder model (for every byte string)
-/
namespace FxVerif.Proofs.C20Bech32
open FxVerif.Model.C20Bech32

theorem toBytes_length : ∀ (cs r : List Nat), toBytes cs = .ok r → r.length = cs.length := by
  intro cs
  induction cs with
  | nil => intro r h; simp [toBytes] at h; subst h; rfl
  | cons c cs ih =>
    intro r h
    unfold toBytes at h
    split at h
    · cases h
    · split at h
      · rename_i r' hr'
        cases h
        simp [ih r' hr']
      · cases h

theorem lastIndexOf_bound (c : Nat) : ∀ (s : List Nat) (i : Nat) (acc : Option Nat) (k : Nat),
    lastIndexOf c s i acc = some k → acc = some k ∨ (i ≤ k ∧ k < i + s.length) := by
  intro s
  induction s with
  | nil => intro i acc k h; left; simpa [lastIndexOf] using h
  | cons b bs ih =>
    intro i acc k h
    unfold lastIndexOf at h
    rcases ih (i + 1) _ k h with h1 | h1
    · split at h1
      · right; cases h1; simp only [List.length_cons]; omega
      · left; exact h1
    · right; simp only [List.length_cons]; omega

/-- the separator window: when the test of `DecodeUnsafe` passes, the index is inside the string, the human-readable part is not
empty and at least six characters follow the separator -/
theorem separator_ok (s : List Nat) (one : Nat) (h : separator s = .ok one) : 1 ≤ one ∧ one + 7 ≤ s.length := by
  unfold separator at h
  split at h
  · cases h
  · split at h
    · cases h
    · rename_i hc
      cases h
      simp only [Bool.or_eq_true, decide_eq_true_eq, not_or, Nat.not_lt] at hc
      omega

theorem convAux_inv : ∀ (vs : List Nat) (acc bits : Nat) (out : List Nat), bits < 8 →
    (convAux vs acc bits out).2.2.length * 8 + (convAux vs acc bits out).2.1 = out.length * 8 + bits + 5 * vs.length ∧
    (convAux vs acc bits out).2.1 < 8 := by
  intro vs
  induction vs with
  | nil => intro acc bits out hb; simp [convAux, hb]
  | cons v vs ih =>
    intro acc bits out hb
    unfold convAux
    simp only []
    split
    · rename_i h8
      have := ih (((acc <<< 5) ||| (v &&& 31)) &&& (2 ^ (bits + 5 - 8) - 1)) (bits + 5 - 8)
        (out ++ [(((acc <<< 5) ||| (v &&& 31)) >>> (bits + 5 - 8)) &&& 255]) (by omega)
      simp only [List.length_append, List.length_cons, List.length_nil] at this ⊢
      omega
    · rename_i h8
      have := ih ((acc <<< 5) ||| (v &&& 31)) (bits + 5) out (by omega)
      simp only [List.length_cons] at this ⊢
      omega

/-- `ConvertBits(…, 5, 8, false)`: an accepted input of `n` values yields exactly `⌊5n/8⌋` bytes and leaves at most 4 padding bits -/
theorem convertBits_length (vs bz : List Nat) (h : convertBits vs = .ok bz) :
    bz.length = 5 * vs.length / 8 ∧ 5 * vs.length % 8 ≤ 4 := by
  unfold convertBits at h
  have inv := convAux_inv vs 0 0 [] (by omega)
  simp only [] at h
  split at h
  · cases h
  · rename_i hc
    cases h
    simp only [List.length_nil] at inv
    have hb : (convAux vs 0 0 []).2.1 ≤ 4 := by
      simp only [Bool.and_eq_true, Bool.or_eq_true, decide_eq_true_eq, not_and, not_or, Nat.not_lt] at hc
      by_cases h0 : (convAux vs 0 0 []).2.1 > 0
      · exact (hc h0).1
      · omega
    have e : 5 * vs.length = (convAux vs 0 0 []).2.2.length * 8 + (convAux vs 0 0 []).2.1 := by omega
    rw [e]
    refine ⟨?_, ?_⟩
    · rw [Nat.mul_comm, Nat.mul_add_div (by omega), Nat.div_eq_of_lt (by omega)]; rfl
    · rw [Nat.mul_comm, Nat.mul_add_mod]; exact Nat.le_trans (Nat.mod_le _ _) hb

/-- **what an accepted bech32 string looks like** (for every byte string): between 8 and 1023 bytes, a non-empty
human-readable part, and `len = len(hrp) + 1 + len(values) + 6` -/
theorem decode_ok_spec (s hrp values : List Nat) (h : decode s = .ok (hrp, values)) :
    8 ≤ s.length ∧ s.length ≤ 1023 ∧ 1 ≤ hrp.length ∧ hrp.length + 7 + values.length = s.length := by
  unfold decode at h
  split at h
  · cases h
  · rename_i hl
    split at h
    · cases h
    · rename_i hm
      split at h
      · cases h
      · rename_i up _
        simp only [] at h
        split at h
        · cases h
        · rename_i one hsep
          split at h
          · cases h
          · rename_i decoded hdec
            by_cases hp : (polymod (List.take one (if up = true then s.map toLower else s))
                (List.take (decoded.length - 6) decoded) (List.drop (decoded.length - 6) decoded) == 1) = true
            · rw [if_pos hp] at h
              cases h
              have hs := separator_ok _ one hsep
              have hd := toBytes_length _ decoded hdec
              have hlen : (if up = true then s.map toLower else s).length = s.length := by split <;> simp
              simp only [limit, minLen] at hl hm
              rw [hlen] at hs
              simp only [List.length_drop, hlen] at hd
              simp only [List.length_take, hlen]
              omega
            · rw [if_neg hp] at h
              cases h

/-- **address bytes of an accepted string**: exactly `⌊5·(len − len(hrp) − 7)/8⌋`, hence at most 635 -/
theorem decodeAndConvert_ok_length (s hrp bz : List Nat) (h : decodeAndConvert s = .ok (hrp, bz)) :
    bz.length = 5 * (s.length - hrp.length - 7) / 8 ∧ bz.length ≤ 635 ∧ 1 ≤ hrp.length ∧
      5 * (s.length - hrp.length - 7) % 8 ≤ 4 := by
  unfold decodeAndConvert at h
  split at h
  · cases h
  · rename_i hrp' values hd
    split at h
    · cases h
    · rename_i bz' hc
      cases h
      have h1 := decode_ok_spec s hrp values hd
      have h2 := convertBits_length values bz hc
      have : values.length = s.length - hrp.length - 7 := by omega
      rw [this] at h2
      omega

end FxVerif.Proofs.C20Bech32
