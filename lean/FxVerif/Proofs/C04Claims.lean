import FxVerif.Proofs.C04EscStep
import FxVerif.Proofs.C04Wd
import FxVerif.Model.C04Claims
/-! C04, claim layer: a successful `executeClaim` (with any nesting of re-entrant calls, for ANY statement order) is a
finite sequence of base operations, so every invariant of `step` carries over; and with the statement order of the source
(delete before handle) an observed event is credited at most once. -/
namespace FxVerif.Proofs.C04
open FxVerif.Model.Ledger FxVerif.Model.Flows FxVerif.Model.C04 FxVerif.Proofs.Ledger

/-- `s'` is reached from `s` by finitely many successful base operations -/
inductive Steps (cfg : Cfg) : State → State → Prop where
  | refl (s : State) : Steps cfg s s
  | cons {s s1 s' : State} (op : Op) (h : step cfg s op = .ok s1) (r : Steps cfg s1 s') : Steps cfg s s'

theorem Steps.trans {cfg : Cfg} {a b c : State} (h1 : Steps cfg a b) (h2 : Steps cfg b c) : Steps cfg a c := by
  induction h1 with
  | refl => exact h2
  | cons op h _ ih => exact .cons op h (ih h2)

/-- whatever every successful base operation preserves is preserved along `Steps` -/
theorem Steps.inv {cfg : Cfg} {P : State → Prop} (hP : ∀ s s' op, step cfg s op = .ok s' → P s → P s')
    {s s' : State} (h : Steps cfg s s') (h0 : P s) : P s' := by
  induction h with
  | refl => exact h0
  | cons op h _ ih => exact ih (hP _ _ op h h0)

theorem setPend_base (s : State2) (c : Nat) (l : List PClaim) : (setPend s c l).base = s.base := rfl

/-- the statements of `ExecuteClaim`, in any order and with any nested behaviour that itself refines base operations -/
theorem runX_steps (cfg : Cfg) (nested : State2 → Nat → Nat → Except XErr State2)
    (hn : ∀ s c m s', nested s c m = .ok s' → Steps cfg s.base s'.base) (c nonce : Nat) :
    ∀ (steps : List XStep) (s : State2) (f : Option Claim) (s' : State2),
      runX cfg nested c nonce steps s f = .ok s' → Steps cfg s.base s'.base := by
  intro steps
  induction steps with
  | nil => intro s f s' h; simp only [runX, Except.ok.injEq] at h; subst h; exact .refl _
  | cons st rest ih =>
    intro s f s' h
    cases st with
    | lookup =>
      simp only [runX] at h
      split at h
      · cases h
      · exact ih _ _ _ h
    | delete =>
      simp only [runX] at h
      have := ih _ _ _ h
      rwa [setPend_base] at this
    | handle =>
      simp only [runX] at h
      split at h
      · cases h
      · rename_i cl
        split at h
        · cases h
        · rename_i b hb
          split at h
          · exact .cons _ hb (ih _ _ _ h)
          · split at h
            · rename_i s2 hs2
              exact .cons _ hb (Steps.trans (hn _ _ _ _ hs2) (ih _ _ _ h))
            · exact .cons _ hb (ih _ _ _ h)
            · cases h

theorem execWith_steps (cfg : Cfg) (steps : List XStep) :
    ∀ (fuel : Nat) (s : State2) (c nonce : Nat) (s' : State2),
      execWith cfg steps fuel s c nonce = .ok s' → Steps cfg s.base s'.base := by
  intro fuel
  induction fuel with
  | zero => intro s c nonce s' h; simp [execWith] at h
  | succ fuel ih =>
    intro s c nonce s' h
    simp only [execWith] at h
    exact runX_steps cfg _ (fun s c m s' h => ih s c m s' h) c nonce steps s none s' h

/-- every successful operation of the claim layer is a finite sequence of base operations -/
theorem step2With_steps (cfg : Cfg) (steps : List XStep) (s s' : State2) (op : Op2)
    (h : step2With cfg steps s op = .ok s') : Steps cfg s.base s'.base := by
  cases op with
  | base op =>
    simp only [step2With] at h
    split at h
    · cases h
    · split at h
      · rename_i b hb; cases h; exact .cons op hb (.refl _)
      · cases h
  | observe c nonce claim =>
    simp only [step2With] at h
    split at h
    · cases h
    · cases h; exact .refl _
  | exec c nonce =>
    simp only [step2With] at h
    split at h
    · cases h
    · split at h
      · rename_i s2 hs2; cases h; exact execWith_steps cfg steps _ _ _ _ _ hs2
      · cases h

theorem runOps2_steps (cfg : Cfg) (ops : List Op2) (s : State2) : Steps cfg s.base (runOps2 cfg s ops).base := by
  induction ops generalizing s with
  | nil => exact .refl _
  | cons op ops ih =>
    simp only [runOps2, List.foldl_cons] at ih ⊢
    unfold stepT2
    cases h : step2 cfg s op with
    | error e => exact ih s
    | ok s' => exact Steps.trans (step2With_steps cfg execSteps s s' op h) (ih s')

/-! ### an observed event is credited at most once -/

/-- what the observed claims of event (c, nonce) deposit in group g (event nonces are unique, so this is one claim) -/
def claimedFor (s : State2) (c nonce g : Nat) : Nat :=
  (s.seen.map (fun e => if e.1 = c ∧ e.2.1 = nonce then tokensValue g e.2.2.amounts else 0)).sum

def pendingOn (s : State2) (c nonce : Nat) : Prop := ∃ p ∈ s.pend c, p.nonce = nonce

/-- the invariant: pending claims were observed; an event still pending has credited nothing, an executed one at most
what its claim says -/
structure CredInv (s : State2) : Prop where
  pend_seen : ∀ c, ∀ p ∈ s.pend c, (c, p.nonce, p.claim) ∈ s.seen
  pend_zero : ∀ c n g, pendingOn s c n → creditedFor s c n g = 0
  le_claimed : ∀ c n g, creditedFor s c n g ≤ claimedFor s c n g

theorem claimedFor_mem (s : State2) (c n g : Nat) (cl : Claim) (h : (c, n, cl) ∈ s.seen) :
    tokensValue g cl.amounts ≤ claimedFor s c n g := by
  unfold claimedFor
  generalize s.seen = l at h
  induction l with
  | nil => cases h
  | cons e es ih =>
    simp only [List.mem_cons] at h
    simp only [List.map_cons, List.sum_cons]
    rcases h with rfl | h
    · simp
    · have := ih h; omega

theorem findPend_some {l : List PClaim} {n : Nat} {cl : Claim} (h : findPend l n = some cl) :
    ∃ p ∈ l, p.nonce = n ∧ p.claim = cl := by
  unfold findPend at h
  cases hf : l.find? (fun p => p.nonce == n) with
  | none => simp [hf] at h
  | some p =>
    simp only [hf, Option.map_some, Option.some.injEq] at h
    refine ⟨p, List.mem_of_find?_eq_some hf, ?_, h⟩
    have := List.find?_some hf
    simpa using this

theorem credit_entries (c n : Nat) (ts : List (Nat × Nat)) (c' n' g : Nat) :
    ((ts.map (fun t => (c, n, t.1, t.2))).map
      (fun e : Nat × Nat × Nat × Nat => if e.1 = c' ∧ e.2.1 = n' ∧ e.2.2.1 = g then e.2.2.2 else 0)).sum =
      if c = c' ∧ n = n' then tokensValue g ts else 0 := by
  induction ts with
  | nil => simp [tokensValue]
  | cons t ts ih =>
    simp only [List.map_cons, List.sum_cons, ih, tokensValue]
    by_cases h : c = c' ∧ n = n'
    · obtain ⟨rfl, rfl⟩ := h; simp
    · simp only [h, ↓reduceIte, Nat.add_zero]
      have : ¬ (c = c' ∧ n = n' ∧ t.1 = g) := fun hh => h ⟨hh.1, hh.2.1⟩
      simp [this]

theorem creditedFor_afterHandle (s : State2) (c0 n0 : Nat) (cl : Claim) (b : State) (c n g : Nat) :
    creditedFor (afterHandle s c0 n0 cl b) c n g =
      creditedFor s c n g + if c0 = c ∧ n0 = n then tokensValue g cl.amounts else 0 := by
  simp only [creditedFor, afterHandle, List.map_append, List.sum_append]
  congr 1
  exact credit_entries c0 n0 cl.amounts c n g

theorem mem_erasePend {l : List PClaim} {n : Nat} {p : PClaim} (h : p ∈ erasePend l n) : p ∈ l ∧ p.nonce ≠ n := by
  simp only [erasePend, List.mem_filter, bne_iff_ne, ne_eq] at h; exact h

/-- with the statement order of the source — look up, DELETE, then handle — `ExecuteClaim` keeps the invariant, whatever
the nested re-entrant calls do (they keep it by induction) -/
theorem runX_cred (cfg : Cfg) (nested : State2 → Nat → Nat → Except XErr State2)
    (hn : ∀ s c m s', nested s c m = .ok s' → CredInv s → CredInv s' ∧ s'.seen = s.seen)
    (c nonce : Nat) (s s' : State2) (h : runX cfg nested c nonce execSteps s none = .ok s') (hi : CredInv s) :
    CredInv s' ∧ s'.seen = s.seen := by
  simp only [execSteps, runX] at h
  cases hf : findPend (s.pend c) nonce with
  | none => simp [hf] at h
  | some cl =>
    simp only [hf] at h
    obtain ⟨p, hp, hpn, hpc⟩ := findPend_some hf
    have hseen : (c, nonce, cl) ∈ s.seen := by have := hi.pend_seen c p hp; rwa [hpn, hpc] at this
    have hzero : ∀ g, creditedFor s c nonce g = 0 := fun g => hi.pend_zero c nonce g ⟨p, hp, hpn⟩
    cases hb : step cfg (setPend s c (erasePend (s.pend c) nonce)).base (cl.handler c) with
    | error e => simp [hb] at h
    | ok b =>
      simp only [hb] at h
      -- the state after delete + handle
      generalize hs1 : afterHandle (setPend s c (erasePend (s.pend c) nonce)) c nonce cl b = s1 at h
      have hi1 : CredInv s1 ∧ s1.seen = s.seen := by
        subst hs1
        refine ⟨⟨?_, ?_, ?_⟩, rfl⟩
        · intro c' p' hp'
          simp only [afterHandle, setPend] at hp'
          split at hp'
          · rename_i hc; subst hc; exact hi.pend_seen _ p' (mem_erasePend hp').1
          · exact hi.pend_seen c' p' hp'
        · intro c' n' g hpend
          rw [creditedFor_afterHandle]
          obtain ⟨p', hp', hn'⟩ := hpend
          simp only [afterHandle, setPend] at hp'
          have hcred : creditedFor (setPend s c (erasePend (s.pend c) nonce)) c' n' g = creditedFor s c' n' g := rfl
          rw [hcred]
          split at hp'
          · rename_i hc; subst hc
            have := mem_erasePend hp'
            have hne : ¬ nonce = n' := fun hh => this.2 (hn'.trans hh.symm)
            have h0 := hi.pend_zero c' n' g ⟨p', this.1, hn'⟩
            simp [hne, h0]
          · rename_i hc
            have hne : ¬ (c = c' ∧ nonce = n') := fun hh => hc hh.1.symm
            simp only [hne, ↓reduceIte, Nat.add_zero]
            exact hi.pend_zero c' n' g ⟨p', hp', hn'⟩
        · intro c' n' g
          rw [creditedFor_afterHandle]
          have hcred : creditedFor (setPend s c (erasePend (s.pend c) nonce)) c' n' g = creditedFor s c' n' g := rfl
          have hcl : claimedFor (afterHandle (setPend s c (erasePend (s.pend c) nonce)) c nonce cl b) c' n' g =
              claimedFor s c' n' g := rfl
          rw [hcred, hcl]
          by_cases hh : c = c' ∧ nonce = n'
          · obtain ⟨rfl, rfl⟩ := hh
            simp only [and_self, ↓reduceIte, hzero g, Nat.zero_add]
            exact claimedFor_mem s c nonce g cl hseen
          · simp only [hh, ↓reduceIte, Nat.add_zero]; exact hi.le_claimed c' n' g
      cases hre : cl.reenters with
      | none => simp only [hre, Except.ok.injEq] at h; subst h; exact hi1
      | some cm =>
        obtain ⟨c', m⟩ := cm
        simp only [hre] at h
        cases hnest : nested s1 c' m with
        | ok s2 =>
          simp only [hnest, Except.ok.injEq] at h; subst h
          have := hn _ _ _ _ hnest hi1.1
          exact ⟨this.1, this.2.trans hi1.2⟩
        | error e =>
          cases e with
          | err e' => simp only [hnest, Except.ok.injEq] at h; subst h; exact hi1
          | panic => simp [hnest] at h

theorem execWith_cred (cfg : Cfg) :
    ∀ (fuel : Nat) (s : State2) (c nonce : Nat) (s' : State2),
      execWith cfg execSteps fuel s c nonce = .ok s' → CredInv s → CredInv s' ∧ s'.seen = s.seen := by
  intro fuel
  induction fuel with
  | zero => intro s c nonce s' h; simp [execWith] at h
  | succ fuel ih =>
    intro s c nonce s' h hi
    simp only [execWith] at h
    exact runX_cred cfg _ (fun s c m s' h hi => ih s c m s' h hi) c nonce s s' h hi

theorem step2_cred (cfg : Cfg) (s s' : State2) (op : Op2) (h : step2 cfg s op = .ok s') (hi : CredInv s) :
    CredInv s' := by
  cases op with
  | base op =>
    simp only [step2, step2With] at h
    split at h
    · cases h
    · split at h
      · cases h; exact ⟨hi.pend_seen, hi.pend_zero, hi.le_claimed⟩
      · cases h
  | exec c nonce =>
    simp only [step2, step2With] at h
    split at h
    · cases h
    · split at h
      · rename_i s2 hs2; cases h; exact (execWith_cred cfg _ _ _ _ _ hs2 hi).1
      · cases h
  | observe c nonce claim =>
    simp only [step2, step2With] at h
    split at h
    · cases h
    · rename_i hfresh
      cases h
      simp only [not_or, List.any_eq_true, not_exists, not_and, Bool.and_eq_true, beq_iff_eq] at hfresh
      have hnew : ∀ cl, (c, nonce, cl) ∉ s.seen := fun cl hm => hfresh.2 _ hm rfl rfl
      have hclaimed0 : ∀ g, claimedFor s c nonce g = 0 := by
        intro g
        unfold claimedFor
        have : ∀ l : List (Nat × Nat × Claim), (∀ cl, (c, nonce, cl) ∉ l) →
            (l.map (fun e => if e.1 = c ∧ e.2.1 = nonce then tokensValue g e.2.2.amounts else 0)).sum = 0 := by
          intro l
          induction l with
          | nil => intro _; rfl
          | cons e es ih =>
            intro hl
            have he : ¬ (e.1 = c ∧ e.2.1 = nonce) := by
              intro hh; apply hl e.2.2; obtain ⟨e1, e2, e3⟩ := e; simp only at hh; obtain ⟨rfl, rfl⟩ := hh
              exact List.mem_cons_self
            simp only [List.map_cons, List.sum_cons, he, ↓reduceIte, Nat.zero_add]
            exact ih (fun cl hm => hl cl (List.mem_cons_of_mem _ hm))
        exact this _ hnew
      refine ⟨?_, ?_, ?_⟩
      · intro c' p hp
        simp only [setPend] at hp
        split at hp
        · rename_i hc; subst hc
          simp only [List.mem_cons] at hp ⊢
          rcases hp with rfl | hp
          · exact Or.inl rfl
          · exact Or.inr (hi.pend_seen _ p hp)
        · exact List.mem_cons_of_mem _ (hi.pend_seen c' p hp)
      · intro c' n' g hpend
        show creditedFor s c' n' g = 0
        obtain ⟨p, hp, hpn⟩ := hpend
        simp only [setPend] at hp
        split at hp
        · rename_i hc; subst hc
          simp only [List.mem_cons] at hp
          rcases hp with rfl | hp
          · have := hi.le_claimed c' nonce g; rw [hclaimed0 g] at this; simp only at hpn; subst hpn; omega
          · exact hi.pend_zero _ n' g ⟨p, hp, hpn⟩
        · exact hi.pend_zero c' n' g ⟨p, hp, hpn⟩
      · intro c' n' g
        have h1 : creditedFor ({ setPend s c (⟨nonce, claim⟩ :: s.pend c) with seen := (c, nonce, claim) :: s.seen } : State2)
            c' n' g = creditedFor s c' n' g := rfl
        rw [h1]
        have := hi.le_claimed c' n' g
        simp only [claimedFor, List.map_cons, List.sum_cons] at this ⊢
        omega

theorem init2_cred (s : State) : CredInv (init2 s) := by
  refine ⟨?_, ?_, ?_⟩
  · intro c p hp; cases hp
  · intro c n g _; rfl
  · intro c n g; simp [creditedFor, init2]

theorem runOps2_cred (cfg : Cfg) (ops : List Op2) (s : State2) (hi : CredInv s) : CredInv (runOps2 cfg s ops) := by
  induction ops generalizing s with
  | nil => exact hi
  | cons op ops ih =>
    simp only [runOps2, List.foldl_cons] at ih ⊢
    apply ih
    unfold stepT2
    cases h : step2 cfg s op with
    | error e => exact hi
    | ok s' => exact step2_cred cfg s s' op h hi

end FxVerif.Proofs.C04
