import FxVerif.Model.C19
import FxVerif.Proofs.C19
/-!
# C19 — round 5 helper lemmas: the regenerated credit program of the transfer application, genesis round trips
-/
namespace FxVerif.Proofs.C19
open FxVerif.Model.C19

/-! ## the transfer application's credit as regenerated -/

/-- the standard program credits, on EVERY denomination path, what the former hand model `appDenom` says -/
theorem appDenomBy_std (src dst : Ch) (pd : PDenom) : appDenomBy stdAppRecvProg src dst pd = appDenom src dst pd :=
  hookDenom_std src dst pd

/-- … by un-escrowing exactly the paths that start with the packet's source channel, and minting all others -/
theorem appKindBy_std (src dst : Ch) (pd : PDenom) :
    appKindBy stdAppRecvProg src dst pd = if pd.hops.head? = some src then "unescrow" else "mint" := by
  unfold appKindBy stdAppRecvProg
  by_cases h : pd.hops.head? = some src
  · simp (config := { decide := true }) [List.find?, evalPCond, chanSelOf, ChanSel.pick, h]
  · have hb : (pd.hops.head? == some src) = false := by simpa using h
    simp (config := { decide := true }) [List.find?, evalPCond, chanSelOf, ChanSel.pick, h, hb]

/-- the packet classes of the model: un-escrowed exactly when the model's `returning` says so -/
theorem appKindBy_pkt (src l : Ch) (t : Tok) :
    appKindBy stdAppRecvProg src l (pktDenom t src) = if returning t then "unescrow" else "mint" := by
  rw [appKindBy_std]
  cases t <;> simp [pktDenom, returning]

/-! ## genesis round trips -/

theorem genesisCtl_carried (c : Ctl) : genesisCtl true c = c := rfl

/-- everything but the relation store and the ghost log of tracked transfers survives -/
theorem genesisCtl_frame (carries : Bool) (c : Ctl) :
    (genesisCtl carries c).commits = c.commits ∧ (genesisCtl carries c).next = c.next ∧
    (genesisCtl carries c).refundLog = c.refundLog ∧ (genesisCtl carries c).ackedOk = c.ackedOk ∧
    (genesisCtl carries c).cp = c.cp ∧ (genesisCtl carries c).vmeta = c.vmeta := by
  cases carries <;> simp [genesisCtl]

theorem genesisCtl_rel (c : Ctl) : (genesisCtl false c).rel = [] := rfl

/-- the invariant survives a genesis round trip, whether or not the records travel -/
theorem inv_genesis (carries : Bool) (c : Ctl) (h : Inv c) : Inv (genesisCtl carries c) := by
  cases carries with
  | true => exact h
  | false =>
    have hsub : ∀ e, e ∈ c.evmSent.filter (fun e => !inflightA c e) → e ∈ c.evmSent ∧ inflightA c e = false := by
      intro e he
      have := List.mem_filter.mp he
      exact ⟨this.1, by simpa using this.2⟩
    refine ⟨h.fC, h.fR, h.fA, ?_, ?_, h.rNC, h.aNC, h.nodup, h.rNA, ?_, ?_, ?_⟩
    · intro e he; exact h.fE e (hsub e he).1
    · intro k hk; cases hk
    · intro e he; exact h.eData e (hsub e he).1
    · intro e he hA hc
      exfalso
      obtain ⟨x, hx, hxk⟩ := hc
      have hf := (hsub e he).2
      have : inflightA c e = true := by
        simp only [inflightA, Bool.and_eq_true, decide_eq_true_eq, List.any_eq_true]
        exact ⟨hA, x, hx, hxk⟩
      rw [this] at hf; cases hf
    · intro r hr e he; exact h.rE r hr e (hsub e he).1

theorem xstep_inv (cfg : Cfg) (hs : Sound cfg) (carries : Bool) (app : List (Gen.C19.PCond × String × Gen.C19.PRes))
    (x : XState) (o : XOp) (h : Inv x.st.ctl) : Inv (xstepWith cfg carries app x o).1.st.ctl := by
  cases o with
  | op o => exact step_inv cfg hs x.st o h
  | genesis => exact inv_genesis carries x.st.ctl h
  | denom l hops base => exact h

theorem xrun_inv (cfg : Cfg) (hs : Sound cfg) (carries : Bool) (app : List (Gen.C19.PCond × String × Gen.C19.PRes))
    (xs : List XOp) (x : XState) (h : Inv x.st.ctl) : Inv (xrunWith cfg carries app x xs).st.ctl := by
  induction xs generalizing x with
  | nil => exact h
  | cons o xs ih => exact ih _ (xstep_inv cfg hs carries app x o h)

/-- when the records travel, a history with genesis round trips is the history without them -/
theorem xrun_carried (cfg : Cfg) (app : List (Gen.C19.PCond × String × Gen.C19.PRes)) (xs : List XOp) (x : XState) :
    (xrunWith cfg true app x xs).st = runWith cfg x.st (xs.filterMap XOp.op?) := by
  induction xs generalizing x with
  | nil => rfl
  | cons o xs ih =>
    cases o with
    | op o => simp only [xrunWith, List.foldl_cons, List.filterMap_cons, XOp.op?, runWith] at ih ⊢; exact ih _
    | genesis =>
      simp only [xrunWith, List.foldl_cons, List.filterMap_cons, XOp.op?] at ih ⊢
      have : (xstepWith cfg true app x .genesis).1.st = x.st := rfl
      rw [ih, this]
    | denom l hops base =>
      simp only [xrunWith, List.foldl_cons, List.filterMap_cons, XOp.op?] at ih ⊢
      rw [ih]; rfl

/-- an orphan is an EVM-originated transfer of the aliased token that was committed when its record was dropped -/
theorem orphansOf_spec (c : Ctl) (e : SentRec) (he : e ∈ orphansOf false c) :
    e ∈ c.evmSent ∧ e.tok = .A ∧ ∃ x ∈ c.commits, x.1 = e.key := by
  have := List.mem_filter.mp he
  refine ⟨this.1, ?_⟩
  have h2 := this.2
  simp only [inflightA, Bool.and_eq_true, decide_eq_true_eq, List.any_eq_true] at h2
  exact h2

/-- The refund of a transfer of the aliased token whose record is NOT in the store (dropped by a genesis round trip) —
in any state: when the error acknowledgement / timeout is processed, no ERC-20 balance changes, the refund is logged
in bank form, and the store of records is what it was. -/
theorem settle_refund_orphan (cfg : Cfg) (hs : Sound cfg) (hE : cfg.ackErrRefunds = true) (hT : cfg.timeoutRefunds = true)
    (hG : cfg.refundGuarded = true) (s : State) (l : Ch) (seq : Seq) (p : Pkt) (mode : Mode) (hm : mode ≠ .ackOk)
    (hlk : lookup (l, seq) s.ctl.commits = some p) (hA : p.tok = .A) (hnot : (l, seq) ∉ s.ctl.rel) :
    (stepWith cfg s (.settle l seq mode)).2.isDone ∧
      (stepWith cfg s (.settle l seq mode)).1.bal.erc = s.bal.erc ∧
      (stepWith cfg s (.settle l seq mode)).1.ctl.refundLog = ⟨l, seq, p.sender, .A, p.amt, false⟩ :: s.ctl.refundLog ∧
      (stepWith cfg s (.settle l seq mode)).1.ctl.rel = s.ctl.rel := by
  have hfound : refundFound cfg s.ctl (l, seq) p = none := by
    rw [refundFound_src cfg hs.refundSees hs.refundChan hs.refundSeq hs.deleteReports]
    simp [hnot]
  have hform : refundForm cfg s.ctl (l, seq) p = false := by simp [refundForm, hfound, hG]
  have hmode : settleState cfg s l seq p mode = refundState cfg s l seq p true := by
    cases mode with
    | ackOk => exact absurd rfl hm
    | ackErr => simp [settleState, hE]
    | timeout => simp [settleState_std cfg _ _ _ _ hs.timeoutSteps, settleStateStd, hT]
  have hge : ¬ (sget (sadd s.bal.bank (p.sender, Denom.vA l) p.amt) (p.sender, Denom.vA l) < p.amt) := by
    rw [get_add]; simp
  simp only [stepWith, settle, hlk, hmode]
  simp only [refundState, refundApp, hA, returning, Bool.false_eq_true, ↓reduceIte, bankDenom, Bal.mint, refundHook,
    toBaseCoin, Denom.isIbc, Bool.not_true, hge, hform, refundCtl, hfound, dropRelOpt, doneOut]
  exact ⟨⟨_, _, _, _, _, _, _, rfl⟩, trivial, trivial, trivial⟩

end FxVerif.Proofs.C19
