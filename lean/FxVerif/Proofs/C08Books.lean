import FxVerif.Model.C08U
import FxVerif.Proofs.Ledger
import FxVerif.Proofs.C08Index
/-! helper lemmas for C08: the book equations over denominations / contracts and what every message does to them,
given the index invariant -/
namespace FxVerif.Proofs.C08
open FxVerif.Model.Ledger FxVerif.Model.Flows FxVerif.Model.C08 FxVerif.Proofs.Ledger

theorem coinAsset_inj {a b : Nat} (h : coinAsset a = coinAsset b) : a = b := by
  unfold coinAsset at h
  split at h <;> split at h <;> simp at h <;> omega

@[simp] theorem coinAsset_ne_erc (d ct : Nat) : coinAsset d ≠ Asset.erc ct := by
  unfold coinAsset; split <;> simp
@[simp] theorem erc_ne_coinAsset (d ct : Nat) : Asset.erc ct ≠ coinAsset d := fun h => coinAsset_ne_erc d ct h.symm

/-- **I_module** as "left − right": coins of denomination `d` escrowed for the pair (by the erc20 module account, or by
the WFX contract when `fx`) minus the total supply of the ERC-20 contract `ct` -/
def bookM (d ct : Nat) (fx : Bool) : Obs :=
  (balObs (coinAsset d) (if fx then .wfx else E)).add (supplyObs (.erc ct)).neg

theorem bookM_sound (d ct : Nat) (fx : Bool) : (bookM d ct fx).Sound :=
  add_sound (balObs_sound _ _) (neg_sound (supplyObs_sound _))

def kindFx : Kind → Bool → Prop
  | .fx, true => True
  | .moduleOwned, false => True
  | _, _ => False

macro "bookm" : tactic =>
  `(tactic| (simp_all [bookM, convertCoinU, convertERC20U, Obs.flowDelta, Obs.add, Obs.neg, balObs, supplyObs, E] <;> (try omega)))

theorem bookM_convertCoinU_same (d ct : Nat) (fx : Bool) (k : Kind) (hk : kindFx k fx) (s : Nat) (r : Addr) (n : Nat) :
    (bookM d ct fx).flowDelta (convertCoinU k d ct (.user s) r n) = 0 := by
  cases k <;> cases fx <;> simp [kindFx] at hk <;> bookm

theorem bookM_convertCoinU_other (d ct d' ct' : Nat) (fx : Bool) (k : Kind) (hd : d' ≠ d) (hc : ct' ≠ ct) (s : Nat) (r : Addr)
    (n : Nat) : (bookM d ct fx).flowDelta (convertCoinU k d' ct' (.user s) r n) = 0 := by
  have h1 : coinAsset d' ≠ coinAsset d := fun h => hd (coinAsset_inj h)
  cases k <;> cases fx <;> bookm

/-- ERC-20 → coin of the pair itself: balanced, unless the receiver of the coins is the pair's own escrow account — then
the coins come straight back and the escrow exceeds the (reduced) supply by `n` (a donation) -/
theorem bookM_convertERC20U_same (d ct : Nat) (fx : Bool) (k : Kind) (hk : kindFx k fx) (s : Nat) (r : Addr) (n : Nat) :
    (bookM d ct fx).flowDelta (convertERC20U k d ct (.user s) r n) =
      if r = (if fx then Addr.wfx else E) then (n : Int) else 0 := by
  cases k <;> cases fx <;> simp [kindFx] at hk <;>
    (by_cases hr : r = Addr.wfx <;> by_cases hr' : r = Addr.erc20Mod <;> bookm)

theorem bookM_convertERC20U_other (d ct d' ct' : Nat) (fx : Bool) (k : Kind) (hd : d' ≠ d) (hc : ct' ≠ ct) (s : Nat) (r : Addr)
    (n : Nat) : (bookM d ct fx).flowDelta (convertERC20U k d' ct' (.user s) r n) = 0 := by
  have h1 : coinAsset d' ≠ coinAsset d := fun h => hd (coinAsset_inj h)
  cases k <;> cases fx <;> bookm

theorem flowDelta_append (o : Obs) (a b : List Prim) : o.flowDelta (a ++ b) = o.flowDelta a + o.flowDelta b := by
  induction a with
  | nil => simp [Obs.flowDelta]
  | cons p ps ih => simp only [List.cons_append, Obs.flowDelta, ih]; omega

/-- `MsgConvertDenom`: the module book of `(d, ct)` is untouched, provided that whenever `d` itself is the source or
the target of the conversion it is the base denomination of the family and the branch taken is the pair's own -/
theorem bookM_convertDenomU (d ct : Nat) (fx : Bool) (k : Kind) (base : Nat) (aliases : List Nat) (src dst u r n : Nat)
    (hne : src ≠ dst)
    (hsrc : src = d → base = d ∧ kindFx k fx) (hdst : dst = d → base = d ∧ kindFx k fx) :
    (bookM d ct fx).flowDelta (convertDenomU k base aliases src dst u r n) = 0 := by
  have hinj : ∀ x, x ≠ d → coinAsset x ≠ coinAsset d := fun x hx h => hx (coinAsset_inj h)
  simp only [convertDenomU, flowDelta_append]
  cases fx with
  | true =>
    -- the FX book lives on the WFX contract's account, which `ConvertDenom` never touches
    have hmid : (bookM d ct true).flowDelta (convertDenomMid k base aliases src dst n) = 0 := by
      cases k <;> simp only [convertDenomMid] <;> (repeat' split) <;>
        simp [bookM, Obs.flowDelta, Obs.add, Obs.neg, balObs, supplyObs, E]
    rw [hmid]
    split <;> simp [bookM, Obs.flowDelta, Obs.add, Obs.neg, balObs, supplyObs, E]
  | false =>
    by_cases h1 : src = d
    · obtain ⟨hb, hk⟩ := hsrc h1
      have h2 : dst ≠ d := fun e => hne (h1.trans e.symm)
      have h2' := hinj _ h2
      subst h1; subst hb
      cases k <;> simp [kindFx] at hk
      simp only [convertDenomMid, ↓reduceIte]
      split <;> simp [bookM, Obs.flowDelta, Obs.add, Obs.neg, balObs, supplyObs, E, h2'] <;> omega
    · have h1' := hinj _ h1
      by_cases h2 : dst = d
      · obtain ⟨hb, hk⟩ := hdst h2
        subst h2; subst hb
        cases k <;> simp [kindFx] at hk
        simp only [convertDenomMid, h1, ↓reduceIte]
        split <;> simp [bookM, Obs.flowDelta, Obs.add, Obs.neg, balObs, supplyObs, E, h1'] <;> omega
      · have h2' := hinj _ h2
        have hmid : (bookM d ct false).flowDelta (convertDenomMid k base aliases src dst n) = 0 := by
          cases k <;> simp only [convertDenomMid] <;> (repeat' split) <;>
            simp [bookM, Obs.flowDelta, Obs.add, Obs.neg, balObs, supplyObs, E, h1', h2']
        rw [hmid]
        split <;> simp [bookM, Obs.flowDelta, Obs.add, Obs.neg, balObs, supplyObs, E, h1', h2']

/-! ### index facts used by the step theorems -/

theorem mintingEnabled_ok' {s : UState} {recv : Addr} {o : Option Pair} {p : Pair}
    (h : mintingEnabled s recv o = .ok p) : o = some p ∧ blocked recv = false ∧ s.enable = true ∧ p.enabled = true := by
  cases o with
  | none =>
    simp only [mintingEnabled, mintingEnabledG, codeGuards, List.findSome?, guardFails] at h
    (repeat' split at h) <;> simp_all
  | some q =>
    cases he : s.enable <;> cases hq : q.enabled <;> cases hb : blocked recv <;>
      simp [mintingEnabled, mintingEnabledG, codeGuards, List.findSome?, guardFails, he, hq, hb] at h
    subst h; exact ⟨rfl, rfl, rfl, hq⟩

theorem mintingEnabled_ok {s : UState} {recv : Addr} {o : Option Pair} {p : Pair}
    (h : mintingEnabled s recv o = .ok p) : o = some p := (mintingEnabled_ok' h).1

theorem pairByDenom_some {i : Idx} {d : Nat} {p : Pair} (h : pairByDenom i d = some p) :
    ∃ id, lookup d i.byDenom = some id ∧ lookup id i.pairs = some p := by
  simp only [pairByDenom] at h
  cases hl : lookup d i.byDenom with
  | none => simp [hl] at h
  | some id => exact ⟨id, rfl, by simpa [hl] using h⟩

theorem pairByErc_some {i : Idx} {ct : Nat} {p : Pair} (h : pairByErc i ct = some p) :
    ∃ id, lookup ct i.byErc = some id ∧ lookup id i.pairs = some p := by
  simp only [pairByErc] at h
  cases hl : lookup ct i.byErc with
  | none => simp [hl] at h
  | some id => exact ⟨id, rfl, by simpa [hl] using h⟩

/-- two registered pairs are the same pair or differ in both their denomination and their contract -/
theorem pairs_eq_or_disjoint {i : Idx} (hi : IdxInv i) {id id' : PairId} {p p' : Pair}
    (hp : lookup id i.pairs = some p) (hp' : lookup id' i.pairs = some p') :
    (id' = id ∧ p' = p) ∨ (p'.denom ≠ p.denom ∧ p'.contract ≠ p.contract) := by
  obtain ⟨h1, h2, h3⟩ := hi.pairs_ok _ _ hp
  obtain ⟨h1', h2', h3'⟩ := hi.pairs_ok _ _ hp'
  by_cases e : id' = id
  · left; subst e; rw [hp] at hp'; cases hp'; exact ⟨rfl, rfl⟩
  · right
    constructor
    · intro ed; rw [ed, h2] at h2'; exact e (Option.some.inj h2').symm
    · intro ec; rw [ec, h3] at h3'; exact e (Option.some.inj h3').symm

theorem toTargetDenom_cases (d base : Nat) (aliases : List Nat) (tgt : Option Nat) :
    toTargetDenom d base aliases tgt = base ∨ toTargetDenom d base aliases tgt ∈ aliases ∨ aliases = [] := by
  cases tgt with
  | none => left; rfl
  | some c =>
    simp only [toTargetDenom]
    split
    · rename_i hempty; right; right; simpa using hempty
    · split
      · rename_i a ha
        right; left; exact List.mem_of_find?_eq_some ha
      · left; rfl

theorem hasDenomAlias_some {i : Idx} {d : Nat} {as : List Nat} (h : hasDenomAlias i d = some as) :
    lookup d i.md = some as ∧ as ≠ [] := by
  simp only [hasDenomAlias] at h
  split at h
  · cases h; exact ⟨by assumption, by simp⟩
  · cases h

/-- the family `GetTargetCoin` finds: its base denomination is registered and the aliases are its metadata aliases -/
theorem familyOf_some {i : Idx} (hi : IdxInv i) {d base : Nat} {aliases : List Nat}
    (h : familyOf i d = some (base, aliases)) :
    (lookup base i.byDenom).isSome ∧ lookup base i.md = some aliases ∧ aliases ≠ [] ∧
    ((lookup d i.byDenom).isSome → base = d) := by
  simp only [familyOf] at h
  split at h
  · rename_i hreg
    cases hh : hasDenomAlias i d with
    | none => simp [hh] at h
    | some as =>
      simp only [hh, Option.map_some, Option.some.injEq, Prod.mk.injEq] at h
      obtain ⟨rfl, rfl⟩ := h
      exact ⟨hreg, (hasDenomAlias_some hh).1, (hasDenomAlias_some hh).2, fun _ => rfl⟩
  · rename_i hreg
    split at h
    · cases h
    · rename_i b hb
      cases hh : hasDenomAlias i b with
      | none => simp [hh] at h
      | some as =>
        simp only [hh, Option.map_some, Option.some.injEq, Prod.mk.injEq] at h
        obtain ⟨rfl, rfl⟩ := h
        exact ⟨(hi.alias_ok _ _ hb).1, (hasDenomAlias_some hh).1, (hasDenomAlias_some hh).2, fun hr => absurd hr hreg⟩

theorem stepU_idx_ok {s s' : UState} {op : IOp} (h : stepU s (.idx op) = .ok s') :
    ∃ i, stepIdx s.idx op = .ok i ∧ s' = { s with idx := i } := by
  simp only [stepU] at h
  split at h; · cases h
  split at h
  · rename_i i hi; cases h; exact ⟨i, hi, rfl⟩
  · cases h

/-- what a successful `MsgConvertCoin` did: the pair registered for the message's denomination was found, the receiver is
not a blocked address, and either the pair was removed (dead contract) or the pair's flow ran -/
theorem stepU_convertCoin_ok (s s' : UState) (d u r n : Nat) (h : stepU s (.convertCoin d u r n) = .ok s') :
    ∃ p, pairByDenom s.idx d = some p ∧ blocked (partyAddr r) = false ∧
      ((s.dead.contains p.contract = true ∧ s' = { s with idx := removePair s.idx p }) ∨
       (s.dead.contains p.contract = false ∧
          ∃ L', runFlow (convertCoinU p.kind d p.contract (.user u) (partyAddr r) n) s.L = .ok L' ∧ s' = { s with L := L' })) := by
  simp only [stepU] at h
  split at h; · cases h
  rename_i p hme
  obtain ⟨h1, h2, _, _⟩ := mintingEnabled_ok' hme
  refine ⟨p, h1, h2, ?_⟩
  split at h
  · rename_i hd; cases h; exact Or.inl ⟨hd, rfl⟩
  · rename_i hd
    split at h; · cases h
    simp only [UState.withLedger] at h
    split at h
    · rename_i L' hr; cases h; exact Or.inr ⟨by simpa using hd, L', hr, rfl⟩
    · cases h

theorem stepU_convertERC20_ok (s s' : UState) (ct u r n : Nat) (h : stepU s (.convertERC20 ct u r n) = .ok s') :
    ∃ p, pairByErc s.idx ct = some p ∧ blocked (partyAddr r) = false ∧
      ((s.dead.contains p.contract = true ∧ s' = { s with idx := removePair s.idx p }) ∨
       (s.dead.contains p.contract = false ∧
          ∃ L', runFlow (convertERC20U p.kind p.denom p.contract (.user u) (partyAddr r) n) s.L = .ok L' ∧
            s' = { s with L := L' })) := by
  simp only [stepU] at h
  split at h; · cases h
  rename_i p hme
  obtain ⟨h1, h2, _, _⟩ := mintingEnabled_ok' hme
  refine ⟨p, h1, h2, ?_⟩
  split at h
  · rename_i hd; cases h; exact Or.inl ⟨hd, rfl⟩
  · rename_i hd
    simp only [UState.withLedger] at h
    split at h
    · rename_i L' hr; cases h; exact Or.inr ⟨by simpa using hd, L', hr, rfl⟩
    · cases h

/-- what a message adds to the book of the module-owned pair `(d, ct)` from outside the conversion itself: ERC-20 → coin
of the pair with the pair's own escrow account (the WFX contract for the native coin) named as receiver — the coins come
straight back (a donation to the escrow).  The erc20 module account cannot be named: it is a blocked address. -/
def donationM (dead : List Nat) (d ct : Nat) : UOp → Int
  | .convertERC20 ct' _ r n =>
    if ct' = ct ∧ dead.contains ct = false ∧ partyAddr r = (if d = 0 then Addr.wfx else E) then (n : Int) else 0
  | _ => 0

/-! ### I_module, one message -/

/-- every message of the erc20 module keeps the book of every registered module-owned pair, up to donations -/
theorem bookM_stepU (s s' : UState) (hi : IdxInv s.idx) (id : PairId) (p : Pair) (hp : lookup id s.idx.pairs = some p)
    (hext : p.external = false) (op : UOp) (h : stepU s op = .ok s') :
    (bookM p.denom p.contract (decide (p.denom = 0))).val s'.L =
      (bookM p.denom p.contract (decide (p.denom = 0))).val s.L + donationM s.dead p.denom p.contract op := by
  obtain ⟨hid, hden, herc⟩ := hi.pairs_ok _ _ hp
  have hkind : kindFx p.kind (decide (p.denom = 0)) := by
    simp only [Pair.kind, hext, Bool.false_eq_true, ↓reduceIte]
    by_cases h0 : p.denom = 0 <;> simp [h0, kindFx]
  cases op with
  | convertCoin d u r n =>
    obtain ⟨p', hpd, _, hcase⟩ := stepU_convertCoin_ok s s' d u r n h
    obtain ⟨id', hl', hp'⟩ := pairByDenom_some hpd
    have hd' : p'.denom = d := by
      obtain ⟨q, hq, hqd⟩ := hi.byDenom_ok _ _ hl'
      rw [hp'] at hq; cases hq; exact hqd
    simp only [donationM]
    rcases hcase with ⟨_, rfl⟩ | ⟨_, L', hrun, rfl⟩
    · simp
    · rw [runFlow_obs (bookM_sound _ _ _) _ _ _ hrun]
      rcases pairs_eq_or_disjoint hi hp hp' with ⟨_, rfl⟩ | ⟨hnd, hnc⟩
      · rw [← hd', bookM_convertCoinU_same _ _ _ _ hkind]
      · rw [bookM_convertCoinU_other _ _ _ _ _ _ (hd' ▸ hnd) hnc]
  | convertERC20 ct u r n =>
    obtain ⟨p', hpe, _, hcase⟩ := stepU_convertERC20_ok s s' ct u r n h
    obtain ⟨id', hl', hp'⟩ := pairByErc_some hpe
    have hc' : p'.contract = ct := by
      obtain ⟨q, hq, hqc⟩ := hi.byErc_ok _ _ hl'
      rw [hp'] at hq; cases hq; exact hqc
    simp only [donationM]
    rcases pairs_eq_or_disjoint hi hp hp' with ⟨_, rfl⟩ | ⟨hnd, hnc⟩
    · rcases hcase with ⟨hdead, rfl⟩ | ⟨hlive, L', hrun, rfl⟩
      · have hd2 : ct ∈ s.dead := by simpa [hc'] using hdead
        simp [hc', hd2]
      · have hl2 : s.dead.contains ct = false := hc' ▸ hlive
        have hl3 : ¬ ct ∈ s.dead := by simpa using hl2
        rw [runFlow_obs (bookM_sound _ _ _) _ _ _ hrun, bookM_convertERC20U_same _ _ _ _ hkind]
        by_cases h0 : p'.denom = 0 <;> simp [hc', hl3, h0]
    · have : ¬ ct = p.contract := fun e => hnc (hc'.trans e)
      rcases hcase with ⟨_, rfl⟩ | ⟨_, L', hrun, rfl⟩
      · simp [this]
      · rw [runFlow_obs (bookM_sound _ _ _) _ _ _ hrun, bookM_convertERC20U_other _ _ _ _ _ _ hnd hnc]
        simp [this]
  | convertDenom d u r n tgt =>
    simp only [stepU] at h
    split at h; · cases h
    rename_i base aliases hfam
    obtain ⟨hbreg, hbmd, hne, hbase⟩ := familyOf_some hi hfam
    split at h; · cases h
    rename_i hdst
    split at h
    · split at h <;> cases h
    · rename_i pb hpb
      obtain ⟨idb, hlb, hppb⟩ := pairByDenom_some hpb
      simp only [UState.withLedger] at h
      split at h
      · rename_i L' hrun
        cases h
        rw [runFlow_obs (bookM_sound _ _ _) _ _ _ hrun]
        -- if the family's base is the pair's denomination, the pair found is the pair itself
        have hsame : base = p.denom → kindFx (denomMode base pb) (decide (p.denom = 0)) := by
          intro e
          subst e
          rw [hden] at hlb; cases hlb
          rw [hp] at hppb; cases hppb
          simp only [denomMode, hext, Bool.false_eq_true, ↓reduceIte]
          by_cases h0 : p.denom = 0 <;> simp [h0, kindFx]
        rw [bookM_convertDenomU _ _ _ _ _ _ _ _ _ _ _ (fun e => hdst e.symm)]
        · simp [donationM]
        · intro e
          have hb := hbase (by rw [e, hden]; rfl)
          exact ⟨hb.trans e, hsame (hb.trans e)⟩
        · intro e
          rcases toTargetDenom_cases d base aliases tgt with hb | hin | hnil
          · exact ⟨hb.symm.trans e, hsame (hb.symm.trans e)⟩
          · -- an alias is never a registered denomination
            have := hi.md_ok _ _ hbreg hbmd _ hin
            have := hi.disj _ _ this
            rw [e, hden] at this; cases this
          · exact absurd hnil hne
      · cases h
  | idx iop =>
    obtain ⟨i, _, rfl⟩ := stepU_idx_ok h; simp [donationM]
  | setEnable b =>
    simp only [stepU] at h; cases h; simp [donationM]

end FxVerif.Proofs.C08
