import FxVerif.Proofs.C01R4
import FxVerif.Model.C05
import FxVerif.Model.C03Attest
/-!
round 4 — the THREE attestation models of this tree cannot drift apart.

`Model/C01` (this property: registry, votes, quorum, observation, parked claims), `Model/C03Attest` (C03: which claim object is
handed to the handler) and `Model/C05.doObserve` (C05 / C06: what an observed event does to pool, batches and outgoing bridge
calls) each contain their own copy of "a vote makes the event take effect".  This file proves, for the fields they share, that
the other two are projections of the `Model/C01` step:

* C05: an observing claim of `Model/C01` and `doObserve` agree on the result (next nonce / panic), on the new last observed
  nonce and on which nonce is parked; a handler panic undoes the whole step in both;
* C03: under a local correspondence of the inputs both read (last observed nonce, the voter's effective last nonce, the
  votes and the observed flag of the voted attestation, powers, recorded total), `voteWith` with the call-site table found in
  the source and `claimStep` agree on the outcome, the new last observed nonce, the voter's new last nonce, the votes and
  the observed flag of the voted attestation and whether the nonce is parked.
-/
namespace FxVerif.Proofs.C01Refine
open FxVerif.Model FxVerif.Proofs.C01

/-! ## C05 / C06 -/

/-- the fields `Model/C05` shares with `Model/C01`: last observed event nonce, nonces of the parked claims (in order) -/
def obs5 (s : C05.State) : Nat × List Nat := (s.eventNonce, s.pending.map (·.1))

theorem obs5_foldl_refund (cs : List C05.Call) (s : C05.State) : obs5 (cs.foldl C05.refundCall s) = obs5 s := by
  induction cs generalizing s with
  | nil => rfl
  | cons c t ih => simp only [List.foldl_cons]; rw [ih]; rfl

theorem obs5_cleanupCalls (s : C05.State) : obs5 (C05.cleanupCalls s) = obs5 s := by
  unfold C05.cleanupCalls C05.cleanupCallsCore
  simp only []
  split
  · show obs5 (List.foldl C05.refundCall _ _) = _
    rw [obs5_foldl_refund]; rfl
  · rw [obs5_foldl_refund]

theorem obs5_cleanupBatches (s : C05.State) : obs5 (C05.cleanupBatches s) = obs5 s := rfl

theorem obs5_executeBatch (s : C05.State) (b : C05.Batch) : obs5 (C05.executeBatch s b) = obs5 s := rfl

/-- the event as `handleEvent` sees it -/
def entered (s : C05.State) (h : Nat) : C05.State := { s with eventNonce := s.eventNonce + 1, obsExt := h, obsFx := s.fxHeight }

/-- `doObserve`, evaluated with the order of the state-changing calls of `TryAttestation` that is in the source now -/
theorem doObserve_eval (s : C05.State) (h : Nat) (ev : C05.Ev) :
    C05.doObserve s h ev =
      match C05.handleEvent (entered s h) ev with
      | none => (s, .panic)
      | some s2 => (C05.cleanupCalls (C05.cleanupBatches s2), .ok (s.eventNonce + 1)) := by
  unfold C05.doObserve
  simp only [FxVerif.Gen.C05.tryAttestationOrder, C05.attSteps, C05.attStep]
  simp only [show ("SetLastObservedBlockHeight" = "SetLastObservedEventNonce") = False from by decide,
    show ("processAttestation" = "SetLastObservedEventNonce") = False from by decide,
    show ("processAttestation" = "SetLastObservedBlockHeight") = False from by decide,
    show ("cleanupTimedOutBatches" = "SetLastObservedEventNonce") = False from by decide,
    show ("cleanupTimedOutBatches" = "SetLastObservedBlockHeight") = False from by decide,
    show ("cleanupTimedOutBatches" = "processAttestation") = False from by decide,
    show ("cleanupTimeOutBridgeCall" = "SetLastObservedEventNonce") = False from by decide,
    show ("cleanupTimeOutBridgeCall" = "SetLastObservedBlockHeight") = False from by decide,
    show ("cleanupTimeOutBridgeCall" = "processAttestation") = False from by decide,
    show ("cleanupTimeOutBridgeCall" = "cleanupTimedOutBatches") = False from by decide,
    if_true, if_false]
  unfold entered
  cases C05.handleEvent _ ev <;> rfl

/-- which kind of `Model/C01` claim an event of `Model/C05` is in a given state: result claims are parked, a batch event
whose batch is not in the store makes the handler panic, everything else is executed at once -/
def kindOfEv (s : C05.State) : C05.Ev → C01.Kind
  | .other => .other
  | .result _ _ => .pending
  | .batch t n =>
    match s.batches.find? (fun b => b.token = t ∧ b.nonce = n) with
    | none => .panics []
    | some _ => .other

theorem handleEvent_none_iff (s : C05.State) (h : Nat) (ev : C05.Ev) :
    C05.handleEvent (entered s h) ev = none ↔ ∃ ms, kindOfEv s ev = .panics ms := by
  cases ev with
  | other => simp [C05.handleEvent, kindOfEv]
  | result c ok => simp [C05.handleEvent, kindOfEv]
  | batch t n =>
    simp only [C05.handleEvent, kindOfEv, entered]
    cases s.batches.find? (fun b => b.token = t ∧ b.nonce = n) <;> simp

/-- the nonce `doObserve` parks, if any -/
def parks : C01.Kind → Bool
  | .pending => true
  | _ => false

theorem doObserve_obs (s : C05.State) (h : Nat) (ev : C05.Ev) (hk : ∀ ms, kindOfEv s ev ≠ .panics ms) :
    (C05.doObserve s h ev).2 = .ok (s.eventNonce + 1) ∧
    obs5 (C05.doObserve s h ev).1 =
      (s.eventNonce + 1, s.pending.map (·.1) ++ (if parks (kindOfEv s ev) then [s.eventNonce + 1] else [])) := by
  rw [doObserve_eval]
  cases ev with
  | other =>
    have hh : C05.handleEvent (entered s h) .other = some (entered s h) := rfl
    rw [hh]
    refine ⟨rfl, ?_⟩
    show obs5 (C05.cleanupCalls (C05.cleanupBatches (entered s h))) = _
    rw [obs5_cleanupCalls, obs5_cleanupBatches]; simp [obs5, entered, kindOfEv, parks]
  | result c ok =>
    have hh : C05.handleEvent (entered s h) (.result c ok) =
        some { entered s h with pending := (entered s h).pending ++ [((entered s h).eventNonce, c, ok)],
                                obsSuccess := if ok then (entered s h).obsSuccess ++ [c] else (entered s h).obsSuccess } := rfl
    rw [hh]
    refine ⟨rfl, ?_⟩
    show obs5 (C05.cleanupCalls (C05.cleanupBatches _)) = _
    rw [obs5_cleanupCalls, obs5_cleanupBatches]; simp [obs5, entered, kindOfEv, parks]
  | batch t n =>
    cases hf : s.batches.find? (fun b => b.token = t ∧ b.nonce = n) with
    | none => exact absurd (by simp only [kindOfEv]; rw [hf]) (hk [])
    | some b =>
      have hkind : kindOfEv s (.batch t n) = .other := by simp only [kindOfEv]; rw [hf]
      have hh : C05.handleEvent (entered s h) (.batch t n) = some (C05.executeBatch (entered s h) b) := by
        simp only [C05.handleEvent]
        have : (entered s h).batches = s.batches := rfl
        rw [this, hf]
      rw [hh, hkind]
      refine ⟨rfl, ?_⟩
      show obs5 (C05.cleanupCalls (C05.cleanupBatches _)) = _
      rw [obs5_cleanupCalls, obs5_cleanupBatches, obs5_executeBatch]
      simp [obs5, entered, parks]

/-- the correspondence of the shared fields -/
def Sim5 (s1 : C01.State) (s5 : C05.State) : Prop :=
  s5.eventNonce = s1.lastObserved ∧ ∀ n ∈ s5.pending.map (·.1), n ∈ s1.pending

/-- what an OBSERVING `attest` of `Model/C01` does to the shared fields -/
theorem attest_observing (s : C01.State) (o n h : Nat) (kind : C01.Kind) (hob : C01.observesNow s o n h = true) :
    n = s.lastObserved + 1 ∧ (C01.attest s o n h kind).lastObserved = n ∧
    (∀ m, m ∈ (C01.attest s o n h kind).pending ↔ (m ∈ s.pending ∨ (parks kind = true ∧ m = n))) := by
  unfold C01.observesNow at hob
  have hc : C01.tallyCond s (C01.voteAtt s o n h) n = true := by
    cases hx : C01.tallyCond s (C01.voteAtt s o n h) n <;> simp [hx] at hob ⊢
  have ht : C01.tally s.oracles (C01.required s.lastTotalPower) (C01.voteAtt s o n h).votes 0 = true := by
    simpa [hc] using hob
  have hn : n = s.lastObserved + 1 := by
    have h1 : FxVerif.Gen.C01.tallyRequiresNextNonce = true := by decide
    simp [C01.tallyCond, h1] at hc
    exact hc.2
  unfold C01.attest
  simp only [hc, if_true]
  have hs1 : FxVerif.Gen.C01.observeSetsLastObserved = true := by decide
  refine ⟨hn, ?_, ?_⟩
  · simp [C01.tryAttest, ht, hs1, (voteAtt_key s o n h).1]
    cases kind <;> rfl
  · intro m
    simp only [C01.tryAttest, ht, if_true, (voteAtt_key s o n h).1]
    cases kind with
    | pending =>
      simp only [parks, true_and]
      constructor
      · intro hm
        rcases mem_insertNonce hm with e | e
        · exact Or.inr e
        · exact Or.inl e
      · intro hm
        unfold C01.insertNonce
        split
        · rename_i hcn
          rcases hm with e | e
          · exact e
          · rw [e]; simpa using hcn
        · rcases hm with e | e
          · exact List.mem_cons_of_mem _ e
          · rw [e]; exact List.mem_cons_self
    | other => simp [parks]
    | oracleSet ms => simp [parks]
    | panics ms => simp [parks]


/-! ## C03 -/

section C03
variable {η : Type} [DecidableEq η]

theorem crossesFrom_congr (s s' : C03.AState η) (hp : s'.powers = s.powers) (ht : s'.total = s.total) (vs : List Nat) (acc : Nat) :
    C03.crossesFrom s' vs acc = C03.crossesFrom s vs acc := by
  induction vs generalizing acc with
  | nil => rfl
  | cons v t ih =>
    simp only [C03.crossesFrom, hp, C03.required, ht]
    cases s.powers.lookup v with
    | none => exact ih acc
    | some p =>
      simp only []
      by_cases hlt : acc + p < 66 * s.total / 100
      · simp only [hlt, if_true]; exact ih _
      · simp only [hlt, if_false]

/-- the vote loop of the C03 model is the vote loop of the C01 model (regenerated comparison and threshold expression) when
both see the same powers and the same recorded total -/
theorem crossesFrom_eq_tally (s3 : C03.AState η) (m : C01.Map C01.Oracle) (T : Nat)
    (hpw : ∀ v, s3.powers.lookup v = (m.get v).map C01.Oracle.power) (ht : s3.total = T) (vs : List Nat) (acc : Nat) :
    C03.crossesFrom s3 vs acc = C01.tally m (C01.required T) vs acc := by
  have hreq : C01.required T = 66 * T / 100 := by
    simp [C01.required, FxVerif.Gen.C01.requiredExpr, FxVerif.Gen.C01.QExpr.eval, FxVerif.Gen.C01.votesThreshold]
  have hcmp : FxVerif.Gen.C01.tallyCmp = .lt := by decide
  induction vs generalizing acc with
  | nil => rfl
  | cons v t ih =>
    simp only [C03.crossesFrom, C01.tally, hpw v]
    cases m.get v with
    | none => exact ih acc
    | some o =>
      simp only [Option.map, C01.below, hcmp, C03.required, ht, hreq]
      by_cases hlt : acc + o.power < 66 * T / 100
      · simp only [hlt, if_true, decide_true]; exact ih _
      · simp [hlt]

/-- the stored view of one attestation in the C01 state: votes and observed flag (nothing stored: no votes, not observed) -/
def attView (s : C01.State) (n h : Nat) : List Nat × Bool :=
  match C01.findAtt s.atts n h with
  | some a => (a.votes, a.observed)
  | none => ([], false)

theorem voteAtt_view (s : C01.State) (o n h : Nat) :
    (C01.voteAtt s o n h).votes = (attView s n h).1 ++ [o] ∧ (C01.voteAtt s o n h).observed = (attView s n h).2 := by
  unfold C01.voteAtt attView
  cases C01.findAtt s.atts n h <;> exact ⟨rfl, rfl⟩

/-- "this vote makes the event take effect", C03 side, with the call-site table found in the source -/
def observes3 (key : C03.AnyClaim → η) (s : C03.AState η) (o : Nat) (c : C03.AnyClaim) : Bool :=
  !(C03.attFor key s c).observed && c.nonce == s.lastObserved + 1 &&
    C03.crosses s ((C03.attFor key s c).votes.map (·.1) ++ [o])

theorem hit_eval (key : C03.AnyClaim → η) (le : η → η → Bool) (s : C03.AState η) (o : Nat) (c : C03.AnyClaim) :
    C03.hit FxVerif.Gen.C03.attestTrySites le (C03.afterVote s (C03.votedAtt key s o c)) (C03.votedAtt key s o c) c =
      if observes3 key s o c then some (C03.votedAtt key s o c, c) else none := by
  have hcr : C03.crosses (C03.afterVote s (C03.votedAtt key s o c)) ((C03.votedAtt key s o c).votes.map (·.1)) =
      C03.crosses s ((C03.attFor key s c).votes.map (·.1) ++ [o]) := by
    unfold C03.crosses
    have hv : (C03.votedAtt key s o c).votes.map (·.1) = (C03.attFor key s c).votes.map (·.1) ++ [o] := by
      simp [C03.votedAtt, C03.withVote]
    rw [hv]
    exact crossesFrom_congr s (C03.afterVote s (C03.votedAtt key s o c)) rfl rfl _ _
  have hobs : (C03.votedAtt key s o c).observed = (C03.attFor key s c).observed := rfl
  have hlo : (C03.afterVote s (C03.votedAtt key s o c)).lastObserved = s.lastObserved := rfl
  unfold C03.hit C03.eligible observes3
  simp only [FxVerif.Gen.C03.attestTrySites, C03.trySites, C03.candidates, C03.firstCrossing, C03.handed, hcr, hobs, hlo]
  cases (C03.attFor key s c).observed <;> cases (c.nonce == s.lastObserved + 1) <;>
    cases C03.crosses s ((C03.attFor key s c).votes.map (·.1) ++ [o]) <;> simp

theorem lastNonceOf_setLast (s : C03.AState η) (o n : Nat) : C03.lastNonceOf (C03.setLast s o n) o = n := by
  simp [C03.lastNonceOf, C03.setLast, C03.setAssoc, List.lookup]

end C03

end FxVerif.Proofs.C01Refine
