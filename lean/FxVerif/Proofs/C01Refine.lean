import FxVerif.Proofs.C01R4
import FxVerif.Model.C05
import FxVerif.Model.C03Attest
/-!
round 4 — the THREE attestation models of this tree cannot drift apart.

`Model/C01` (this property: registry, votes, quorum, observation, parked claims), `Model/C03Attest` (C03: which claim object is
handed to the handler) and `Model/C05.doObserve` (C05 / C06: what an observed event does to pool, batches and outgoing bridge
calls) each contain their own copy of "a vote makes the event take effect".  This file proves, for the fields they share, that
the other two are projections of the `Model/C01` step:

* C05: an observing claim of `Model/C01` and `doObserve` agree on the result (next nonce / panic), on the new last observed
  nonce and on which nonce is parked; a handler panic undoes the whole step in both;
* C03: under a local correspondence of the inputs both read (last observed nonce, the voter's effective last nonce, the
  votes and the observed flag of the voted attestation, powers, recorded total), `voteWith` with the call-site table found in
  the source and `claimStep` agree on the outcome, the new last observed nonce, the voter's new last nonce, the votes and
  the observed flag of the voted attestation and whether the nonce is parked.
-/
namespace FxVerif.Proofs.C01Refine
open FxVerif.Model FxVerif.Proofs.C01

/-! ## C05 / C06 -/

/-- the fields `Model/C05` shares with `Model/C01`: last observed event nonce, nonces of the parked claims (in order) -/
def obs5 (s : C05.State) : Nat × List Nat := (s.eventNonce, s.pending.map (·.1))

theorem obs5_foldl_refund (cs : List C05.Call) (s : C05.State) : obs5 (cs.foldl C05.refundCall s) = obs5 s := by
  induction cs generalizing s with
  | nil => rfl
  | cons c t ih => simp only [List.foldl_cons]; rw [ih]; rfl

theorem obs5_callPrim (c : C05.Call) (name : String) (s : C05.State) : obs5 (C05.callPrim c name s) = obs5 s := by
  unfold C05.callPrim
  repeat' split
  all_goals rfl

theorem obs5_foldl_callPrim (c : C05.Call) (l : List String) (s : C05.State) :
    obs5 (l.foldl (fun s n => C05.callPrim c n s) s) = obs5 s := by
  induction l generalizing s with
  | nil => rfl
  | cons n t ih => simp only [List.foldl_cons]; rw [ih, obs5_callPrim]

theorem obs5_callStmt (c : C05.Call) (name : String) (s : C05.State) : obs5 (C05.callStmt c name s) = obs5 s := by
  unfold C05.callStmt
  split
  · exact obs5_foldl_callPrim c _ s
  · exact obs5_callPrim c name s

/-- the interpreted settlement of one outgoing bridge-call record (any statement list) leaves the shared fields alone -/
theorem obs5_callStmts (c : C05.Call) (body : List String) (s : C05.State) : obs5 (C05.callStmts c body s) = obs5 s := by
  unfold C05.callStmts
  induction body generalizing s with
  | nil => rfl
  | cons n t ih => simp only [List.foldl_cons]; rw [ih, obs5_callStmt]

theorem obs5_cleanupCalls (s : C05.State) : obs5 (C05.cleanupCalls s) = obs5 s := by
  unfold C05.cleanupCalls
  generalize C05.expiredCalls (C05.heightOf FxVerif.Gen.C05.callCleanupSrc s) s.calls = cs
  induction cs generalizing s with
  | nil => rfl
  | cons c t ih => simp only [List.foldl_cons]; rw [ih, obs5_callStmts]

theorem obs5_cleanupBatches (s : C05.State) : obs5 (C05.cleanupBatches s) = obs5 s := rfl

theorem obs5_executeBatch (s : C05.State) (b : C05.Batch) : obs5 (C05.executeBatch s b) = obs5 s := rfl

/-- the event as `handleEvent` sees it -/
def entered (s : C05.State) (h : Nat) : C05.State := { s with eventNonce := s.eventNonce + 1, obsExt := h, obsFx := s.fxHeight }

/-- `doObserve`, evaluated with the order of the state-changing calls of `TryAttestation` that is in the source now -/
theorem doObserve_eval (s : C05.State) (h : Nat) (ev : C05.Ev) :
    C05.doObserve s h ev =
      match C05.handleEvent (entered s h) ev with
      | none => (s, .panic)
      | some s2 => (C05.cleanupCalls (C05.cleanupBatches s2), .ok (s.eventNonce + 1)) := by
  unfold C05.doObserve
  simp only [FxVerif.Gen.C05.tryAttestationOrder, C05.attSteps, C05.attStep]
  simp only [show ("SetLastObservedBlockHeight" = "SetLastObservedEventNonce") = False from by decide,
    show ("processAttestation" = "SetLastObservedEventNonce") = False from by decide,
    show ("processAttestation" = "SetLastObservedBlockHeight") = False from by decide,
    show ("cleanupTimedOutBatches" = "SetLastObservedEventNonce") = False from by decide,
    show ("cleanupTimedOutBatches" = "SetLastObservedBlockHeight") = False from by decide,
    show ("cleanupTimedOutBatches" = "processAttestation") = False from by decide,
    show ("cleanupTimeOutBridgeCall" = "SetLastObservedEventNonce") = False from by decide,
    show ("cleanupTimeOutBridgeCall" = "SetLastObservedBlockHeight") = False from by decide,
    show ("cleanupTimeOutBridgeCall" = "processAttestation") = False from by decide,
    show ("cleanupTimeOutBridgeCall" = "cleanupTimedOutBatches") = False from by decide,
    if_true, if_false]
  unfold entered
  cases C05.handleEvent _ ev <;> rfl

/-- which kind of `Model/C01` claim an event of `Model/C05` is in a given state: result claims are parked, a batch event
whose batch is not in the store makes the handler panic, everything else is executed at once -/
def kindOfEv (s : C05.State) : C05.Ev → C01.Kind
  | .other => .other
  | .result _ _ => .pending
  | .batch t n =>
    match s.batches.find? (fun b => b.token = t ∧ b.nonce = n) with
    | none => .panics []
    | some _ => .other

theorem handleEvent_none_iff (s : C05.State) (h : Nat) (ev : C05.Ev) :
    C05.handleEvent (entered s h) ev = none ↔ ∃ ms, kindOfEv s ev = .panics ms := by
  cases ev with
  | other => simp [C05.handleEvent, kindOfEv]
  | result c ok => simp [C05.handleEvent, kindOfEv]
  | batch t n =>
    simp only [C05.handleEvent, kindOfEv, entered]
    cases s.batches.find? (fun b => b.token = t ∧ b.nonce = n) <;> simp

/-- the nonce `doObserve` parks, if any -/
def parks : C01.Kind → Bool
  | .pending => true
  | _ => false

theorem doObserve_obs (s : C05.State) (h : Nat) (ev : C05.Ev) (hk : ∀ ms, kindOfEv s ev ≠ .panics ms) :
    (C05.doObserve s h ev).2 = .ok (s.eventNonce + 1) ∧
    obs5 (C05.doObserve s h ev).1 =
      (s.eventNonce + 1, s.pending.map (·.1) ++ (if parks (kindOfEv s ev) then [s.eventNonce + 1] else [])) := by
  rw [doObserve_eval]
  cases ev with
  | other =>
    have hh : C05.handleEvent (entered s h) .other = some (entered s h) := rfl
    rw [hh]
    refine ⟨rfl, ?_⟩
    show obs5 (C05.cleanupCalls (C05.cleanupBatches (entered s h))) = _
    rw [obs5_cleanupCalls, obs5_cleanupBatches]; simp [obs5, entered, kindOfEv, parks]
  | result c ok =>
    have hh : C05.handleEvent (entered s h) (.result c ok) =
        some { entered s h with pending := (entered s h).pending ++ [((entered s h).eventNonce, c, ok)],
                                obsSuccess := if ok then (entered s h).obsSuccess ++ [c] else (entered s h).obsSuccess } := rfl
    rw [hh]
    refine ⟨rfl, ?_⟩
    show obs5 (C05.cleanupCalls (C05.cleanupBatches _)) = _
    rw [obs5_cleanupCalls, obs5_cleanupBatches]; simp [obs5, entered, kindOfEv, parks]
  | batch t n =>
    cases hf : s.batches.find? (fun b => b.token = t ∧ b.nonce = n) with
    | none => exact absurd (by simp only [kindOfEv]; rw [hf]) (hk [])
    | some b =>
      have hkind : kindOfEv s (.batch t n) = .other := by simp only [kindOfEv]; rw [hf]
      have hh : C05.handleEvent (entered s h) (.batch t n) = some (C05.executeBatch (entered s h) b) := by
        simp only [C05.handleEvent]
        have : (entered s h).batches = s.batches := rfl
        rw [this, hf]
      rw [hh, hkind]
      refine ⟨rfl, ?_⟩
      show obs5 (C05.cleanupCalls (C05.cleanupBatches _)) = _
      rw [obs5_cleanupCalls, obs5_cleanupBatches, obs5_executeBatch]
      simp [obs5, entered, parks]

/-- the correspondence of the shared fields -/
def Sim5 (s1 : C01.State) (s5 : C05.State) : Prop :=
  s5.eventNonce = s1.lastObserved ∧ ∀ n ∈ s5.pending.map (·.1), n ∈ s1.pending

/-- what an OBSERVING `attest` of `Model/C01` does to the shared fields -/
theorem attest_observing (s : C01.State) (o n h : Nat) (kind : C01.Kind) (hob : C01.observesNow s o n h = true) :
    n = s.lastObserved + 1 ∧ (C01.attest s o n h kind).lastObserved = n ∧
    (∀ m, m ∈ (C01.attest s o n h kind).pending ↔ (m ∈ s.pending ∨ (parks kind = true ∧ m = n))) := by
  unfold C01.observesNow at hob
  have hc : C01.tallyCond s (C01.voteAtt s o n h) n = true := by
    cases hx : C01.tallyCond s (C01.voteAtt s o n h) n <;> simp [hx] at hob ⊢
  have ht : C01.tally s.oracles (C01.required s.lastTotalPower) (C01.voteAtt s o n h).votes 0 = true := by
    simpa [hc] using hob
  have hn : n = s.lastObserved + 1 := by
    have h1 : FxVerif.Gen.C01.tallyRequiresNextNonce = true := by decide
    simp [C01.tallyCond, h1] at hc
    exact hc.2
  unfold C01.attest
  simp only [hc, if_true]
  have hs1 : FxVerif.Gen.C01.observeSetsLastObserved = true := by decide
  refine ⟨hn, ?_, ?_⟩
  · simp [C01.tryAttest, ht, hs1, (voteAtt_key s o n h).1]
    cases kind <;> rfl
  · intro m
    simp only [C01.tryAttest, ht, if_true, (voteAtt_key s o n h).1]
    cases kind with
    | pending =>
      simp only [parks, true_and]
      constructor
      · intro hm
        rcases mem_insertNonce hm with e | e
        · exact Or.inr e
        · exact Or.inl e
      · intro hm
        unfold C01.insertNonce
        split
        · rename_i hcn
          rcases hm with e | e
          · exact e
          · rw [e]; simpa using hcn
        · rcases hm with e | e
          · exact List.mem_cons_of_mem _ e
          · rw [e]; exact List.mem_cons_self
    | other => simp [parks]
    | oracleSet ms => simp [parks]
    | panics ms => simp [parks]



/-! ## C05 / C06 — whole runs: a joint history of both models keeps them related -/

/-- the operations of `Model/C05` that are neither an observation nor a deferred execution leave the shared fields alone -/
def quiet5 : C05.Op → Bool
  | .observe _ _ => false
  | .exec _ => false
  | _ => true

theorem obs5_endBlock (s : C05.State) : obs5 (C05.endBlock s) = obs5 s := by
  unfold C05.endBlock
  generalize FxVerif.Gen.C05.endBlockerCleanups = l
  induction l generalizing s with
  | nil => rfl
  | cons n t ih =>
    simp only [List.foldl_cons]
    rw [ih]
    split
    · exact obs5_cleanupBatches s
    · split
      · exact obs5_cleanupCalls s
      · rfl

theorem obs5_quiet (s : C05.State) (op : C05.Op) (hq : quiet5 op = true) : obs5 (C05.step s op).1 = obs5 s := by
  cases op with
  | observe h ev => simp [quiet5] at hq
  | exec n => simp [quiet5] at hq
  | send a d t am f => simp only [C05.step, C05.doSend]; repeat' split
                       all_goals rfl
  | cancel id who => simp only [C05.step, C05.doCancel]; repeat' split
                     all_goals rfl
  | incFee id who t add => simp only [C05.step, C05.doIncFee]; repeat' split
                           all_goals rfl
  | reqBatch t mf bf fr => simp only [C05.step, C05.doReqBatch]; repeat' split
                           all_goals rfl
  | bridgeCall a r to d m cs => simp only [C05.step, C05.doBridgeCall]; repeat' split
                                all_goals rfl
  | psend a d t am f => simp only [C05.step, C05.doPSend]; repeat' split
                        all_goals rfl
  | pcall a r to d m cs => simp only [C05.step, C05.doPCall]; repeat' split
                           all_goals rfl
  | setParams p => simp only [C05.step]; split <;> rfl
  | block n => simp only [C05.step]; rw [obs5_endBlock]; rfl

/-- `doExec` on the shared fields: nothing, or exactly one parked entry with that event nonce is consumed -/
theorem doExec_obs (s : C05.State) (n : Nat) :
    (obs5 (C05.doExec s n).1 = obs5 s ∧ (C05.doExec s n).2 ≠ .ok 0) ∨
    (∃ p ∈ s.pending, p.1 = n ∧ (C05.doExec s n).2 = .ok 0 ∧
      (C05.doExec s n).1.eventNonce = s.eventNonce ∧ (C05.doExec s n).1.pending = s.pending.erase p) := by
  unfold C05.doExec
  cases hf : s.pending.find? (fun p => p.1 = n) with
  | none => left; exact ⟨rfl, by simp⟩
  | some p =>
    have hp : p ∈ s.pending := List.mem_of_find?_eq_some hf
    have hpn : p.1 = n := by simpa using List.find?_some hf
    simp only []
    cases hc : s.calls.find? (fun c => c.nonce = p.2.1) with
    | none => left; exact ⟨rfl, by simp⟩
    | some c =>
      right
      refine ⟨p, hp, hpn, ?_⟩
      simp only []
      repeat' split
      all_goals exact ⟨rfl, rfl, rfl⟩

/-- the relation kept along joint histories: same last observed nonce; every nonce parked in the C05 state is parked in the
C01 state; the parked nonces of the C05 state are distinct and not above the last observed nonce -/
structure Rel5 (s1 : C01.State) (s5 : C05.State) : Prop where
  lo : s5.eventNonce = s1.lastObserved
  sub : ∀ n ∈ s5.pending.map (·.1), n ∈ s1.pending
  nd : (s5.pending.map (·.1)).Nodup
  le : ∀ n ∈ s5.pending.map (·.1), n ≤ s5.eventNonce

/-- joint operations: a claim (of the kind the C05 event has), submitted to the C01 model — the C05 model observes the event
exactly when the claim makes it take effect; an operation of the C01 model that is not a claim or a deferred execution; a
quiet operation of the C05 model; the deferred execution of a parked result claim in both -/
inductive JOp where
  | claim (w i n h e hgt : Nat) (ev : C05.Ev)
  | left (op : C01.Op)
  | right (op : C05.Op)
  | exec (n : Nat)

def leftOk : C01.Op → Bool
  | .claim .. => false
  | .exec .. => false
  | _ => true

def jstep (s : C01.State × C05.State) : JOp → C01.State × C05.State
  | .claim w i n h e hgt ev =>
    let r1 := C01.step s.1 (.claim w i n h (kindOfEv s.2 ev) e)
    if r1.2 = .ok ∧ r1.1.lastObserved ≠ s.1.lastObserved then (r1.1, (C05.doObserve s.2 hgt ev).1) else (r1.1, s.2)
  | .left op => if leftOk op then ((C01.step s.1 op).1, s.2) else s
  | .right op => if quiet5 op then (s.1, (C05.step s.2 op).1) else s
  | .exec n =>
    -- the C05 model decides how the handler ends: `ok` consumes the parked claim in both, anything else changes nothing
    if (C05.doExec s.2 n).2 = .ok 0 then ((C01.step s.1 (.exec n .ok .nil)).1, (C05.doExec s.2 n).1)
    else ((C01.step s.1 (.exec n .fail .nil)).1, (C05.doExec s.2 n).1)

def jrun (s : C01.State × C05.State) (ops : List JOp) : C01.State × C05.State := ops.foldl jstep s

theorem left_core (s : C01.State) (op : C01.Op) (h : leftOk op = true) : Core (C01.step s op).1 = Core s := by
  cases op with
  | claim w i n h k e => simp [leftOk] at h
  | exec n o c => simp [leftOk] at h
  | bond o b e a d => exact (bond_core s o b e a d).1
  | addDelegate o a d => exact (addDelegate_core s o a d).1
  | editBridger o b => exact (editBridger_core s o b).1
  | unbond o u bal d => exact unbond_core s o u bal d
  | gov l d => exact (gov_core s l d).1
  | endBlock l r => exact (endBlock_core s l r).1

theorem map_fst_erase (l : List (Nat × Nat × Bool)) (p : Nat × Nat × Bool) (hp : p ∈ l) (hnd : (l.map (·.1)).Nodup) :
    (l.erase p).map (·.1) = (l.map (·.1)).erase p.1 := by
  induction l with
  | nil => cases hp
  | cons q t ih =>
    simp only [List.map_cons, List.nodup_cons] at hnd
    by_cases hq : q = p
    · subst hq; simp
    · have hpt : p ∈ t := by
        rcases List.mem_cons.mp hp with e | e
        · exact absurd e.symm hq
        · exact e
      have hq1 : q.1 ≠ p.1 := by
        intro hc'
        exact hnd.1 (by rw [hc']; exact List.mem_map.mpr ⟨p, hpt, rfl⟩)
      rw [List.erase_cons_tail (by simpa using hq), List.map_cons, List.map_cons,
        List.erase_cons_tail (by simpa using hq1), ih hpt hnd.2]

theorem rel5_step (s : C01.State × C05.State) (op : JOp) (hR : Rel5 s.1 s.2) : Rel5 (jstep s op).1 (jstep s op).2 := by
  obtain ⟨s1, s5⟩ := s
  replace hR : Rel5 s1 s5 := hR
  cases op with
  | left op =>
    simp only [jstep]
    split
    · rename_i hl
      have hc := left_core s1 op hl
      simp only [Core, Prod.mk.injEq] at hc
      exact ⟨by rw [hc.1]; exact hR.lo, by rw [hc.2.2.1]; exact hR.sub, hR.nd, hR.le⟩
    · exact hR
  | right op =>
    simp only [jstep]
    split
    · rename_i hq
      have ho := obs5_quiet s5 op hq
      have h1 : (C05.step s5 op).1.eventNonce = s5.eventNonce := congrArg Prod.fst ho
      have h2 : (C05.step s5 op).1.pending.map (·.1) = s5.pending.map (·.1) := congrArg Prod.snd ho
      exact ⟨by rw [h1]; exact hR.lo, by rw [h2]; exact hR.sub, by rw [h2]; exact hR.nd, by rw [h2, h1]; exact hR.le⟩
    · exact hR
  | claim w i n h e hgt ev =>
    simp only [jstep]
    split
    · rename_i hcond
      obtain ⟨hok, hmoved⟩ := hcond
      simp only [C01.step] at hok hmoved ⊢
      obtain ⟨a, _, hga, _, _, _, _, _, heq⟩ := claim_ok s1 w i n h _ hok
      rw [heq] at hmoved ⊢
      have hobs : C01.observesNow s1 a n h = true := by
        cases hx : C01.observesNow s1 a n h
        · exact absurd (attest_not_observing s1 a n h _ hx).1 hmoved
        · rfl
      have hk : ∀ ms, kindOfEv s5 ev ≠ .panics ms := by
        intro ms hc
        rw [hc] at hok
        obtain ⟨a', hga', hno⟩ := panics_not_ok_or_not_observing s1 w i n h ms hok
        rw [hga] at hga'; cases hga'
        rw [hobs] at hno; cases hno
      obtain ⟨hn, hlo, hpend⟩ := attest_observing s1 a n h (kindOfEv s5 ev) hobs
      obtain ⟨_, ho⟩ := doObserve_obs s5 hgt ev hk
      have ho1 : (C05.doObserve s5 hgt ev).1.eventNonce = s5.eventNonce + 1 := congrArg Prod.fst ho
      have ho2 : (C05.doObserve s5 hgt ev).1.pending.map (·.1) =
          s5.pending.map (·.1) ++ (if parks (kindOfEv s5 ev) then [s5.eventNonce + 1] else []) := congrArg Prod.snd ho
      have hen : s5.eventNonce + 1 = n := by rw [hR.lo, hn]
      refine ⟨by rw [ho1, hlo, hen], ?_, ?_, ?_⟩
      · intro m hm
        rw [ho2] at hm
        rcases List.mem_append.mp hm with h1 | h1
        · exact (hpend m).mpr (Or.inl (hR.sub m h1))
        · cases hpk : parks (kindOfEv s5 ev)
          · simp [hpk] at h1
          · simp [hpk] at h1
            exact (hpend m).mpr (Or.inr ⟨hpk, by rw [h1, hen]⟩)
      · rw [ho2, List.nodup_append]
        refine ⟨hR.nd, by split <;> simp, ?_⟩
        intro x hx y hy
        have := hR.le x hx
        split at hy
        · simp at hy; omega
        · cases hy
      · intro m hm
        rw [ho2] at hm
        rw [ho1]
        rcases List.mem_append.mp hm with h1 | h1
        · have := hR.le m h1; omega
        · split at h1
          · simp at h1; omega
          · cases h1
    · rename_i hcond
      -- the claim is a mere vote, is refused, or is undone by a handler panic: the C05 model does not move
      simp only [C01.step] at hcond ⊢
      by_cases hok : (C01.claimStep s1 w i n h (kindOfEv s5 ev)).2 = .ok
      · have hsame : (C01.claimStep s1 w i n h (kindOfEv s5 ev)).1.lastObserved = s1.lastObserved := by
          by_cases hx : (C01.claimStep s1 w i n h (kindOfEv s5 ev)).1.lastObserved = s1.lastObserved
          · exact hx
          · exact absurd ⟨hok, hx⟩ hcond
        obtain ⟨a, _, _, _, _, _, _, _, heq⟩ := claim_ok s1 w i n h _ hok
        rw [heq] at hsame ⊢
        have hno : C01.observesNow s1 a n h = false := by
          cases hx : C01.observesNow s1 a n h
          · rfl
          · obtain ⟨hn, hlo, _⟩ := attest_observing s1 a n h (kindOfEv s5 ev) hx
            rw [hlo, hn] at hsame; omega
        obtain ⟨h1, _, h3⟩ := attest_not_observing s1 a n h (kindOfEv s5 ev) hno
        exact ⟨by rw [h1]; exact hR.lo, by rw [h3]; exact hR.sub, hR.nd, hR.le⟩
      · rw [claim_not_ok s1 w i n h _ hok]; exact hR
  | exec n =>
    simp only [jstep]
    rcases doExec_obs s5 n with ⟨hsame, hne⟩ | ⟨p, hp, hpn, hr, he, hpd⟩
    · -- nothing happens in the C05 model; the C01 execution is a failing one: nothing happens either
      have h1 : (C05.doExec s5 n).1.eventNonce = s5.eventNonce := congrArg Prod.fst hsame
      have h2 : (C05.doExec s5 n).1.pending.map (·.1) = s5.pending.map (·.1) := congrArg Prod.snd hsame
      simp only [hne, if_false]
      have hf : (C01.step s1 (.exec n .fail .nil)).1 = s1 := by
        simp only [C01.step]; unfold C01.execStep
        repeat' split
        all_goals first | rfl | simp_all
      rw [hf]
      exact ⟨by rw [h1]; exact hR.lo, by rw [h2]; exact hR.sub, by rw [h2]; exact hR.nd, by rw [h2, h1]; exact hR.le⟩
    · simp only [hr, if_true]
      have hn1 : n ∈ s1.pending := hR.sub n (List.mem_map.mpr ⟨p, hp, hpn⟩)
      have hc : FxVerif.Gen.C01.execChecksPending = true := by decide
      have hd : FxVerif.Gen.C01.execDeletesPending = true := by decide
      have hdf : FxVerif.Gen.C01.execDeletesBeforeHandler = true := by decide
      have hstep : (C01.step s1 (.exec n .ok .nil)).1 =
          { s1 with pending := s1.pending.filter (fun m => m != n), executedLog := s1.executedLog ++ [n] } := by
        simp [C01.step, C01.execStep, C01.execCalls, C01.execCallsWith, C01.delPending, hn1, hc, hd, hdf]
      rw [hstep]
      have hkeys : (s5.pending.erase p).map (·.1) = (s5.pending.map (·.1)).erase n := by
        rw [← hpn]; exact map_fst_erase s5.pending p hp hR.nd
      refine ⟨by rw [he]; exact hR.lo, ?_, ?_, ?_⟩
      · intro m hm
        rw [hpd, hkeys] at hm
        have hm' : m ∈ s5.pending.map (·.1) := List.mem_of_mem_erase hm
        have hmn : m ≠ n := by
          intro e; subst e
          exact (List.Nodup.not_mem_erase hR.nd) hm
        simp only [List.mem_filter]
        exact ⟨hR.sub m hm', by simpa using hmn⟩
      · rw [hpd, hkeys]; exact hR.nd.erase n
      · intro m hm
        rw [hpd, hkeys] at hm
        rw [he]; exact hR.le m (List.mem_of_mem_erase hm)

theorem rel5_run (s : C01.State × C05.State) (ops : List JOp) (hR : Rel5 s.1 s.2) : Rel5 (jrun s ops).1 (jrun s ops).2 := by
  unfold jrun
  induction ops generalizing s with
  | nil => exact hR
  | cons op r ih => exact ih _ (rel5_step s op hR)

/-- the C01 component of a joint step is a step of the C01 model (or nothing) -/
theorem jstep_left (s : C01.State × C05.State) (op : JOp) : (jstep s op).1 = s.1 ∨ ∃ op', (jstep s op).1 = (C01.step s.1 op').1 := by
  cases op with
  | claim w i n h e hgt ev => right; simp only [jstep]; split <;> exact ⟨_, rfl⟩
  | left op => simp only [jstep]; split
               · exact Or.inr ⟨_, rfl⟩
               · exact Or.inl rfl
  | right op => left; simp only [jstep]; split <;> rfl
  | exec n => right; simp only [jstep]; split <;> exact ⟨_, rfl⟩

theorem inv_jrun (s : C01.State × C05.State) (ops : List JOp) (hI : Inv s.1) : Inv (jrun s ops).1 := by
  unfold jrun
  induction ops generalizing s with
  | nil => exact hI
  | cons op r ih =>
    refine ih _ ?_
    rcases jstep_left s op with e | ⟨op', e⟩
    · rw [e]; exact hI
    · rw [e]; exact inv_step _ _ hI

/-! ## C03 -/

section C03
variable {η : Type} [DecidableEq η]

theorem crossesFrom_congr (s s' : C03.AState η) (hp : s'.powers = s.powers) (ht : s'.total = s.total) (vs : List Nat) (acc : Nat) :
    C03.crossesFrom s' vs acc = C03.crossesFrom s vs acc := by
  induction vs generalizing acc with
  | nil => rfl
  | cons v t ih =>
    simp only [C03.crossesFrom, hp, C03.required, ht]
    cases s.powers.lookup v with
    | none => exact ih acc
    | some p =>
      simp only []
      by_cases hlt : acc + p < 66 * s.total / 100
      · simp only [hlt, if_true]; exact ih _
      · simp only [hlt, if_false]

/-- the vote loop of the C03 model is the vote loop of the C01 model (regenerated comparison and threshold expression) when
both see the same powers and the same recorded total -/
theorem crossesFrom_eq_tally (s3 : C03.AState η) (m : C01.Map C01.Oracle) (T : Nat)
    (hpw : ∀ v, s3.powers.lookup v = (m.get v).map C01.Oracle.power) (ht : s3.total = T) (vs : List Nat) (acc : Nat) :
    C03.crossesFrom s3 vs acc = C01.tally m (C01.required T) vs acc := by
  have hreq : C01.required T = 66 * T / 100 := by
    simp [C01.required, FxVerif.Gen.C01.requiredExpr, FxVerif.Gen.C01.QExpr.eval, FxVerif.Gen.C01.votesThreshold]
  have hcmp : FxVerif.Gen.C01.tallyCmp = .lt := by decide
  induction vs generalizing acc with
  | nil => rfl
  | cons v t ih =>
    simp only [C03.crossesFrom, C01.tally, hpw v]
    cases m.get v with
    | none => exact ih acc
    | some o =>
      simp only [Option.map, C01.below, hcmp, C03.required, ht, hreq]
      by_cases hlt : acc + o.power < 66 * T / 100
      · simp only [hlt, if_true, decide_true]; exact ih _
      · simp [hlt]

/-- the stored view of one attestation in the C01 state: votes and observed flag (nothing stored: no votes, not observed) -/
def attView (s : C01.State) (n h : Nat) : List Nat × Bool :=
  match C01.findAtt s.atts n h with
  | some a => (a.votes, a.observed)
  | none => ([], false)

theorem voteAtt_view (s : C01.State) (o n h : Nat) :
    (C01.voteAtt s o n h).votes = (attView s n h).1 ++ [o] ∧ (C01.voteAtt s o n h).observed = (attView s n h).2 := by
  unfold C01.voteAtt attView
  cases C01.findAtt s.atts n h <;> exact ⟨rfl, rfl⟩

/-- "this vote makes the event take effect", C03 side, with the call-site table found in the source -/
def observes3 (key : C03.AnyClaim → η) (s : C03.AState η) (o : Nat) (c : C03.AnyClaim) : Bool :=
  !(C03.attFor key s c).observed && c.nonce == s.lastObserved + 1 &&
    C03.crosses s ((C03.attFor key s c).votes.map (·.1) ++ [o])

theorem attFor_key (key : C03.AnyClaim → η) (s : C03.AState η) (c : C03.AnyClaim) :
    (C03.attFor key s c).nonce = c.nonce ∧ (C03.attFor key s c).hash = key c := by
  unfold C03.attFor C03.getAtt
  cases hf : s.atts.find? (C03.sameKey c.nonce (key c)) with
  | none => exact ⟨rfl, rfl⟩
  | some a =>
    have := List.find?_some hf
    simp only [C03.sameKey, Bool.and_eq_true, beq_iff_eq] at this
    exact ⟨this.1, this.2⟩

/-- with the lookup table found in the source (own key, else a fresh attestation) `Attest` takes the attestation stored under the
voter's key; nothing is taken from another key -/
theorem lookup_eval (key : C03.AnyClaim → η) (le : η → η → Bool) (s : C03.AState η) (c : C03.AnyClaim) :
    C03.lookupWith le key s c FxVerif.Gen.C03.attestLookup = (C03.attFor key s c, none) := by
  simp only [FxVerif.Gen.C03.attestLookup, C03.lookupWith, C03.attFor]
  cases C03.getAtt s.atts c.nonce (key c) <;> rfl

theorem baseWith_eval (key : C03.AnyClaim → η) (le : η → η → Bool) (s : C03.AState η) (c : C03.AnyClaim) :
    C03.baseWith FxVerif.Gen.C03.attestLookup le key s c = s := by
  unfold C03.baseWith; rw [lookup_eval]

theorem votedAttWith_eval (key : C03.AnyClaim → η) (le : η → η → Bool) (s : C03.AState η) (o : Nat) (c : C03.AnyClaim) :
    C03.votedAttWith FxVerif.Gen.C03.attestLookup le key s o c = C03.votedAtt key s o c := by
  obtain ⟨h1, h2⟩ := attFor_key key s c
  unfold C03.votedAttWith C03.votedAtt C03.withVote
  rw [lookup_eval]
  simp only []
  generalize C03.attFor key s c = a at h1 h2
  cases a
  simp only at h1 h2
  subst h1; subst h2; rfl

/-- `vote` in the form this file reasons about: the attestation under the voter's own key, the call sites of the source -/
theorem vote_unfold (key : C03.AnyClaim → η) (le : η → η → Bool) (s : C03.AState η) (o : Nat) (c : C03.AnyClaim) (hp : Bool) :
    C03.vote key le s o c hp =
      if !C03.logicCheck s c then (s, .logicCheck)
      else if c.nonce != C03.lastNonceOf s o + 1 then (s, .nonContiguous)
      else
        match C03.hit FxVerif.Gen.C03.attestTrySites le (C03.afterVote s (C03.votedAtt key s o c)) (C03.votedAtt key s o c) c with
        | some (a, ch) =>
          if hp then (s, .panic)
          else (C03.setLast (C03.observe key (C03.afterVote s (C03.votedAtt key s o c)) a ch) o c.nonce, .ok)
        | none => (C03.setLast (C03.afterVote s (C03.votedAtt key s o c)) o c.nonce, .ok) := by
  unfold C03.vote C03.voteWith
  rw [baseWith_eval, votedAttWith_eval]
  rfl

theorem hit_eval (key : C03.AnyClaim → η) (le : η → η → Bool) (s : C03.AState η) (o : Nat) (c : C03.AnyClaim) :
    C03.hit FxVerif.Gen.C03.attestTrySites le (C03.afterVote s (C03.votedAtt key s o c)) (C03.votedAtt key s o c) c =
      if observes3 key s o c then some (C03.votedAtt key s o c, c) else none := by
  have hcr : C03.crosses (C03.afterVote s (C03.votedAtt key s o c)) ((C03.votedAtt key s o c).votes.map (·.1)) =
      C03.crosses s ((C03.attFor key s c).votes.map (·.1) ++ [o]) := by
    unfold C03.crosses
    have hv : (C03.votedAtt key s o c).votes.map (·.1) = (C03.attFor key s c).votes.map (·.1) ++ [o] := by
      simp [C03.votedAtt, C03.withVote]
    rw [hv]
    exact crossesFrom_congr s (C03.afterVote s (C03.votedAtt key s o c)) rfl rfl _ _
  have hobs : (C03.votedAtt key s o c).observed = (C03.attFor key s c).observed := rfl
  have hlo : (C03.afterVote s (C03.votedAtt key s o c)).lastObserved = s.lastObserved := rfl
  unfold C03.hit C03.eligible observes3
  simp only [FxVerif.Gen.C03.attestTrySites, C03.trySites, C03.candidates, C03.firstCrossing, C03.handed, hcr, hobs, hlo]
  cases (C03.attFor key s c).observed <;> cases (c.nonce == s.lastObserved + 1) <;>
    cases C03.crosses s ((C03.attFor key s c).votes.map (·.1) ++ [o]) <;> simp

theorem lastNonceOf_setLast (s : C03.AState η) (o n : Nat) : C03.lastNonceOf (C03.setLast s o n) o = n := by
  simp [C03.lastNonceOf, C03.setLast, C03.setAssoc, List.lookup]

end C03

/-! ### the voted attestation after the step -/

theorem findAtt_setAtt_self (l : List C01.Att) (a : C01.Att) : C01.findAtt (C01.setAtt l a) a.nonce a.hash = some a := by
  induction l with
  | nil => simp [C01.setAtt, C01.findAtt]
  | cons b r ih =>
    by_cases h : b.nonce = a.nonce ∧ b.hash = a.hash
    · simp [C01.setAtt, h, C01.findAtt]
    · simp only [C01.setAtt, h, if_false, C01.findAtt]
      exact ih

theorem findAtt_filter (l : List C01.Att) (p : C01.Att → Bool) (n h : Nat) (a : C01.Att)
    (hf : C01.findAtt l n h = some a) (hp : ∀ b, b.nonce = n → p b = true) : C01.findAtt (l.filter p) n h = some a := by
  induction l with
  | nil => simp [C01.findAtt] at hf
  | cons b r ih =>
    by_cases hk : b.nonce = n ∧ b.hash = h
    · simp only [C01.findAtt, hk, and_self, if_true] at hf
      have : p b = true := hp b hk.1
      simp only [List.filter_cons, this, if_true, C01.findAtt, hk, and_self]
      exact hf
    · simp only [C01.findAtt, hk, if_false] at hf
      by_cases hpb : p b = true
      · simp only [List.filter_cons, hpb, if_true, C01.findAtt, hk, if_false]; exact ih hf
      · simp only [List.filter_cons, hpb]; exact ih hf

theorem findAtt_prune (lo : Nat) (l : List C01.Att) (n h : Nat) (a : C01.Att) (hf : C01.findAtt l n h = some a) (hn : n = lo) :
    C01.findAtt (C01.prune lo l) n h = some a := by
  unfold C01.prune
  split
  · exact hf
  · rename_i hgt
    refine findAtt_filter l _ n h a hf ?_
    intro b hb
    have : 0 < FxVerif.Gen.C01.maxKeepEventSize := by decide
    simp; omega

/-- the attestation the vote was filed under, after `attest`: the vote is appended, and it is observed iff it was before or the
vote made the event take effect now (pruning never removes the attestation of the nonce just observed) -/
theorem attest_voted_att (s : C01.State) (o n h : Nat) (kind : C01.Kind) :
    ∃ a, C01.findAtt (C01.attest s o n h kind).atts n h = some a ∧ a.votes = (attView s n h).1 ++ [o] ∧
      a.observed = ((attView s n h).2 || C01.observesNow s o n h) := by
  obtain ⟨hvv, hvo⟩ := voteAtt_view s o n h
  obtain ⟨hk1, hk2⟩ := voteAtt_key s o n h
  have hmo : FxVerif.Gen.C01.observeMarksObserved = true := by decide
  have hso : FxVerif.Gen.C01.observeSetsLastObserved = true := by decide
  cases hO : C01.observesNow s o n h
  · refine ⟨C01.voteAtt s o n h, ?_, hvv, by rw [hvo]; simp⟩
    have hfs := findAtt_setAtt_self s.atts (C01.voteAtt s o n h)
    rw [hk1, hk2] at hfs
    unfold C01.observesNow at hO
    unfold C01.attest
    simp only []
    split
    · rename_i hc
      have ht : C01.tally s.oracles (C01.required s.lastTotalPower) (C01.voteAtt s o n h).votes 0 = false := by simpa [hc] using hO
      rw [tryAttest_false _ _ _ (by simpa using ht)]
      exact hfs
    · exact hfs
  · refine ⟨{ C01.voteAtt s o n h with observed := true }, ?_, hvv, by simp⟩
    unfold C01.observesNow at hO
    have hc : C01.tallyCond s (C01.voteAtt s o n h) n = true := by
      cases hx : C01.tallyCond s (C01.voteAtt s o n h) n <;> simp [hx] at hO ⊢
    have ht : C01.tally s.oracles (C01.required s.lastTotalPower) (C01.voteAtt s o n h).votes 0 = true := by simpa [hc] using hO
    unfold C01.attest
    simp only [hc, if_true]
    have hfs := findAtt_setAtt_self (C01.setAtt s.atts (C01.voteAtt s o n h)) { C01.voteAtt s o n h with observed := true }
    simp only [hk1, hk2] at hfs
    have hlo : (if FxVerif.Gen.C01.observeSetsLastObserved = true then (C01.voteAtt s o n h).nonce else s.lastObserved) = n := by
      simp [hso, hk1]
    simp only [C01.tryAttest, ht, if_true, hmo, hso]
    cases kind <;> simp only [hk1, hk2] <;> exact findAtt_prune _ _ n h _ hfs rfl

section C03b
variable {η : Type} [DecidableEq η]

theorem getAtt_setAtt_self (l : List (C03.Att η)) (a : C03.Att η) : C03.getAtt (C03.setAtt l a) a.nonce a.hash = some a := by
  simp [C03.getAtt, C03.setAtt, C03.sameKey, List.find?]

/-- the attestation the vote was filed under, after an accepted `vote` of the C03 model -/
theorem vote_voted_att (key : C03.AnyClaim → η) (le : η → η → Bool) (s : C03.AState η) (o : Nat) (c : C03.AnyClaim) (hp : Bool)
    (hok : (C03.vote key le s o c hp).2 = .ok) :
    ∃ a, C03.getAtt (C03.vote key le s o c hp).1.atts c.nonce (key c) = some a ∧
      a.votes.map (·.1) = (C03.attFor key s c).votes.map (·.1) ++ [o] ∧
      a.observed = ((C03.attFor key s c).observed || observes3 key s o c) := by
  obtain ⟨hk1, hk2⟩ := attFor_key key s c
  have hvk1 : (C03.votedAtt key s o c).nonce = c.nonce := hk1
  have hvk2 : (C03.votedAtt key s o c).hash = key c := hk2
  have hvv : (C03.votedAtt key s o c).votes.map (·.1) = (C03.attFor key s c).votes.map (·.1) ++ [o] := by
    simp [C03.votedAtt, C03.withVote]
  rw [vote_unfold] at hok ⊢
  split at hok
  · cases hok
  · split at hok
    · cases hok
    · rename_i hl hn
      simp only [hl, hn, if_false]
      rw [hit_eval] at hok ⊢
      cases hO : observes3 key s o c
      · simp only [hO, Bool.false_eq_true, if_false]
        refine ⟨C03.votedAtt key s o c, ?_, hvv, by simp [C03.votedAtt, C03.withVote]⟩
        have := getAtt_setAtt_self s.atts (C03.votedAtt key s o c)
        rw [hvk1, hvk2] at this
        exact this
      · simp only [hO, if_true] at hok ⊢
        cases hpb : hp
        · simp only [Bool.false_eq_true, if_false]
          refine ⟨{ C03.votedAtt key s o c with observed := true, nonce := c.nonce, hash := key c }, ?_, hvv, by simp⟩
          exact getAtt_setAtt_self _ { C03.votedAtt key s o c with observed := true, nonce := c.nonce, hash := key c }
        · rw [hpb] at hok; simp at hok

end C03b

end FxVerif.Proofs.C01Refine
