import FxVerif.Model.C12Msg
import FxVerif.Proofs.C12Handler
import FxVerif.Proofs.C12Env
/-!
# C12 round 5 — lemmas for the message layer (`ValidateBasic`, address validators), branches of the state, raw powers
-/
namespace FxVerif.Model.C12
open FxVerif.Gen.C12Msg

theorem vb_pass_iff (E : VbEnv) (t : TxConfirm) :
    validateBasic E t = none ↔
      E.registered t.chain = true ∧ E.bech32 t.m.bridger = true ∧ E.extAddr t.chain t.m.external = true ∧
      (∀ tok n, t.m.key = .batch tok n → E.extAddr t.chain tok = true) ∧ ∃ s, t.m.sig = some s ∧ s ≠ [] := by
  obtain ⟨chain, ⟨key, bridger, ext, sig⟩⟩ := t
  cases key <;> cases sig <;>
    simp [validateBasic, msgTypeOf, confirmValidateBasic, confirmValidateBasicTail, List.lookup, vbRun, checkFails, fieldText] <;>
    (repeat' split) <;> simp_all

theorem addr_canonical (tron : Bool) (P : AddrPrims) (text : String)
    (h : addrValid P (addrChecksOf tron) text = true) : P.canon text = text ∧ text ≠ "" := by
  cases tron <;>
    simp [addrValid, addrChecksOf, addrValidatorOf, List.lookup, ethAddrChecks, tronAddrChecks, addrCheckFails] at h <;>
    exact ⟨by simp_all, by simp_all⟩

theorem canon_stepOther (P : AddrPrims) (st : HState) (op : Op) (h : CanonEntries P st) : CanonEntries P (stepOther st op) := by
  cases op <;> simp only [stepOther] <;> try exact h
  · split <;> exact h
  · intro e he
    simp only at he
    split at he
    · exact h e (List.mem_filter.1 he).1
    · exact h e he

theorem canon_confirmStep (P : AddrPrims) (recover : List Nat → List Nat → Option String) (st st' : HState) (m : ConfirmMsg)
    (hc : confirmStep recover st m = .ok st') (he : P.canon m.external = m.external)
    (ht : ∀ tok n, m.key = .batch tok n → P.canon tok = tok) (h : CanonEntries P st) : CanonEntries P st' := by
  obtain ⟨digest, sig, oracle, r, _, _, _, _, _, _, _, _, rfl⟩ := (confirmStep_ok_iff recover st st' m).1 hc
  intro e hmem
  simp only [List.mem_cons] at hmem
  rcases hmem with rfl | hmem
  · exact ⟨he, ht⟩
  · exact h e hmem

theorem bRun_ops (recover : List Nat → List Nat → Option String) (st : HState) (stack : List HState) (ops : List Op) :
    bRun recover (st, stack) (ops.map .op) = (run recover st ops, stack) := by
  induction ops generalizing st with
  | nil => rfl
  | cons o r ih => simp only [List.map_cons, bRun, List.foldl_cons, bStep, run] at *; exact ih _

theorem bRun_append (recover : List Nat → List Nat → Option String) (s : HState × List HState) (a b : List BOp) :
    bRun recover s (a ++ b) = bRun recover (bRun recover s a) b := by
  simp [bRun, List.foldl_append]

theorem run_append (recover : List Nat → List Nat → Option String) (st : HState) (a b : List Op) :
    run recover st (a ++ b) = run recover (run recover st a) b := by
  simp [run, List.foldl_append]

theorem div_add_div_le (a b r : Nat) : a / r + b / r ≤ (a + b) / r := by
  rcases Nat.eq_zero_or_pos r with rfl | hr
  · simp
  · rw [Nat.le_div_iff_mul_le hr, Nat.add_mul]
    have := Nat.div_mul_le_self a r
    have := Nat.div_mul_le_self b r
    omega

theorem sum_div_le (ds : List Nat) (r : Nat) : (ds.map (· / r)).sum ≤ ds.sum / r := by
  induction ds with
  | nil => simp
  | cons d t ih =>
    simp only [List.map_cons, List.sum_cons]
    have := div_add_div_le d t.sum r
    omega

theorem filter_sum_le (l : List Nat) (p : Nat → Bool) : (l.filter p).sum ≤ l.sum := by
  induction l with
  | nil => simp
  | cons a t ih => simp only [List.filter_cons]; split <;> simp only [List.sum_cons] <;> omega

theorem foldl_mod_eq_sum (l : List Nat) (acc : Nat) (h : acc + l.sum < 2 ^ 64) :
    l.foldl (fun acc p => (acc + p) % 2 ^ 64) acc = acc + l.sum := by
  induction l generalizing acc with
  | nil => simp
  | cons a t ih =>
    simp only [List.sum_cons] at h
    simp only [List.foldl_cons, List.sum_cons]
    rw [Nat.mod_eq_of_lt (by omega), ih _ (by omega)]
    omega

/-- `Oracle.GetPower` as regenerated: `DelegateAmount.Quo(sdk.DefaultPowerReduction)` with the reduction assigned 10^20 -/
theorem rawPower_eq (d : Nat) : rawPower d = d / 10 ^ 20 := by
  have h : oraclePower = ("DelegateAmount", "Quo", "sdk.DefaultPowerReduction") := by decide
  have h2 : powerReduction = 10 ^ 20 := by decide
  simp [rawPower, h, h2]

theorem livePowers_sum_le (ds : List Nat) : (livePowers ds).sum ≤ ds.sum / 10 ^ 20 := by
  have e : ds.map rawPower = ds.map (· / 10 ^ 20) := List.map_congr_left (fun d _ => rawPower_eq d)
  unfold livePowers
  rw [e]
  exact Nat.le_trans (filter_sum_le _ _) (sum_div_le ds _)

end FxVerif.Model.C12
