import FxVerif.Proofs.C14
/-! helper lemmas for C14: the bank ledger (`balOf` after `setBal` / `credit` / `sendCoins`), the loop of
`BankMigrate.Execute`, and sums over account sets -/
namespace FxVerif.Proofs.C14
open FxVerif.Model.C14

abbrev Bal := Store (Addr × Denom) Nat

theorem balOf_setBal (b : Bal) (a : Addr) (d : Denom) (n : Nat) (a' : Addr) (d' : Denom) :
    balOf (setBal b a d n) a' d' = if a' = a ∧ d' = d then n else balOf b a' d' := by
  unfold setBal balOf
  by_cases hk : a' = a ∧ d' = d
  · obtain ⟨rfl, rfl⟩ := hk
    simp only [and_self, ↓reduceIte]
    split
    · rename_i h0; rw [get_del_eq]; simp [h0]
    · rw [get_put_eq]; rfl
  · have hne : (a', d') ≠ (a, d) := by intro e; cases e; exact hk ⟨rfl, rfl⟩
    simp only [hk, ↓reduceIte]
    split
    · rw [get_del_ne _ _ _ hne]
    · rw [get_put_ne _ _ _ _ hne]

theorem balOf_credit (b : Bal) (a : Addr) (d : Denom) (n : Nat) (a' : Addr) (d' : Denom) :
    balOf (credit b a d n) a' d' = if a' = a ∧ d' = d then balOf b a d + n else balOf b a' d' := by
  unfold credit; rw [balOf_setBal]

/-- a successful `sendCoins` between two different accounts: the sender had enough, and the ledger afterwards -/
theorem sendCoins_spec {b b' : Bal} {x y : Addr} {d : Denom} {n : Nat} (hxy : x ≠ y)
    (h : sendCoins b x y d n = some b') :
    n ≤ balOf b x d ∧ ∀ a' d', balOf b' a' d' =
      if a' = x ∧ d' = d then balOf b x d - n else if a' = y ∧ d' = d then balOf b y d + n else balOf b a' d' := by
  unfold sendCoins at h
  split at h
  · cases h
  · rename_i hlt
    cases h
    refine ⟨by omega, fun a' d' => ?_⟩
    rw [balOf_credit, balOf_setBal, balOf_setBal]
    have hyx : ¬ (y = x ∧ d = d) := fun e => hxy e.1.symm
    rw [if_neg hyx]
    by_cases h1 : a' = x ∧ d' = d
    · have h2 : ¬ (a' = y ∧ d' = d) := fun e => hxy (h1.1.symm.trans e.1)
      rw [if_neg h2, if_pos h1, if_pos h1]
    · by_cases h2 : a' = y ∧ d' = d
      · rw [if_pos h2, if_neg h1, if_pos h2]
      · rw [if_neg h2, if_neg h1, if_neg h1, if_neg h2]

theorem sendCoins_none {b : Bal} {x y : Addr} {d : Denom} {n : Nat} (h : sendCoins b x y d n = none) :
    balOf b x d < n := by
  unfold sendCoins at h
  split at h
  · assumption
  · cases h

/-- loop body of `BankMigrate.Execute` in the model -/
def mvStep (frm to : Addr) (b : Bal) (p : Denom × Nat) : Bal :=
  match sendCoins b frm to p.1 p.2 with | some b' => b' | none => b

theorem bankExecute_eq (c : Cfg) (hc : c.bankAll = true) (s : State) (frm to : Addr) :
    (bankExecute c s frm to).bal = (balancesOf s.bal frm).foldl (mvStep frm to) s.bal := by
  unfold bankExecute bankAmounts
  rw [hc]
  rfl

/-- invariant of the loop, relative to the ledger `b0` before it -/
structure MvInv (frm to : Addr) (b0 b : Bal) : Prop where
  src : ∀ d, balOf b frm d = balOf b0 frm d ∨ balOf b frm d = 0
  sum : ∀ d, balOf b frm d + balOf b to d = balOf b0 frm d + balOf b0 to d
  other : ∀ a d, a ≠ frm → a ≠ to → balOf b a d = balOf b0 a d

theorem mvStep_inv {frm to : Addr} (hne : frm ≠ to) {b0 b : Bal} (inv : MvInv frm to b0 b) (p : Denom × Nat)
    (hp : p.2 = balOf b0 frm p.1) :
    MvInv frm to b0 (mvStep frm to b p) ∧ balOf (mvStep frm to b p) frm p.1 = 0 ∧
      ∀ d, balOf b frm d = 0 → balOf (mvStep frm to b p) frm d = 0 := by
  obtain ⟨d, n⟩ := p
  simp only at hp
  unfold mvStep
  cases hs : sendCoins b frm to d n with
  | none =>
    have hlt := sendCoins_none hs
    simp only
    refine ⟨inv, ?_, fun _ h => h⟩
    rcases inv.src d with h | h
    · omega
    · exact h
  | some b' =>
    obtain ⟨hle, hb'⟩ := sendCoins_spec hne hs
    simp only
    have hsrc := inv.src d
    have hsum := inv.sum d
    have hft : ∀ d', ¬ (to = frm ∧ d' = d) := fun _ e => hne e.1.symm
    have hsame : ∀ a', balOf b' a' d = if a' = frm then balOf b frm d - n else if a' = to then balOf b to d + n
        else balOf b a' d := fun a' => by rw [hb']; simp
    have hoth : ∀ a' d', d' ≠ d → balOf b' a' d' = balOf b a' d' := fun a' d' hd => by rw [hb']; simp [hd]
    have hbf : balOf b' frm d = balOf b frm d - n := by rw [hsame]; simp
    have hbt : balOf b' to d = balOf b to d + n := by rw [hsame]; simp [hne.symm]
    refine ⟨⟨fun d' => ?_, fun d' => ?_, fun a d' h1 h2 => ?_⟩, ?_, fun d' h0 => ?_⟩
    · by_cases hd : d' = d
      · rw [hd, hbf]; right; omega
      · rw [hoth _ _ hd]; exact inv.src d'
    · by_cases hd : d' = d
      · rw [hd, hbf, hbt]; omega
      · rw [hoth _ _ hd, hoth _ _ hd]; exact inv.sum d'
    · rw [hb']
      simp only [h1, h2, false_and, ↓reduceIte]
      exact inv.other a d' h1 h2
    · rw [hbf]; omega
    · by_cases hd : d' = d
      · rw [hd, hbf]; rw [hd] at h0; omega
      · rw [hoth _ _ hd]; exact h0

theorem mvFold_inv {frm to : Addr} (hne : frm ≠ to) (b0 : Bal) (L : List (Denom × Nat))
    (hL : ∀ p ∈ L, p.2 = balOf b0 frm p.1) (b : Bal) (inv : MvInv frm to b0 b) :
    MvInv frm to b0 (L.foldl (mvStep frm to) b) ∧
      (∀ p ∈ L, balOf (L.foldl (mvStep frm to) b) frm p.1 = 0) ∧
      ∀ d, balOf b frm d = 0 → balOf (L.foldl (mvStep frm to) b) frm d = 0 := by
  induction L generalizing b with
  | nil => exact ⟨inv, fun _ h => absurd h (List.not_mem_nil), fun _ h => h⟩
  | cons p L ih =>
    obtain ⟨inv1, hz, hkeep⟩ := mvStep_inv hne inv p (hL p (List.mem_cons_self ..))
    obtain ⟨inv2, hall, hkeep2⟩ := ih (fun q hq => hL q (List.mem_cons_of_mem _ hq)) _ inv1
    refine ⟨inv2, fun q hq => ?_, fun d h0 => hkeep2 d (hkeep d h0)⟩
    rcases List.mem_cons.mp hq with rfl | hq'
    · exact hkeep2 _ hz
    · exact hall q hq'

theorem balancesOf_val (b : Bal) (a : Addr) : ∀ p ∈ balancesOf b a, p.2 = balOf b a p.1 := by
  intro p hp
  simp only [balancesOf, visible, List.mem_map, List.mem_filter, beq_iff_eq] at hp
  obtain ⟨q, ⟨⟨_, hg⟩, ha⟩, rfl⟩ := hp
  obtain ⟨⟨qa, qd⟩, qn⟩ := q
  simp only at ha hg ⊢
  subst ha
  simp [balOf, hg]

theorem balancesOf_mem (b : Bal) (a : Addr) (d : Denom) (n : Nat) (h : get b (a, d) = some n) :
    (d, n) ∈ balancesOf b a := by
  simp only [balancesOf, visible, List.mem_map, List.mem_filter, beq_iff_eq]
  exact ⟨((a, d), n), ⟨⟨get_some_mem b _ _ h, h⟩, rfl⟩, rfl⟩

/-- what `BankMigrate.Execute` does to the ledger, for every account and denomination -/
theorem bankExecute_spec (c : Cfg) (hc : c.bankAll = true) (s : State) (frm to : Addr) (hne : frm ≠ to) (a : Addr)
    (d : Denom) :
    balOf (bankExecute c s frm to).bal a d =
      if a = to then balOf s.bal to d + balOf s.bal frm d else if a = frm then 0 else balOf s.bal a d := by
  rw [bankExecute_eq c hc]
  obtain ⟨inv, hall, _⟩ := mvFold_inv hne s.bal (balancesOf s.bal frm) (balancesOf_val s.bal frm) s.bal
    ⟨fun _ => Or.inl rfl, fun _ => rfl, fun _ _ _ _ => rfl⟩
  have hz : balOf ((balancesOf s.bal frm).foldl (mvStep frm to) s.bal) frm d = 0 := by
    cases hg : get s.bal (frm, d) with
    | none =>
      have h0 : balOf s.bal frm d = 0 := by simp [balOf, hg]
      rcases inv.src d with h | h
      · rw [h, h0]
      · exact h
    | some n => exact hall (d, n) (balancesOf_mem s.bal frm d n hg)
  by_cases h2 : a = to
  · subst h2
    have := inv.sum d
    simp only [↓reduceIte]; omega
  · by_cases h1 : a = frm
    · subst h1; simp only [h2, ↓reduceIte]; exact hz
    · simp only [h2, h1, ↓reduceIte]; exact inv.other a d h1 h2

/-! ### sums over sets of accounts -/

/-- total of `f` over a list of accounts -/
def sumOver (A : List Addr) (f : Addr → Nat) : Nat := (A.map f).sum

theorem sumOver_moved_aux (f f' : Addr → Nat) (frm to : Addr) (hne : frm ≠ to)
    (hf : ∀ a, f' a = if a = to then f to + f frm else if a = frm then 0 else f a)
    (A : List Addr) (hA : A.Nodup) :
    sumOver A f' + (if frm ∈ A then f frm else 0) = sumOver A f + (if to ∈ A then f frm else 0) := by
  induction A with
  | nil => simp [sumOver]
  | cons a A ih =>
    have hnd := List.nodup_cons.mp hA
    have ih := ih hnd.2
    simp only [sumOver, List.map_cons, List.sum_cons, List.mem_cons] at ih ⊢
    rw [hf a]
    by_cases h2 : a = to
    · subst h2
      have hn : a ∉ A := hnd.1
      have hfa : ¬ frm = a := hne
      simp only [↓reduceIte, true_or, hfa, false_or, hn] at ih ⊢
      omega
    · by_cases h1 : a = frm
      · subst h1
        have hn : a ∉ A := hnd.1
        have hta : ¬ to = a := fun e => hne e.symm
        simp only [h2, ↓reduceIte, true_or, hta, false_or, hn] at ih ⊢
        omega
      · have e1 : ¬ frm = a := fun e => h1 e.symm
        have e2 : ¬ to = a := fun e => h2 e.symm
        simp only [h2, h1, ↓reduceIte, e1, e2, false_or] at ih ⊢
        omega

/-- moving everything `frm` has to `to` keeps the total over any duplicate-free set of accounts that contains both,
or neither -/
theorem sumOver_moved (f f' : Addr → Nat) (frm to : Addr) (hne : frm ≠ to)
    (hf : ∀ a, f' a = if a = to then f to + f frm else if a = frm then 0 else f a)
    (A : List Addr) (hA : A.Nodup) (hboth : frm ∈ A ↔ to ∈ A) : sumOver A f' = sumOver A f := by
  have := sumOver_moved_aux f f' frm to hne hf A hA
  by_cases h : frm ∈ A
  · have h' := hboth.mp h; simp only [h, h', ↓reduceIte] at this; omega
  · have h' : to ∉ A := fun e => h (hboth.mpr e); simp only [h, h', ↓reduceIte] at this; omega

end FxVerif.Proofs.C14
