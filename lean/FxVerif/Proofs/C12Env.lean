import FxVerif.Model.C12Env
import FxVerif.Proofs.C12Abi
/-!
# C12 round 4 — facts about `StrToByte32`, `CalExternalTimeoutHeight`, power normalisation, `autoIncrementID`
-/
namespace FxVerif.Model.C12
open FxVerif.Gen.C12Env

/-! ## bytes and big-endian values -/

def Bytes (s : List Nat) : Prop := ∀ b ∈ s, b < 256

theorem snoc_cases (bs : List Nat) : bs = [] ∨ ∃ xs b, bs = xs ++ [b] := by
  induction bs with
  | nil => exact .inl rfl
  | cons a t ih =>
    rcases ih with rfl | ⟨xs, b, rfl⟩
    · exact .inr ⟨[], a, rfl⟩
    · exact .inr ⟨a :: xs, b, rfl⟩

theorem snoc_induction {P : List Nat → Prop} (h0 : P []) (hs : ∀ xs b, P xs → P (xs ++ [b])) (bs : List Nat) : P bs := by
  induction hn : bs.length generalizing bs with
  | zero => rw [List.length_eq_zero_iff.1 hn]; exact h0
  | succ n ih =>
    rcases snoc_cases bs with rfl | ⟨xs, b, rfl⟩
    · simp at hn
    · exact hs xs b (ih xs (by simp at hn; omega))

theorem fromBE_lt (bs : List Nat) (h : Bytes bs) : fromBE bs < 256 ^ bs.length := by
  induction bs using snoc_induction with
  | h0 => simp [fromBE]
  | hs xs b ih =>
    have hx : Bytes xs := fun x hx => h x (by simp [hx])
    have hb : b < 256 := h b (by simp)
    have := ih hx
    rw [fromBE_append_single, List.length_append, List.length_singleton, Nat.pow_succ]
    omega

theorem toBE_fromBE (bs : List Nat) (h : Bytes bs) : toBE bs.length (fromBE bs) = bs := by
  induction bs using snoc_induction with
  | h0 => simp [toBE]
  | hs xs b ih =>
    have hx : Bytes xs := fun x hx => h x (by simp [hx])
    have hb : b < 256 := h b (by simp)
    rw [fromBE_append_single, List.length_append, List.length_singleton, toBE]
    have h1 : (fromBE xs * 256 + b) / 256 = fromBE xs := by omega
    have h2 : (fromBE xs * 256 + b) % 256 = b := by omega
    rw [h1, h2, ih hx]

theorem fromBE_inj (xs ys : List Nat) (hx : Bytes xs) (hy : Bytes ys) (hl : xs.length = ys.length)
    (h : fromBE xs = fromBE ys) : xs = ys := by
  rw [← toBE_fromBE xs hx, ← toBE_fromBE ys hy, hl, h]

/-! ## `StrToByte32` -/

theorem copyInto_length (n : Nat) (s : List Nat) : (copyInto n s).length = n := by
  simp [copyInto]; omega

theorem copyInto_of_le (n : Nat) (s : List Nat) (h : s.length ≤ n) : copyInto n s = s ++ List.replicate (n - s.length) 0 := by
  simp [copyInto, List.take_of_length_le h]

/-- `StrToByte32` as the source spells it now: error above 32 bytes, otherwise the text right-padded with zero bytes to 32 -/
theorem strToByte32_eq (s : List Nat) :
    strToByte32 s = if s.length > 32 then none else some (s ++ List.replicate (32 - s.length) 0) := by
  unfold strToByte32 strToByte32By
  have h1 : str32.guardOp = ">" := by decide
  have h2 : str32.guardBound = 32 := by decide
  have h3 : str32.arrayLen = 32 := by decide
  rw [h1, h2, h3]
  simp only [cmpOp, beq_self_eq_true, if_true]
  by_cases h : s.length > 32
  · simp [h]
  · simp [h, copyInto_of_le 32 s (by omega)]

theorem bytes_pad (s : List Nat) (n : Nat) (h : Bytes s) : Bytes (s ++ List.replicate n 0) := by
  intro b hb
  simp only [List.mem_append, List.mem_replicate] at hb
  rcases hb with hb | ⟨_, rfl⟩
  · exact h b hb
  · omega

theorem strToByte32_some (s bs : List Nat) (h : strToByte32 s = some bs) :
    s.length ≤ 32 ∧ bs = s ++ List.replicate (32 - s.length) 0 ∧ bs.length = 32 := by
  rw [strToByte32_eq] at h
  split at h
  · cases h
  · cases h; refine ⟨by omega, rfl, ?_⟩; simp; omega

/-- stripping trailing zeros -/
theorem pad_inj (s t : List Nat) (m n : Nat) (hs : NoTrailingNul s) (ht : NoTrailingNul t)
    (h : s ++ List.replicate m 0 = t ++ List.replicate n 0) : s = t := by
  induction m generalizing n with
  | zero =>
    cases n with
    | zero => simpa using h
    | succ n =>
      exfalso
      rw [List.replicate_succ', ← List.append_assoc] at h
      simp only [List.replicate_zero, List.append_nil] at h
      apply hs
      rw [h]; simp
  | succ m ih =>
    cases n with
    | zero =>
      exfalso
      rw [List.replicate_succ', ← List.append_assoc] at h
      simp only [List.replicate_zero, List.append_nil] at h
      apply ht
      rw [← h]; simp
    | succ n =>
      rw [List.replicate_succ', List.replicate_succ', ← List.append_assoc, ← List.append_assoc] at h
      exact ih n (List.append_inj_left' h rfl)

/-! ## `CalExternalTimeoutHeight` -/

theorem calTimeout_eq (i : TIn) (h : i.avgExt ≠ 0) : calTimeout i = some (timeoutFormula i) := by
  unfold calTimeout timeoutFormula
  by_cases he : i.extHeight = 0
  · simp [timeoutProg, runT, evalT, recordCalls, TIn.leaf, arith, List.lookup, he]
  · simp [timeoutProg, runT, evalT, recordCalls, TIn.leaf, arith, List.lookup, he, h]

theorem div_lt_of_ge_100 (x d : Nat) (hx : x < 2 ^ 64) (hd : 100 ≤ d) : x / d < 2 ^ 58 := by
  have h1 : x / d ≤ x / 100 := Nat.div_le_div_left hd (by omega)
  omega

/-- the result fits an `int64` whenever the observed external height is below 2^62 and the external block time is at
least 100 (ms), whatever the other inputs are — including every wrap-around of the intermediate `uint64` products -/
theorem timeoutFormula_lt (i : TIn) (hext : i.extHeight < 2 ^ 62) (havg : 100 ≤ i.avgExt) (ht : i.timeout < 2 ^ 64) :
    timeoutFormula i < 2 ^ 63 := by
  unfold timeoutFormula
  split
  · omega
  · have h1 := div_lt_of_ge_100 ((i.fxHeight % u64 + u64 - i.lastFxHeight % u64) % u64 * i.avgBlock % u64) i.avgExt
      (by unfold u64; exact Nat.mod_lt _ (by omega)) havg
    have h2 := div_lt_of_ge_100 i.timeout i.avgExt ht havg
    generalize (i.fxHeight % u64 + u64 - i.lastFxHeight % u64) % u64 * i.avgBlock % u64 / i.avgExt = A at h1 ⊢
    generalize i.timeout / i.avgExt = B at h2 ⊢
    unfold u64
    omega

/-! ## power normalisation -/

theorem normPower_gen (p total c : Nat) (hc : constOf "math.MaxUint32" = some c) (ht : total ≠ 0)
    (hp : p * c / total < 18446744073709551616) : normPower p total = some (p * c / total) := by
  have hpn : powerNorm = [("sdkmath.NewUint", "bridgeValidators[i].Power"), ("MulUint64", "math.MaxUint32"),
      ("QuoUint64", "totalPower"), ("Uint64", "")] := by decide
  unfold normPower
  rw [hpn]
  simp only [beq_self_eq_true, if_true, normChain]
  have s1 : normStep total p ("MulUint64", "math.MaxUint32") = some (p * c) := by
    simp [normStep, hc]
  have s2 : normStep total (p * c) ("QuoUint64", "totalPower") = some (p * c / total) := by
    simp [normStep, ht]
  have s3 : normStep total (p * c / total) ("Uint64", "") = some (p * c / total) := by
    simp [normStep, hp]
  rw [s1]; simp only []; rw [s2]; simp only []; rw [s3]

theorem maxUint32_const : constOf "math.MaxUint32" = some 4294967295 := by decide

/-- a member whose power is at most the total gets a normalised power of at most `math.MaxUint32` -/
theorem normPower_le (p total : Nat) (hle : p ≤ total) (ht : total ≠ 0) :
    ∃ v, normPower p total = some v ∧ v ≤ 4294967295 := by
  obtain ⟨c, hc, hcv⟩ : ∃ c, constOf "math.MaxUint32" = some c ∧ c = 4294967295 := ⟨_, maxUint32_const, rfl⟩
  have h : p * c / total ≤ c := by
    apply Nat.div_le_of_le_mul
    exact Nat.mul_le_mul_right _ hle
  refine ⟨p * c / total, normPower_gen p total c hc ht (by omega), by omega⟩

/-! ## `autoIncrementID` -/

theorem autoIncr_consts : autoIncr.default = 1 ∧ autoIncr.inc = 1 ∧ autoIncr.ret = autoIncr.incOf := by decide

theorem drawIds_eq (n : Nat) (c : Nat) (h : c + n < 2 ^ 64) : drawIds n (some c) = List.range' c n := by
  induction n generalizing c with
  | zero => rfl
  | succ n ih =>
    have h1 : (autoIncrStep (some c)).1 = c := by simp [autoIncrStep]
    have h2 : (autoIncrStep (some c)).2 = c + 1 := by
      simp [autoIncrStep, autoIncr_consts.2.1, u64]; omega
    rw [drawIds, h1, h2, ih (c + 1) (by omega), List.range'_succ]

/-! ## parameters, builders -/

theorem paramRejects_avgExt (v : Nat) : paramRejects "AverageExternalBlockTime" v = decide (v < 100) := by
  simp [paramRejects, paramBounds, cmpOp]

theorem gidParamValid_iff (s : List Nat) : gidParamValid s = true ↔ s ≠ [] ∧ (strToByte32 s).isSome := by
  simp [gidParamValid, gidParamChecks, gidCheck]

theorem gidWord_some (s : List Nat) (hb : Bytes s) (w : Nat) (h : gidWord s = some w) :
    s.length ≤ 32 ∧ w = fromBE (s ++ List.replicate (32 - s.length) 0) ∧ w < 2 ^ 256 := by
  unfold gidWord at h
  cases hs : strToByte32 s with
  | none => simp [hs] at h
  | some bs =>
    obtain ⟨h1, h2, h3⟩ := strToByte32_some s bs hs
    simp only [hs, Option.map_some, Option.some.injEq] at h
    subst h
    refine ⟨h1, by rw [h2], ?_⟩
    have := fromBE_lt bs (by rw [h2]; exact bytes_pad s _ hb)
    rw [h3] at this
    have e : (256 : Nat) ^ 32 = 2 ^ 256 := by decide
    omega

theorem gidWord_inj (s t : List Nat) (hs : Bytes s) (ht : Bytes t) (ns : NoTrailingNul s) (nt : NoTrailingNul t) (w : Nat)
    (h1 : gidWord s = some w) (h2 : gidWord t = some w) : s = t := by
  obtain ⟨ls, ws, _⟩ := gidWord_some s hs w h1
  obtain ⟨lt, wt, _⟩ := gidWord_some t ht w h2
  have hl : (s ++ List.replicate (32 - s.length) 0).length = (t ++ List.replicate (32 - t.length) 0).length := by
    simp; omega
  have := fromBE_inj _ _ (bytes_pad s _ hs) (bytes_pad t _ ht) hl (by rw [← ws, ← wt])
  exact pad_inj s t _ _ ns nt this

theorem mem_le_sum (ps : List Nat) (p : Nat) (h : p ∈ ps) : p ≤ ps.sum := by
  induction ps with
  | nil => simp at h
  | cons a t ih =>
    simp only [List.mem_cons] at h
    simp only [List.sum_cons]
    rcases h with rfl | h
    · omega
    · have := ih h; omega

theorem drawIds_nodup (n c : Nat) (h : c + n < 2 ^ 64) : (drawIds n (some c)).Nodup ∧ ∀ id ∈ drawIds n (some c), c ≤ id ∧ id < c + n := by
  rw [drawIds_eq n c h]
  refine ⟨List.nodup_range' (step := 1) (by omega), ?_⟩
  intro id hid
  simp [List.mem_range'] at hid
  omega

end FxVerif.Model.C12
