import FxVerif.Model.C15
/-!
# C15 — the tally arithmetic: no division by zero, abstain ≤ total (core Lean only)

`Tally` divides three times after the sums (`percentVoting`, the veto share, the yes share) and once per counted
delegation / validator (by the validator's delegator shares).  The lemmas here show that, with the decision sequence in
the order read from the source, none of these divisors is zero — given that the stored votes passed the `MsgVoteWeighted`
validation (so the abstain sum cannot exceed the total) and that bonded validators have delegator shares.
-/
namespace FxVerif.Proofs.C15
open FxVerif.Gen.C15 FxVerif.Model.C15

/-! ### `LegacyDec.Mul` by a weight ≤ 1 does not increase -/

theorem roundHalfEven_le {x k : Nat} (h : x ≤ DEC * k) : roundHalfEven x DEC ≤ k := by
  have h1 := Nat.div_add_mod x DEC
  have h2 : x % DEC < DEC := Nat.mod_lt _ (by decide)
  have hD : DEC = 1000000000000000000 := rfl
  generalize hq : x / DEC = q at h1
  generalize hr : x % DEC = r at h1 h2
  have e : roundHalfEven x DEC = (if 2 * r < DEC then q else if DEC < 2 * r then q + 1 else if q % 2 == 0 then q else q + 1) := by
    simp only [roundHalfEven, hq, hr]
  rw [e]
  simp only [DEC] at h h1
  by_cases c1 : 2 * r < DEC
  · rw [if_pos c1]; omega
  · rw [if_neg c1]
    by_cases c2 : DEC < 2 * r
    · rw [if_pos c2]; omega
    · rw [if_neg c2]
      split <;> omega

theorem decMul_le {pw w : Nat} (hw : w ≤ DEC) : decMul pw w ≤ pw := by
  unfold decMul
  apply roundHalfEven_le
  calc pw * w ≤ pw * DEC := Nat.mul_le_mul_left _ hw
    _ = DEC * pw := Nat.mul_comm _ _

/-! ### the sums -/

theorem addOpt_frame (n : Nums) (o : Opt) (x : Nat) : (addOpt n o x).total = n.total ∧ (addOpt n o x).bonded = n.bonded := by
  cases o <;> simp [addOpt]

theorem addOpts_frame (mulOk : Bool) (pw : Nat) : ∀ (opts : List (Opt × Nat)) (n : Nums),
    (addOpts mulOk pw opts n).total = n.total ∧ (addOpts mulOk pw opts n).bonded = n.bonded := by
  intro opts
  induction opts with
  | nil => intro n; exact ⟨rfl, rfl⟩
  | cons ow r ih =>
    intro n
    obtain ⟨o, w⟩ := ow
    simp only [addOpts]
    have := ih (addOpt n o (if mulOk = true then decMul pw w else 0))
    have f := addOpt_frame n o (if mulOk = true then decMul pw w else 0)
    exact ⟨this.1.trans f.1, this.2.trans f.2⟩

theorem addOpts_abstain_none (mulOk : Bool) (pw : Nat) : ∀ (opts : List (Opt × Nat)) (n : Nums),
    opts.all (fun x => !(x.1 == Opt.abstain)) = true → (addOpts mulOk pw opts n).abstain = n.abstain := by
  intro opts
  induction opts with
  | nil => intro n _; rfl
  | cons ow r ih =>
    intro n h
    obtain ⟨o, w⟩ := ow
    simp only [List.all_cons, Bool.and_eq_true] at h
    simp only [addOpts]
    rw [ih _ h.2]
    cases o <;> simp_all [addOpt]

/-- the weights of a validated vote are at most 1 and no option occurs twice: the abstain sum grows by at most the power -/
theorem addOpts_abstain_le (mulOk : Bool) (pw : Nat) : ∀ (opts : List (Opt × Nat)) (n : Nums),
    opts.all (fun o => decide (0 < o.2) && decide (o.2 ≤ DEC)) = true → distinctOpts opts = true →
    (addOpts mulOk pw opts n).abstain ≤ n.abstain + pw := by
  intro opts
  induction opts with
  | nil => intro n _ _; simp [addOpts]
  | cons ow r ih =>
    intro n hw hd
    obtain ⟨o, w⟩ := ow
    simp only [List.all_cons, Bool.and_eq_true, decide_eq_true_eq] at hw
    simp only [distinctOpts, Bool.and_eq_true] at hd
    simp only [addOpts]
    by_cases ho : o = Opt.abstain
    · subst ho
      rw [addOpts_abstain_none mulOk pw r _ hd.1]
      simp only [addOpt]
      have := decMul_le (pw := pw) hw.1.2
      split <;> omega
    · have := ih (addOpt n o (if mulOk = true then decMul pw w else 0)) hw.2 hd.2
      have e : (addOpt n o (if mulOk = true then decMul pw w else 0)).abstain = n.abstain := by
        cases o <;> simp_all [addOpt]
      omega

/-- what `optsValid` gives -/
theorem optsValid_parts {opts : List (Opt × Nat)} (h : optsValid opts = true) :
    opts.all (fun o => decide (0 < o.2) && decide (o.2 ≤ DEC)) = true ∧ distinctOpts opts = true := by
  simp only [optsValid, Bool.and_eq_true] at h
  exact ⟨h.1.1.2, h.1.2⟩

/-- the invariant of the sums: the abstain sum never exceeds the total -/
def J (n : Nums) : Prop := n.abstain ≤ n.total

theorem addPower_J {mulOk : Bool} {pw : Nat} {opts : List (Opt × Nat)} {n : Nums}
    (hv : optsValid opts = true ∨ opts = []) (h : J n) : J (addPower mulOk pw opts n) := by
  unfold addPower
  split
  · unfold J at h ⊢
    simp only
    rcases hv with hv | hv
    · have := addOpts_abstain_le mulOk pw opts n (optsValid_parts hv).1 (optsValid_parts hv).2
      omega
    · subst hv; simp only [addOpts]; omega
  · exact h

theorem addPower_bonded {mulOk : Bool} {pw : Nat} {opts : List (Opt × Nat)} {n : Nums} :
    (addPower mulOk pw opts n).bonded = n.bonded := by
  unfold addPower
  split
  · simp only; exact (addOpts_frame mulOk pw opts n).2
  · rfl

/-! ### the loops: total when bonded validators have shares, and they keep `J` -/

def stakingOk (stk : Staking) : Prop := ∀ v ∈ stk.vals, 0 < v.shares

theorem findVal_mem {vals : List Val} {a : Addr} {v : Val} (h : findVal vals a = some v) : v ∈ vals := by
  induction vals with
  | nil => simp [findVal] at h
  | cons x r ih =>
    simp only [findVal] at h
    split at h
    · cases h; exact List.mem_cons_self
    · exact List.mem_cons_of_mem _ (ih h)

theorem decQuo_some {a b : Nat} (h : 0 < b) : ∃ x, decQuo a b = some x := by
  unfold decQuo
  have : (b == 0) = false := by simp; omega
  simp [this]

theorem delPower_some {v : Val} (shares : Nat) (h : 0 < v.shares) : ∃ x, delPower v shares = some x := by
  unfold delPower
  split
  · exact decQuo_some h
  · exact ⟨0, rfl⟩

theorem valPower_some {v : Val} (ded : Nat) (h : 0 < v.shares) : ∃ x, valPower v ded = some x := by
  unfold valPower
  split
  · exact decQuo_some h
  · exact ⟨0, rfl⟩

theorem delLoop_ok {vals : List Val} (hv : ∀ v ∈ vals, 0 < v.shares) {opts : List (Opt × Nat)} (ho : optsValid opts = true)
    (hg : tallyDelegationNeedsBondedValidator = true) :
    ∀ (ds : List Del) (n : Nums), J n → ∃ n', delLoop vals opts ds n = some n' ∧ J n' ∧ n'.bonded = n.bonded := by
  intro ds
  induction ds with
  | nil => intro n h; exact ⟨n, rfl, h, rfl⟩
  | cons d r ih =>
    intro n h
    simp only [delLoop]
    cases hf : findVal vals d.val with
    | none => simp only [hg, if_true]; exact ih n h
    | some v =>
      obtain ⟨pw, hpw⟩ := delPower_some d.shares (hv v (findVal_mem hf))
      simp only [hpw]
      obtain ⟨n', h1, h2, h3⟩ := ih _ (addPower_J (Or.inl ho) h)
      exact ⟨n', h1, h2, h3.trans addPower_bonded⟩

theorem voteLoop_ok {stk : Staking} (hs : stakingOk stk) (hg : tallyDelegationNeedsBondedValidator = true) :
    ∀ (vs : List Vote), (∀ v ∈ vs, optsValid v.opts = true) → ∀ n : Nums, J n →
      ∃ n', voteLoop stk vs n = some n' ∧ J n' ∧ n'.bonded = n.bonded := by
  intro vs
  induction vs with
  | nil => intro _ n h; exact ⟨n, rfl, h, rfl⟩
  | cons v r ih =>
    intro hv n h
    simp only [voteLoop]
    obtain ⟨n1, h1, j1, b1⟩ := delLoop_ok hs (hv v List.mem_cons_self) hg (stk.dels.filter (fun d => d.who == v.voter)) n h
    simp only [h1]
    obtain ⟨n2, h2, j2, b2⟩ := ih (fun x hx => hv x (List.mem_cons_of_mem _ hx)) n1 j1
    exact ⟨n2, h2, j2, b2.trans b1⟩

theorem voteOf_mem {vs : List Vote} {a : Addr} {v : Vote} (h : voteOf vs a = some v) : v ∈ vs := by
  induction vs with
  | nil => simp [voteOf] at h
  | cons x r ih =>
    simp only [voteOf] at h
    split at h
    · cases h; exact List.mem_cons_self
    · exact List.mem_cons_of_mem _ (ih h)

theorem valLoop_ok {votes : List Vote} (hv : ∀ v ∈ votes, optsValid v.opts = true) (dels : List Del) :
    ∀ (vals : List Val), (∀ v ∈ vals, 0 < v.shares) → ∀ n : Nums, J n →
      ∃ n', valLoop votes dels vals n = some n' ∧ J n' ∧ n'.bonded = n.bonded := by
  intro vals
  induction vals with
  | nil => intro _ n h; exact ⟨n, rfl, h, rfl⟩
  | cons v r ih =>
    intro hs n h
    have hr : ∀ x ∈ r, 0 < x.shares := fun x hx => hs x (List.mem_cons_of_mem _ hx)
    obtain ⟨pw, hpw⟩ := valPower_some (deductions votes dels v.op) (hs v List.mem_cons_self)
    simp only [valLoop]
    split
    · split
      · exact ih hr n h
      · simp only [hpw]
        obtain ⟨n', h1, h2, h3⟩ := ih hr _ (addPower_J (mulOk := true) (pw := pw) (Or.inr rfl) h)
        exact ⟨n', h1, h2, h3.trans addPower_bonded⟩
    · rename_i vt hvt
      have hmem : vt ∈ votes := by
        split at hvt
        · exact voteOf_mem hvt
        · cases hvt
      simp only [hpw]
      obtain ⟨n', h1, h2, h3⟩ := ih hr _ (addPower_J (mulOk := tallySubPowerValidator == "votingPower.Mul(weight)") (pw := pw)
        (Or.inl (hv vt hmem)) h)
      exact ⟨n', h1, h2, h3.trans addPower_bonded⟩

/-- the sums of `Tally` never divide by zero and keep abstain ≤ total -/
theorem tallyNums_ok {votes : List Vote} {stk : Staking} (hv : ∀ v ∈ votes, optsValid v.opts = true) (hs : stakingOk stk)
    (hg : tallyDelegationNeedsBondedValidator = true) :
    ∃ n, tallyNums votes stk = some n ∧ J n ∧ n.bonded = stk.totalBonded := by
  unfold tallyNums
  obtain ⟨n1, h1, j1, b1⟩ := voteLoop_ok hs hg votes hv { bonded := stk.totalBonded } (Nat.le_refl _)
  simp only [h1]
  obtain ⟨n2, h2, j2, b2⟩ := valLoop_ok hv stk.dels stk.vals hs n1 j1
  exact ⟨n2, h2, j2, b2.trans b1⟩

/-! ### the decision sequence in the order of the source never divides by zero -/

/-- the decision sequence read from the source, written out -/
def tallyForm (s : State) (p : Proposal) (n : Nums) : Except Err (Bool × Bool) :=
  if n.bonded == 0 then Except.ok (false, paramBool s.params "false") else
  match decQuo n.total (DEC * n.bonded) with
  | none => Except.error (Err.halt "tally: division by zero")
  | some pct =>
    if cmpDec "LT" pct (quorumFor s p) then Except.ok (false, paramBool s.params "params.BurnVoteQuorum") else
    if n.total == n.abstain then Except.ok (false, paramBool s.params "false") else
    match decQuo n.veto n.total with
    | none => Except.error (Err.halt "tally: division by zero")
    | some v =>
      if cmpDec "GT" v (paramDec s.params "params.VetoThreshold") then Except.ok (false, paramBool s.params "params.BurnVoteVeto") else
      match decQuo n.yes (n.total - n.abstain) with
      | none => Except.error (Err.halt "tally: division by zero")
      | some y => if cmpDec "GT" y (yesThreshold s p) then Except.ok (true, paramBool s.params "false")
                  else Except.ok (tallyFinalPasses, paramBool s.params tallyFinalBurn)

theorem tally_unfold (s : State) (p : Proposal) (n : Nums) : tally s p n = tallyForm s p n := by
  unfold tally tallyForm
  simp only [tallySteps, decideFrom, stepDecide, condFires]
  cases (n.bonded == 0)
  · simp only [Bool.false_eq_true, if_false, if_true]
    cases decQuo n.total (DEC * n.bonded) with
    | none => rfl
    | some pct =>
      simp only
      cases cmpDec "LT" pct (quorumFor s p)
      · simp only [Bool.false_eq_true, if_false]
        cases (n.total == n.abstain)
        · simp only [Bool.false_eq_true, if_false]
          cases decQuo n.veto n.total with
          | none => rfl
          | some v =>
            simp only [Option.map_some]
            cases cmpDec "GT" v (paramDec s.params "params.VetoThreshold")
            · simp only [Bool.false_eq_true, if_false]
              cases decQuo n.yes (n.total - n.abstain) with
              | none => rfl
              | some y =>
                simp only [Option.map_some]
                cases cmpDec "GT" y (yesThreshold s p) <;> rfl
            · rfl
        · rfl
      · rfl
  · rfl

theorem decQuo_of_pos {a b : Nat} (h : b ≠ 0) : decQuo a b = some (roundHalfEven (DEC * DEC * a / b) DEC) := by
  unfold decQuo
  have : (b == 0) = false := by simpa using h
  simp [this]

/-- this is where the order of the tests matters: zero bonded is excluded before `percentVoting` is computed, and the
all-abstain case (which includes "no votes at all": total = abstain = 0) before the veto and the yes shares -/
theorem tally_ok (s : State) (p : Proposal) {n : Nums} (h : J n) : ∃ r, tally s p n = .ok r := by
  rw [tally_unfold]
  unfold tallyForm J at *
  by_cases hb : n.bonded = 0
  · simp [hb]
  · have hb' : (n.bonded == 0) = false := by simpa using hb
    rw [decQuo_of_pos (Nat.mul_ne_zero (by decide) hb)]
    simp only [hb', Bool.false_eq_true, if_false]
    split
    · exact ⟨_, rfl⟩
    · by_cases ha : n.total = n.abstain
      · simp [ha]
      · have ha' : (n.total == n.abstain) = false := by simpa using ha
        rw [decQuo_of_pos (a := n.veto) (b := n.total) (by omega), decQuo_of_pos (a := n.yes) (b := n.total - n.abstain) (by omega)]
        simp only [ha', Bool.false_eq_true, if_false]
        split
        · exact ⟨_, rfl⟩
        · split <;> exact ⟨_, rfl⟩

/-! ### no stake is counted for more than it is worth -/

theorem roundHalfEven_le_succ (x : Nat) : roundHalfEven x DEC ≤ x / DEC + 1 := by
  unfold roundHalfEven
  simp only
  split
  · omega
  · split
    · omega
    · split <;> omega

/-- the value of a `LegacyDec` quotient: at most one unit (10^-18) above the exact quotient -/
def quoVal (a b : Nat) : Nat := roundHalfEven (DEC * DEC * a / b) DEC

theorem quoVal_le (a b : Nat) (_hb : 0 < b) : quoVal a b ≤ DEC * a / b + 1 := by
  unfold quoVal
  have h := roundHalfEven_le_succ (DEC * DEC * a / b)
  have e : DEC * DEC * a / b / DEC = DEC * a / b := by
    rw [Nat.div_div_eq_div_mul, Nat.mul_comm b DEC, Nat.mul_assoc DEC DEC a]
    exact Nat.mul_div_mul_left _ _ (by decide)
  omega

theorem div_add_div_le (a b c : Nat) (hc : 0 < c) : a / c + b / c ≤ (a + b) / c := by
  rw [Nat.le_div_iff_mul_le hc, Nat.add_mul]
  have := Nat.div_mul_le_self a c
  have := Nat.div_mul_le_self b c
  omega

def sumNat : List Nat → Nat
  | [] => 0
  | x :: r => x + sumNat r

/-- **a validator's stake is counted at most once**: the voting powers of any voting delegators of a validator (shares
`ds`, together at most the validator's delegator shares) plus the power left to the validator itself after their
deduction never exceed the validator's bonded tokens by more than one unit of 10^-18 per term (the `Quo` roundings) -/
theorem stake_counted_once (bonded shares : Nat) (hS : 0 < shares) (ds : List Nat) (hsum : sumNat ds ≤ shares) :
    sumNat (ds.map (fun d => quoVal (d * bonded) shares)) + quoVal ((shares - sumNat ds) * bonded) shares ≤
      DEC * bonded + ds.length + 1 := by
  have key : ∀ (l : List Nat), sumNat (l.map (fun d => quoVal (d * bonded) shares)) ≤ DEC * (sumNat l * bonded) / shares + l.length := by
    intro l
    induction l with
    | nil => simp [sumNat]
    | cons d r ih =>
      simp only [List.map_cons, sumNat, List.length_cons]
      have h1 := quoVal_le (d * bonded) shares hS
      have h2 := div_add_div_le (DEC * (d * bonded)) (DEC * (sumNat r * bonded)) shares hS
      have e : DEC * (d * bonded) + DEC * (sumNat r * bonded) = DEC * ((d + sumNat r) * bonded) := by
        rw [← Nat.mul_add, Nat.add_mul]
      rw [e] at h2
      omega
  have h1 := key ds
  have h2 := quoVal_le ((shares - sumNat ds) * bonded) shares hS
  have h3 := div_add_div_le (DEC * (sumNat ds * bonded)) (DEC * ((shares - sumNat ds) * bonded)) shares hS
  have e : DEC * (sumNat ds * bonded) + DEC * ((shares - sumNat ds) * bonded) = DEC * bonded * shares := by
    rw [← Nat.mul_add, ← Nat.add_mul]
    have : sumNat ds + (shares - sumNat ds) = shares := by omega
    rw [this, Nat.mul_comm shares bonded, Nat.mul_assoc]
  rw [e, Nat.mul_div_cancel _ hS] at h3
  omega

theorem decQuo_eq_quoVal {a b : Nat} (hb : 0 < b) : decQuo a b = some (quoVal a b) := by
  unfold decQuo quoVal
  have : (b == 0) = false := by simp; omega
  simp [this]

end FxVerif.Proofs.C15
