import FxVerif.Proofs.C08Hist
/-! helper lemmas for C08 (round 4): I_family along whole histories (the alias set moving), and the history theorems with the
hypothesis "no contract has self-destructed" weakened to "THIS pair's contract has not self-destructed" (other pairs may be
removed along the way) -/
namespace FxVerif.Proofs.C08
open FxVerif.Model.Ledger FxVerif.Model.Flows FxVerif.Model.C08 FxVerif.Proofs.Ledger

/-! ### a live pair persists, whatever happens to the others -/

theorem removePair_pairs (i : Idx) (p : Pair) : (removePair i p).pairs = delKV (p.denom, p.contract) i.pairs := by
  simp only [removePair]; split <;> rfl

/-- a message never drops or re-keys a registered pair whose own contract has not self-destructed — pairs of
self-destructed contracts may be removed by the same message -/
theorem pair_persists_live (s s' : UState) (hi : IdxInv s.idx) (op : UOp) (h : stepU s op = .ok s')
    (id : PairId) (p : Pair) (hp : lookup id s.idx.pairs = some p) (hlive : s.dead.contains p.contract = false) :
    ∃ p', lookup id s'.idx.pairs = some p' ∧ p'.denom = p.denom ∧ p'.contract = p.contract ∧ p'.external = p.external := by
  obtain ⟨hid, _, _⟩ := hi.pairs_ok _ _ hp
  have hrm : ∀ p' : Pair, s.dead.contains p'.contract = true → lookup id (removePair s.idx p').pairs = some p := by
    intro p' hd
    rw [removePair_pairs]
    have hne : id ≠ (p'.denom, p'.contract) := by
      intro e; rw [hid] at e
      have : p.contract = p'.contract := by simpa using congrArg Prod.snd e
      rw [this, hd] at hlive; cases hlive
    rw [lookup_delKV_ne _ _ _ hne]; exact hp
  cases op with
  | convertCoin d u r n =>
    obtain ⟨p', _, _, hcase⟩ := stepU_convertCoin_ok s s' d u r n h
    rcases hcase with ⟨hd, rfl⟩ | ⟨_, L', _, rfl⟩
    · exact ⟨p, hrm p' hd, rfl, rfl, rfl⟩
    · exact ⟨p, hp, rfl, rfl, rfl⟩
  | convertERC20 ct u r n =>
    obtain ⟨p', _, _, hcase⟩ := stepU_convertERC20_ok s s' ct u r n h
    rcases hcase with ⟨hd, rfl⟩ | ⟨_, L', _, rfl⟩
    · exact ⟨p, hrm p' hd, rfl, rfl, rfl⟩
    · exact ⟨p, hp, rfl, rfl, rfl⟩
  | convertDenom d u r n tgt =>
    simp only [stepU] at h
    split at h; · cases h
    split at h; · cases h
    split at h
    · split at h <;> cases h
    · simp only [UState.withLedger] at h
      split at h <;> cases h
      exact ⟨p, hp, rfl, rfl, rfl⟩
  | idx iop =>
    obtain ⟨i, hstep, rfl⟩ := stepU_idx_ok h
    exact pair_persists_idx _ _ hi iop hstep id p hp
  | setEnable b =>
    simp only [stepU] at h; cases h; exact ⟨p, hp, rfl, rfl, rfl⟩

/-! ### I_module and I_external along histories in which other pairs may be removed -/

theorem donationM_congr (dead : List Nat) (d d' ct ct' : Nat) (h1 : d' = d) (h2 : ct' = ct) (op : UOp) :
    donationM dead d' ct' op = donationM dead d ct op := by rw [h1, h2]

/-- what a history donates to the escrow of the module-owned pair `(d, ct)` -/
def donationRun (d ct : Nat) : UState → List UOp → Int
  | _, [] => 0
  | s, op :: ops =>
    (match stepU s op with
     | .ok _ => donationM s.dead d ct op
     | .error _ => 0) + donationRun d ct (stepUT s op) ops

theorem donationRun_nonneg (d ct : Nat) (s : UState) (ops : List UOp) : 0 ≤ donationRun d ct s ops := by
  induction ops generalizing s with
  | nil => exact Int.le_refl _
  | cons op ops ih =>
    simp only [donationRun]
    have h1 := ih (stepUT s op)
    have h2 : 0 ≤ (match stepU s op with | .ok _ => donationM s.dead d ct op | .error _ => (0 : Int)) := by
      split
      · cases op <;> simp only [donationM] <;> (repeat' split) <;>
          first | exact Int.le_refl _ | exact Int.natCast_nonneg _ | omega
      · exact Int.le_refl _
    omega

/-- **I_module along every history, exactly**: book at the end = book at the start + the donations of the history; the only
hypothesis about self-destruction is that the pair's OWN contract is alive -/
theorem bookM_runU_live (s : UState) (hi : IdxInv s.idx) (ops : List UOp) (hf : FreshRun s ops)
    (id : PairId) (p : Pair) (hp : lookup id s.idx.pairs = some p) (hext : p.external = false)
    (hlive : s.dead.contains p.contract = false) :
    (bookM p.denom p.contract (decide (p.denom = 0))).val (runU s ops).L =
      (bookM p.denom p.contract (decide (p.denom = 0))).val s.L + donationRun p.denom p.contract s ops := by
  induction ops generalizing s p with
  | nil => simp [runU, donationRun]
  | cons op ops ih =>
    simp only [runU, List.foldl_cons, donationRun]
    cases h : stepU s op with
    | error e =>
      have hst : stepUT s op = s := by simp [stepUT, h]
      have := ih s hi (by simpa [FreshRun, hst] using hf.2) p hp hext hlive
      simp only [runU] at this
      rw [hst, this]; simp
    | ok s' =>
      have hst : stepUT s op = s' := by simp [stepUT, h]
      obtain ⟨p', hp', e1, e2, e3⟩ := pair_persists_live s s' hi op h id p hp hlive
      have hstep := bookM_stepU s s' hi id p hp hext op h
      have hd' := dead_stepU s s' op h
      have := ih s' (inv_stepU s s' hi op hf.1 h) (by simpa [FreshRun, hst] using hf.2) p' hp' (e3.trans hext)
        (by rw [hd', e2]; exact hlive)
      simp only [runU] at this
      rw [e1, e2] at this
      rw [hst, this, hstep]; simp only; omega

/-- **I_external along every history, exactly**, other pairs being removed along the way or not -/
theorem extBook_runU_live (s : UState) (hi : IdxInv s.idx) (hm : MdInv s.idx) (ops : List UOp)
    (hf : FreshRun s ops) (hw : WellFormedRun ops) (id : PairId) (p : Pair) (hp : lookup id s.idx.pairs = some p)
    (hext : p.external = true) (hlive : s.dead.contains p.contract = false) :
    extBook (runU s ops) p = extBook s p + extDrift p s ops := by
  induction ops generalizing s p with
  | nil => simp [runU, extDrift]
  | cons op ops ih =>
    simp only [runU, List.foldl_cons, extDrift]
    cases h : stepU s op with
    | error e =>
      have hst : stepUT s op = s := by simp [stepUT, h]
      have := ih s hi hm (by simpa [FreshRun, hst] using hf.2) (fun o ho => hw o (by simp [ho])) p hp hext hlive
      simp only [runU] at this
      rw [hst, this]; simp
    | ok s' =>
      have hst : stepUT s op = s' := by simp [stepUT, h]
      obtain ⟨p', hp', e1, e2, e3⟩ := pair_persists_live s s' hi op h id p hp hlive
      have hstep := extBook_stepU s s' hi hm id p hp hext op h
      have hd' := dead_stepU s s' op h
      have := ih s' (inv_stepU s s' hi op hf.1 h) (mdInv_stepU s s' hi hm op (hw op (by simp)) h)
        (by simpa [FreshRun, hst] using hf.2) (fun o ho => hw o (by simp [ho]))
        p' hp' (e3.trans hext) (by rw [hd', e2]; exact hlive)
      simp only [runU] at this
      rw [extBook_congr _ _ _ e1 e2, extBook_congr _ _ _ e1 e2, extDrift_congr _ _ e1] at this
      rw [hst, this, hstep]; simp only; omega

/-! ### I_family with the alias set moving -/

theorem escrowSum_val_append (l : List Nat) (a : Nat) (L : Ledger) :
    (escrowSum (l ++ [a])).val L = (escrowSum l).val L + (L.bal (coinAsset a) E : Int) := by
  induction l with
  | nil => simp [escrowSum, Obs.sum, Obs.zero, Obs.add, balObs]
  | cons x xs ih =>
    show (balObs (coinAsset x) E).val L + (escrowSum (xs ++ [a])).val L = (balObs (coinAsset x) E).val L + (escrowSum xs).val L + _
    rw [ih]; omega

theorem escrowSum_val_filter (l : List Nat) (hn : l.Nodup) (a : Nat) (ha : a ∈ l) (L : Ledger) :
    (escrowSum (l.filter (· ≠ a))).val L = (escrowSum l).val L - (L.bal (coinAsset a) E : Int) := by
  induction l with
  | nil => cases ha
  | cons x xs ih =>
    rw [List.nodup_cons] at hn
    by_cases e : x = a
    · subst e
      have hf : (x :: xs).filter (· ≠ x) = xs := by
        simp only [List.filter, ne_eq, not_true_eq_false, decide_false]
        refine List.filter_eq_self.2 (fun y hy => ?_)
        simp only [decide_eq_true_eq]
        exact fun e => hn.1 (e ▸ hy)
      rw [hf]
      show (escrowSum xs).val L = (balObs (coinAsset x) E).val L + (escrowSum xs).val L - _
      simp only [balObs]; omega
    · have hin : a ∈ xs := by
        rcases List.mem_cons.1 ha with e' | e'
        · exact absurd e'.symm e
        · exact e'
      have hf : (x :: xs).filter (· ≠ a) = x :: xs.filter (· ≠ a) := by
        simp [List.filter, e]
      rw [hf]
      show (balObs (coinAsset x) E).val L + (escrowSum (xs.filter (· ≠ a))).val L =
        (balObs (coinAsset x) E).val L + (escrowSum xs).val L - _
      rw [ih hn.2 hin]; omega

/-- the family book of a module-owned pair over the aliases listed NOW -/
def famBook (s : UState) (p : Pair) : Int := (bookF p.denom (mdOf s.idx p.denom)).val s.L

/-- the change the alias set itself makes to the family book of denomination `d`: the alias coins the module already holds
enter the subtracted sum when the alias is added and leave it when the alias is removed -/
def famShift (s : UState) (d : Nat) : UOp → Int
  | .idx (.updateAlias d' a) =>
    if d' = d then
      (if lookup a s.idx.aliasIdx = none then -(s.L.bal (coinAsset a) E : Int) else (s.L.bal (coinAsset a) E : Int))
    else 0
  | _ => 0

/-- **I_family, one message, with the alias set moving** -/
theorem famBook_stepU (s s' : UState) (hi : IdxInv s.idx) (hm : MdInv s.idx) (id : PairId) (p : Pair)
    (hp : lookup id s.idx.pairs = some p) (hext : p.external = false) (op : UOp) (h : stepU s op = .ok s') :
    famBook s' p = famBook s p + famShift s p.denom op := by
  obtain ⟨hid, hden, _⟩ := hi.pairs_ok _ _ hp
  have hreg : (lookup p.denom s.idx.byDenom).isSome := by rw [hden]; rfl
  cases hmd : lookup p.denom s.idx.md with
  | none => have := hm.has _ hreg; rw [hmd] at this; cases this
  | some as =>
    have hn := hm.nodup _ _ hreg hmd
    have hof : mdOf s.idx p.denom = as := by simp [mdOf, hmd]
    by_cases hop : ∃ a, op = .idx (.updateAlias p.denom a)
    · obtain ⟨a, rfl⟩ := hop
      obtain ⟨i, hstep, rfl⟩ := stepU_idx_ok h
      obtain ⟨old, hold, _, hcase⟩ := md_stepIdx_update _ _ hi _ _ hstep
      rw [hmd] at hold; cases hold
      simp only [famBook, hof, famShift, ↓reduceIte]
      rcases hcase with ⟨hnone, hnew⟩ | ⟨hsome, hin, hnew⟩
      · have : mdOf i p.denom = as ++ [a] := by simp [mdOf, hnew]
        rw [this, hnone]
        have hh := escrowSum_val_append as a s.L
        simp only [bookF, Obs.add, Obs.neg, hh, ↓reduceIte]; omega
      · have : mdOf i p.denom = as.filter (· ≠ a) := by simp [mdOf, hnew]
        rw [this, if_neg hsome]
        have hh := escrowSum_val_filter as (List.nodup_cons.1 hn).2 a hin s.L
        simp only [bookF, Obs.add, Obs.neg, hh]; omega
    · have hsame : lookup p.denom s'.idx.md = lookup p.denom s.idx.md := by
        cases op with
        | idx iop =>
          obtain ⟨i, hstep, rfl⟩ := stepU_idx_ok h
          exact md_stepIdx_other _ _ iop hstep _ hreg (fun a e => hop ⟨a, by rw [e]⟩)
        | convertCoin d u r n => rw [md_stepU_conv s s' _ h (fun _ e => by cases e)]
        | convertERC20 d u r n => rw [md_stepU_conv s s' _ h (fun _ e => by cases e)]
        | convertDenom d u r n t => rw [md_stepU_conv s s' _ h (fun _ e => by cases e)]
        | setEnable b => rw [md_stepU_conv s s' _ h (fun _ e => by cases e)]
      have hof' : mdOf s'.idx p.denom = as := by simp [mdOf, hsame, hmd]
      have hsh : famShift s p.denom op = 0 := by
        cases op with
        | idx iop =>
          cases iop with
          | updateAlias d' a =>
            simp only [famShift]
            split
            · rename_i e; exact absurd ⟨a, by rw [e]⟩ hop
            · rfl
          | _ => rfl
        | _ => rfl
      simp only [famBook, hof, hof', hsh]
      rw [bookF_stepU s s' hi id p hp hext as hmd hn op h]; omega

/-- what a history adds to the family book of `p`: the alias coins already escrowed entering / leaving the sum at each
successful `MsgUpdateDenomAlias` on the pair's denomination — nothing else -/
def famDrift (d : Nat) : UState → List UOp → Int
  | _, [] => 0
  | s, op :: ops =>
    (match stepU s op with
     | .ok _ => famShift s d op
     | .error _ => 0) + famDrift d (stepUT s op) ops

theorem famBook_congr (s : UState) (p p' : Pair) (h1 : p'.denom = p.denom) : famBook s p' = famBook s p := by
  simp only [famBook, h1]

/-- **I_family along every history, exactly** -/
theorem famBook_runU (s : UState) (hi : IdxInv s.idx) (hm : MdInv s.idx) (ops : List UOp)
    (hf : FreshRun s ops) (hw : WellFormedRun ops) (id : PairId) (p : Pair) (hp : lookup id s.idx.pairs = some p)
    (hext : p.external = false) (hlive : s.dead.contains p.contract = false) :
    famBook (runU s ops) p = famBook s p + famDrift p.denom s ops := by
  induction ops generalizing s p with
  | nil => simp [runU, famDrift]
  | cons op ops ih =>
    simp only [runU, List.foldl_cons, famDrift]
    cases h : stepU s op with
    | error e =>
      have hst : stepUT s op = s := by simp [stepUT, h]
      have := ih s hi hm (by simpa [FreshRun, hst] using hf.2) (fun o ho => hw o (by simp [ho])) p hp hext hlive
      simp only [runU] at this
      rw [hst, this]; simp
    | ok s' =>
      have hst : stepUT s op = s' := by simp [stepUT, h]
      obtain ⟨p', hp', e1, e2, e3⟩ := pair_persists_live s s' hi op h id p hp hlive
      have hstep := famBook_stepU s s' hi hm id p hp hext op h
      have hd' := dead_stepU s s' op h
      have := ih s' (inv_stepU s s' hi op hf.1 h) (mdInv_stepU s s' hi hm op (hw op (by simp)) h)
        (by simpa [FreshRun, hst] using hf.2) (fun o ho => hw o (by simp [ho]))
        p' hp' (e3.trans hext) (by rw [hd', e2]; exact hlive)
      simp only [runU] at this
      rw [famBook_congr _ _ _ e1, famBook_congr _ _ _ e1, e1] at this
      rw [hst, this, hstep]; simp only; omega

/-- a history without `MsgUpdateDenomAlias` on the pair's denomination has no family drift -/
theorem famDrift_zero (d : Nat) (s : UState) (ops : List UOp) (h : ∀ op ∈ ops, ∀ a, op ≠ .idx (.updateAlias d a)) :
    famDrift d s ops = 0 := by
  induction ops generalizing s with
  | nil => rfl
  | cons op ops ih =>
    simp only [famDrift, ih _ (fun o ho => h o (by simp [ho]))]
    have h1 := h op (by simp)
    split
    · cases op with
      | idx iop =>
        cases iop with
        | updateAlias d' a =>
          simp only [famShift]
          split
          · rename_i e; subst e; exact absurd rfl (h1 a)
          · rfl
        | _ => simp [famShift]
      | _ => simp [famShift]
    · rfl

end FxVerif.Proofs.C08
