import FxVerif.Proofs.C14
import FxVerif.Proofs.C14Bank
import FxVerif.Proofs.C14Queue
/-!
# C14 — later behaviour: the world after a migration simulates the world before it, with source and target swapped

`sw frm to` is the transposition of the two addresses.  `Sim frm to s t` says that `t` is `s` with every address of every
record the later operations read renamed by `sw` — record stores and indexes read through `get` / membership, the time
queues, deposits and votes as lists in the same order (the end blockers walk them).  Every operation other than a
further migration preserves `Sim` when its arguments are renamed, and answers the same (`sim_step`, `sim_run`).
Part 1 (this file): the swap, the generic store relations, the bank.
-/
namespace FxVerif.Proofs.C14
open FxVerif.Model.C14

/-- the transposition of `frm` and `to` -/
def sw (frm to : Addr) (a : Addr) : Addr := if a = frm then to else if a = to then frm else a

theorem sw_sw (frm to a : Addr) : sw frm to (sw frm to a) = a := by
  unfold sw
  by_cases h1 : a = frm
  · subst h1
    by_cases h2 : to = a
    · simp [h2]
    · simp [h2]
  · by_cases h2 : a = to
    · subst h2; simp [h1]
    · simp [h1, h2]

theorem sw_inj (frm to : Addr) {a b : Addr} (h : sw frm to a = sw frm to b) : a = b := by
  have := congrArg (sw frm to) h
  rwa [sw_sw, sw_sw] at this

theorem sw_eq_iff (frm to a b : Addr) : sw frm to a = sw frm to b ↔ a = b :=
  ⟨sw_inj frm to, fun h => by rw [h]⟩

theorem sw_fix (frm to a : Addr) (h1 : a ≠ frm) (h2 : a ≠ to) : sw frm to a = a := by
  simp [sw, h1, h2]

theorem sw_frm (frm to : Addr) : sw frm to frm = to := by simp [sw]
theorem sw_to (frm to : Addr) : sw frm to to = frm := by
  unfold sw; by_cases h : to = frm <;> simp [h]

/-! ## generic relations between a store and its renamed copy -/
section rel
variable {κ ν : Type} [BEq κ] [LawfulBEq κ]

/-- `m'` read at the renamed key gives the renamed value of `m` -/
def ExtRel (kf : κ → κ) (vf : ν → ν) (m m' : Store κ ν) : Prop := ∀ k, get m' (kf k) = (get m k).map vf

omit [BEq κ] [LawfulBEq κ] in
theorem kf_inj {kf : κ → κ} (hinv : ∀ k, kf (kf k) = k) {a b : κ} (h : kf a = kf b) : a = b := by
  have := congrArg kf h
  rwa [hinv, hinv] at this

theorem ExtRel.put {kf : κ → κ} {vf : ν → ν} (hinv : ∀ k, kf (kf k) = k) {m m' : Store κ ν} (h : ExtRel kf vf m m')
    (k : κ) (v : ν) : ExtRel kf vf (put m k v) (put m' (kf k) (vf v)) := by
  intro k'
  by_cases hk : k' = k
  · subst hk; rw [get_put_eq, get_put_eq]; rfl
  · rw [get_put_ne _ _ _ _ hk, get_put_ne _ _ _ _ (fun e => hk (kf_inj hinv e))]; exact h k'

theorem ExtRel.del {kf : κ → κ} {vf : ν → ν} (hinv : ∀ k, kf (kf k) = k) {m m' : Store κ ν} (h : ExtRel kf vf m m')
    (k : κ) : ExtRel kf vf (del m k) (del m' (kf k)) := by
  intro k'
  by_cases hk : k' = k
  · subst hk; rw [get_del_eq, get_del_eq]; rfl
  · rw [get_del_ne _ _ _ hk, get_del_ne _ _ _ (fun e => hk (kf_inj hinv e))]; exact h k'

/-- membership read through the renaming -/
def MemRel (kf : κ → κ) (l l' : List κ) : Prop := ∀ x, kf x ∈ l' ↔ x ∈ l

theorem MemRel.ins {kf : κ → κ} (hinv : ∀ k, kf (kf k) = k) {l l' : List κ} (h : MemRel kf l l') (k : κ) :
    MemRel kf (ins l k) (ins l' (kf k)) := by
  intro x
  rw [mem_ins, mem_ins, h x]
  constructor
  · rintro (e | e)
    · exact Or.inl (kf_inj hinv e)
    · exact Or.inr e
  · rintro (e | e)
    · exact Or.inl (by rw [e])
    · exact Or.inr e

theorem MemRel.rem {kf : κ → κ} (hinv : ∀ k, kf (kf k) = k) {l l' : List κ} (h : MemRel kf l l') (k : κ) :
    MemRel kf (rem l k) (rem l' (kf k)) := by
  intro x
  rw [mem_rem, mem_rem, h x]
  constructor
  · rintro ⟨e1, e2⟩; exact ⟨fun e => e1 (by rw [e]), e2⟩
  · rintro ⟨e1, e2⟩; exact ⟨fun e => e1 (kf_inj hinv e), e2⟩

omit [BEq κ] [LawfulBEq κ] in
theorem MemRel.any {kf : κ → κ} (hinv : ∀ k, kf (kf k) = k) {l l' : List κ} (h : MemRel kf l l')
    (P P' : κ → Bool) (hP : ∀ x, P' (kf x) = P x) : l'.any P' = l.any P := by
  cases hb : l.any P with
  | true =>
    obtain ⟨x, hx, px⟩ := List.any_eq_true.mp hb
    exact List.any_eq_true.mpr ⟨kf x, (h x).mpr hx, by rw [hP]; exact px⟩
  | false =>
    apply List.any_eq_false.mpr
    intro y hy py
    have hy' : kf y ∈ l := (h (kf y)).mp (by rw [hinv]; exact hy)
    have := List.any_eq_false.mp hb (kf y) hy'
    rw [← hP (kf y), hinv] at this
    exact this py

/-! ### lists and stores renamed element by element (order kept) -/

theorem contains_map {f : κ → κ} (hf : ∀ a b, f a = f b → a = b) (l : List κ) (k : κ) :
    (l.map f).contains (f k) = l.contains k := by
  induction l with
  | nil => rfl
  | cons x l ih =>
    simp only [List.map_cons, List.contains_cons, ih]
    congr 1
    cases h : k == x
    · cases h' : f k == f x
      · rfl
      · have := hf _ _ (eq_of_beq h'); subst this; simp at h
    · have := eq_of_beq h; subst this; simp

theorem ins_map {f : κ → κ} (hf : ∀ a b, f a = f b → a = b) (l : List κ) (k : κ) :
    ins (l.map f) (f k) = (ins l k).map f := by
  unfold ins
  rw [contains_map hf]
  split <;> simp

theorem rem_map {f : κ → κ} (hf : ∀ a b, f a = f b → a = b) (l : List κ) (k : κ) :
    rem (l.map f) (f k) = (rem l k).map f := by
  unfold rem
  rw [List.filter_map]
  congr 1
  apply List.filter_congr
  intro x _
  simp only [Function.comp]
  congr 1
  cases h : x == k
  · cases h' : f x == f k
    · rfl
    · have := hf _ _ (eq_of_beq h'); subst this; simp at h
  · have := eq_of_beq h; subst this; simp

/-- a store with keys renamed by `kf` and values by `vf`, entry by entry -/
def mapKV (kf : κ → κ) (vf : ν → ν) (m : Store κ ν) : Store κ ν := m.map (fun p => (kf p.1, vf p.2))

theorem get_mapKV {kf : κ → κ} (hf : ∀ a b, kf a = kf b → a = b) (vf : ν → ν) (m : Store κ ν) (k : κ) :
    get (mapKV kf vf m) (kf k) = (get m k).map vf := by
  induction m with
  | nil => rfl
  | cons p m ih =>
    simp only [mapKV, List.map_cons] at ih ⊢
    rw [get_cons, get_cons, ih]
    cases h : k == p.1
    · have : (kf k == kf p.1) = false := by
        cases h' : kf k == kf p.1
        · rfl
        · have := hf _ _ (eq_of_beq h'); rw [this] at h; simp at h
      simp [this]
    · have := eq_of_beq h; simp [this]

theorem del_mapKV {kf : κ → κ} (hf : ∀ a b, kf a = kf b → a = b) (vf : ν → ν) (m : Store κ ν) (k : κ) :
    del (mapKV kf vf m) (kf k) = mapKV kf vf (del m k) := by
  unfold del mapKV
  rw [List.filter_map]
  congr 1
  apply List.filter_congr
  intro x _
  simp only [Function.comp]
  congr 1
  cases h : x.1 == k
  · cases h' : kf x.1 == kf k
    · rfl
    · have := hf _ _ (eq_of_beq h'); rw [this] at h; simp at h
  · have := eq_of_beq h; simp [this]

theorem put_mapKV {kf : κ → κ} (hf : ∀ a b, kf a = kf b → a = b) (vf : ν → ν) (m : Store κ ν) (k : κ) (v : ν) :
    put (mapKV kf vf m) (kf k) (vf v) = mapKV kf vf (put m k v) := by
  unfold put
  rw [del_mapKV hf]
  rfl

omit [BEq κ] [LawfulBEq κ] in
theorem filter_mapKV (kf : κ → κ) (vf : ν → ν) (m : Store κ ν) (P P' : κ × ν → Bool)
    (hP : ∀ p, P' (kf p.1, vf p.2) = P p) : (mapKV kf vf m).filter P' = mapKV kf vf (m.filter P) := by
  unfold mapKV
  rw [List.filter_map]
  congr 1
  apply List.filter_congr
  intro x _
  exact hP x

end rel

/-! ## the bank ledger -/

/-- balances read through the swap -/
def BalRel (frm to : Addr) (b b' : Bal) : Prop := ∀ a d, balOf b' (sw frm to a) d = balOf b a d

theorem BalRel.setBal {frm to : Addr} {b b' : Bal} (h : BalRel frm to b b') (a : Addr) (d : Denom) (n : Nat) :
    BalRel frm to (setBal b a d n) (setBal b' (sw frm to a) d n) := by
  intro a' d'
  rw [balOf_setBal, balOf_setBal, h a' d']
  simp only [sw_eq_iff]

theorem BalRel.credit {frm to : Addr} {b b' : Bal} (h : BalRel frm to b b') (a : Addr) (d : Denom) (n : Nat) :
    BalRel frm to (credit b a d n) (credit b' (sw frm to a) d n) := by
  unfold Model.C14.credit
  rw [h a d]
  exact h.setBal a d _

/-- `none`/`none` or related results -/
def OptRel {α : Type} (R : α → α → Prop) : Option α → Option α → Prop
  | none, none => True
  | some a, some b => R a b
  | _, _ => False

theorem BalRel.sendCoins {frm to : Addr} {b b' : Bal} (h : BalRel frm to b b') (x y : Addr) (d : Denom) (n : Nat) :
    OptRel (BalRel frm to) (sendCoins b x y d n) (sendCoins b' (sw frm to x) (sw frm to y) d n) := by
  unfold Model.C14.sendCoins
  rw [h x d]
  split
  · trivial
  · exact (h.setBal x d _).credit y d n

/-! ## the simulation relation -/
section sim
variable (frm to : Addr)

/-- swap the address in first position (record keys `(delegator, …)`, queue elements, unbonding-id values) -/
def swP {γ : Type} (x : Addr × γ) : Addr × γ := (sw frm to x.1, x.2)
/-- swap the address in second position (`(validator, delegator)` index and starting-info keys, deposits, votes) -/
def swS {β : Type} (x : β × Addr) : β × Addr := (x.1, sw frm to x.2)
/-- swap the address in the middle (redelegation by-validator indexes) -/
def swM (x : Val × Addr × Val) : Val × Addr × Val := (x.1, sw frm to x.2.1, x.2.2)

theorem swP_swP {γ : Type} (x : Addr × γ) : swP frm to (swP frm to x) = x := by simp [swP, sw_sw]
theorem swS_swS {β : Type} (x : β × Addr) : swS frm to (swS frm to x) = x := by simp [swS, sw_sw]
theorem swM_swM (x : Val × Addr × Val) : swM frm to (swM frm to x) = x := by simp [swM, sw_sw]
theorem swP_inj {γ : Type} (a b : Addr × γ) (h : swP frm to a = swP frm to b) : a = b := kf_inj (swP_swP frm to) h
theorem swS_inj {β : Type} (a b : β × Addr) (h : swS frm to a = swS frm to b) : a = b := kf_inj (swS_swS frm to) h

/-- the fields of a proposal the later operations read (everything but the proposer) -/
def pcore (p : Proposal) : Nat × Time × Time × Nat := (p.status, p.depEnd, p.voteEnd, p.total)

structure Sim (s t : State) : Prop where
  now : t.now = s.now
  unbondTime : t.unbondTime = s.unbondTime
  depPeriod : t.depPeriod = s.depPeriod
  votePeriod : t.votePeriod = s.votePeriod
  minDeposit : t.minDeposit = s.minDeposit
  maxEntries : t.maxEntries = s.maxEntries
  vals : t.vals = s.vals
  valTok : t.valTok = s.valTok
  period : t.period = s.period
  nextUnbId : t.nextUnbId = s.nextUnbId
  blockFirstId : t.blockFirstId = s.blockFirstId
  nextProp : t.nextProp = s.nextProp
  bal : BalRel frm to s.bal t.bal
  dels : ExtRel (swP frm to) id s.dels t.dels
  delIdx : MemRel (swS frm to) s.delIdx t.delIdx
  startInfo : ExtRel (swS frm to) id s.startInfo t.startInfo
  ubds : ExtRel (swP frm to) id s.ubds t.ubds
  ubdIdx : MemRel (swS frm to) s.ubdIdx t.ubdIdx
  ubdQ : t.ubdQ = mapKV id (List.map (swP frm to)) s.ubdQ
  reds : ExtRel (swP frm to) id s.reds t.reds
  redSrcIdx : MemRel (swM frm to) s.redSrcIdx t.redSrcIdx
  redDstIdx : MemRel (swM frm to) s.redDstIdx t.redDstIdx
  redQ : t.redQ = mapKV id (List.map (swP frm to)) s.redQ
  unbId : ExtRel id (swP frm to) s.unbId t.unbId
  wdAddr : ExtRel (sw frm to) (sw frm to) s.wdAddr t.wdAddr
  props : ∀ id, (get t.props id).map pcore = (get s.props id).map pcore
  deposits : t.deposits = mapKV (swS frm to) id s.deposits
  votes : t.votes = s.votes.map (swS frm to)
  inactiveQ : t.inactiveQ = s.inactiveQ
  activeQ : t.activeQ = s.activeQ
  vest : ExtRel (sw frm to) id s.vest t.vest

variable {frm to}

theorem ExtRel.get_id {κ ν : Type} [BEq κ] {kf : κ → κ} {m m' : Store κ ν} (h : ExtRel kf id m m') (k : κ) :
    get m' (kf k) = get m k := by rw [h k]; simp

theorem Sim.periodOf {s t : State} (h : Sim frm to s t) (v : Val) : periodOf t v = periodOf s v := by
  unfold Model.C14.periodOf; rw [h.period]
theorem Sim.tokOf {s t : State} (h : Sim frm to s t) (v : Val) : tokOf t v = tokOf s v := by
  unfold Model.C14.tokOf; rw [h.valTok]

theorem sim_touchPre {s t : State} (h : Sim frm to s t) (d : Addr) (v : Val) (rw : Nat) :
    OptRel (Sim frm to) (touchPre s d v rw) (touchPre t (sw frm to d) v rw) := by
  unfold touchPre
  have e1 : get t.dels (sw frm to d, v) = get s.dels (d, v) := h.dels.get_id (d, v)
  have e2 : get t.startInfo (v, sw frm to d) = get s.startInfo (v, d) := h.startInfo.get_id (v, d)
  have e3 : (get t.wdAddr (sw frm to d)).getD (sw frm to d) = sw frm to ((get s.wdAddr d).getD d) := by
    rw [h.wdAddr d]; cases get s.wdAddr d <;> rfl
  rw [e1, e2, e3, h.periodOf, h.period]
  cases get s.dels (d, v) with
  | none => exact { h with period := rfl }
  | some _ =>
    cases get s.startInfo (v, d) with
    | none => trivial
    | some _ =>
      exact { h with period := rfl, startInfo := h.startInfo.del (swS_swS frm to) (v, d), bal := h.bal.credit _ 0 rw }

theorem sim_touchPost {s t : State} (h : Sim frm to s t) (d : Addr) (v : Val) :
    Sim frm to (touchPost s d v) (touchPost t (sw frm to d) v) := by
  unfold touchPost
  have e1 : get t.dels (sw frm to d, v) = get s.dels (d, v) := h.dels.get_id (d, v)
  rw [e1, h.periodOf]
  exact { h with startInfo := h.startInfo.put (swS_swS frm to) (v, d) _ }

theorem OptRel.cases {α : Type} {R : α → α → Prop} {o o' : Option α} (h : OptRel R o o') :
    (o = none ∧ o' = none) ∨ ∃ a b, o = some a ∧ o' = some b ∧ R a b := by
  cases o <;> cases o' <;> simp [OptRel] at h ⊢
  exact h

theorem sim_addShares {s t : State} (h : Sim frm to s t) (d : Addr) (v : Val) (amt rw : Nat) :
    OptRel (Sim frm to) (addShares s d v amt rw) (addShares t (sw frm to d) v amt rw) := by
  unfold addShares
  rcases (sim_touchPre h d v rw).cases with ⟨e1, e2⟩ | ⟨s1, t1, e1, e2, h1⟩
  · rw [e1, e2]; trivial
  · rw [e1, e2]
    simp only [OptRel]
    have e3 : get t1.dels (sw frm to d, v) = get s1.dels (d, v) := h1.dels.get_id (d, v)
    rw [e3, h1.tokOf, h1.valTok]
    refine sim_touchPost ?_ d v
    exact { h1 with dels := h1.dels.put (swP_swP frm to) (d, v) _,
                    delIdx := h1.delIdx.ins (swS_swS frm to) (v, d), valTok := rfl }

/-- the swap leaves the module accounts alone -/
structure ModFix (frm to : Addr) : Prop where
  bonded : sw frm to bondedPool = bondedPool
  notBonded : sw frm to notBondedPool = notBondedPool
  gov : sw frm to govMod = govMod

theorem sim_delegate (hm : ModFix frm to) {s t : State} (h : Sim frm to s t) (d : Addr) (v : Val) (amt rw : Nat) :
    OptRel (Sim frm to) (delegate s d v amt rw) (delegate t (sw frm to d) v amt rw) := by
  unfold delegate
  rw [h.vals]
  split
  · trivial
  · rcases (sim_touchPre h d v rw).cases with ⟨e1, e2⟩ | ⟨s1, t1, e1, e2, h1⟩
    · rw [e1, e2]; trivial
    · rw [e1, e2]
      simp only
      have hb := h1.bal.sendCoins d bondedPool 0 amt
      rw [hm.bonded] at hb
      rcases hb.cases with ⟨b1, b2⟩ | ⟨b, b', b1, b2, hbb⟩
      · rw [b1, b2]; trivial
      · rw [b1, b2]
        simp only [OptRel]
        have e3 : get t1.dels (sw frm to d, v) = get s1.dels (d, v) := h1.dels.get_id (d, v)
        rw [e3, h1.tokOf, h1.valTok]
        refine sim_touchPost ?_ d v
        exact { h1 with bal := hbb, dels := h1.dels.put (swP_swP frm to) (d, v) _,
                        delIdx := h1.delIdx.ins (swS_swS frm to) (v, d), valTok := rfl }

theorem sim_unbond {s t : State} (h : Sim frm to s t) (d : Addr) (v : Val) (amt rw : Nat) :
    OptRel (Sim frm to) (unbond s d v amt rw) (unbond t (sw frm to d) v amt rw) := by
  unfold unbond
  have e0 : get t.dels (sw frm to d, v) = get s.dels (d, v) := h.dels.get_id (d, v)
  rw [e0]
  cases get s.dels (d, v) with
  | none => trivial
  | some sh =>
    simp only
    split
    · trivial
    · rcases (sim_touchPre h d v rw).cases with ⟨e1, e2⟩ | ⟨s1, t1, e1, e2, h1⟩
      · rw [e1, e2]; trivial
      · rw [e1, e2]
        simp only [OptRel]
        split
        · have h2 : Sim frm to { s1 with dels := del s1.dels (d, v), delIdx := rem s1.delIdx (v, d) }
              { t1 with dels := del t1.dels (sw frm to d, v), delIdx := rem t1.delIdx (v, sw frm to d) } :=
            { h1 with dels := h1.dels.del (swP_swP frm to) (d, v), delIdx := h1.delIdx.rem (swS_swS frm to) (v, d) }
          have ht := h2.tokOf v
          have hv := h2.valTok
          simp only at ht hv ⊢
          rw [ht, hv]
          exact { h2 with valTok := rfl }
        · have h2 := sim_touchPost (frm := frm) (to := to)
              (s := { s1 with dels := put s1.dels (d, v) (sh - amt), delIdx := ins s1.delIdx (v, d) })
              (t := { t1 with dels := put t1.dels (sw frm to d, v) (sh - amt), delIdx := ins t1.delIdx (v, sw frm to d) })
              { h1 with dels := h1.dels.put (swP_swP frm to) (d, v) _, delIdx := h1.delIdx.ins (swS_swS frm to) (v, d) } d v
          have ht := h2.tokOf v
          have hv := h2.valTok
          rw [ht, hv]
          exact { h2 with valTok := rfl }

theorem queue_push {γ : Type} (q : Queue γ) (t : Time) (x : Addr × γ) :
    put (mapKV id (List.map (swP frm to)) q) t ((get (mapKV id (List.map (swP frm to)) q) t).getD [] ++ [swP frm to x]) =
      mapKV id (List.map (swP frm to)) (put q t ((get q t).getD [] ++ [x])) := by
  have hid : ∀ a b : Time, id a = id b → a = b := fun _ _ h => h
  have hg := get_mapKV hid (List.map (swP frm to)) q t
  simp only [id] at hg
  rw [hg]
  have := put_mapKV hid (List.map (swP frm to)) q t ((get q t).getD [] ++ [x])
  simp only [id] at this
  rw [← this]
  congr 1
  cases get q t <;> simp

theorem sim_undelegate (hm : ModFix frm to) {s t : State} (h : Sim frm to s t) (d : Addr) (v : Val) (amt rw : Nat) :
    OptRel (Sim frm to) (undelegate s d v amt rw) (undelegate t (sw frm to d) v amt rw) := by
  unfold undelegate
  have e0 : get t.ubds (sw frm to d, v) = get s.ubds (d, v) := h.ubds.get_id (d, v)
  rw [h.vals, e0, h.maxEntries, h.now, h.unbondTime, h.blockFirstId]
  split
  · trivial
  · simp only
    split
    · trivial
    · rcases (sim_unbond h d v amt rw).cases with ⟨e1, e2⟩ | ⟨s1, t1, e1, e2, h1⟩
      · rw [e1, e2]; trivial
      · rw [e1, e2]
        simp only
        have hb := h1.bal.sendCoins bondedPool notBondedPool 0 amt
        rw [hm.bonded, hm.notBonded] at hb
        rcases hb.cases with ⟨b1, b2⟩ | ⟨b, b', b1, b2, hbb⟩
        · rw [b1, b2]; trivial
        · rw [b1, b2, h1.nextUnbId]
          simp only [OptRel]
          refine { h1 with bal := hbb, nextUnbId := rfl, ubds := h1.ubds.put (swP_swP frm to) (d, v) _,
                           ubdIdx := h1.ubdIdx.ins (swS_swS frm to) (v, d), unbId := ?_, ubdQ := ?_ }
          · dsimp only
            rw [h1.ubdQ]
            exact queue_push _ _ (d, v)
          · dsimp only
            split
            · exact h1.unbId.put (fun _ => rfl) _ (d, v, none)
            · exact h1.unbId

theorem sim_withdraw {s t : State} (h : Sim frm to s t) (d : Addr) (v : Val) (rw : Nat) :
    OptRel (Sim frm to) (withdraw s d v rw) (withdraw t (sw frm to d) v rw) := by
  unfold withdraw
  have e0 : get t.dels (sw frm to d, v) = get s.dels (d, v) := h.dels.get_id (d, v)
  rw [e0]
  cases get s.dels (d, v) with
  | none => trivial
  | some _ =>
    simp only
    rcases (sim_touchPre h d v rw).cases with ⟨e1, e2⟩ | ⟨s1, t1, e1, e2, h1⟩
    · rw [e1, e2]; trivial
    · rw [e1, e2]; exact sim_touchPost h1 d v

theorem sim_setWithdraw {s t : State} (h : Sim frm to s t) (d w : Addr) :
    Sim frm to (setWithdraw s d w) (setWithdraw t (sw frm to d) (sw frm to w)) := by
  unfold setWithdraw
  exact { h with wdAddr := h.wdAddr.put (sw_sw frm to) d w }

theorem sw_beq (a b : Addr) : (sw frm to a == sw frm to b) = (a == b) := by
  cases h : a == b
  · cases h' : sw frm to a == sw frm to b
    · rfl
    · have := sw_inj frm to (eq_of_beq h'); subst this; simp at h
  · have := eq_of_beq h; subst this; simp

theorem Sim.lockedOf {s t : State} (h : Sim frm to s t) (a : Addr) (d : Denom) :
    lockedOf t (sw frm to a) d = lockedOf s a d := by
  unfold Model.C14.lockedOf lockedAt
  rw [h.vest.get_id a, h.now]

theorem queue_push_red {γ : Type} (q : Queue γ) (t : Time) (x : Addr × γ) :
    put (mapKV id (List.map (swP frm to)) q) t ((get (mapKV id (List.map (swP frm to)) q) t).getD [] ++ [swP frm to x]) =
      mapKV id (List.map (swP frm to)) (put q t ((get q t).getD [] ++ [x])) := queue_push q t x

theorem sim_redelegate {s t : State} (h : Sim frm to s t) (d : Addr) (src dst : Val) (amt r1 r2 : Nat) :
    OptRel (Sim frm to) (redelegate s d src dst amt r1 r2) (redelegate t (sw frm to d) src dst amt r1 r2) := by
  unfold redelegate
  have e0 : get t.reds (sw frm to d, src, dst) = get s.reds (d, src, dst) := h.reds.get_id (d, src, dst)
  have ea : t.redDstIdx.any (fun k => k.1 == src && k.2.1 == sw frm to d) =
      s.redDstIdx.any (fun k => k.1 == src && k.2.1 == d) :=
    h.redDstIdx.any (swM_swM frm to) _ _ (fun x => by simp only [swM, sw_beq])
  rw [h.vals, ea, e0, h.maxEntries, h.now, h.unbondTime]
  split
  · trivial
  · split
    · trivial
    · simp only
      split
      · trivial
      · rcases (sim_unbond h d src amt r1).cases with ⟨e1, e2⟩ | ⟨s1, t1, e1, e2, h1⟩
        · rw [e1, e2]; trivial
        · rw [e1, e2]
          simp only
          rcases (sim_addShares h1 d dst amt r2).cases with ⟨f1, f2⟩ | ⟨s2, t2, f1, f2, h2⟩
          · rw [f1, f2]; trivial
          · rw [f1, f2]
            simp only [OptRel]
            rw [h2.nextUnbId]
            refine { h2 with nextUnbId := rfl, reds := h2.reds.put (swP_swP frm to) (d, src, dst) _,
                             redSrcIdx := h2.redSrcIdx.ins (swM_swM frm to) (src, d, dst),
                             redDstIdx := h2.redDstIdx.ins (swM_swM frm to) (dst, d, src),
                             unbId := h2.unbId.put (fun _ => rfl) _ (d, src, some dst), redQ := ?_ }
            dsimp only
            rw [h2.redQ]
            exact queue_push _ _ (d, src, dst)

theorem ExtRel.foldl_del {κ ν α : Type} [BEq κ] [LawfulBEq κ] {kf : κ → κ} {vf : ν → ν} (hinv : ∀ k, kf (kf k) = k)
    (g : α → κ) (L : List α) {m m' : Store κ ν} (h : ExtRel kf vf m m') :
    ExtRel kf vf (L.foldl (fun u e => Model.C14.del u (g e)) m) (L.foldl (fun u e => Model.C14.del u (kf (g e))) m') := by
  induction L generalizing m m' with
  | nil => exact h
  | cons e L ih => exact ih (h.del hinv (g e))

theorem sim_completeUnbonding (hm : ModFix frm to) {s t : State} (h : Sim frm to s t) (d : Addr) (v : Val) :
    Sim frm to (completeUnbonding s d v) (completeUnbonding t (sw frm to d) v) := by
  unfold completeUnbonding
  have e0 : get t.ubds (sw frm to d, v) = get s.ubds (d, v) := h.ubds.get_id (d, v)
  rw [e0, h.now]
  cases get s.ubds (d, v) with
  | none => exact h
  | some es =>
    simp only
    have hb : BalRel frm to
        (match sendCoins s.bal notBondedPool d 0 (((es.filter (fun e => e.1 ≤ s.now)).map (fun e => e.2.1)).foldl (· + ·) 0) with
          | some b => b | none => s.bal)
        (match sendCoins t.bal notBondedPool (sw frm to d) 0 (((es.filter (fun e => e.1 ≤ s.now)).map (fun e => e.2.1)).foldl (· + ·) 0) with
          | some b => b | none => t.bal) := by
      have hs := h.bal.sendCoins notBondedPool d 0 (((es.filter (fun e => e.1 ≤ s.now)).map (fun e => e.2.1)).foldl (· + ·) 0)
      rw [hm.notBonded] at hs
      rcases hs.cases with ⟨b1, b2⟩ | ⟨b, b', b1, b2, hbb⟩
      · rw [b1, b2]; exact h.bal
      · rw [b1, b2]; exact hbb
    have hu := ExtRel.foldl_del (kf := id) (vf := swP frm to) (fun _ => rfl) (fun e : Time × Nat × Nat => e.2.2)
      (es.filter (fun e => e.1 ≤ s.now)) h.unbId
    split
    · exact { h with now := rfl, bal := hb, unbId := hu, ubds := h.ubds.del (swP_swP frm to) (d, v),
                     ubdIdx := h.ubdIdx.rem (swS_swS frm to) (v, d) }
    · exact { h with now := rfl, bal := hb, unbId := hu, ubds := h.ubds.put (swP_swP frm to) (d, v) _ }

theorem sim_completeRedelegation {s t : State} (h : Sim frm to s t) (d : Addr) (src dst : Val) :
    Sim frm to (completeRedelegation s d src dst) (completeRedelegation t (sw frm to d) src dst) := by
  unfold completeRedelegation
  have e0 : get t.reds (sw frm to d, src, dst) = get s.reds (d, src, dst) := h.reds.get_id (d, src, dst)
  rw [e0, h.now]
  cases get s.reds (d, src, dst) with
  | none => exact h
  | some es =>
    simp only
    have hu := ExtRel.foldl_del (kf := id) (vf := swP frm to) (fun _ => rfl) (fun e : Time × Nat × Nat => e.2.2)
      (es.filter (fun e => e.1 ≤ s.now)) h.unbId
    split
    · exact { h with now := rfl, unbId := hu, reds := h.reds.del (swP_swP frm to) (d, src, dst),
                     redSrcIdx := h.redSrcIdx.rem (swM_swM frm to) (src, d, dst),
                     redDstIdx := h.redDstIdx.rem (swM_swM frm to) (dst, d, src) }
    · exact { h with now := rfl, unbId := hu, reds := h.reds.put (swP_swP frm to) (d, src, dst) _ }

theorem sim_foldl {α : Type} (f f' : State → α → State) (g : α → α)
    (hstep : ∀ s t x, Sim frm to s t → Sim frm to (f s x) (f' t (g x))) (L : List α) {s t : State}
    (h : Sim frm to s t) : Sim frm to (L.foldl f s) ((L.map g).foldl f' t) := by
  induction L generalizing s t with
  | nil => exact h
  | cons x L ih => exact ih (hstep s t x h)

theorem flatMap_mapKV {γ : Type} (q : Queue γ) :
    (mapKV id (List.map (swP frm to)) q).flatMap (·.2) = (q.flatMap (·.2)).map (swP frm to) := by
  induction q with
  | nil => rfl
  | cons p q ih =>
    simp only [mapKV, List.map_cons, List.flatMap_cons, List.map_append] at ih ⊢
    rw [ih]

/-- the two halves of the staking end blocker -/
def stakingEndU (s : State) : State :=
  ((s.ubdQ.filter (fun p => p.1 ≤ s.now)).flatMap (·.2)).foldl (fun s p => completeUnbonding s p.1 p.2)
    { s with ubdQ := s.ubdQ.filter (fun p => !(p.1 ≤ s.now)) }
def stakingEndR (s : State) : State :=
  ((s.redQ.filter (fun p => p.1 ≤ s.now)).flatMap (·.2)).foldl (fun s p => completeRedelegation s p.1 p.2.1 p.2.2)
    { s with redQ := s.redQ.filter (fun p => !(p.1 ≤ s.now)) }

theorem stakingEnd_eq (s : State) : stakingEnd s = stakingEndR (stakingEndU s) := rfl

theorem sim_stakingEndU (hm : ModFix frm to) {s t : State} (h : Sim frm to s t) :
    Sim frm to (stakingEndU s) (stakingEndU t) := by
  unfold stakingEndU
  have eL : (t.ubdQ.filter (fun p => p.1 ≤ t.now)).flatMap (·.2) =
      ((s.ubdQ.filter (fun p => p.1 ≤ s.now)).flatMap (·.2)).map (swP frm to) := by
    rw [h.ubdQ, h.now, filter_mapKV _ _ s.ubdQ (fun p => decide (p.1 ≤ s.now)) _ (fun _ => rfl), flatMap_mapKV]
  have hq : t.ubdQ.filter (fun p => !(p.1 ≤ t.now)) =
      mapKV id (List.map (swP frm to)) (s.ubdQ.filter (fun p => !(p.1 ≤ s.now))) := by
    rw [h.ubdQ, h.now]
    exact filter_mapKV _ _ s.ubdQ (fun p => !decide (p.1 ≤ s.now)) _ (fun _ => rfl)
  have h1 : Sim frm to { s with ubdQ := s.ubdQ.filter (fun p => !(p.1 ≤ s.now)) }
      { t with ubdQ := t.ubdQ.filter (fun p => !(p.1 ≤ t.now)) } := { h with ubdQ := hq }
  rw [eL]
  exact sim_foldl (fun s (p : Addr × Val) => completeUnbonding s p.1 p.2)
    (fun s (p : Addr × Val) => completeUnbonding s p.1 p.2) (swP frm to)
    (fun s t x hst => sim_completeUnbonding hm hst x.1 x.2) _ h1

theorem sim_stakingEndR {s t : State} (h : Sim frm to s t) :
    Sim frm to (stakingEndR s) (stakingEndR t) := by
  unfold stakingEndR
  have eL : (t.redQ.filter (fun p => p.1 ≤ t.now)).flatMap (·.2) =
      ((s.redQ.filter (fun p => p.1 ≤ s.now)).flatMap (·.2)).map (swP frm to) := by
    rw [h.redQ, h.now, filter_mapKV _ _ s.redQ (fun p => decide (p.1 ≤ s.now)) _ (fun _ => rfl), flatMap_mapKV]
  have hq : t.redQ.filter (fun p => !(p.1 ≤ t.now)) =
      mapKV id (List.map (swP frm to)) (s.redQ.filter (fun p => !(p.1 ≤ s.now))) := by
    rw [h.redQ, h.now]
    exact filter_mapKV _ _ s.redQ (fun p => !decide (p.1 ≤ s.now)) _ (fun _ => rfl)
  have h1 : Sim frm to { s with redQ := s.redQ.filter (fun p => !(p.1 ≤ s.now)) }
      { t with redQ := t.redQ.filter (fun p => !(p.1 ≤ t.now)) } := { h with redQ := hq }
  rw [eL]
  exact sim_foldl (fun s (p : Addr × Val × Val) => completeRedelegation s p.1 p.2.1 p.2.2)
    (fun s (p : Addr × Val × Val) => completeRedelegation s p.1 p.2.1 p.2.2) (swP frm to)
    (fun s t x hst => sim_completeRedelegation hst x.1 x.2.1 x.2.2) _ h1

theorem sim_stakingEnd (hm : ModFix frm to) {s t : State} (h : Sim frm to s t) :
    Sim frm to (stakingEnd s) (stakingEnd t) := by
  rw [stakingEnd_eq, stakingEnd_eq]
  exact sim_stakingEndR (sim_stakingEndU hm h)

/-! ### gov -/

/-- proposals agree on everything the later operations read -/
def PropsRel (m m' : Store Nat Proposal) : Prop := ∀ id, (get m' id).map pcore = (get m id).map pcore

theorem PropsRel.del {m m' : Store Nat Proposal} (h : PropsRel m m') (k : Nat) :
    PropsRel (Model.C14.del m k) (Model.C14.del m' k) := by
  intro id
  by_cases hk : id = k
  · subst hk; rw [get_del_eq, get_del_eq]
  · rw [get_del_ne _ _ _ hk, get_del_ne _ _ _ hk]; exact h id

theorem PropsRel.put {m m' : Store Nat Proposal} (h : PropsRel m m') (k : Nat) (p p' : Proposal)
    (hp : pcore p' = pcore p) : PropsRel (Model.C14.put m k p) (Model.C14.put m' k p') := by
  intro id
  by_cases hk : id = k
  · subst hk; rw [get_put_eq, get_put_eq]; simp [hp]
  · rw [get_put_ne _ _ _ _ hk, get_put_ne _ _ _ _ hk]; exact h id

theorem PropsRel.cases {m m' : Store Nat Proposal} (h : PropsRel m m') (id : Nat) :
    (get m id = none ∧ get m' id = none) ∨ ∃ p p', get m id = some p ∧ get m' id = some p' ∧ pcore p' = pcore p := by
  have := h id
  cases h1 : get m id <;> cases h2 : get m' id <;> simp [h1, h2] at this
  · exact Or.inl ⟨rfl, rfl⟩
  · exact Or.inr ⟨_, _, rfl, rfl, this⟩

theorem pcore_fields {p p' : Proposal} (h : pcore p' = pcore p) :
    p'.status = p.status ∧ p'.depEnd = p.depEnd ∧ p'.voteEnd = p.voteEnd ∧ p'.total = p.total := by
  simp only [pcore, Prod.mk.injEq] at h
  exact h

theorem refund_fold (hm : ModFix frm to) (L : Store (Nat × Addr) Nat) {b b' : Bal} (h : BalRel frm to b b') :
    BalRel frm to
      (L.foldl (fun b p => match sendCoins b govMod p.1.2 0 p.2 with | some b' => b' | none => b) b)
      ((mapKV (swS frm to) id L).foldl (fun b p => match sendCoins b govMod p.1.2 0 p.2 with | some b' => b' | none => b) b') := by
  induction L generalizing b b' with
  | nil => exact h
  | cons p L ih =>
    simp only [mapKV, List.map_cons, List.foldl_cons] at ih ⊢
    apply ih
    have hs := h.sendCoins govMod p.1.2 0 p.2
    rw [hm.gov] at hs
    simp only [swS, id]
    rcases hs.cases with ⟨b1, b2⟩ | ⟨c, c', b1, b2, hcc⟩
    · rw [b1, b2]; exact h
    · rw [b1, b2]; exact hcc

theorem sim_refundDeposits (hm : ModFix frm to) {s t : State} (h : Sim frm to s t) (id : Nat) :
    Sim frm to (refundDeposits s id) (refundDeposits t id) := by
  unfold refundDeposits
  have hf1 : t.deposits.filter (fun p => p.1.1 == id) = mapKV (swS frm to) _root_.id (s.deposits.filter (fun p => p.1.1 == id)) := by
    rw [h.deposits]; exact filter_mapKV _ _ s.deposits _ _ (fun _ => rfl)
  have hf2 : t.deposits.filter (fun p => !(p.1.1 == id)) =
      mapKV (swS frm to) _root_.id (s.deposits.filter (fun p => !(p.1.1 == id))) := by
    rw [h.deposits]; exact filter_mapKV _ _ s.deposits _ _ (fun _ => rfl)
  simp only
  rw [hf1]
  exact { h with bal := refund_fold hm _ h.bal, deposits := hf2 }

theorem sim_foldl_same {α : Type} (f f' : State → α → State)
    (hstep : ∀ s t x, Sim frm to s t → Sim frm to (f s x) (f' t x)) (L : List α) {s t : State}
    (h : Sim frm to s t) : Sim frm to (L.foldl f s) (L.foldl f' t) := by
  induction L generalizing s t with
  | nil => exact h
  | cons x L ih => exact ih (hstep s t x h)

def govEndI (s : State) : State :=
  (s.inactiveQ.filter (fun p => p.1 ≤ s.now)).foldl (fun s p => refundDeposits { s with props := del s.props p.2 } p.2)
    { s with inactiveQ := s.inactiveQ.filter (fun p => !(p.1 ≤ s.now)) }
def govEndA (s1 : State) : State :=
  (s1.activeQ.filter (fun p => p.1 ≤ s1.now)).foldl (fun s p =>
      let s' := refundDeposits s p.2
      { s' with votes := s'.votes.filter (fun x => !(x.1 == p.2)),
                props := match get s'.props p.2 with
                         | some pr => put s'.props p.2 { pr with status := 2 }
                         | none => s'.props })
    { s1 with activeQ := s1.activeQ.filter (fun p => !(p.1 ≤ s1.now)) }

theorem govEnd_eq (s : State) : govEnd s = govEndA (govEndI s) := rfl

theorem sim_govEndI (hm : ModFix frm to) {s t : State} (h : Sim frm to s t) : Sim frm to (govEndI s) (govEndI t) := by
  unfold govEndI
  have eL : t.inactiveQ.filter (fun p => p.1 ≤ t.now) = s.inactiveQ.filter (fun p => p.1 ≤ s.now) := by
    rw [h.inactiveQ, h.now]
  have eR : t.inactiveQ.filter (fun p => !(p.1 ≤ t.now)) = s.inactiveQ.filter (fun p => !(p.1 ≤ s.now)) := by
    rw [h.inactiveQ, h.now]
  rw [eL]
  refine sim_foldl_same _ _ (fun s t x hst => ?_) _ (s := { s with inactiveQ := _ }) (t := { t with inactiveQ := _ })
    { h with inactiveQ := eR }
  exact sim_refundDeposits hm (s := { s with props := del s.props x.2 }) (t := { t with props := del t.props x.2 })
    { hst with props := PropsRel.del hst.props x.2 } x.2

theorem sim_govEndA (hm : ModFix frm to) {s t : State} (h : Sim frm to s t) : Sim frm to (govEndA s) (govEndA t) := by
  unfold govEndA
  have eL : t.activeQ.filter (fun p => p.1 ≤ t.now) = s.activeQ.filter (fun p => p.1 ≤ s.now) := by
    rw [h.activeQ, h.now]
  have eR : t.activeQ.filter (fun p => !(p.1 ≤ t.now)) = s.activeQ.filter (fun p => !(p.1 ≤ s.now)) := by
    rw [h.activeQ, h.now]
  rw [eL]
  refine sim_foldl_same _ _ (fun s t x hst => ?_) _ (s := { s with activeQ := _ }) (t := { t with activeQ := _ })
    { h with activeQ := eR }
  have h' := sim_refundDeposits hm hst x.2
  generalize refundDeposits s x.2 = s' at h' ⊢
  generalize refundDeposits t x.2 = t' at h' ⊢
  simp only
  have hv : t'.votes.filter (fun y => !(y.1 == x.2)) = (s'.votes.filter (fun y => !(y.1 == x.2))).map (swS frm to) := by
    rw [h'.votes, List.filter_map]; rfl
  have hp : PropsRel
      (match get s'.props x.2 with | some pr => put s'.props x.2 { pr with status := 2 } | none => s'.props)
      (match get t'.props x.2 with | some pr => put t'.props x.2 { pr with status := 2 } | none => t'.props) := by
    rcases PropsRel.cases h'.props x.2 with ⟨e1, e2⟩ | ⟨p, p', e1, e2, hpp⟩
    · rw [e1, e2]; exact h'.props
    · rw [e1, e2]
      obtain ⟨_, h2, h3, h4⟩ := pcore_fields hpp
      exact PropsRel.put h'.props x.2 _ _ (by simp [pcore, h2, h3, h4])
  exact { h' with votes := hv, props := hp }

theorem sim_govEnd (hm : ModFix frm to) {s t : State} (h : Sim frm to s t) : Sim frm to (govEnd s) (govEnd t) := by
  rw [govEnd_eq, govEnd_eq]
  exact sim_govEndA hm (sim_govEndI hm h)

theorem sim_endBlock (hm : ModFix frm to) {s t : State} (h : Sim frm to s t) (dt : Nat) :
    Sim frm to (endBlock s dt) (endBlock t dt) := by
  unfold endBlock
  have h1 := sim_govEnd hm (sim_stakingEnd hm h)
  generalize govEnd (stakingEnd s) = a at h1 ⊢
  generalize govEnd (stakingEnd t) = b at h1 ⊢
  have hn : b.now + dt = a.now + dt := by rw [h1.now]
  exact { h1 with now := hn, blockFirstId := h1.nextUnbId }

theorem swS_inj' {β : Type} : ∀ a b : β × Addr, swS frm to a = swS frm to b → a = b := fun a b h => swS_inj frm to a b h

theorem sim_submit (hm : ModFix frm to) {s t : State} (h : Sim frm to s t) (a : Addr) (dep : Nat) :
    OptRel (Sim frm to) (submit s a dep) (submit t (sw frm to a) dep) := by
  unfold submit
  have hs := h.bal.sendCoins a govMod 0 dep
  rw [hm.gov] at hs
  rcases hs.cases with ⟨b1, b2⟩ | ⟨b, b', b1, b2, hbb⟩
  · rw [b1, b2]; trivial
  · rw [b1, b2]
    simp only [OptRel]
    rw [h.nextProp, h.minDeposit, h.now, h.depPeriod, h.votePeriod, h.inactiveQ, h.activeQ]
    refine { h with now := rfl, depPeriod := rfl, votePeriod := rfl, minDeposit := rfl, bal := hbb, nextProp := rfl,
                    inactiveQ := rfl, activeQ := rfl, props := PropsRel.put h.props _ _ _ rfl, deposits := ?_ }
    dsimp only
    rw [h.deposits]
    exact put_mapKV swS_inj' _root_.id s.deposits (s.nextProp, a) dep

theorem sim_deposit (hm : ModFix frm to) {s t : State} (h : Sim frm to s t) (a : Addr) (id amt : Nat) :
    OptRel (Sim frm to) (deposit s a id amt) (deposit t (sw frm to a) id amt) := by
  unfold deposit
  rcases PropsRel.cases h.props id with ⟨e1, e2⟩ | ⟨p, p', e1, e2, hpp⟩
  · rw [e1, e2]; trivial
  · rw [e1, e2]
    obtain ⟨h1, h2, h3, h4⟩ := pcore_fields hpp
    simp only
    rw [h1]
    split
    · trivial
    · have hs := h.bal.sendCoins a govMod 0 amt
      rw [hm.gov] at hs
      rcases hs.cases with ⟨b1, b2⟩ | ⟨b, b', b1, b2, hbb⟩
      · rw [b1, b2]; trivial
      · rw [b1, b2]
        simp only [OptRel]
        have hg : get t.deposits (id, sw frm to a) = get s.deposits (id, a) := by
          rw [h.deposits]
          have := get_mapKV (kf := swS frm to) swS_inj' _root_.id s.deposits (id, a)
          simpa [swS] using this
        rw [hg, h4, h2, h3, h.minDeposit, h.now, h.votePeriod, h.inactiveQ, h.activeQ]
        refine { h with now := rfl, votePeriod := rfl, minDeposit := rfl, bal := hbb, inactiveQ := rfl, activeQ := ?_,
                        props := PropsRel.put h.props _ _ _ ?_, deposits := ?_ }
        · split <;> simp [pcore]
        · rw [h.deposits]
          exact put_mapKV swS_inj' _root_.id s.deposits (id, a) _
        · by_cases hc : (p.status == 0 && decide (p.total + amt ≥ s.minDeposit)) = true <;> simp [hc]

theorem sim_vote {s t : State} (h : Sim frm to s t) (a : Addr) (id : Nat) :
    OptRel (Sim frm to) (vote s a id) (vote t (sw frm to a) id) := by
  unfold vote
  rcases PropsRel.cases h.props id with ⟨e1, e2⟩ | ⟨p, p', e1, e2, hpp⟩
  · rw [e1, e2]; trivial
  · rw [e1, e2]
    obtain ⟨h1, _, _, _⟩ := pcore_fields hpp
    simp only
    rw [h1]
    split
    · trivial
    · simp only [OptRel]
      refine { h with votes := ?_ }
      dsimp only
      rw [h.votes]
      exact ins_map swS_inj' s.votes (id, a)

/-! ### one step, and every later history -/

/-- an operation with source and target swapped -/
def swOp (frm to : Addr) : Op → Op
  | .send a b d n => .send (sw frm to a) (sw frm to b) d n
  | .mint a d n => .mint (sw frm to a) d n
  | .delegate d v amt rw => .delegate (sw frm to d) v amt rw
  | .undelegate d v amt rw => .undelegate (sw frm to d) v amt rw
  | .redelegate d a b amt r1 r2 => .redelegate (sw frm to d) a b amt r1 r2
  | .withdraw d v rw => .withdraw (sw frm to d) v rw
  | .setWithdraw d w => .setWithdraw (sw frm to d) (sw frm to w)
  | .submit a dep => .submit (sw frm to a) dep
  | .deposit a id amt => .deposit (sw frm to a) id amt
  | .vote a id => .vote (sw frm to a) id
  | .block dt => .block dt
  | .setPeriods dp vp => .setPeriods dp vp
  | .setUnbond n => .setUnbond n
  | .migrate f t sg => .migrate (sw frm to f) (sw frm to t) sg

def isMigrate : Op → Bool
  | .migrate .. => true
  | _ => false

theorem sim_ofOpt {s t : State} (h : Sim frm to s t) {o o' : Option State} (ho : OptRel (Sim frm to) o o') :
    Sim frm to (ofOpt s o).1 (ofOpt t o').1 ∧ (ofOpt s o).2 = (ofOpt t o').2 := by
  rcases ho.cases with ⟨e1, e2⟩ | ⟨a, b, e1, e2, hab⟩
  · rw [e1, e2]; exact ⟨h, rfl⟩
  · rw [e1, e2]; exact ⟨hab, rfl⟩

/-- **one step**: every operation other than a migration, run with swapped arguments on the swapped state, answers the
same and leads to swapped states -/
theorem sim_step (hm : ModFix frm to) (c : Cfg) {s t : State} (h : Sim frm to s t) (op : Op) (hop : isMigrate op = false) :
    Sim frm to (step c s op).1 (step c t (swOp frm to op)).1 ∧ (step c s op).2 = (step c t (swOp frm to op)).2 := by
  cases op with
  | send a b d n =>
    simp only [step, swOp]
    apply sim_ofOpt h
    unfold sendUnlocked
    rw [h.lockedOf, h.bal a d]
    split
    · trivial
    · rcases (h.bal.sendCoins a b d n).cases with ⟨b1, b2⟩ | ⟨x, x', b1, b2, hxx⟩
      · rw [b1, b2]; trivial
      · rw [b1, b2]; exact { h with bal := hxx }
  | mint a d n => exact ⟨{ h with bal := h.bal.credit a d n }, rfl⟩
  | delegate d v amt rw => exact sim_ofOpt h (sim_delegate hm h d v amt rw)
  | undelegate d v amt rw => exact sim_ofOpt h (sim_undelegate hm h d v amt rw)
  | redelegate d a b amt r1 r2 => exact sim_ofOpt h (sim_redelegate h d a b amt r1 r2)
  | withdraw d v rw => exact sim_ofOpt h (sim_withdraw h d v rw)
  | setWithdraw d w => exact ⟨sim_setWithdraw h d w, rfl⟩
  | submit a dep => exact sim_ofOpt h (sim_submit hm h a dep)
  | deposit a id amt => exact sim_ofOpt h (sim_deposit hm h a id amt)
  | vote a id => exact sim_ofOpt h (sim_vote h a id)
  | block dt => exact ⟨sim_endBlock hm h dt, rfl⟩
  | setPeriods dp vp => exact ⟨{ h with depPeriod := rfl, votePeriod := rfl }, rfl⟩
  | setUnbond n => exact ⟨{ h with unbondTime := rfl }, rfl⟩
  | migrate f t sg => simp [isMigrate] at hop

/-- the answers of a history -/
def trace (c : Cfg) : State → List Op → List String
  | _, [] => []
  | s, op :: ops => (step c s op).2 :: trace c (step c s op).1 ops

/-- **every later history** without further migrations -/
theorem sim_run (hm : ModFix frm to) (c : Cfg) (ops : List Op) (hops : ∀ op ∈ ops, isMigrate op = false) {s t : State}
    (h : Sim frm to s t) :
    Sim frm to (run c s ops) (run c t (ops.map (swOp frm to))) ∧ trace c s ops = trace c t (ops.map (swOp frm to)) := by
  induction ops generalizing s t with
  | nil => exact ⟨h, rfl⟩
  | cons op ops ih =>
    obtain ⟨h1, e1⟩ := sim_step hm c h op (hops op (List.mem_cons_self ..))
    obtain ⟨h2, e2⟩ := ih (fun o ho => hops o (List.mem_cons_of_mem _ ho)) h1
    refine ⟨?_, ?_⟩
    · simpa [run] using h2
    · simp only [trace, List.map_cons, e1, e2]

end sim

end FxVerif.Proofs.C14
