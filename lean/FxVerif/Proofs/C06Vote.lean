import FxVerif.Model.C06Vote
/-!
# Proofs about the voting layer (`Model/C06Vote.lean`)

* `vrun_base`: the C05 state of a voted run is the C05 run of its trace (the given base operations plus one `observe` per
  quorum-completing vote) — every history theorem of C05 / C06 applies to voted histories;
* `VInv`: every vote of a stored attestation, and every voter of a logged observation, is an accepted claim whose hash key
  equals the attestation's / the observed claim's, and the logged voters pass the tally;
* `reached_sum`: passing the tally means the voters' combined power is at least the required power.
-/
namespace FxVerif.Proofs.C06Vote
open FxVerif.Model.C05 FxVerif.Model.C06Vote List

theorem voteCore_base (tbl : Fields) (s : VState) (o n h : Nat) (ev : Ev) :
    (voteCore tbl s o n h ev).1.base =
      match (voteCore tbl s o n h ev).2.2 with
      | some op => (step s.base op).1
      | none => s.base := by
  unfold voteCore
  split
  · rfl
  split
  · rfl
  simp only
  split
  · unfold observeBy
    simp only
    split <;> rfl
  · rfl

theorem voteCore_powers (tbl : Fields) (s : VState) (o n h : Nat) (ev : Ev) :
    (voteCore tbl s o n h ev).1.powers = s.powers ∧ (voteCore tbl s o n h ev).1.total = s.total := by
  unfold voteCore
  split
  · exact ⟨rfl, rfl⟩
  split
  · exact ⟨rfl, rfl⟩
  simp only
  split
  · unfold observeBy
    simp only
    split <;> exact ⟨rfl, rfl⟩
  · exact ⟨rfl, rfl⟩

theorem vstep_powers (tbl : Fields) (s : VState) (op : VOp) :
    (vstepWith tbl s op).1.powers = s.powers ∧ (vstepWith tbl s op).1.total = s.total := by
  cases op with
  | base b => exact ⟨rfl, rfl⟩
  | vote o n h ev => exact voteCore_powers tbl s o n h ev

theorem vrun_powers (tbl : Fields) (ops : List VOp) (s : VState) :
    (vrunWith tbl s ops).powers = s.powers ∧ (vrunWith tbl s ops).total = s.total := by
  induction ops generalizing s with
  | nil => exact ⟨rfl, rfl⟩
  | cons op r ih =>
    have h1 := vstep_powers tbl s op
    have h2 := ih (vstepWith tbl s op).1
    exact ⟨h2.1.trans h1.1, h2.2.trans h1.2⟩

/-- the C05 state of a voted run = the C05 run of its trace -/
theorem vrun_base (tbl : Fields) (ops : List VOp) (s : VState) :
    (vrunWith tbl s ops).base = run s.base (traceWith tbl s ops) := by
  induction ops generalizing s with
  | nil => rfl
  | cons op r ih =>
    show (vrunWith tbl (vstepWith tbl s op).1 r).base = _
    rw [ih]
    cases op with
    | base b => rfl
    | vote o n h ev =>
      show run (voteCore tbl s o n h ev).1.base _ = run s.base ((voteCore tbl s o n h ev).2.2.toList ++ _)
      rw [voteCore_base]
      cases (voteCore tbl s o n h ev).2.2 with
      | none => rfl
      | some op => rfl

/-! ## the tally -/

theorem reached_sum (pw : Nat → Nat) (req : Nat) (hlt : ∀ a r, below a r = decide (a < r)) :
    ∀ (l : List Nat) (acc : Nat), reached pw req l acc = true → req ≤ acc + sumPower pw l
  | [], _, h => by simp [reached] at h
  | o :: r, acc, h => by
    unfold reached at h
    have hs : sumPower pw (o :: r) = pw o + sumPower pw r := by simp [sumPower]
    split at h
    · have := reached_sum pw req hlt r (acc + pw o) h
      omega
    · rename_i hb
      rw [hlt] at hb
      have : ¬ acc + pw o < req := by simpa using hb
      omega

/-! ## the invariant -/

def Backed (tbl : Fields) (log : List Vote) (nonce : Nat) (key : String × List (Option Nat)) (o : Nat) : Prop :=
  ∃ v ∈ log, v.oracle = o ∧ v.nonce = nonce ∧ claimKey tbl v.height v.ev = key

structure VInv (tbl : Fields) (s : VState) : Prop where
  atts : ∀ a ∈ s.atts, ∀ o ∈ a.votes, Backed tbl s.voteLog a.nonce a.key o
  obs : ∀ e ∈ s.obsLog, (∀ o ∈ e.voters, Backed tbl s.voteLog e.nonce (claimKey tbl e.height e.ev) o) ∧
    reached (power s) (required s.total) e.voters 0 = true

theorem Backed.mono {tbl : Fields} {log : List Vote} {n : Nat} {k : String × List (Option Nat)} {o : Nat} (v : Vote)
    (h : Backed tbl log n k o) : Backed tbl (log ++ [v]) n k o := by
  obtain ⟨w, hw, h1⟩ := h
  exact ⟨w, mem_append_left _ hw, h1⟩

theorem mem_setAtt (atts : List Att) (a b : Att) (h : b ∈ setAtt atts a) : b ∈ atts ∨ b = a := by
  unfold setAtt at h
  split at h
  · rw [mem_map] at h
    obtain ⟨c, hc, hcb⟩ := h
    split at hcb
    · exact Or.inr hcb.symm
    · exact Or.inl (hcb ▸ hc)
  · rw [mem_append] at h
    rcases h with h | h
    · exact Or.inl h
    · exact Or.inr (by simpa using h)

theorem power_congr (s t : VState) (h : t.powers = s.powers) : power t = power s := by
  funext o; simp [power, h]

theorem findAtt_spec (tbl : Fields) (s : VState) (n h : Nat) (ev : Ev) (I : VInv tbl s) :
    (findAtt tbl s n h ev).nonce = n ∧ (findAtt tbl s n h ev).key = claimKey tbl h ev ∧
    ∀ o' ∈ (findAtt tbl s n h ev).votes, Backed tbl s.voteLog n (claimKey tbl h ev) o' := by
  unfold findAtt
  cases hf : s.atts.find? (fun a => a.nonce = n ∧ a.key = claimKey tbl h ev) with
  | none => exact ⟨rfl, rfl, by intro o' ho'; cases ho'⟩
  | some a =>
    have hp := find?_some hf
    have hm := mem_of_find?_eq_some hf
    have hp' : a.nonce = n ∧ a.key = claimKey tbl h ev := by simpa using hp
    refine ⟨hp'.1, hp'.2, ?_⟩
    intro o' ho'
    have := I.atts a hm o' ho'
    rwa [hp'.1, hp'.2] at this

theorem vinv_vote (tbl : Fields) (hv : FxVerif.Gen.C06.observedHeightFromVoter = true) (s : VState) (o n h : Nat) (ev : Ev)
    (I : VInv tbl s) : VInv tbl (voteCore tbl s o n h ev).1 := by
  unfold voteCore
  split
  · exact I
  split
  · exact I
  obtain ⟨hn, hk, hvotes⟩ := findAtt_spec tbl s n h ev I
  generalize findAtt tbl s n h ev = att0 at hn hk hvotes
  have hnew : ∀ o' ∈ att0.votes ++ [o], Backed tbl (s.voteLog ++ [⟨o, n, h, ev⟩]) n (claimKey tbl h ev) o' := by
    intro o' ho'
    rw [mem_append] at ho'
    rcases ho' with ho' | ho'
    · exact (hvotes o' ho').mono _
    · have : o' = o := by simpa using ho'
      subst this
      exact ⟨⟨o', n, h, ev⟩, by simp, rfl, rfl, rfl⟩
  have hattsNew : ∀ obsd : Bool, ∀ a ∈ setAtt s.atts { addVote att0 o with observed := obsd }, ∀ o' ∈ a.votes,
      Backed tbl (s.voteLog ++ [⟨o, n, h, ev⟩]) a.nonce a.key o' := by
    intro obsd a ha o' ho'
    rcases mem_setAtt _ _ _ ha with ha | ha
    · exact (I.atts a ha o' ho').mono _
    · subst ha
      show Backed tbl _ att0.nonce att0.key o'
      rw [hn, hk]
      exact hnew o' ho'
  have hobsOld : ∀ e ∈ s.obsLog, (∀ o' ∈ e.voters, Backed tbl (s.voteLog ++ [⟨o, n, h, ev⟩]) e.nonce (claimKey tbl e.height e.ev) o') ∧
      reached (power s) (required s.total) e.voters 0 = true := by
    intro e he
    exact ⟨fun o' ho' => ((I.obs e he).1 o' ho').mono _, (I.obs e he).2⟩
  simp only
  split
  · rename_i hcond
    unfold observeBy
    simp only
    split
    · -- panic: only the base component differs from `s`
      exact ⟨I.atts, I.obs⟩
    · refine ⟨hattsNew true, ?_⟩
      intro e he
      have he' : e ∈ s.obsLog ∨ e = ⟨n, hObsOf h, ev, (addVote att0 o).votes⟩ := by
        have : e ∈ s.obsLog ++ [⟨n, hObsOf h, ev, (addVote att0 o).votes⟩] := he
        simpa using this
      rcases he' with he' | he'
      · exact hobsOld e he'
      · subst he'
        have hh : hObsOf h = h := by simp [hObsOf, hv]
        refine ⟨?_, ?_⟩
        · intro o' ho'
          show Backed tbl _ n (claimKey tbl (hObsOf h) ev) o'
          rw [hh]
          exact hnew o' ho'
        · have hc : crosses s (addVote att0 o) n = true := hcond
          unfold crosses at hc
          simp only [Bool.and_eq_true] at hc
          exact hc.2
  · exact ⟨hattsNew att0.observed, hobsOld⟩

theorem vinv_step (tbl : Fields) (hv : FxVerif.Gen.C06.observedHeightFromVoter = true) (s : VState) (op : VOp)
    (I : VInv tbl s) : VInv tbl (vstepWith tbl s op).1 := by
  cases op with
  | base b => exact ⟨I.atts, I.obs⟩
  | vote o n h ev => exact vinv_vote tbl hv s o n h ev I

theorem vinv_run (tbl : Fields) (hv : FxVerif.Gen.C06.observedHeightFromVoter = true) (ops : List VOp) (s : VState)
    (I : VInv tbl s) : VInv tbl (vrunWith tbl s ops) := by
  induction ops generalizing s with
  | nil => exact I
  | cons op r ih => exact ih _ (vinv_step tbl hv s op I)

theorem vinv_init (tbl : Fields) (b : State) (powers : List Nat) (total : Nat) : VInv tbl (vinit b powers total) :=
  ⟨fun a ha => by simp [vinit] at ha, fun e he => by simp [vinit] at he⟩

/-! ## an oracle votes at most once per event nonce: the votes of an attestation are distinct oracles -/

theorem getD_set_eq (l : List Nat) (i v : Nat) (h : i < l.length) : (l.set i v).getD i 0 = v := by
  simp [List.getD_eq_getElem?_getD, h]

theorem getD_set_ne (l : List Nat) (i j v : Nat) (h : i ≠ j) : (l.set i v).getD j 0 = l.getD j 0 := by
  simp [List.getD_eq_getElem?_getD, h]

structure VDist (s : VState) : Prop where
  len : s.last.length = s.powers.length
  atts : ∀ a ∈ s.atts, a.votes.Nodup ∧ ∀ o ∈ a.votes, a.nonce ≤ s.last.getD o 0
  obs : ∀ e ∈ s.obsLog, e.voters.Nodup

theorem findAtt_mem (tbl : Fields) (s : VState) (n h : Nat) (ev : Ev) :
    (findAtt tbl s n h ev).nonce = n ∧ ((findAtt tbl s n h ev) ∈ s.atts ∨ (findAtt tbl s n h ev).votes = []) := by
  unfold findAtt
  cases hf : s.atts.find? (fun a => a.nonce = n ∧ a.key = claimKey tbl h ev) with
  | none => exact ⟨rfl, Or.inr rfl⟩
  | some a =>
    have hp := find?_some hf
    have hp' : a.nonce = n ∧ a.key = claimKey tbl h ev := by simpa using hp
    exact ⟨hp'.1, Or.inl (mem_of_find?_eq_some hf)⟩

theorem vdist_vote (tbl : Fields) (s : VState) (o n h : Nat) (ev : Ev) (D : VDist s) :
    VDist (voteCore tbl s o n h ev).1 := by
  unfold voteCore
  split
  · exact D
  rename_i ho
  split
  · exact D
  rename_i hn
  have hlt : o < s.last.length := by rw [D.len]; omega
  have hn' : n = s.last.getD o 0 + 1 := by omega
  obtain ⟨hnonce, hmem⟩ := findAtt_mem tbl s n h ev
  generalize findAtt tbl s n h ev = att0 at hnonce hmem
  -- the oracle has not voted in this attestation yet
  have hfresh : o ∉ att0.votes := by
    intro hin
    rcases hmem with hm | hm
    · have := (D.atts att0 hm).2 o hin
      omega
    · rw [hm] at hin; cases hin
  have hbound0 : ∀ o' ∈ att0.votes, n ≤ s.last.getD o' 0 := by
    intro o' ho'
    rcases hmem with hm | hm
    · have := (D.atts att0 hm).2 o' ho'
      omega
    · rw [hm] at ho'; cases ho'
  have hnodup0 : att0.votes.Nodup := by
    rcases hmem with hm | hm
    · exact (D.atts att0 hm).1
    · rw [hm]; exact List.nodup_nil
  have hnodup : (att0.votes ++ [o]).Nodup := by
    rw [List.nodup_append]
    refine ⟨hnodup0, by simp, ?_⟩
    intro a ha b hb
    have : b = o := by simpa using hb
    subst this
    intro hab; subst hab; exact hfresh ha
  have hattsNew : ∀ obsd : Bool, ∀ a ∈ setAtt s.atts { addVote att0 o with observed := obsd },
      a.votes.Nodup ∧ ∀ o' ∈ a.votes, a.nonce ≤ (s.last.set o n).getD o' 0 := by
    intro obsd a ha
    rcases mem_setAtt _ _ _ ha with ha | ha
    · refine ⟨(D.atts a ha).1, ?_⟩
      intro o' ho'
      have hb := (D.atts a ha).2 o' ho'
      by_cases he : o = o'
      · subst he; rw [getD_set_eq _ _ _ hlt]; omega
      · rw [getD_set_ne _ _ _ _ he]; exact hb
    · subst ha
      refine ⟨hnodup, ?_⟩
      intro o' ho'
      show att0.nonce ≤ _
      rw [hnonce]
      have ho'' : o' ∈ att0.votes ++ [o] := ho'
      rw [mem_append] at ho''
      by_cases he : o = o'
      · subst he; rw [getD_set_eq _ _ _ hlt]; exact Nat.le_refl _
      · rw [getD_set_ne _ _ _ _ he]
        rcases ho'' with h1 | h1
        · exact hbound0 o' h1
        · exact absurd (by simpa using h1 : o' = o).symm he
  have hlen : (s.last.set o n).length = s.powers.length := by simp [D.len]
  simp only
  split
  · unfold observeBy
    simp only
    split
    · exact ⟨D.len, D.atts, D.obs⟩
    · refine ⟨hlen, hattsNew true, ?_⟩
      intro e he
      have he' : e ∈ s.obsLog ∨ e = ⟨n, hObsOf h, ev, (addVote att0 o).votes⟩ := by
        have : e ∈ s.obsLog ++ [⟨n, hObsOf h, ev, (addVote att0 o).votes⟩] := he
        simpa using this
      rcases he' with he' | he'
      · exact D.obs e he'
      · subst he'; exact hnodup
  · exact ⟨hlen, hattsNew att0.observed, D.obs⟩

theorem vdist_run (tbl : Fields) (ops : List VOp) (s : VState) (D : VDist s) : VDist (vrunWith tbl s ops) := by
  induction ops generalizing s with
  | nil => exact D
  | cons op r ih =>
    apply ih
    cases op with
    | base b => exact ⟨D.len, D.atts, D.obs⟩
    | vote o n h ev => exact vdist_vote tbl s o n h ev D

theorem vdist_init (b : State) (powers : List Nat) (total : Nat) : VDist (vinit b powers total) :=
  ⟨by simp [vinit], fun a ha => by simp [vinit] at ha, fun e he => by simp [vinit] at he⟩

end FxVerif.Proofs.C06Vote
