import FxVerif.Model.C16Tx
/-! # C16 — step lemmas for the interpreter of the regenerated `baseapp.runTx` (core Lean only) -/
namespace FxVerif.Model.C16

theorem rejectIfEnv_step {σ : Type} (stop : Bool) (inp : TxIn σ) (i : Nat) (src : String) (ts : List TStep) (M : TxM σ) :
    runSteps stop inp (.rejectIfEnv i src :: ts) M = (.err, M.main) ∨
      runSteps stop inp (.rejectIfEnv i src :: ts) M = runSteps stop inp ts M := by
  simp only [runSteps, tStep]
  cases inp.envReject i <;> simp

theorem skip_step {σ : Type} (stop : Bool) (inp : TxIn σ) (src : String) (ts : List TStep) (M : TxM σ) :
    runSteps stop inp (.skip src :: ts) M = runSteps stop inp ts M := by
  simp [runSteps, tStep]

theorem ante_block {σ : Type} (stop : Bool) (inp : TxIn σ) (A : List AStep) (ts : List TStep) (M : TxM σ) :
    runSteps stop inp (.ante A :: ts) M =
      match anteRun inp A M with
      | .error s => (.err, s)
      | .ok M' => runSteps stop inp ts M' := by
  rw [runSteps]; rfl

/-- an environment-decided early return: the run ends with the block's state as it is there, or goes on -/
theorem peel_env {σ : Type} (Q : Res × σ → Prop) (stop : Bool) (inp : TxIn σ) (i : Nat) (src : String)
    (ts : List TStep) (M : TxM σ) (h1 : Q (.err, M.main)) (h2 : Q (runSteps stop inp ts M)) :
    Q (runSteps stop inp (.rejectIfEnv i src :: ts) M) := by
  rcases rejectIfEnv_step stop inp i src ts M with h | h <;> rw [h] <;> assumption

/-- `runMsgs` over a list that contains a message which fails in EVERY state: the run fails -/
theorem loopMsgsG_fails_of_refused {σ : Type} (f : σ → Res × σ) (hf : ∀ x, (f x).1 = .err) :
    ∀ (pre post : List (σ → Res × σ)) (s : σ) (e : Res), (loopMsgsG true (pre ++ f :: post) s e).1 = .err := by
  intro pre
  induction pre with
  | nil =>
    intro post s e
    simp only [List.nil_append, loopMsgsG]
    rcases h : f s with ⟨r, s'⟩
    have := hf s
    rw [h] at this
    simp only at this
    subst this
    simp
  | cons g gs ih =>
    intro post s e
    simp only [List.cons_append, loopMsgsG]
    rcases g s with ⟨r, s'⟩
    cases r with
    | ok => exact ih post s' .ok
    | err => simp

end FxVerif.Model.C16
