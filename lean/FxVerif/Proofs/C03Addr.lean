import FxVerif.Model.C03Addr
/-! # C03 — lemmas about `Model/C03Addr.lean`: hex digits up to letter case, nibble pairs, the tron payload -/
namespace FxVerif.Proofs.C03Addr
open FxVerif.Model.C03 FxVerif.Model.C03.Addr

theorem le_a (c d : Char) : (d ≤ c) ↔ d.toNat ≤ c.toNat := Iff.rfl
theorem dig (c : Char) : c.isDigit = true ↔ (48 ≤ c.toNat ∧ c.toNat ≤ 57) := by
  simp only [Char.isDigit, Bool.and_eq_true, decide_eq_true_eq]
  exact Iff.rfl

theorem hexChar_iff (c : Char) : isHexChar c = true ↔
    ((48 ≤ c.toNat ∧ c.toNat ≤ 57) ∨ (97 ≤ c.toNat ∧ c.toNat ≤ 102) ∨ (65 ≤ c.toNat ∧ c.toNat ≤ 70)) := by
  simp only [isHexChar, Bool.or_eq_true, Bool.and_eq_true, decide_eq_true_eq, dig, le_a]
  have e1 : 'a'.toNat = 97 := rfl
  have e2 : 'f'.toNat = 102 := rfl
  have e3 : 'A'.toNat = 65 := rfl
  have e4 : 'F'.toNat = 70 := rfl
  rw [e1, e2, e3, e4]
  constructor
  · rintro ((h | h) | h) <;> simp [h]
  · rintro (h | h | h) <;> simp [h]

theorem char_eq_of_toNat {a b : Char} (h : a.toNat = b.toNat) : a = b := by
  apply Char.ext
  exact UInt32.toNat_inj.mp h

theorem nibble_digit {c : Char} (h : 48 ≤ c.toNat ∧ c.toNat ≤ 57) : nibble c = c.toNat - 48 := by
  have : c.isDigit = true := (dig c).2 h
  simp [nibble, Go.hexVal, this]

theorem nibble_lower {c : Char} (h : 97 ≤ c.toNat ∧ c.toNat ≤ 102) : nibble c = c.toNat - 87 := by
  have hd : ¬ (c.isDigit = true) := by rw [dig]; omega
  have hl : 'a' ≤ c ∧ c ≤ 'f' := ⟨(le_a c 'a').2 h.1, (le_a 'f' c).2 h.2⟩
  simp [nibble, Go.hexVal, hd, hl]

theorem nibble_upper {c : Char} (h : 65 ≤ c.toNat ∧ c.toNat ≤ 70) : nibble c = c.toNat - 55 := by
  have hd : ¬ (c.isDigit = true) := by rw [dig]; omega
  have hl : ¬ ('a' ≤ c ∧ c ≤ 'f') := by
    intro hh; have := (le_a c 'a').1 hh.1; have e : 'a'.toNat = 97 := rfl; omega
  have hu : 'A' ≤ c ∧ c ≤ 'F' := ⟨(le_a c 'A').2 h.1, (le_a 'F' c).2 h.2⟩
  simp [nibble, Go.hexVal, hd, hl, hu]

theorem lowerC_of_not_upper {c : Char} (h : c.toNat < 65 ∨ 90 < c.toNat) : lowerC c = c := by
  have : ¬ ('A' ≤ c ∧ c ≤ 'Z') := by
    intro hh
    have h1 := (le_a c 'A').1 hh.1
    have h2 := (le_a 'Z' c).1 hh.2
    have e1 : 'A'.toNat = 65 := rfl
    have e2 : 'Z'.toNat = 90 := rfl
    omega
  simp [lowerC, this]

theorem lowerC_of_upper {c : Char} (h : 65 ≤ c.toNat ∧ c.toNat ≤ 90) : lowerC c = Char.ofNat (c.toNat + 32) := by
  have : 'A' ≤ c ∧ c ≤ 'Z' := ⟨(le_a c 'A').2 h.1, (le_a 'Z' c).2 h.2⟩
  simp [lowerC, this]

theorem nibble_eq_lower {a b : Char} (ha : isHexChar a = true) (hb : isHexChar b = true) (h : nibble a = nibble b) :
    lowerC a = lowerC b := by
  rw [hexChar_iff] at ha hb
  rcases ha with ha | ha | ha <;> rcases hb with hb | hb | hb
  all_goals first
    | (rw [nibble_digit ha, nibble_digit hb] at h; have : a = b := char_eq_of_toNat (by omega); rw [this])
    | (rw [nibble_lower ha, nibble_lower hb] at h; have : a = b := char_eq_of_toNat (by omega); rw [this])
    | (rw [nibble_upper ha, nibble_upper hb] at h; have : a = b := char_eq_of_toNat (by omega); rw [this])
    | (rw [nibble_digit ha, nibble_lower hb] at h; omega)
    | (rw [nibble_digit ha, nibble_upper hb] at h; omega)
    | (rw [nibble_lower ha, nibble_digit hb] at h; omega)
    | (rw [nibble_upper ha, nibble_digit hb] at h; omega)
    | (rw [nibble_lower ha, nibble_upper hb] at h
       rw [lowerC_of_not_upper (Or.inr (by omega)), lowerC_of_upper (by omega)]
       have : b.toNat + 32 = a.toNat := by omega
       rw [this, Char.ofNat_toNat])
    | (rw [nibble_upper ha, nibble_lower hb] at h
       rw [lowerC_of_not_upper (c := b) (Or.inr (by omega)), lowerC_of_upper (c := a) (by omega)]
       have : a.toNat + 32 = b.toNat := by omega
       rw [this, Char.ofNat_toNat])

theorem nibble_lt {c : Char} (h : isHexChar c = true) : nibble c < 16 := by
  rw [hexChar_iff] at h
  rcases h with h | h | h
  · rw [nibble_digit h]; omega
  · rw [nibble_lower h]; omega
  · rw [nibble_upper h]; omega

theorem map_nibble_eq_lower : ∀ (r₁ r₂ : Str), r₁.all isHexChar = true → r₂.all isHexChar = true →
    r₁.map nibble = r₂.map nibble → r₁.map lowerC = r₂.map lowerC
  | [], [], _, _, _ => rfl
  | [], _ :: _, _, _, h => by simp at h
  | _ :: _, [], _, _, h => by simp at h
  | a :: r₁, b :: r₂, h₁, h₂, h => by
    simp only [List.all_cons, Bool.and_eq_true] at h₁ h₂
    simp only [List.map_cons, List.cons.injEq] at h ⊢
    exact ⟨nibble_eq_lower h₁.1 h₂.1 h.1, map_nibble_eq_lower r₁ r₂ h₁.2 h₂.2 h.2⟩

/-- two nibble lists of the same even length that pair up to the same bytes are equal -/
theorem pairUp_inj : ∀ (k : Nat) (n₁ n₂ : List Nat), n₁.length = 2 * k → n₂.length = 2 * k →
    (∀ x ∈ n₁, x < 16) → (∀ x ∈ n₂, x < 16) → pairUp n₁ = pairUp n₂ → n₁ = n₂
  | 0, n₁, n₂, l₁, l₂, _, _, _ => by
    have e₁ : n₁ = [] := List.eq_nil_of_length_eq_zero (by omega)
    have e₂ : n₂ = [] := List.eq_nil_of_length_eq_zero (by omega)
    rw [e₁, e₂]
  | k + 1, n₁, n₂, l₁, l₂, b₁, b₂, h => by
    match n₁, n₂, l₁, l₂ with
    | a :: b :: r₁, c :: d :: r₂, l₁, l₂ =>
      simp only [pairUp, List.cons.injEq] at h
      have ha := b₁ a (by simp)
      have hb := b₁ b (by simp)
      have hc := b₂ c (by simp)
      have hd := b₂ d (by simp)
      have hr := pairUp_inj k r₁ r₂ (by simp only [List.length_cons] at l₁; omega) (by simp only [List.length_cons] at l₂; omega)
        (fun x hx => b₁ x (by simp [hx])) (fun x hx => b₂ x (by simp [hx])) h.2
      have : a = c ∧ b = d := by omega
      rw [this.1, this.2, hr]
    | [], _, l₁, _ => simp only [List.length_nil] at l₁; omega
    | [_], _, l₁, _ => simp only [List.length_nil, List.length_cons] at l₁; omega
    | _ :: _ :: _, [], _, l₂ => simp only [List.length_nil] at l₂; omega
    | _ :: _ :: _, [_], _, l₂ => simp only [List.length_nil, List.length_cons] at l₂; omega

theorem isEthAddr_parts {s : Str} (h : isEthAddr s = true) :
    s = '0' :: 'x' :: s.drop 2 ∧ (s.drop 2).length = 40 ∧ (s.drop 2).all isHexChar = true := by
  simp only [isEthAddr, Bool.and_eq_true, beq_iff_eq] at h
  obtain ⟨⟨hl, ht⟩, ha⟩ := h
  match s, hl, ht, ha with
  | a :: b :: r, hl, ht, ha =>
    simp only [List.take, List.cons.injEq, and_true] at ht
    simp only [List.drop] at ha ⊢
    simp only [List.length_cons] at hl
    exact ⟨by rw [ht.1, ht.2], by omega, ha⟩

/-- eth class: two well-formed texts of one account differ only in the letter case of their hex digits -/
theorem ethHex_injective_up_to_case {s₁ s₂ : Str} (h₁ : isEthAddr s₁ = true) (h₂ : isEthAddr s₂ = true)
    (h : ethHex s₁ = ethHex s₂) : s₁.map lowerC = s₂.map lowerC := by
  obtain ⟨e₁, l₁, a₁⟩ := isEthAddr_parts h₁
  obtain ⟨e₂, l₂, a₂⟩ := isEthAddr_parts h₂
  have hn : ethNibbles s₁ = ethNibbles s₂ := by
    apply pairUp_inj 20 _ _ (by simp only [ethNibbles, List.length_map, l₁]) (by simp only [ethNibbles, List.length_map, l₂]) _ _ h
    · intro x hx
      simp only [ethNibbles, List.mem_map] at hx
      obtain ⟨c, hc, rfl⟩ := hx
      exact nibble_lt (List.all_eq_true.mp a₁ c hc)
    · intro x hx
      simp only [ethNibbles, List.mem_map] at hx
      obtain ⟨c, hc, rfl⟩ := hx
      exact nibble_lt (List.all_eq_true.mp a₂ c hc)
  have := map_nibble_eq_lower _ _ a₁ a₂ hn
  rw [e₁, e₂]
  simp only [List.map_cons, this]

/-- tron class: whatever the version byte, the hex accessor returns the 20 account bytes of a 21-byte payload -/
theorem tronHex_of_payload {s : Str} {v : Nat} {acc chk : List Nat} (hs : splitCheck s = some (v :: acc, chk))
    (hl : acc.length = 20) : tronHex s = acc ∧ tronAcc s = acc := by
  simp [tronHex, tronAcc, hs, bytesToAddress, hl]

end FxVerif.Proofs.C03Addr
