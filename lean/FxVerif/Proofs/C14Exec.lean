import FxVerif.Proofs.C14
import FxVerif.Proofs.C14Bank
import FxVerif.Proofs.C14Queue
/-! helper lemmas for C14: what `DistrStakingMigrate.Execute` (model: `stakingExecute`) does to each store, as a fold over
the records of the source -/
namespace FxVerif.Proofs.C14
open FxVerif.Model.C14

/-! ### generic index fold: for every record moved, drop `mk x from`, add `mk x to` -/
section idxG
variable {β ν κ : Type} [DecidableEq β] [BEq κ] [LawfulBEq κ]

def idxStepG (mk : β → Addr → κ) (frm to : Addr) (i : List κ) (p : (Addr × β) × ν) : List κ :=
  ins (rem i (mk p.1.2 frm)) (mk p.1.2 to)

theorem idxG_fold_mem (mk : β → Addr → κ) (hinj : ∀ x a y b, mk x a = mk y b → x = y ∧ a = b)
    (frm to : Addr) (L : List ((Addr × β) × ν)) (i : List κ) (x : β) (a : Addr) :
    mk x a ∈ L.foldl (idxStepG mk frm to) i ↔
      if ∃ p ∈ L, p.1.2 = x then (a = to ∨ (a ≠ frm ∧ mk x a ∈ i)) else mk x a ∈ i := by
  induction L generalizing i with
  | nil => simp
  | cons p L ih =>
    simp only [List.foldl_cons]
    rw [ih]
    have hstep : mk x a ∈ idxStepG mk frm to i p ↔
        (x = p.1.2 ∧ a = to) ∨ (¬ (x = p.1.2 ∧ a = frm) ∧ mk x a ∈ i) := by
      simp only [idxStepG, mem_ins, mem_rem]
      constructor
      · rintro (h | ⟨h1, h2⟩)
        · exact Or.inl (hinj _ _ _ _ h)
        · exact Or.inr ⟨fun e => h1 (by rw [e.1, e.2]), h2⟩
      · rintro (⟨h1, h2⟩ | ⟨h1, h2⟩)
        · exact Or.inl (by rw [h1, h2])
        · exact Or.inr ⟨fun e => h1 (hinj _ _ _ _ e), h2⟩
    rw [hstep]
    by_cases hp : p.1.2 = x
    · have hex : ∃ q ∈ p :: L, q.1.2 = x := ⟨p, List.mem_cons_self .., hp⟩
      rw [if_pos hex]
      have hxp : x = p.1.2 := hp.symm
      by_cases hL : ∃ q ∈ L, q.1.2 = x
      · rw [if_pos hL]
        constructor
        · rintro (h | ⟨h1, h2 | ⟨_, h4⟩⟩)
          · exact Or.inl h
          · exact Or.inl h2.2
          · exact Or.inr ⟨h1, h4⟩
        · rintro (h | ⟨h1, h2⟩)
          · exact Or.inl h
          · exact Or.inr ⟨h1, Or.inr ⟨fun e => h1 e.2, h2⟩⟩
      · rw [if_neg hL]
        constructor
        · rintro (h | ⟨h1, h2⟩)
          · exact Or.inl h.2
          · exact Or.inr ⟨fun e => h1 ⟨hxp, e⟩, h2⟩
        · rintro (h | ⟨h1, h2⟩)
          · exact Or.inl ⟨hxp, h⟩
          · exact Or.inr ⟨fun e => h1 e.2, h2⟩
    · have hxp : ¬ x = p.1.2 := fun e => hp e.symm
      by_cases hL : ∃ q ∈ L, q.1.2 = x
      · have hex : ∃ q ∈ p :: L, q.1.2 = x := by
          obtain ⟨q, hq, e⟩ := hL; exact ⟨q, List.mem_cons_of_mem _ hq, e⟩
        rw [if_pos hL, if_pos hex]
        constructor
        · rintro (h | ⟨h1, h2 | ⟨_, h4⟩⟩)
          · exact Or.inl h
          · exact absurd h2.1 hxp
          · exact Or.inr ⟨h1, h4⟩
        · rintro (h | ⟨h1, h2⟩)
          · exact Or.inl h
          · exact Or.inr ⟨h1, Or.inr ⟨fun e => hxp e.1, h2⟩⟩
      · have hex : ¬ ∃ q ∈ p :: L, q.1.2 = x := by
          rintro ⟨q, hq, e⟩
          rcases List.mem_cons.mp hq with rfl | hq'
          · exact hp e
          · exact hL ⟨q, hq', e⟩
        rw [if_neg hL, if_neg hex]
        constructor
        · rintro (h | ⟨_, h2⟩)
          · exact absurd h.1 hxp
          · exact h2
        · intro h
          exact Or.inr ⟨fun e => hxp e.1, h⟩

/-- consequence used for every index: afterwards no entry of the source, and every record of the target indexed -/
theorem idxG_after (mk : β → Addr → κ) (hinj : ∀ x a y b, mk x a = mk y b → x = y ∧ a = b)
    [BEq β] [LawfulBEq β] [BEq ν] [LawfulBEq ν] (frm to : Addr) (hne : frm ≠ to) (m : Store (Addr × β) ν) (i : List κ)
    (hidx : ∀ x, mk x frm ∈ i → ∃ y, get m (frm, x) = some y) :
    (∀ x, mk x frm ∉ (entriesOf m frm).foldl (idxStepG mk frm to) i) ∧
    (∀ x y, get m (frm, x) = some y → mk x to ∈ (entriesOf m frm).foldl (idxStepG mk frm to) i) ∧
    (∀ x a, a ≠ frm → a ≠ to → (mk x a ∈ (entriesOf m frm).foldl (idxStepG mk frm to) i ↔ mk x a ∈ i)) := by
  refine ⟨fun x hm => ?_, fun x y hg => ?_, fun x a h1 h2 => ?_⟩
  · rw [idxG_fold_mem mk hinj frm to] at hm
    split at hm
    · rcases hm with e | ⟨e, _⟩
      · exact hne e
      · exact e rfl
    · rename_i hno
      obtain ⟨y, hy⟩ := hidx x hm
      exact hno (entriesOf_of_get m frm x y hy)
  · rw [idxG_fold_mem mk hinj frm to]
    rw [if_pos (entriesOf_of_get m frm x y hg)]
    exact Or.inl rfl
  · rw [idxG_fold_mem mk hinj frm to]
    split
    · constructor
      · rintro (e | ⟨_, h⟩)
        · exact absurd e h2
        · exact h
      · exact fun h => Or.inr ⟨h1, h⟩
    · rfl

end idxG

/-! ### components of `stakingExecute` -/

theorem moveDelegation_bal (c : Cfg) (frm to : Addr) (s : State) (p) : (moveDelegation c frm to s p).bal = s.bal := rfl
theorem moveUbd_bal (c : Cfg) (frm to : Addr) (s : State) (p) : (moveUbd c frm to s p).bal = s.bal := by
  unfold moveUbd; exact (foldl_keep (fun s : State => s.bal) _ (by intros; rfl) _ _).trans (foldl_keep (fun s : State => s.bal) _ (by intros; rfl) _ _)
theorem moveRed_bal (c : Cfg) (frm to : Addr) (s : State) (p) : (moveRed c frm to s p).bal = s.bal := by
  unfold moveRed; exact (foldl_keep (fun s : State => s.bal) _ (by intros; rfl) _ _).trans (foldl_keep (fun s : State => s.bal) _ (by intros; rfl) _ _)

theorem exec_bal (c : Cfg) (s : State) (frm to : Addr) : (stakingExecute c s frm to).bal = s.bal := by
  unfold stakingExecute
  refine (foldl_keep (fun s : State => s.bal) _ (moveRed_bal c frm to) _ _).trans ?_
  refine (foldl_keep (fun s : State => s.bal) _ (moveUbd_bal c frm to) _ _).trans ?_
  exact foldl_keep (fun s : State => s.bal) _ (moveDelegation_bal c frm to) _ _

/-- the three loops of `Execute` -/
def exec1 (c : Cfg) (s : State) (frm to : Addr) : State :=
  ((visible s.dels).filter (fun p => p.1.1 == frm)).foldl (moveDelegation c frm to) s
def exec2 (c : Cfg) (s : State) (frm to : Addr) : State :=
  ((visible (exec1 c s frm to).ubds).filter (fun p => p.1.1 == frm)).foldl (moveUbd c frm to) (exec1 c s frm to)

theorem stakingExecute_eq (c : Cfg) (s : State) (frm to : Addr) :
    stakingExecute c s frm to =
      ((visible (exec2 c s frm to).reds).filter (fun p => p.1.1 == frm)).foldl (moveRed c frm to) (exec2 c s frm to) := rfl

theorem exec1_keep {α : Type} (g : State → α) (c : Cfg) (s : State) (frm to : Addr)
    (h : ∀ s p, g (moveDelegation c frm to s p) = g s) : g (exec1 c s frm to) = g s :=
  foldl_keep g _ h _ _

theorem exec2_keep {α : Type} (g : State → α) (c : Cfg) (s : State) (frm to : Addr)
    (h1 : ∀ s p, g (moveDelegation c frm to s p) = g s) (h2 : ∀ s p, g (moveUbd c frm to s p) = g s) :
    g (exec2 c s frm to) = g s :=
  (foldl_keep g _ h2 _ _).trans (exec1_keep g c s frm to h1)

/-! #### redelegation records and their two by-validator indexes -/

theorem moveRed_reds (c : Cfg) (frm to : Addr) (s : State) (p) :
    (moveRed c frm to s p).reds = rekeyStep frm to s.reds p := by
  unfold moveRed; exact (foldl_keep (fun s : State => s.reds) _ (by intros; rfl) _ _).trans (foldl_keep (fun s : State => s.reds) _ (by intros; rfl) _ _)

theorem moveUbd_keep {α : Type} (g : State → α) (c : Cfg) (frm to : Addr)
    (hg : ∀ (s : State) u i q n, g { s with ubds := u, ubdIdx := i, ubdQ := q, unbId := n } = g s) (s : State) (p) :
    g (moveUbd c frm to s p) = g s := by
  unfold moveUbd
  refine (foldl_keep g _ (fun s e => ?_) _ _).trans ((foldl_keep g _ (fun s e => ?_) _ _).trans ?_)
  · exact hg s s.ubds s.ubdIdx _ s.unbId
  · exact hg s s.ubds s.ubdIdx s.ubdQ _
  · exact hg s _ _ s.ubdQ s.unbId

theorem exec2_reds (c : Cfg) (s : State) (frm to : Addr) : (exec2 c s frm to).reds = s.reds :=
  exec2_keep (fun s => s.reds) c s frm to (fun _ _ => rfl) (moveUbd_keep _ c frm to (fun _ _ _ _ _ => rfl))
theorem exec2_redSrcIdx (c : Cfg) (s : State) (frm to : Addr) : (exec2 c s frm to).redSrcIdx = s.redSrcIdx :=
  exec2_keep (fun s => s.redSrcIdx) c s frm to (fun _ _ => rfl) (moveUbd_keep _ c frm to (fun _ _ _ _ _ => rfl))
theorem exec2_redDstIdx (c : Cfg) (s : State) (frm to : Addr) : (exec2 c s frm to).redDstIdx = s.redDstIdx :=
  exec2_keep (fun s => s.redDstIdx) c s frm to (fun _ _ => rfl) (moveUbd_keep _ c frm to (fun _ _ _ _ _ => rfl))
theorem exec2_redQ (c : Cfg) (s : State) (frm to : Addr) : (exec2 c s frm to).redQ = s.redQ :=
  exec2_keep (fun s => s.redQ) c s frm to (fun _ _ => rfl) (moveUbd_keep _ c frm to (fun _ _ _ _ _ => rfl))

theorem exec_reds (c : Cfg) (s : State) (frm to : Addr) :
    (stakingExecute c s frm to).reds = (entriesOf s.reds frm).foldl (rekeyStep frm to) s.reds := by
  rw [stakingExecute_eq]
  refine (foldl_proj (fun s : State => s.reds) (moveRed c frm to) (rekeyStep frm to) (moveRed_reds c frm to) _ _).trans ?_
  rw [exec2_reds]; rfl

def mkSrc (x : Val × Val) (a : Addr) : Val × Addr × Val := (x.1, a, x.2)
def mkDst (x : Val × Val) (a : Addr) : Val × Addr × Val := (x.2, a, x.1)

theorem mkSrc_inj (x : Val × Val) (a : Addr) (y : Val × Val) (b : Addr) (h : mkSrc x a = mkSrc y b) : x = y ∧ a = b := by
  obtain ⟨x1, x2⟩ := x; obtain ⟨y1, y2⟩ := y
  simp only [mkSrc, Prod.mk.injEq] at h
  exact ⟨by rw [h.1, h.2.2], h.2.1⟩
theorem mkDst_inj (x : Val × Val) (a : Addr) (y : Val × Val) (b : Addr) (h : mkDst x a = mkDst y b) : x = y ∧ a = b := by
  obtain ⟨x1, x2⟩ := x; obtain ⟨y1, y2⟩ := y
  simp only [mkDst, Prod.mk.injEq] at h
  exact ⟨by rw [h.1, h.2.2], h.2.1⟩

theorem moveRed_redSrcIdx (c : Cfg) (frm to : Addr) (s : State) (p) :
    (moveRed c frm to s p).redSrcIdx = idxStepG mkSrc frm to s.redSrcIdx p := by
  unfold moveRed; exact (foldl_keep (fun s : State => s.redSrcIdx) _ (by intros; rfl) _ _).trans (foldl_keep (fun s : State => s.redSrcIdx) _ (by intros; rfl) _ _)
theorem moveRed_redDstIdx (c : Cfg) (frm to : Addr) (s : State) (p) :
    (moveRed c frm to s p).redDstIdx = idxStepG mkDst frm to s.redDstIdx p := by
  unfold moveRed; exact (foldl_keep (fun s : State => s.redDstIdx) _ (by intros; rfl) _ _).trans (foldl_keep (fun s : State => s.redDstIdx) _ (by intros; rfl) _ _)

theorem exec_redSrcIdx (c : Cfg) (s : State) (frm to : Addr) :
    (stakingExecute c s frm to).redSrcIdx = (entriesOf s.reds frm).foldl (idxStepG mkSrc frm to) s.redSrcIdx := by
  rw [stakingExecute_eq]
  refine (foldl_proj (fun s : State => s.redSrcIdx) (moveRed c frm to) _ (moveRed_redSrcIdx c frm to) _ _).trans ?_
  rw [exec2_reds, exec2_redSrcIdx]; rfl
theorem exec_redDstIdx (c : Cfg) (s : State) (frm to : Addr) :
    (stakingExecute c s frm to).redDstIdx = (entriesOf s.reds frm).foldl (idxStepG mkDst frm to) s.redDstIdx := by
  rw [stakingExecute_eq]
  refine (foldl_proj (fun s : State => s.redDstIdx) (moveRed c frm to) _ (moveRed_redDstIdx c frm to) _ _).trans ?_
  rw [exec2_reds, exec2_redDstIdx]; rfl

/-! #### time-queue slices -/

theorem moveUbd_ubdQ (c : Cfg) (h1 : c.qEveryEntry = true) (h2 : c.qByDelegator = true) (frm to : Addr) (s : State) (p) :
    (moveUbd c frm to s p).ubdQ = (p.2.map (·.1)).foldl (qStep frm to) s.ubdQ := by
  unfold moveUbd qEntries
  rw [List.foldl_map, h1]
  simp only [h2, ↓reduceIte]
  refine (foldl_proj (fun s : State => s.ubdQ) _ (fun q (e : Time × Nat × Nat) => qStep frm to q e.1) (fun _ _ => rfl) _ _).trans ?_
  congr 1
  exact foldl_keep (fun s : State => s.ubdQ) _ (by intros; rfl) _ _

theorem moveRed_redQ (c : Cfg) (h1 : c.qEveryEntry = true) (h2 : c.qByDelegator = true) (frm to : Addr) (s : State) (p) :
    (moveRed c frm to s p).redQ = (p.2.map (·.1)).foldl (qStep frm to) s.redQ := by
  unfold moveRed qEntries
  rw [List.foldl_map, h1]
  simp only [h2, ↓reduceIte]
  refine (foldl_proj (fun s : State => s.redQ) _ (fun q (e : Time × Nat × Nat) => qStep frm to q e.1) (fun _ _ => rfl) _ _).trans ?_
  congr 1
  exact foldl_keep (fun s : State => s.redQ) _ (by intros; rfl) _ _

theorem moveRed_ubdQ (c : Cfg) (frm to : Addr) (s : State) (p) : (moveRed c frm to s p).ubdQ = s.ubdQ := by
  unfold moveRed; exact (foldl_keep (fun s : State => s.ubdQ) _ (by intros; rfl) _ _).trans (foldl_keep (fun s : State => s.ubdQ) _ (by intros; rfl) _ _)

theorem exec_ubdQ (c : Cfg) (hq1 : c.qEveryEntry = true) (hq2 : c.qByDelegator = true) (s : State) (frm to : Addr) :
    (stakingExecute c s frm to).ubdQ = (entryTimes s.ubds frm).foldl (qStep frm to) s.ubdQ := by
  rw [stakingExecute_eq]
  refine (foldl_keep (fun s : State => s.ubdQ) _ (moveRed_ubdQ c frm to) _ _).trans ?_
  unfold exec2
  refine (foldl_proj (fun s : State => s.ubdQ) (moveUbd c frm to)
    (fun q p => (p.2.map (·.1)).foldl (qStep frm to) q) (moveUbd_ubdQ c hq1 hq2 frm to) _ _).trans ?_
  rw [foldl_flatMap (qStep frm to) (fun p : (Addr × Val) × List (Time × Nat × Nat) => p.2.map (·.1))]
  have h1 : (exec1 c s frm to).ubds = s.ubds := exec1_keep (fun s => s.ubds) c s frm to (fun _ _ => rfl)
  have h2 : (exec1 c s frm to).ubdQ = s.ubdQ := exec1_keep (fun s => s.ubdQ) c s frm to (fun _ _ => rfl)
  rw [h1, h2]; rfl

theorem exec_redQ (c : Cfg) (hq1 : c.qEveryEntry = true) (hq2 : c.qByDelegator = true) (s : State) (frm to : Addr) :
    (stakingExecute c s frm to).redQ = (entryTimes s.reds frm).foldl (qStep frm to) s.redQ := by
  rw [stakingExecute_eq]
  refine (foldl_proj (fun s : State => s.redQ) (moveRed c frm to)
    (fun q p => (p.2.map (·.1)).foldl (qStep frm to) q) (moveRed_redQ c hq1 hq2 frm to) _ _).trans ?_
  rw [foldl_flatMap (qStep frm to) (fun p : (Addr × Val × Val) × List (Time × Nat × Nat) => p.2.map (·.1))]
  rw [exec2_reds, exec2_redQ]; rfl

/-! #### distribution starting info (reward entitlement) -/

/-- the starting-info component of the delegation loop: the value stored under (validator, from), if any, is moved
under (validator, to); the key of the source is deleted either way -/
def siStep (frm to : Addr) (si : Store (Val × Addr) (Nat × Nat)) (p : (Addr × Val) × Nat) : Store (Val × Addr) (Nat × Nat) :=
  match get si (p.1.2, frm) with
  | some x => put (del si (p.1.2, frm)) (p.1.2, to) x
  | none => del si (p.1.2, frm)

theorem moveDelegation_startInfo (c : Cfg) (frm to : Addr) (s : State) (p) :
    (moveDelegation c frm to s p).startInfo = siStep frm to s.startInfo p := rfl

theorem get_siStep (frm to : Addr) (hne : frm ≠ to) (si : Store (Val × Addr) (Nat × Nat)) (p : (Addr × Val) × Nat)
    (v : Val) (a : Addr) :
    get (siStep frm to si p) (v, a) =
      if v = p.1.2 then
        (if a = frm then none else if a = to then (get si (v, frm) <|> get si (v, to)) else get si (v, a))
      else get si (v, a) := by
  unfold siStep
  by_cases hv : v = p.1.2
  · subst hv
    rw [if_pos rfl]
    cases hg : get si (p.1.2, frm) with
    | none =>
      simp only
      by_cases h1 : a = frm
      · subst h1; rw [if_pos rfl, get_del_eq]
      · rw [if_neg h1, get_del_ne _ _ _ (by intro e; cases e; exact h1 rfl)]
        by_cases h2 : a = to
        · subst h2; simp
        · simp [h2]
    | some x =>
      simp only
      by_cases h2 : a = to
      · subst h2
        rw [get_put_eq, if_neg (fun e => hne e.symm), if_pos rfl]; rfl
      · rw [get_put_ne _ _ _ _ (by intro e; cases e; exact h2 rfl)]
        by_cases h1 : a = frm
        · subst h1; rw [if_pos rfl, get_del_eq]
        · rw [if_neg h1, if_neg h2, get_del_ne _ _ _ (by intro e; cases e; exact h1 rfl)]
  · rw [if_neg hv]
    have hk : ∀ b, (v, a) ≠ (p.1.2, b) := fun b e => by cases e; exact hv rfl
    cases hg : get si (p.1.2, frm) with
    | none => simp only; rw [get_del_ne _ _ _ (hk _)]
    | some x => simp only; rw [get_put_ne _ _ _ _ (hk _), get_del_ne _ _ _ (hk _)]

theorem get_siFold (frm to : Addr) (hne : frm ≠ to) (L : List ((Addr × Val) × Nat)) (si : Store (Val × Addr) (Nat × Nat))
    (v : Val) (a : Addr) :
    get (L.foldl (siStep frm to) si) (v, a) =
      if ∃ p ∈ L, p.1.2 = v then
        (if a = frm then none else if a = to then (get si (v, frm) <|> get si (v, to)) else get si (v, a))
      else get si (v, a) := by
  induction L generalizing si with
  | nil => simp
  | cons p L ih =>
    simp only [List.foldl_cons]
    rw [ih]
    by_cases hp : p.1.2 = v
    · have hex : ∃ q ∈ p :: L, q.1.2 = v := ⟨p, List.mem_cons_self .., hp⟩
      rw [if_pos hex]
      have hv : v = p.1.2 := hp.symm
      simp only [get_siStep frm to hne, if_pos hv, if_neg (fun e : to = frm => hne e.symm)]
      split
      · by_cases h1 : a = frm
        · simp [h1]
        · by_cases h2 : a = to
          · subst h2; simp [h1]
          · simp [h1, h2]
      · rfl
    · have hv : ¬ v = p.1.2 := fun e => hp e.symm
      simp only [get_siStep frm to hne, if_neg hv]
      by_cases hL : ∃ q ∈ L, q.1.2 = v
      · have hex : ∃ q ∈ p :: L, q.1.2 = v := by
          obtain ⟨q, hq, e⟩ := hL; exact ⟨q, List.mem_cons_of_mem _ hq, e⟩
        rw [if_pos hL, if_pos hex]
      · have hex : ¬ ∃ q ∈ p :: L, q.1.2 = v := by
          rintro ⟨q, hq, e⟩
          rcases List.mem_cons.mp hq with rfl | hq'
          · exact hp e
          · exact hL ⟨q, hq', e⟩
        rw [if_neg hL, if_neg hex]

theorem exec_startInfo (c : Cfg) (s : State) (frm to : Addr) :
    (stakingExecute c s frm to).startInfo = (entriesOf s.dels frm).foldl (siStep frm to) s.startInfo := by
  rw [stakingExecute_eq]
  refine (foldl_keep (fun s : State => s.startInfo) _ (fun s p => by
    unfold moveRed; exact (foldl_keep (fun s : State => s.startInfo) _ (by intros; rfl) _ _).trans (foldl_keep (fun s : State => s.startInfo) _ (by intros; rfl) _ _)) _ _).trans ?_
  unfold exec2
  refine (foldl_keep (fun s : State => s.startInfo) _ (moveUbd_keep _ c frm to (fun _ _ _ _ _ => rfl)) _ _).trans ?_
  exact foldl_proj (fun s : State => s.startInfo) (moveDelegation c frm to) (siStep frm to) (fun _ _ => rfl) _ _

/-! #### a measure of the records of an account, before and after a rekeying -/

theorem moved_measure {β ν : Type} [BEq β] [LawfulBEq β] (m m' : Store (Addr × β) ν) (frm to : Addr) (hne : frm ≠ to)
    (hto : ∀ p ∈ m, p.1.1 ≠ to)
    (hspec : ∀ d x, get m' (d, x) = if d = to then get m (frm, x) else if d = frm then none else get m (d, x))
    (μ : Option ν → Nat) (h0 : μ none = 0) (x : β) (a : Addr) :
    μ (get m' (a, x)) = if a = to then μ (get m (to, x)) + μ (get m (frm, x)) else if a = frm then 0
      else μ (get m (a, x)) := by
  rw [hspec]
  have hnone : get m (to, x) = none := get_none_of_no_key m _ (fun p hp e => hto p hp (by rw [e]))
  by_cases h2 : a = to
  · subst h2; simp [hnone, h0]
  · by_cases h1 : a = frm
    · subst h1; simp [h2, h0]
    · simp [h1, h2]

end FxVerif.Proofs.C14
