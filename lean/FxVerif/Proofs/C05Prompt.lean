import FxVerif.Proofs.C05Orig
/-!
The known defect, delimited over whole histories: a bridge call whose successful execution has been observed is refunded
only if its result claim is still *pending* when a later observation reaches the timeout.  If every observed result has
been applied (`ExecuteClaim`) before the next event is observed (`PromptRun`), and the events are admissible, no bridge
call is ever both observed as executed and refunded.
-/

namespace FxVerif.Proofs.C05
open FxVerif.Gen.C05 FxVerif.Model.C05 FxVerif.Proofs.C06 List

structure K (s : State) (x : Ext) : Prop where
  /-- no refunded bridge call has an observed success -/
  k1 : ∀ e ∈ s.settled, e.isCall = true → e.how = .refunded → e.id ∉ s.obsSuccess
  /-- a stored bridge call with an observed success has its result pending -/
  k2 : ∀ c ∈ s.calls, c.nonce ∈ s.obsSuccess → ∃ n, (n, c.nonce, true) ∈ s.pending
  k3 : ∀ p ∈ s.pending, p.2.2 = false → p.2.1 ∉ s.obsSuccess
  k4 : ∀ n ∈ s.obsSuccess, n ∈ x.callDone
  k6 : ∀ n ∈ s.obsSuccess, n < s.nextCallId

theorem K_init {s : State} (h : IsInit s) : K s {} := by
  obtain ⟨_, _, _, _, _, h6, h7, h8, h9, _⟩ := h
  refine ⟨?_, ?_, ?_, ?_, ?_⟩
  · rw [h8]; intro e he; cases he
  · rw [h6]; intro c hc; cases hc
  · rw [h7]; intro p hp; cases hp
  · rw [h9]; intro n hn; cases hn
  · rw [h9]; intro n hn; cases hn

theorem K_frame {s s' : State} {x x' : Ext} (hk : K s x) (hc : s'.calls = s.calls) (hp : s'.pending = s.pending)
    (ho : s'.obsSuccess = s.obsSuccess) (hn : s.nextCallId ≤ s'.nextCallId) (hd : x'.callDone = x.callDone)
    (hs : ∀ e ∈ s'.settled, e ∈ s.settled ∨ e.isCall = false) : K s' x' := by
  refine ⟨fun e he hcall hh => ?_, by rw [hc, ho, hp]; exact hk.k2, by rw [hp, ho]; exact hk.k3,
    by rw [ho, hd]; exact hk.k4, fun n hn' => by rw [ho] at hn'; have := hk.k6 n hn'; omega⟩
  rw [ho]
  rcases hs e he with h1 | h1
  · exact hk.k1 e h1 hcall hh
  · rw [hcall] at h1; cases h1

theorem calls_nodup {s : State} (hi : Inv s) : (s.calls.map (·.nonce)).Nodup := by
  have nd : (allCallIds s).Nodup := hi.call.nodup_iff.mpr nodup_range'
  simp only [allCallIds, callIds, nodup_append] at nd
  exact nd.1

theorem call_not_settled {s : State} (hi : Inv s) {c : Call} (hc : c ∈ s.calls) :
    ∀ e ∈ s.settled, e.isCall = true → e.id ≠ c.nonce := by
  have nd : (allCallIds s).Nodup := hi.call.nodup_iff.mpr nodup_range'
  simp only [allCallIds, callIds, nodup_append] at nd
  intro e he hcall hid
  refine nd.2.2 c.nonce (mem_map_of_mem hc) e.id ?_ hid.symm
  simp only [settledCallIds, mem_map, mem_filter]
  exact ⟨e, ⟨he, hcall⟩, rfl⟩

theorem cleanup_obsSuccess (z : State) : (cleanupCalls (cleanupBatches z)).obsSuccess = z.obsSuccess := by
  obtain ⟨fm, er, hfm⟩ := cleanupCalls_core (cleanupBatches z)
  rw [hfm]
  unfold cleanupCallsCore
  simp only [foldl_refundCall_obsSuccess]
  rfl

/-- what the two clean-ups append to the log: refunds of stored bridge calls whose timeout the observed height reached -/
theorem cleanup_settled_calls (z : State) :
    ∀ e ∈ (cleanupCalls (cleanupBatches z)).settled, e ∈ z.settled ∨
      ∃ c ∈ z.calls, c.timeout ≤ z.obsExt ∧ e = ⟨true, c.nonce, .refunded, c.refund, c.tokens⟩ := by
  have e2 : callCleanupSrc = .observedExternal := by decide
  have h1 : callCleanupStopCmp = .gt := by decide
  have h2 : callCleanupStops = true := by decide
  rw [cleanupCalls_settled]
  have hb : (cleanupBatches z).settled = z.settled := by simp [cleanupBatches, cancelBatches]
  have hcl : (cleanupBatches z).calls = z.calls := by simp [cleanupBatches, cancelBatches]
  have hh : heightOf callCleanupSrc (cleanupBatches z) = z.obsExt := by rw [e2]; rfl
  rw [hb, hcl, hh]
  intro e he
  simp only [mem_append, mem_map] at he
  rcases he with he | ⟨c, hc, rfl⟩
  · exact Or.inl he
  · right
    have e : (fun c : Call => !callStops z.obsExt c) = (fun c => decide (c.timeout ≤ z.obsExt)) := by
      funext c; simp only [callStops, h1, Cmp.eval]; exact not_lt_decide _ _
    simp only [expiredCalls, h2, if_true, e] at hc
    refine ⟨c, (takeWhile_sublist _).subset hc, ?_, by simp⟩
    simpa using mem_takeWhile_true _ _ _ hc

theorem observe_cases (s : State) (h : Nat) (ev : Ev) :
    (handleEvent { s with eventNonce := s.eventNonce + 1, obsExt := h, obsFx := s.fxHeight } ev = none ∧
      doObserve s h ev = (s, .panic)) ∨
    ∃ s2, handleEvent { s with eventNonce := s.eventNonce + 1, obsExt := h, obsFx := s.fxHeight } ev = some s2 ∧
      doObserve s h ev = (cleanupCalls (cleanupBatches s2), .ok (s.eventNonce + 1)) := by
  rw [doObserve_eq]
  unfold doObserveStd
  simp only
  cases hh : handleEvent { s with eventNonce := s.eventNonce + 1, obsExt := h, obsFx := s.fxHeight } ev with
  | none => left; exact ⟨rfl, rfl⟩
  | some s2 => right; exact ⟨s2, rfl, rfl⟩

/-- the clean-ups keep `K` provided no stored call that has timed out has an observed success -/
theorem K_cleanup {z : State} {x : Ext} (hk : K z x)
    (hq : ∀ c ∈ z.calls, c.timeout ≤ z.obsExt → c.nonce ∉ z.obsSuccess) : K (cleanupCalls (cleanupBatches z)) x := by
  obtain ⟨_, f2, f3, _, _, f6⟩ := cleanup_fields z
  have fo := cleanup_obsSuccess z
  refine ⟨fun e he hc hh => ?_, fun c hc hn => ?_, by rw [f3, fo]; exact hk.k3, by rw [fo]; exact hk.k4,
    by rw [fo, f6]; exact hk.k6⟩
  · rw [fo]
    rcases cleanup_settled_calls z e he with h1 | ⟨c, hcm, hto, rfl⟩
    · exact hk.k1 e h1 hc hh
    · exact hq c hcm hto
  · rw [f2] at hc
    rw [fo] at hn
    rw [f3]
    exact hk.k2 c ((dropWhile_sublist _).subset hc) hn

theorem K_observe {s : State} {x : Ext} (hk : K s x) (hj : J s x) (hi : Inv s) (h : Nat) (ev : Ev)
    (ha : admissibleStd x (.observe h ev)) (hp : s.pending = []) :
    K (doObserve s h ev).1 (x.nextStd s (.observe h ev)) := by
  have hs3 : solCallTimeoutCmp = .lt := by decide
  have hs4 : solCallNonceOnce = true := by decide
  have hnopanic := (J_observe hj h ev ha).2
  have hnone : ∀ c ∈ s.calls, c.nonce ∉ s.obsSuccess := by
    intro c hc hn
    obtain ⟨n, hn'⟩ := hk.k2 c hc hn
    rw [hp] at hn'; cases hn'
  rcases observe_cases s h ev with ⟨_, hpanic⟩ | ⟨s2, hh, hfin⟩
  · rw [hpanic] at hnopanic; exact absurd rfl hnopanic
  · rw [hfin]
    cases ev with
    | other =>
      cases hh
      exact K_cleanup (K_frame hk rfl rfl rfl (Nat.le_refl _) rfl (fun e he => Or.inl he)) (fun c hc _ => hnone c hc)
    | batch t n =>
      simp only [handleEvent] at hh
      split at hh
      · cases hh
      · cases hh
        refine K_cleanup (K_frame hk ?_ ?_ ?_ (Nat.le_refl _) rfl (fun e he => ?_)) (fun c hc _ => ?_)
        · simp [executeBatch, cancelBatches]
        · simp [executeBatch, cancelBatches]
        · simp [executeBatch, cancelBatches]
        · simp only [executeBatch, cancelBatches, mem_append, mem_map] at he
          rcases he with he | ⟨tx, _, rfl⟩
          · exact Or.inl he
          · exact Or.inr rfl
        · have hc' : c ∈ s.calls := by simpa [executeBatch, cancelBatches] using hc
          have := hnone c hc'
          simpa [executeBatch, cancelBatches] using this
    | result c ok =>
      cases hh
      obtain ⟨hhe, cl, hcl, hcn, hdone, htime⟩ := ha
      simp only [hs3, Cmp.eval, decide_eq_true_eq] at htime
      have hdone' : c ∉ x.callDone := hdone hs4
      have hclm : cl ∈ s.calls := hj.calls cl hcl (by rw [hcn]; exact hdone') (by omega)
      have hcobs : c ∉ s.obsSuccess := fun hn => hdone' (hk.k4 c hn)
      have hclt : c < s.nextCallId := by
        have : cl.nonce ∈ range' 1 (s.nextCallId - 1) := by rw [← hj.cnonces]; exact mem_map_of_mem hcl
        simp only [mem_range'_1] at this
        have := hj.cpos
        omega
      refine K_cleanup ?_ ?_
      · refine ⟨fun e he hc hh => ?_, fun c'' hc'' hn => ?_, fun p hp' hf => ?_, fun n hn => ?_, fun n hn => ?_⟩
        · simp only at he ⊢
          have h1 := hk.k1 e he hc hh
          cases ok with
          | false => simpa using h1
          | true =>
            simp only [if_true, mem_append, mem_singleton, not_or]
            exact ⟨h1, fun hid => call_not_settled hi hclm e he hc (by rw [hid, hcn])⟩
        · simp only at hc'' hn ⊢
          cases ok with
          | false => exact absurd (by simpa using hn) (hnone c'' hc'')
          | true =>
            simp only [if_true, mem_append, mem_singleton] at hn
            rcases hn with hn | hn
            · exact absurd hn (hnone c'' hc'')
            · exact ⟨s.eventNonce + 1, by rw [hn, hp]; simp⟩
        · simp only [hp, nil_append, mem_singleton] at hp'
          subst hp'
          simp only at hf ⊢
          subst hf
          simpa using hcobs
        · simp only [Ext.nextStd]
          simp only at hn
          cases ok with
          | false => exact mem_cons_of_mem _ (hk.k4 n (by simpa using hn))
          | true =>
            simp only [if_true, mem_append, mem_singleton] at hn
            rcases hn with hn | rfl
            · exact mem_cons_of_mem _ (hk.k4 n hn)
            · exact mem_cons_self
        · simp only at hn ⊢
          cases ok with
          | false => exact hk.k6 n (by simpa using hn)
          | true =>
            simp only [if_true, mem_append, mem_singleton] at hn
            rcases hn with hn | rfl
            · exact hk.k6 n hn
            · exact hclt
      · intro c'' hc'' hto
        simp only at hc'' hto ⊢
        have hne : c''.nonce ≠ c := by
          intro he
          have : c'' = cl := nodup_map_inj (fun c : Call => c.nonce) _ (calls_nodup hi) c'' hc'' cl hclm (by rw [he, hcn])
          rw [this] at hto
          omega
        cases ok with
        | false => simpa using hnone c'' hc''
        | true =>
          simp only [if_true, mem_append, mem_singleton, not_or]
          exact ⟨hnone c'' hc'', hne⟩

theorem K_exec {s : State} {x : Ext} (hk : K s x) (hi : Inv s) (n : Nat) : K (doExec s n).1 x := by
  rw [doExec_eq]
  unfold doExecStd
  split
  · exact hk
  · rename_i p hp
    have hpm : p ∈ s.pending := mem_of_find?_eq_some hp
    split
    · exact hk
    · rename_i c hf
      have hcm : c ∈ s.calls := mem_of_find?_eq_some hf
      have hcn : c.nonce = p.2.1 := by simpa using find?_some hf
      have hnd : s.calls.Nodup :=
        Pairwise.of_map (fun c : Call => c.nonce) (fun a b h he => h (by rw [he])) (calls_nodup hi)
      have hk2 : ∀ c' ∈ s.calls.erase c, c'.nonce ∈ s.obsSuccess → ∃ n', (n', c'.nonce, true) ∈ s.pending.erase p := by
        intro c' hc' hn'
        obtain ⟨n', hn''⟩ := hk.k2 c' (mem_of_mem_erase hc') hn'
        refine ⟨n', (mem_erase_of_ne ?_).mpr hn''⟩
        intro he
        have hnonce : c'.nonce = c.nonce := by rw [hcn, ← he]
        have : c' = c := nodup_map_inj (fun c : Call => c.nonce) _ (calls_nodup hi) c' (mem_of_mem_erase hc') c hcm hnonce
        rw [this] at hc'
        exact (hnd.mem_erase_iff.mp hc').1 rfl
      have hk3 : ∀ q ∈ s.pending.erase p, q.2.2 = false → q.2.1 ∉ s.obsSuccess :=
        fun q hq => hk.k3 q (mem_of_mem_erase hq)
      simp only
      split
      · refine ⟨fun e he hc hh => ?_, hk2, hk3, hk.k4, hk.k6⟩
        simp only [dropFromMsg, mem_append, mem_singleton] at he
        rcases he with he | rfl
        · exact hk.k1 e he hc hh
        · cases hh
      · rename_i hok
        refine ⟨fun e he hc hh => ?_, hk2, hk3, hk.k4, hk.k6⟩
        simp only [refundCall, dropFromMsg, mem_append, mem_singleton] at he
        rcases he with he | rfl
        · exact hk.k1 e he hc hh
        · simp only
          rw [hcn]
          exact hk.k3 p hpm (by simpa using hok)

theorem K_step {s : State} {x : Ext} (hk : K s x) (hj : J s x) (hi : Inv s) (op : Op) (ha : admissibleStd x op)
    (hp : isObserve op = true → s.pending = []) : K (step s op).1 (x.nextStd s op) := by
  cases op with
  | send a d t am f =>
    have hd := (next_send_fields x s a d t am f).2.2.2.2
    simp only [step]; unfold doSend
    repeat' split
    all_goals exact K_frame hk rfl rfl rfl (Nat.le_refl _) hd (fun e he => Or.inl he)
  | psend a d t am f =>
    have hd := (next_psend_fields x s a d t am f).2.2.2.2
    simp only [step]; unfold doPSend
    repeat' split
    all_goals exact K_frame hk rfl rfl rfl (Nat.le_refl _) hd (fun e he => Or.inl he)
  | cancel id who =>
    simp only [step, Ext.nextStd]; unfold doCancel
    repeat' split
    all_goals first
      | exact hk
      | (refine K_frame hk rfl rfl rfl (Nat.le_refl _) rfl (fun e he => ?_)
         simp only [mem_append, mem_singleton] at he
         rcases he with he | rfl
         · exact Or.inl he
         · exact Or.inr rfl)
  | incFee id who t add evm =>
    have hd := (next_incFee_fields x s id who t add evm).2.2.2.2
    simp only [step]; unfold doIncFee
    repeat' split
    all_goals exact K_frame hk rfl rfl rfl (Nat.le_refl _) hd (fun e he => Or.inl he)
  | reqBatch t mf bf fr =>
    simp only [step, Ext.nextStd]
    rcases reqBatch_not_ok s t mf bf fr with ⟨n, hn'⟩ | hsame
    · have hpair : doReqBatch s t mf bf fr = ((doReqBatch s t mf bf fr).1, .ok n) := by rw [← hn']
      rw [(reqBatch_ok hpair).2]
      exact K_frame hk rfl rfl rfl (Nat.le_refl _) rfl (fun e he => Or.inl he)
    · rw [hsame]
      exact K_frame hk rfl rfl rfl (Nat.le_refl _) rfl (fun e he => Or.inl he)
  | bridgeCall a r to d m cs =>
    simp only [step, Ext.nextStd]
    rcases bridgeCall_cases s a r to d m cs with hsame | ⟨bal', _, _, _, hs'⟩
    · rw [hsame]
      exact K_frame hk rfl rfl rfl (Nat.le_refl _) rfl (fun e he => Or.inl he)
    · rw [hs']
      refine ⟨hk.k1, fun c hc hn => ?_, hk.k3, hk.k4, fun n hn => by have := hk.k6 n hn; simp only; omega⟩
      simp only [mem_append, mem_singleton] at hc
      rcases hc with hc | rfl
      · exact hk.k2 c hc hn
      · have := hk.k6 _ hn
        simp only at this
        omega
  | pcall a r to d m cs =>
    simp only [step, Ext.nextStd]
    rcases pcall_cases s a r to d m cs with hsame | ⟨bal', _, _, _, hs'⟩
    · rw [hsame]
      exact K_frame hk rfl rfl rfl (Nat.le_refl _) rfl (fun e he => Or.inl he)
    · rw [hs']
      refine ⟨hk.k1, fun c hc hn => ?_, hk.k3, hk.k4, fun n hn => by have := hk.k6 n hn; simp only; omega⟩
      simp only [mem_append, mem_singleton] at hc
      rcases hc with hc | rfl
      · exact hk.k2 c hc hn
      · have := hk.k6 _ hn
        simp only at this
        omega
  | observe h ev => exact K_observe hk hj hi h ev ha (hp rfl)
  | exec n => simp only [step, Ext.nextStd]; exact K_exec hk hi n
  | setParams p =>
    simp only [step, Ext.nextStd]
    split
    · exact hk
    · exact K_frame hk rfl rfl rfl (Nat.le_refl _) rfl (fun e he => Or.inl he)
  | block n =>
    simp only [step, Ext.nextStd, endBlock_eq]
    exact K_frame hk rfl rfl rfl (Nat.le_refl _) rfl (fun e he => Or.inl he)

theorem K_run {s : State} {x : Ext} (hk : K s x) (hj : J s x) (hi : Inv s) (ops : List Op)
    (ha : AdmissibleRunStd s x ops) (hp : PromptRun s ops) : K (runExtStd s x ops).1 (runExtStd s x ops).2 := by
  induction ops generalizing s x with
  | nil => exact hk
  | cons op ops ih =>
    exact ih (K_step hk hj hi op ha.1 hp.1) (J_step hj op ha.1) (inv_step hi op) ha.2 hp.2

end FxVerif.Proofs.C05
