import FxVerif.Model.C04Ibc
import FxVerif.Model.Util
/-! line-protocol driver for the C04 model: `lake env lean --run Driver/C04.lean < ops.txt`

Fixed configuration shared with `go/harness/c04`: 3 chains (eth, bsc, polygon), 3 users, token groups
0 = FX (eth), 1 = module-owned (eth), 2 = module-owned (eth, bsc, polygon), 3 = externally-owned (eth),
4 = externally-owned (eth, bsc), 5 = module-owned (bsc) with an IBC voucher alias (transfer/channel-0), 6 = externally-owned (eth), a
hand-assembled token that signals failure by revert / false / nothing (the model does not depend on the style:
`Props/C04.lean keeper_transfer_is_send`).  Initial holdings: every user 1000 FX and 500 of each external ERC-20 of groups 3, 4;
group 6: user 0 500, user 1 25, user 2 nothing. -/
open FxVerif FxVerif.Util FxVerif.Model.Ledger FxVerif.Model.Flows FxVerif.Model.C04

def nGroups : Nat := 7
def nUsers : Nat := 3

def cfg0 : Cfg where
  kind := fun g => match g with
    | 0 => some .fx | 1 => some .moduleOwned | 2 => some .moduleOwned
    | 3 => some .externalOwned | 4 => some .externalOwned | 5 => some .moduleOwned | 6 => some .externalOwned | _ => none
  onChain := fun g c => match g, c with
    | 0, 0 => true | 1, 0 => true | 2, _ => true | 3, 0 => true | 4, 0 => true | 4, 1 => true | 5, 1 => true | 6, 0 => true | _, _ => false
  envBound := true
  ibcAlias := fun g => g == 5

/-- `m0fx`: FX locked in the eth module account at genesis (given on the `reset` line) -/
def ledger0 (m0fx : Nat) : Ledger where
  bal := fun a x => match a, x with
    | .base 0, .user u => if u < nUsers then 1000 else 0
    | .base 0, .chainMod 0 => m0fx
    | .erc 3, .user u => if u < nUsers then 500 else 0
    | .erc 4, .user u => if u < nUsers then 500 else 0
    | .erc 6, .user 0 => 500
    | .erc 6, .user 1 => 25
    | _, _ => 0
  supply := fun a => match a with
    | .base 0 => 3000 | .erc 3 => 1500 | .erc 4 => 1500 | .erc 6 => 525 | _ => 0
  owner := fun a => match a with
    | .erc 3 => some (.ext 1) | .erc 4 => some (.ext 1) | .erc 6 => some (.ext 1)
    | .erc _ => some .erc20Mod
    | _ => none

def accts : List (String × Addr) :=
  (List.range nUsers).map (fun u => (s!"u{u}", Addr.user u)) ++
  [("x", .ext 0), ("m0", .chainMod 0), ("m1", .chainMod 1), ("m2", .chainMod 2), ("e", .erc20Mod), ("w", .wfx)]

def assetsOf (g : Nat) : List (String × Asset) :=
  [(s!"g{g}B", .base g), (s!"g{g}b0", .bridge g 0), (s!"g{g}b1", .bridge g 1), (s!"g{g}b2", .bridge g 2), (s!"g{g}T", .erc g)]

def allAssets : List (String × Asset) := (List.range nGroups).flatMap assetsOf

def showAddr : Addr → String
  | .user u => s!"u{u}"
  | .ext 0 => "x"
  | a => (accts.find? (·.2 == a)).map (·.1) |>.getD "?"

def showTokens (ts : List (Nat × Nat)) : String := "+".intercalate (ts.map fun t => s!"{t.1}:{t.2}")

def showState (s : State) : String :=
  let bals := accts.flatMap fun (an, a) => allAssets.filterMap fun (sn, as) =>
    let v := s.L.bal as a
    if v == 0 then none else some s!"{an}.{sn}={v}"
  let sups := allAssets.filterMap fun (sn, as) =>
    if as == Asset.base 0 then none else
    let v := s.L.supply as
    if v == 0 then none else some s!"s.{sn}={v}"
  let chains := (List.range nChains).flatMap fun c =>
    let cs := s.chains c
    let srt := fun (l : List PoolTx) => l.mergeSort (fun a b => a.id ≤ b.id)
    (srt cs.pool).map (fun t => s!"p{c}.{t.id}={t.sender}:{t.g}:{t.amount}:{t.fee}:{if t.relation then 1 else 0}") ++
    (cs.batches.mergeSort (fun a b => a.nonce ≤ b.nonce)).map (fun b =>
      s!"b{c}.{b.nonce}={b.g}:" ++ ",".intercalate ((srt b.txs).map fun t => s!"{t.id}/{t.amount}/{t.fee}")) ++
    (cs.calls.mergeSort (fun a b => a.nonce ≤ b.nonce)).map (fun cl =>
      s!"c{c}.{cl.nonce}=u{cl.sender}:u{cl.refund}:{showTokens cl.tokens}:{if cl.fromMsg then 1 else 0}")
  -- ghost counters and the external contracts' last executed batch nonce per (chain, token)
  let nz := fun (pre : String) (f : Nat → Nat) => (List.range nGroups).filterMap fun g =>
    if f g == 0 then none else some s!"{pre}{g}={f g}"
  let ghost := nz "D.g" s.deposited ++ nz "W.g" s.withdrawn ++
    ((List.range nChains).flatMap fun c => nz s!"xl{c}." (s.chains c).extLast) ++
    ((List.range nChains).flatMap fun c => nz s!"xs{c}." (fun g => if locks cfg0 g then (s.chains c).ext g else 0))
  " ".intercalate (bals ++ sups ++ chains ++ ghost)

def parseTokens (w : String) : Option (List (Nat × Nat)) :=
  (w.splitOn "+").mapM fun t =>
    match t.splitOn ":" with
    | [g, n] => do pure ((← g.toNat?), (← n.toNat?))
    | _ => none

def parseDen (w : String) : Option Den :=
  if w == "B" then some .base else w.toNat?.map Den.chain

def parseOp (ws : List String) : Option Op :=
  match ws with
  | ["deposit", c, g, u, n, e] => do pure (.deposit (← c.toNat?) (← g.toNat?) (← u.toNat?) (← n.toNat?) (e == "1"))
  | ["send", c, g, u, n, f] => do pure (.send (← c.toNat?) (← g.toNat?) (← u.toNat?) (← n.toNat?) (← f.toNat?))
  | ["xsend", c, g, u, n, f] => do pure (.xsend (← c.toNat?) (← g.toNat?) (← u.toNat?) (← n.toNat?) (← f.toNat?))
  | ["vsend", c, g, u, n, f] => do pure (.vsend (← c.toNat?) (← g.toNat?) (← u.toNat?) (← n.toNat?) (← f.toNat?))
  | ["xincfee", c, id, u, g, n] => do pure (.xincfee (← c.toNat?) (← id.toNat?) (← u.toNat?) (← g.toNat?) (← n.toNat?))
  | ["cancel", c, id, u] => do pure (.cancel (← c.toNat?) (← id.toNat?) (← u.toNat?))
  | ["xcancel", c, id, u] => do pure (.cancel (← c.toNat?) (← id.toNat?) (← u.toNat?))
  | ["incfee", c, id, u, g, n] => do pure (.incfee (← c.toNat?) (← id.toNat?) (← u.toNat?) (← g.toNat?) (← n.toNat?))
  | ["batch", c, g, bf, mf, ao] => do
    pure (.batch (← c.toNat?) (← g.toNat?) (← bf.toNat?) (← mf.toNat?) (ao == "1"))
  | ["executed", c, g, n] => do pure (.executed (← c.toNat?) (← g.toNat?) (← n.toNat?))
  | ["btimeout", c, g, n] => do pure (.btimeout (← c.toNat?) (← g.toNat?) (← n.toNat?))
  | ["bcout", c, u, r, pre, ts] => do pure (.bcout (← c.toNat?) (← u.toNat?) (← r.toNat?) (← parseTokens ts) (pre == "1"))
  | ["vbcout", c, g, u, r, v, ts] => do
    let toks ← if ts == "-" then some [] else parseTokens ts
    pure (.vbcout (← c.toNat?) (← g.toNat?) (← u.toNat?) (← r.toNat?) (← v.toNat?) toks)
  | ["bcresult", c, n, ok] => do pure (.bcresult (← c.toNat?) (← n.toNat?) (ok == "1"))
  | ["bctimeout", c, n] => do pure (.bctimeout (← c.toNat?) (← n.toNat?))
  | ["bcin", c, to, ts] => do pure (.bcin (← c.toNat?) (← to.toNat?) (← parseTokens ts))
  | ["bcinfail", c, r, ts] => do pure (.bcinfail (← c.toNat?) (← r.toNat?) (← parseTokens ts))
  | ["ccoin", g, u, r, n] => do pure (.convertCoin (← g.toNat?) (← u.toNat?) (← r.toNat?) (← n.toNat?))
  | ["cerc", g, u, r, n] => do pure (.convertERC20 (← g.toNat?) (← u.toNat?) (← r.toNat?) (← n.toNat?))
  | ["cden", g, u, r, n, a, b] => do
    pure (.convertDenom (← g.toNat?) (← u.toNat?) (← r.toNat?) (← n.toNat?) (← parseDen a) (← parseDen b))
  | _ => none

def showBeh : Option Beh → String
  | none => "-"
  | some .keep => "keep"
  | some (.reenter c m) => s!"re:{c}:{m}"

def showClaim : Claim → String
  | .deposit g u n e => s!"dep:{g}:{u}:{n}:{if e then 1 else 0}"
  | .call to ts b => s!"call:{to}:{showBeh b}:{showTokens ts}"
  | .callFail r ts => s!"fail:{r}:{showTokens ts}"
  | .result n ok => s!"res:{n}:{if ok then 1 else 0}"

def showState2 (s : State2) : String :=
  -- contracts that were ever the target of an observed bridge call (the others hold nothing)
  let used := (s.seen.filterMap fun e => match e.2.2 with
    | .call to _ (some _) => some to
    | _ => none).eraseDups.mergeSort (· ≤ ·)
  let contracts := used.flatMap fun u => allAssets.filterMap fun (sn, as) =>
    let v := s.base.L.bal as (Addr.user u)
    if v == 0 then none else some s!"u{u}.{sn}={v}"
  let pend := (List.range nChains).flatMap fun c =>
    ((s.pend c).mergeSort (fun a b => a.nonce ≤ b.nonce)).map fun p => s!"q{c}.{p.nonce}={showClaim p.claim}"
  " ".intercalate ([showState s.base] ++ contracts ++ pend |>.filter (· != ""))

def parseBeh (w : String) : Option (Option Beh) :=
  if w == "-" then some none else if w == "keep" then some (some .keep) else
  match w.splitOn ":" with
  | ["re", c, m] => do pure (some (.reenter (← c.toNat?) (← m.toNat?)))
  | _ => none

def parseOp2 (ws : List String) : Option Op2 :=
  match ws with
  | ["obs", c, n, "dep", g, u, a, e] => do
    pure (.observe (← c.toNat?) (← n.toNat?) (.deposit (← g.toNat?) (← u.toNat?) (← a.toNat?) (e == "1")))
  | ["obs", c, n, "call", to, b, ts] => do
    pure (.observe (← c.toNat?) (← n.toNat?) (.call (← to.toNat?) (← parseTokens ts) (← parseBeh b)))
  | ["obs", c, n, "fail", r, ts] => do
    pure (.observe (← c.toNat?) (← n.toNat?) (.callFail (← r.toNat?) (← parseTokens ts)))
  | ["obs", c, n, "res", m, ok] => do
    pure (.observe (← c.toNat?) (← n.toNat?) (.result (← m.toNat?) (ok == "1")))
  | ["exec", c, n] => do pure (.exec (← c.toNat?) (← n.toNat?))
  | ws => (parseOp ws).map .base

/-- IBC layer: voucher balances (users, contracts are not receivers of vouchers; `t` = the ibc-transfer module account, whose
base-coin balance is shown too), voucher supply, ghost counters of packets received / sent -/
def showState3 (s : State3) : String :=
  let L := s.s2.base.L
  let gs := (List.range nGroups).filter cfg0.ibcAlias
  let ibc := gs.flatMap fun g =>
    ((List.range nUsers).filterMap fun u =>
      let v := L.bal (voucher g) (Addr.user u); if v == 0 then none else some s!"u{u}.g{g}V={v}") ++
    (if L.bal (voucher g) T == 0 then [] else [s!"t.g{g}V={L.bal (voucher g) T}"]) ++
    (if L.bal (.base g) T == 0 then [] else [s!"t.g{g}B={L.bal (.base g) T}"]) ++
    (if L.supply (voucher g) == 0 then [] else [s!"s.g{g}V={L.supply (voucher g)}"]) ++
    (if s.ibcIn g == 0 then [] else [s!"I.g{g}={s.ibcIn g}"]) ++
    (if s.ibcOut g == 0 then [] else [s!"O.g{g}={s.ibcOut g}"])
  " ".intercalate ([showState2 s.s2] ++ ibc |>.filter (· != ""))

def parseOp3 (ws : List String) : Option Op3 :=
  match ws with
  | ["ibcrecv", g, u, n] => do pure (.ibc (.recv (← g.toNat?) (← u.toNat?) (← n.toNat?)))
  | ["ibc2base", g, u, n, e] => do pure (.ibc (.toBase (← g.toNat?) (← u.toNat?) (← n.toNat?) (e == "1")))
  | ["base2ibc", g, u, n] => do pure (.ibc (.toIbc (← g.toNat?) (← u.toNat?) (← n.toNat?)))
  | ["ibcxfer", g, u, n] => do pure (.ibc (.xfer (← g.toNat?) (← u.toNat?) (← n.toNat?)))
  | ["xibc", g, u, n] => do pure (.xibc (← g.toNat?) (← u.toNat?) (← n.toNat?))
  | ["depibc", c, g, u, n] => do pure (.depositIbc (← c.toNat?) (← g.toNat?) (← u.toNat?) (← n.toNat?))
  | ws => (parseOp2 ws).map .claim

/-! ### ledger normalisation (driver only; speed).  The model's ledger is a function; every primitive wraps it in one more
closure, so a balance look-up costs as much as the history is long.  Every few steps the driver tabulates the ledger over
the addresses / assets of the fixed configuration into arrays; look-ups outside the table fall through to the function the
table was made from, so the normalised ledger is extensionally the SAME ledger. -/

def nUserSlots : Nat := 40
def nAddrSlots : Nat := nUserSlots + 4 + 2 + 6
def nAssetSlots : Nat := nGroups * 6

def addrIdx : Addr → Option Nat
  | .user u => if u < nUserSlots then some u else none
  | .chainMod c => if c < 4 then some (nUserSlots + c) else none
  | .erc20Mod => some (nUserSlots + 4)
  | .wfx => some (nUserSlots + 5)
  | .ext n => if n < 6 then some (nUserSlots + 6 + n) else none

def addrOf (i : Nat) : Addr :=
  if i < nUserSlots then .user i else
  if i < nUserSlots + 4 then .chainMod (i - nUserSlots) else
  if i == nUserSlots + 4 then .erc20Mod else
  if i == nUserSlots + 5 then .wfx else .ext (i - nUserSlots - 6)

def assetIdx : Asset → Option Nat
  | .base g => if g < nGroups then some (g * 6) else none
  | .bridge g c => if g < nGroups ∧ c < 4 then some (g * 6 + 1 + c) else none
  | .erc g => if g < nGroups then some (g * 6 + 5) else none

def assetOf (i : Nat) : Asset :=
  let g := i / 6
  let k := i % 6
  if k == 0 then .base g else if k == 5 then .erc g else .bridge g (k - 1)

def normLedger (L : Ledger) : Ledger :=
  let tab : Array Nat := Array.ofFn (n := nAssetSlots * nAddrSlots) fun i => L.bal (assetOf (i.val / nAddrSlots)) (addrOf (i.val % nAddrSlots))
  let sup : Array Nat := Array.ofFn (n := nAssetSlots) fun i => L.supply (assetOf i.val)
  { bal := fun a x =>
      match assetIdx a, addrIdx x with
      | some i, some j => tab.getD (i * nAddrSlots + j) 0
      | _, _ => L.bal a x
    supply := fun a =>
      match assetIdx a with
      | some i => sup.getD i 0
      | none => L.supply a
    owner := L.owner }

def normState (s : State3) : State3 := setBase s { s.s2.base with L := normLedger s.s2.base.L }

def step3' (st : State3 × Nat) (line : String) : (State3 × Nat) × String :=
  let s := st.1
  match words line with
  | "reset" :: rest =>
    let m0fx := (rest.head?.bind String.toNat?).getD 0
    -- the FX locked in the eth module account at genesis is what circulates on Ethereum
    ((init3 (initE (ledger0 m0fx) (fun c g => if c = 0 ∧ g = 0 then m0fx else 0)), 0), "ok")
  | ws =>
    match parseOp3 ws with
    | none => (st, "bad-op")
    | some op =>
      match step3 cfg0 s op with
      | .ok s' =>
        let s'' := if st.2 % 3 == 2 then normState s' else s'
        ((s'', st.2 + 1), "ok " ++ showState3 s'')
      | .error _ => (st, "err " ++ showState3 s)

def step' (s : State3) (line : String) : State3 × String :=
  match words line with
  | "reset" :: rest =>
    let m0fx := (rest.head?.bind String.toNat?).getD 0
    -- the FX locked in the eth module account at genesis is what circulates on Ethereum
    (init3 (initE (ledger0 m0fx) (fun c g => if c = 0 ∧ g = 0 then m0fx else 0)), "ok")
  | ws =>
    match parseOp3 ws with
    | none => (s, "bad-op")
    | some op =>
      match step3 cfg0 s op with
      | .ok s' => (s', "ok " ++ showState3 s')
      | .error _ => (s, "err " ++ showState3 s)

def main : IO Unit := runDriver step3' (init3 (init (ledger0 0)), 0)
