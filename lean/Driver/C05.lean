import FxVerif.Model.C05
import FxVerif.Model.C05Ext
import FxVerif.Model.C06Vote
import FxVerif.Model.Util
/-! line-protocol driver for the C05/C06 model: `lake env lean --run Driver/C05.lean < ops.txt` -/
open FxVerif FxVerif.Util FxVerif.Model.C05 FxVerif.Model.C06Vote

/-- `vs.base` is the C05 state; the rest of `vs` is the voting layer of `Model/C06Vote.lean` (oracle powers, attestations,
last event nonce by oracle) -/
structure St where
  vs : VState := {}
  x : Ext := {}
  nActors : Nat := 0

def St.s (st : St) : State := st.vs.base

def nat? (w : String) : Option Nat := w.toNat?

def parseCoins (w : String) : Option (List (Nat × Nat)) :=
  if w == "-" then some [] else
  (w.splitOn ",").mapM fun c =>
    match c.splitOn ":" with
    | [t, a] => do let t ← nat? t; let a ← nat? a; pure (t, a)
    | _ => none

def sortBy {α} (key : α → Nat) (l : List α) : List α := l.mergeSort (fun a b => key a ≤ key b)

def showTx (t : Tx) : String := s!"{t.id}:{t.sender}:{t.dest}:{t.token}:{t.amount}:{t.fee}"
def showCoins (cs : List (Nat × Nat)) : String :=
  if cs.isEmpty then "-" else ",".intercalate (cs.map fun c => s!"{c.1}:{c.2}")

def showState (st : St) (r : Res) : String :=
  let s := st.s
  let res := match r with | .ok n => s!"ok:{n}" | .err => "err" | .panic => "panic"
  let pool := ";".intercalate (s.pool.map showTx)
  let batches := ";".intercalate ((sortBy (·.nonce) s.batches).map fun b =>
    s!"{b.nonce}:{b.token}:{b.timeout}:{b.block}:{b.feeReceive}:" ++ ",".intercalate (b.txs.map showTx))
  let calls := ";".intercalate ((sortBy (·.nonce) s.calls).map fun c =>
    s!"{c.nonce}:{c.sender}:{c.refund}:{c.to}:{c.data}:{c.memo}:{c.timeout}:{c.block}:{showCoins c.tokens}")
  let pend := ";".intercalate ((sortBy (·.1) s.pending).map fun p => s!"{p.1}:{p.2.1}:{if p.2.2 then 1 else 0}")
  let bal := ",".intercalate ((List.range st.nActors).flatMap fun a =>
    (List.range s.nTokens).map fun t => toString (getBal s.bal (a, t)))
  let erc := ",".intercalate ((List.range st.nActors).flatMap fun a =>
    (List.range s.nTokens).map fun t => toString (getBal s.erc (a, t)))
  let rel := ",".intercalate ((s.relTx.mergeSort (fun a b => a ≤ b)).map toString)
  let fm := ",".intercalate ((s.fromMsg.mergeSort (fun a b => a ≤ b)).map toString)
  -- the voting layer: the stored attestations of the last observed and of later event nonces (event nonce, voters in vote
  -- order, observed), and the last event nonce of every oracle
  let atts := ";".intercalate (((st.vs.atts.filter fun a => decide (s.eventNonce ≤ a.nonce)).mergeSort
      (fun a b => a.nonce * 1000 + a.votes.headD 0 ≤ b.nonce * 1000 + b.votes.headD 0)).map fun a =>
    s!"{a.nonce}:" ++ ",".intercalate (a.votes.map toString) ++ s!":{if a.observed then 1 else 0}")
  let last := ",".intercalate (st.vs.last.map toString)
  s!"{res} next={s.nextTxId},{s.nextBatchId},{s.nextCallId} pool=[{pool}] batches=[{batches}] calls=[{calls}] pend=[{pend}] obs={s.obsExt},{s.obsFx},{s.eventNonce} bal={bal} erc={erc} rel=[{rel}] frommsg=[{fm}] atts=[{atts}] last={last}"

/-- the line also says whether the external-chain ghost (`Model/C05Ext.lean`) finds an observed event admissible -/
def apply (st : St) (op : Op) : St × String :=
  let (s', r) := step st.s op
  let adm := match op with
    | .observe _ _ => if decide (admissible st.x op) then "1" else "0"
    | _ => "-"
  let st' := { st with vs := { st.vs with base := s' }, x := st.x.next st.s op }
  (st', showState st' r ++ s!" adm={adm}")

/-- the external-chain ghost sees the `observe` a quorum-completing vote performs (once per line) -/
def afterVotes (st : St) (vs : VState) (crossed : Option (Op × Res)) (last : Res) : St × String :=
  match crossed with
  | some (op, r) =>
    let adm := if decide (admissible st.x op) then "1" else "0"
    let st' := { st with vs := vs, x := st.x.next st.s op }
    (st', showState st' r ++ s!" adm={adm}")
  | none =>
    let st' := { st with vs := vs }
    (st', showState st' last ++ " adm=-")

/-- one `MsgClaim` of oracle `o` -/
def applyVote (st : St) (o n h : Nat) (ev : Ev) : St × String :=
  let r := voteCore FxVerif.Gen.C06.claimHashFields st.vs o n h ev
  afterVotes st r.1 (r.2.2.map fun op => (op, r.2.1)) r.2.1

/-- `obs h ev`: every oracle that has not yet voted for the next event nonce submits the same claim, in index order; the
answer is that of the vote that completed the quorum (the last vote's if none did) -/
def applyObs (st : St) (h : Nat) (ev : Ev) : St × String :=
  if st.vs.powers.isEmpty then apply st (.observe h ev) else
  let n := st.s.eventNonce + 1
  let os := (List.range st.vs.powers.length).filter (fun o => st.vs.last.getD o 0 + 1 = n)
  let (vs, crossed, last) := os.foldl (fun (acc : VState × Option (Op × Res) × Res) o =>
    let r := voteCore FxVerif.Gen.C06.claimHashFields acc.1 o n h ev
    (r.1, (match acc.2.1, r.2.2 with
           | some c, _ => some c
           | none, some op => some (op, r.2.1)
           | none, none => none), r.2.1)) (st.vs, none, Res.err)
  afterVotes st vs crossed last

def parseNats (w : String) : Option (List Nat) := (w.splitOn ",").mapM nat?

def str (w : String) : String := if w == "-" then "" else w

def stepLine (st : St) (line : String) : St × String :=
  match words line with
  | ["reset", na, nt, b0, e0, p1, p2, p3, p4, fx] =>
    match nat? na, nat? nt, nat? b0, nat? e0, nat? p1, nat? p2, nat? p3, nat? p4, nat? fx with
    | some na, some nt, some b0, some e0, some p1, some p2, some p3, some p4, some fx =>
      let bal : Bal := (List.range na).flatMap fun a => (List.range nt).map fun t => ((a, t), b0)
      let erc : Bal := (List.range na).flatMap fun a => (List.range nt).map fun t => ((a, t), e0)
      ({ vs := { base := { init nt bal ⟨p1, p2, p3, p4⟩ with fxHeight := fx, erc := erc } }, nActors := na }, "ok")
    | _, _, _, _, _, _, _, _, _ => (st, "bad-op")
  | ["reset", na, nt, b0, e0, p1, p2, p3, p4, fx, pws, tot] =>   -- with the oracles' powers and the recorded total power
    match nat? na, nat? nt, nat? b0, nat? e0, nat? p1, nat? p2, nat? p3, nat? p4, nat? fx, parseNats pws, nat? tot with
    | some na, some nt, some b0, some e0, some p1, some p2, some p3, some p4, some fx, some pws, some tot =>
      let bal : Bal := (List.range na).flatMap fun a => (List.range nt).map fun t => ((a, t), b0)
      let erc : Bal := (List.range na).flatMap fun a => (List.range nt).map fun t => ((a, t), e0)
      ({ vs := vinit { init nt bal ⟨p1, p2, p3, p4⟩ with fxHeight := fx, erc := erc } pws tot, nActors := na }, "ok")
    | _, _, _, _, _, _, _, _, _, _, _ => (st, "bad-op")
  | "reset" :: _ => ({}, "ok")
  | ["send", a, d, t, am, f] =>
    match nat? a, nat? t, nat? am, nat? f with
    | some a, some t, some am, some f => apply st (.send a (str d) t am f)
    | _, _, _, _ => (st, "bad-op")
  | ["psend", a, d, t, am, f] =>
    match nat? a, nat? t, nat? am, nat? f with
    | some a, some t, some am, some f => apply st (.psend a (str d) t am f)
    | _, _, _, _ => (st, "bad-op")
  | ["pcall", a, r, to, d, m, cs] =>
    match nat? a, nat? r, parseCoins cs with
    | some a, some r, some cs => apply st (.pcall a r (str to) (str d) (str m) cs)
    | _, _, _ => (st, "bad-op")
  | ["pcancel", id, who] =>   -- `cancelSendToExternal` precompile: the same keeper entry point as the message
    match nat? id, nat? who with
    | some id, some who => apply st (.cancel id who)
    | _, _ => (st, "bad-op")
  | ["cancel", id, who] =>
    match nat? id, nat? who with
    | some id, some who => apply st (.cancel id who)
    | _, _ => (st, "bad-op")
  | ["incfee", id, who, t, add] =>
    match nat? id, nat? who, nat? t, nat? add with
    | some id, some who, some t, some add => apply st (.incFee id who t add false)
    | _, _, _, _ => (st, "bad-op")
  | ["pincfee", id, who, t, add] =>   -- `increaseBridgeFee` precompile with the token's ERC-20 contract
    match nat? id, nat? who, nat? t, nat? add with
    | some id, some who, some t, some add => apply st (.incFee id who t add true)
    | _, _, _, _ => (st, "bad-op")
  | ["pexec", n, _who] =>   -- `executeClaim` precompile: the same keeper entry point, whoever calls
    match nat? n with
    | some n => apply st (.exec n)
    | none => (st, "bad-op")
  | ["reqbatch", t, mf, bf, fr] =>
    match nat? t, nat? mf, nat? bf with
    | some t, some mf, some bf => apply st (.reqBatch t mf bf (str fr))
    | _, _, _ => (st, "bad-op")
  | ["bcall", a, r, to, d, m, cs] =>
    match nat? a, nat? r, parseCoins cs with
    | some a, some r, some cs => apply st (.bridgeCall a r (str to) (str d) (str m) cs)
    | _, _, _ => (st, "bad-op")
  | ["obs", h, "batch", t, n] =>
    match nat? h, nat? t, nat? n with
    | some h, some t, some n => applyObs st h (.batch t n)
    | _, _, _ => (st, "bad-op")
  | ["obs", h, "result", c, ok] =>
    match nat? h, nat? c with
    | some h, some c => if ok == "0" || ok == "1" then applyObs st h (.result c (ok == "1")) else (st, "bad-op")
    | _, _ => (st, "bad-op")
  | ["obs", h, "other"] =>
    match nat? h with
    | some h => applyObs st h .other
    | none => (st, "bad-op")
  | ["vote", o, n, h, "batch", t, b] =>
    match nat? o, nat? n, nat? h, nat? t, nat? b with
    | some o, some n, some h, some t, some b => applyVote st o n h (.batch t b)
    | _, _, _, _, _ => (st, "bad-op")
  | ["vote", o, n, h, "result", c, ok] =>
    match nat? o, nat? n, nat? h, nat? c with
    | some o, some n, some h, some c =>
      if ok == "0" || ok == "1" then applyVote st o n h (.result c (ok == "1")) else (st, "bad-op")
    | _, _, _, _ => (st, "bad-op")
  | ["vote", o, n, h, "other"] =>
    match nat? o, nat? n, nat? h with
    | some o, some n, some h => applyVote st o n h .other
    | _, _, _ => (st, "bad-op")
  | ["exec", n] =>
    match nat? n with
    | some n => apply st (.exec n)
    | none => (st, "bad-op")
  | ["params", p1, p2, p3, p4] =>
    match nat? p1, nat? p2, nat? p3, nat? p4 with
    | some p1, some p2, some p3, some p4 => apply st (.setParams ⟨p1, p2, p3, p4⟩)
    | _, _, _, _ => (st, "bad-op")
  | ["genesis"] =>   -- export + import of the module's genesis: the identity on everything compared here
    (st, showState st (.ok 0) ++ " adm=-")
  | ["block", n] =>
    match nat? n with
    | some n => apply st (.block n)
    | none => (st, "bad-op")
  | _ => (st, "bad-op")

def main : IO Unit := runDriver stepLine ({} : St)
