import FxVerif.Model.C09
import FxVerif.Model.C09Shape
import FxVerif.Model.Util
/-! line-protocol driver for the C09 model: `lake env lean --run Driver/C09.lean < ops.txt`
`tx <gasLimit> <intrinsic> <program>`; the native store is instantiated with the list of applied effect ids.  The shape of
a precompile call's `Run` (writes outside the native action, recover(), gas meter) is looked up by ABI name in the
regenerated table `Gen.C09.runFacts`: the model executes the methods as the source has them NOW. -/
open FxVerif FxVerif.Util FxVerif.Model.C09

abbrev NS := List Nat

def parseKind : String → Option Kind
  | "call" => some .call
  | "staticcall" => some .staticcall
  | "delegatecall" => some .delegatecall
  | "callcode" => some .callcode
  | _ => none

/-- how a precompile call behaves: always succeeds / always fails / consumes resource `r` (fails when an earlier call that
is still in the native store consumed it) / needs resource `r` unconsumed -/
inductive Mode | ok | fail | use (r : Nat) | need (r : Nat)

def resBase : Nat := 200000

def parseMode (s : String) : Option Mode :=
  match s.splitOn ":" with
  | ["ok"] => some .ok
  | ["fail"] => some .fail
  | ["use", r] => r.toNat?.map .use
  | ["need", r] => r.toNat?.map .need
  | _ => none

def markBase : Nat := 300000
def leakBase : Nat := 400000
def frameBase : Nat := 150000

/-- per-frame ghost: a zero-cost native action (no gas, no log, works in a static context) put at the head of every
callee program; its journal entry is undone with the frame, so it is in the committed native store iff the frame and
all its enclosing frames returned normally -/
def frameGhost (id : Nat) : Prog NS :=
  .pre { callc := 0, cap := 0, stip := 0, kind := .call, xfer := none, funded := fun _ => true, swallow := true, pOk := 0, pFail := 0 }
    0 RunShape.tidy (fun n => n) [] (fun _ _ n => (.ok, (frameBase + id) :: n, []))

/-- "<n>" or "<n>+<r>": n logs, one more when marker r is in the native store; a successful call sets marker r -/
def parseLogs (s : String) : Option (Nat × Nat) :=
  match s.splitOn "+" with
  | [n] => n.toNat?.map (·, 0)
  | [n, r] => match n.toNat?, r.toNat? with
    | some n, some r => some (n, r)
    | _, _ => none
  | _ => none

def hdrOf (id : Nat) (ws : List String) : Option (CallHdr NS) :=
  match ws with
  | [callc, cap, stip, kind, xfer, funded, sw, pOk, pFail] =>
    match callc.toNat?, cap.toNat?, stip.toNat?, parseKind kind, pOk.toNat?, pFail.toNat? with
    | some callc, some cap, some stip, some kind, some pOk, some pFail =>
      -- xfer: 0 = no value, 1 = value moved by `evm.Call` (journaled bank move), 2 = CALLCODE with a value: balance check only
      if xfer == "2" && kind != .callcode then none else
      some { callc, cap, stip, kind, xfer := if xfer == "1" then some (fun n => (100000 + id) :: n) else none,
             funded := fun _ => funded == "1", swallow := sw == "1", pOk, pFail, checkOnly := xfer == "2" }
    | _, _, _, _, _, _ => none
  | _ => none

/-- parses a node list up to the matching `]` (or end of input); returns nodes, marker ids, rest -/
partial def parseList : List String → Option (List (Prog NS) × List Nat × List String)
  | [] => some ([], [], [])
  | "]" :: rest => some ([], [], rest)
  | "S" :: c :: k :: v :: rest =>
    match c.toNat?, k.toNat?, v.toNat?, parseList rest with
    | some c, some k, some v, some (ns, ms, r) => some (.sstore c k v :: ns, k :: ms, r)
    | _, _, _, _ => none
  | "R" :: c :: rest =>
    match c.toNat?, parseList rest with
    | some c, some (ns, ms, r) => some (.revert c :: ns, ms, r)
    | _, _ => none
  | "T" :: c :: rest =>
    match c.toNat?, parseList rest with
    | some c, some (ns, ms, r) => some (.stop c :: ns, ms, r)
    | _, _ => none
  | "I" :: rest =>
    match parseList rest with
    | some (ns, ms, r) => some (.invalid :: ns, ms, r)
    | none => none
  | "C" :: id :: a :: b :: c :: d :: e :: f :: g :: h :: i :: "[" :: rest =>
    match id.toNat? with
    | some id =>
      match hdrOf id [a, b, c, d, e, f, g, h, i], parseList rest with
      | some hd, some (body, ms1, r1) =>
        match parseList r1 with
        | some (ns, ms2, r2) => some (.call hd (frameGhost id :: body) :: ns, ms1 ++ ms2, r2)
        | none => none
      | _, _ => none
    | none => none
  | "P" :: id :: a :: b :: c :: d :: e :: f :: g :: h :: i :: req0 :: mode :: w0 :: name :: extra :: lgs :: rest0 =>
    -- the EVM call made from inside the native action: `-` or `[ <gas allowance> <token program> ]`
    let innerP : Option (List (Nat × List (Prog NS)) × List Nat × List String) :=
      match rest0 with
      | "-" :: rest => some ([], [], rest)
      | "[" :: g :: rest =>
        match g.toNat?, parseList rest with
        | some g, some (body, ms, r) => some ([(g, body)], ms, r)
        | _, _ => none
      | _ => none
    match id.toNat?, req0.toNat?, parseMode mode, parseLogs lgs, extra.toNat?, innerP with
    | some id, some req0, some md, some (nlog, mark), some extra, some (inner, ims, rest) =>
      match hdrOf id [a, b, c, d, e, f, g, h, i], parseList rest with
      | some hd, some (ns, ms0, r) =>
        let ms := ims ++ ms0
        -- RequiredGas and IsReadonly come from the regenerated method table, not from the harness
        let mrow := FxVerif.Gen.C09.methods.find? (fun m => m.abiName == name)
        let req := match mrow with | some m => m.requiredGas | none => req0
        let w := match mrow with | some m => (if m.readonly then "0" else "1") | none => w0
        let rf := factsOf name
        let sh := match rf with | some rf => shapeOf rf | none => RunShape.tidy
        let met := match rf with | some rf => metered rf | none => false
        -- a failing action half-writes (999999) and emits its logs before it fails
        -- round 4: a log remembers which precompile emitted it (2·id + 1 = crosschain, 2·id = staking; from the regenerated table)
        let lid := 2 * id + (match mrow with | some m => (if m.contract == "crosschain" then 1 else 0) | none => 0)
        let act : ActionX NS := fun ro gasLeft n =>
          let lg := List.replicate (nlog + (if mark != 0 && n.contains (markBase + mark) then 1 else 0)) lid
          let n' := if mark != 0 then (markBase + mark) :: n else n
          if ro && w == "1" then (.err, 999999 :: n, lg) else
          -- a method that meters its native work against the gas left in the frame panics part-way when that runs out
          if met && gasLeft < extra then (.panic, 999999 :: n, lg) else
          match md with
          | .ok => (.ok, id :: n', lg)
          | .fail => (.err, 999999 :: n, lg)
          | .use r => if n.contains (resBase + r) then (.err, 999999 :: n, lg) else (.ok, id :: (resBase + r) :: n', lg)
          | .need r => if n.contains (resBase + r) then (.err, 999999 :: n, lg) else (.ok, id :: n', lg)
        -- what `Run` writes outside the native action (only performed when the regenerated shape says it does)
        let out : NS → NS := fun n => (leakBase + id) :: n
        some (.pre hd req sh out inner act :: ns, ms, r)
      | _, _ => none
    | _, _, _, _, _, _ => none
  | _ => none

/-- the surviving precompile logs in emission order: `s` = staking precompile, `c` = crosschain precompile -/
def showLogs (ls : List Nat) : String :=
  s!"{ls.length}:" ++ String.ofList (ls.reverse.map (fun x => if x % 2 == 1 then 'c' else 's'))

def showNats (xs : List Nat) : String :=
  if xs.isEmpty then "-" else ",".intercalate ((xs.mergeSort (· ≤ ·)).map toString)

def step (st : Unit) (line : String) : Unit × String :=
  match words line with
  | "reset" :: _ => (st, "ok")
  | "tx" :: gl :: intr :: toks =>
    match gl.toNat?, intr.toNat?, parseList toks with
    | some gl, some intr, some (prog, markers, []) =>
      if gl < intr then (st, "rejected") else
      let v0 : View NS := { slots := fun _ => 0, native := [], logs := [] }
      let r := runTx (2 * toks.length + 10) (gl - intr) prog v0
      let status := match r.1 with | .ok => "ok" | .revert => "revert" | .fail => "fail" | .abort => "abort"
      let ms := markers.filter (fun k => r.2.1.slots k != 0)
      let kept := r.2.1.native.filter (· < 100000)
      let used := (gl - intr) - r.2.2
      -- anything committed that is not the effect of a kept call: a write made outside a native action, a half-written store
      let leak := r.2.1.native.any (fun x => x == 999999 || x ≥ leakBase)
      let frames := (r.2.1.native.filter (fun x => frameBase ≤ x && x < resBase)).map (· - frameBase)
      (st, s!"{status} gas={used} markers={showNats ms} kept={showNats kept} frames={showNats frames} logs={showLogs r.2.1.logs} ref={if leak then "diff" else "same"}")
    | _, _, _ => (st, "bad-op")
  | "direct" :: gl :: intr :: toks =>
    -- the transaction's `to` is the precompile: one precompile node, no caller frame
    match gl.toNat?, intr.toNat?, parseList toks with
    | some gl, some intr, some ([.pre hd req sh out inner act], markers, []) =>
      if gl < intr then (st, "rejected") else
      let v0 : View NS := { slots := fun _ => 0, native := [], logs := [] }
      let r := runTxPre (2 * toks.length + 10) (gl - intr) hd.xfer req sh out inner act v0
      let status := match r.1 with | .ok => "ok" | .revert => "revert" | .fail => "fail" | .abort => "abort"
      let ms := markers.filter (fun k => r.2.1.slots k != 0)
      let kept := r.2.1.native.filter (· < 100000)
      let used := (gl - intr) - r.2.2
      let leak := r.2.1.native.any (fun x => x == 999999 || x ≥ leakBase)
      let frames := (r.2.1.native.filter (fun x => frameBase ≤ x && x < resBase)).map (· - frameBase)
      (st, s!"{status} gas={used} markers={showNats ms} kept={showNats kept} frames={showNats frames} logs={showLogs r.2.1.logs} ref={if leak then "diff" else "same"}")
    | _, _, _ => (st, "bad-op")
  | _ => (st, "bad-op")

def main : IO Unit := runDriver step ()
