import FxVerif.Model.C10
import FxVerif.Model.C10Env
import FxVerif.Model.C10Tok
import FxVerif.Model.Util
/-! line-protocol driver for the C10 dispatcher model (everything goes through `runGen`, i.e. the regenerated step order,
governance-check program, closures and `decrementAllowance`):

* `disp <kind> <method> <methodIdHex> <writer> <addr> <entries|->` → ran | blocked:readonly | blocked:disabled   (stateless)
* `set shares <a> <n>` | `set dust <a> <n>` | `set val <tokens> <shares·10^18>` | `set allow <a> <b> <n>` | `set bal <a> <n>` | `set pool <id> <sender> <amount>` → ok
* `h <kind> <caller> <origin> <addr> <methodIdHex> <entries|-> <method> <args…>` → `<status> <observed values>`   (stateful history)
* `set unb <a> <n>` → ok (tokens in unbonding entries of `a`); `slash <power> <powerReduction> <pct>` → `vt=<tokens> vs=<shares>` (round 5: the
  staking module slashes the validator between two calls — `Model/C10Env.lean`)
* `hu …` (same arguments): the call is made in a frame that reverts afterwards and is caught → `undone <observed values>`, state unchanged
* `tkset <token> <acct> <token balance> <ERC-20 allowance to the precompile> <coins>` → ok;  `tk <token> <fx|erc20|coin> <caller> <amount>` →
  `<ok|err> t=<token balance of the caller> a=<its allowance to the precompile>`: the regenerated ERC-20 leg (`Gen.C10Tok.erc20Leg`)
  interpreted on the token world of that token (accounts: 7 = precompile, 8 = erc20 module, 9 = the token contract's own account)
-/
open FxVerif FxVerif.Util FxVerif.Gen.C09 FxVerif.Model.C10

def kindOf : String → Option Kind
  | "call" => some .call | "staticcall" => some .staticcall
  | "delegatecall" => some .delegatecall | "callcode" => some .callcode | _ => none

def callOf (m : String) : Call :=
  match m with
  | "delegateV2" => .delegate 0 | "undelegateV2" => .undelegate 0 | "redelegateV2" => .redelegate 0
  | "withdraw" => .withdraw | "approveShares" => .approve 2 0 | "transferShares" => .transferShares 2 0
  | "transferFromShares" => .transferFromShares 2 3 0 | "crossChain" => .crossChain 0 0 2
  | "cancelSendToExternal" => .cancelSend 1 | "increaseBridgeFee" => .increaseFee 1 0
  | "bridgeCall" => .bridgeCall 2 3 0 | "executeClaim" => .executeClaim 0 | n => .view n

def w0 : World := ⟨fun _ => 10, fun _ => 10, fun _ => 0, fun _ => 0, fun _ _ => 10, [⟨1, 1, 5⟩], 2, fun _ => 0, 100, 100 * shareScale⟩
def wInit : World := ⟨fun _ => 0, fun _ => 0, fun _ => 0, fun _ => 0, fun _ _ => 0, [], 1000000, fun _ => 0, 0, 0⟩

def nats (ws : List String) : Option (List Nat) := ws.mapM String.toNat?

/-- history call: method name + decimal arguments -/
def hcallOf (m : String) (args : List String) : Option Call :=
  match m, nats args with
  | "delegateV2", some [a] => some (.delegate a)
  | "undelegateV2", some [a] => some (.undelegate a)
  | "redelegateV2", some [a] => some (.redelegate a)
  | "withdraw", some [] => some .withdraw
  | "approveShares", some [sp, s] => some (.approve sp s)
  | "transferShares", some [t, s] => some (.transferShares t s)
  | "transferFromShares", some [f, t, s] => some (.transferFromShares f t s)
  | "cancelSendToExternal", some [i] => some (.cancelSend i)
  | "increaseBridgeFee", some [i, f, _] => some (.increaseFee i f)
  | "crossChain", some [a, f, _] => some (.crossChain a f 0)
  | "view", _ => match args with | [n] => some (.view n) | _ => none
  | _, _ => none

/-- msg.value of a history call (last argument of the payable methods) -/
def hvalueOf (m : String) (args : List String) : Nat :=
  match m, nats args with
  | "increaseBridgeFee", some [_, _, v] => v
  | "crossChain", some [_, _, v] => v
  | _, _ => 0

/-- account number of the precompile account: 6 = staking (…1003), 7 = crosschain (…1004) -/
def selfOf (addr : String) : Addr := if addr.endsWith "1003" then 6 else 7

def insertSorted (e : PoolTx) : List PoolTx → List PoolTx
  | [] => [e]
  | x :: r => if e.id ≤ x.id then e :: x :: r else x :: insertSorted e r

def showPool (p : List PoolTx) : String :=
  let s := p.foldl (fun acc e => insertSorted e acc) []
  if s.isEmpty then "-" else ",".intercalate (s.map (fun e => s!"{e.id}:{e.sender}:{e.amount}"))

def isShareMove : Call → Bool
  | .transferShares _ _ | .transferFromShares _ _ _ => true
  | _ => false

def statusOf (call : Call) (r : Res) : String :=
  match r.out with
  | .ok _ => if r.executed then "ran:ok" else "not-run"
  | .error .writeProtection => "blocked:readonly"
  | .error .disabled => "blocked:disabled"
  | .error .unknownMethod => "unknown-method"
  | .error .unknownStep => "unknown-step"
  | .error .allowance => if isShareMove call then "ran:err:allowance" else "ran:err"
  | .error .shares => if isShareMove call then "ran:err:shares" else "ran:err"
  | .error .method => "ran:err"
  | .error .value => "ran:err"

def observe (c self : Addr) (call : Call) (w : World) : String :=
  match call with
  | .approve sp _ => s!"al={w.allow c sp} sa={w.shares c} sb={w.shares sp}"
  | .transferShares t _ => s!"al={w.allow c t} sa={w.shares c} sb={w.shares t}"
  | .transferFromShares f t _ => s!"al={w.allow f c} sa={w.shares f} sb={w.shares t}"
  | .delegate _ | .undelegate _ | .redelegate _ => s!"sa={w.shares c} du={w.dust c} vt={w.vTok} ub={w.unbonding c}"
  | .withdraw => s!"sa={w.shares c}"
  | .cancelSend _ | .increaseFee _ _ | .crossChain _ _ _ => s!"pool={showPool w.pool} pb={w.bal self}"
  | _ => "-"

def entriesOf (ents : String) : List (List Char) :=
  if ents == "-" then [] else (ents.splitOn ",").map String.toList

open FxVerif.Model.C10Tok in
def tw0 : TW := ⟨fun _ => 0, fun _ _ => 0, fun _ => 0⟩

structure DSt where
  w : World
  t : Nat → FxVerif.Model.C10Tok.TW
  /-- round 5: delegations with the DESTINATION validator of the histories' redelegations (10^-18 shares; that validator is
  never slashed: the tokens that leave the source validator arrive 1 : 1) -/
  dst : Nat → Nat := fun _ => 0

def dInit : DSt := ⟨wInit, fun _ => tw0, fun _ => 0⟩

def pairKindOf : String → Option FxVerif.Model.C10Tok.PairKind
  | "fx" => some ⟨true, true, false⟩
  | "coin" => some ⟨true, false, false⟩
  | "erc20" => some ⟨false, false, true⟩
  | _ => none

def stepTok (st : DSt) (ws : List String) : Option (DSt × String) :=
  match ws with
  | ["tkset", ti, a, b, al, c] =>
    match nats [ti, a, b, al, c] with
    | some [ti, a, b, al, c] =>
      let w := st.t ti
      let w' : FxVerif.Model.C10Tok.TW :=
        { tok := FxVerif.Model.C10Tok.upd w.tok a b, appr := FxVerif.Model.C10Tok.upd2 w.appr a 7 al, coin := FxVerif.Model.C10Tok.upd w.coin a c }
      some ({ st with t := fun i => if i = ti then w' else st.t i }, "ok")
    | _ => none
  | ["tk", ti, kind, c, a] =>
    match nats [ti, c, a], pairKindOf kind with
    | some [ti, c, a], some pk =>
      let w := st.t ti
      match FxVerif.Model.C10Tok.runOps pk ⟨c, 7, 8, 9⟩ a FxVerif.Gen.C10Tok.erc20Leg w with
      | some (some w') => some ({ st with t := fun i => if i = ti then w' else st.t i }, s!"ok t={w'.tok c} a={w'.appr c 7}")
      | some none => some (st, s!"err t={w.tok c} a={w.appr c 7}")
      | none => some (st, "unknown-step")
    | _, _ => none
  | ["tkb", ti, _kind, c, a] =>
    -- bridgeCall token list: keeper-level conversion of the HOLDER's tokens (no ERC-20 allowance involved); the holder is
    -- the provenance the regenerated closure row gives for EvmToBaseCoin's last argument (Props: bridge_call_token_holder_is_caller)
    match nats [ti, c, a] with
    | some [ti, c, a] =>
      let w := st.t ti
      let holderIsCaller := FxVerif.Gen.C10.closures.any (fun cl => cl.abiName == "bridgeCall" &&
        cl.steps.any (fun s => s.callee == "EvmToBaseCoin" && s.args.getLast? == some "caller"))
      if !holderIsCaller then some (st, "unknown-step")
      else if w.tok c < a then some (st, s!"err t={w.tok c} a={w.appr c 7}")
      else
        let w' : FxVerif.Model.C10Tok.TW := { w with tok := FxVerif.Model.C10Tok.upd w.tok c (w.tok c - a) }
        some ({ st with t := fun i => if i = ti then w' else st.t i }, s!"ok t={w'.tok c} a={w'.appr c 7}")
    | _ => none
  | _ => none

def step (st : World) (line : String) : World × String :=
  match words line with
  | "reset" :: _ => (wInit, "ok")
  | ["set", "shares", a, n] =>
    match nats [a, n] with
    | some [a, n] => ({ st with shares := upd st.shares a n }, "ok")
    | _ => (st, "bad-op")
  | ["set", "bal", a, n] =>
    match nats [a, n] with
    | some [a, n] => ({ st with bal := upd st.bal a n }, "ok")
    | _ => (st, "bad-op")
  | ["set", "allow", a, b, n] =>
    match nats [a, b, n] with
    | some [a, b, n] => ({ st with allow := upd2 st.allow a b n }, "ok")
    | _ => (st, "bad-op")
  | ["set", "dust", a, n] =>
    match nats [a, n] with
    | some [a, n] => ({ st with dust := upd st.dust a n }, "ok")
    | _ => (st, "bad-op")
  | ["set", "val", t, r] =>
    -- the validator's bonded tokens and its delegator shares (10^-18 units): the exchange rate of delegate / undelegate / redelegate
    match nats [t, r] with
    | some [t, r] => ({ st with vTok := t, vShr := r }, "ok")
    | _ => (st, "bad-op")
  | ["set", "unb", a, n] =>
    match nats [a, n] with
    | some [a, n] => ({ st with unbonding := upd st.unbonding a n }, "ok")
    | _ => (st, "bad-op")
  | ["slash", p, r, c] =>
    -- the staking module slashes the validator between two calls (`Keeper.Slash` at the current height): an environment
    -- step of the history (`EStep.slash`); the answer is the validator's bonded tokens afterwards
    match nats [p, r, c] with
    | some [p, r, c] => let w' := applyE st (.slash p r c); (w', s!"vt={w'.vTok} vs={w'.vShr}")
    | _ => (st, "bad-op")
  | ["set", "nextid", n] =>
    match nats [n] with
    | some [n] => ({ st with nextId := n }, "ok")
    | _ => (st, "bad-op")
  | ["set", "pool", i, s, n] =>
    match nats [i, s, n] with
    | some [i, s, n] => ({ st with pool := ⟨i, s, n⟩ :: st.pool }, "ok")
    | _ => (st, "bad-op")
  | ["disp", kind, m, mid, _w, addr, ents] =>
    match kindOf kind with
    | some k =>
      match readonlyFlag k with
      | some ro =>
        let r := runGen (entriesOf ents) ro addr.toList mid.toList ⟨1, 9, selfOf addr, 0⟩ (callOf m) w0
        match r.out with
        | .error .writeProtection => (st, "blocked:readonly")
        | .error .disabled => (st, "blocked:disabled")
        | .error .unknownMethod => (st, "unknown-method")
        | .error .unknownStep => (st, "unknown-step")
        | _ => (st, if r.executed then "ran" else "not-run")
      | none => (st, "no-readonly-fact")
    | none => (st, "bad-op")
  | "hu" :: kind :: caller :: origin :: addr :: mid :: ents :: m :: args =>
    -- the same call made in a frame that REVERTs afterwards (caught): it ran, and nothing of it remains
    match kindOf kind, nats [caller, origin], hcallOf m args with
    | some k, some [c, o], some call =>
      match readonlyFlag k with
      | some ro =>
        let r := runGen (entriesOf ents) ro addr.toList mid.toList ⟨c, o, selfOf addr, hvalueOf m args⟩ call st
        match r.out with
        | .ok _ => (st, "undone " ++ observe c (selfOf addr) call st)
        | .error _ => (st, statusOf call r ++ " " ++ observe c (selfOf addr) call st)
      | none => (st, "no-readonly-fact")
    | _, _, _ => (st, "bad-op")
  | "h" :: kind :: caller :: origin :: addr :: mid :: ents :: m :: args =>
    match kindOf kind, nats [caller, origin], hcallOf m args with
    | some k, some [c, o], some call =>
      match readonlyFlag k with
      | some ro =>
        let r := runGen (entriesOf ents) ro addr.toList mid.toList ⟨c, o, selfOf addr, hvalueOf m args⟩ call st
        let st' := match r.out with | .ok w' => w' | .error _ => st
        (st', statusOf call r ++ " " ++ observe c (selfOf addr) call st')
      | none => (st, "no-readonly-fact")
    | _, _, _ => (st, "bad-op")
  | _ => (st, "bad-op")

def stepD (st : DSt) (line : String) : DSt × String :=
  match words line with
  | "reset" :: _ => (dInit, "ok")
  | "tkset" :: r => (match stepTok st ("tkset" :: r) with | some x => x | none => (st, "bad-op"))
  | "tk" :: r => (match stepTok st ("tk" :: r) with | some x => x | none => (st, "bad-op"))
  | "tkb" :: r => (match stepTok st ("tkb" :: r) with | some x => x | none => (st, "bad-op"))
  | ["set", "dst", a, n] =>
    match nats [a, n] with
    | some [a, n] => ({ st with dst := fun x => if x = a then n else st.dst x }, "ok")
    | _ => (st, "bad-op")
  | "h" :: _kind :: caller :: _origin :: _addr :: _mid :: _ents :: "redelegateV2" :: args =>
    -- what leaves the source validator (`redelegateOut`, Model/C10Env.lean) arrives at the destination
    let r := step st.w line
    match nats [caller], nats args with
    | some [c], some [amt] =>
      let arrived := if r.2.startsWith "ran:ok" then redelegateOut st.w c amt * shareScale else 0
      let dst' := fun x => if x = c then st.dst c + arrived else st.dst x
      ({ st with w := r.1, dst := dst' }, r.2 ++ s!" d1={dst' c}")
    | _, _ => ({ st with w := r.1 }, r.2)
  | "hu" :: _kind :: caller :: _origin :: _addr :: _mid :: _ents :: "redelegateV2" :: _args =>
    let r := step st.w line
    match nats [caller] with
    | some [c] => (st, r.2 ++ s!" d1={st.dst c}")
    | _ => (st, r.2)
  | _ => let r := step st.w line; ({ st with w := r.1 }, r.2)

def main : IO Unit := runDriver stepD dInit
