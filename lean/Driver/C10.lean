import FxVerif.Model.C10
import FxVerif.Model.Util
/-! line-protocol driver for the C10 dispatcher model:
`disp <kind> <method> <methodIdHex> <writer> <addr> <entries|->` → ran | blocked:readonly | blocked:disabled -/
open FxVerif FxVerif.Util FxVerif.Gen.C09 FxVerif.Model.C10

def kindOf : String → Option Kind
  | "call" => some .call | "staticcall" => some .staticcall
  | "delegatecall" => some .delegatecall | "callcode" => some .callcode | _ => none

def callOf (m : String) : Call :=
  match m with
  | "delegateV2" => .delegate 0 | "undelegateV2" => .undelegate 0 | "redelegateV2" => .redelegate 0
  | "withdraw" => .withdraw | "approveShares" => .approve 2 0 | "transferShares" => .transferShares 2 0
  | "transferFromShares" => .transferFromShares 2 3 0 | "crossChain" => .crossChain 0 0 2
  | "cancelSendToExternal" => .cancelSend 1 | "increaseBridgeFee" => .increaseFee 1 0
  | "bridgeCall" => .bridgeCall 2 3 0 | "executeClaim" => .executeClaim 0 | n => .view n

def w0 : World := ⟨fun _ => 10, fun _ => 10, fun _ => 0, fun _ => 0, fun _ _ => 10, [⟨1, 1, 5⟩], 2⟩

def step (st : Unit) (line : String) : Unit × String :=
  match words line with
  | "reset" :: _ => (st, "ok")
  | ["disp", kind, m, mid, _w, addr, ents] =>
    match kindOf kind with
    | some k =>
      match readonlyFlag k with
      | some ro =>
        let dis := if ents == "-" then [] else (ents.splitOn ",").map String.toList
        match run disabledCheck minfos dis ro addr.toList mid.toList ⟨1, 9⟩ (callOf m) w0 with
        | .error .writeProtection => (st, "blocked:readonly")
        | .error .disabled => (st, "blocked:disabled")
        | .error .unknownMethod => (st, "unknown-method")
        | _ => (st, "ran")
      | none => (st, "no-readonly-fact")
    | none => (st, "bad-op")
  | _ => (st, "bad-op")

def main : IO Unit := runDriver step ()
