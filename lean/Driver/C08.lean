import FxVerif.Model.C08
import FxVerif.Model.Util
/-! line-protocol driver for the C08 model.  Denominations / contracts are group numbers, alias `100 + 10 g + c` is the
bridge denomination of group `g` on chain `c`; aliases below 100 name base denominations (malformed stream). -/
open FxVerif FxVerif.Util FxVerif.Model.Ledger FxVerif.Model.Flows FxVerif.Model.C08

structure St where
  L : Ledger
  idx : Idx

def idx0 : Idx := addPair { md := [(0, [])] } ⟨0, 0, true, false⟩

def ledger0 : Ledger where
  bal := fun a x => match a, x with
    | .base 0, .user u => if u < 3 then 1000 else 0
    | _, _ => 0
  supply := fun _ => 0
  owner := fun a => match a with | .erc _ => some .erc20Mod | _ => none

def cfgOf (i : Idx) : CCfg where
  kindReg := fun g => match lookup g i.byDenom with
    | some id => (lookup id i.pairs).map (fun p => if p.external then Kind.externalOwned else if g = 0 then .fx else .moduleOwned)
    | none => none
  enabled := fun g => match lookup g i.byDenom with
    | some id => ((lookup id i.pairs).map (·.enabled)).getD false
    | none => false
  hasAlias := fun g c => match lookup g i.md with
    | some as => as.contains (100 + 10 * g + c)
    | none => false

def nG : Nat := 8
def accts : List (String × Addr) := [("u0", .user 0), ("u1", .user 1), ("u2", .user 2), ("e", .erc20Mod), ("w", .wfx)]
def assetsOf (g : Nat) : List (String × Asset) :=
  [(s!"g{g}B", .base g), (s!"g{g}b0", .bridge g 0), (s!"g{g}b1", .bridge g 1), (s!"g{g}b2", .bridge g 2), (s!"g{g}T", .erc g)]

def showLedger (L : Ledger) : String :=
  let all := (List.range nG).flatMap assetsOf
  let bals := accts.flatMap fun (an, a) => all.filterMap fun (sn, as) =>
    let v := L.bal as a
    if v == 0 then none else some s!"{an}.{sn}={v}"
  let sups := all.filterMap fun (sn, as) =>
    if as == Asset.base 0 then none else
    let v := L.supply as
    if v == 0 then none else some s!"s.{sn}={v}"
  " ".intercalate (bals ++ sups)

def showIdx (i : Idx) : String :=
  let ps := (i.pairs.mergeSort (fun a b => a.1.1 ≤ b.1.1)).map fun (_, p) =>
    s!"P{p.denom}:{p.contract}:{if p.enabled then 1 else 0}:{if p.external then 1 else 0}"
  let ds := (i.byDenom.mergeSort (fun a b => a.1 ≤ b.1)).map fun (d, id) => s!"D{d}>{id.1}:{id.2}"
  let es := (i.byErc.mergeSort (fun a b => a.1 ≤ b.1)).map fun (c, id) => s!"E{c}>{id.1}:{id.2}"
  let as := (i.aliasIdx.mergeSort (fun a b => a.1 ≤ b.1)).map fun (a, d) => s!"A{a}>{d}"
  let ms := (i.md.mergeSort (fun a b => a.1 ≤ b.1)).map fun (d, l) => s!"M{d}=" ++ ",".intercalate (l.map toString)
  " ".intercalate (ps ++ ds ++ es ++ as ++ ms)

def parseList (w : String) : Option (List Nat) := if w == "-" then some [] else (w.splitOn ",").mapM String.toNat?
def parseDen (w : String) : Option Den := if w == "B" then some .base else w.toNat?.map Den.chain

def mintTo (L : Ledger) (a : Asset) (x : Addr) (n : Nat) : Ledger :=
  (L.setBal a x (L.bal a x + n)).setSupply a (L.supply a + n)

def step (st : St) (line : String) : St × String :=
  let led (r : Except Err Ledger) : St × String :=
    match r with
    | .ok L' => ({ st with L := L' }, "ok " ++ showLedger L')
    | .error _ => (st, "err " ++ showLedger st.L)
  let ix (r : Except Err Idx) : St × String :=
    match r with
    | .ok i => ({ st with idx := i }, "ok " ++ showIdx i)
    | .error _ => (st, "err " ++ showIdx st.idx)
  match words line with
  | "reset" :: _ => (⟨ledger0, idx0⟩, "ok")
  | ["fund", k, g, u, n] =>
    match k.toNat?, g.toNat?, u.toNat?, n.toNat? with
    | some k, some g, some u, some n =>
      let a : Asset := if k == 0 then .base g else if k ≤ 3 then .bridge g (k - 1) else .erc g
      let L' := mintTo st.L a (.user u) n
      -- an externally deployed ERC-20 is owned by its deployer
      let L' := if k == 4 then { L' with owner := fun a' => if a' = a then some (.ext 1) else L'.owner a' } else L'
      ({ st with L := L' }, "ok " ++ showLedger L')
    | _, _, _, _ => (st, "bad-op")
  | ["ccoin", g, u, r, n] =>
    match g.toNat?, u.toNat?, r.toNat?, n.toNat? with
    | some g, some u, some r, some n => led (stepC (cfgOf st.idx) st.L (.coin g u r n))
    | _, _, _, _ => (st, "bad-op")
  | ["cerc", g, u, r, n] =>
    match g.toNat?, u.toNat?, r.toNat?, n.toNat? with
    | some g, some u, some r, some n => led (stepC (cfgOf st.idx) st.L (.erc g u r n))
    | _, _, _, _ => (st, "bad-op")
  | ["cden", g, u, r, n, a, b] =>
    match g.toNat?, u.toNat?, r.toNat?, n.toNat?, parseDen a, parseDen b with
    | some g, some u, some r, some n, some a, some b => led (stepC (cfgOf st.idx) st.L (.den g u r n a b))
    | _, _, _, _, _, _ => (st, "bad-op")
  | ["regcoin", d, ct, as] =>
    match d.toNat?, ct.toNat?, parseList as with
    | some d, some ct, some as => ix (stepIdx st.idx (.registerCoin d ct as))
    | _, _, _ => (st, "bad-op")
  | ["regerc", d, ct, as] =>
    match d.toNat?, ct.toNat?, parseList as with
    | some d, some ct, some as => ix (stepIdx st.idx (.registerERC20 d ct as))
    | _, _, _ => (st, "bad-op")
  | ["toggle", d] =>
    match d.toNat? with
    | some d => ix (stepIdx st.idx (.toggle d))
    | none => (st, "bad-op")
  | ["upalias", d, a] =>
    match d.toNat?, a.toNat? with
    | some d, some a => ix (stepIdx st.idx (.updateAlias d a))
    | _, _ => (st, "bad-op")
  | _ => (st, "bad-op")

def main : IO Unit := runDriver step ⟨ledger0, idx0⟩
