import FxVerif.Model.C08U
import FxVerif.Model.C08Cache
import FxVerif.Model.C08Journal
import FxVerif.Gen.C08c
import FxVerif.Model.C08Gen
import FxVerif.Gen.C08d
import FxVerif.Model.Util
/-! line-protocol driver for the C08 model (unified, denomination / contract level).

Coin denominations are numbers: `d < 100` base denominations, `100 + 10 g + c` the bridge denomination of family `g` on
chain `c` (any denomination may be made an alias of any registered denomination).  ERC-20 contracts are numbers
(`0` = WFX, module-deployed and external contracts are numbered by the harness in order of appearance).  Receivers are
parties (`partyAddr`): users 0-2, 3 erc20 module, 4 eth crosschain module, 5 fee collector, 6 gov, 7 a precompile
address, 8 the zero address, 1000 + ct the account of contract ct (balances of contract accounts other than WFX are not
printed and not kept by `compact`: they are never senders).
Every answer is `<ok | err:kind> | <ledger> | <indexes>`; `mix …` lines are answered by the StateDB cache model, `mixx …`
lines (sub-call frames, transferFrom by the caller, executeClaim) by the journal model on top of it. -/
open FxVerif FxVerif.Util FxVerif.Model.Ledger FxVerif.Model.Flows FxVerif.Model.C08

structure St where
  u : UState
  ext : List Nat        -- externally deployed (externally owned) contracts
  styles : List (Nat × Style) := []   -- how a raw test token signals success / failure (default: FIP20)

def St.styleOf (st : St) (ct : Nat) : Style :=
  match st.styles.find? (fun p => p.1 == ct) with
  | some p => p.2
  | none => {}

def idx0 : Idx := genesisIdx

def ownerFn (ext : List Nat) : Asset → Option Addr
  | .erc ct => if ext.contains ct then some (.ext 1) else some .erc20Mod
  | _ => none

def ledger0 : Ledger where
  bal := fun a x => match a, x with
    | .base 0, .user u => if u < 3 then 1000 else 0
    | _, _ => 0
  supply := fun _ => 0
  owner := ownerFn []

def st0 : St := { u := { idx := idx0, L := ledger0 }, ext := [] }

def nG : Nat := 8
def nCt : Nat := 48
def accts : List (String × Addr) :=
  [("u0", .user 0), ("u1", .user 1), ("u2", .user 2), ("e", .erc20Mod), ("w", .wfx),
   ("m", partyAddr 4), ("f", partyAddr 5), ("g", partyAddr 6), ("p", partyAddr 7), ("z", partyAddr 8)]
def coinIds : List Nat := List.range nG ++ (List.range nG).flatMap (fun g => (List.range 3).map (fun c => 100 + 10 * g + c))
def assets : List (String × Asset) :=
  coinIds.map (fun d => (s!"d{d}", coinAsset d)) ++ (List.range nCt).map (fun ct => (s!"c{ct}", Asset.erc ct))

def lookupD {α : Type} [BEq α] (k : α) : List (α × Nat) → Nat
  | [] => 0
  | (k', v) :: rest => if k' == k then v else lookupD k rest

/-- rebuild the ledger functions from a finite table of the tracked keys (keeps closures shallow; identity on every
tracked key, and the flows never touch an untracked one) -/
def compact (ext : List Nat) (L : Ledger) : Ledger :=
  let tb : List ((Asset × Addr) × Nat) := assets.flatMap fun (_, a) => accts.filterMap fun (_, x) =>
    let v := L.bal a x
    if v == 0 then none else some ((a, x), v)
  let ts : List (Asset × Nat) := assets.filterMap fun (_, a) =>
    let v := L.supply a
    if v == 0 then none else some (a, v)
  { bal := fun a x => lookupD (a, x) tb, supply := fun a => lookupD a ts, owner := ownerFn ext }

def showLedger (L : Ledger) : String :=
  let bals := accts.flatMap fun (an, a) => assets.filterMap fun (sn, as) =>
    let v := L.bal as a
    -- module accounts hold native coin for their own purposes: printed for the users, the erc20 module and WFX only
    if v == 0 || (sn == "d0" && an.length == 1 && an != "e" && an != "w") then none else some s!"{an}.{sn}={v}"
  let sups := assets.filterMap fun (sn, as) =>
    if as == Asset.base 0 then none else
    let v := L.supply as
    if v == 0 then none else some s!"s.{sn}={v}"
  " ".intercalate (bals ++ sups)

def showIdx (i : Idx) : String :=
  let ps := (i.pairs.mergeSort (fun a b => a.1.1 ≤ b.1.1)).map fun (_, p) =>
    s!"P{p.denom}:{p.contract}:{if p.enabled then 1 else 0}:{if p.external then 1 else 0}"
  let ds := (i.byDenom.mergeSort (fun a b => a.1 ≤ b.1)).map fun (d, id) => s!"D{d}>{id.1}:{id.2}"
  let es := (i.byErc.mergeSort (fun a b => a.1 ≤ b.1)).map fun (c, id) => s!"E{c}>{id.1}:{id.2}"
  let as := (i.aliasIdx.mergeSort (fun a b => a.1 ≤ b.1)).map fun (a, d) => s!"A{a}>{d}"
  let ms := (i.md.mergeSort (fun a b => a.1 ≤ b.1)).map fun (d, l) => s!"M{d}=" ++ ",".intercalate (l.map toString)
  " ".intercalate (ps ++ ds ++ es ++ as ++ ms)

def showErr : Err → String
  | .insufficient => "funds"
  | .notOwner => "funds"
  | .notFound => "notfound"
  | .invalid => "invalid"
  | .disabled => "disabled"

def parseList (w : String) : Option (List Nat) := if w == "-" then some [] else (w.splitOn ",").mapM String.toNat?

def mintTo (L : Ledger) (a : Asset) (x : Addr) (n : Nat) : Ledger :=
  (L.setBal a x (L.bal a x + n)).setSupply a (L.supply a + n)

def answer (st : St) (res : String) : St × String :=
  (st, res ++ " | " ++ showLedger st.u.L ++ " | " ++ showIdx st.u.idx ++ (if st.u.enable then "" else " off"))

/-- the keeper-level transfers are read through the wrapper condition regenerated from x/evm/keeper/erc20.go -/
def msg (st : St) (op : UOp) : St × String :=
  match stepUA FxVerif.Gen.C08c.erc20Transfer_accepts st.styleOf st.u op with
  | .ok u' => answer { st with u := { u' with L := compact st.ext u'.L } } "ok"
  | .error e => answer st ("err:" ++ showErr e)

def nats (ws : List String) : Option (List Nat) := ws.mapM String.toNat?

def step (st : St) (line : String) : St × String :=
  match words line with
  | "reset" :: _ => (st0, "ok")
  | "mix" :: rest => (st, FxVerif.Model.C08Cache.answerMix rest)
  | "mixx" :: rest => (st, FxVerif.Model.C08Cache.answerMixX rest)
  | ["fundc", d, u, n] =>
    match nats [d, u, n] with
    | some [d, u, n] => answer { st with u := { st.u with L := compact st.ext (mintTo st.u.L (coinAsset d) (.user u) n) } } "ok"
    | _ => (st, "bad-op")
  | ["deploys", ct, o, f] =>
    -- a raw externally-owned test token: success signalled by `true` (0) / nothing (1); failure by revert (0) / `false`
    -- (1) / nothing (2)
    match nats [ct, o, f] with
    | some [ct, o, f] =>
      let ext := ct :: st.ext
      let sty : Style := { ok := if o == 0 then .retTrue else .retNothing,
                           fail := if f == 0 then .revert else if f == 1 then .retFalse else .retNothing }
      answer { st with u := { st.u with L := compact ext st.u.L }, ext := ext, styles := (ct, sty) :: st.styles } "ok"
    | _ => (st, "bad-op")
  | ["deploy", ct] =>
    match ct.toNat? with
    | some ct =>
      let ext := ct :: st.ext
      answer { st with u := { st.u with L := compact ext st.u.L }, ext := ext } "ok"
    | none => (st, "bad-op")
  | ["funde", ct, u, n] =>
    match nats [ct, u, n] with
    | some [ct, u, n] => answer { st with u := { st.u with L := compact st.ext (mintTo st.u.L (.erc ct) (.user u) n) } } "ok"
    | _ => (st, "bad-op")
  | ["xfer", ct, u, p, n] =>
    -- a direct `token.transfer(party, n)` by user `u` (not a message of the erc20 module)
    match nats [ct, u, p, n] with
    | some [ct, u, p, n] =>
      -- the token refuses (zero address, insufficient balance) in its own style: a revert fails the call, a `false` /
      -- empty return leaves the call successful with nothing moved
      if partyAddr p = zeroAddr ∨ st.u.L.bal (.erc ct) (.user u) < n then
        (if (st.styleOf ct).fail = .revert then answer st "err:funds" else answer st "ok")
      else
      match runFlow [.send (.erc ct) (.user u) (partyAddr p) n] st.u.L with
      | .ok L => answer { st with u := { st.u with L := compact st.ext L } } "ok"
      | .error e => answer st ("err:" ++ showErr e)
    | _ => (st, "bad-op")
  | ["kill", ct] =>
    match ct.toNat? with
    | some ct =>
      -- the account, its code and its storage are gone: every balance and the total supply read as zero
      let L : Ledger := { st.u.L with bal := fun a x => if a = .erc ct then 0 else st.u.L.bal a x,
                                      supply := fun a => if a = .erc ct then 0 else st.u.L.supply a }
      answer { st with u := { st.u with L := compact st.ext L, dead := ct :: st.u.dead } } "ok"
    | none => (st, "bad-op")
  | ["ccoin", d, u, r, n] =>
    match nats [d, u, r, n] with
    | some [d, u, r, n] => msg st (.convertCoin d u r n)
    | _ => (st, "bad-op")
  | ["cerc", ct, u, r, n] =>
    match nats [ct, u, r, n] with
    | some [ct, u, r, n] => msg st (.convertERC20 ct u r n)
    | _ => (st, "bad-op")
  | ["cden", d, u, r, n, t] =>
    match nats [d, u, r, n], (if t == "E" then some none else t.toNat?.map some) with
    | some [d, u, r, n], some t => msg st (.convertDenom d u r n t)
    | _, _ => (st, "bad-op")
  | ["regcoin", d, ct, as] =>
    match d.toNat?, ct.toNat?, parseList as with
    | some d, some ct, some as => msg st (.idx (.registerCoin d ct as))
    | _, _, _ => (st, "bad-op")
  | ["regerc", d, ct, as] =>
    match d.toNat?, ct.toNat?, parseList as with
    | some d, some ct, some as => msg st (.idx (.registerERC20 d ct as))
    | _, _, _ => (st, "bad-op")
  | ["toggle", d] =>
    match d.toNat? with
    | some d => msg st (.idx (.toggle d))
    | none => (st, "bad-op")
  | ["upalias", d, a] =>
    match d.toNat?, a.toNat? with
    | some d, some a => msg st (.idx (.updateAlias d a))
    | _, _ => (st, "bad-op")
  | ["genesis"] =>
    -- erc20 ExportGenesis, the store wiped, InitGenesis: what the loop body regenerated from the AST does for every pair
    answer { st with u := { st.u with idx := genesisRoundTrip (restoresAliases FxVerif.Gen.C08d.initGenesis_loop_calls) st.u.idx } } "ok"
  | ["enable", b] =>
    match b.toNat? with
    | some b => msg st (.setEnable (b != 0))
    | none => (st, "bad-op")
  | _ => (st, "bad-op")

def main : IO Unit := runDriver step st0
