import FxVerif.Model.C15
import FxVerif.Model.C15Staking
import FxVerif.Model.Util
/-! line-protocol driver for the C15 model: `lake env lean --run Driver/C15.lean < ops.txt` -/
open FxVerif FxVerif.Util FxVerif.Model.C15

def nat? (w : String) : Option Nat := w.toNat?
def bool? (w : String) : Option Bool := if w == "1" then some true else if w == "0" then some false else none

def parseAct : List String → Option Act
  | ["noop"] => some .noop
  | ["cas", k, o, n] => do some (.cas (← nat? k) (← nat? o) (← nat? n))
  | ["credit", fx, other, to] => do some (.credit (← nat? fx) (← nat? other) (← nat? to))
  | ["setc", url, r, p, q] => do some (.setCustom url.toList (some ⟨← nat? r, ← nat? p, ← nat? q⟩))
  | ["delc", url] => some (.setCustom url.toList none)
  | ["govdep", pid, amt] => do some (.govDeposit (← nat? pid) (← nat? amt))
  | ["govsub", initial, exp] => do some (.govSubmit (← nat? initial) (← bool? exp))
  | ["govspend", amt, to] => do some (.govSpend (← nat? amt) (← nat? to))
  | _ => none

def parseMsg (w : String) : Option Msg :=
  match w.splitOn "," with
  | url :: wf :: ok :: act =>
    -- `outer>inner`: a MsgExecLegacyContent and the type url of the content it wraps
    match url.splitOn ">" with
    | [u] => do some ⟨u.toList, ← bool? wf, ← bool? ok, ← parseAct act, []⟩
    | [u, i] => do some ⟨u.toList, ← bool? wf, ← bool? ok, ← parseAct act, i.toList⟩
    | _ => none
  | _ => none

def parseOpt (w : String) : Option (Opt × Nat) :=
  match w.splitOn ":" with
  | ["yes", x] => do some (.yes, ← nat? x)
  | ["abstain", x] => do some (.abstain, ← nat? x)
  | ["no", x] => do some (.no, ← nat? x)
  | ["veto", x] => do some (.veto, ← nat? x)
  | _ => none

/-- staking numbers of a block: `b,<total bonded>`, `v,<operator>,<bonded tokens>,<shares>`, `d,<who>,<validator>,<shares>` -/
def parseStaking : List String → Staking → Option Staking
  | [], st => some { st with vals := st.vals.reverse, dels := st.dels.reverse }
  | w :: r, st =>
    match w.splitOn "," with
    | ["b", x] => do parseStaking r { st with totalBonded := ← nat? x }
    | ["v", a, b, c] => do parseStaking r { st with vals := ⟨← nat? a, ← nat? b, ← nat? c⟩ :: st.vals }
    | ["d", a, b, c] => do parseStaking r { st with dels := ⟨← nat? a, ← nat? b, ← nat? c⟩ :: st.dels }
    | _ => none

def parseParams : List String → Option Params
  | [a, b, c, d, e, f, g, h, i, j, k, l, m, n, o, q] => do
    some { minDeposit := ← nat? a, expMinDeposit := ← nat? b, maxDepositPeriod := ← nat? c, votingPeriod := ← nat? d,
           expVotingPeriod := ← nat? e, quorum := ← nat? f, minInitialDepositRatio := ← nat? g, minDepositRatio := ← nat? h,
           cancelRatio := ← nat? i, cancelDest := ← nat? j, burnPrevote := ← bool? k, burnVoteQuorum := ← bool? l,
           burnVoteVeto := ← bool? m, threshold := ← nat? n, expThreshold := ← nat? o, vetoThreshold := ← nat? q }
  | _ => none

def parseOp : List String → Option Op
  | ["mint", who, amt] => do some (.mint (← nat? who) (← nat? amt))
  | "params" :: r => do some (.updateParams (← parseParams r))
  | ["custom", url, "remove"] => some (.updateCustom url.toList none)
  | ["custom", url, r, p, q] => do some (.updateCustom url.toList (some ⟨← nat? r, ← nat? p, ← nat? q⟩))
  | "submit" :: who :: exp :: initial :: msgs => do
    some (.submit (← nat? who) (← msgs.mapM parseMsg) (← nat? initial) (← bool? exp))
  | ["deposit", pid, who, amt] => do some (.deposit (← nat? pid) (← nat? who) (← nat? amt))
  | ["depositx", pid, who, fx, other] => do some (.depositX (← nat? pid) (← nat? who) (← nat? fx) (← nat? other))
  | ["cancel", pid, who] => do some (.cancel (← nat? pid) (← nat? who))
  | ["vote", pid, voter, opts] => do some (.vote (← nat? pid) (← nat? voter) (← (opts.splitOn ",").mapM parseOpt))
  | "endblock" :: dt :: stk => do some (.endBlock (← nat? dt) (← parseStaking stk {}))
  | _ => none

def showStatus : Status → String
  | .deposit => "deposit" | .voting => "voting" | .passed => "passed" | .rejected => "rejected" | .failed => "failed"

def b2s (b : Bool) : String := if b then "1" else "0"

def showProp (p : Proposal) : String :=
  let v := if p.status == .deposit then ":-:-" else s!":{p.votingStart}:{p.votingEnd}"
  let t := p.tallyRes
  s!"{p.id}:{showStatus p.status}:{p.total}:{p.depositEnd}{v}:{b2s p.expedited}:{t.1}/{t.2.1}/{t.2.2.1}/{t.2.2.2}"

def showOpt : Opt × Nat → String
  | (.yes, w) => s!"yes:{w}" | (.abstain, w) => s!"abstain:{w}" | (.no, w) => s!"no:{w}" | (.veto, w) => s!"veto:{w}"

def showQ (q : List (Nat × Nat)) : String := ";".intercalate (q.map fun e => s!"{e.1}/{e.2}")

def showState (s : State) : String :=
  let ps := s.props.mergeSort (fun a b => a.id ≤ b.id)
  let ds := s.deps.mergeSort (fun a b => a.pid < b.pid || (a.pid == b.pid && a.who ≤ b.who))
  let vs := s.votes.mergeSort (fun a b => a.pid < b.pid || (a.pid == b.pid && a.voter ≤ b.voter))
  let cs := (s.custom.map fun c => (String.ofList c.1, c.2)).mergeSort (fun a b => a.1 ≤ b.1)
  s!"nid={s.nextId} gov={s.gov} props=[{";".intercalate (ps.map showProp)}] deps=[{";".intercalate (ds.map fun d => s!"{d.pid}/{d.who}={d.amt}")}]" ++
  s!" inact=[{showQ s.inactive}] act=[{showQ s.active}] bal=[{";".intercalate ([0, 1, 2, 3].map fun a => s!"{a}={getBal s.bal a}")}]" ++
  s!" kv={getKv s.kv 0},{getKv s.kv 1},{getKv s.kv 2},{getKv s.kv 3}" ++
  s!" cust=[{";".intercalate (cs.map fun c => s!"{c.1}={c.2.depositRatio}/{c.2.votingPeriod}/{c.2.quorum}")}]" ++
  s!" votes=[{";".intercalate (vs.map fun v => s!"{v.pid}/{v.voter}={",".intercalate (v.opts.map showOpt)}")}]"

/-- the numbers the harness read from the real staking keeper against the numbers of the modelled staking state -/
def sameStaking (a b : Staking) : Bool :=
  let sv (l : List Val) := l.mergeSort (fun x y => x.op ≤ y.op)
  let sd (l : List Del) := l.mergeSort (fun x y => x.who < y.who || (x.who == y.who && x.val ≤ y.val))
  a.totalBonded == b.totalBonded && sv a.vals == sv b.vals && sd a.dels == sd b.dels

def showStaking (a : Staking) : String :=
  s!"b={a.totalBonded} v=[{";".intercalate (a.vals.map fun v => s!"{v.op}/{v.bonded}/{v.shares}")}] d=[{";".intercalate (a.dels.map fun d => s!"{d.who}/{d.val}/{d.shares}")}]"

def wLine (w : World) (op : WOp) : World × String :=
  let (w', r) := wstep w op
  (w', r ++ " " ++ showState w'.gov)

def stepLine (w : World) (line : String) : World × String :=
  match words line with
  | "reset" :: _ => (winit, "ok")
  | ["gcustom", url, r, p, q] =>
    -- genesis custom parameters, read from the real store at the start of a sequence
    match nat? r, nat? p, nat? q with
    | some r, some p, some q => ((wstep w (.gov (.updateCustom url.toList (some ⟨r, p, q⟩)))).1, "ok")
    | _, _, _ => (w, "bad-op")
  | "gstaking" :: ws =>
    -- genesis staking state (validators, their delegations), read from the real keeper at the start of a sequence
    match ws with
    | red :: ws =>
      match nat? red, parseStaking ws {} with
      | some red, some g => wstep w (.genesis { vals := g.vals, dels := g.dels, reduction := red })
      | _, _ => (w, "bad-op")
    | [] => (w, "bad-op")
  | ["delegate", who, val, amt] =>
    match nat? who, nat? val, nat? amt with
    | some who, some val, some amt => wLine w (.delegate who val amt)
    | _, _, _ => (w, "bad-op")
  | ["slash", val, factor] =>
    match nat? val, nat? factor with
    | some val, some factor => wLine w (.slash val factor)
    | _, _ => (w, "bad-op")
  | "tx" :: ws =>
    -- an op carried by a transaction of the block that the next `endblock` finalizes: the result kind only
    match parseOp ws with
    | none => (w, "bad-op")
    | some op => wstep w (.gov op)
  | ws =>
    match parseOp ws with
    | none => (w, "bad-op")
    | some (.endBlock dt real) =>
      -- the end-blocker reads the MODELLED staking state; the real numbers on the line must be the same numbers
      let (w', r) := wLine w (.gov (.endBlock dt real))
      if sameStaking real (viewOf w.stk) then (w', r)
      else (w', r ++ " STAKING-NUMBERS-DIFFER model:" ++ showStaking (viewOf w.stk))
    | some op => wLine w (.gov op)

def main : IO Unit := runDriver stepLine winit
