import FxVerif.Model.C18
import FxVerif.Model.C18P
import FxVerif.Model.C18E
import FxVerif.Model.Util
/-! line-protocol driver for the C18 model: `lake env lean --run Driver/C18.lean < ops.txt`.
Every boundary is run through the composition COMPILED FROM THE GENERATED call lists, on a state of marks. -/
open FxVerif FxVerif.Util FxVerif.Gen.C18 FxVerif.Model.C18

abbrev Marks := List String

def mark (m : String) : Marks → Marks := fun s => if s.contains m then s else m :: s

def showMarks (s : Marks) : String :=
  let sorted := s.mergeSort (fun a b => a ≤ b)
  if sorted.isEmpty then "-" else ",".intercalate sorted

def one (m : String) : SubStep Marks := ⟨[mark m], none⟩
def nothing : SubStep Marks := ⟨[], none⟩

/-- cached sub-step: `n` writes of mark `m`, failing at `failAt` -/
def cachedSub (m : String) (n : Nat) (failAt : Option Nat) : SubStep Marks := ⟨List.replicate (n + 1) (mark m), failAt⟩

def parseFail (w : String) : Option (Option Nat) :=
  if w == "-" then some none else (w.toNat?).map some

def attEff (n : Nat) (f : Option Nat) : String → SubStep Marks
  | "k.SetLastObservedEventNonce" => one "lastObservedNonce"
  | "k.SetLastObservedBlockHeight" => one "lastObservedHeight"
  | "k.SetAttestation" => one "att"
  | "k.AttestationHandler" => cachedSub "bridgeDenom" n f
  | "k.cleanupTimedOutBatches" => nothing
  | "k.cleanupTimeOutBridgeCall" => nothing
  | "k.pruneAttestations" => nothing
  | other => one ("other:" ++ other)

def govEff (n : Nat) (f : Option Nat) : String → SubStep Marks
  | "set proposal.Status = v1.StatusFailed" => one "status=failed"
  | "set proposal.Status = v1.StatusPassed" => one "status=passed"
  | "safeExecuteHandler" => cachedSub "msgs" n f
  | other => one ("other:" ++ other)

def ibcEff (n : Nat) (f : Option Nat) : String → SubStep Marks
  | "cbs.OnRecvPacket" => cachedSub "app" n f
  | "k.ChannelKeeper.WriteAcknowledgement" => one (if f.isSome then "ack=err" else "ack=ok")
  | other => one ("other:" ++ other)

def runMarks (st : Steps) (eff : String → SubStep Marks) (init : Marks) : String :=
  match runSteps st eff init with
  | .ok s => showMarks s
  | .error _ => "error"

def parseNats (w : String) : Option (List Nat) := (w.splitOn ",").mapM (·.toNat?)

def showNats (xs : List Nat) : String := ",".intercalate (xs.map toString)

def bci (same : Bool) (rfund : Nat) (amts : List Nat) (fail : String) : String :=
  let coins : List (Nat × Nat) := (List.range amts.length).zip amts
  let receiver := 1
  let refund := if same then 1 else 2
  let s : BC := ⟨fun a _ => if a = refund then rfund else 0, fun _ _ => 0, [], [], [7], 0⟩
  let m : BMsg := ⟨7, receiver, refund, coins⟩
  let convert : BC → BC := fun b =>
    { b with bal := debit b.bal receiver coins, erc := fun a t => if a = receiver then b.erc a t + amtOf coins t else b.erc a t }
  let res : Except Unit BC :=
    if fail == "pre" then .error ()
    else bridgeCallIn genMoves m (if fail == "none" then ⟨[convert], none⟩ else ⟨[convert], some 0⟩) s
  let (tag, s') := match res with
    | .ok s' => ("ok", s')
    | .error _ => ("err", s)
  let toks := List.range amts.length
  s!"res={tag} recv={showNats (toks.map (s'.bal receiver))} refund={showNats (toks.map (s'.bal refund))} erc={showNats (toks.map (s'.erc receiver))} records={s'.records.length} pending={s'.pending.length}"

/-! ## the regenerated structured programs, executed by `Model.C18P.exec` -/

namespace P
open FxVerif.Model.C18P

def baseEnv (trueConds : List String) (iters : Nat) : Env :=
  { ok := fun _ _ => true, panics := fun _ _ => false, evm := fun _ _ => .ok, iters := fun _ _ => iters, stride := 100,
    cond := fun t _ => trueConds.contains t }

def failAt (e : Env) (name : String) (i : Nat) : Env :=
  { e with ok := fun n j => if n == name && j == i then false else e.ok n j }
def panicAt (e : Env) (name : String) (i : Nat) : Env :=
  { e with panics := fun n j => if n == name && j == i then true else e.panics n j }
def vmErr (e : Env) (name : String) (k : EvmKind) : Env :=
  { e with evm := fun n j => if n == name then k else e.evm n j }

def has (ts : List Tok) (name : String) : Bool := ts.any (fun t => t.name == name)
def count (ts : List Tok) (name : String) : Nat := (ts.filter (fun t => t.name == name)).length
def b01 (b : Bool) : String := if b then "1" else "0"

/-- how a call ends: `ok`, `err` (an error is returned), or a VM error kind in the response -/
def applyCall (e : Env) (name : String) (how : String) : Option Env :=
  match how with
  | "ok" | "-" => some e
  | "err" => some (failAt e name 0)
  | "revert" => some (vmErr e name .revert)
  | "oog" => some (vmErr e name .outOfGas)
  | "invalid" => some (vmErr e name .invalidOpcode)
  | "insufficient" => some (vmErr e name .insufficientBalance)
  | _ =>
    -- `shape:<payload shape>`: the outcome of the interpreter, taken through the REGENERATED helper (Model/C18E):
    -- does CallEVM return an error, and which VM error kind does the response it hands back carry
    if how.startsWith "shape:" then
      match FxVerif.Model.C18E.shapeOutcome (how.drop 6).toString with
      | some o =>
        let e' := vmErr e name (FxVerif.Model.C18E.envKind (fun _ => false) o)
        some (if FxVerif.Model.C18E.envOk (fun _ => false) o then e' else failAt e' name 0)
      | none => none
    else none

def flowStr : Flow → String
  | .norm => "norm" | .brk => "brk" | .cont => "cont" | .ret true => "nil" | .ret false => "err" | .panic => "panic"

/-- `patt <handler category> <ok|fail>` -/
def att (hcat : String) (ok : Bool) : String :=
  let e := baseEnv [] 0
  let e := if ok then e else failAt e "k.AttestationHandler" 0
  let r := run e attestationProg
  let m (t : Tok) : List String :=
    match t.name with
    | "k.SetLastObservedEventNonce" => ["lastObservedNonce"]
    | "k.SetLastObservedBlockHeight" => ["lastObservedHeight"]
    | "k.SetAttestation" => ["att"]
    | "k.AttestationHandler" => if hcat == "-" then [] else hcat.splitOn "+"
    | "k.cleanupTimedOutBatches" | "k.cleanupTimeOutBridgeCall" | "k.pruneAttestations" => []
    | other => ["other:" ++ other]
  let marks := (r.2.outer.flatMap m).foldl (fun acc x => if acc.contains x then acc else x :: acc) ["oracleHeight", "oracleNonce"]
  s!"flow={flowStr r.1} cats={showMarks marks}"

def govConds : List String := ["EndBlocker: passes", "EndBlocker: passes #2"]

def statusOf (o : List Tok) (p : Nat) : String :=
  let has1 (name : String) : Bool := o.any (fun t => t.name == name && t.iter == p)
  if has1 "set proposal.Status = v1.StatusPassed" then "passed"
  else if has1 "set proposal.Status = v1.StatusFailed" || has1 "set proposal.Status = v1.StatusFailed #2" then "failed"
  else if has1 "set proposal.Status = v1.StatusRejected" then "rejected" else "?"

/-- a block of proposals: `specs` = (number of messages, failing message index, panic?) per proposal, in the order
in which `EndBlocker` walks them -/
def govEnv (specs : List (Nat × Option Nat × Bool)) : Env :=
  let e : Env := { baseEnv govConds 0 with iters := fun id p => if id == 1 then specs.length else (specs.getD p (0, none, false)).1 }
  (List.range specs.length).foldl (fun e p =>
    match specs.getD p (0, none, false) with
    | (_, some i, true) => panicAt e "handler" (p * e.stride + i)
    | (_, some i, false) => failAt e "handler" (p * e.stride + i)
    | _ => e) e

def paidOf (e : Env) (o : List Tok) (p n : Nat) : Nat :=
  (o.filter (fun t => t.name == "handler" && p * e.stride ≤ t.iter && t.iter < p * e.stride + n)).length

/-- `pgov <n> <failIdx|-> <err|panic>`: one proposal in the block -/
def gov (n : Nat) (f : Option Nat) (kind : String) : String :=
  let e := govEnv [(n, f, kind == "panic")]
  let r := run e govProg
  s!"flow={flowStr r.1} status={statusOf r.2.outer 0} stored={b01 (has r.2.outer "keeper.SetProposal")} paid={paidOf e r.2.outer 0 n}"

def parseSpec (w : String) : Option (Nat × Option Nat × Bool) :=
  match w.splitOn ":" with
  | [n, f, k] =>
    match n.toNat?, (if f == "-" then some none else (f.toNat?).map some) with
    | some n, some f => some (n, f, k == "panic")
    | _, _ => none
  | _ => none

/-- `pgovb <n:f:kind> …`: several proposals whose voting period ends in the SAME block -/
def govBlock (specs : List (Nat × Option Nat × Bool)) : String :=
  let e := govEnv specs
  let r := run e govProg
  let per := (List.range specs.length).map (fun p =>
    s!"{statusOf r.2.outer p}:{paidOf e r.2.outer p (specs.getD p (0, none, false)).1}")
  s!"flow={flowStr r.1} " ++ " ".intercalate per

/-- `pgovh <n:f:kind:hook> …`: a block of proposals with the `AfterProposalVotingPeriodEnded` hook doing nothing (`-`),
writing and succeeding (`ok`) or writing and FAILING (`fail`) per proposal; third field of the answer: are the hook's
writes in the state -/
def govBlockH (specs : List ((Nat × Option Nat × Bool) × String)) : String :=
  let hookName := "keeper.Hooks().AfterProposalVotingPeriodEnded"
  let e := govEnv (specs.map (·.1))
  let e := (List.range specs.length).foldl (fun e p =>
    if (specs.getD p ((0, none, false), "-")).2 == "fail" then failAt e hookName p else e) e
  let r := run e govProg
  let per := (List.range specs.length).map (fun p =>
    let sp := specs.getD p ((0, none, false), "-")
    let hw := r.2.outer.any (fun t => t.name == hookName && t.iter == p) && sp.2 != "-"
    s!"{statusOf r.2.outer p}:{paidOf e r.2.outer p sp.1.1}:{b01 hw}")
  s!"flow={flowStr r.1} " ++ " ".intercalate per

def parseSpecH (w : String) : Option ((Nat × Option Nat × Bool) × String) :=
  match w.splitOn ":" with
  | [n, f, k, h] => (parseSpec s!"{n}:{f}:{k}").bind (fun sp => if h == "-" || h == "ok" || h == "fail" then some (sp, h) else none)
  | _ => none

/-- `pinact <-|ok|fail> …`: a block of INACTIVE proposals (deposit period ended below the minimum deposit), the
`AfterProposalFailedMinDeposit` hook per proposal as above -/
def inactive (modes : List String) : Option String :=
  if modes.all (fun m => m == "-" || m == "ok" || m == "fail") then
    let hookName := "keeper.Hooks().AfterProposalFailedMinDeposit"
    let e : Env := { baseEnv [] 0 with iters := fun _ _ => modes.length }
    let e := (List.range modes.length).foldl (fun e p => if modes.getD p "-" == "fail" then failAt e hookName p else e) e
    let r := run e govInactiveProg
    let per := (List.range modes.length).map (fun p =>
      b01 (r.2.outer.any (fun t => t.name == hookName && t.iter == p) && modes.getD p "-" != "-"))
    let deleted := count r.2.outer "keeper.DeleteProposal #2"
    if deleted == modes.length then some (s!"flow={flowStr r.1} hooks=" ++ ",".intercalate per) else some s!"flow={flowStr r.1} deleted={deleted}"
  else none

/-- `pxc <ok|fail>`: the executeClaim precompile method around the keeper's ExecuteClaim -/
def xc (ok : Bool) : String :=
  let e := baseEnv ["Run: has"] 0
  let e := if ok then e else failAt e "crosschainKeeper.ExecuteClaim" 0
  let r := run e executeClaimPrecompileProg
  s!"tx={if r.1 == .ret true then "ok" else "failed"} written={b01 (has r.2.outer "crosschainKeeper.ExecuteClaim")}"

/-- `pbci <ntok> <unknown token idx|-> <convFail idx|-> <isContract> <memoSendCallTo> <call> <refund==receiver> <zero coins> <refund calls ok>` -/
def bci (ntok : Nat) (pre conv : Option Nat) (isContract memoCall : Bool) (call : String) (same zero refundOk : Bool) : String :=
  let conds := ["ExecuteClaim: found", "ExecuteClaim: externalClaim.(type) is *types.MsgBridgeCallClaim"]
    ++ (if isContract then ["Keeper.BridgeCallEvm: k.evmKeeper.IsContract(ctx, to)"] else [])
    ++ (if memoCall then ["Keeper.BridgeCallEvm: isMemoSendCallTo", "Keeper.BridgeCallHandler: isMemoSendCallTo"] else [])
    ++ (if same then ["Keeper.BridgeCallHandler: bytes.Equal(receiverAddr.Bytes(), refundAddr.Bytes())"] else [])
    ++ (if zero then ["Keeper.BridgeCallHandler: baseCoins.IsZero()"] else [])
  let e := baseEnv conds ntok
  let e := match conv with
    | none => e
    | some i => failAt e "k.BaseCoinToEvm" i
  let e := match pre with
    | none => e
    | some i => failAt e "k.BridgeTokenToBaseCoin" i
  let e := if refundOk then e else failAt e "k.AddOutgoingBridgeCall" 0
  match applyCall e "k.evmKeeper.CallEVM" call with
  | none => "bad-op"
  | some e =>
    let r := run e executeClaimProg
    match r.1 with
    | .ret true =>
      let o := r.2.outer
      let slot := has o "k.evmKeeper.CallEVM" && call == "ok"
      s!"res=ok pending={b01 (!has o "k.DeletePendingExecuteClaim")} refund={count o "k.AddOutgoingBridgeCall"} moved={count o "k.bankKeeper.SendCoins"} erc={count o "k.BaseCoinToEvm"} slot={b01 slot}"
    | _ => "res=err pending=1 refund=0 moved=0 erc=0 slot=0"   -- the native action is reverted as a whole

/-- `pibc <app ok|err> <fx 0|1> <evmaddr 0|1> <conv ok|err|-> <memo none|nojson|invalid|othertype|call> <call>` -/
def ibc (app : String) (fx evmaddr : Bool) (conv memo call : String) : String :=
  let conds := ["RecvPacket: ok", "Keeper.OnRecvPacket: ok"]
    ++ (if fx then [] else ["Keeper.OnRecvPacket: receiveCoin.GetDenom() != fxtypes.DefaultDenom"])
    ++ (if evmaddr then ["Keeper.OnRecvPacket: isEvmAddr"] else [])
    ++ (if memo == "none" then [] else ["Keeper.OnRecvPacket: len(data.Memo) > 0"])
    ++ (if memo == "call" then ["Keeper.HandlerIbcCall: mp.(type) is *types.IbcCallEvmPacket"] else [])
  let e := baseEnv conds 0
  let e := if app == "err" then failAt e "im.IBCModule.OnRecvPacket" 0 else e
  let e := if conv == "err" then failAt e "k.crossChainKeeper.IBCCoinToEvm" 0 else e
  let e := if memo == "nojson" then failAt e "k.cdc.UnmarshalInterfaceJSON" 0 else e
  let e := if memo == "invalid" then failAt e "mp.ValidateBasic" 0 else e
  match applyCall e "k.evmKeeper.CallEVM" call with
  | none => "bad-op"
  | some e =>
    let r := run e recvPacketProg
    let o := r.2.outer
    let ack := match o.find? (fun t => t.name == "k.ChannelKeeper.WriteAcknowledgement") with
      | some t => if t.args == [true] then "ok" else if t.args == [false] then "err" else "?"
      | none => "none"
    let slot := has o "k.evmKeeper.CallEVM" && call == "ok"
    s!"flow={flowStr r.1} ack={ack} recv={b01 (has o "k.ChannelKeeper.RecvPacket")} app={b01 (has o "im.IBCModule.OnRecvPacket")} erc={b01 (has o "k.crossChainKeeper.IBCCoinToEvm")} slot={b01 slot}"

def optNat (w : String) : Option (Option Nat) := if w == "-" then some none else (w.toNat?).map some

end P

def step (st : Unit) (line : String) : Unit × String :=
  match words line with
  | "reset" :: _ => ((), "ok")
  | ["att", n, f] =>
    match n.toNat?, parseFail f with
    | some n, some f =>
      ((), "cats=" ++ runMarks (compileAround tryAttestation "k.processAttestation" processAttestation) (attEff n f) ["oracleHeight", "oracleNonce"])
    | _, _ => ((), "bad-op")
  | ["gov", n, f] =>
    match n.toNat?, parseFail f with
    | some n, some f => ((), "marks=" ++ runMarks (compile govExecute) (govEff n f) [])
    | _, _ => ((), "bad-op")
  | ["ibc", n, f] =>
    match n.toNat?, parseFail f with
    | some n, some f => ((), "marks=" ++ runMarks (compile coreRecvPacket) (ibcEff n f) [])
    | _, _ => ((), "bad-op")
  | ["bci", same, rfund, amts, fail] =>
    match rfund.toNat?, parseNats amts with
    | some r, some a => ((), bci (same == "1") r a fail)
    | _, _ => ((), "bad-op")
  | ["patt", _, "panic"] =>
    -- the handler panics: not tolerated, the claim transaction fails as a whole (nothing of it is written)
    let r := FxVerif.Model.C18P.run (P.panicAt (P.baseEnv [] 0) "k.AttestationHandler" 0) attestationProg
    ((), s!"flow={P.flowStr r.1} cats=-")
  | ["patt", hcat, ok] => ((), P.att hcat (ok == "ok"))
  | ["pgov", n, f, kind] =>
    match n.toNat?, P.optNat f with
    | some n, some f => ((), P.gov n f kind)
    | _, _ => ((), "bad-op")
  | "pgovb" :: specs =>
    match specs.mapM P.parseSpec with
    | some sp => ((), P.govBlock sp)
    | none => ((), "bad-op")
  | "pgovh" :: specs =>
    match specs.mapM P.parseSpecH with
    | some sp => ((), P.govBlockH sp)
    | none => ((), "bad-op")
  | "pinact" :: modes =>
    match P.inactive modes with
    | some r => ((), r)
    | none => ((), "bad-op")
  | ["evmres", shape] => ((), FxVerif.Model.C18E.evmresLine shape)
  | ["pxc", ok] => ((), P.xc (ok == "ok"))
  | ["pbci", ntok, pre, conv, isc, memo, call, same, zero, rok] =>
    match ntok.toNat?, P.optNat pre, P.optNat conv with
    | some n, some p, some c => ((), P.bci n p c (isc == "1") (memo == "1") call (same == "1") (zero == "1") (rok == "1"))
    | _, _, _ => ((), "bad-op")
  | ["pibc", app, fx, evmaddr, conv, memo, call] => ((), P.ibc app (fx == "1") (evmaddr == "1") conv memo call)
  | _ => (st, "bad-op")

def main : IO Unit := runDriver step ()
