import FxVerif.Model.C18
import FxVerif.Model.Util
/-! line-protocol driver for the C18 model: `lake env lean --run Driver/C18.lean < ops.txt`.
Every boundary is run through the composition COMPILED FROM THE GENERATED call lists, on a state of marks. -/
open FxVerif FxVerif.Util FxVerif.Gen.C18 FxVerif.Model.C18

abbrev Marks := List String

def mark (m : String) : Marks → Marks := fun s => if s.contains m then s else m :: s

def showMarks (s : Marks) : String :=
  let sorted := s.mergeSort (fun a b => a ≤ b)
  if sorted.isEmpty then "-" else ",".intercalate sorted

def one (m : String) : SubStep Marks := ⟨[mark m], none⟩
def nothing : SubStep Marks := ⟨[], none⟩

/-- cached sub-step: `n` writes of mark `m`, failing at `failAt` -/
def cachedSub (m : String) (n : Nat) (failAt : Option Nat) : SubStep Marks := ⟨List.replicate (n + 1) (mark m), failAt⟩

def parseFail (w : String) : Option (Option Nat) :=
  if w == "-" then some none else (w.toNat?).map some

def attEff (n : Nat) (f : Option Nat) : String → SubStep Marks
  | "k.SetLastObservedEventNonce" => one "lastObservedNonce"
  | "k.SetLastObservedBlockHeight" => one "lastObservedHeight"
  | "k.SetAttestation" => one "att"
  | "k.AttestationHandler" => cachedSub "bridgeDenom" n f
  | "k.cleanupTimedOutBatches" => nothing
  | "k.cleanupTimeOutBridgeCall" => nothing
  | "k.pruneAttestations" => nothing
  | other => one ("other:" ++ other)

def govEff (n : Nat) (f : Option Nat) : String → SubStep Marks
  | "set proposal.Status = v1.StatusFailed" => one "status=failed"
  | "set proposal.Status = v1.StatusPassed" => one "status=passed"
  | "safeExecuteHandler" => cachedSub "msgs" n f
  | other => one ("other:" ++ other)

def ibcEff (n : Nat) (f : Option Nat) : String → SubStep Marks
  | "cbs.OnRecvPacket" => cachedSub "app" n f
  | "k.ChannelKeeper.WriteAcknowledgement" => one (if f.isSome then "ack=err" else "ack=ok")
  | other => one ("other:" ++ other)

def runMarks (st : Steps) (eff : String → SubStep Marks) (init : Marks) : String :=
  match runSteps st eff init with
  | .ok s => showMarks s
  | .error _ => "error"

def parseNats (w : String) : Option (List Nat) := (w.splitOn ",").mapM (·.toNat?)

def showNats (xs : List Nat) : String := ",".intercalate (xs.map toString)

def bci (same : Bool) (rfund : Nat) (amts : List Nat) (fail : String) : String :=
  let coins : List (Nat × Nat) := (List.range amts.length).zip amts
  let receiver := 1
  let refund := if same then 1 else 2
  let s : BC := ⟨fun a _ => if a = refund then rfund else 0, fun _ _ => 0, [], [], [7], 0⟩
  let m : BMsg := ⟨7, receiver, refund, coins⟩
  let convert : BC → BC := fun b =>
    { b with bal := debit b.bal receiver coins, erc := fun a t => if a = receiver then b.erc a t + amtOf coins t else b.erc a t }
  let res : Except Unit BC :=
    if fail == "pre" then .error ()
    else bridgeCallIn genMoves m (if fail == "none" then ⟨[convert], none⟩ else ⟨[convert], some 0⟩) s
  let (tag, s') := match res with
    | .ok s' => ("ok", s')
    | .error _ => ("err", s)
  let toks := List.range amts.length
  s!"res={tag} recv={showNats (toks.map (s'.bal receiver))} refund={showNats (toks.map (s'.bal refund))} erc={showNats (toks.map (s'.erc receiver))} records={s'.records.length} pending={s'.pending.length}"

def step (st : Unit) (line : String) : Unit × String :=
  match words line with
  | "reset" :: _ => ((), "ok")
  | ["att", n, f] =>
    match n.toNat?, parseFail f with
    | some n, some f =>
      ((), "cats=" ++ runMarks (compileAround tryAttestation "k.processAttestation" processAttestation) (attEff n f) ["oracleHeight", "oracleNonce"])
    | _, _ => ((), "bad-op")
  | ["gov", n, f] =>
    match n.toNat?, parseFail f with
    | some n, some f => ((), "marks=" ++ runMarks (compile govExecute) (govEff n f) [])
    | _, _ => ((), "bad-op")
  | ["ibc", n, f] =>
    match n.toNat?, parseFail f with
    | some n, some f => ((), "marks=" ++ runMarks (compile coreRecvPacket) (ibcEff n f) [])
    | _, _ => ((), "bad-op")
  | ["bci", same, rfund, amts, fail] =>
    match rfund.toNat?, parseNats amts with
    | some r, some a => ((), bci (same == "1") r a fail)
    | _, _ => ((), "bad-op")
  | _ => (st, "bad-op")

def main : IO Unit := runDriver step ()
