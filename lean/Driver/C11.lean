import FxVerif.Model.C11
import FxVerif.Model.Util
/-! line-protocol driver for the C11 model: `lake env lean --run Driver/C11.lean < ops.txt`

The facts of the Go source that parametrise the transfer (`FxVerif.Gen.C11.cfg`) are the generated ones, so the
driver follows the code as it is now. -/
open FxVerif FxVerif.Util FxVerif.Model.C11

def showVS (n : Nat) (i : Nat) (v : VS) : String :=
  let live := (List.range (v.period + 2)).filter (fun p => v.refs p != 0)
  let rs := live.map (fun p => s!"{p}:{v.refs p}:{v.ratio p}")
  let ds := (List.range n).filterMap (fun d => (v.del d).map (fun sh => s!"{d}:{sh}"))
  let is := (List.range n).filterMap (fun d => (v.sinfo d).map (fun si => s!"{d}:{si.period}:{si.stake}:{si.height}"))
  let ss := v.slashes.map (fun e => s!"{e.height}:{e.period}:{e.fraction}")
  let st := (if v.bonded then "B" else if v.unbonded then s!"N{v.ubHeight}" else s!"U{v.ubHeight}") ++ (if v.jailed then "J" else "")
  s!"V{i}[{st} t={v.tokens} s={v.shares} p={v.period} c={v.cur} o={v.outstanding} m={v.commission} " ++
  s!"R({",".intercalate rs}) D({",".intercalate ds}) I({",".intercalate is}) S({",".intercalate ss})]"

def showState (s : State) : String :=
  let vs := (List.range s.nVal).map (fun i => showVS s.nAcc i (s.vs i))
  let al := (List.range s.nVal).flatMap fun v => (List.range s.nAcc).flatMap fun o => (List.range s.nAcc).filterMap fun sp =>
    if s.allow v o sp != 0 then some s!"{v}:{o}:{sp}:{s.allow v o sp}" else none
  let gs := (List.range s.nAcc).map (fun d => s!"{s.gain d + s.returned d}")
  let us := (List.range s.nVal).flatMap fun v => (List.range s.nAcc).filterMap fun d =>
    let n := s.ubdEntries d v
    let bal := ((s.ubd.filter (fun u => u.1 == d && u.2.1 == v)).map (fun u => u.2.2.2)).foldl (· + ·) 0
    let hs := ((s.ubd.filter (fun u => u.1 == d && u.2.1 == v)).map (fun u => u.2.2.1)).eraseDups
    if n != 0 then some s!"{d}:{v}:{n}:{bal}:{"/".intercalate (hs.map toString)}" else none
  let rds := (List.range s.nVal).flatMap fun src => (List.range s.nVal).flatMap fun dst => (List.range s.nAcc).filterMap fun d =>
    let es := s.redel.filter (fun r => r.1 == d && r.2.1 == src && r.2.2.1 == dst)
    if es.length != 0 then some (s!"{d}:{src}:{dst}:{es.length}:{"/".intercalate (es.map (fun r => toString r.2.2.2.1))}" ++
      s!":{"/".intercalate (es.map (fun r => toString r.2.2.2.2.1))}:{"/".intercalate (es.map (fun r => toString r.2.2.2.2.2))}") else none
  s!"h={s.height} " ++ " ".intercalate vs ++
    s!" A({",".intercalate al}) G({",".intercalate gs}) U({",".intercalate us}) Rd({",".intercalate rds})" ++
    -- bank side: bonded pool, not-bonded pool, distribution module account (relative to genesis), community pool
    -- (relative to genesis, 18 decimals), coins burned
    s!" P({s.bondedPool},{s.notBondedPool},{s.distrIn - s.distrOut},{(List.range s.nVal).foldl (fun a i => a + (s.vs i).dust) 0},{s.burned})"

def errName (transferLike : Bool) (e : Err) : String :=
  if !transferLike then "err" else
  match e with
  | .noDelegation => "err:noDelegation"
  | .recvRedel => "err:recvRedel"
  | .insufficient => "err:insufficient"
  | .allowance => "err:allowance"
  | .badArgs => "err:badArgs"
  | _ => "err:other"

def nat? (w : String) : Option Nat := w.toNat?

def parseVal (w : String) : Option (Nat × Nat) :=
  match w.splitOn ":" with
  | [a, b] => match a.toNat?, b.toNat? with | some x, some y => some (x, y) | _, _ => none
  | _ => none

def parseOp (h : Nat) (ws : List String) : Option (Op × Bool) :=
  match ws with
  | "block" :: [] => some (.block, false)
  | "mature" :: [] => some (.mature h, false)      -- everything matures
  | cmd :: args =>
    match args.mapM nat? with
    | none => none
    | some ns =>
      match cmd, ns with
      | "delegate", [d, v, a] => some (.delegate d v a, false)
      | "undelegate", [d, v, a] => some (.undelegate d v a, false)
      | "redelegate", [d, s, t, a] => some (.redelegate d s t a, false)
      | "withdraw", [d, v] => some (.withdraw d v, false)
      | "approve", [o, sp, v, n] => some (.approve o sp v n, false)
      | "transfer", [f, t, v, n] => some (.transfer f t v n, true)
      | "transferFrom", [sp, f, t, v, n] => some (.transferFrom sp f t v n, true)
      | "alloc", [v, a] => some (.alloc v a, false)
      | "slash", [v, p, f] => some (.slash v p f, false)
      | "jail", [v] => some (.jail v, false)
      | "unjail", [v] => some (.unjail v, false)
      | "mature", [H] => some (.mature H, false)
      | _, _ => none
  | [] => none

/-- the values a successful transferShares / transferFromShares returns: token worth of the moved shares at the
validator's exchange rate (`TokensFromShares(shares).TruncateInt()`) and the reward coins paid to the recipient -/
def retOf (st s' : State) : Op → String
  | .transfer _ t v x | .transferFrom _ _ t v x =>
    s!" ret={(st.vs v).tokensFromShares (x * ONE) / ONE}:{s'.gain t - st.gain t}"
  | _ => ""

def step (st : State) (line : String) : State × String :=
  match words line with
  | "reset" :: n :: h :: vals =>
    match n.toNat?, h.toNat?, vals.mapM parseVal with
    | some n, some h, some vs => (init n h vs, "ok")
    | _, _, _ => (st, "bad-op")
  | ["dump"] => (st, "ok | " ++ showState st)
  | ["rewards", d, v] =>
    match d.toNat?, v.toNat? with
    | some d, some v =>
      if !(st.okAcc d && st.okVal v) then (st, "bad-op") else
      match (st.vs v).pendingRewards st.height d with
      | .ok r => (st, "ok | " ++ showState st ++ s!" ret={r}")
      | .error _ => (st, "err | " ++ showState st)
    | _, _ => (st, "bad-op")
  | ["delegation", d, v] =>
    match d.toNat?, v.toNat? with
    | some d, some v =>
      if !(st.okAcc d && st.okVal v) then (st, "bad-op") else
      let r := (st.vs v).delegationView d
      (st, "ok | " ++ showState st ++ s!" ret={r.1}:{r.2}")
    | _, _ => (st, "bad-op")
  -- one transaction of a spender contract that calls transferFromShares(from, to, v, x) for every (v, x) pair:
  -- `atomic`: a failing call fails the transaction; `each`: the contract swallows the failure of a call
  | "multiFrom" :: mode :: rest =>
    match rest.mapM nat? with
    | some (sp :: f :: t :: items) =>
      let rec pairs : List Nat → Option (List (Nat × Nat))
        | [] => some []
        | v :: x :: more => (pairs more).map (fun ps => (v, x) :: ps)
        | _ => none
      match pairs items with
      | none => (st, "bad-op")
      | some ps =>
        let ops := ps.map (fun i => Op.transferFrom sp f t i.1 i.2)
        if mode == "atomic" then
          match st.execAll FxVerif.Gen.C11.cfg ops with
          | .ok s' => (s', "ok | " ++ showState s')
          | .error _ => (st, "err | " ++ showState st)
        else if mode == "each" then
          let s' := st.run FxVerif.Gen.C11.cfg ops
          (s', "ok | " ++ showState s')
        else (st, "bad-op")
    | _ => (st, "bad-op")
  | ws =>
    match parseOp st.height ws with
    | none => (st, "bad-op")
    | some (op, tl) =>
      match st.exec FxVerif.Gen.C11.cfg op with
      | .ok s' => (s', "ok | " ++ showState s' ++ retOf st s' op)
      | .error e => (st, errName tl e ++ " | " ++ showState st)

def main : IO Unit := runDriver step ({} : State)
