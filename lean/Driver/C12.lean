import FxVerif.Model.C12
import FxVerif.Model.C12Sig
import FxVerif.Model.C12Env
import FxVerif.Model.C12Genesis
import FxVerif.Model.C12Msg
import FxVerif.Model.Util
/-! line-protocol driver for the C12 model: `lake env lean --run Driver/C12.lean < ops.txt`

ops (numbers decimal, addresses / byte strings hex, `-` = empty):
* `chain <c> <eth|tron> <gravityId TEXT as hex, 1..32 bytes>` — the model packs it with the regenerated `StrToByte32`
  (`gidWord`); `err:gid` when `Params.ValidateBasic` (regenerated checks) would not admit it
* `gid <text hex | ->` — `StrToByte32` + the gravity-id checks of `Params.ValidateBasic`: `<32 bytes hex | err> <valid|invalid>`
* `timeout <fxHeight> <lastFxHeight> <extHeight> <avgBlock> <avgExt> <timeoutParam>` — `CalExternalTimeoutHeight` (regenerated
  statement list, wrapping uint64 arithmetic): `<n>` or `panic`
* `build <bcall|batch> <stored counter | -> <fx> <last> <ext> <avgBlock> <avgExt> <timeoutParam> <eventNonce>` — the numeric
  fields `BuildOutgoingBridgeCall` / `BuildOutgoingTxBatch` assign (field sources regenerated): `<nonce> <timeout> <eventNonce|->`
  or `err:timeout` (the `<= 0` guard)
* `genesis <c>` — the confirmations stored after ExportGenesis → wipe → InitGenesis (`roundTripConfirms`: regenerated export lists
  and import comparison): `oset=<n> batch=<n> bcall=<n> of=<all stored before>` (the state itself is not changed)
* `curoset <latest nonce> <p1,p2,…>` — `GetCurrentOracleSet`: `<nonce> <normalised powers, ascending>`
* `oset <c> <nonce> <addr:power,...>` / `batch <c> <tokenText> <tokenHex> <nonce> <timeout> <feeReceive> <amount:dest:fee,...>` /
  `bcall <c> <nonce> <sender> <refund> <to> <data> <memo> <timeout> <eventNonce> <contract:amount,...>` — store the object;
  answer `<checkpoint from the Go/tron layout> <eq|ne: Go pre-image = Solidity pre-image>`
* `oracle <c> <oracleId> <bridger> <external>` / `index <c> <external> <oracleId>` — registry writes
* `confirm <c> <oset|batch|bcall> <key…> <bridger> <external> <sig hex | !> <digest D the signature is over> <signer A | ->`
  — answer `ok|err:<kind>` + the confirms stored under the named key + `n=<all confirms stored on the chain>`; the handler
  runs through the key plan AND the statement list of ValidateConfirmSign regenerated from the Go source (`confirmStepGV`)
* `verifysig <file> <digest> <sig65> <signer> <msgHash> <rec|->` — `verifySig` of that contract file (regenerated source
  structure, the model's own Keccak over the regenerated `abi.encodePacked` arguments); answer `true|false`
* `branch` / `discard` / `commit` — open a branch of the whole state (`CacheContext`), drop it, keep it: `ok`
* `vbasic <oset|batch|bcall> <chain registered 0|1> <bridger bech32 ok 0|1> <external ok 0|1> <token ok 0|1|-> <sig hex | ! | ->`
  — `ValidateBasic` of the confirm message (regenerated check list, interpreted by `vbRun`): `ok` or the text of the failing check
* `remove <c> <site> <oset|batch|bcall> <key…>` — a pruning site of the source (`deleteSites`, regenerated) removes the
  object; answer `ok` + the confirms left under the key + `live=<0|1>` + `n=<all confirms>`
-/
open FxVerif FxVerif.Util FxVerif.Model.C12 FxVerif.Gen.C12Sig FxVerif.Gen.C12Env

structure Chain where
  tron : Bool
  gid : Nat
  st : HState := {}

structure St where
  chains : List (String × Chain) := []
  /-- branches of the state that are open (`CacheContext` without a `write` yet): the states to return to on `discard` -/
  saved : List (List (String × Chain)) := []

def splitList (s : String) : List (List String) :=
  if s == "-" then [] else (s.splitOn ",").map (·.splitOn ":")

def hexNat (s : String) : Option Nat := (unhex s).map fromBE

/-- hex text, `-` = empty -/
def unhexD (s : String) : Option (List Nat) := if s == "-" then some [] else unhex s

def parseMembers (s : String) : Option (List Member) :=
  (splitList s).mapM fun
    | [a, p] => do pure ⟨← p.toNat?, ← hexNat a⟩
    | _ => none

def parseTxs (s : String) : Option (List Transfer) :=
  (splitList s).mapM fun
    | [a, d, f] => do pure ⟨← a.toNat?, ← hexNat d, ← f.toNat?⟩
    | _ => none

def parseTokens (s : String) : Option (List Token) :=
  (splitList s).mapM fun
    | [c, a] => do pure ⟨← hexNat c, ← a.toNat?⟩
    | _ => none

def cpOf (tron : Bool) (kind : String) (o : Obj) (gid : Nat) : String × List Nat :=
  let g := if tron then tronPreimage kind o gid else goPreimage kind o gid
  let s := solPreimage kind o gid
  let hg := g.map keccak256
  let sh := fun (h : Option (List Nat)) => match h with | some b => hex b | none => "none"
  -- what the confirm HANDLER of this chain style hashes for the object: the encoder the regenerated routes (`cpRoutes`) reach,
  -- defined only when its address conversion fits the chain's address text; this is the digest confirms are checked against
  let hp := handlerPreimage tron kind o gid
  let hd := if hp == g then hg else hp.map keccak256
  (sh hg ++ " " ++ (if g.isSome && g == s then "eq" else "ne"), hd.getD [])

def showConfirms (st : HState) (k : ObjKey) : String :=
  let es := (st.confirms.filter (·.key == k)).mergeSort (fun a b => a.oracle ≤ b.oracle)
  "[" ++ ",".intercalate (es.map fun e => toString e.oracle ++ ":" ++ hex (e.sig.take 4) ++ ":" ++ e.bridger ++ ":" ++ e.external) ++ "]"

def errName : Err → String
  | .notFound => "notfound" | .sigDecode => "sigdecode" | .noOracle => "nooracle"
  | .mismatch => "mismatch" | .badSig => "sig" | .duplicate => "dup" | .modelGap => "modelgap"

def withChain (s : St) (c : String) (f : Chain → Chain × String) : St × String :=
  match s.chains.lookup c with
  | none => (s, "bad-op")
  | some ch =>
    let (ch', out) := f ch
    ({ s with chains := upsert c ch' s.chains }, out)

def store (ch : Chain) (kind : String) (k : ObjKey) (o : Obj) : Chain × String :=
  let (out, d) := cpOf ch.tron kind o ch.gid
  ({ ch with st := stepG (fun _ _ => none) ch.st (.addObject k d) }, out)

def doConfirm (ch : Chain) (k : ObjKey) (bridger ext sig d a : String) : Chain × String :=
  let sigv : Option (List Nat) := if sig == "!" then none else unhex sig
  match unhex d with
  | none => (ch, "bad-op")
  | some dig =>
    -- the curve recovery is known at ONE point: over the signed digest `D`, the 65-byte signature with the recovery byte
    -- reduced to 0/1 recovers to `A` (computed by the harness with go-ethereum); everywhere else it is unknown (= fails).
    -- Length guard and recovery-byte normalisation are the model's (`decodeSig`, constants regenerated from the source).
    let norm : List Nat := match sigv with
      | some sg => (let v := sg.getD 64 0; if v == 27 || v == 28 then sg.set 64 (v - 27) else sg)
      | none => []
    -- `ec` sees the whole signed message (H = identity): it recovers `A` over <the chain's signed-message prefix> ++ D only
    let canon : List Nat := if ch.tron then FxVerif.Gen.C12.tronSignPrefix else FxVerif.Gen.C12.goSignPrefix
    let ec : List Nat → List Nat → Option String := fun h s' =>
      if h == canon ++ dig && s'.length == 65 && s'.getD 64 0 < 4 && s' == norm && a != "-" then some a else none
    -- which validator runs on this chain style, which decoder it calls and which prefix that decoder hashes are all
    -- regenerated: `validateProg` (the statement list of ValidateConfirmSign, interpreted), `validateDecoders`, `sigRules`
    let recoverBy : String → List Nat → List Nat → Option String := fun fn => recoverVia (ruleOfValidator fn) id ec
    match confirmStepGV ch.tron recoverBy ch.st ⟨k, bridger, ext, sigv⟩ with
    | .ok st' => ({ ch with st := st' }, "ok " ++ showConfirms st' k ++ " n=" ++ toString st'.confirms.length)
    | .error e => (ch, "err:" ++ errName e ++ " " ++ showConfirms ch.st k ++ " n=" ++ toString ch.st.confirms.length)

def doRemove (ch : Chain) (site : String) (k : ObjKey) : Chain × String :=
  let (dobj, dconf) := removeFlags site
  let st' := stepG (fun _ _ => none) ch.st (.removeObject k dobj dconf)
  ({ ch with st := st' }, "ok " ++ showConfirms st' k ++ " live=" ++ (if (st'.objects.lookup k).isSome then "1" else "0") ++
    " n=" ++ toString st'.confirms.length)

/-- `verifysig <file> <digest> <sig65> <signer> <msgHash> <rec|->`: `verifySig` of the named contract file as its source spells
it (`solVerifySig`, regenerated), Keccak-256 the model's own, the curve recovery known at ONE point: over `msgHash` with the
relayer's (v, r, s) it yields `rec` (the harness ran go-ethereum's ecrecover precompile), nothing elsewhere -/
def doVerifySig (file d sig signer mh rc : String) : String :=
  match solVerifySigs.find? (fun v => v.file == file), unhex d, unhex sig, hexNat signer, unhex mh with
  | some V, some dig, some sg, some sn, some mhash =>
    let v := normV (sg.getD 64 0) + 27
    let r := sg.take 32
    let s := (sg.drop 32).take 32
    let ecr : List Nat → Nat → List Nat → List Nat → Option Nat := fun h id r' s' =>
      if h == mhash && id + 27 == v && r' == r && s' == s then (if rc == "-" then none else hexNat rc) else none
    if solVerifySig V keccak256 ecr sn dig v r s then "true" else "false"
  | _, _, _, _, _ => "bad-op"

def stepLine (s : St) (line : String) : St × String :=
  match words line with
  | "reset" :: _ => ({}, "ok")
  -- `branch` opens a branch of the whole state (a failed multi-message transaction, CheckTx, a simulation: `CacheContext`);
  -- `discard` drops everything done since (`branchRun`/`discardBranch` of Model/C12Msg: the state is the one before), `commit`
  -- keeps it
  | ["branch"] => ({ s with saved := s.chains :: s.saved }, "ok")
  | ["discard"] =>
    match s.saved with
    | old :: rest => ({ s with chains := old, saved := rest }, "ok")
    | [] => (s, "bad-op")
  | ["commit"] =>
    match s.saved with
    | _ :: rest => ({ s with saved := rest }, "ok")
    | [] => (s, "bad-op")
  | ["vbasic", kind, reg, b32, extOk, tokOk, sig] =>
    let key : Option ObjKey := match kind with
      | "oset" => some (.oracleSet 0) | "batch" => some (.batch "T" 0) | "bcall" => some (.bridgeCall 0) | _ => none
    let sigv : Option (Option (List Nat)) := if sig == "!" then some none else if sig == "-" then some (some []) else (unhex sig).map some
    match key, sigv with
    | some k, some sv =>
      let E : VbEnv := ⟨fun _ => reg == "1", fun _ => b32 == "1", fun _ x => if x == "T" then tokOk == "1" else extOk == "1"⟩
      match validateBasic E ⟨"C", ⟨k, "B", "E", sv⟩⟩ with
      | none => (s, "ok")
      | some c => (s, "rej:" ++ c.text.replace " " "-")
    | _, _ => (s, "bad-op")
  | ["verifysig", file, d, sig, signer, mh, rc] => (s, doVerifySig file d sig signer mh rc)
  | ["chain", c, style, gid] =>
    match unhexD gid with
    | some txt =>
      match gidParamValid txt, gidWord txt with
      | true, some g => ({ s with chains := upsert c { tron := style == "tron", gid := g } s.chains }, "ok")
      | _, _ => (s, "err:gid")
    | none => (s, "bad-op")
  | ["gid", gid] =>
    match unhexD gid with
    | some txt =>
      (s, (match strToByte32 txt with | some bs => hex bs | none => "err") ++ " " ++ (if gidParamValid txt then "valid" else "invalid"))
    | none => (s, "bad-op")
  | ["timeout", fx, last, ext, ab, ae, tp] =>
    match fx.toNat?, last.toNat?, ext.toNat?, ab.toNat?, ae.toNat?, tp.toNat? with
    | some a, some b, some c, some d, some e, some f =>
      (s, match calTimeout ⟨a, b, c, d, e, f⟩ with | some v => toString v | none => "panic")
    | _, _, _, _, _, _ => (s, "bad-op")
  | ["build", kind, cnt, fx, last, ext, ab, ae, tp, evn] =>
    match fx.toNat?, last.toNat?, ext.toNat?, ab.toNat?, ae.toNat?, tp.toNat?, evn.toNat? with
    | some a, some b, some c, some d, some e, some f, some en =>
      let stored : Option Nat := if cnt == "-" then none else cnt.toNat?
      if cnt != "-" && stored.isNone then (s, "bad-op") else
      let env : BuildEnv := ⟨fun _ => stored, fun _ => ⟨a, b, c, d, e, f⟩, fun _ => en⟩
      let (fn, fNonce, fTimeout, fEvn) :=
        if kind == "bcall" then ("BuildOutgoingBridgeCall", "Nonce", "Timeout", "EventNonce")
        else ("BuildOutgoingTxBatch", "BatchNonce", "BatchTimeout", "")
      if kind != "bcall" && kind != "batch" then (s, "bad-op") else
      let B := builderOf fn
      let ev := fun (f : String) => evalSrc env (fieldSrc B f)
      match ev fTimeout, ev fNonce with
      | some t, some n =>
        -- the guard of the builder on its timeout variable (regenerated text `<var> <= 0`)
        let guarded := B.guards.any (fun g => (B.fields.lookup fTimeout).any (fun v => g == v ++ " <= 0"))
        if guarded && t == 0 then (s, "err:timeout")
        else (s, toString n ++ " " ++ toString t ++ " " ++ (if fEvn == "" then "-" else match ev fEvn with | some x => toString x | none => "?"))
      | _, _ => (s, "modelgap")
    | _, _, _, _, _, _, _ => (s, "bad-op")
  | ["genesis", c] =>
    withChain s c fun ch =>
      let rt := roundTripConfirms ch.st
      let n := fun (k : String) => (rt.filter (·.key.kind == k)).length
      (ch, "oset=" ++ toString (n "oracleSet") ++ " batch=" ++ toString (n "batch") ++ " bcall=" ++ toString (n "bridgeCall") ++
        " of=" ++ toString ch.st.confirms.length)
  | ["curoset", latest, ps] =>
    match latest.toNat?, (if ps == "-" then some [] else (ps.splitOn ",").mapM (·.toNat?)) with
    | some l, some ps =>
      let live := ps.filter (· > 0)
      let total := (live.foldl (· + ·) 0) % u64
      match live.mapM (fun p => normPower p total) with
      | some vs =>
        let nonce := if oracleSetLocals.lookup "oracleSetNonce" == some "k.GetLatestOracleSetNonce(ctx) + 1" then (l + 1) % u64 else 0
        (s, toString nonce ++ " " ++ (if vs.isEmpty then "-" else ",".intercalate ((vs.mergeSort (· ≤ ·)).map toString)))
      | none => (s, "panic")
    | _, _ => (s, "bad-op")
  | ["oset", c, nonce, ms] =>
    match nonce.toNat?, parseMembers ms with
    | some n, some ms => withChain s c fun ch => store ch "oracleSet" (.oracleSet n) (OracleSet.toObj ⟨n, ms⟩)
    | _, _ => (s, "bad-op")
  | ["batch", c, tokText, tok, nonce, timeout, feeRecv, txs] =>
    match hexNat tok, nonce.toNat?, timeout.toNat?, hexNat feeRecv, parseTxs txs with
    | some t, some n, some to, some fr, some txs =>
      withChain s c fun ch => store ch "batch" (.batch tokText n) (Batch.toObj ⟨n, to, txs, t, fr⟩)
    | _, _, _, _, _ => (s, "bad-op")
  | ["bcall", c, nonce, sender, refund, to, data, memo, timeout, evn, toks] =>
    match nonce.toNat?, hexNat sender, hexNat refund, hexNat to, unhex data, unhex memo, timeout.toNat?, evn.toNat?, parseTokens toks with
    | some n, some sd, some rf, some t, some d, some m, some tmo, some en, some tk =>
      withChain s c fun ch => store ch "bridgeCall" (.bridgeCall n) (BridgeCall.toObj ⟨sd, rf, tk, t, d, m, n, tmo, en⟩)
    | _, _, _, _, _, _, _, _, _ => (s, "bad-op")
  | ["oracle", c, oid, bridger, ext] =>
    match oid.toNat? with
    | some o => withChain s c fun ch => ({ ch with st := stepG (fun _ _ => none) ch.st (.setOracle o ⟨bridger, ext⟩) }, "ok")
    | none => (s, "bad-op")
  | ["index", c, ext, oid] =>
    match oid.toNat? with
    | some o => withChain s c fun ch => ({ ch with st := stepG (fun _ _ => none) ch.st (.setIndex ext o) }, "ok")
    | none => (s, "bad-op")
  | ["confirm", c, "oset", nonce, bridger, ext, sig, d, a] =>
    match nonce.toNat? with
    | some n => withChain s c fun ch => doConfirm ch (.oracleSet n) bridger ext sig d a
    | none => (s, "bad-op")
  | ["confirm", c, "batch", tokText, nonce, bridger, ext, sig, d, a] =>
    match nonce.toNat? with
    | some n => withChain s c fun ch => doConfirm ch (.batch tokText n) bridger ext sig d a
    | none => (s, "bad-op")
  | ["confirm", c, "bcall", nonce, bridger, ext, sig, d, a] =>
    match nonce.toNat? with
    | some n => withChain s c fun ch => doConfirm ch (.bridgeCall n) bridger ext sig d a
    | none => (s, "bad-op")
  | ["remove", c, site, "oset", nonce] =>
    match nonce.toNat? with
    | some n => withChain s c fun ch => doRemove ch site (.oracleSet n)
    | none => (s, "bad-op")
  | ["remove", c, site, "batch", tokText, nonce] =>
    match nonce.toNat? with
    | some n => withChain s c fun ch => doRemove ch site (.batch tokText n)
    | none => (s, "bad-op")
  | ["remove", c, site, "bcall", nonce] =>
    match nonce.toNat? with
    | some n => withChain s c fun ch => doRemove ch site (.bridgeCall n)
    | none => (s, "bad-op")
  | _ => (s, "bad-op")

def main : IO Unit := runDriver stepLine ({} : St)
