import FxVerif.Model.C13
import FxVerif.Model.C07Gov
import FxVerif.Model.C07
import FxVerif.Model.Util
/-! line-protocol driver for the C13/C07 model: `lake env lean --run Driver/C13.lean < ops.txt` -/
open FxVerif FxVerif.Util FxVerif.Model.C13

structure St where
  s : State := init ⟨0, 0, 0, 0, 1, 0, 0, 0⟩ []
  n : Nat := 0          -- number of oracle accounts printed in `acc=`
  esc : FxVerif.Model.C07Escrow.State := {}   -- C07 gov half: the deposit escrow (gov module account vs deposit records)

def sortNat (l : List Nat) : List Nat := l.mergeSort (fun a b => a ≤ b)

def joinOr (sep : String) (l : List String) : String := if l.isEmpty then "-" else sep.intercalate l

def lex2 (a b : Nat × Nat) : Bool := a.1 < b.1 || (a.1 == b.1 && a.2 ≤ b.2)

def showConfs (cs : List Conf) (n : Nat) : String :=
  ".".intercalate ((sortNat (confExts cs n)).map toString)

def showState (st : St) : String :=
  let s := st.s
  let os := s.oracles.mergeSort (fun a b => a.1 ≤ b.1)
  let O := os.map fun (_, o) => s!"{o.addr}:{o.bridger}:{o.ext}:{o.amount}:{o.startHeight}:{if o.online then 1 else 0}:{o.val}:{o.slashTimes}"
  let B := (s.byBridger.mergeSort (fun a b => a.1 ≤ b.1)).map fun (b, a) => s!"{b}>{a}"
  let E := (s.byExt.mergeSort (fun a b => a.1 ≤ b.1)).map fun (e, a) => s!"{e}>{a}"
  let acc := (List.range st.n).map fun o => s!"{o}:{getBal s.bal o}:{getBal s.dbal o}"
  let D := (s.deleg.mergeSort (fun a b => lex2 a.1 b.1)).map fun ((o, v), t) => s!"{o}.{v}:{t}"
  let U := (s.ubds.mergeSort (fun a b => lex2 (a.oracle * 1000 + a.val, a.creation) (b.oracle * 1000 + b.val, b.creation))).map
    fun u => s!"{u.oracle}.{u.val}:{u.creation}:{u.completion}:{u.balance}"
  let R := (s.reds.mergeSort (fun a b => lex2 (a.oracle * 1000000 + a.src * 1000 + a.dst, a.completion) (b.oracle * 1000000 + b.src * 1000 + b.dst, b.completion))).map
    fun r => s!"{r.oracle}.{r.src}.{r.dst}:{r.completion}"
  let sets := (s.osets.mergeSort (fun a b => a.nonce ≤ b.nonce)).map fun x => s!"{x.nonce}@{x.height}:{showConfs s.osConf x.nonce}"
  let bt := (s.batches.mergeSort (fun a b => a.nonce ≤ b.nonce)).map fun x => s!"{x.nonce}@{x.height}:{showConfs s.batchConf x.nonce}"
  let bc := (s.calls.mergeSort (fun a b => a.nonce ≤ b.nonce)).map fun x => s!"{x.nonce}@{x.height}:{showConfs s.callConf x.nonce}"
  let obs := match s.lastObserved with | none => "-" | some n => toString n
  s!"h={s.height} P={s.lastTotalPower} prop={joinOr "." (s.proposal.map toString)} O={joinOr "," O} B={joinOr "," B} E={joinOr "," E} " ++
  s!"acc={joinOr ";" acc} D={joinOr "," D} U={joinOr "," U} R={joinOr "," R} os={joinOr "," sets} L={s.latestNonce} obs={obs} " ++
  s!"bt={joinOr "," bt} bc={joinOr "," bc} cur={s.curOS}/{s.curBatch}/{s.curCall} lsh={s.lastSlashHeight}"

def showRes : Res → String
  | .ok => "ok"
  | .err k => "err:" ++ k
  | .panic site => "panic:" ++ site

def nats (ws : List String) : Option (List Nat) := ws.mapM String.toNat?

/-- `-` = empty, otherwise nonces separated by `.` -/
def natList (w : String) : Option (List Nat) := if w == "-" then some [] else (w.splitOn ".").mapM String.toNat?

def parseOp (ws : List String) : Option Op :=
  match ws with
  | "gov" :: rest => (nats rest).map Op.gov
  | ["bond", o, b, e, v, amt] => do pure (.bond (← o.toNat?) (← b.toNat?) (← e.toNat?) (← v.toNat?) (← amt.toNat?))
  | ["add", o, amt] => do pure (.add (← o.toNat?) (← amt.toNat?))
  | ["redel", o, v] => do pure (.redel (← o.toNat?) (← v.toNat?))
  | ["editb", o, b] => do pure (.editb (← o.toNat?) (← b.toNat?))
  | ["withdraw", o] => do pure (.withdraw (← o.toNat?))
  | ["fund", o, amt] => do pure (.fund (← o.toNat?) (← amt.toNat?))
  | ["mint", o, amt] => do pure (.mint (← o.toNat?) (← amt.toNat?))
  | ["unbond", o] => do pure (.unbond (← o.toNat?))
  | ["mkbatch"] => some .mkbatch
  | ["mkcall"] => some .mkcall
  | ["conf", k, n, e, b, sg] => do
    let kind ← match k with | "os" => some Kind.os | "batch" => some Kind.batch | "call" => some Kind.call | _ => none
    pure (.conf kind (← n.toNat?) (← e.toNat?) (← b.toNat?) (sg == "1"))
  | ["observe", n] => do pure (.observe (← n.toNat?))
  | ["event", bs, bcs, cs, o] => do
    let obs ← if o == "=" then some none else if o == "-" then some (some none) else (o.toNat?).map (fun n => some (some n))
    pure (.event (← natList bs) (← natList bcs) (← natList cs) obs)
  | ["block", dt] => do pure (.block (← dt.toNat?))
  | ["tick", dt] => do pure (.tick (← dt.toNat?))
  | ["valslash", v, num, den] => do pure (.valslash (← v.toNat?) (← num.toNat?) (← den.toNat?))
  | _ => none

def step (st : St) (line : String) : St × String :=
  match words line with
  | "reset" :: rest =>
    match nats rest with
    | some [thr, mult, slashNum, window, pr, unb, pct, nval, n, bal0, h0] =>
      ({ s := { init ⟨thr, mult, slashNum, window, pr, unb, pct, nval⟩ ((List.range n).map fun o => (o, bal0)) with height := h0 }, n := n }, "ok")
    | _ => ({}, "ok")
  | "intx" :: ws =>
    -- the op is carried by signed transactions INSIDE the next block's FinalizeBlock: only its result is compared here, the
    -- state is observed (and compared) after that block
    match parseOp ws with
    | none => (st, "bad-op")
    | some op =>
      let (s', r) := FxVerif.Model.C13.step st.s op
      ({ st with s := s' }, showRes r ++ " ~")
  | ws =>
    match parseOp ws with
    | none => match FxVerif.Model.C07Gov.gline ws with   -- gov half of C07 (stateless: the tally inputs are on the line)
      | some r => (st, r)
      | none =>
        -- gov half of C07, deposit escrow: stateful, the guards of the code come from the regenerated statement lists
        match FxVerif.Model.C07Escrow.eline FxVerif.Model.C07.govEscrowCode st.esc ws with
        | some (e, r) => ({ st with esc := e }, r)
        | none => (st, "bad-op")
    | some (.valslash v num den) =>
      let (s', r) := FxVerif.Model.C13.step st.s (.valslash v num den)
      ({ st with s := s' }, showRes r ++ " ~")
    | some op =>
      let (s', r) := FxVerif.Model.C13.step st.s op
      let st' := { st with s := s' }
      match r with
      | .panic site => (st', "panic:" ++ (site.splitOn "(").head!)   -- nothing is committed, the chain halts
      | _ => (st', showRes r ++ " " ++ showState st')

def main : IO Unit := runDriver step ({} : St)
