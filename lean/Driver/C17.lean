import FxVerif.Model.C17
import FxVerif.Model.C17Machine
import FxVerif.Model.C17Float
import FxVerif.Model.C17Sort
import FxVerif.Model.C17Ack
import FxVerif.Model.C17Hist
import FxVerif.Model.Util
/-! line-protocol driver for the C17 models: `lake env lean --run Driver/C17.lean < ops.txt`

ops:
* `powerdiff <b> | <c>`  — lists `addr:power,…` (`-` = empty); answers `powerDiffNumerator b c`, the integer the float
  `delta` of `BridgeValidators.PowerDiff` holds before the division by 2^32-1;
* `supportchains <names,…>` — the registered chain names in any order; answers the sorted list (`GetSupportChains`);
* `batchfees <token:fee:amount;…>` — the unbatched pool in any order; answers what `GetAllBatchFees` returns: per token
  the summed fee, summed amount and tx count, sorted by token (`token:fees:amount:count,…`);
* `batchfeesmax <maxElements> <token:baseFee,…|-> <token:fee:amount;…|->` — the unbatched pool in STORE ITERATION order;
  answers `GetAllBatchFees(ctx, maxElements, minBatchFees)` computed by the machine model (`createBatchFees` with the
  per-token limit and the base-fee filter, then the scheduled range + sort);
* `tallyop <y:a:n:v:t> | <y:a:n:v:t;…|->` — gov `Tally`: the vector accumulated while walking the votes, and one contribution
  vector per bonded validator that voted (raw 18-decimal integers); answers the four tallied options truncated to
  integers, computed by the machine model's `tally` op (sum in schedule order);
* `f64add <a> <b>` — answers `round53 (round53 a + round53 b)`: the integer value of `float64(a) + float64(b)` (validation of
  the binary64 model `round53` / `fadd` against the machine's float unit);
* `updateoracles <addr:power:online:delegate,…|-> | <old proposal a,b,…|-> | <new a,b,…|->` — `UpdateProposalOracles` on
  a state with these oracles (store order) and this stored proposal; answers `err:<kind>` or `ok:<unbonded addresses in
  unbonding order|->` (the machine model with the identity schedule and the regenerated order source);
* `render <n>` — answers the string `fmt.Sprintf("%.8f", float64(n) / float64(math.MaxUint32))` computed by the binary64
  division / fixed-precision formatting model (`fdiv`, `fmtFixed`; divisor and precision regenerated);
* `needset <percentRaw> <b> | <c>` — the machine's `needOracleSet` op (reversed schedule): float accumulation over the merged
  power map, division, `%.8f`, comparison with `min(percent, 1)`; answers `<rendered>:<true|false>` or `err:<kind>`;
* `checksorted <addr:missed,…> | <addr:missed,…>` — the bonded validators in store order and in the order the staking
  precompile's `validatorList(missed)` returned them; answers `sorted-permutation` when the output meets the contract of a
  sort for the regenerated comparator (`meetsSortContract missedLe`), else `not-a-permutation` / `inversion`;
* `oracleset <addr:power,…>` — answers the addresses in the order `NewOracleSet` stores the members (`sortMembers`: the
  regenerated comparator program of `BridgeValidators.Less`, interpreted).
* `ack <amount> <spelling> <name:value;…|->` — the IBC middleware's `OnAcknowledgementPacket` for acknowledgement bytes whose
  top-level JSON members are these (spelling 0 = exactly what `json.Marshal` writes, else any other byte string for the same
  members): the REGENERATED statement program interpreted under the alternating schedule; answers `ok refund=<n>` or
  `err:<kind> refund=0` (kinds: unmarshal, not-canonical, …) — `refund` = what the ICS-20 application returned
  from the escrow account.
* `swget <none|-|a,b,…> <absent|-|a,b,…>` — the REGENERATED statement program of `x/gov/keeper` `GetSwitchParams`, interpreted
  (`runGetter switchGet`): first word = what an earlier read on ANOTHER context returned (all a process-level cache could hold),
  second word = the record in the store of the context that is read now; answers the returned names (`-` = none).
-/
open FxVerif FxVerif.Util FxVerif.Model.C17

def parsePairs (w : String) : Option (List (String × Nat)) :=
  if w == "-" then some [] else
  (w.splitOn ",").mapM fun e =>
    match e.splitOn ":" with
    | [a, p] => p.toNat?.map (fun n => (a, n))
    | _ => none

def strLe (a b : String) : Bool := decide (a ≤ b)

def parseFee (e : String) : Option (String × Nat × Nat) :=
  match e.splitOn ":" with
  | [t, f, a] =>
    match f.toNat?, a.toNat? with
    | some f, some a => some (t, f, a)
    | _, _ => none
  | _ => none

def showFees (fs : List (String × Nat × Nat × Nat)) : String :=
  if fs.isEmpty then "-" else
  ",".intercalate (fs.map fun e => s!"{e.1}:{e.2.1}:{e.2.2.1}:{e.2.2.2}")

def parseList (w : String) : List String := if w == "-" then [] else w.splitOn ","

def parseOracle (e : String) : Option Oracle :=
  match e.splitOn ":" with
  | [a, p, o, d] =>
    match p.toNat?, d.toNat? with
    | some p, some d => some ⟨a, p, o == "1", d⟩
    | _, _ => none
  | _ => none

def emptySt (os : List Oracle) (old : List String) : St := ⟨os, old, 1, [], [], 0⟩

def showList (l : List String) : String := if l.isEmpty then "-" else ",".intercalate l

def step (st : Unit) (line : String) : Unit × String :=
  match words line with
  | "reset" :: _ => (st, "ok")
  | ["tallyop", base, "|", vs] =>
    let parseVec (w : String) : Option Vec5 :=
      match (w.splitOn ":").mapM String.toNat? with
      | some [y, a, n, v, t] => some (y, a, n, v, t)
      | _ => none
    match parseVec base, (if vs == "-" then some [] else (vs.splitOn ";").mapM parseVec) with
    | some b, some l =>
      match (exec Sched.id (emptySt [] []) (.tally ((b :: l).map fun v => ("", v)))).2 with
      | .tally r =>
        let p := 10 ^ 18
        (st, s!"{r.1 / p}:{r.2.1 / p}:{r.2.2.1 / p}:{r.2.2.2.1 / p}")
      | _ => (st, "bad-op")
    | _, _ => (st, "bad-op")
  | ["f64add", a, b] =>
    match a.toNat?, b.toNat? with
    | some a, some b => (st, toString (fadd (round53 a) (round53 b)))
    | _, _ => (st, "bad-op")
  | ["updateoracles", os, "|", old, "|", new] =>
    match (parseList os).mapM parseOracle with
    | some os =>
      match (exec Sched.id (emptySt os (parseList old)) (.updateOracles (parseList new))).2 with
      | .err e => (st, "err:" ++ e)
      | .unbonded l => (st, "ok:" ++ showList (l.map (·.1)))
      | _ => (st, "bad-op")
    | none => (st, "bad-op")
  | ["batchfeesmax", mx, base, pool] =>
    match mx.toNat?, parsePairs base, (if pool == "-" then some [] else (pool.splitOn ";").mapM parseFee) with
    | some mx, some base, some es =>
      match (exec Sched.id (emptySt [] []) (.batchFees (es.map fun e => ⟨e.1, e.2.1, e.2.2⟩) mx base)).2 with
      | .fees fs => (st, showFees fs)
      | _ => (st, "bad-op")
    | _, _, _ => (st, "bad-op")
  | ["render", n] =>
    match n.toNat? with
    | some n => (st, showFixed FxVerif.Gen.C17.powerDiffPrecision (render n))
    | none => (st, "bad-op")
  | ["needset", pct, b, "|", c] =>
    match pct.toNat?, parsePairs b, parsePairs c with
    | some pct, some b, some c =>
      match (exec Sched.rev (emptySt [] []) (.needOracleSet b c pct)).2 with
      | .decision u need => (st, showFixed FxVerif.Gen.C17.powerDiffPrecision u ++ ":" ++ toString need)
      | .err e => (st, "err:" ++ e)
      | _ => (st, "bad-op")
    | _, _, _ => (st, "bad-op")
  | ["checksorted", inp, "|", outp] =>
    match parsePairs inp, parsePairs outp with
    | some i, some o =>
      let toNS := fun (e : String × Nat) => (⟨e.2, e.1⟩ : NS)
      if !(o.map toNS).isPerm (i.map toNS) then (st, "not-a-permutation")
      else if meetsSortContract missedLe (i.map toNS) (o.map toNS) then (st, "sorted-permutation") else (st, "inversion")
    | _, _ => (st, "bad-op")
  | ["oracleset", ms] =>
    match parsePairs ms with
    | some l =>
      -- the generic interpreter (records over the fields of BridgeValidator) and the two-field one must agree
      let viaRec := (sortMemberRecs (l.map fun e => memberRec e.2 e.1)).map fun r =>
        match fieldOf r "ExternalAddress" with
        | some (.s a) => a
        | _ => "?"
      let viaNS := (sortMembers (l.map fun e => ⟨e.2, e.1⟩)).map (·.str)
      if viaRec == viaNS then (st, showList viaRec) else (st, "model-disagreement")
    | none => (st, "bad-op")
  | ["ack", amount, spelling, ms] =>
    let parseMember (e : String) : Option (String × String) :=
      match e.splitOn ":" with
      | [n, v] => some (n, v)
      | _ => none
    match amount.toNat?, spelling.toNat?, (if ms == "-" then some [] else (ms.splitOn ";").mapM parseMember) with
    | some amount, some spelling, some members =>
      match runAck ackSteps Sched.alt ⟨0, 0, 0, 0, 0⟩ amount ⟨members, spelling⟩ with
      | (s', none) => (st, s!"ok refund={s'.bankRefund}")
      | (s', some e) => (st, s!"err:{e} refund={s'.bankRefund}")
    | _, _, _ => (st, "bad-op")
  | ["powerdiff", b, "|", c] =>
    match parsePairs b, parsePairs c with
    | some b, some c => (st, toString (powerDiffNumerator b c))
    | _, _ => (st, "bad-op")
  | ["swget", prev, store] =>
    let names (w : String) : List String := if w == "-" then [] else w.splitOn ","
    let mem : Option (List String) := if prev == "none" then none else some (names prev)
    let rec? : Option (List String) := if store == "absent" then none else some (names store)
    (st, showList (switchGetOp mem rec?))
  | ["supportchains", l] => (st, ",".intercalate (sortChains (l.splitOn ",")))
  | ["batchfees", l] =>
    match (l.splitOn ";").mapM parseFee with
    | some es => (st, showFees (allBatchFees es))
    | none => (st, "bad-op")
  | _ => (st, "bad-op")

def main : IO Unit := runDriver step ()
