import FxVerif.Model.C17
import FxVerif.Model.Util
/-! line-protocol driver for the C17 models: `lake env lean --run Driver/C17.lean < ops.txt`

ops:
* `powerdiff <b> | <c>`  — lists `addr:power,…` (`-` = empty); answers `powerDiffNumerator b c`, the integer the float
  `delta` of `BridgeValidators.PowerDiff` holds before the division by 2^32-1;
* `supportchains <names,…>` — the registered chain names in any order; answers the sorted list (`GetSupportChains`);
* `batchfees <token:fee:amount;…>` — the unbatched pool in any order; answers what `GetAllBatchFees` returns: per token
  the summed fee, summed amount and tx count, sorted by token (`token:fees:amount:count,…`).
-/
open FxVerif FxVerif.Util FxVerif.Model.C17

def parsePairs (w : String) : Option (List (String × Nat)) :=
  if w == "-" then some [] else
  (w.splitOn ",").mapM fun e =>
    match e.splitOn ":" with
    | [a, p] => p.toNat?.map (fun n => (a, n))
    | _ => none

def strLe (a b : String) : Bool := decide (a ≤ b)

def parseFee (e : String) : Option (String × Nat × Nat) :=
  match e.splitOn ":" with
  | [t, f, a] =>
    match f.toNat?, a.toNat? with
    | some f, some a => some (t, f, a)
    | _, _ => none
  | _ => none

def showFees (fs : List (String × Nat × Nat × Nat)) : String :=
  if fs.isEmpty then "-" else
  ",".intercalate (fs.map fun e => s!"{e.1}:{e.2.1}:{e.2.2.1}:{e.2.2.2}")

def step (st : Unit) (line : String) : Unit × String :=
  match words line with
  | "reset" :: _ => (st, "ok")
  | ["powerdiff", b, "|", c] =>
    match parsePairs b, parsePairs c with
    | some b, some c => (st, toString (powerDiffNumerator b c))
    | _, _ => (st, "bad-op")
  | ["supportchains", l] => (st, ",".intercalate (sortChains (l.splitOn ",")))
  | ["batchfees", l] =>
    match (l.splitOn ";").mapM parseFee with
    | some es => (st, showFees (allBatchFees es))
    | none => (st, "bad-op")
  | _ => (st, "bad-op")

def main : IO Unit := runDriver step ()
