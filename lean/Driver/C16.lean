import FxVerif.Model.C16
import FxVerif.Model.C16Sem
import FxVerif.Model.C16Store
import FxVerif.Model.C16Tx
import FxVerif.Model.C16Blk
import FxVerif.Model.C16Dep
import FxVerif.Model.Util
/-! line-protocol driver for the C16 model: `lake env lean --run Driver/C16.lean < ops.txt`

ops:
* `cfg <prefix-hex> <minLen> <maxLen>`            address configuration of the running app
* `spaces <name>…`                                  the store spaces the gov keeper knows
* `bech <str-hex>`                                  `sdk.AccAddressFromBech32`       → `ok:<bytes-hex>` | `err`
* `eip55 <str-hex>`                                 environment: the string is an EIP-55 spelling (Keccak not modelled)
* `parse <str-hex>`                                 `fxtypes.ParseAddress`           → `ok:<bytes-hex>` | `err`
* `evm20 <str-hex>`                                 `common.BytesToAddress(addr)` with `addr, _ := sdk.AccAddressFromBech32(s)` → `<20 bytes hex>`
* `fold <a-hex> <b-hex>`                            `strings.EqualFold`             → `true` | `false`
* `call <msg> <gov-hex> <auth-hex> <payloadOk> <chain> <govOk> <non-empty list fields>`   one routed message → the stage it ends in
* `hcall <type> <msg> <gov-hex> <auth-hex> <chain> <govOk> <non-empty list fields>`   the method serving the message on a value of that concrete type, called directly
* `tx|authz|gprop <msg> <gov-hex> <auth-hex> <signer/grantee bytes hex or -> <payloadOk> <chain> <govOk> <lists>`   the message inside a signed transaction / a MsgExec / a passed proposal
* `blk <gov-hex> t <msg> <auth-hex> <signer bytes hex> <payloadOk> <chain> <govOk> <lists> t …`   several signed transactions in ONE block (FinalizeBlock + Commit) → the stage of each
* `blkn <gov-hex> T <key-hex,…|-> (p <msg> <auth-hex> <payloadOk> <chain> <govOk> <lists> | x <grantee-hex> <msg> <auth-hex> <payloadOk> <chain> <govOk> <lists> | s <signer-hex> <ok|err>)… T …`
    a block of MULTI-MESSAGE, multi-signer transactions (privileged messages, MsgExec-wrapped ones, bank sends) → per transaction `rejected:basic | rejected:ante | failed-at:<message index> | ok`
* `dcall <type> <method> <gov-hex> <auth-hex>`         a dependency handler (SDK / IBC / ethermint) called directly
* `casreset`                                        empty scratch stores
* `cas <gov-hex> <auth-hex> <space:key:old:new>…`   one MsgUpdateStore through its branch
* `prop <gov-hex> m <auth-hex> <entry>… m …`        a passed proposal with several MsgUpdateStore messages
-/
open FxVerif FxVerif.Util FxVerif.Gen FxVerif.Model.C16

structure St where
  cfg : AddrCfg := { pref := strOf "cosmos", minLen := 1, maxLen := 255 }
  spaces : List String := []
  stores : Stores := []

def toStr (s : String) : Str := s.toList.map Char.toNat

def unhexS (w : String) : Option Str := (unhexStr w).map toStr

def mkEnv (cfg : AddrCfg) (gov : Str) (lists : List String := []) (good : Bool := true) : Env :=
  { cfg := cfg, gov := gov, modAddr := fun _ => [], field := fun _ => [], otherS := fun _ => [],
    otherB := fun _ => false, callB := fun _ => false, otherH := fun _ => none,
    listNonEmpty := fun f => lists.contains f, payloadGood := good, clob := fun _ => none,
    stateModAddr := fun _ => gov }  -- the x/auth state holds the module address for the governance account (monitored)

/-- anything after a guard "takes effect": the work changes the state and reports success -/
def world (routeOk : Bool) : World Nat :=
  { work := fun _ _ _ s => .ret .ok (s + 1), routeOk := routeOk, pick := 0, unknown := fun s => (.ok, s + 1) }

def parseEntry (w : String) : Option Entry :=
  match w.splitOn ":" with
  | [sp, k, o, n] =>
    match unhex k, unhex o, unhex n with
    | some k, some o, some n => some ⟨sp, k, o, n⟩
    | _, _, _ => none
  | _ => none

def skLe (a b : SKey × Bytes) : Bool :=
  if a.1.1 < b.1.1 then true else if b.1.1 < a.1.1 then false else bytesLe a.1.2 b.1.2

def showStores (s : Stores) : String :=
  let sorted := s.mergeSort skLe
  let body := ",".intercalate (sorted.map fun p => p.1.1 ++ "/" ++ hex p.1.2 ++ "=" ++ hex p.2)
  if body.isEmpty then "-" else body

/-- one MsgUpdateStore as the router runs it: ValidateBasic's authority decoding, then the handler on a branch -/
def updMsg (st : St) (gov auth : Str) (es : List Entry) : Stores → Res × Stores := fun S =>
  if vbDecodes C16Sem.msgInfos "x/gov/types.MsgUpdateStore" && (accAddress st.cfg auth).isNone then (.err, S)
  else updateStoreHandler st.spaces gov auth es S

/-- split `m <auth> e… m <auth> e…` into messages -/
partial def parseMsgs (ws : List String) : Option (List (Str × List Entry)) :=
  match ws with
  | [] => some []
  | "m" :: a :: rest =>
    let es := rest.takeWhile (· != "m")
    let tail := rest.dropWhile (· != "m")
    match unhexS a, es.mapM parseEntry, parseMsgs tail with
    | some a, some es, some ms => some ((a, es) :: ms)
    | _, _, _ => none
  | _ => none

/-- `t <msg> <auth> <signer> <pOk> <chain> <govOk> <lists>`… → the block's transactions, given the governance string -/
def parseBlock (st : St) : List String → Option (Str → List (BlockTx Nat))
  | [] => some fun _ => []
  | "t" :: msg :: authH :: whoH :: pOk :: chain :: govOk :: lists :: rest =>
    match routeOf C16Sem.services C16Sem.registrations msg, unhexS authH, unhex whoH, parseBlock st rest with
    | some (T, m), some auth, some who, some more =>
      some fun gov =>
        { env := mkEnv st.cfg gov (if lists == "-" then [] else lists.splitOn ",") (govOk == "1"),
          W := world (C16Sem.routes.contains chain), T := T, m := m, msg := msg, auth := auth,
          payloadOk := pOk == "1", signer := who } :: more gov
    | _, _, _, _ => none
  | _ => none

/-- a privileged message of a `blkn` line -/
def mkPriv (st : St) (msg authH pOk chain govOk lists : String) : Option (Str → PrivMsg Nat) :=
  match routeOf C16Sem.services C16Sem.registrations msg, unhexS authH with
  | some (T, m), some auth =>
    some fun gov =>
      { env := mkEnv st.cfg gov (if lists == "-" then [] else lists.splitOn ",") (govOk == "1"),
        W := world (C16Sem.routes.contains chain), T := T, m := m, msg := msg, auth := auth, payloadOk := pOk == "1" }
  | _, _ => none

/-- the messages of one transaction of a `blkn` line -/
def parseMsgsN (st : St) : List String → Option (Str → List (BMsg Nat))
  | [] => some fun _ => []
  | "p" :: msg :: authH :: pOk :: chain :: govOk :: lists :: rest =>
    match mkPriv st msg authH pOk chain govOk lists, parseMsgsN st rest with
    | some p, some more => some fun gov => .priv (p gov) :: more gov
    | _, _ => none
  | "x" :: grH :: msg :: authH :: pOk :: chain :: govOk :: lists :: rest =>
    match unhex grH, mkPriv st msg authH pOk chain govOk lists, parseMsgsN st rest with
    | some gr, some p, some more => some fun gov => .exec gr (p gov) :: more gov
    | _, _, _ => none
  | "s" :: whoH :: res :: rest =>
    match unhex whoH, parseMsgsN st rest with
    | some who, some more =>
      -- a bank send: does not touch the state the privileged handlers write; succeeds or fails (insufficient funds)
      some fun gov => .plain who (fun s => (if res == "ok" then .ok else .err, s)) :: more gov
    | _, _ => none
  | _ => none

/-- split the words of a `blkn` line at the `T` markers -/
def splitT : List String → List String → List (List String) → List (List String)
  | [], cur, acc => (acc ++ [cur.reverse])
  | "T" :: ws, cur, acc => splitT ws [] (acc ++ [cur.reverse])
  | w :: ws, cur, acc => splitT ws (w :: cur) acc

def parseTxN (st : St) : List String → Option (Str → BlockTxN Nat)
  | keysW :: ws =>
    match (if keysW == "-" then some [] else (keysW.splitOn ",").mapM unhex), parseMsgsN st ws with
    | some keys, some mk => some fun gov => { msgs := mk gov, keys := keys }
    | _, _ => none
  | [] => none

def showTxN (t : BlockTxN Nat) (r : TxStage × (Res × Nat)) (s : Nat) : String :=
  match r with
  | (.basic, _) => "rejected:basic"
  | (.ante, _) => "rejected:ante"
  | (.msgs, (.ok, _)) => "ok"
  | (_, _) =>
    match firstFail (t.msgs.map (·.handler prog C16Sem.msgInfos)) s 0 with
    | some i => "failed-at:" ++ toString i
    | none => "failed"

/-- run the transactions in order, printing each -/
def runBlockN : List (BlockTxN Nat) → Nat → List String
  | [], _ => []
  | t :: ts, s =>
    let r := txRunN prog C16Sem.msgInfos t s
    showTxN t r s :: runBlockN ts r.2.2

def step (st : St) (line : String) : St × String :=
  match words line with
  | "reset" :: _ => ({ st with stores := [] }, "ok")
  | ["cfg", p, lo, hi] =>
    match unhexS p with
    | some p => ({ st with cfg := { st.cfg with pref := p, minLen := lo.toNat!, maxLen := hi.toNat! } }, "ok")
    | none => (st, "bad-op")
  | ["eip55", h] =>
    -- environment: this string is the EIP-55 spelling of a 0x hex address (Keccak is not modelled)
    match unhexS h with
    | some x => let old := st.cfg.eip55; ({ st with cfg := { st.cfg with eip55 := fun s => s == x || old s } }, "ok")
    | none => (st, "bad-op")
  | ["parse", h] =>
    match unhexS h with
    | some s => (st, match parseAddress st.cfg s with | some bz => "ok:" ++ hex bz | none => "err")
    | none => (st, "bad-op")
  | ["evm20", h] =>
    match unhexS h with
    | some s => (st, hex (decodeOr st.cfg .evm20 s))
    | none => (st, "bad-op")
  | "spaces" :: names => ({ st with spaces := names }, "ok")
  | ["casreset"] => ({ st with stores := [] }, "ok")
  | ["bech", h] =>
    match unhexS h with
    | some s => (st, match accAddress st.cfg s with | some bz => "ok:" ++ hex bz | none => "err")
    | none => (st, "bad-op")
  | ["fold", a, b] =>
    match unhexS a, unhexS b with
    | some a, some b => (st, toString (foldEq a b))
    | _, _ => (st, "bad-op")
  | ["call", msg, govH, authH, pOk, chain, govOk, lists] =>
    match routeOf C16Sem.services C16Sem.registrations msg, unhexS govH, unhexS authH with
    | some (T, m), some gov, some auth =>
      let r := routedStage prog C16Sem.msgInfos (mkEnv st.cfg gov (if lists == "-" then [] else lists.splitOn ",") (govOk == "1")) auth (world (C16Sem.routes.contains chain)) (pOk == "1") T m msg 0
      (st, match r with
        | (.authorityFormat, _) => "rejected:authority-format"
        | (.payload, _) => "rejected:payload"
        | (.handler, (.err, 0)) => "rejected:signer"
        | (.handler, _) => "past-guard")
    | none, _, _ => (st, "unknown-message")
    | _, _, _ => (st, "bad-op")
  | ["hcall", T, msg, govH, authH, chain, govOk, lists] =>
    -- handler level: the method serving `msg` on a value of concrete type `T`, called directly (no ValidateBasic stage)
    match methodOf C16Sem.services msg, unhexS govH, unhexS authH with
    | some m, some gov, some auth =>
      let env := mkEnv st.cfg gov (if lists == "-" then [] else lists.splitOn ",") (govOk == "1")
      let routeOk := C16Sem.routes.contains chain
      let r := exec prog env auth (world routeOk) 4 T m 0
      (st, match r with
        | (.err, 0) => if needsRoute prog T m && !routeOk then "rejected:no-route" else "rejected:signer"
        | _ => "past-guard")
    | none, _, _ => (st, "unknown-message")
    | _, _, _ => (st, "bad-op")
  | ["dcall", T, m, govH, authH] =>
    -- a dependency handler (Gen/C16Dep.lean) called directly
    match unhexS govH, unhexS authH with
    | some gov, some auth =>
      if (resolve depProg T m).isNone then (st, "unknown-handler") else
      (st, match exec depProg (mkEnv st.cfg gov) auth (world true) 4 T m 0 with
        | (.err, 0) => "rejected"
        | _ => "past-guard")
    | _, _ => (st, "bad-op")
  | "cas" :: govH :: authH :: ups =>
    match unhexS govH, unhexS authH, ups.mapM parseEntry with
    | some gov, some auth, some es =>
      let (r, ctx) := updMsg st gov auth es st.stores
      match r with
      | .ok => ({ st with stores := ctx }, "ok " ++ showStores ctx)
      | .err => (st, "err " ++ showStores st.stores ++ " ctx=" ++ showStores ctx)
    | _, _, _ => (st, "bad-op")
  | "prop" :: govH :: ws =>
    match unhexS govH, parseMsgs ws with
    | some gov, some ms =>
      let fs := ms.map fun (a, es) => updMsg st gov a es
      let (r, S') := runProposalWith C16Sem.proposalExec fs st.stores
      ({ st with stores := S' }, (if r == .ok then "passed " else "failed ") ++ showStores S')
    | _, _ => (st, "bad-op")
  | "blkn" :: govH :: "T" :: ws =>
    match unhexS govH, (splitT ws [] []).mapM (parseTxN st) with
    | some gov, some mks => (st, " ".intercalate (runBlockN (mks.map (· gov)) 0))
    | _, _ => (st, "bad-op")
  | "blk" :: govH :: ws =>
    -- a whole block: `t <msg> <auth-hex> <signer bytes hex> <payloadOk> <chain> <govOk> <lists>` per transaction
    match unhexS govH, parseBlock st ws with
    | some gov, some mk =>
      let (rs, _) := blockRun prog C16Sem.msgInfos (mk gov) 0
      (st, " ".intercalate (rs.map fun r => match r with
        | (.basic, _) => "rejected:basic"
        | (.ante, _) => "rejected:ante"
        | (.authz, _) => "rejected:authz"
        | (.submit, _) => "rejected:submit"
        | (.msgs, .err) => "rejected:signer"
        | (.msgs, .ok) => "past-guard"))
    | _, _ => (st, "bad-op")
  | [kind, msg, govH, authH, whoH, pOk, chain, govOk, lists] =>
    -- `tx` / `authz` / `gprop`: a privileged message inside a signed transaction, inside a MsgExec, inside a proposal
    match routeOf C16Sem.services C16Sem.registrations msg, unhexS govH, unhexS authH, unhex whoH with
    | some (T, m), some gov, some auth, some who =>
      let env := mkEnv st.cfg gov (if lists == "-" then [] else lists.splitOn ",") (govOk == "1")
      let W := world (C16Sem.routes.contains chain)
      let r? : Option (TxStage × (Res × Nat)) :=
        if kind == "tx" then some (txRun prog C16Sem.msgInfos env auth W (pOk == "1") T m msg who 0)
        else if kind == "authz" then some (authzRun prog C16Sem.msgInfos env auth W (pOk == "1") T m msg who 0)
        else if kind == "gprop" then some (proposalRun prog C16Sem.msgInfos env auth W (pOk == "1") T m msg 0)
        else none
      (st, match r? with
        | none => "bad-op"
        | some (.basic, _) => "rejected:basic"
        | some (.ante, _) => "rejected:ante"
        | some (.authz, _) => "rejected:authz"
        | some (.submit, _) => "rejected:submit"
        | some (.msgs, (.err, 0)) => "rejected:signer"
        | some (.msgs, _) => "past-guard")
    | none, _, _, _ => (st, "unknown-message")
    | _, _, _, _ => (st, "bad-op")
  | _ => (st, "bad-op")

def main : IO Unit := runDriver step ({} : St)
