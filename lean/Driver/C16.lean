import FxVerif.Model.C16
import FxVerif.Model.Util
/-! line-protocol driver for the C16 model: `lake env lean --run Driver/C16.lean < ops.txt` -/
open FxVerif FxVerif.Util FxVerif.Gen.C16 FxVerif.Model.C16

structure St where
  kv : KV := []

def routerEntry (msg : String) : Option Handler :=
  -- the registered service: the crosschain router forwarder if there is one, else the only handler
  match handlers.find? (fun h => h.msg == msg && (match h.shape with | .forward _ => true | _ => false)) with
  | some h => some h
  | none => handlers.find? (fun h => h.msg == msg)

def parseUpd (w : String) : Option Upd :=
  match w.splitOn ":" with
  | [sp, k, o, n] =>
    match unhex k, unhex o, unhex n with
    | some k, some o, some n => some ⟨sp == "1", k, o, n⟩
    | _, _, _ => none
  | _ => none

def showKV (s : KV) : String :=
  let sorted := s.mergeSort (fun a b => bytesLe a.1 b.1)
  ",".intercalate (sorted.map fun p => (hex p.1) ++ "=" ++ hex p.2)

def step (st : St) (line : String) : St × String :=
  match words line with
  | "reset" :: _ => ({}, "ok")
  | ["casreset"] => ({ st with kv := [] }, "ok")
  | ["call", msg, govH, authH, vb, route] =>
    match routerEntry msg, unhexStr govH, unhexStr authH with
    | some h, some gov, some auth =>
      if vb == "0" then (st, "rejected") else
      let r := run (σ := Nat) handlers h.shape gov.toList auth.toList (route == "1") (fun s => (.ok, s + 1)) 0
      (st, if r == (Res.err, 0) then "rejected" else "past-guard")
    | none, _, _ => (st, "unknown-message")
    | _, _, _ => (st, "bad-op")
  | "cas" :: authOk :: ups =>
    match ups.mapM parseUpd with
    | some us =>
      let (r, kv') := updateStore ['g'] (if authOk == "1" then ['g'] else ['x']) us st.kv
      ({ st with kv := kv' }, (if r == .ok then "ok" else "err") ++ " " ++ showKV kv')
    | none => (st, "bad-op")
  | _ => (st, "bad-op")

def main : IO Unit := runDriver step ({} : St)
